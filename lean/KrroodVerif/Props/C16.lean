import KrroodVerif.Model.Descriptor
import KrroodVerif.Props.C15
/-!
# C16 — Every way of writing a descriptor-managed field keeps the data and infers alike

Model: `stepC` / `runC` (the monitored container: contents + log of `_on_add` hook calls), under a `Quirks` record.
Spec: `specStepC` / `specC` (Python list / set semantics; every element that becomes part of the field enters the
log). The log is what gets asserted into the symbol graph, so by C15 the relations are the closure of the log
(`C16_relations`).
-/
namespace KrroodVerif.PD

/-- model state and specification state agree: same contents (as a list for list fields, as a set for set fields),
same elements asserted, and everything stored has been asserted -/
structure CRel (isSet : Bool) (m s : CState) : Prop where
  list_eq : isSet = false → m.c = s.c
  mem_c : ∀ x, x ∈ m.c ↔ x ∈ s.c
  mem_calls : ∀ x, x ∈ m.calls ↔ x ∈ s.calls
  c_in_calls : ∀ x ∈ m.c, x ∈ m.calls

theorem mem_rawAdd (isSet : Bool) (c : List Nat) (x y : Nat) : y ∈ rawAdd isSet c x ↔ y ∈ c ∨ y = x := by
  unfold rawAdd storeAdd kindOfSet
  cases isSet
  · simp [List.mem_append]
  · by_cases hc : x ∈ c
    · simp only [if_true, hc]
      constructor
      · exact Or.inl
      · rintro (h | rfl); exact h; exact hc
    · simp [hc, List.mem_append]

theorem mem_foldl_rawAdd (isSet : Bool) (xs : List Nat) : ∀ (c : List Nat) (y : Nat),
    y ∈ xs.foldl (rawAdd isSet) c ↔ y ∈ c ∨ y ∈ xs := by
  induction xs with
  | nil => intro c y; simp
  | cons x xs ih =>
    intro c y
    simp only [List.foldl_cons, ih, mem_rawAdd, List.mem_cons]
    constructor
    · rintro ((h | h) | h); exact Or.inl h; exact Or.inr (Or.inl h); exact Or.inr (Or.inr h)
    · rintro (h | h | h); exact Or.inl (Or.inl h); exact Or.inl (Or.inr h); exact Or.inr h

theorem foldl_rawAdd_list (xs : List Nat) : ∀ c : List Nat, xs.foldl (rawAdd false) c = c ++ xs := by
  induction xs with
  | nil => intro c; simp
  | cons x xs ih =>
    intro c
    simp only [List.foldl_cons, ih]
    simp [rawAdd, storeAdd, kindOfSet]

theorem foldl_addItemC (isSet : Bool) (xs : List Nat) : ∀ σ : CState,
    xs.foldl (addItemC isSet) σ = ⟨xs.foldl (rawAdd isSet) σ.c, σ.calls ++ xs⟩ := by
  induction xs with
  | nil => intro σ; simp
  | cons x xs ih =>
    intro σ
    simp only [List.foldl_cons, ih, addItemC, List.append_assoc, List.singleton_append]

theorem mem_insertSorted (x y : Nat) (ys : List Nat) : y ∈ insertSorted x ys ↔ y = x ∨ y ∈ ys := by
  induction ys with
  | nil => simp [insertSorted]
  | cons z zs ih =>
    unfold insertSorted
    by_cases h1 : x < z
    · simp [h1]
    · by_cases h2 : x = z
      · subst h2; simp
      · simp only [h1, h2, if_false, List.mem_cons, ih]
        constructor
        · rintro (h | h | h); exact Or.inr (Or.inl h); exact Or.inl h; exact Or.inr (Or.inr h)
        · rintro (h | h | h); exact Or.inr (Or.inl h); exact Or.inl h; exact Or.inr (Or.inr h)

theorem mem_hashOrder (xs : List Nat) (y : Nat) : y ∈ hashOrder xs ↔ y ∈ xs := by
  unfold hashOrder
  induction xs with
  | nil => simp
  | cons x xs ih => simp only [List.foldr_cons, mem_insertSorted, ih, List.mem_cons]

theorem mem_walkOrder (Q : Quirks) (isSet : Bool) (xs : List Nat) (y : Nat) :
    y ∈ walkOrder Q isSet xs ↔ y ∈ xs := by
  unfold walkOrder; split
  · exact mem_hashOrder xs y
  · rfl

theorem setterC_eq (Q : Quirks) (isSet : Bool) (σ : CState) (v : Assigned) :
    setterC Q isSet σ v =
      let items := match v with
        | .same => if Q.setterClearsAlias then [] else walkOrder Q isSet σ.c
        | .other xs => walkOrder Q isSet xs
        | .lazyOf v => walkOrder Q isSet (v.eval (if Q.setterClearsAlias then [] else σ.c))
      ⟨items.foldl (rawAdd isSet) [], σ.calls ++ items⟩ := by
  cases v <;> simp only [setterC, foldl_addItemC]

theorem mem_pyInsert (c : List Nat) (i : Int) (x y : Nat) : y ∈ pyInsert c i x ↔ y ∈ c ∨ y = x := by
  unfold pyInsert
  generalize pyInsertPos c.length i = k
  have h : y ∈ c ↔ y ∈ c.take k ∨ y ∈ c.drop k := by
    conv => lhs; rw [← List.take_append_drop k c]
    exact List.mem_append
  simp only [List.mem_append, List.mem_singleton, h]
  constructor
  · rintro ((h | h) | h); exact Or.inl (Or.inl h); exact Or.inr h; exact Or.inl (Or.inr h)
  · rintro ((h | h) | h); exact Or.inl (Or.inl h); exact Or.inr h; exact Or.inl (Or.inr h)

theorem mem_pySetItem (c : List Nat) (i : Int) (x y : Nat) (h : y ∈ pySetItem c i x) : y ∈ c ∨ y = x := by
  unfold pySetItem at h
  split at h
  · exact List.mem_or_eq_of_mem_set h
  · exact Or.inl h

/-- what an iterable over the container yields depends, as a set, only on the container as a set -/
theorem View.eval_mem_congr (v : View) (c c' : List Nat) (h : ∀ y, y ∈ c ↔ y ∈ c') (y : Nat) :
    y ∈ v.eval c ↔ y ∈ v.eval c' := by
  cases v with
  | filt keep => simp only [View.eval, List.mem_filter, h]
  | rev => simp only [View.eval, List.mem_reverse, h]
  | iter => exact h y
  | chain xs => simp only [View.eval, List.mem_append, h]
  | keys => simp only [View.eval, mem_foldl_rawAdd, List.not_mem_nil, false_or, h]

/-- one operation outside the triggers keeps model and specification in agreement -/
theorem stepC_rel (Q : Quirks) (isSet : Bool) (m s : CState) (op : COp) (h : CRel isSet m s)
    (hok : op.okFor Q isSet = true) (happ : op.applicable isSet = true) :
    CRel isSet (stepC Q isSet m op) (specStepC isSet s op) := by
  cases op with
  | append x =>
    simp only [stepC, specStepC, addItemC]
    refine ⟨fun hl => by rw [h.list_eq hl], ?_, ?_, ?_⟩
    · intro y; simp only [mem_rawAdd, h.mem_c]
    · intro y; simp only [List.mem_append, h.mem_calls]
    · intro y hy
      rcases (mem_rawAdd _ _ _ _).mp hy with hy | rfl
      · exact List.mem_append_left _ (h.c_in_calls y hy)
      · simp
  | extend xs =>
    simp only [stepC, specStepC, foldl_addItemC]
    refine ⟨fun hl => by rw [h.list_eq hl], ?_, ?_, ?_⟩
    · intro y; simp only [mem_foldl_rawAdd, h.mem_c]
    · intro y; simp only [List.mem_append, h.mem_calls]
    · intro y hy
      rcases (mem_foldl_rawAdd _ _ _ _).mp hy with hy | hy
      · exact List.mem_append_left _ (h.c_in_calls y hy)
      · exact List.mem_append_right _ hy
  | insert i x =>
    simp only [stepC, specStepC]
    refine ⟨fun hl => by rw [h.list_eq hl], ?_, ?_, ?_⟩
    · intro y; simp only [mem_pyInsert, h.mem_c]
    · intro y; simp only [List.mem_append, h.mem_calls]
    · intro y hy
      rcases (mem_pyInsert _ _ _ _).mp hy with hy | rfl
      · exact List.mem_append_left _ (h.c_in_calls y hy)
      · simp
  | setitem i x =>
    have hl : isSet = false := by simpa [COp.applicable] using happ
    simp only [stepC, specStepC]
    have hc := h.list_eq hl
    refine ⟨fun _ => by rw [hc], ?_, ?_, ?_⟩
    · intro y; rw [hc]
    · intro y; simp only [List.mem_append, h.mem_calls]
    · intro y hy
      rcases mem_pySetItem _ _ _ _ hy with hy | rfl
      · exact List.mem_append_left _ (h.c_in_calls y hy)
      · simp
  | assign xs =>
    simp only [stepC, specStepC, setterC_eq]
    refine ⟨?_, ?_, ?_, ?_⟩
    · intro hl
      subst hl
      simp only [COp.okFor, Bool.false_or, Bool.or_eq_true, Bool.not_eq_eq_eq_not, Bool.not_true,
        beq_iff_eq] at hok
      have : walkOrder Q false xs = xs := by
        unfold walkOrder
        rcases hok with hq | hq
        · simp [hq]
        · split
          · exact hq
          · rfl
      simp only [this]
    · intro y; simp only [mem_foldl_rawAdd, mem_walkOrder]
    · intro y; simp only [List.mem_append, mem_walkOrder, h.mem_calls]
    · intro y hy
      rcases (mem_foldl_rawAdd _ _ _ _).mp hy with hy | hy
      · simp at hy
      · exact List.mem_append_right _ hy
  | assignSelf =>
    simp only [COp.okFor, Bool.and_eq_true, Bool.not_eq_eq_eq_not, Bool.not_true, Bool.or_eq_true] at hok
    obtain ⟨hq1, hq2⟩ := hok
    simp only [stepC, specStepC, setterC_eq, hq1, Bool.false_eq_true, if_false]
    refine ⟨?_, ?_, ?_, ?_⟩
    · intro hl
      subst hl
      have hq3 : Q.setterHashOrder = false := by simpa using hq2
      have : walkOrder Q false m.c = m.c := by simp [walkOrder, hq3]
      simp only [this, foldl_rawAdd_list, List.nil_append]
      exact h.list_eq rfl
    · intro y; simp only [mem_foldl_rawAdd, mem_walkOrder, List.not_mem_nil, false_or, h.mem_c]
    · intro y
      simp only [List.mem_append, mem_walkOrder]
      rw [← h.mem_calls]
      constructor
      · rintro (hy | hy); exact hy; exact h.c_in_calls y hy
      · exact Or.inl
    · intro y hy
      rcases (mem_foldl_rawAdd _ _ _ _).mp hy with hy | hy
      · simp at hy
      · exact List.mem_append_right _ hy
  | assignView v =>
    simp only [COp.okFor, Bool.and_eq_true, Bool.not_eq_eq_eq_not, Bool.not_true, Bool.or_eq_true] at hok
    obtain ⟨hq1, hq2⟩ := hok
    simp only [stepC, specStepC, setterC_eq, hq1, Bool.false_eq_true, if_false]
    refine ⟨?_, ?_, ?_, ?_⟩
    · intro hl
      subst hl
      have hq3 : Q.setterHashOrder = false := by simpa using hq2
      have : ∀ l, walkOrder Q false l = l := by intro l; simp [walkOrder, hq3]
      simp only [this, h.list_eq rfl]
    · intro y
      simp only [mem_foldl_rawAdd, mem_walkOrder, List.not_mem_nil, false_or]
      exact View.eval_mem_congr v _ _ h.mem_c y
    · intro y
      simp only [List.mem_append, mem_walkOrder, h.mem_calls, View.eval_mem_congr v _ _ h.mem_c y]
    · intro y hy
      rcases (mem_foldl_rawAdd _ _ _ _).mp hy with hy | hy
      · simp at hy
      · exact List.mem_append_right _ hy
  | iadd xs =>
    simp only [COp.okFor, Bool.and_eq_true, Bool.not_eq_eq_eq_not, Bool.not_true, Bool.or_eq_true] at hok
    obtain ⟨hq1, hq2⟩ := hok
    simp only [stepC, specStepC, setterC_eq, hq1, Bool.false_eq_true, if_false]
    have hc1 : (inplaceC Q isSet m xs).c = xs.foldl (rawAdd isSet) m.c := by
      unfold inplaceC; split
      · rfl
      · rw [foldl_addItemC]
    have hcalls : ∀ y, y ∈ (inplaceC Q isSet m xs).calls ++ walkOrder Q isSet (inplaceC Q isSet m xs).c ↔
        y ∈ m.calls ∨ y ∈ xs := by
      intro y
      simp only [List.mem_append, mem_walkOrder, hc1, mem_foldl_rawAdd]
      unfold inplaceC; split
      · constructor
        · rintro (hy | hy | hy); exact Or.inl hy; exact Or.inl (h.c_in_calls y hy); exact Or.inr hy
        · rintro (hy | hy); exact Or.inl hy; exact Or.inr (Or.inr hy)
      · rw [foldl_addItemC]
        simp only [List.mem_append]
        constructor
        · rintro ((hy | hy) | hy | hy)
          · exact Or.inl hy
          · exact Or.inr hy
          · exact Or.inl (h.c_in_calls y hy)
          · exact Or.inr hy
        · rintro (hy | hy); exact Or.inl (Or.inl hy); exact Or.inr (Or.inr hy)
    refine ⟨?_, ?_, ?_, ?_⟩
    · intro hl
      subst hl
      have hq3 : Q.setterHashOrder = false := by simpa using hq2
      have : ∀ l, walkOrder Q false l = l := by intro l; simp [walkOrder, hq3]
      simp only [this, hc1, foldl_rawAdd_list, List.nil_append, h.list_eq rfl]
    · intro y
      simp only [mem_foldl_rawAdd, mem_walkOrder, hc1, List.not_mem_nil, false_or, h.mem_c]
    · intro y
      rw [hcalls]; simp only [List.mem_append, h.mem_calls]
    · intro y hy
      rcases (mem_foldl_rawAdd _ _ _ _).mp hy with hy | hy
      · simp at hy
      · exact List.mem_append_right _ hy
  | iaddAlias xs =>
    have hq : Q.inplaceBypass = false := by simpa [COp.okFor] using hok
    simp only [stepC, specStepC, inplaceC, hq, Bool.false_eq_true, if_false, foldl_addItemC]
    refine ⟨fun hl => by rw [h.list_eq hl], ?_, ?_, ?_⟩
    · intro y; simp only [mem_foldl_rawAdd, h.mem_c]
    · intro y; simp only [List.mem_append, h.mem_calls]
    · intro y hy
      rcases (mem_foldl_rawAdd _ _ _ _).mp hy with hy | hy
      · exact List.mem_append_left _ (h.c_in_calls y hy)
      · exact List.mem_append_right _ hy

/-- **C16_general.** For every quirk setting: every sequence of write operations that stays outside the triggers of
the quirks that are on leaves the field with the contents Python semantics dictate and has asserted exactly the
elements that entered. -/
theorem C16_general (Q : Quirks) (isSet : Bool) (ops : List COp) :
    ∀ (m s : CState), CRel isSet m s →
      (∀ op ∈ ops, op.okFor Q isSet = true ∧ op.applicable isSet = true) →
      CRel isSet (runC Q isSet m ops) (specC isSet s ops) := by
  induction ops with
  | nil => intro m s h _; exact h
  | cons op ops ih =>
    intro m s h hops
    simp only [runC, specC, List.foldl_cons]
    have h1 := hops op List.mem_cons_self
    exact ih _ _ (stepC_rel Q isSet m s op h h1.1 h1.2) (fun o ho => hops o (List.mem_cons_of_mem _ ho))

theorem CRel.refl_of (isSet : Bool) (σ : CState) (h : ∀ x ∈ σ.c, x ∈ σ.calls) : CRel isSet σ σ :=
  ⟨fun _ => rfl, fun _ => Iff.rfl, fun _ => Iff.rfl, h⟩

theorem okFor_none (isSet : Bool) (op : COp) : op.okFor Quirks.none isSet = true := by
  cases op <;> simp [COp.okFor, Quirks.none]

/-- **C16_full.** With the setter that snapshots the assigned value before clearing and preserves its order, and
the in-place operators routed through `_add_item` (all quirks off): after ANY sequence of assignment of a new
collection, self-assignment, `+=` / `|=` (with or without re-assignment), append, extend, insert, item assignment,
add and update, from any contents, the field holds exactly what Python list / set semantics dictate and exactly the
elements that entered have been asserted. -/
theorem C16_full (isSet : Bool) (σ : CState) (hσ : ∀ x ∈ σ.c, x ∈ σ.calls) (ops : List COp)
    (happ : ∀ op ∈ ops, op.applicable isSet = true) :
    CRel isSet (runC Quirks.none isSet σ ops) (specC isSet σ ops) :=
  C16_general Quirks.none isSet ops σ σ (CRel.refl_of isSet σ hσ)
    (fun op ho => ⟨okFor_none isSet op, happ op ho⟩)

/-- **C16_partial.** The code as it is (all quirks on): the same holds for sequences of append, extend, insert,
item assignment, add, update and assignment of a fresh collection that is a set, or a list already in hash order
without repetitions — i.e. outside the four triggers. -/
theorem C16_partial (isSet : Bool) (σ : CState) (hσ : ∀ x ∈ σ.c, x ∈ σ.calls) (ops : List COp)
    (happ : ∀ op ∈ ops, op.applicable isSet = true)
    (h1 : trigSelfAssign ops = false) (h2 : trigIadd ops = false) (h3 : trigListOrder isSet ops = false)
    (h4 : trigBypass ops = false) :
    CRel isSet (runC Quirks.asIs isSet σ ops) (specC isSet σ ops) := by
  apply C16_general Quirks.asIs isSet ops σ σ (CRel.refl_of isSet σ hσ)
  intro op ho
  refine ⟨?_, happ op ho⟩
  cases op with
  | assign xs =>
    cases isSet with
    | true => simp [COp.okFor]
    | false =>
      simp only [trigListOrder, Bool.not_false, Bool.true_and, List.any_eq_false] at h3
      have := h3 _ ho
      simp only [bne_iff_ne, ne_eq, Decidable.not_not] at this
      simp [COp.okFor, this]
  | assignSelf =>
    simp only [trigSelfAssign, List.any_eq_false] at h1
    exact absurd rfl (h1 _ ho)
  | assignView v =>
    simp only [trigSelfAssign, List.any_eq_false] at h1
    exact absurd rfl (h1 _ ho)
  | iadd xs =>
    simp only [trigIadd, List.any_eq_false] at h2
    exact absurd rfl (h2 _ ho)
  | iaddAlias xs =>
    simp only [trigBypass, List.any_eq_false] at h4
    exact absurd rfl (h4 _ ho)
  | _ => rfl

/-- **C16_relations.** What the symbol graph holds after the writes: the elements in the hook log are asserted
through `add_to_graph`, so (C15) the relations are exactly the closure of `(f, a, x)` for the elements `x` that
entered according to the specification — "the same inferences as if appended individually", in any order. -/
theorem C16_relations (S : Schema) (W : World) (hW : W.WF) (f a : Nat) (isSet : Bool) (m s : CState)
    (h : CRel isSet m s)
    (hin : ∀ t ∈ m.calls, (f, a, t) ∈ allFacts S.fields.length W.size) (x : Fact) :
    x ∈ run (schemaRules S W) (fuelFor S W) (m.calls.map fun t => (f, a, t)) ↔
      Derivable (schemaRules S W) (fun y => ∃ t ∈ s.calls, y = (f, a, t)) x := by
  unfold fuelFor
  rw [run_eq_closure (schemaRules S W) _ (schema_UClosed S W hW) _ (by
    intro r hr; simp only [List.mem_map] at hr; obtain ⟨t, ht, rfl⟩ := hr; exact hin t ht)]
  have : (fun y => y ∈ m.calls.map fun t => (f, a, t)) = (fun y => ∃ t ∈ s.calls, y = (f, a, t)) := by
    funext y
    apply propext
    simp only [List.mem_map]
    constructor
    · rintro ⟨t, ht, rfl⟩; exact ⟨t, (h.mem_calls t).mp ht, rfl⟩
    · rintro ⟨t, ht, rfl⟩; exact ⟨t, (h.mem_calls t).mpr ht, rfl⟩
  rw [this]

/-! ### The four findings, as tests on concrete witnesses (`decide`), each inside its trigger -/

/-- F-C16-1: `x.f = x.f` empties the field -/
theorem C16_cex_self_assign :
    trigSelfAssign [.assignSelf] = true ∧
    (runC Quirks.asIs false ⟨[1, 2], [1, 2]⟩ [.assignSelf]).c = [] ∧
    (specC false ⟨[1, 2], [1, 2]⟩ [.assignSelf]).c = [1, 2] := by decide

/-- F-C16-2: `x.f += [2]` / `x.f |= {2}` empties the field -/
theorem C16_cex_iadd :
    trigIadd [.iadd [2]] = true ∧
    (runC Quirks.asIs false ⟨[1], [1]⟩ [.iadd [2]]).c = [] ∧ (specC false ⟨[1], [1]⟩ [.iadd [2]]).c = [1, 2] ∧
    (runC Quirks.asIs true ⟨[1], [1]⟩ [.iadd [2]]).c = [] := by decide

/-- F-C16-3: an assigned list comes back without repetitions, in hash order -/
theorem C16_cex_list_order :
    trigListOrder false [.assign [3, 1, 3, 0]] = true ∧
    (runC Quirks.asIs false ⟨[], []⟩ [.assign [3, 1, 3, 0]]).c = [0, 1, 3] ∧
    (specC false ⟨[], []⟩ [.assign [3, 1, 3, 0]]).c = [3, 1, 3, 0] := by decide

/-- F-C16-4: `s = x.f; s |= {4}` stores the element without asserting it -/
theorem C16_cex_ior_bypass :
    trigBypass [.iaddAlias [4]] = true ∧
    (runC Quirks.asIs true ⟨[1], [1]⟩ [.iaddAlias [4]]) = ⟨[1, 4], [1]⟩ ∧
    (specC true ⟨[1], [1]⟩ [.iaddAlias [4]]) = ⟨[1, 4], [1, 4]⟩ := by decide

/-! Non-vacuity of `C16_partial` / `C16_full` (tests): a sequence of every admitted operation -/
example :
    let ops : List COp := [.append 3, .extend [1, 3], .insert (-1) 2, .setitem 0 5, .assign [0, 4, 7], .append 4]
    (∀ op ∈ ops, op.applicable false = true) ∧ trigSelfAssign ops = false ∧ trigIadd ops = false ∧
    trigListOrder false ops = false ∧ trigBypass ops = false ∧
    runC Quirks.asIs false ⟨[], []⟩ ops = ⟨[0, 4, 7, 4], [3, 1, 3, 2, 5, 0, 4, 7, 4]⟩ := by decide
example :
    let ops : List COp := [.append 3, .assignSelf, .iadd [1, 3], .iaddAlias [2], .assign [3, 1, 3]]
    (runC Quirks.none false ⟨[], []⟩ ops).c = (specC false ⟨[], []⟩ ops).c ∧
    (runC Quirks.none false ⟨[], []⟩ [.append 3, .assignSelf, .iadd [1, 3], .iaddAlias [2]]).c = [3, 1, 3, 2] := by
  decide

/-! ### Two owners: a field whose first assignment receives another instance's live container -/

structure TRel (isSet : Bool) (m s : TState) : Prop where
  ra : CRel isSet m.a s.a
  rb : CRel isSet m.b s.b
  notBroke : m.broke = false

theorem walkOrder_none_list (xs : List Nat) : walkOrder Quirks.none false xs = xs := by
  simp [walkOrder, Quirks.none]

/-- a write through one of the two fields while they do not share a container -/
theorem stepT_on_rel (T : TQuirks) (later isSet : Bool) (m s : TState) (w : Who) (op : COp)
    (h : TRel isSet m s) (hsh : m.shared = false) (happ : op.applicable isSet = true) :
    TRel isSet (stepT Quirks.none T later isSet m (.on w op)) (specStepT isSet s (.on w op)) ∧
    (stepT Quirks.none T later isSet m (.on w op)).shared = false := by
  have hb := h.notBroke
  cases w with
  | A =>
    simp only [stepT, hb, Bool.false_eq_true, if_false, hsh, specStepT]
    exact ⟨⟨stepC_rel Quirks.none isSet m.a s.a op h.ra (okFor_none isSet op) happ, h.rb, rfl⟩, trivial⟩
  | B =>
    simp only [stepT, hb, Bool.false_eq_true, if_false, hsh, specStepT]
    exact ⟨⟨h.ra, stepC_rel Quirks.none isSet m.b s.b op h.rb (okFor_none isSet op) happ, rfl⟩, trivial⟩

/-- the adoption itself, whether the container ends up shared or copied, as long as the constructor does not break -/
theorem stepT_adopt_rel (T : TQuirks) (later isSet : Bool) (m s : TState)
    (h : TRel isSet m s) (hbr : (T.ctorBreaks && later) = false) :
    TRel isSet (stepT Quirks.none T later isSet m .adopt) (specStepT isSet s .adopt) := by
  have hb := h.notBroke
  have hmem : ∀ y, y ∈ (walkOrder Quirks.none isSet m.a.c).foldl (rawAdd isSet) [] ↔ y ∈ m.a.c := by
    intro y; simp only [mem_foldl_rawAdd, mem_walkOrder, List.not_mem_nil, false_or]
  have hlist : isSet = false → (walkOrder Quirks.none isSet m.a.c).foldl (rawAdd isSet) [] = m.a.c := by
    intro hl; subst hl; rw [walkOrder_none_list, foldl_rawAdd_list]; rfl
  have rb' : CRel isSet
      ⟨(walkOrder Quirks.none isSet m.a.c).foldl (rawAdd isSet) [], m.b.calls ++ walkOrder Quirks.none isSet m.a.c⟩
      ⟨s.a.c.foldl (rawAdd isSet) [], s.b.calls ++ s.a.c⟩ := by
    refine ⟨?_, ?_, ?_, ?_⟩
    · intro hl
      show (walkOrder Quirks.none isSet m.a.c).foldl (rawAdd isSet) [] = s.a.c.foldl (rawAdd isSet) []
      rw [hlist hl, h.ra.list_eq hl]; subst hl; rw [foldl_rawAdd_list]; rfl
    · intro y
      show y ∈ (walkOrder Quirks.none isSet m.a.c).foldl (rawAdd isSet) [] ↔ y ∈ s.a.c.foldl (rawAdd isSet) []
      rw [hmem, mem_foldl_rawAdd, h.ra.mem_c]; simp
    · intro y
      show y ∈ m.b.calls ++ walkOrder Quirks.none isSet m.a.c ↔ y ∈ s.b.calls ++ s.a.c
      simp only [List.mem_append, mem_walkOrder, h.rb.mem_calls, h.ra.mem_c]
    · intro y hy
      change y ∈ (walkOrder Quirks.none isSet m.a.c).foldl (rawAdd isSet) [] at hy
      show y ∈ m.b.calls ++ walkOrder Quirks.none isSet m.a.c
      exact List.mem_append_right _ ((mem_walkOrder _ _ _ _).mpr ((hmem y).mp hy))
  simp only [stepT, hb, Bool.false_eq_true, if_false, specStepT]
  have hbr' : (T.ctorBreaks && later && !(walkOrder Quirks.none isSet m.a.c).isEmpty) = false := by
    rw [hbr]; rfl
  simp only [hbr', Bool.false_eq_true, if_false]
  cases hT : T.adoptShares
  · simp only [Bool.false_eq_true, if_false]
    exact ⟨h.ra, rb', rfl⟩
  · simp only [if_true]
    refine ⟨⟨?_, ?_, ?_, ?_⟩, rb', rfl⟩
    · intro hl
      show (walkOrder Quirks.none isSet m.a.c).foldl (rawAdd isSet) [] = s.a.c
      rw [hlist hl, h.ra.list_eq hl]
    · intro y
      show y ∈ (walkOrder Quirks.none isSet m.a.c).foldl (rawAdd isSet) [] ↔ y ∈ s.a.c
      rw [hmem, h.ra.mem_c]
    · exact h.ra.mem_calls
    · intro y hy
      change y ∈ (walkOrder Quirks.none isSet m.a.c).foldl (rawAdd isSet) [] at hy
      exact h.ra.c_in_calls y ((hmem y).mp hy)

/-- **C16_two_general.** Two owners, any repair state of the adoption: as long as the constructor does not break and
— when the adopted container is shared — nothing is written after the adoption, both fields hold what Python
semantics dictate for fields that own their contents, and each owner has asserted exactly what entered ITS field. -/
theorem C16_two_general (T : TQuirks) (later isSet : Bool) (hbr : (T.ctorBreaks && later) = false)
    (ops : List TOp) :
    ∀ (m s : TState), TRel isSet m s → m.shared = false →
      (∀ op ∈ ops, op.applicable isSet = true) →
      (T.adoptShares = true → trigAdoptShares ops = false) →
      TRel isSet (runT Quirks.none T later isSet m ops) (specT isSet s ops) := by
  induction ops with
  | nil => intro m s h _ _ _; exact h
  | cons op ops ih =>
    intro m s h hsh happ htrig
    simp only [runT, specT, List.foldl_cons]
    have happ' : ∀ o ∈ ops, o.applicable isSet = true := fun o ho => happ o (List.mem_cons_of_mem _ ho)
    cases op with
    | on w cop =>
      have h1 := stepT_on_rel T later isSet m s w cop h hsh (by simpa [TOp.applicable] using happ _ List.mem_cons_self)
      exact ih _ _ h1.1 h1.2 happ' (fun hT => by simpa [trigAdoptShares] using htrig hT)
    | adopt =>
      have h1 := stepT_adopt_rel T later isSet m s h hbr
      cases hT : T.adoptShares
      · -- copied: the fields stay separate
        have hsh' : (stepT Quirks.none T later isSet m .adopt).shared = false := by
          have hbr' : (T.ctorBreaks && later && !(walkOrder Quirks.none isSet m.a.c).isEmpty) = false := by
            rw [hbr]; rfl
          simp only [stepT, h.notBroke, Bool.false_eq_true, if_false, hbr', hT]
          exact hsh
        exact ih _ _ h1 hsh' happ' (fun hT' => by rw [hT] at hT'; cases hT')
      · -- shared: nothing follows
        have : ops = [] := by
          have := htrig hT
          simpa [trigAdoptShares] using this
        subst this
        exact h1

def TState.start (σ : CState) : TState := ⟨σ, ⟨[], []⟩, false, .A, false⟩

theorem TRel.start (isSet : Bool) (σ : CState) (hσ : ∀ x ∈ σ.c, x ∈ σ.calls) :
    TRel isSet (TState.start σ) (TState.start σ) :=
  ⟨CRel.refl_of isSet σ hσ, CRel.refl_of isSet _ (by intro x hx; cases hx), rfl⟩

/-- **C16_two_full.** With a first assignment that gives the new instance a container of its own and a constructor
that tolerates inference into fields not yet initialised (both quirks off): every two-owner sequence. -/
theorem C16_two_full (later isSet : Bool) (σ : CState) (hσ : ∀ x ∈ σ.c, x ∈ σ.calls) (ops : List TOp)
    (happ : ∀ op ∈ ops, op.applicable isSet = true) :
    TRel isSet (runT Quirks.none TQuirks.none later isSet (TState.start σ) ops) (specT isSet (TState.start σ) ops) :=
  C16_two_general TQuirks.none later isSet rfl ops _ _ (TRel.start isSet σ hσ) rfl happ (fun h => by cases h)

/-- **C16_two_partial.** The code as it is: the same for fields without a later-declared super-property field on
the same class, as long as nothing is written after the adoption. -/
theorem C16_two_partial (isSet : Bool) (σ : CState) (hσ : ∀ x ∈ σ.c, x ∈ σ.calls) (ops : List TOp)
    (happ : ∀ op ∈ ops, op.applicable isSet = true) (htrig : trigAdoptShares ops = false) :
    TRel isSet (runT Quirks.none TQuirks.asIs false isSet (TState.start σ) ops) (specT isSet (TState.start σ) ops) :=
  C16_two_general TQuirks.asIs false isSet rfl ops _ _ (TRel.start isSet σ hσ) rfl happ (fun _ => htrig)

/-- F-C16-5 (test): `b = Cls(f = a.f); b.f.append(2)` — the element shows up in `a.f` and is not recorded for `a` -/
theorem C16_cex_adopt_shares :
    let ops : List TOp := [.on .A (.append 1), .adopt, .on .B (.append 2)]
    trigAdoptShares ops = true ∧
    (runT Quirks.none TQuirks.asIs false false (TState.start ⟨[], []⟩) ops).a = ⟨[1, 2], [1]⟩ ∧
    (specT false (TState.start ⟨[], []⟩) ops).a = ⟨[1], [1]⟩ ∧
    (specT false (TState.start ⟨[], []⟩) ops).b = ⟨[1, 2], [1, 2]⟩ := by decide

/-- F-C16-6 (test): a constructor given initial contents for a field whose super-property field is declared later
raises -/
theorem C16_cex_ctor_breaks :
    (runT Quirks.none TQuirks.asIs true false (TState.start ⟨[], []⟩) [.on .A (.append 1), .adopt]).broke = true ∧
    (specT false (TState.start ⟨[], []⟩) [.on .A (.append 1), .adopt]).b = ⟨[1], [1]⟩ := by decide

/-- non-vacuity of `C16_two_partial` (test) -/
example :
    let ops : List TOp := [.on .A (.extend [3, 1]), .on .A (.assignView (.filt [1])), .adopt]
    trigAdoptShares ops = false ∧ (∀ op ∈ ops, op.applicable false = true) ∧
    (runT Quirks.none TQuirks.asIs false false (TState.start ⟨[], []⟩) ops).b = ⟨[1], [1]⟩ := by decide

end KrroodVerif.PD
