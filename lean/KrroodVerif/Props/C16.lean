import KrroodVerif.Model.Descriptor
import KrroodVerif.Props.C15
/-!
# C16 — Every way of writing a descriptor-managed field keeps the data and infers alike

Model: `stepC` / `runC` (the monitored container: contents + log of `_on_add` hook calls), under a `Quirks` record.
Spec: `specStepC` / `specC` (Python list / set semantics; every element that becomes part of the field enters the
log). The log is what gets asserted into the symbol graph, so by C15 the relations are the closure of the log
(`C16_relations`). Everything is parametric in `key : Nat → Nat`, the value an object compares by: lists store by
position and identity, sets keep the first of several equal elements, relations are per OBJECT.
-/
namespace KrroodVerif.PD

/-- model state and specification state agree: same contents (position by position; a set in insertion order), same
elements asserted, everything stored has been asserted, and a set holds no two equal elements -/
structure CRel (key : Nat → Nat) (isSet : Bool) (m s : CState) : Prop where
  c_eq : m.c = s.c
  mem_calls : ∀ x, x ∈ m.calls ↔ x ∈ s.calls
  c_in_calls : ∀ x ∈ m.c, x ∈ m.calls
  kd : isSet = true → KeyDistinct key m.c

theorem rawAdd_list (key : Nat → Nat) (c : List Nat) (x : Nat) : rawAdd key false c x = c ++ [x] := by
  simp [rawAdd]

theorem mem_rawAdd_sub (key : Nat → Nat) (isSet : Bool) (c : List Nat) (x y : Nat)
    (h : y ∈ rawAdd key isSet c x) : y ∈ c ∨ y = x := by
  unfold rawAdd at h
  split at h
  · split at h
    · exact Or.inl h
    · simpa [List.mem_append] using h
  · simpa [List.mem_append] using h

theorem mem_foldl_rawAdd_sub (key : Nat → Nat) (isSet : Bool) (xs : List Nat) : ∀ (c : List Nat) (y : Nat),
    y ∈ xs.foldl (rawAdd key isSet) c → y ∈ c ∨ y ∈ xs := by
  induction xs with
  | nil => intro c y h; exact Or.inl h
  | cons x xs ih =>
    intro c y h
    simp only [List.foldl_cons] at h
    rcases ih _ _ h with h | h
    · rcases mem_rawAdd_sub key isSet c x y h with h | h
      · exact Or.inl h
      · exact Or.inr (h ▸ List.mem_cons_self)
    · exact Or.inr (List.mem_cons_of_mem _ h)

theorem foldl_rawAdd_list (key : Nat → Nat) (xs : List Nat) :
    ∀ c : List Nat, xs.foldl (rawAdd key false) c = c ++ xs := by
  induction xs with
  | nil => intro c; simp
  | cons x xs ih => intro c; simp only [List.foldl_cons, ih, rawAdd_list]; simp

theorem recorded_cons (Q : Quirks) (x : Nat) (xs : List Nat) :
    Q.recorded (x :: xs) = Q.recorded [x] ++ Q.recorded xs := by
  simp only [Quirks.recorded, List.filter_cons, List.filter_nil]
  split <;> simp

theorem recorded_ungated (Q : Quirks) (h : Q.ungated = true) (xs : List Nat) : Q.recorded xs = xs := by
  simp only [Quirks.ungated, Bool.and_eq_true, List.isEmpty_iff, Bool.not_eq_eq_eq_not, Bool.not_true] at h
  simp [Quirks.recorded, h.1, h.2]

theorem foldl_addItemC (key : Nat → Nat) (Q : Quirks) (isSet : Bool) (xs : List Nat) : ∀ σ : CState,
    xs.foldl (addItemC key Q isSet) σ = ⟨xs.foldl (rawAdd key isSet) σ.c, σ.calls ++ Q.recorded xs⟩ := by
  induction xs with
  | nil => intro σ; simp [Quirks.recorded]
  | cons x xs ih =>
    intro σ
    simp only [List.foldl_cons, ih, addItemC, List.append_assoc, recorded_cons Q x xs]

/-- a set stays free of equal elements -/
theorem kd_rawAdd (key : Nat → Nat) (c : List Nat) (x : Nat) (h : KeyDistinct key c) :
    KeyDistinct key (rawAdd key true c x) := by
  unfold rawAdd
  simp only [if_true]
  split
  · exact h
  · rename_i hany
    simp only [List.any_eq_true, beq_iff_eq, not_exists, not_and] at hany
    unfold KeyDistinct
    rw [List.pairwise_append]
    refine ⟨h, List.pairwise_singleton _ _, ?_⟩
    intro a ha b hb
    simp only [List.mem_singleton] at hb
    subst hb
    exact hany a ha

theorem kd_foldl (key : Nat → Nat) (xs : List Nat) : ∀ c, KeyDistinct key c →
    KeyDistinct key (xs.foldl (rawAdd key true) c) := by
  induction xs with
  | nil => intro c h; exact h
  | cons x xs ih => intro c h; exact ih _ (kd_rawAdd key c x h)

theorem kd_nil (key : Nat → Nat) : KeyDistinct key [] := List.Pairwise.nil

/-- re-adding the elements of a set that holds no equal elements reproduces it -/
theorem foldl_rawAdd_kd (key : Nat → Nat) (c : List Nat) : ∀ c0, KeyDistinct key (c0 ++ c) →
    c.foldl (rawAdd key true) c0 = c0 ++ c := by
  induction c with
  | nil => intro c0 _; simp
  | cons x c ih =>
    intro c0 h
    have hx : rawAdd key true c0 x = c0 ++ [x] := by
      unfold rawAdd
      simp only [if_true]
      have hany : (c0.any (fun y => key y == key x)) = false := by
        rw [List.any_eq_false]
        intro a ha
        unfold KeyDistinct at h
        rw [List.pairwise_append] at h
        simpa using h.2.2 a ha x List.mem_cons_self
      simp only [hany, Bool.false_eq_true, if_false]
    simp only [List.foldl_cons, hx]
    rw [ih (c0 ++ [x]) (by simpa [List.append_assoc] using h)]
    simp [List.append_assoc]

/-- clear-and-re-add leaves the contents as they were -/
theorem refold (key : Nat → Nat) (isSet : Bool) (d : List Nat) (h : isSet = true → KeyDistinct key d) :
    d.foldl (rawAdd key isSet) [] = d := by
  cases isSet
  · rw [foldl_rawAdd_list]; rfl
  · rw [foldl_rawAdd_kd key d [] (by simpa using h rfl)]; rfl

/-- with pairwise unequal objects the raw add is membership-based -/
theorem mem_foldl_rawAdd_inj (key : Nat → Nat) (hinj : ∀ a b, key a = key b → a = b) (isSet : Bool)
    (xs : List Nat) : ∀ (c : List Nat) (y : Nat), y ∈ xs.foldl (rawAdd key isSet) c ↔ y ∈ c ∨ y ∈ xs := by
  have h1 : ∀ (c : List Nat) (x y : Nat), y ∈ rawAdd key isSet c x ↔ y ∈ c ∨ y = x := by
    intro c x y
    unfold rawAdd
    cases isSet
    · simp [List.mem_append]
    · simp only [if_true]
      split
      · rename_i hany
        simp only [List.any_eq_true, beq_iff_eq] at hany
        obtain ⟨z, hz, hk⟩ := hany
        have := hinj z x hk
        subst this
        constructor
        · exact Or.inl
        · rintro (h | rfl); exact h; exact hz
      · simp [List.mem_append]
  induction xs with
  | nil => intro c y; simp
  | cons x xs ih =>
    intro c y
    simp only [List.foldl_cons, ih, h1, List.mem_cons]
    constructor
    · rintro ((h | h) | h); exact Or.inl h; exact Or.inr (Or.inl h); exact Or.inr (Or.inr h)
    · rintro (h | h | h); exact Or.inl (Or.inl h); exact Or.inl (Or.inr h); exact Or.inr h

theorem mem_insertSorted (x y : Nat) (ys : List Nat) : y ∈ insertSorted x ys ↔ y = x ∨ y ∈ ys := by
  induction ys with
  | nil => simp [insertSorted]
  | cons z zs ih =>
    unfold insertSorted
    by_cases h1 : x < z
    · simp [h1]
    · by_cases h2 : x = z
      · subst h2; simp
      · simp only [h1, h2, if_false, List.mem_cons, ih]
        constructor
        · rintro (h | h | h); exact Or.inr (Or.inl h); exact Or.inl h; exact Or.inr (Or.inr h)
        · rintro (h | h | h); exact Or.inr (Or.inl h); exact Or.inl h; exact Or.inr (Or.inr h)

theorem mem_hashOrder (xs : List Nat) (y : Nat) : y ∈ hashOrder xs ↔ y ∈ xs := by
  unfold hashOrder
  induction xs with
  | nil => simp
  | cons x xs ih => simp only [List.foldr_cons, mem_insertSorted, ih, List.mem_cons]

theorem mem_walkOrder (Q : Quirks) (xs : List Nat) (y : Nat) : y ∈ walkOrder Q xs ↔ y ∈ xs := by
  unfold walkOrder; split
  · exact mem_hashOrder xs y
  · rfl

theorem walkOrder_off (Q : Quirks) (h : Q.setterHashOrder = false) (xs : List Nat) : walkOrder Q xs = xs := by
  simp [walkOrder, h]

theorem setterC_eq (key : Nat → Nat) (Q : Quirks) (isSet : Bool) (σ : CState) (v : Assigned) :
    setterC key Q isSet σ v =
      let items := match v with
        | .same => if Q.setterClearsAlias then [] else walkOrder Q σ.c
        | .other xs => walkOrder Q xs
        | .lazyOf v => walkOrder Q (v.eval key (if Q.setterClearsAlias then [] else σ.c))
      ⟨items.foldl (rawAdd key isSet) [], σ.calls ++ Q.recorded items⟩ := by
  cases v <;> simp only [setterC, foldl_addItemC]

theorem mem_pyInsert (c : List Nat) (i : Int) (x y : Nat) : y ∈ pyInsert c i x ↔ y ∈ c ∨ y = x := by
  unfold pyInsert
  generalize pyInsertPos c.length i = k
  have h : y ∈ c ↔ y ∈ c.take k ∨ y ∈ c.drop k := by
    conv => lhs; rw [← List.take_append_drop k c]
    exact List.mem_append
  simp only [List.mem_append, List.mem_singleton, h]
  constructor
  · rintro ((h | h) | h); exact Or.inl (Or.inl h); exact Or.inr h; exact Or.inl (Or.inr h)
  · rintro ((h | h) | h); exact Or.inl (Or.inl h); exact Or.inr h; exact Or.inl (Or.inr h)

theorem mem_pySetItem (c : List Nat) (i : Int) (x y : Nat) (h : y ∈ pySetItem c i x) : y ∈ c ∨ y = x := by
  unfold pySetItem at h
  split at h
  · exact List.mem_or_eq_of_mem_set h
  · exact Or.inl h

theorem mem_pySetSlice_sub (c : List Nat) (i j : Option Int) (xs : List Nat) (y : Nat)
    (h : y ∈ pySetSlice c i j xs) : y ∈ c ∨ y ∈ xs := by
  unfold pySetSlice at h
  simp only [List.mem_append] at h
  rcases h with (h | h) | h
  · exact Or.inl (List.mem_of_mem_take h)
  · exact Or.inr h
  · exact Or.inl (List.mem_of_mem_drop h)

theorem mem_pyDelItem_sub (c : List Nat) (i : Int) (y : Nat) (h : y ∈ pyDelItem c i) : y ∈ c := by
  unfold pyDelItem at h
  split at h
  · exact (List.eraseIdx_sublist _ _).subset h
  · exact h

theorem mem_pyPop_sub (c : List Nat) (i : Option Int) (y : Nat) (h : y ∈ pyPop c i) : y ∈ c :=
  mem_pyDelItem_sub c _ y h

/-- `make_set` of a value without equal-but-distinct elements reaches every element -/
theorem mem_foldl_rawAdd_local (key : Nat → Nat) (xs : List Nat) : ∀ (c0 : List Nat) (y : Nat),
    (∀ a ∈ c0 ++ xs, ∀ b ∈ c0 ++ xs, key a = key b → a = b) →
    (y ∈ xs.foldl (rawAdd key true) c0 ↔ y ∈ c0 ∨ y ∈ xs) := by
  induction xs with
  | nil => intro c0 y _; simp
  | cons x xs ih =>
    intro c0 y hloc
    have h1 : ∀ z, z ∈ rawAdd key true c0 x ↔ z ∈ c0 ∨ z = x := by
      intro z
      unfold rawAdd
      simp only [if_true]
      split
      · rename_i hany
        simp only [List.any_eq_true, beq_iff_eq] at hany
        obtain ⟨w, hw, hk⟩ := hany
        have := hloc w (by simp [hw]) x (by simp) hk
        subst this
        constructor
        · exact Or.inl
        · rintro (h | rfl); exact h; exact hw
      · simp [List.mem_append]
    simp only [List.foldl_cons]
    rw [ih (rawAdd key true c0 x) y (by
      intro a ha b hb hk
      apply hloc a _ b _ hk
      · simp only [List.mem_append, h1] at ha
        simp only [List.mem_append, List.mem_cons]
        rcases ha with (h | h) | h
        · exact Or.inl h
        · exact Or.inr (Or.inl h)
        · exact Or.inr (Or.inr h)
      · simp only [List.mem_append, h1] at hb
        simp only [List.mem_append, List.mem_cons]
        rcases hb with (h | h) | h
        · exact Or.inl h
        · exact Or.inr (Or.inl h)
        · exact Or.inr (Or.inr h))]
    simp only [h1, List.mem_cons]
    constructor
    · rintro ((h | h) | h); exact Or.inl h; exact Or.inr (Or.inl h); exact Or.inr (Or.inr h)
    · rintro (h | h | h); exact Or.inl (Or.inl h); exact Or.inl (Or.inr h); exact Or.inr h

theorem mem_make_set (key : Nat → Nat) (xs : List Nat) (h : noEqualTwins key xs = true) (y : Nat) :
    y ∈ xs.foldl (rawAdd key true) [] ↔ y ∈ xs := by
  rw [mem_foldl_rawAdd_local key xs [] y]
  · simp
  · intro a ha b hb hk
    simp only [List.nil_append] at ha hb
    simp only [noEqualTwins, List.all_eq_true, Bool.or_eq_true, bne_iff_ne, ne_eq, beq_iff_eq] at h
    rcases h a ha b hb with h' | h'
    · exact absurd hk h'
    · exact h'

/-- one operation outside the triggers keeps model and specification in agreement -/
theorem stepC_rel (key : Nat → Nat) (Q : Quirks) (isSet : Bool) (m s : CState) (op : COp)
    (h : CRel key isSet m s) (hinj : Q.inplaceBypass = true → ∀ a b, key a = key b → a = b)
    (hgate : Q.ungated = true)
    (hok : op.okFor key Q = true) (happ : op.applicable isSet = true) :
    CRel key isSet (stepC key Q isSet m op) (specStepC key isSet s op) := by
  have hrec : ∀ xs, Q.recorded xs = xs := recorded_ungated Q hgate
  obtain ⟨mc, ml⟩ := m
  obtain ⟨sc, sl⟩ := s
  obtain ⟨hc, hcalls, hin, hkd⟩ := h
  simp only at hc hcalls hin hkd
  subst hc
  have kdset : ∀ {d : List Nat}, (isSet = true → KeyDistinct key d) → ∀ xs : List Nat,
      isSet = true → KeyDistinct key (xs.foldl (rawAdd key isSet) d) := by
    intro d hd xs hl; subst hl; exact kd_foldl key xs d (hd rfl)
  cases op with
  | append x =>
    simp only [stepC, specStepC, addItemC, hrec]
    refine ⟨rfl, ?_, ?_, ?_⟩
    · intro y; simp only [List.mem_append, hcalls]
    · intro y hy
      rcases mem_rawAdd_sub key isSet mc x y hy with hy | rfl
      · exact List.mem_append_left _ (hin y hy)
      · simp
    · intro hl; subst hl; exact kd_rawAdd key mc x (hkd rfl)
  | extend xs =>
    simp only [stepC, specStepC, foldl_addItemC, hrec]
    refine ⟨rfl, ?_, ?_, kdset hkd xs⟩
    · intro y; simp only [List.mem_append, hcalls]
    · intro y hy
      rcases mem_foldl_rawAdd_sub key isSet xs mc y hy with hy | hy
      · exact List.mem_append_left _ (hin y hy)
      · exact List.mem_append_right _ hy
  | insert i x =>
    have hl : isSet = false := by simpa [COp.applicable] using happ
    simp only [stepC, specStepC, hrec]
    refine ⟨rfl, ?_, ?_, fun h' => by rw [hl] at h'; cases h'⟩
    · intro y; simp only [List.mem_append, hcalls]
    · intro y hy
      rcases (mem_pyInsert _ _ _ _).mp hy with hy | rfl
      · exact List.mem_append_left _ (hin y hy)
      · simp
  | setitem i x =>
    have hl : isSet = false := by simpa [COp.applicable] using happ
    simp only [stepC, specStepC, hrec]
    refine ⟨rfl, ?_, ?_, fun h' => by rw [hl] at h'; cases h'⟩
    · intro y; simp only [List.mem_append, hcalls]
    · intro y hy
      rcases mem_pySetItem _ _ _ _ hy with hy | rfl
      · exact List.mem_append_left _ (hin y hy)
      · simp
  | setslice i j one xs =>
    have hl : isSet = false := by simpa [COp.applicable] using happ
    simp only [COp.okFor, Bool.or_eq_true, Bool.not_eq_eq_eq_not, Bool.not_true, Bool.and_eq_true] at hok
    rcases hok with hq | ⟨ho, htw⟩
    · simp only [stepC, specStepC, hq, Bool.false_eq_true, if_false, hrec]
      refine ⟨rfl, ?_, ?_, fun h' => by rw [hl] at h'; cases h'⟩
      · intro y; simp only [List.mem_append, hcalls]
      · intro y hy
        rcases mem_pySetSlice_sub _ _ _ _ _ hy with hy | hy
        · exact List.mem_append_left _ (hin y hy)
        · exact List.mem_append_right _ hy
    · have ho' : one = false := by simpa using ho
      subst ho'
      cases hq : Q.sliceBatchHook
      · simp only [stepC, specStepC, hq, Bool.false_eq_true, if_false, hrec]
        refine ⟨rfl, ?_, ?_, fun h' => by rw [hl] at h'; cases h'⟩
        · intro y; simp only [List.mem_append, hcalls]
        · intro y hy
          rcases mem_pySetSlice_sub _ _ _ _ _ hy with hy | hy
          · exact List.mem_append_left _ (hin y hy)
          · exact List.mem_append_right _ hy
      · simp only [stepC, specStepC, hq, if_true, Bool.false_eq_true, if_false, hrec]
        refine ⟨rfl, ?_, ?_, fun h' => by rw [hl] at h'; cases h'⟩
        · intro y; simp only [List.mem_append, hcalls, mem_make_set key xs htw]
        · intro y hy
          rcases mem_pySetSlice_sub _ _ _ _ _ hy with hy | hy
          · exact List.mem_append_left _ (hin y hy)
          · exact List.mem_append_right _ ((mem_make_set key xs htw y).mpr hy)
  | assign xs =>
    have hw : walkOrder Q xs = xs := by
      simp only [COp.okFor, Bool.or_eq_true, Bool.not_eq_eq_eq_not, Bool.not_true, beq_iff_eq] at hok
      rcases hok with hq | hq
      · exact walkOrder_off Q hq xs
      · unfold walkOrder; split
        · exact hq
        · rfl
    simp only [stepC, specStepC, setterC_eq, hw, hrec]
    refine ⟨rfl, ?_, ?_, kdset (fun _ => kd_nil key) xs⟩
    · intro y; simp only [List.mem_append, hcalls]
    · intro y hy
      rcases mem_foldl_rawAdd_sub key isSet xs [] y hy with hy | hy
      · simp at hy
      · exact List.mem_append_right _ hy
  | assignSelf =>
    simp only [COp.okFor, Bool.and_eq_true, Bool.not_eq_eq_eq_not, Bool.not_true] at hok
    obtain ⟨hq1, hq2⟩ := hok
    simp only [stepC, specStepC, setterC_eq, hq1, Bool.false_eq_true, if_false, walkOrder_off Q hq2,
      refold key isSet mc hkd, hrec]
    refine ⟨rfl, ?_, ?_, hkd⟩
    · intro y
      simp only [List.mem_append]
      rw [← hcalls]
      constructor
      · rintro (hy | hy); exact hy; exact hin y hy
      · exact Or.inl
    · intro y hy; exact List.mem_append_right _ hy
  | assignView v =>
    simp only [COp.okFor, Bool.and_eq_true, Bool.not_eq_eq_eq_not, Bool.not_true] at hok
    obtain ⟨hq1, hq2⟩ := hok
    simp only [stepC, specStepC, setterC_eq, hq1, Bool.false_eq_true, if_false, walkOrder_off Q hq2, hrec]
    refine ⟨rfl, ?_, ?_, kdset (fun _ => kd_nil key) _⟩
    · intro y; simp only [List.mem_append, hcalls]
    · intro y hy
      rcases mem_foldl_rawAdd_sub key isSet _ [] y hy with hy | hy
      · simp at hy
      · exact List.mem_append_right _ hy
  | iadd xs =>
    simp only [COp.okFor, Bool.and_eq_true, Bool.not_eq_eq_eq_not, Bool.not_true] at hok
    obtain ⟨hq1, hq2⟩ := hok
    have hd : isSet = true → KeyDistinct key (xs.foldl (rawAdd key isSet) mc) := kdset hkd xs
    have hc1 : (inplaceC key Q isSet ⟨mc, ml⟩ xs).c = xs.foldl (rawAdd key isSet) mc := by
      unfold inplaceC; split
      · rfl
      · rw [foldl_addItemC]
    simp only [stepC, specStepC, setterC_eq, hq1, Bool.false_eq_true, if_false, walkOrder_off Q hq2, hc1,
      refold key isSet _ hd, hrec]
    refine ⟨rfl, ?_, ?_, hd⟩
    · intro y
      simp only [List.mem_append]
      rw [← hcalls]
      unfold inplaceC
      split
      · rename_i hb
        rw [mem_foldl_rawAdd_inj key (hinj hb) isSet xs mc y]
        constructor
        · rintro (hy | hy | hy); exact Or.inl hy; exact Or.inl (hin y hy); exact Or.inr hy
        · rintro (hy | hy); exact Or.inl hy; exact Or.inr (Or.inr hy)
      · rw [foldl_addItemC]
        simp only [List.mem_append, hrec]
        constructor
        · rintro ((hy | hy) | hy)
          · exact Or.inl hy
          · exact Or.inr hy
          · rcases mem_foldl_rawAdd_sub key isSet xs mc y hy with hy | hy
            · exact Or.inl (hin y hy)
            · exact Or.inr hy
        · rintro (hy | hy); exact Or.inl (Or.inl hy); exact Or.inl (Or.inr hy)
    · intro y hy; exact List.mem_append_right _ hy
  | iaddAlias xs =>
    have hq : Q.inplaceBypass = false := by simpa [COp.okFor] using hok
    simp only [stepC, specStepC, inplaceC, hq, Bool.false_eq_true, if_false, foldl_addItemC, hrec]
    refine ⟨rfl, ?_, ?_, kdset hkd xs⟩
    · intro y; simp only [List.mem_append, hcalls]
    · intro y hy
      rcases mem_foldl_rawAdd_sub key isSet xs mc y hy with hy | hy
      · exact List.mem_append_left _ (hin y hy)
      · exact List.mem_append_right _ hy
  | remove x =>
    simp only [stepC, specStepC, pyRemove]
    exact ⟨rfl, hcalls, fun y hy => hin y (List.eraseP_sublist.subset hy),
      fun hl => (hkd hl).sublist List.eraseP_sublist⟩
  | discard x =>
    simp only [stepC, specStepC, pyRemove]
    exact ⟨rfl, hcalls, fun y hy => hin y (List.eraseP_sublist.subset hy),
      fun hl => (hkd hl).sublist List.eraseP_sublist⟩
  | pop i =>
    have hl : isSet = false := by simpa [COp.applicable] using happ
    simp only [stepC, specStepC]
    exact ⟨rfl, hcalls, fun y hy => hin y (mem_pyDelItem_sub _ _ _ hy), fun h' => by rw [hl] at h'; cases h'⟩
  | delitem i =>
    have hl : isSet = false := by simpa [COp.applicable] using happ
    simp only [stepC, specStepC]
    exact ⟨rfl, hcalls, fun y hy => hin y (mem_pyDelItem_sub _ _ _ hy), fun h' => by rw [hl] at h'; cases h'⟩
  | delslice i j =>
    have hl : isSet = false := by simpa [COp.applicable] using happ
    simp only [stepC, specStepC]
    refine ⟨rfl, hcalls, ?_, fun h' => by rw [hl] at h'; cases h'⟩
    intro y hy
    rcases mem_pySetSlice_sub _ _ _ _ _ hy with hy | hy
    · exact hin y hy
    · cases hy
  | clear =>
    simp only [stepC, specStepC]
    exact ⟨rfl, hcalls, fun y hy => (by cases hy), fun _ => kd_nil key⟩

/-- **C16_general.** For every quirk setting and every notion of value equality `key`: every sequence of write
operations that stays outside the triggers of the quirks that are on leaves the field with the contents Python
semantics dictate and has asserted exactly the elements that entered. (With the historical `inplaceBypass` quirk on,
`+=` / `|=` are only right for pairwise unequal objects.) -/
theorem C16_general (key : Nat → Nat) (Q : Quirks) (isSet : Bool)
    (hinj : Q.inplaceBypass = true → ∀ a b, key a = key b → a = b) (hgate : Q.ungated = true) (ops : List COp) :
    ∀ (m s : CState), CRel key isSet m s →
      (∀ op ∈ ops, op.okFor key Q = true ∧ op.applicable isSet = true) →
      CRel key isSet (runC key Q isSet m ops) (specC key isSet s ops) := by
  induction ops with
  | nil => intro m s h _; exact h
  | cons op ops ih =>
    intro m s h hops
    simp only [runC, specC, List.foldl_cons]
    have h1 := hops op List.mem_cons_self
    exact ih _ _ (stepC_rel key Q isSet m s op h hinj hgate h1.1 h1.2) (fun o ho => hops o (List.mem_cons_of_mem _ ho))

theorem CRel.refl_of (key : Nat → Nat) (isSet : Bool) (σ : CState) (h : ∀ x ∈ σ.c, x ∈ σ.calls)
    (hk : isSet = true → KeyDistinct key σ.c) : CRel key isSet σ σ :=
  ⟨rfl, fun _ => Iff.rfl, h, hk⟩

theorem okFor_none (key : Nat → Nat) (op : COp) : op.okFor key Quirks.none = true := by
  cases op <;> simp [COp.okFor, Quirks.none]

/-- **C16_full.** The repaired code (all quirks off), for every notion of value equality: after ANY sequence of
assignment of a new collection, self-assignment, assignment of an iterable over the field's own live contents,
`+=` / `|=` (with or without re-assignment), append, extend, insert, item assignment, add and update, from any
contents, the field holds exactly what Python list / set semantics dictate — a list by position and identity,
repetitions and equal-but-distinct elements included, a set the first of several equal elements — and exactly the
elements that entered have been asserted, each OBJECT on its own. -/
theorem C16_full (key : Nat → Nat) (isSet : Bool) (σ : CState) (hσ : ∀ x ∈ σ.c, x ∈ σ.calls)
    (hk : isSet = true → KeyDistinct key σ.c) (ops : List COp)
    (happ : ∀ op ∈ ops, op.applicable isSet = true) :
    CRel key isSet (runC key Quirks.none isSet σ ops) (specC key isSet σ ops) :=
  C16_general key Quirks.none isSet (fun h => by cases h) rfl ops σ σ (CRel.refl_of key isSet σ hσ hk)
    (fun op ho => ⟨okFor_none key op, happ op ho⟩)

/-- **C16_partial.** The code as it was before the repairs (all quirks on), pairwise unequal objects: the same
holds for sequences of append, extend, insert, item assignment, add, update and assignment of a fresh collection
already in hash order without repetitions — i.e. outside the four triggers. -/
theorem C16_partial (key : Nat → Nat) (hinj : ∀ a b, key a = key b → a = b) (isSet : Bool) (σ : CState)
    (hσ : ∀ x ∈ σ.c, x ∈ σ.calls) (hk : isSet = true → KeyDistinct key σ.c) (ops : List COp)
    (happ : ∀ op ∈ ops, op.applicable isSet = true)
    (h1 : trigSelfAssign ops = false) (h2 : trigIadd ops = false) (h3 : trigListOrder ops = false)
    (h4 : trigBypass ops = false) (h5 : trigSliceOneShot ops = false) :
    CRel key isSet (runC key Quirks.asIs isSet σ ops) (specC key isSet σ ops) := by
  apply C16_general key Quirks.asIs isSet (fun _ => hinj) rfl ops σ σ (CRel.refl_of key isSet σ hσ hk)
  intro op ho
  refine ⟨?_, happ op ho⟩
  cases op with
  | assign xs =>
    simp only [trigListOrder, List.any_eq_false] at h3
    have := h3 _ ho
    simp only [bne_iff_ne, ne_eq, Decidable.not_not] at this
    simp [COp.okFor, this]
  | assignSelf =>
    simp only [trigSelfAssign, List.any_eq_false] at h1
    exact absurd rfl (h1 _ ho)
  | assignView v =>
    simp only [trigSelfAssign, List.any_eq_false] at h1
    exact absurd rfl (h1 _ ho)
  | iadd xs =>
    simp only [trigIadd, List.any_eq_false] at h2
    exact absurd rfl (h2 _ ho)
  | iaddAlias xs =>
    simp only [trigBypass, List.any_eq_false] at h4
    exact absurd rfl (h4 _ ho)
  | setslice i j one xs =>
    simp only [trigSliceOneShot, List.any_eq_false] at h5
    have h5' : one = false := by simpa using h5 _ ho
    have htw : noEqualTwins key xs = true := by
      simp only [noEqualTwins, List.all_eq_true, Bool.or_eq_true, bne_iff_ne, ne_eq, beq_iff_eq]
      intro a _ b _
      by_cases hk : key a = key b
      · exact Or.inr (hinj a b hk)
      · exact Or.inl hk
    simp [COp.okFor, h5', htw]
  | _ => rfl

/-- **C16_now.** The code as it is now (F-C16-1..4 repaired; slice assignment still hands the whole value to the hook
before storing it): every sequence in which no slice is assigned a one-shot iterable or a value with two
equal-but-distinct elements — slices of any bounds, empty, inverted or negative, replaced by any number of
elements. -/
theorem C16_now (key : Nat → Nat) (isSet : Bool) (σ : CState) (hσ : ∀ x ∈ σ.c, x ∈ σ.calls)
    (hk : isSet = true → KeyDistinct key σ.c) (ops : List COp)
    (happ : ∀ op ∈ ops, op.applicable isSet = true)
    (h1 : trigSliceTwins key ops = false) (h2 : trigSliceOneShot ops = false) :
    CRel key isSet (runC key Quirks.now isSet σ ops) (specC key isSet σ ops) := by
  apply C16_general key Quirks.now isSet (fun h => by cases h) rfl ops σ σ (CRel.refl_of key isSet σ hσ hk)
  intro op ho
  refine ⟨?_, happ op ho⟩
  cases op with
  | setslice i j one xs =>
    simp only [trigSliceTwins, List.any_eq_false] at h1
    simp only [trigSliceOneShot, List.any_eq_false] at h2
    have a1 : noEqualTwins key xs = true := by simpa using h1 _ ho
    have a2 : one = false := by simpa using h2 _ ho
    simp [COp.okFor, a1, a2]
  | _ => simp [COp.okFor, Quirks.now]

/-- **C16_relations.** What the symbol graph holds after the writes: the elements in the hook log are asserted
through `add_to_graph`, so (C15) the relations are exactly the closure of `(f, a, x)` for the elements `x` that
entered according to the specification — "the same inferences as if appended individually", in any order. -/
theorem C16_relations (S : Schema) (W : World) (hW : W.WF) (f a : Nat) (key : Nat → Nat) (isSet : Bool) (m s : CState)
    (h : CRel key isSet m s)
    (hin : ∀ t ∈ m.calls, (f, a, t) ∈ allFacts S.fields.length W.size) (x : Fact) :
    x ∈ run (schemaRules S W) (fuelFor S W) (m.calls.map fun t => (f, a, t)) ↔
      Derivable (schemaRules S W) (fun y => ∃ t ∈ s.calls, y = (f, a, t)) x := by
  unfold fuelFor
  rw [run_eq_closure (schemaRules S W) _ (schema_UClosed S W hW) _ (by
    intro r hr; simp only [List.mem_map] at hr; obtain ⟨t, ht, rfl⟩ := hr; exact hin t ht)]
  have : (fun y => y ∈ m.calls.map fun t => (f, a, t)) = (fun y => ∃ t ∈ s.calls, y = (f, a, t)) := by
    funext y
    apply propext
    simp only [List.mem_map]
    constructor
    · rintro ⟨t, ht, rfl⟩; exact ⟨t, (h.mem_calls t).mp ht, rfl⟩
    · rintro ⟨t, ht, rfl⟩; exact ⟨t, (h.mem_calls t).mpr ht, rfl⟩
  rw [this]

/-! ### The four repaired findings, as tests on concrete witnesses (`decide`), each inside its trigger -/

/-- F-C16-1: `x.f = x.f` empties the field -/
theorem C16_cex_self_assign :
    trigSelfAssign [.assignSelf] = true ∧
    (runC id Quirks.asIs false ⟨[1, 2], [1, 2]⟩ [.assignSelf]).c = [] ∧
    (specC id false ⟨[1, 2], [1, 2]⟩ [.assignSelf]).c = [1, 2] := by decide

/-- F-C16-2: `x.f += [2]` / `x.f |= {2}` empties the field -/
theorem C16_cex_iadd :
    trigIadd [.iadd [2]] = true ∧
    (runC id Quirks.asIs false ⟨[1], [1]⟩ [.iadd [2]]).c = [] ∧ (specC id false ⟨[1], [1]⟩ [.iadd [2]]).c = [1, 2] ∧
    (runC id Quirks.asIs true ⟨[1], [1]⟩ [.iadd [2]]).c = [] := by decide

/-- F-C16-3: an assigned list comes back without repetitions, in hash order -/
theorem C16_cex_list_order :
    trigListOrder [.assign [3, 1, 3, 0]] = true ∧
    (runC id Quirks.asIs false ⟨[], []⟩ [.assign [3, 1, 3, 0]]).c = [0, 1, 3] ∧
    (specC id false ⟨[], []⟩ [.assign [3, 1, 3, 0]]).c = [3, 1, 3, 0] := by decide

/-- F-C16-4: `s = x.f; s |= {4}` stores the element without asserting it -/
theorem C16_cex_ior_bypass :
    trigBypass [.iaddAlias [4]] = true ∧
    (runC id Quirks.asIs true ⟨[1], [1]⟩ [.iaddAlias [4]]) = ⟨[1, 4], [1]⟩ ∧
    (specC id true ⟨[1], [1]⟩ [.iaddAlias [4]]) = ⟨[1, 4], [1, 4]⟩ := by decide

/-- F-C16-7 (test): objects 2 and 3 compare equal; `l[1:1] = [2, 3]` stores both and asserts only the first -/
theorem C16_cex_slice_twins :
    trigSliceTwins (· / 2) [.setslice (some 1) (some 1) false [2, 3]] = true ∧
    runC (· / 2) Quirks.now false ⟨[0, 5], [0, 5]⟩ [.setslice (some 1) (some 1) false [2, 3]] = ⟨[0, 2, 3, 5], [0, 5, 2]⟩ ∧
    specC (· / 2) false ⟨[0, 5], [0, 5]⟩ [.setslice (some 1) (some 1) false [2, 3]] = ⟨[0, 2, 3, 5], [0, 5, 2, 3]⟩ := by
  decide

/-- F-C16-8 (test): `l[:] = iter([3])` asserts 3 and stores nothing -/
theorem C16_cex_slice_one_shot :
    trigSliceOneShot [.setslice none none true [3]] = true ∧
    runC id Quirks.now false ⟨[1], [1]⟩ [.setslice none none true [3]] = ⟨[], [1, 3]⟩ ∧
    specC id false ⟨[1], [1]⟩ [.setslice none none true [3]] = ⟨[3], [1, 3]⟩ := by decide

/-- slice assignment (test): insertion through an empty slice, replacing one element by two, negative and inverted
bounds — all inside `C16_now` -/
example :
    let ops : List COp := [.extend [1, 2, 3], .setslice (some 1) (some 1) false [5, 6], .setslice (some 0) (some 1) false [7, 8],
      .setslice (some (-1)) none false [], .setslice (some 5) (some 2) false [9]]
    trigSliceTwins id ops = false ∧ trigSliceOneShot ops = false ∧
    runC id Quirks.now false ⟨[], []⟩ ops = ⟨[7, 8, 5, 6, 2, 9], [1, 2, 3, 5, 6, 7, 8, 9]⟩ := by decide

/-! Non-vacuity of `C16_partial` / `C16_full` (tests): a sequence of every admitted operation -/
example :
    let ops : List COp := [.append 3, .extend [1, 3], .insert (-1) 2, .setitem 0 5, .assign [0, 4, 7], .append 4]
    (∀ op ∈ ops, op.applicable false = true) ∧ trigSelfAssign ops = false ∧ trigIadd ops = false ∧
    trigListOrder ops = false ∧ trigBypass ops = false ∧
    runC id Quirks.asIs false ⟨[], []⟩ ops = ⟨[0, 4, 7, 4], [3, 1, 3, 2, 5, 0, 4, 7, 4]⟩ := by decide
example :
    let ops : List COp := [.append 3, .assignSelf, .iadd [1, 3], .iaddAlias [2], .assign [3, 1, 3]]
    (runC id Quirks.none false ⟨[], []⟩ ops).c = (specC id false ⟨[], []⟩ ops).c ∧
    (runC id Quirks.none false ⟨[], []⟩ [.append 3, .assignSelf, .iadd [1, 3], .iaddAlias [2]]).c = [3, 1, 3, 2] := by
  decide

/-- value equality (test): objects 2 and 3 compare equal (`key = · / 2`). A list keeps both and asserts both; a set
keeps the first and still asserts both, exactly as two individual `add` calls do. -/
example :
    runC (· / 2) Quirks.none false ⟨[], []⟩ [.extend [2, 3, 2], .iaddAlias [3]] = ⟨[2, 3, 2, 3], [2, 3, 2, 3]⟩ ∧
    runC (· / 2) Quirks.none true ⟨[], []⟩ [.extend [2, 3], .iadd [3, 4]] = ⟨[2, 4], [2, 3, 3, 4, 2, 4]⟩ ∧
    (specC (· / 2) true ⟨[], []⟩ [.extend [2, 3], .iadd [3, 4]]).c = [2, 4] := by decide

/-! ### Instances with their own truthiness (`__len__` / `__bool__`) -/

/-- **C16_gated.** A run in which every step carries its own quirk record (`runG`: which instances are falsy changes
during a history). As long as no step is gated — no written element and not the owner is falsy at that step, or the
truthiness test is repaired — and every step stays outside the triggers of its other quirks, the field holds what
Python semantics dictate and exactly the elements that entered were asserted. -/
theorem C16_gated (key : Nat → Nat) (isSet : Bool) (steps : List (Quirks × COp)) :
    ∀ (m s : CState), CRel key isSet m s →
      (∀ qo ∈ steps, qo.1.ungated = true ∧ qo.1.inplaceBypass = false ∧ qo.2.okFor key qo.1 = true ∧
        qo.2.applicable isSet = true) →
      CRel key isSet (runG key isSet m steps) (specC key isSet s (steps.map (·.2))) := by
  induction steps with
  | nil => intro m s h _; exact h
  | cons qo steps ih =>
    intro m s h hs
    simp only [runG, specC, List.foldl_cons, List.map_cons]
    obtain ⟨h1, h2, h3, h4⟩ := hs qo List.mem_cons_self
    exact ih _ _ (stepC_rel key qo.1 isSet m s qo.2 h (fun hb => by rw [h2] at hb; cases hb) h1 h3 h4)
      (fun o ho => hs o (List.mem_cons_of_mem _ ho))

/-- F-C16-9 (test): element 2 is falsy when it is appended (`len(x) == 0`): stored, not recorded; the owner is falsy
during the `extend`: both elements stored, nothing recorded -/
theorem C16_cex_falsy :
    runG id false ⟨[], []⟩ [(Quirks.none, .append 1), ({ Quirks.none with muted := [2] }, .append 2)] = ⟨[1, 2], [1]⟩ ∧
    specC id false ⟨[], []⟩ [.append 1, .append 2] = ⟨[1, 2], [1, 2]⟩ ∧
    runG id false ⟨[], []⟩ [({ Quirks.none with muteAll := true }, .extend [1, 2])] = ⟨[1, 2], []⟩ := by decide

/-! ### Two owners: a field whose first assignment receives another instance's live container -/

structure TRel (key : Nat → Nat) (isSet : Bool) (m s : TState) : Prop where
  ra : CRel key isSet m.a s.a
  rb : CRel key isSet m.b s.b
  notBroke : m.broke = false

/-- a write through one of the two fields while they do not share a container -/
theorem stepT_on_rel (key : Nat → Nat) (T : TQuirks) (later isSet : Bool) (m s : TState) (w : Who) (op : COp)
    (h : TRel key isSet m s) (hsh : m.shared = false) (happ : op.applicable isSet = true) :
    TRel key isSet (stepT key Quirks.none T later isSet m (.on w op)) (specStepT key isSet s (.on w op)) ∧
    (stepT key Quirks.none T later isSet m (.on w op)).shared = false := by
  have hb := h.notBroke
  have hq : Quirks.none.inplaceBypass = true → ∀ a b, key a = key b → a = b := fun h' => by cases h'
  cases w with
  | A =>
    simp only [stepT, hb, Bool.false_eq_true, if_false, hsh, specStepT]
    exact ⟨⟨stepC_rel key Quirks.none isSet m.a s.a op h.ra hq rfl (okFor_none key op) happ, h.rb, rfl⟩, trivial⟩
  | B =>
    simp only [stepT, hb, Bool.false_eq_true, if_false, hsh, specStepT]
    exact ⟨⟨h.ra, stepC_rel key Quirks.none isSet m.b s.b op h.rb hq rfl (okFor_none key op) happ, rfl⟩, trivial⟩

/-- the adoption itself, whether the container ends up shared or copied, as long as the constructor does not break -/
theorem stepT_adopt_rel (key : Nat → Nat) (T : TQuirks) (later isSet : Bool) (m s : TState)
    (h : TRel key isSet m s) (hbr : (T.ctorBreaks && later) = false) :
    TRel key isSet (stepT key Quirks.none T later isSet m .adopt) (specStepT key isSet s .adopt) := by
  have hb := h.notBroke
  have hw : walkOrder Quirks.none m.a.c = m.a.c := walkOrder_off _ rfl _
  have rb' : CRel key isSet
      ⟨m.a.c.foldl (rawAdd key isSet) [], m.b.calls ++ m.a.c⟩
      ⟨s.a.c.foldl (rawAdd key isSet) [], s.b.calls ++ s.a.c⟩ := by
    refine ⟨by rw [h.ra.c_eq], ?_, ?_, ?_⟩
    · intro y
      show y ∈ m.b.calls ++ m.a.c ↔ y ∈ s.b.calls ++ s.a.c
      simp only [List.mem_append, h.rb.mem_calls, h.ra.c_eq]
    · intro y hy
      change y ∈ m.a.c.foldl (rawAdd key isSet) [] at hy
      show y ∈ m.b.calls ++ m.a.c
      rcases mem_foldl_rawAdd_sub key isSet _ [] y hy with hy | hy
      · simp at hy
      · exact List.mem_append_right _ hy
    · intro hl; subst hl
      exact kd_foldl key _ [] (kd_nil key)
  simp only [stepT, hb, Bool.false_eq_true, if_false, specStepT, hw]
  have hbr' : (T.ctorBreaks && later && !m.a.c.isEmpty) = false := by rw [hbr]; rfl
  simp only [hbr', Bool.false_eq_true, if_false]
  cases hT : T.adoptShares
  · simp only [Bool.false_eq_true, if_false]
    exact ⟨h.ra, rb', rfl⟩
  · simp only [if_true]
    refine ⟨⟨?_, h.ra.mem_calls, ?_, ?_⟩, rb', rfl⟩
    · show m.a.c.foldl (rawAdd key isSet) [] = s.a.c
      rw [refold key isSet m.a.c h.ra.kd, h.ra.c_eq]
    · intro y hy
      change y ∈ m.a.c.foldl (rawAdd key isSet) [] at hy
      rw [refold key isSet m.a.c h.ra.kd] at hy
      exact h.ra.c_in_calls y hy
    · intro hl
      show KeyDistinct key (m.a.c.foldl (rawAdd key isSet) [])
      rw [refold key isSet m.a.c h.ra.kd]; exact h.ra.kd hl

/-- **C16_two_general.** Two owners, any repair state of the adoption: as long as the constructor does not break and
— when the adopted container is shared — nothing is written after the adoption, both fields hold what Python
semantics dictate for fields that own their contents, and each owner has asserted exactly what entered ITS field. -/
theorem C16_two_general (key : Nat → Nat) (T : TQuirks) (later isSet : Bool)
    (hbr : (T.ctorBreaks && later) = false) (ops : List TOp) :
    ∀ (m s : TState), TRel key isSet m s → m.shared = false →
      (∀ op ∈ ops, op.applicable isSet = true) →
      (T.adoptShares = true → trigAdoptShares ops = false) →
      TRel key isSet (runT key Quirks.none T later isSet m ops) (specT key isSet s ops) := by
  induction ops with
  | nil => intro m s h _ _ _; exact h
  | cons op ops ih =>
    intro m s h hsh happ htrig
    simp only [runT, specT, List.foldl_cons]
    have happ' : ∀ o ∈ ops, o.applicable isSet = true := fun o ho => happ o (List.mem_cons_of_mem _ ho)
    cases op with
    | on w cop =>
      have h1 := stepT_on_rel key T later isSet m s w cop h hsh
        (by simpa [TOp.applicable] using happ _ List.mem_cons_self)
      exact ih _ _ h1.1 h1.2 happ' (fun hT => by simpa [trigAdoptShares] using htrig hT)
    | adopt =>
      have h1 := stepT_adopt_rel key T later isSet m s h hbr
      cases hT : T.adoptShares
      · have hsh' : (stepT key Quirks.none T later isSet m .adopt).shared = false := by
          have hw : walkOrder Quirks.none m.a.c = m.a.c := walkOrder_off _ rfl _
          have hbr' : (T.ctorBreaks && later && !m.a.c.isEmpty) = false := by rw [hbr]; rfl
          simp only [stepT, h.notBroke, Bool.false_eq_true, if_false, hw, hbr', hT]
          exact hsh
        exact ih _ _ h1 hsh' happ' (fun hT' => by rw [hT] at hT'; cases hT')
      · have : ops = [] := by
          have := htrig hT
          simpa [trigAdoptShares] using this
        subst this
        exact h1

def TState.start (σ : CState) : TState := ⟨σ, ⟨[], []⟩, false, .A, false⟩

theorem TRel.start (key : Nat → Nat) (isSet : Bool) (σ : CState) (hσ : ∀ x ∈ σ.c, x ∈ σ.calls)
    (hk : isSet = true → KeyDistinct key σ.c) :
    TRel key isSet (TState.start σ) (TState.start σ) :=
  ⟨CRel.refl_of key isSet σ hσ hk, CRel.refl_of key isSet _ (by intro x hx; cases hx) (fun _ => kd_nil key), rfl⟩

/-- **C16_two_full.** With a first assignment that gives the new instance a container of its own and a constructor
that tolerates inference into fields not yet initialised (both quirks off): every two-owner sequence. -/
theorem C16_two_full (key : Nat → Nat) (later isSet : Bool) (σ : CState) (hσ : ∀ x ∈ σ.c, x ∈ σ.calls)
    (hk : isSet = true → KeyDistinct key σ.c) (ops : List TOp)
    (happ : ∀ op ∈ ops, op.applicable isSet = true) :
    TRel key isSet (runT key Quirks.none TQuirks.none later isSet (TState.start σ) ops)
      (specT key isSet (TState.start σ) ops) :=
  C16_two_general key TQuirks.none later isSet rfl ops _ _ (TRel.start key isSet σ hσ hk) rfl happ
    (fun h => by cases h)

/-- **C16_two_partial.** The code as it is: the same for fields without a later-declared super-property field on
the same class, as long as nothing is written after the adoption. -/
theorem C16_two_partial (key : Nat → Nat) (isSet : Bool) (σ : CState) (hσ : ∀ x ∈ σ.c, x ∈ σ.calls)
    (hk : isSet = true → KeyDistinct key σ.c) (ops : List TOp)
    (happ : ∀ op ∈ ops, op.applicable isSet = true) (htrig : trigAdoptShares ops = false) :
    TRel key isSet (runT key Quirks.none TQuirks.asIs false isSet (TState.start σ) ops)
      (specT key isSet (TState.start σ) ops) :=
  C16_two_general key TQuirks.asIs false isSet rfl ops _ _ (TRel.start key isSet σ hσ hk) rfl happ (fun _ => htrig)

/-- F-C16-5 (test): `b = Cls(f = a.f); b.f.append(2)` — the element shows up in `a.f` and is not recorded for `a` -/
theorem C16_cex_adopt_shares :
    let ops : List TOp := [.on .A (.append 1), .adopt, .on .B (.append 2)]
    trigAdoptShares ops = true ∧
    (runT id Quirks.none TQuirks.asIs false false (TState.start ⟨[], []⟩) ops).a = ⟨[1, 2], [1]⟩ ∧
    (specT id false (TState.start ⟨[], []⟩) ops).a = ⟨[1], [1]⟩ ∧
    (specT id false (TState.start ⟨[], []⟩) ops).b = ⟨[1, 2], [1, 2]⟩ := by decide

/-- F-C16-6 (test): a constructor given initial contents for a field whose super-property field is declared later
raises -/
theorem C16_cex_ctor_breaks :
    (runT id Quirks.none TQuirks.asIs true false (TState.start ⟨[], []⟩) [.on .A (.append 1), .adopt]).broke = true ∧
    (specT id false (TState.start ⟨[], []⟩) [.on .A (.append 1), .adopt]).b = ⟨[1], [1]⟩ := by decide

/-- non-vacuity of `C16_two_partial` (test) -/
example :
    let ops : List TOp := [.on .A (.extend [3, 1]), .on .A (.assignView (.filt [1])), .adopt]
    trigAdoptShares ops = false ∧ (∀ op ∈ ops, op.applicable false = true) ∧
    (runT id Quirks.none TQuirks.asIs false false (TState.start ⟨[], []⟩) ops).b = ⟨[1], [1]⟩ := by decide

end KrroodVerif.PD
