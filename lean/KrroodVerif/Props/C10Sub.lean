import KrroodVerif.Model.EqlTraceSub
import KrroodVerif.Lemmas.EqlTraceNLemmas
/-!
# C10S — laziness with nested queries as operands

`Model/EqlTraceSub.lean` traces `x.a == an(entity(y, φ))` (and `the(...)`): `traceOperand`, `traceCmpX`, `traceX`,
`traceQueryX`. This file relates it to the list model of the same fragment (`Model/EqlSub.lean`: `evalOperand`, `evalX`,
`evalQueryX`, frozen) and states what it says about laziness. All theorems are unbounded in the world, the domains, the
condition (any nesting of `and`/`or`/`not`, any number of sub-query operands, sub-query conditions with quantifiers),
the selection, the continuation and `k`.
-/
namespace KrroodVerif.Eql

/-! ## 1. the trace and the list model agree on what the consumer sees -/

theorem evalVar_eq_at (w : World) (y : VarId) (e : Env) : evalVar w y e = evalVarAt w true y e := by
  unfold evalVar evalVarAt boundFlag; rfl

theorem traceVar_vis_nil (w : World) (cp : Bool) (y : VarId) (e : Env) :
    vis (traceVar w cp y e fun _ _ _ => []) = [] := by
  rw [traceVar_vis]; simp

/-- what the list model hands out for the sub-query rows `rows` -/
def subRows (w : World) (id : Nat) (y : VarId) (rows : List Env) : List (Env × Val × Bool) :=
  rows.flatMap fun e => (evalVar w y e).map fun r => ((Key.lit id, r.2.1) :: r.1, r.2.1, true)

theorem traceSubAn_vis_none (w : World) (id : Nat) (y : VarId) (env : Env) (k : Kont) :
    vis (traceSubAn w id y none env k) = (subRows w id y [env]).flatMap fun r => vis (k r.1 r.2.1 r.2.2) := by
  simp [traceSubAn, subRows, traceVar_vis_nil, vis_flatMap, List.flatMap_map]

theorem traceSubAn_vis_some (w : World) (id : Nat) (y : VarId) (c : SExpr) (env : Env) (k : Kont)
    (rs : List (Env × Bool)) (h0 : eval w (build c) env = .ok rs) :
    vis (traceSubAn w id y (some c) env k) =
      (subRows w id y ((rs.filter (·.2)).map (·.1))).flatMap fun r => vis (k r.1 r.2.1 r.2.2) := by
  simp only [traceSubAn]
  rw [traceN_vis w (build c) env _ rs h0]
  simp only [apply_ite vis, vis_nil, vis_append, traceVar_vis_nil, List.nil_append]
  rw [flatMap_ite_filter]
  simp [subRows, vis_flatMap, List.flatMap_map, List.flatMap_assoc]

/-- **C10S_operand_vis.** An operand (plain term or `an(...)` sub-query): the consumer-visible events of its trace are the
continuation applied to the list model's results, in order. -/
theorem C10S_operand_vis (w : World) (o : Operand) (env : Env) (k : Kont) (rs : List (Env × Val × Bool))
    (h : evalOperand w o env = .ok rs) :
    vis (traceOperand w [] o env k) = rs.flatMap fun r => vis (k r.1 r.2.1 r.2.2) := by
  cases o with
  | plain t => exact traceTerm_vis w false t env k rs h
  | sub id y c =>
    cases hx : env.lookup (.lit id) with
    | some x =>
      simp only [evalOperand, hx, Except.ok.injEq] at h; subst h
      simp [traceOperand, hx]
    | none =>
      cases c with
      | none =>
        simp only [evalOperand, hx, bind_eq_ok, pure_eq_ok] at h
        obtain ⟨rows, rfl, rfl⟩ := h
        simp only [traceOperand, hx, List.contains_nil, Bool.false_eq_true, if_false]
        exact traceSubAn_vis_none w id y env k
      | some c =>
        simp only [evalOperand, hx, bind_eq_ok, pure_eq_ok] at h
        obtain ⟨rs0, h0, rows, rfl, rfl⟩ := h
        simp only [traceOperand, hx, List.contains_nil, Bool.false_eq_true, if_false]
        exact traceSubAn_vis_some w id y c env k rs0 h0

theorem traceCmpX_vis (w : World) (op : CmpOp) (l r : Operand) (env : Env) (k : Env → Bool → List Ev)
    (rs : List (Env × Bool)) (h : evalX w (.cmpX op l r) env = .ok rs) :
    vis (traceCmpX w [] op l r env k) = rs.flatMap fun p => vis (k p.1 p.2) := by
  simp only [evalX, bind_eq_ok] at h
  obtain ⟨r1, h1, h2⟩ := h
  simp only [traceCmpX]
  rw [C10S_operand_vis _ _ _ _ _ h1]
  simp only [apply_ite vis, vis_nil]
  rw [flatMap_ite_filter]
  refine flatMapM_ok_flatMap _ _ _ _ _ h2 ?_
  intro p1 _ zs hz
  simp only [bind_eq_ok] at hz
  obtain ⟨r2, h3, h4⟩ := hz
  rw [C10S_operand_vis _ _ _ _ _ h3]
  simp only [apply_ite vis, vis_nil]
  rw [flatMap_ite_filter]
  refine mapM_ok_flatMap _ _ _ _ _ h4 ?_
  intro p2 hp2 y hy
  simp only [bind_eq_ok, pure_eq_ok] at hy
  obtain ⟨b, hb, rfl⟩ := hy
  simp only [hb]

/-- **C10S_vis.** A condition with `an(...)` sub-query operands anywhere: the consumer-visible events of the trace are
the continuation applied to the list model's result cells, in order — the sub-queries themselves emit no row and no
exception. -/
theorem C10S_vis (w : World) (x : XExpr) (env : Env) (k : Env → Bool → List Ev)
    (rs : List (Env × Bool)) (h : evalX w x env = .ok rs) :
    vis (traceX w [] x env k) = rs.flatMap fun p => vis (k p.1 p.2) := by
  induction x generalizing env k rs with
  | base e => simp only [evalX] at h; exact traceN_vis w e env k rs h
  | cmpX op l r => exact traceCmpX_vis w op l r env k rs h
  | and l r ihl ihr =>
    simp only [evalX, bind_eq_ok] at h
    obtain ⟨ls, h0, h1⟩ := h
    simp only [traceX]
    rw [ihl _ _ _ h0]
    refine flatMapM_ok_flatMap _ _ _ _ _ h1 ?_
    intro p _ zs hz
    split at hz
    · rename_i hp; simp only [hp, if_true]; exact ihr _ _ _ hz
    · rename_i hp
      simp only [pure_eq_ok] at hz; subst hz
      simp [hp]
  | elseIf l r ihl ihr =>
    simp only [evalX, bind_eq_ok] at h
    obtain ⟨ls, h0, h1⟩ := h
    simp only [traceX]
    rw [ihl _ _ _ h0]
    refine flatMapM_ok_flatMap _ _ _ _ _ h1 ?_
    intro p _ zs hz
    split at hz
    · rename_i hp
      simp only [pure_eq_ok] at hz; subst hz
      simp [hp]
    · rename_i hp; simp only [hp]; exact ihr _ _ _ hz
  | union l r ihl ihr =>
    simp only [evalX, bind_eq_ok, pure_eq_ok] at h
    obtain ⟨ls, h0, a, h1, b, h2, rfl⟩ := h
    simp only [traceX, vis_append, List.flatMap_append]
    rw [ihl _ _ _ h0, ihr _ _ _ h2]
    congr 1
    refine flatMapM_ok_flatMap _ _ _ _ _ h1 ?_
    intro p _ zs hz
    split at hz
    · rename_i hp
      simp only [pure_eq_ok] at hz; subst hz
      simp [hp]
    · rename_i hp; simp only [hp]; exact ihr _ _ _ hz
  | not e ih =>
    simp only [evalX, bind_eq_ok, pure_eq_ok] at h
    obtain ⟨r0, h0, rfl⟩ := h
    simp only [traceX]
    rw [ih _ _ _ h0, List.flatMap_map]

/-- the consumer-visible events of a query with `an(...)` sub-query operands are exactly the list model's rows -/
theorem C10S_query_vis (w : World) (sel : List Term) (x : XExpr) (rows : List (List Val))
    (h : evalQueryX w sel x = .ok rows) : vis (traceQueryX w [] sel x) = rows.map Ev.row := by
  unfold evalQueryX at h
  unfold traceQueryX
  simp only [bind_eq_ok] at h
  obtain ⟨rs, hrs, h⟩ := h
  rw [C10S_vis w x [] _ rs hrs]
  simp only [apply_ite vis, vis_nil]
  rw [flatMap_ite_filter rs (fun p => p.2) (fun p => vis (traceSel w p.1 sel []))]
  have := flatMapM_ok_flatMap _ _ _ (fun env : Env => vis (traceSel w env sel [])) (fun r => [Ev.row r]) h
    (by
      intro env _ zs hz
      simp only [bind_eq_ok, pure_eq_ok] at hz
      obtain ⟨per, hper, rfl⟩ := hz
      rw [traceSel_vis w env sel [] per hper]
      rw [flatMap_singleton_map]; rfl)
  rw [List.flatMap_map] at this
  rw [this, flatMap_singleton_map]

/-- **C10S_rows.** The rows yielded by the demand-driven trace of a query with nested `an(...)` operands are exactly the
rows of the list model (`evalQueryX`), in order and with multiplicity, and no exception escapes. -/
theorem C10S_rows (w : World) (sel : List Term) (x : XExpr) (rows : List (List Val))
    (h : evalQueryX w sel x = .ok rows) :
    rowsOf (traceQueryX w [] sel x) = rows ∧ hasErr (traceQueryX w [] sel x) = false := by
  constructor
  · rw [← rowsOf_vis, C10S_query_vis w sel x rows h, rowsOf_map_row]
  · rw [hasErr_eq_vis, C10S_query_vis w sel x rows h, hasErr_map_row]

/-- **C10S_prefix.** The consumer that stops after `k` results has performed a prefix of the events, has received the
first `k` rows of the list model, and nothing is evaluated before the first `next()`. -/
theorem C10S_prefix (w : World) (sel : List Term) (x : XExpr) (rows : List (List Val))
    (h : evalQueryX w sel x = .ok rows) (k : Nat) :
    uptoRow k (traceQueryX w [] sel x) <+: traceQueryX w [] sel x ∧
    rowsOf (uptoRow k (traceQueryX w [] sel x)) = rows.take k ∧
    uptoRow 0 (traceQueryX w [] sel x) = [] := by
  refine ⟨uptoRow_prefix k _, ?_, uptoRow_zero _⟩
  rw [rowsOf_uptoRow, (C10S_rows w sel x rows h).1]

/-- what has been pulled grows with `k` and never exceeds what the whole evaluation pulls (any `thes`) -/
theorem C10S_pulled_mono (w : World) (thes : List Nat) (sel : List Term) (x : XExpr) (v : VarId) (k : Nat) :
    pulled v (uptoRow k (traceQueryX w thes sel x)) ≤ pulled v (uptoRow (k + 1) (traceQueryX w thes sel x)) ∧
    pulled v (uptoRow k (traceQueryX w thes sel x)) ≤ pulled v (traceQueryX w thes sel x) :=
  ⟨pulled_mono_prefix v (uptoRow_succ_prefix k _), pulled_mono_prefix v (uptoRow_prefix k _)⟩

/-! ## 2. a bound variable is never pulled -/

theorem traceSubAn_noPull (w : World) (u : VarId) (id : Nat) (y : VarId) (c : Option SExpr) (env : Env) (k : Kont)
    (hb : Bnd u env) (hk : ∀ e x b, Bnd u e → NoPull u (k e x b)) : NoPull u (traceSubAn w id y c env k) := by
  have hin : ∀ e, Bnd u e → NoPull u ((traceVar w true y e fun _ _ _ => []) ++
      (evalVar w y e).flatMap fun r => k ((Key.lit id, r.2.1) :: r.1) r.2.1 true) := by
    intro e he
    refine NoPull.append (traceVar_noPull w true u y e _ he fun _ _ _ _ => NoPull.nil u) ?_
    refine NoPull.flatMap _ _ fun r hr => hk _ _ _ (Bnd.cons_lit id _ ?_)
    rw [evalVar_eq_at] at hr
    exact evalVar_bnd w true u y e (Or.inl he) r hr
  cases c with
  | none => exact hin env hb
  | some c =>
    simp only [traceSubAn]
    refine traceN_noPull w u (build c) env _ hb fun e b he => ?_
    split
    · exact hin e he
    · exact NoPull.nil u

theorem traceOperand_noPull (w : World) (u : VarId) (o : Operand) (env : Env) (k : Kont)
    (hb : Bnd u env) (hk : ∀ e x b, Bnd u e → NoPull u (k e x b)) : NoPull u (traceOperand w [] o env k) := by
  cases o with
  | plain t => exact traceTerm_noPull w u false t env k hb hk
  | sub id y c =>
    simp only [traceOperand, List.contains_nil, Bool.false_eq_true, if_false]
    split
    · exact hk _ _ _ hb
    · exact traceSubAn_noPull w u id y c env k hb hk

/-- **C10S_never_pulls_bound.** Evaluating a condition with `an(...)` sub-query operands from bindings that contain `u`
never pulls an element of `u`'s domain, provided the consumer does not: a sub-query whose variable (or a variable of
whose condition) is bound by the enclosing query — a CORRELATED sub-query — reads that value and leaves the generator
alone; and once a sub-query has bound its variable nothing to its right re-enumerates it. -/
theorem C10S_never_pulls_bound (w : World) (u : VarId) (x : XExpr) (env : Env) (k : Env → Bool → List Ev)
    (hb : Bnd u env) (hk : ∀ e b, Bnd u e → NoPull u (k e b)) : NoPull u (traceX w [] x env k) := by
  induction x generalizing env k with
  | base e => exact traceN_noPull w u e env k hb hk
  | cmpX op l r =>
    simp only [traceX, traceCmpX]
    refine traceOperand_noPull w u _ env _ hb fun e1 v1 t1 he1 => ?_
    split
    · refine traceOperand_noPull w u _ e1 _ he1 fun e2 v2 t2 he2 => ?_
      split
      · split
        · exact hk _ _ he2
        · intro i h; simp at h
      · exact NoPull.nil u
    · exact NoPull.nil u
  | and l r ihl ihr =>
    simp only [traceX]
    refine ihl env _ hb fun e b he => ?_
    split
    · exact ihr e k he hk
    · exact hk _ _ he
  | elseIf l r ihl ihr =>
    simp only [traceX]
    refine ihl env _ hb fun e b he => ?_
    split
    · exact hk _ _ he
    · exact ihr e k he hk
  | union l r ihl ihr =>
    simp only [traceX]
    refine NoPull.append (ihl env _ hb fun e b he => ?_) (ihr env k hb hk)
    split
    · exact hk _ _ he
    · exact ihr e k he hk
  | not e ih =>
    simp only [traceX]
    exact ih env _ hb fun e b he => hk _ _ he

/-- … so the inner variable of a sub-query that the enclosing query has bound costs no pull at all -/
theorem C10S_bound_inner_pulled_zero (w : World) (u : VarId) (x : XExpr) (env : Env) (hb : Bnd u env) :
    pulled u (traceX w [] x env cell) = 0 :=
  pulled_noPull u _ (C10S_never_pulls_bound w u x env cell hb fun _ _ _ i h => by simp [cell] at h)

/-! ## 3. the sub-query streams: its events do not depend on what the enclosing query does with its results -/

theorem subVal_cons (id : Nat) (v : Val) (e : Env) : subVal id ((Key.lit id, v) :: e) = v := by
  simp [subVal, List.lookup]

/-- **C10S_streaming.** The trace of an `an(...)` sub-query under ANY continuation is the sub-query's OWN stream
(`subStream`: its pull/read/exception events with its results in place) with the enclosing query's events spliced in
at the results. So what the sub-query performs before handing out its `j`-th result is a prefix of its own stream that
does not depend on the enclosing query — and nothing of the stream AFTER a result (in particular no further pull of the
inner domain) is performed before the enclosing query is done with that result. -/
theorem C10S_streaming (w : World) (id : Nat) (y : VarId) (c : Option SExpr) (env : Env) (k : Kont) :
    traceSubAn w id y c env k = substCells (fun e _ => k e (subVal id e) true) (subStream w id y c env) := by
  have hg := substEv_keeps (fun e (_ : Bool) => k e (subVal id e) true)
  have hin : ∀ e : Env,
      ((traceVar w true y e fun _ _ _ => []) ++
        (evalVar w y e).flatMap fun r => cell ((Key.lit id, r.2.1) :: r.1) true).flatMap
          (substEv fun e (_ : Bool) => k e (subVal id e) true) =
      (traceVar w true y e fun _ _ _ => []) ++
        (evalVar w y e).flatMap fun r => k ((Key.lit id, r.2.1) :: r.1) r.2.1 true := by
    intro e
    rw [List.flatMap_append, traceVar_flatMap hg, List.flatMap_assoc]
    simp only [List.flatMap_nil, substEv_cell, subVal_cons]
  unfold substCells subStream
  cases c with
  | none => simp only [traceSubAn]; exact (hin env).symm
  | some c =>
    simp only [traceSubAn]
    rw [traceN_flatMap hg]
    congr 1; funext e t
    split
    · exact (hin e).symm
    · rfl

theorem substCells_noRow (k : Env → Bool → List Ev) (a : List Ev) (ha : NoRow a) : substCells k a = a := by
  induction a with
  | nil => rfl
  | cons e a ih =>
    have he : e.isRow = false := ha e (List.mem_cons_self ..)
    have ih' := ih fun x hx => ha x (List.mem_cons_of_mem _ hx)
    unfold substCells at ih' ⊢
    rw [List.flatMap_cons, substEv_keeps k e he, ih']; rfl

theorem uptoRow_noRow_append (n : Nat) (a l : List Ev) (ha : NoRow a) :
    uptoRow (n + 1) (a ++ l) = a ++ uptoRow (n + 1) l := by
  induction a with
  | nil => rfl
  | cons e a ih =>
    have he : e.isRow = false := ha e (List.mem_cons_self ..)
    simp only [List.cons_append, uptoRow, he, Bool.false_eq_true, if_false]
    rw [ih fun x hx => ha x (List.mem_cons_of_mem _ hx)]

theorem uptoRow_one_append (l m : List Ev) (h : rowsOf l ≠ []) : uptoRow 1 (l ++ m) = uptoRow 1 l := by
  induction l with
  | nil => simp at h
  | cons e l ih =>
    cases e with
    | row r => simp [uptoRow, Ev.isRow]
    | pull v i => simp only [List.cons_append, uptoRow, Ev.isRow, Bool.false_eq_true, if_false]; rw [ih (by simpa using h)]
    | read o n => simp only [List.cons_append, uptoRow, Ev.isRow, Bool.false_eq_true, if_false]; rw [ih (by simpa using h)]
    | err x => simp only [List.cons_append, uptoRow, Ev.isRow, Bool.false_eq_true, if_false]; rw [ih (by simpa using h)]

/-- **C10S_inner_first.** Split the sub-query's own stream at its first result: `a` (no result in it), the result `r`,
the rest `b`. Under any enclosing query the trace is `a`, then the enclosing query's events for that result, then the
rest with the later results' events spliced in: when the enclosing query receives the first inner result exactly `a`
has been performed — nothing of `b`. -/
theorem C10S_inner_first (w : World) (id : Nat) (y : VarId) (c : Option SExpr) (env : Env) (k : Kont)
    (a b : List Ev) (r : List Val) (hs : subStream w id y c env = a ++ Ev.row r :: b) (ha : NoRow a) :
    traceSubAn w id y c env k =
      a ++ k (decCell r).1 (subVal id (decCell r).1) true ++
        substCells (fun e _ => k e (subVal id e) true) b := by
  rw [C10S_streaming, hs]
  unfold substCells
  rw [List.flatMap_append, List.flatMap_cons]
  have := substCells_noRow (fun e (_ : Bool) => k e (subVal id e) true) a ha
  unfold substCells at this
  rw [this]; simp [substEv]

/-- **C10S_inner_pulls.** If the enclosing query turns the FIRST inner result into a result of its own (its events for
it contain a row), then the consumer that stops after one result has performed `a` — the sub-query's own events up to
its first result — and the enclosing query's events up to that row, and NOTHING else: the elements of the inner
variable's domain pulled after the first result are those pulled in `a` and by the enclosing query itself; what the
rest `b` of the inner stream would pull (the remaining inner domain) has not been pulled. A sub-query that is solved
completely before its first result is handed out (seeded change C10-r5m2) contradicts this equation. -/
theorem C10S_inner_pulls (w : World) (id : Nat) (y : VarId) (c : Option SExpr) (env : Env) (k : Kont)
    (a b : List Ev) (r : List Val) (hs : subStream w id y c env = a ++ Ev.row r :: b) (ha : NoRow a)
    (hrow : rowsOf (k (decCell r).1 (subVal id (decCell r).1) true) ≠ []) (v : VarId) :
    uptoRow 1 (traceSubAn w id y c env k) = a ++ uptoRow 1 (k (decCell r).1 (subVal id (decCell r).1) true) ∧
    pulled v (uptoRow 1 (traceSubAn w id y c env k)) ≤
      pulled v (a ++ k (decCell r).1 (subVal id (decCell r).1) true) := by
  have h1 : uptoRow 1 (traceSubAn w id y c env k) =
      a ++ uptoRow 1 (k (decCell r).1 (subVal id (decCell r).1) true) := by
    rw [C10S_inner_first w id y c env k a b r hs ha, List.append_assoc, uptoRow_noRow_append 0 a _ ha,
      uptoRow_one_append _ _ hrow]
  refine ⟨h1, ?_⟩
  rw [h1]
  exact pulled_mono_prefix v ((List.prefix_append_right_inj a).2 (uptoRow_prefix 1 _))

/-! ## 4. non-vacuity (tests) -/

section Tests

/-- three objects with `a = 0, 1, 2`; `x` ranges over them, the inner variable `y` over the integers `0, 1, 2` -/
def subWorld : World :=
  { objs := [⟨0, [("a", .int 0)], false⟩, ⟨0, [("a", .int 1)], false⟩, ⟨0, [("a", .int 2)], false⟩],
    doms := [(0, [.obj 0, .obj 1, .obj 2]), (1, [.int 0, .int 1, .int 2])] }

/-- `x.a == an(entity(y, y >= 0))` (uncorrelated) -/
def subCond : XExpr :=
  .cmpX .eq (.plain (.attr (.var 0) "a")) (.sub 101 1 (some (.cmp .ge (.var 1) (.lit 102 (.int 0)))))

/-- `x.a == an(entity(y, y == x.a))` (correlated) -/
def subCondCorr : XExpr :=
  .cmpX .eq (.plain (.attr (.var 0) "a")) (.sub 101 1 (some (.cmp .eq (.var 1) (.attr (.var 0) "a"))))

/-- TEST (laziness is real in the model; hypotheses of `C10S_rows`/`C10S_prefix` satisfiable with 3 results): after the
first result ONE element of the inner domain has been pulled, (the second outer result comes after the inner
loop for the first outer value has run to its end: three); exhausting pulls three. -/
example :
    (evalQueryX subWorld [.var 0] subCond).toOption = some [[.obj 0], [.obj 1], [.obj 2]] ∧
    rowsOf (traceQueryX subWorld [] [.var 0] subCond) = [[.obj 0], [.obj 1], [.obj 2]] ∧
    pulled 1 (uptoRow 1 (traceQueryX subWorld [] [.var 0] subCond)) = 1 ∧
    pulled 1 (uptoRow 2 (traceQueryX subWorld [] [.var 0] subCond)) = 3 ∧
    pulled 1 (traceQueryX subWorld [] [.var 0] subCond) = 3 ∧
    pulled 0 (uptoRow 1 (traceQueryX subWorld [] [.var 0] subCond)) = 1 := by decide

/-- TEST: the same for the correlated sub-query and for `the(...)` (exactly one inner solution per outer value: no
exception, same rows, same pulls) -/
example :
    rowsOf (traceQueryX subWorld [] [.var 0] subCondCorr) = [[.obj 0], [.obj 1], [.obj 2]] ∧
    pulled 1 (uptoRow 1 (traceQueryX subWorld [] [.var 0] subCondCorr)) = 1 ∧
    traceQueryX subWorld [101] [.var 0] subCondCorr = traceQueryX subWorld [] [.var 0] subCondCorr ∧
    hasErr (traceQueryX subWorld [101] [.var 0] subCondCorr) = false := by decide

/-- TEST: `the(...)` over a sub-query with a second solution raises the moment the second one is produced (after the
first outer result was handed out), and `the(...)` without a solution raises at the end of the inner stream -/
example :
    hasErr (traceQueryX subWorld [101] [.var 0] subCond) = true ∧
    rowsOf (uptoRow 1 (traceQueryX subWorld [101] [.var 0] subCond)) = [[.obj 0]] ∧
    hasErr (uptoRow 1 (traceQueryX subWorld [101] [.var 0] subCond)) = false ∧
    hasErr (traceQueryX subWorld [101] [.var 0]
      (.cmpX .eq (.plain (.attr (.var 0) "a")) (.sub 101 1 (some (.cmp .ge (.var 1) (.lit 102 (.int 7))))))) = true := by
  decide

/-- TEST: the hypotheses of `C10S_inner_first` / `C10S_inner_pulls` are satisfiable: the sub-query's own stream from the
bindings `x = o0` starts with ONE pull and its first result, and more follows -/
example :
    let s := subStream subWorld 101 1 (some (.cmp .ge (.var 1) (.lit 102 (.int 0)))) [(.var 0, .obj 0)]
    s.take 1 = [Ev.pull 1 0] ∧ ((s.drop 1).head?.map Ev.isRow) = some true ∧ (s.drop 2).length = 4 ∧
    s = s.take 1 ++ (s.drop 1).headD (Ev.row []) :: s.drop 2 := by decide

/-- TEST: hypotheses of `C10S_never_pulls_bound`: `y` bound by the enclosing bindings — no pull of `y` -/
example : pulled 1 (traceX subWorld [] subCond [(.var 1, .int 1)] cell) = 0 ∧
    rowsOf (traceX subWorld [] subCond [(.var 1, .int 1)] cell) ≠ [] := by decide

end Tests

end KrroodVerif.Eql
