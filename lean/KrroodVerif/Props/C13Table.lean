import KrroodVerif.Model.SymbolGraphTable
import KrroodVerif.Props.C13
/-!
# C13 — second tie: the registry methods as tables of container operations

`Model/SymbolGraphTable.lean` describes `add_node`, `remove_node`, `remove_dead_instances`, `get_instances_of_type`,
`ensure_wrapped_instance`, `clear` and `recursive_subclasses` as lists of container operations with interpreters.
Here: the interpreters run on the hand-written table `SG.table` ARE the hand-written model functions the C13 (C14, C20)
theorems are about — for every graph, allocator and wrapper, no bound — and the census property for any table that
equals `SG.table` (`C13_census_of_table_eq`), which the check instantiates on every run with the table regenerated from
the current Python source (`Translated.table = SG.table` by `decide`).
-/
namespace KrroodVerif.SG

variable {σ : Type}

/-- every `_relation_index` entry has its edge (what `Inv.relExact` gives for the repaired `remove_node`) -/
def RelExact (g : SG σ) : Prop := ∀ r ∈ g.relIdx, ∃ e ∈ g.edges, r = (e.fld, e.src.idx, e.tgt.idx)

/-- **addNode_eq_interp.** `add_node` by table is the model's `addNode` (the instance being wrapped is alive) -/
theorem addNode_eq_interp (a : Alloc σ) (isLive : Obj → Bool) (g : SG σ) (o : Obj) (c : Cls) (pid : Nat)
    (hl : isLive o = true) : addNodeI table a isLive g o c pid = addNode a g o c pid := by
  simp [addNodeI, interpMut, table, execMut, keyOf, hl, addNode]

theorem relDiscard_eq (g : SG σ) (i : Nat) (h : RelExact g) :
    g.relIdx.filter (fun r => !(incident g true true i).any
      (fun e => e.fld == r.1 && e.src.idx == r.2.1 && e.tgt.idx == r.2.2)) =
    g.relIdx.filter (fun r => r.2.1 != i && r.2.2 != i) := by
  apply List.filter_congr
  intro r hr
  obtain ⟨e, he, rfl⟩ := h r hr
  have key : (incident g true true i).any
      (fun e' => e'.fld == e.fld && e'.src.idx == e.src.idx && e'.tgt.idx == e.tgt.idx) =
      (e.src.idx == i || e.tgt.idx == i) := by
    rw [Bool.eq_iff_iff]
    simp only [List.any_eq_true, incident, List.mem_filter, Bool.true_and, Bool.or_eq_true, Bool.and_eq_true,
      beq_iff_eq]
    constructor
    · rintro ⟨e', ⟨_, hinc⟩, ⟨_, hs⟩, ht⟩
      rcases hinc with h | h
      · exact Or.inr (ht ▸ h)
      · exact Or.inl (hs ▸ h)
    · intro h
      exact ⟨e, ⟨he, h.symm⟩, ⟨rfl, rfl⟩, rfl⟩
  simp only [key, bne, Bool.not_or]

/-- **removeNode_eq_interp.** `remove_node` by table is the model's `removeNode` of the code as it is, on every graph
whose relation index is exact (an invariant of the repaired code: `Inv.relExact`) -/
theorem removeNode_eq_interp (a : Alloc σ) (isLive : Obj → Bool) (g : SG σ) (w : W) (h : RelExact g) :
    removeNodeI table a isLive g w = removeNode Quirks.asIs a g w := by
  simp only [removeNodeI, interpMut, table, List.foldl_cons, List.foldl_nil, execMut, keyOf, removeNode, Quirks.asIs]
  have := relDiscard_eq g w.idx h
  simp only [incident, Bool.true_and, List.any_filter] at this ⊢
  simp [this]

/-- the historic `remove_node` (`tableOriginal`: `pop(id(w.instance), None)`, no purge) is the model's `removeNode` under
`Quirks.original`, for the wrappers it is called on (dead instances) -/
theorem removeNode_original_eq_interp (a : Alloc σ) (isLive : Obj → Bool) (g : SG σ) (w : W)
    (hd : isLive w.obj = false) :
    removeNodeI tableOriginal a isLive g w = removeNode Quirks.original a g w := by
  simp [removeNodeI, interpMut, tableOriginal, table, execMut, keyOf, removeNode, Quirks.original, hd]

theorem RelExact.removeNode {a : Alloc σ} {g : SG σ} (h : RelExact g) (w : W) :
    RelExact (SG.removeNode Quirks.asIs a g w) := by
  intro r hr
  simp only [SG.removeNode, Quirks.asIs, Bool.false_eq_true, ↓reduceIte, List.mem_filter, Bool.and_eq_true,
    bne_iff_ne, ne_eq] at hr ⊢
  obtain ⟨e, he, rfl⟩ := h r hr.1
  exact ⟨e, ⟨he, hr.2⟩, rfl⟩

theorem foldl_loopBody_eq (a : Alloc σ) (isLive : Obj → Bool) : ∀ (l : List W) (g : SG σ), RelExact g →
    l.foldl (fun g w => loopBody table a isLive g w [.onlyIf .dead, .callRemoveNode]) g =
      l.foldl (removeNode Quirks.asIs a) g
  | [], _, _ => rfl
  | w :: l, g, h => by
    simp only [List.foldl_cons, loopBody]
    rw [removeNode_eq_interp a isLive g w h]
    exact foldl_loopBody_eq a isLive l _ (h.removeNode w)

/-- **sweep_eq_interp.** `remove_dead_instances` by table is the model's `sweep` -/
theorem sweep_eq_interp (a : Alloc σ) (isLive : Obj → Bool) (g : SG σ) (h : RelExact g) :
    sweepI table a isLive g = sweep Quirks.asIs a g isLive := by
  simp only [sweepI, table, sweep]
  have hf : loopFilter isLive [.onlyIf .dead, .callRemoveNode] = fun w => !isLive w.obj := by
    funext w; simp [loopFilter, matchesLiveness]
  rw [hf]
  exact foldl_loopBody_eq a isLive _ g h

/-- **ensure_eq_interp.** `ensure_wrapped_instance` by table is the model's `ensure` (the instance is alive) -/
theorem ensure_eq_interp (a : Alloc σ) (isLive : Obj → Bool) (g : SG σ) (x : HObj) (hl : isLive x.obj = true) :
    ensureI table a isLive g x = ((ensure a g x).1, some (ensure a g x).2) := by
  have ht : table.ensure = [.lookupIndex .idOfInstance, .ifMissing 2, .wrapNew, .callAddNode, .returnWrapper] := rfl
  simp only [ensureI, ht, List.length_cons, List.length_nil, execEnsure, keyOf, hl, ↓reduceIte, Option.bind_some,
    ensure]
  cases hlk : lookup g x.pid with
  | some w => simp [execEnsure]
  | none =>
    simp only [Option.isNone_none, ↓reduceIte]
    rw [addNode_eq_interp a isLive g x.obj x.cls x.pid hl]

/-- **clear_eq_interp.** -/
theorem clear_eq_interp (a : Alloc σ) (g : SG σ) : clearI table a g = { SG.empty a with reused := g.reused } := by
  simp [clearI, table]

/-! ### `recursive_subclasses` and `get_instances_of_type` -/

theorem recSubsI_succ (S : Schema) (n : Nat) (c : Cls) :
    recSubsI S table.recSubs (n + 1) c =
      (S.subs c ++ (S.subs c).flatMap (recSubsI S table.recSubs n)).eraseDups := by
  simp [recSubsI, table]

/-- **recSubs_eq_interp.** `recursive_subclasses` by table lists the classes the model's `Schema.recSubs` lists … -/
theorem recSubs_eq_interp (S : Schema) : ∀ (n : Nat) (T c : Cls),
    c ∈ recSubsI S table.recSubs n T ↔ c ∈ S.recSubs n T
  | 0, _, _ => by simp [recSubsI, Schema.recSubs]
  | n + 1, T, c => by
    rw [recSubsI_succ, List.mem_eraseDups]
    simp only [Schema.recSubs, List.mem_append, List.mem_flatMap]
    constructor
    · rintro (h | ⟨s, hs, h⟩)
      · exact Or.inl h
      · exact Or.inr ⟨s, hs, (recSubs_eq_interp S n s c).1 h⟩
    · rintro (h | ⟨s, hs, h⟩)
      · exact Or.inl h
      · exact Or.inr ⟨s, hs, (recSubs_eq_interp S n s c).2 h⟩

/-- … each once (the de-duplication of fix 2e71c84) -/
theorem recSubsI_nodup (S : Schema) (n : Nat) (T : Cls) : (recSubsI S table.recSubs n T).Nodup := by
  cases n with
  | zero => simp [recSubsI]
  | succ n => rw [recSubsI_succ]; exact nodup_eraseDups _

theorem classesI_mem (S : Schema) (T c : Cls) : c ∈ classesI S table .selfThenSubs T ↔ c ∈ S.below T := by
  simp [classesI, Schema.below, recSubs_eq_interp]

/-- the instances in the class lists of the classes `cl`, in that order -/
def instancesOfL (cl : List Cls) (g : SG σ) : List Obj :=
  cl.flatMap fun c => (g.byClass.filter (fun w => w.cls == c)).map (·.obj)

theorem instancesOf_eq_L (q : Quirks) (S : Schema) (g : SG σ) (T : Cls) :
    instancesOf q S g T = instancesOfL (if q.dupSubclasses then S.below T else (S.below T).eraseDups) g := rfl

theorem wrappedLoop_eq (S : Schema) (g : SG σ) (isLive : Obj → Bool) (T c : Cls) (l : List W)
    (hl : ∀ w ∈ l, isLive w.obj = true) :
    l.flatMap (fun w => genI S table g isLive T [.skipIf .dead, .yieldInstance] (some c) (some w)) =
      (l.map (·.obj)).map some := by
  induction l with
  | nil => rfl
  | cons w l ih =>
    have h1 := hl w List.mem_cons_self
    rw [List.flatMap_cons, ih (fun v hv => hl v (List.mem_cons_of_mem _ hv))]
    simp [genI, matchesLiveness, h1]

/-- **getInstances_eq_interp.** On a registry without dead wrappers (after the sweep that precedes every evaluation)
`get_instances_of_type` by table yields, in order, the instances in the class lists of `[T] + recursive_subclasses(T)` -/
theorem getInstances_eq_interp (S : Schema) (g : SG σ) (isLive : Obj → Bool) (T : Cls)
    (hl : ∀ w ∈ g.byClass, isLive w.obj = true) :
    getInstancesI S table g isLive T = (instancesOfL (classesI S table .selfThenSubs T) g).map some := by
  simp only [getInstancesI, table, genI, instancesOfL]
  generalize classesI S _ .selfThenSubs T = cl
  induction cl with
  | nil => rfl
  | cons c cl ih =>
    rw [List.flatMap_cons, List.flatMap_cons, List.map_append, ← ih]
    congr 1
    exact wrappedLoop_eq S g isLive T c _ (fun w hw => hl w (List.mem_filter.1 hw).1)

/-- … which are the instances the model's `instancesOf` lists -/
theorem getInstances_mem_iff (S : Schema) (g : SG σ) (isLive : Obj → Bool) (T : Cls)
    (hl : ∀ w ∈ g.byClass, isLive w.obj = true) (o : Obj) :
    some o ∈ getInstancesI S table g isLive T ↔ o ∈ instancesOf Quirks.asIs S g T := by
  rw [getInstances_eq_interp S g isLive T hl, instancesOf_eq_L]
  simp only [List.mem_map, Option.some.injEq, exists_eq_right, instancesOfL, List.mem_flatMap, Quirks.asIs,
    Bool.false_eq_true, ↓reduceIte, List.mem_eraseDups, classesI_mem]

/-- what C13 demands of the tables `t`: after any history of the model, `remove_dead_instances` by table followed by
`get_instances_of_type(T)` by table yields exactly the live instances of `T` and subclasses known to the registry, never
`None`, and each once when `T` is not its own subclass -/
def TableCensus (t : Table) (S : Schema) (a : Alloc σ) (ops : List Op) (T : Cls) : Prop :=
  let st := run Quirks.asIs S a ops
  let ys := getInstancesI S t (sweepI t a st.h.isLive st.g) st.h.isLive T
  (∀ o, some o ∈ ys ↔ o ∈ st.h.expected S T) ∧ none ∉ ys ∧
    (T ∉ recSubsI S t.recSubs S.depth T → ys.Nodup)

theorem census_table {S : Schema} {a : Alloc σ} {st : St σ} (hI : Inv Quirks.asIs st) (T : Cls) :
    let ys := getInstancesI S table (sweepI table a st.h.isLive st.g) st.h.isLive T
    (∀ o, some o ∈ ys ↔ o ∈ st.h.expected S T) ∧ none ∉ ys ∧
      (T ∉ recSubsI S table.recSubs S.depth T → ys.Nodup) := by
  have hre : RelExact st.g := hI.relExact rfl
  have hI' : Inv Quirks.asIs { st with g := SG.sweep Quirks.asIs a st.g st.h.isLive } := hI.sweep
  have hbc : (SG.sweep Quirks.asIs a st.g st.h.isLive).byClass = (SG.sweep Quirks.asIs a st.g st.h.isLive).nodes :=
    hI'.byClassEq
  have hlive : ∀ w ∈ (SG.sweep Quirks.asIs a st.g st.h.isLive).byClass, st.h.isLive w.obj = true := by
    intro w hw
    rw [hbc, mem_sweep_nodes hI] at hw
    exact hw.2
  simp only
  rw [sweep_eq_interp a st.h.isLive st.g hre]
  refine ⟨fun o => ?_, ?_, ?_⟩
  · rw [getInstances_mem_iff S _ _ T hlive o]
    exact census_mem hI T o
  · rw [getInstances_eq_interp S _ _ T hlive]; simp
  · intro hT
    rw [getInstances_eq_interp S _ _ T hlive]
    refine List.Nodup.map (fun _ _ h => Option.some.inj h) ?_
    unfold instancesOfL
    rw [hbc, List.nodup_flatMap]
    have hinj : ∀ w1 ∈ (SG.sweep Quirks.asIs a st.g st.h.isLive).nodes,
        ∀ w2 ∈ (SG.sweep Quirks.asIs a st.g st.h.isLive).nodes, w1.obj = w2.obj → w1 = w2 := hI'.objInj
    constructor
    · intro c _
      refine List.Nodup.map_on ?_ (hI'.nodesNodup.filter _)
      intro w1 h1 w2 h2 he
      exact hinj w1 (List.mem_filter.1 h1).1 w2 (List.mem_filter.1 h2).1 he
    · have hnd : (classesI S table .selfThenSubs T).Nodup := by
        simp only [classesI, List.nodup_cons]
        exact ⟨hT, recSubsI_nodup S _ T⟩
      refine hnd.pairwise_of_forall_ne ?_
      intro c1 _ c2 _ hne o h1 h2
      simp only [List.mem_map, List.mem_filter, beq_iff_eq] at h1 h2
      obtain ⟨w1, ⟨hw1, rfl⟩, rfl⟩ := h1
      obtain ⟨w2, ⟨hw2, rfl⟩, he⟩ := h2
      exact hne (by rw [hinj w2 hw2 w1 hw1 he])

/-- **C13_census_of_table_eq.** The census property for every table that equals the model's (instantiated on every run
with the table regenerated from the current source). -/
theorem C13_census_of_table_eq (t : Table) (h : t = table) (S : Schema) (a : Alloc σ) (ha : a.Valid) (ops : List Op)
    (T : Cls) : TableCensus t S a ops T := by
  subst h
  exact census_table (C13_inv_run Quirks.asIs S a ha ops) T

/-- **C13_census_table.** … in particular for the hand-written table -/
theorem C13_census_table (S : Schema) (a : Alloc σ) (ha : a.Valid) (ops : List Op) (T : Cls) :
    TableCensus table S a ops T := C13_census_of_table_eq table rfl S a ha ops T

/-- **C13_run_by_table.** Along every history the model's registry functions can be replaced by the table interpreters:
the state a history leaves behind has an exact relation index, so `remove_node` / `remove_dead_instances` by table are
the model's on it. -/
theorem C13_run_by_table (S : Schema) (a : Alloc σ) (ha : a.Valid) (ops : List Op) :
    let st := run Quirks.asIs S a ops
    sweepI table a st.h.isLive st.g = sweep Quirks.asIs a st.g st.h.isLive ∧
      ∀ w, removeNodeI table a st.h.isLive st.g w = removeNode Quirks.asIs a st.g w := by
  have hre : RelExact (run Quirks.asIs S a ops).g := (C13_inv_run Quirks.asIs S a ha ops).relExact rfl
  exact ⟨sweep_eq_interp a _ _ hre, fun w => removeNode_eq_interp a _ _ w hre⟩

/-! Tests (concrete tables): the table language separates the historic defects from the code as it is. -/
example : table ≠ tableOriginal := by decide
/-- dropping the subclasses from `get_instances_of_type` loses the instance of a subclass -/
example :
    let g : SG Nat := (addNode monotone (SG.empty monotone) 0 1 0).1
    let t' := { table with getInstances := [.forEachClassIn .selfOnly, .forEachWrappedIn true, .skipIf .dead, .yieldInstance] }
    getInstancesI cexSchema table g (fun _ => true) 0 = [some 0] ∧
    getInstancesI cexSchema t' g (fun _ => true) 0 = [] := by decide
/-- without the filter a dead, unswept instance is yielded as `None` (F-C13-4) -/
example :
    let g : SG Nat := (addNode monotone (SG.empty monotone) 0 0 0).1
    getInstancesI cexSchema tableOriginal g (fun _ => false) 0 = [none] ∧
    getInstancesI cexSchema table g (fun _ => false) 0 = [] := by decide
/-- non-vacuity of `T ∉ recursive_subclasses(T)` and of `RelExact` -/
example : (0 : Cls) ∉ recSubsI cexSchema table.recSubs cexSchema.depth 0 ∧ RelExact (SG.empty monotone) := by
  refine ⟨by decide, ?_⟩
  intro r hr; simp [SG.empty] at hr
/-- non-vacuity of the liveness hypotheses of `addNode_eq_interp`, `ensure_eq_interp`, `getInstances_eq_interp`: a registry
with one live wrapper; the two sides of `getInstances_eq_interp` on it -/
example :
    let g : SG Nat := (addNode monotone (SG.empty monotone) 0 1 0).1
    (∀ w ∈ g.byClass, (fun _ => true) w.obj = true) ∧
    getInstancesI cexSchema table g (fun _ => true) 0 = (instancesOfL (classesI cexSchema table .selfThenSubs 0) g).map some ∧
    (ensureI table monotone (fun _ => true) g ⟨0, 1, 0⟩).2 = some ⟨0, 1, 0, 0⟩ := by decide

end KrroodVerif.SG
