import KrroodVerif.Model.MutatorTable
import KrroodVerif.Props.C16
/-!
# C16, second tie: the mutator table

`Model/MutatorTable.lean` describes every public mutating method of `MonitoredList` / `MonitoredSet` and the
descriptor's `__set__` as a row of a table; `harness/translate/c16_translate.py` regenerates such a table from the
CURRENT source on every run and has the kernel check `normTable Translated.mutatorTable = normTable mutatorTable`.

Here: the hand-written table is total over the public API (`C16_table_total`), its interpretation IS the model all
C16 theorems are about (`C16_interp_eq_stepC`: `interp mutatorTable = stepC … Quirks.none`, every operation, all
argument values), hence every table with the same normal form meets the property (`C16_of_table_norm_eq`) — for the
operations the property lists: contents = Python semantics and exactly the elements that entered were recorded; for
the removing operations outside its list: contents = Python semantics, nothing recorded, nothing retracted.
-/
namespace KrroodVerif.PD

/-- the table has exactly one row for every public mutator of `list` and `set`, `_add_item` and `__set__` -/
theorem C16_table_total : tableTotal mutatorTable = true := by decide

theorem normTable_total : tableTotal (normTable mutatorTable) = true := by decide

/-! the rows of the normalised hand-written table (finite table look-ups: `decide`) -/
section rows
theorem nf_l_addItem : lookup (normTable mutatorTable) (.list, .addItem) = some (some ⟨false, .direct .arg .append .recordFirst⟩) := by decide
theorem nf_l_append : lookup (normTable mutatorTable) (.list, .append) = some (some ⟨false, .direct .arg .append .recordFirst⟩) := by decide
theorem nf_l_extend : lookup (normTable mutatorTable) (.list, .extend) = some (some ⟨false, .direct (.each true) .append .recordFirst⟩) := by decide
theorem nf_l_insert : lookup (normTable mutatorTable) (.list, .insert) = some (some ⟨false, .direct .arg .insert .recordFirst⟩) := by decide
theorem nf_l_setitem : lookup (normTable mutatorTable) (.list, .setitem) = some (some ⟨false, .direct (.argOrEach true) .setitem .recordFirst⟩) := by decide
theorem nf_l_iadd : lookup (normTable mutatorTable) (.list, .iadd) = some (some ⟨false, .direct (.each true) .append .recordFirst⟩) := by decide
theorem nf_l_remove : lookup (normTable mutatorTable) (.list, .remove) = some (some ⟨false, .inherited⟩) := by decide
theorem nf_l_pop : lookup (normTable mutatorTable) (.list, .pop) = some (some ⟨false, .inherited⟩) := by decide
theorem nf_l_delitem : lookup (normTable mutatorTable) (.list, .delitem) = some (some ⟨false, .inherited⟩) := by decide
theorem nf_l_clear : lookup (normTable mutatorTable) (.list, .clear) = some (some ⟨false, .inherited⟩) := by decide
theorem nf_s_addItem : lookup (normTable mutatorTable) (.set, .addItem) = some (some ⟨false, .direct .arg .add .recordFirst⟩) := by decide
theorem nf_s_add : lookup (normTable mutatorTable) (.set, .add) = some (some ⟨false, .direct .arg .add .recordFirst⟩) := by decide
theorem nf_s_update : lookup (normTable mutatorTable) (.set, .update) = some (some ⟨false, .direct (.each false) .add .recordFirst⟩) := by decide
theorem nf_s_ior : lookup (normTable mutatorTable) (.set, .ior) = some (some ⟨true, .direct (.each false) .add .recordFirst⟩) := by decide
theorem nf_s_remove : lookup (normTable mutatorTable) (.set, .remove) = some (some ⟨false, .inherited⟩) := by decide
theorem nf_s_discard : lookup (normTable mutatorTable) (.set, .discard) = some (some ⟨false, .inherited⟩) := by decide
theorem nf_s_clear : lookup (normTable mutatorTable) (.set, .clear) = some (some ⟨false, .inherited⟩) := by decide
theorem nf_d_set : lookup (normTable mutatorTable) (.desc, .set) = some (some ⟨false, .setter true true true true⟩) := by decide
end rows

theorem recorded_none (xs : List Nat) : Quirks.none.recorded xs = xs := recorded_ungated Quirks.none rfl xs

theorem recorded_none' (xs : List Nat) :
    ({ setterClearsAlias := false, setterHashOrder := false, inplaceBypass := false, sliceBatchHook := false,
       muted := [], muteAll := false } : Quirks).recorded xs = xs := recorded_none xs

theorem applyDirect_addItem_list (key : Nat → Nat) (τ : CState) (x : Nat) :
    applyDirect key false .arg .append τ (.elem x) = some (addItemC key Quirks.none false τ x) := by
  simp [applyDirect, handed, storeOf, addItemC, recorded_none]

theorem applyDirect_addItem_set (key : Nat → Nat) (τ : CState) (x : Nat) :
    applyDirect key true .arg .add τ (.elem x) = some (addItemC key Quirks.none true τ x) := by
  simp [applyDirect, handed, storeOf, addItemC, recorded_none]

theorem foldOpt_some {α β : Type} (f : β → α → Option β) (g : β → α → β) (h : ∀ b x, f b x = some (g b x)) :
    ∀ (xs : List α) (b : β), foldOpt f xs b = some (xs.foldl g b) := by
  intro xs
  induction xs with
  | nil => intro b; rfl
  | cons x xs ih => intro b; simp only [foldOpt, h, List.foldl_cons, ih]

/-- the setter row of the hand-written table is `setterC` with every quirk off -/
theorem setterNF_eq (key : Nat → Nat) (isSet : Bool) (σ : CState) (v : Assigned) :
    setterNF (normTable mutatorTable) key isSet σ v = some (setterC key Quirks.none isSet σ v) := by
  cases isSet
  · simp only [setterNF, clsOf, nf_d_set, nf_l_addItem, Bool.false_eq_true, if_false, if_true,
      foldOpt_some _ _ (applyDirect_addItem_list key)]
    cases v <;> simp [setterC, walkOrder, Quirks.none]
  · simp only [setterNF, clsOf, nf_d_set, nf_s_addItem, if_true,
      foldOpt_some _ _ (applyDirect_addItem_set key)]
    cases v <;> simp [setterC, walkOrder, Quirks.none]

theorem inplace_eq (key : Nat → Nat) (isSet : Bool) (σ : CState) (xs : List Nat) :
    callNF (normTable mutatorTable) key isSet (if isSet then .ior else .iadd) σ (.elems false xs) =
      some (inplaceC key Quirks.none isSet σ xs) := by
  cases isSet
  · simp [callNF, clsOf, nf_l_iadd, applyDirect, handed, storeOf, inplaceC, Quirks.none, foldl_addItemC, recorded_none']
  · simp [callNF, clsOf, nf_s_ior, applyDirect, handed, storeOf, inplaceC, Quirks.none, foldl_addItemC, recorded_none']

/-- **C16_interp_eq_stepC.** Interpreting the hand-written table IS the model of the code (all quirks off) that
`C16_full`, `C16_two_full`, `C16_relations` are about: for every operation applicable to the kind of field, every
state and ALL argument values. -/
theorem C16_interp_eq_stepC (key : Nat → Nat) (isSet : Bool) (σ : CState) (op : COp)
    (happ : op.applicable isSet = true) :
    interp mutatorTable key isSet σ op = some (stepC key Quirks.none isSet σ op) := by
  cases op with
  | append x =>
    cases isSet
    · simp [interp, interpNF, callNF, clsOf, nf_l_append, applyDirect_addItem_list, stepC]
    · simp [interp, interpNF, callNF, clsOf, nf_s_add, applyDirect_addItem_set, stepC]
  | extend xs =>
    cases isSet
    · simp [interp, interpNF, callNF, clsOf, nf_l_extend, applyDirect, handed, storeOf, stepC, foldl_addItemC,
        recorded_none]
    · simp [interp, interpNF, callNF, clsOf, nf_s_update, applyDirect, handed, storeOf, stepC, foldl_addItemC,
        recorded_none]
  | insert i x =>
    have hl : isSet = false := by simpa [COp.applicable] using happ
    subst hl
    simp [interp, interpNF, callNF, clsOf, nf_l_insert, applyDirect, handed, storeOf, stepC, recorded_none]
  | setitem i x =>
    have hl : isSet = false := by simpa [COp.applicable] using happ
    subst hl
    simp [interp, interpNF, callNF, clsOf, nf_l_setitem, applyDirect, handed, storeOf, stepC, recorded_none]
  | setslice i j one xs =>
    have hl : isSet = false := by simpa [COp.applicable] using happ
    subst hl
    simp [interp, interpNF, callNF, clsOf, nf_l_setitem, applyDirect, handed, storeOf, stepC, recorded_none',
      Quirks.none]
  | assign xs => simp only [interp, interpNF, setterNF_eq, stepC]
  | assignSelf => simp only [interp, interpNF, setterNF_eq, stepC]
  | assignView v => simp only [interp, interpNF, setterNF_eq, stepC]
  | iadd xs => simp only [interp, interpNF, inplace_eq, setterNF_eq, stepC]
  | iaddAlias xs => simp only [interp, interpNF, inplace_eq, stepC]
  | remove x =>
    cases isSet
    · simp [interp, interpNF, callNF, clsOf, nf_l_remove, builtin, stepC]
    · simp [interp, interpNF, callNF, clsOf, nf_s_remove, builtin, stepC]
  | discard x =>
    have hl : isSet = true := by simpa [COp.applicable] using happ
    subst hl
    simp [interp, interpNF, callNF, clsOf, nf_s_discard, builtin, stepC]
  | pop i =>
    have hl : isSet = false := by simpa [COp.applicable] using happ
    subst hl
    simp [interp, interpNF, callNF, clsOf, nf_l_pop, builtin, stepC]
  | delitem i =>
    have hl : isSet = false := by simpa [COp.applicable] using happ
    subst hl
    simp [interp, interpNF, callNF, clsOf, nf_l_delitem, builtin, stepC]
  | delslice i j =>
    have hl : isSet = false := by simpa [COp.applicable] using happ
    subst hl
    simp [interp, interpNF, callNF, clsOf, nf_l_delitem, builtin, stepC]
  | clear =>
    cases isSet
    · simp [interp, interpNF, callNF, clsOf, nf_l_clear, builtin, stepC]
    · simp [interp, interpNF, callNF, clsOf, nf_s_clear, builtin, stepC]

/-- what the property says of ONE write operation interpreted from a table: from states in agreement (same contents,
same elements recorded, everything stored recorded, a set without equal elements) the interpretation is defined and
agrees with the specification again — contents = Python list / set semantics, recorded = exactly what entered -/
def TableMeetsProperty (t : MutatorTable) : Prop :=
  ∀ (key : Nat → Nat) (isSet : Bool) (m s : CState) (op : COp),
    CRel key isSet m s → op.applicable isSet = true →
    ∃ σ', interp t key isSet m op = some σ' ∧ CRel key isSet σ' (specStepC key isSet s op)

/-- **C16_table_hand_meets_property.** The hand-written table meets the property, for every operation of the
grammar (the ten the property lists and the six removing ones) and ALL argument values. -/
theorem C16_table_hand_meets_property : TableMeetsProperty mutatorTable := by
  intro key isSet m s op h happ
  exact ⟨_, C16_interp_eq_stepC key isSet m op happ,
    stepC_rel key Quirks.none isSet m s op h (fun h' => by cases h') rfl (okFor_none key op) happ⟩

/-- **C16_of_table_norm_eq.** Whatever table has the normal form of the hand-written one inherits the property
(used by the obligation regenerated from the source on every run). -/
theorem C16_of_table_norm_eq (t : MutatorTable) (h : normTable t = normTable mutatorTable) :
    TableMeetsProperty t := by
  intro key isSet m s op hr happ
  have := C16_table_hand_meets_property key isSet m s op hr happ
  simpa only [interp, h] using this

/-- whole sequences: running a table with the hand-written normal form from any admissible state -/
def runTable (t : MutatorTable) (key : Nat → Nat) (isSet : Bool) : List COp → CState → Option CState
  | [], σ => some σ
  | op :: ops, σ => match interp t key isSet σ op with | some τ => runTable t key isSet ops τ | none => none

/-- **C16_table_run.** For every sequence of write operations (any length, any contents to start from): the run
of a table with the hand-written normal form is defined and ends in agreement with the specification. -/
theorem C16_table_run (t : MutatorTable) (h : normTable t = normTable mutatorTable) (key : Nat → Nat)
    (isSet : Bool) (ops : List COp) :
    ∀ (m s : CState), CRel key isSet m s → (∀ op ∈ ops, op.applicable isSet = true) →
      ∃ σ', runTable t key isSet ops m = some σ' ∧ CRel key isSet σ' (specC key isSet s ops) := by
  induction ops with
  | nil => intro m s hr _; exact ⟨m, rfl, hr⟩
  | cons op ops ih =>
    intro m s hr happ
    obtain ⟨τ, h1, h2⟩ := C16_of_table_norm_eq t h key isSet m s op hr (happ op List.mem_cons_self)
    obtain ⟨σ', h3, h4⟩ := ih τ _ h2 (fun o ho => happ o (List.mem_cons_of_mem _ ho))
    exact ⟨σ', by simp only [runTable, h1, h3], by simpa only [specC, List.foldl_cons] using h4⟩

/-! ### Tests: the interpreter on the tables of the code as it was reproduces the repaired findings -/

/-- F-C16-4 from the table: with `__iadd__` / `__ior__` inherited the element is stored and not recorded -/
example :
    interp mutatorTableNoInplace id true ⟨[1], [1]⟩ (.iaddAlias [4]) = some ⟨[1, 4], [1]⟩ ∧
    interp mutatorTable id true ⟨[1], [1]⟩ (.iaddAlias [4]) = some ⟨[1, 4], [1, 4]⟩ := by decide

/-- F-C16-1 / F-C16-3 from the table: a setter that clears before it reads, and walks `make_set(value)` -/
example :
    interp mutatorTableOldSetter id false ⟨[1, 2], [1, 2]⟩ .assignSelf = some ⟨[], [1, 2]⟩ ∧
    interp mutatorTableOldSetter id false ⟨[], []⟩ (.assign [3, 1, 3, 0]) = some ⟨[0, 1, 3], [0, 1, 3]⟩ ∧
    interp mutatorTable id false ⟨[1, 2], [1, 2]⟩ .assignSelf = some ⟨[1, 2], [1, 2, 1, 2]⟩ := by decide

/-- a table whose `append` does not reach the hook is NOT the normal form of the code -/
example :
    normTable (mutatorTable.map fun r => if r.1 == (.list, .append) then (r.1, ⟨false, .direct .nothing .append .recordFirst⟩) else r)
      ≠ normTable mutatorTable := by decide

/-- HOW a mutator reaches the hook is normalised away: `append` written out instead of calling `_add_item`,
`__iadd__` written as its own loop instead of delegating -/
example :
    normTable (mutatorTable.map fun r =>
        if r.1 == (.list, .append) then (r.1, ⟨false, .direct .arg .append .recordFirst⟩)
        else if r.1 == (.list, .iadd) then (r.1, ⟨false, .viaAddItem (.each true)⟩) else r)
      = normTable mutatorTable := by decide

/-- non-vacuity of `TableMeetsProperty` / `C16_table_run` (test): a run with every kind of operation -/
example :
    let ops : List COp := [.extend [1, 2, 3], .remove 2, .iadd [2, 4], .pop none, .delitem 0, .setslice (some 0) (some 1) true [5, 6],
      .assignSelf, .delslice (some 1) none, .clear, .append 7]
    (∀ op ∈ ops, op.applicable false = true) ∧
    runTable mutatorTable id false ops ⟨[], []⟩ = some ⟨[7], [1, 2, 3, 2, 4, 1, 3, 2, 4, 5, 6, 5, 6, 2, 7]⟩ ∧
    specC id false ⟨[], []⟩ ops = ⟨[7], [1, 2, 3, 2, 4, 5, 6, 7]⟩ := by decide

end KrroodVerif.PD
