import KrroodVerif.Lemmas.EqlCount
import KrroodVerif.Props.C09
/-!
# C02 — No duplicated or dropped solutions in conjunctive / else-if queries

Property theorems only (lemmas: `Lemmas/EqlCover.lean`, `Lemmas/EqlCount.lean`). The model (`evalQuery`, `eval`,
`build`) transcribes the engine; `solutions` / `sat` is the ordinary first-order reading.

Fragment `SExpr.F2`: `and_`, `or_` only between conditions with the same variables, `not_` only on atoms;
atoms are comparisons, membership, `HasType` and attribute/index chains used as conditions, over
variables, literals and attribute/index chains (no `flatten`, no quantifiers).
Side conditions: domains are duplicate-free, literal nodes have distinct ids (`LitNodup`), the selection
consists of plain variables that occur in the condition (`selOK`).
Both sides are assumed to return `.ok` (no well-typedness development).

Until fix commit `78cb732` every theorem here also assumed `DomTruthy w` (every domain value truthy): a BOUND
variable with a falsy value (`0`, `False`, `[]`, `None`) was reported false, so a comparison using it as an operand
dropped the row (F-C02-1 = F-C01-3). The repaired engine flags a bound variable with its truthiness only where the
variable itself is a condition (`boundFlag`); the hypothesis is gone and `C02_falsyBound_repaired` states the
former counter-example positively.
-/
namespace KrroodVerif.Eql

/-- **C02_multiplicity.** On `F2`, evaluation yields exactly one result row per satisfying assignment:
the rows of `evalQuery` are a permutation of the rows of the specification (multiset equality). Unbounded in
the query, the domains and the objects. -/
theorem C02_multiplicity (w : World) (q : SQuery) (c : SExpr)
    (hc : q.cond = some c) (hF : c.F2 = true) (hsel : selOK q.sel c = true)
    (hnd : ∀ v, (w.dom v).Nodup) (hlit : LitNodup (build c))
    {rows rows' : List (List Val)}
    (h1 : evalQuery w q.toQuery = .ok rows) (h2 : solutions w q = .ok rows') :
    rows.Perm rows' := by
  obtain ⟨sel, cond⟩ := q
  simp only at hc; subst hc
  simp only [selOK, Bool.and_eq_true, List.all_eq_true, List.contains_iff_mem] at hsel
  have hs := sel_plain (List.all_eq_true.mpr hsel.1)
  have hocc : ∀ v ∈ sel.flatMap Term.vars, v ∈ c.freeVars := fun v hv => by simpa using hsel.2 v hv
  simp only [SQuery.toQuery, Option.map] at h1
  rw [hs] at h1 h2
  exact multiplicity_core w _ c hF hocc hnd hlit h1 h2

/-- **C02_the.** Under the same hypotheses `the(q)` sees the true number of solutions: the value `s` iff the
specification has exactly the solution `s`, `NoSolutionFound` iff it has none, `MultipleSolutionFound` iff it
has several (`Quant.theRun` is C09's model of `the`, `Quant.theSpec` its specification). -/
theorem C02_the (w : World) (q : SQuery) (c : SExpr)
    (hc : q.cond = some c) (hF : c.F2 = true) (hsel : selOK q.sel c = true)
    (hnd : ∀ v, (w.dom v).Nodup) (hlit : LitNodup (build c))
    {rows rows' : List (List Val)}
    (h1 : evalQuery w q.toQuery = .ok rows) (h2 : solutions w q = .ok rows') :
    rows.length = rows'.length ∧
    Quant.theRun rows = some (Quant.theSpec rows) ∧
    (Quant.theSpec rows = .noSolution ↔ rows' = []) ∧
    (∀ s, Quant.theSpec rows = .value s ↔ rows' = [s]) ∧
    (Quant.theSpec rows = .multipleSolutions ↔ 2 ≤ rows'.length) := by
  have hp := C02_multiplicity w q c hc hF hsel hnd hlit h1 h2
  refine ⟨hp.length_eq, Quant.C09_the rows, ?_⟩
  match rows, hp with
  | [], hp =>
    have : rows' = [] := hp.symm.eq_nil
    subst this; simp [Quant.theSpec]
  | [x], hp =>
    have : rows' = [x] := List.perm_singleton.mp hp.symm
    subst this; simp [Quant.theSpec]
  | x :: y :: r, hp =>
    have hl := hp.length_eq
    simp only [List.length_cons] at hl
    refine ⟨?_, ?_, ?_⟩
    · simp only [Quant.theSpec, reduceCtorEq, false_iff]; intro h; rw [h] at hl; simp at hl
    · intro s; simp only [Quant.theSpec, reduceCtorEq, false_iff]; intro h; rw [h] at hl; simp at hl
    · simp only [Quant.theSpec, true_iff]; omega

/-! ### The former counter-example (test, by `decide` on the witness of F-C02-1 = F-C01-3 in `findings.d/C02.json`;
the finding is `fixed:` by commit `78cb732`) -/

def cexFalsyW : World := { objs := [], doms := [(0, [.int 0, .int 1, .int 2, .int 3])] }
def cexFalsyQ : SQuery :=
  ⟨[.var 0], some (.and (.cmp .ge (.var 0) (.lit 101 (.int 0))) (.cmp .lt (.var 0) (.lit 102 (.int 2))))⟩

/-- **C02_cex_falsyBound** (test; the witness of the REPAIRED finding F-C02-1 = F-C01-3, name kept).
`and_(x >= 0, x < 2)` over `[0,1,2,3]`. The defect: the second comparison met `x` already bound, a bound variable was
flagged `is_false = not bool(value)` wherever it stood, the comparator filters its operand results by that flag, so
`x = 0` was dropped — the engine (and this model, until the port) returned `[[1]]`: one row for two satisfying
assignments. Fix commit `78cb732` flags a bound variable with its truthiness only where the variable itself is a
condition; the model follows (`boundFlag`), and on the same witness evaluation now EQUALS the specification. The query
is in `F2` and meets every hypothesis of `C02_multiplicity` although the domain contains a falsy value
(`domTruthyB … = false`): the hypothesis `DomTruthy` that used to exclude it is no longer needed. -/
theorem C02_cex_falsyBound :
    evalQuery cexFalsyW cexFalsyQ.toQuery = .ok [[.int 0], [.int 1]] ∧
    solutions cexFalsyW cexFalsyQ = .ok [[.int 0], [.int 1]] ∧
    evalQuery cexFalsyW cexFalsyQ.toQuery = solutions cexFalsyW cexFalsyQ ∧
    (∃ c, cexFalsyQ.cond = some c ∧ c.F2 = true ∧ selOK cexFalsyQ.sel c = true ∧ LitNodup (build c)) ∧
    domsNodupB cexFalsyW = true ∧ domTruthyB cexFalsyW = false := by
  refine ⟨by decide, by decide, by decide, ⟨_, rfl, by decide, by decide, by decide⟩, by decide, by decide⟩

/-- non-vacuity on falsy values (test): `C02_multiplicity` and `C02_the` now APPLY to the former witness (domain
`[0,1,2,3]`, the value `0` is falsy) -/
example : [[Val.int 0], [.int 1]].Perm [[Val.int 0], [.int 1]] ∧
    Quant.theSpec [[Val.int 0], [.int 1]] = .multipleSolutions :=
  ⟨C02_multiplicity cexFalsyW cexFalsyQ _ rfl (by decide) (by decide) (domsNodup_of_B (by decide)) (by decide)
      (by decide) (by decide),
   ((C02_the cexFalsyW cexFalsyQ _ rfl (by decide) (by decide) (domsNodup_of_B (by decide)) (by decide)
      (rows := [[Val.int 0], [.int 1]]) (rows' := [[Val.int 0], [.int 1]]) (by decide) (by decide)).2.2.2.2).mpr
      (by decide)⟩

/-! ### Non-vacuity (test): a 3-object world and an `F2` query with a non-empty, non-total answer that meets
every hypothesis of `C02_multiplicity` / `C02_the` -/

def c02nvW : World :=
  { objs := [cexObj false 0 true [] 0, cexObj false 1 true [] 2, cexObj false 2 true [] 4],
    doms := [(0, [.obj 0, .obj 1, .obj 2]), (1, [.obj 0, .obj 1, .obj 2])] }
def c02nvC : SExpr :=
  .and (.or (.cmp .lt (.attr (.var 0) "a") (.attr (.var 1) "a")) (.cmp .eq (.attr (.var 0) "a") (.attr (.var 1) "a")))
       (.not (.cmp .eq (.attr (.var 1) "a") (.lit 101 (.int 2))))
def c02nvQ : SQuery := ⟨[.var 0, .var 1], some c02nvC⟩

example :
    c02nvQ.cond = some c02nvC ∧ c02nvC.F2 = true ∧ selOK c02nvQ.sel c02nvC = true ∧
    (∀ v, (c02nvW.dom v).Nodup) ∧ LitNodup (build c02nvC) ∧
    evalQuery c02nvW c02nvQ.toQuery = .ok [[.obj 0, .obj 0], [.obj 0, .obj 1], [.obj 1, .obj 1]] ∧
    solutions c02nvW c02nvQ = .ok [[.obj 0, .obj 0], [.obj 0, .obj 1], [.obj 1, .obj 1]] ∧
    (assignments c02nvW c02nvQ.vars).length = 9 :=
  ⟨rfl, by decide, by decide, domsNodup_of_B (by decide), by decide,
    by decide, by decide, by decide⟩

/-! ### Partially ordered values (test): on `frozenset`s the negation of an ordering comparison is NOT the "inverse"
operator — `{0} < {1}` and `{0} >= {1}` are both false — so a negated atom must be evaluated as `Not(Comparator)`,
which is what `invert` builds; the multiplicity theorems above hold for every value universe because they never
inspect `applyCmp` -/

theorem C02_poset_not_lt_ne_ge (w : World) :
    applyCmp w .lt (.set [0]) (.set [1]) = .ok false ∧ applyCmp w .ge (.set [0]) (.set [1]) = .ok false := by
  constructor <;> rfl

def c02setW : World :=
  { objs := [{ cls := 0, fields := [("s", .set [0])], veq := false }, { cls := 0, fields := [("s", .set [1])], veq := false }],
    doms := [(0, [.obj 0, .obj 1]), (1, [.obj 0, .obj 1])] }
def c02setQ : SQuery := ⟨[.var 0, .var 1], some (.not (.cmp .lt (.attr (.var 0) "s") (.attr (.var 1) "s")))⟩

/-- every one of the four assignments satisfies `not_(x.s < y.s)` over `{0}`, `{1}` (two of them only because the
sets are incomparable), and each yields exactly one row -/
theorem C02_poset_negated_atom :
    evalQuery c02setW c02setQ.toQuery = solutions c02setW c02setQ ∧
    solutions c02setW c02setQ =
      .ok [[.obj 0, .obj 0], [.obj 0, .obj 1], [.obj 1, .obj 0], [.obj 1, .obj 1]] := by
  constructor <;> decide

end KrroodVerif.Eql
