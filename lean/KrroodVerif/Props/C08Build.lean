import KrroodVerif.Props.C08
import KrroodVerif.Lemmas.RuleBuild
import KrroodVerif.Lemmas.RuleLayoutShape
/-!
# C08 — the builder, unbounded

* `C08_build_layout` — for EVERY program (any number of branches, any nesting, ambiguous or not) the tree surgery as
  it is (`Quirks.today`) leaves behind exactly the selector tree `Prog.layout` (node identities included), every
  node its own object. Proof: store/tree representation invariant `Inv`, one lemma per builder operation, induction
  over the program (`Lemmas/RuleBuild.lean`).
* `C08_build` — for every unambiguous program that tree is the well-formed tree of the program's rule
  (`Lemmas/RuleLayoutShape.lean`: in an unambiguous program all alternatives of a scope are written before all its
  next_rules). This is the statement `C08_full` that `C08_build_partial` (finite table, ≤ 4 branches) left open.
* `C08_end_to_end` — builder + evaluator = `fire`, for every unambiguous program, payload and domain.
-/
set_option linter.unusedSectionVars false
namespace KrroodVerif.Rdr

/-- **C08_build_layout.** What `build Quirks.today` leaves behind, for every program. -/
theorem C08_build_layout (p : Prog) :
    (build Quirks.today p).bind BState.tree = some p.layout ∧ p.layout.ids.Nodup :=
  build_today_tree p

/-- **C08_build.** For every unambiguous program — any number of branches, any nesting depth — the surgery as it is
(fixes 5ccefb5, 6d59379) leaves behind exactly the well-formed selector tree of the program's rule, every node its
own object. The builder never sees conditions or conclusions, so this holds for every payload. -/
theorem C08_build (p : Prog) (hu : p.unambiguous = true) :
    ∃ t, (build Quirks.today p).bind BState.tree = some t ∧ WellFormed t p.toRule :=
  ⟨p.layout, (build_today_tree p).1, layScope_shape p hu 3 2, (build_today_tree p).2⟩

/-- **C08_end_to_end.** The code as it is, builder and evaluator together: for every unambiguous program, every
payload and every domain, evaluating the freshly built query returns exactly the rows `fire` demands. -/
theorem C08_end_to_end (p : Prog) (pay : Payload) (dom : List Nat) (hu : p.unambiguous = true) :
    ∃ t, (build Quirks.today p).bind BState.tree = some t ∧
      ∀ c x, (c, x) ∈ evalTop pay Quirks.today.dedup dom t ↔ (c, x) ∈ spec pay p dom := by
  obtain ⟨t, ht, hwf⟩ := C08_build p hu
  exact ⟨t, ht, fun c x => C08_eval pay dom p.toRule t hwf c x⟩

/-- non-vacuity: a program outside every finite table of the earlier theorems' kind is covered — six branches,
nesting depth 3, refinements inside alternatives inside refinements -/
example : ∃ t, (build Quirks.today
    (.mk 0 (.cons .ref (.mk 1 (.cons .alt (.mk 2 (.cons .ref (.mk 3 .nil) .nil)) (.cons .next (.mk 4 .nil) .nil)))
      (.cons .alt (.mk 5 .nil) (.cons .next (.mk 6 .nil) .nil))))).bind BState.tree = some t ∧
    WellFormed t (Prog.toRule
      (.mk 0 (.cons .ref (.mk 1 (.cons .alt (.mk 2 (.cons .ref (.mk 3 .nil) .nil)) (.cons .next (.mk 4 .nil) .nil)))
        (.cons .alt (.mk 5 .nil) (.cons .next (.mk 6 .nil) .nil))))) :=
  C08_build _ (by decide)


/-! ## multi-step authoring, unbounded -/

theorem itemsOfKids_ops (b : Nat) : ∀ xs : Kids, (itemsOfKids xs).flatMap (Item.ops b) = xs.ops
  | .nil => rfl
  | .cons k p rest => by
    simp [itemsOfKids, Item.ops, kidOps, Kids.ops, itemsOfKids_ops b rest]

theorem kidsOfItems_split : ∀ xs ys : Kids,
    kidsOfItems (itemsOfKids xs ++ Item.add :: itemsOfKids ys) = xs.append ys
  | .nil, .nil => rfl
  | .nil, .cons k p rest => by
    have := kidsOfItems_split .nil rest
    simp only [itemsOfKids, List.nil_append, kidsOfItems, Kids.append] at this ⊢
    rw [this]
  | .cons k p rest, ys => by
    simp only [itemsOfKids, List.cons_append, kidsOfItems, Kids.append, kidsOfItems_split rest ys]

section
variable (f : Item → Bool) (hfa : f .add = true) (hfk : ∀ k p, f (.kid k p) = false) (hfr : f .reenter = false)
include hfa hfk hfr

theorem filter_itemsOfKids : ∀ zs : Kids, (itemsOfKids zs).filter f = []
  | .nil => rfl
  | .cons k p rest => by
    rw [itemsOfKids, List.filter_cons, if_neg (by simp [hfk]), filter_itemsOfKids rest]

/-- a schedule in one block with at most one `Add` position is "some branches, the Add, the other branches" -/
theorem split_items : ∀ items : List Item, (∀ it ∈ items, it.isReenter = false) →
    (items.filter f).length ≤ 1 →
    (∃ xs, items = itemsOfKids xs) ∨ (∃ xs ys, items = itemsOfKids xs ++ Item.add :: itemsOfKids ys)
  | [], _, _ => Or.inl ⟨.nil, rfl⟩
  | .kid k p :: rest, hr, h1 => by
    have := split_items rest (fun it hit => hr it (by simp [hit]))
      (by rw [List.filter_cons, if_neg (by simp [hfk])] at h1; exact h1)
    rcases this with ⟨xs, rfl⟩ | ⟨xs, ys, rfl⟩
    · exact Or.inl ⟨.cons k p xs, rfl⟩
    · exact Or.inr ⟨.cons k p xs, ys, rfl⟩
  | .reenter :: rest, hr, _ => by
    have := hr .reenter (by simp); simp [Item.isReenter] at this
  | .add :: rest, hr, h1 => by
    have h0 : (rest.filter f).length ≤ 0 := by
      rw [List.filter_cons, if_pos hfa, List.length_cons] at h1; omega
    have := split_items rest (fun it hit => hr it (by simp [hit])) (by omega)
    rcases this with ⟨xs, rfl⟩ | ⟨xs, ys, rfl⟩
    · exact Or.inr ⟨.nil, xs, rfl⟩
    · rw [List.filter_append, List.filter_cons, if_pos hfa] at h0; simp at h0

theorem filter_add_filter : ∀ items : List Item,
    ((items.filter fun i => !i.isReenter).filter f) = items.filter f
  | [] => rfl
  | .kid k p :: rest => by
    rw [List.filter_cons, if_pos (by rfl), List.filter_cons, List.filter_cons, filter_add_filter rest]
  | .reenter :: rest => by
    rw [List.filter_cons, if_neg (by decide), List.filter_cons (x := Item.reenter), if_neg (by simp [hfr]),
      filter_add_filter rest]
  | .add :: rest => by
    rw [List.filter_cons, if_pos (by rfl), List.filter_cons, List.filter_cons, filter_add_filter rest]
end

theorem kidsOfItems_filter : ∀ items : List Item,
    kidsOfItems (items.filter fun i => !i.isReenter) = kidsOfItems items
  | [] => rfl
  | .kid k p :: rest => by
    rw [List.filter_cons, if_pos (by rfl)]; simp only [kidsOfItems]; rw [kidsOfItems_filter rest]
  | .reenter :: rest => by
    rw [List.filter_cons, if_neg (by decide)]; simp only [kidsOfItems]; rw [kidsOfItems_filter rest]
  | .add :: rest => by
    rw [List.filter_cons, if_pos (by rfl)]; simp only [kidsOfItems]; rw [kidsOfItems_filter rest]

/-- **C08_build_authored.** Multi-step authoring, for EVERY schedule: a rule written in any number of
`with rule:` blocks on the same rule, the base rule's `Add` statements written once, anywhere between the top-level
branches — if the program it means (`Authored.toProg`) is unambiguous, the surgery leaves behind the well-formed
selector tree of that program. (Subsumes `C08_build_partial_authored`: no bound on the number of branches.) -/
theorem C08_build_authored (a : Authored) (h1 : a.oneAdd = true) (hu : a.toProg.unambiguous = true) :
    ∃ t, (buildA Quirks.today a).bind BState.tree = some t ∧ WellFormed t a.toProg.toRule := by
  rw [C08_authoring]
  have hp : a.oneBlock.toProg = a.toProg := by
    simp only [Authored.toProg, Authored.oneBlock, kidsOfItems_filter]
  let f : Item → Bool := fun i => match i with | .add => true | _ => false
  have hfa : f .add = true := rfl
  have hfk : ∀ k p, f (.kid k p) = false := fun _ _ => rfl
  have hfr : f .reenter = false := rfl
  have hadd : (a.oneBlock.items.filter f).length = 1 := by
    simp only [Authored.oneBlock]
    rw [filter_add_filter f hfa hfk hfr]
    exact eq_of_beq h1
  have hre : ∀ it ∈ a.oneBlock.items, it.isReenter = false := by
    intro it hit
    simp only [Authored.oneBlock, List.mem_filter, Bool.not_eq_true'] at hit
    exact hit.2
  rcases split_items f hfa hfk hfr a.oneBlock.items hre (by omega) with ⟨xs, hx⟩ | ⟨xs, ys, hx⟩
  · exfalso
    rw [hx, filter_itemsOfKids f hfa hfk hfr] at hadd
    simp at hadd
  · have hprog : a.toProg = .mk a.blk (xs.append ys) := by
      rw [← hp]; simp only [Authored.toProg, hx, kidsOfItems_split]; rfl
    have hb := build_split_tree a.blk xs ys
    refine ⟨_, ?_, ?_, hb.2⟩
    · have : buildA Quirks.today a.oneBlock =
          (BState.init a.blk).run Quirks.today (Op.enterQuery :: ((xs.ops ++ Op.add a.blk :: ys.ops) ++ [Op.exit])) := by
        simp only [buildA, Authored.ops, hx, List.flatMap_append, List.flatMap_cons, itemsOfKids_ops, Item.ops]
        rfl
      rw [this]; exact hb.1
    · rw [hprog]; exact layScope_shape _ (hprog ▸ hu) 3 2

/-- **C08_end_to_end_authored_full.** Builder and evaluator on a rule written in several steps, every schedule,
every payload, every domain. -/
theorem C08_end_to_end_authored_full (a : Authored) (h1 : a.oneAdd = true) (hu : a.toProg.unambiguous = true)
    (pay : Payload) (dom : List Nat) :
    ∃ t, (buildA Quirks.today a).bind BState.tree = some t ∧
      ∀ c x, (c, x) ∈ evalTop pay Quirks.today.dedup dom t ↔ (c, x) ∈ spec pay a.toProg dom := by
  obtain ⟨t, ht, hwf⟩ := C08_build_authored a h1 hu
  exact ⟨t, ht, fun c x => C08_eval pay dom a.toProg.toRule t hwf c x⟩

/-- non-vacuity: the two-step authoring of the seeded-change demo (first block: the refinement; second block: the
base conclusion) -/
example : (Authored.mk 0 [.kid .ref (.mk 1 .nil), .reenter, .add]).oneAdd = true ∧
    (Authored.mk 0 [.kid .ref (.mk 1 .nil), .reenter, .add]).toProg.unambiguous = true := by decide


/-! the `authoredAt` form of the earlier bounded theorems, without the bound -/

theorem kidsOfItems_itemsOfKids : ∀ zs : Kids, kidsOfItems (itemsOfKids zs) = zs
  | .nil => rfl
  | .cons k p rest => by simp only [itemsOfKids, kidsOfItems, kidsOfItems_itemsOfKids rest]

theorem kidsOfItems_skip_add : ∀ l1 l2 : List Item, kidsOfItems (l1 ++ Item.add :: l2) = kidsOfItems (l1 ++ l2)
  | [], l2 => rfl
  | .kid k p :: l1, l2 => by simp only [List.cons_append, kidsOfItems, kidsOfItems_skip_add l1 l2]
  | .reenter :: l1, l2 => by simp only [List.cons_append, kidsOfItems, kidsOfItems_skip_add l1 l2]
  | .add :: l1, l2 => by simp only [List.cons_append, kidsOfItems, kidsOfItems_skip_add l1 l2]

theorem mem_itemsOfKids : ∀ (zs : Kids) (it : Item), it ∈ itemsOfKids zs → ∃ k p, it = .kid k p
  | .nil, it, h => by simp [itemsOfKids] at h
  | .cons k p rest, it, h => by
    simp only [itemsOfKids, List.mem_cons] at h
    rcases h with rfl | h
    · exact ⟨k, p, rfl⟩
    · exact mem_itemsOfKids rest it h

theorem authoredAt_toProg (p : Prog) (k : Nat) : (p.authoredAt k).toProg = p := by
  cases p with
  | mk b kids =>
    simp only [Authored.toProg, Prog.authoredAt, Prog.blk, Prog.kids, kidsOfItems_skip_add, List.take_append_drop,
      kidsOfItems_itemsOfKids]

theorem authoredAt_oneAdd (p : Prog) (k : Nat) : (p.authoredAt k).oneAdd = true := by
  have hnil : ∀ (f : Item → Bool), (∀ k p, f (.kid k p) = false) → ∀ l : List Item,
      (∀ it ∈ l, ∃ k p, it = Item.kid k p) → l.filter f = [] := by
    intro f hf l hl
    rw [List.filter_eq_nil_iff]
    intro it hit
    obtain ⟨k, p, rfl⟩ := hl it hit
    simp [hf]
  simp only [Authored.oneAdd, Prog.authoredAt, List.filter_append, List.filter_cons, ↓reduceIte]
  rw [hnil _ (fun _ _ => rfl) _ (fun it hit => mem_itemsOfKids p.kids it (List.mem_of_mem_take hit)),
    hnil _ (fun _ _ => rfl) _ (fun it hit => mem_itemsOfKids p.kids it (List.mem_of_mem_drop hit))]
  rfl

theorem oneBlock_toProg (a : Authored) : a.oneBlock.toProg = a.toProg := by
  simp only [Authored.toProg, Authored.oneBlock, kidsOfItems_filter]

theorem oneBlock_oneAdd (a : Authored) : a.oneBlock.oneAdd = a.oneAdd := by
  simp only [Authored.oneAdd, Authored.oneBlock]
  rw [filter_add_filter _ rfl (fun _ _ => rfl) rfl]

/-- **C08_build_authored_at.** `C08_build_partial_authored` without the bound on the number of branches (and
without the bound on `k`): any unambiguous program, written in any number of `with rule:` blocks, with the base
`Add` after any `k` of its branches. -/
theorem C08_build_authored_at (p : Prog) (hu : p.unambiguous = true) (k : Nat) (a : Authored)
    (ha : a.oneBlock = p.authoredAt k) :
    ∃ t, (buildA Quirks.today a).bind BState.tree = some t ∧ WellFormed t p.toRule := by
  have hprog : a.toProg = p := by rw [← oneBlock_toProg, ha, authoredAt_toProg]
  have hone : a.oneAdd = true := by rw [← oneBlock_oneAdd, ha, authoredAt_oneAdd]
  have := C08_build_authored a hone (hprog ▸ hu)
  rwa [hprog] at this

end KrroodVerif.Rdr
