import KrroodVerif.Lemmas.EqlRewritesLemmas
import KrroodVerif.Props.C02
/-!
# C01 / C02 — the construction-time rewrites, tied to the source by translation

`Model/EqlRewrites.lean` describes what `and_`, `or_`, `not_`, `exists`, `for_all`, `contains`, `in_`, `chained_logic`,
`optimize_or` and every `_invert_` do as a `RewriteTable` and interprets it (`buildWith`).
`harness/translate/c02_translate.py` regenerates the table from the current Python AST on every run and the kernel
re-checks `Translated.rewrites = Eql.rewrites` and `RewritesOk Translated.rewrites = true` (both by `decide`, on a
finite table). The theorems here are proved ONCE, for every expression:

* `buildWith_rewrites_eq_build` — the interpreter on the table of the code as it is IS the hand-written `build` (so every
  C01/C02/C03/C10/C11 theorem about `build` is a theorem about the regenerated table as long as the first obligation holds);
* `satE_buildWith` — for EVERY admissible table, building preserves the ordinary first-order meaning of every surface
  expression (n-ary `and_` / `or_` in either nesting, `not_` through any De Morgan / double-negation / dualising
  `_invert_`, quantifiers);
* `rewritesOk_or_equal_vars`, `buildWith_eq_build_of_notOnAtoms`, `C02_multiplicity_okTable` — admissible tables keep
  the fragments of the evaluation theorems: `or_` over equal variable sets is `ElseIf` (otherwise `Union`), and on
  expressions that negate atoms only (⊇ `F2`) every admissible table builds exactly what `build` builds.
-/
namespace KrroodVerif.Eql

/-! ### every admissible table preserves the first-order meaning -/

theorem satE_mkBin_andOp (w : World) {t : RewriteTable} (hp : RewritesOkP t) (σ : Asg) (l r : Expr) :
    satE w (mkBin t.orRule t.andOp l r) σ = (do pure ((← satE w l σ) && (← satE w r σ))) := by
  rw [hp.andOp]; simp only [mkBin, satE]

theorem satE_mkBin_orOp (w : World) {t : RewriteTable} (hp : RewritesOkP t) (σ : Asg) (l r : Expr) :
    satE w (mkBin t.orRule t.orOp l r) σ = (do pure ((← satE w l σ) || (← satE w r σ))) := by
  rw [hp.orOp]; exact satE_mkBin_or w hp.orRule (by simp) l r σ

mutual
/-- **satE_buildWith.** For every table that passes `RewritesOk`, the expression the engine builds from a surface
expression has the first-order meaning of the surface expression — for EVERY expression of the construction vocabulary
(n-ary `and_`/`or_`, `not_` of anything, `exists`/`for_all`, `contains`/`in_`), every world and assignment, errors included. -/
theorem satE_buildWith (w : World) {t : RewriteTable} (h : RewritesOk t = true) :
    ∀ (e : Surface) (σ : Asg), satE w (buildWith t e) σ = satS w e σ
  | .cmp op l r, σ => by simp only [buildWith, satE, satS]
  | .contains c i, σ => by
    simp only [buildWith, (RewritesOk.unpack h).containsSwapped, Bool.false_eq_true, if_false, satE, satS]
  | .isIn i c, σ => by
    simp only [buildWith, (RewritesOk.unpack h).inSwapped, Bool.false_eq_true, if_false, satE, satS]
  | .truth x, σ => by simp only [buildWith, satE, satS]
  | .hasType x c, σ => by simp only [buildWith, satE, satS]
  | .andN f r, σ => by
    have hp := RewritesOk.unpack h
    simp only [buildWith, satS]
    rw [satE_foldWith w σ (· && ·) _ t.fold hp.fold (fun x y z => (Bool.and_assoc x y z).symm)
          (satE_mkBin_andOp w hp σ), satE_buildWith w h f σ]
    cases satS w f σ with
    | error e => rfl
    | ok a => exact satE_buildListWith w h (· && ·) r σ a
  | .orN f r, σ => by
    have hp := RewritesOk.unpack h
    simp only [buildWith, satS]
    rw [satE_foldWith w σ (· || ·) _ t.fold hp.fold (fun x y z => (Bool.or_assoc x y z).symm)
          (satE_mkBin_orOp w hp σ), satE_buildWith w h f σ]
    cases satS w f σ with
    | error e => rfl
    | ok a => exact satE_buildListWith w h (· || ·) r σ a
  | .amp l r, σ => by
    have hp := RewritesOk.unpack h
    simp only [buildWith, satS]
    rw [hp.ampOp, ← satE_buildWith w h l σ, ← satE_buildWith w h r σ]
    simp only [mkBin, satE]
  | .bar l r, σ => by
    have hp := RewritesOk.unpack h
    simp only [buildWith, satS]
    rw [hp.barOp, ← satE_buildWith w h l σ, ← satE_buildWith w h r σ]
    exact satE_mkBin_or w hp.orRule (by simp) _ _ σ
  | .not e, σ => by
    simp only [buildWith, satS, satE_notWith w h, satE_buildWith w h e σ]
  | .exists_ v e, σ => by
    simp only [buildWith, (RewritesOk.unpack h).existsCtor, QCtor.mk, satE, satS]
    congr 1; funext x; exact satE_buildWith w h e _
  | .forAll v e, σ => by
    simp only [buildWith, (RewritesOk.unpack h).forAllCtor, QCtor.mk, satE, satS]
    congr 1; funext x; exact satE_buildWith w h e _
theorem satE_buildListWith (w : World) {t : RewriteTable} (h : RewritesOk t = true) (op : Bool → Bool → Bool) :
    ∀ (r : SList) (σ : Asg) (acc : Bool), foldAllE w σ op (buildListWith t r) acc = satListL w op r σ acc
  | .nil, σ, acc => by simp only [buildListWith, foldAllE, satListL]
  | .cons e r, σ, acc => by
    simp only [buildListWith, foldAllE, satListL, satE_buildWith w h e σ]
    cases satS w e σ with
    | error e => rfl
    | ok b => exact satE_buildListWith w h op r σ _
end

/-! ### the table of the code as it is, interpreted, is `build` -/

/-- the hand transcription of `chained_logic` the binary surface language of `Model/Eql.lean` stands for: n-ary
`and_`/`or_` nest to the left, `in_(item, container)` is `contains(container, item)` -/
def foldChainS (f : SExpr → SExpr → SExpr) (a : SExpr) (es : List SExpr) : SExpr := es.foldl f a

mutual
def Surface.toS : Surface → SExpr
  | .cmp op l r => .cmp op l r
  | .contains c i => .contains c i
  | .isIn i c => .contains c i
  | .truth x => .truth x
  | .hasType x c => .hasType x c
  | .andN f r => foldChainS .and f.toS r.toS
  | .orN f r => foldChainS .or f.toS r.toS
  | .amp l r => .and l.toS r.toS
  | .bar l r => .or l.toS r.toS
  | .not e => .not e.toS
  | .exists_ v e => .exists_ v e.toS
  | .forAll v e => .forAll v e.toS
def SList.toS : SList → List SExpr
  | .nil => []
  | .cons e r => e.toS :: r.toS
end

theorem build_chain_and (es : List SExpr) : ∀ a, build (foldChainS .and a es) = (es.map build).foldl .and (build a) := by
  induction es with
  | nil => intro a; rfl
  | cons e r ih => intro a; simp only [foldChainS, List.foldl_cons, List.map_cons] at ih ⊢; rw [ih]; rfl

theorem build_chain_or (es : List SExpr) : ∀ a, build (foldChainS .or a es) = (es.map build).foldl mkOr (build a) := by
  induction es with
  | nil => intro a; rfl
  | cons e r ih => intro a; simp only [foldChainS, List.foldl_cons, List.map_cons] at ih ⊢; rw [ih]; rfl

theorem mkBin_rewrites_optOr : mkBin rewrites.orRule .optOr = mkOr := by
  funext l r; exact mkOrWith_rewrites l r

mutual
/-- **buildWith_rewrites_eq_build.** The interpreter on the table `rewrites` is the hand-written `build`, for every
expression of the whole construction vocabulary (unbounded: structural induction over the mutually inductive
`Surface` / `SList`). -/
theorem buildWith_rewrites_eq_build : ∀ (e : Surface), buildWith rewrites e = build e.toS
  | .cmp op l r => rfl
  | .contains c i => rfl
  | .isIn i c => rfl
  | .truth x => rfl
  | .hasType x c => rfl
  | .andN f r => by
    simp only [buildWith, Surface.toS, build_chain_and, ← buildWith_rewrites_eq_build f, ← buildListWith_rewrites r]
    rfl
  | .orN f r => by
    simp only [buildWith, Surface.toS, build_chain_or, ← buildWith_rewrites_eq_build f, ← buildListWith_rewrites r]
    show List.foldl (mkBin rewrites.orRule .optOr) _ _ = _
    rw [mkBin_rewrites_optOr]
  | .amp l r => by
    simp only [buildWith, Surface.toS, build, ← buildWith_rewrites_eq_build l, ← buildWith_rewrites_eq_build r]; rfl
  | .bar l r => by
    simp only [buildWith, Surface.toS, build, ← buildWith_rewrites_eq_build l, ← buildWith_rewrites_eq_build r]
    show mkBin rewrites.orRule .optOr _ _ = _
    rw [mkBin_rewrites_optOr]
  | .not e => by
    simp only [buildWith, Surface.toS, build, ← buildWith_rewrites_eq_build e]
    show invertWith rewrites _ = _
    exact invertWith_rewrites _
  | .exists_ v e => by
    simp only [buildWith, Surface.toS, build, ← buildWith_rewrites_eq_build e]; rfl
  | .forAll v e => by
    simp only [buildWith, Surface.toS, build, ← buildWith_rewrites_eq_build e]; rfl
theorem buildListWith_rewrites : ∀ (r : SList), buildListWith rewrites r = r.toS.map build
  | .nil => rfl
  | .cons e r => by
    simp only [buildListWith, SList.toS, List.map_cons, buildWith_rewrites_eq_build e, buildListWith_rewrites r]
end

theorem toS_ofS (s : SExpr) : (Surface.ofS s).toS = s := by
  induction s with
  | and l r ihl ihr => simp only [Surface.ofS, Surface.toS, SList.toS, foldChainS, List.foldl_cons, List.foldl_nil, ihl, ihr]
  | or l r ihl ihr => simp only [Surface.ofS, Surface.toS, SList.toS, foldChainS, List.foldl_cons, List.foldl_nil, ihl, ihr]
  | not e ih => simp only [Surface.ofS, Surface.toS, ih]
  | exists_ v e ih => simp only [Surface.ofS, Surface.toS, ih]
  | forAll v e ih => simp only [Surface.ofS, Surface.toS, ih]
  | _ => rfl

/-- on the binary surface language of `Model/Eql.lean`: `buildWith rewrites ∘ ofS = build` -/
theorem buildWith_rewrites_ofS (s : SExpr) : buildWith rewrites (Surface.ofS s) = build s := by
  rw [buildWith_rewrites_eq_build, toS_ofS]

mutual
theorem satS_toS (w : World) : ∀ (e : Surface) (σ : Asg), satS w e σ = sat w e.toS σ
  | .cmp op l r, σ => rfl
  | .contains c i, σ => rfl
  | .isIn i c, σ => rfl
  | .truth x, σ => rfl
  | .hasType x c, σ => rfl
  | .andN f r, σ => by
    simp only [satS, Surface.toS, satS_toS w f σ]
    exact satListL_toS_and w r σ f.toS
  | .orN f r, σ => by
    simp only [satS, Surface.toS, satS_toS w f σ]
    exact satListL_toS_or w r σ f.toS
  | .amp l r, σ => by simp only [satS, Surface.toS, sat, satS_toS w l σ, satS_toS w r σ]
  | .bar l r, σ => by simp only [satS, Surface.toS, sat, satS_toS w l σ, satS_toS w r σ]
  | .not e, σ => by simp only [satS, Surface.toS, sat, satS_toS w e σ]
  | .exists_ v e, σ => by
    simp only [satS, Surface.toS, sat]; congr 1; funext x; exact satS_toS w e _
  | .forAll v e, σ => by
    simp only [satS, Surface.toS, sat]; congr 1; funext x; exact satS_toS w e _
theorem satListL_toS_and (w : World) : ∀ (r : SList) (σ : Asg) (a : SExpr),
    (do let x ← sat w a σ; satListL w (· && ·) r σ x) = sat w (foldChainS .and a r.toS) σ
  | .nil, σ, a => by
    simp only [satListL, SList.toS, foldChainS, List.foldl_nil]; cases sat w a σ <;> rfl
  | .cons e r, σ, a => by
    simp only [satListL, SList.toS, foldChainS, List.foldl_cons, satS_toS w e σ]
    have := satListL_toS_and w r σ (.and a e.toS)
    simp only [foldChainS, sat] at this
    rw [← this]
    cases sat w a σ with
    | error err => rfl
    | ok x => cases sat w e.toS σ <;> rfl
theorem satListL_toS_or (w : World) : ∀ (r : SList) (σ : Asg) (a : SExpr),
    (do let x ← sat w a σ; satListL w (· || ·) r σ x) = sat w (foldChainS .or a r.toS) σ
  | .nil, σ, a => by
    simp only [satListL, SList.toS, foldChainS, List.foldl_nil]; cases sat w a σ <;> rfl
  | .cons e r, σ, a => by
    simp only [satListL, SList.toS, foldChainS, List.foldl_cons, satS_toS w e σ]
    have := satListL_toS_or w r σ (.or a e.toS)
    simp only [foldChainS, sat] at this
    rw [← this]
    cases sat w a σ with
    | error err => rfl
    | ok x => cases sat w e.toS σ <;> rfl
end

/-- `satE_build` (Lemmas/EqlCover.lean) is the instance `t = rewrites` of `satE_buildWith` -/
theorem satE_build_of_table (w : World) (s : SExpr) (σ : Asg) : sat w s σ = satE w (build s) σ := by
  rw [← buildWith_rewrites_ofS, satE_buildWith w (by decide), satS_toS, toS_ofS]

/-! ### admissible tables keep the fragments of the evaluation theorems -/

/-- **rewritesOk_or_equal_vars.** Under every admissible table the operator `or_` chains builds `ElseIf` exactly when
its operands have the same non-literal variables and `Union` otherwise (what `C02_multiplicity` — `ElseIf` only between
equal variable sets — and the C01 theorems — no `ElseIf` over different sets — need). -/
theorem rewritesOk_or_equal_vars {t : RewriteTable} (h : RewritesOk t = true) (l r : Expr) :
    (sameSet l.vars r.vars = true → mkBin t.orRule t.orOp l r = .elseIf l r) ∧
    (sameSet l.vars r.vars = false → mkBin t.orRule t.orOp l r = .union l r) := by
  have hp := RewritesOk.unpack h
  rw [hp.orOp]
  simp only [mkBin, mkOrWith_of_ok hp.orRule, mkOr]
  constructor <;> intro hs <;> simp [hs]

theorem foldWith_pair {m : FoldMode} (hm : m ≠ .reversedNested) (f : Expr → Expr → Expr) (a b : Expr) :
    foldWith m f a [b] = f a b := by
  cases m with
  | leftNested => rfl
  | rightNested => rfl
  | reversedNested => exact absurd rfl hm

/-- the same at the surface: `or_(a, b)` -/
theorem buildWith_or_pair {t : RewriteTable} (h : RewritesOk t = true) (a b : Surface) :
    buildWith t (.orN a (.cons b .nil)) =
      (if sameSet (buildWith t a).vars (buildWith t b).vars then .elseIf (buildWith t a) (buildWith t b)
       else .union (buildWith t a) (buildWith t b)) := by
  have hp := RewritesOk.unpack h
  simp only [buildWith, buildListWith, foldWith_pair hp.fold]
  rw [hp.orOp]
  simp only [mkBin, mkOrWith_of_ok hp.orRule, mkOr]

theorem invComparatorWith_of_ok {rule : InvRule} (h : okComparator rule = true)
    (k : OpK) (hk : k ≠ .notContains) (l r : Term) :
    invComparatorWith rule k l r = .not (k.mk l r) := by
  cases rule with
  | opTable tbl =>
    simp only [invComparatorWith]
    split
    · rename_i k' hl
      have hm := lookup_mem hl
      simp only [okComparator, List.all_eq_true] at h
      have := h _ hm
      simp only [Bool.or_eq_true, beq_iff_eq, Prod.mk.injEq] at this
      rcases this with h1 | ⟨h1, h2⟩
      · exact absurd h1 hk
      · subst h1 h2; rfl
    · rfl
  | wrapNot => rfl
  | operand _ => simp [okComparator] at h
  | bin _ _ _ => simp [okComparator] at h
  | quant _ _ => simp [okComparator] at h

/-- `not_` is applied to atoms only (comparisons, membership, attribute chains as conditions, `HasType`); `F2 ⊆` this -/
def SExpr.notOnAtoms : SExpr → Bool
  | .and l r | .or l r => l.notOnAtoms && r.notOnAtoms
  | .not (.cmp _ _ _) | .not (.contains _ _) | .not (.truth _) | .not (.hasType _ _) => true
  | .not _ => false
  | .exists_ _ e | .forAll _ e => e.notOnAtoms
  | _ => true

theorem SExpr.notOnAtoms_of_F2 : ∀ {s : SExpr}, s.F2 = true → s.notOnAtoms = true
  | .cmp _ _ _, _ => rfl
  | .contains _ _, _ => rfl
  | .truth _, _ => rfl
  | .hasType _ _, _ => rfl
  | .and l r, h => by
    simp only [SExpr.F2, Bool.and_eq_true] at h
    simp only [SExpr.notOnAtoms, Bool.and_eq_true]
    exact ⟨notOnAtoms_of_F2 h.1, notOnAtoms_of_F2 h.2⟩
  | .or l r, h => by
    simp only [SExpr.F2, Bool.and_eq_true] at h
    simp only [SExpr.notOnAtoms, Bool.and_eq_true]
    exact ⟨notOnAtoms_of_F2 h.1.1, notOnAtoms_of_F2 h.1.2⟩
  | .not e, h => by
    simp only [SExpr.F2] at h
    cases e <;> simp_all [SExpr.isAtom, SExpr.notOnAtoms]
  | .exists_ _ _, h => by simp [SExpr.F2] at h
  | .forAll _ _, h => by simp [SExpr.F2] at h

/-- **buildWith_eq_build_of_notOnAtoms.** On expressions that negate atoms only (`F2` and every negation-normal
expression, quantifiers included) EVERY admissible table builds exactly the expression `build` builds: the freedom
`RewritesOk` leaves (nesting of chains, De Morgan / double-negation forms of `_invert_`, `not_contains`) does not reach
this fragment, so every evaluation theorem stated for `build` on it holds for the regenerated table. -/
theorem buildWith_eq_build_of_notOnAtoms {t : RewriteTable} (h : RewritesOk t = true) :
    ∀ (s : SExpr), s.notOnAtoms = true → buildWith t (Surface.ofS s) = build s := by
  have hp := RewritesOk.unpack h
  intro s
  induction s with
  | cmp op l r => intro _; rfl
  | contains c i => intro _; simp only [Surface.ofS, buildWith, hp.containsSwapped, Bool.false_eq_true, if_false, build]
  | truth x => intro _; rfl
  | hasType x c => intro _; rfl
  | and l r ihl ihr =>
    intro hs
    simp only [SExpr.notOnAtoms, Bool.and_eq_true] at hs
    simp only [Surface.ofS, buildWith, buildListWith, foldWith_pair hp.fold, ihl hs.1, ihr hs.2, build]
    rw [hp.andOp]; rfl
  | or l r ihl ihr =>
    intro hs
    simp only [SExpr.notOnAtoms, Bool.and_eq_true] at hs
    simp only [Surface.ofS, buildWith, buildListWith, foldWith_pair hp.fold, ihl hs.1, ihr hs.2, build]
    rw [hp.orOp]
    simp only [mkBin, mkOrWith_of_ok hp.orRule]
  | not e _ =>
    intro hs
    cases e with
    | cmp op l r =>
      simp only [Surface.ofS, buildWith, notWith, invertWith, build, invert]
      split
      · exact invComparatorWith_of_ok hp.invComparator (.cmp op) (by simp) l r
      · rfl
    | contains c i =>
      simp only [Surface.ofS, buildWith, hp.containsSwapped, Bool.false_eq_true, if_false, notWith, invertWith, build,
        invert]
      split
      · exact invComparatorWith_of_ok hp.invComparator .contains (by simp) c i
      · rfl
    | truth x => simp only [Surface.ofS, buildWith, notWith, invertWith, build, invert]; split <;> rfl
    | hasType x c => simp only [Surface.ofS, buildWith, notWith, invertWith, build, invert]; split <;> rfl
    | and _ _ => simp [SExpr.notOnAtoms] at hs
    | or _ _ => simp [SExpr.notOnAtoms] at hs
    | not _ => simp [SExpr.notOnAtoms] at hs
    | exists_ _ _ => simp [SExpr.notOnAtoms] at hs
    | forAll _ _ => simp [SExpr.notOnAtoms] at hs
  | exists_ v e ih =>
    intro hs
    simp only [SExpr.notOnAtoms] at hs
    simp only [Surface.ofS, buildWith, ih hs, build, hp.existsCtor, QCtor.mk]
  | forAll v e ih =>
    intro hs
    simp only [SExpr.notOnAtoms] at hs
    simp only [Surface.ofS, buildWith, ih hs, build, hp.forAllCtor, QCtor.mk]

/-- **C02_multiplicity_okTable.** `C02_multiplicity` for the query built with ANY admissible table: on `F2` evaluation
of the expression `buildWith t` builds yields exactly one row per satisfying assignment. -/
theorem C02_multiplicity_okTable {t : RewriteTable} (ht : RewritesOk t = true) (w : World) (q : SQuery) (c : SExpr)
    (hc : q.cond = some c) (hF : c.F2 = true) (hsel : selOK q.sel c = true)
    (hnd : ∀ v, (w.dom v).Nodup) (hlit : LitNodup (build c))
    {rows rows' : List (List Val)}
    (h1 : evalQuery w { sel := q.sel, cond := some (buildWith t (Surface.ofS c)) } = .ok rows)
    (h2 : solutions w q = .ok rows') :
    rows.Perm rows' := by
  rw [buildWith_eq_build_of_notOnAtoms ht c (SExpr.notOnAtoms_of_F2 hF)] at h1
  have : q.toQuery = { sel := q.sel, cond := some (build c) } := by simp only [SQuery.toQuery, hc, Option.map]
  exact C02_multiplicity w q c hc hF hsel hnd hlit (this ▸ h1) h2

/-! ### tables (tests): the code as it is, an admissible variant, and two seeded changes -/

example : RewritesOk rewrites = true := by decide

/-- an admissible table that is NOT the code's: right-nested chains, De Morgan `_invert_` on `AND` / `ElseIf` / `Union`,
double negation removed, `not_contains` for negated membership -/
def deMorganTable : RewriteTable :=
  { rewrites with
    fold := .rightNested
    invComparator := .opTable [(.contains, .notContains)]
    invAnd := .bin .optOr .leftInv .rightInv
    invElseIf := .bin .and .leftInv .rightInv
    invUnion := .bin .and .leftInv .rightInv
    invNot := .operand false }

theorem deMorganTable_ok : RewritesOk deMorganTable = true ∧ deMorganTable ≠ rewrites := by
  constructor <;> decide

/-- non-vacuity of `satE_buildWith` beyond `rewrites`: the two tables build DIFFERENT expressions from
`not_(and_(x == 1, not_(y == 2), x < y))` … -/
def nvSurface : Surface :=
  .not (.andN (.cmp .eq (.var 0) (.lit 101 (.int 1)))
    (.cons (.not (.cmp .eq (.var 1) (.lit 102 (.int 2)))) (.cons (.cmp .lt (.var 0) (.var 1)) .nil)))

example :
    buildWith rewrites nvSurface =
      .not (.and (.and (.cmp .eq (.var 0) (.lit 101 (.int 1))) (.not (.cmp .eq (.var 1) (.lit 102 (.int 2)))))
        (.cmp .lt (.var 0) (.var 1))) ∧
    buildWith deMorganTable nvSurface =
      .union (.not (.cmp .eq (.var 0) (.lit 101 (.int 1))))
        (.union (.cmp .eq (.var 1) (.lit 102 (.int 2))) (.not (.cmp .lt (.var 0) (.var 1)))) := by
  constructor <;> decide

/-- … with the same meaning (instance of the theorem, both tables) -/
example (w : World) (σ : Asg) :
    satE w (buildWith rewrites nvSurface) σ = satE w (buildWith deMorganTable nvSurface) σ := by
  rw [satE_buildWith w (by decide), satE_buildWith w deMorganTable_ok.1]

/-- the table of the seeded changes C01-r4m1 / C02-r3m1 (`Comparator._invert_` takes the "inverse" operation from a
map: `<` ↦ `>=`, `==` ↦ `!=`, `contains` ↦ `not_contains`, …) -/
def complementTable : RewriteTable :=
  { rewrites with
    invComparator := .opTable [(.cmp .eq, .cmp .ne), (.cmp .ne, .cmp .eq), (.cmp .lt, .cmp .ge), (.cmp .ge, .cmp .lt),
      (.cmp .gt, .cmp .le), (.cmp .le, .cmp .gt), (.contains, .notContains), (.notContains, .contains)] }

/-- **complementTable_rejected** (test). `RewritesOk` rejects the complementary-operator table, and rightly: over
partially ordered values (`frozenset`s `{0}`, `{1}`) `not_(x < y)` is true and the `x >= y` it builds is false; over a
flattened operand `not_(flatten(x) == 1)` ("no element is 1") becomes "some element is not 1". -/
theorem complementTable_rejected :
    RewritesOk complementTable = false ∧
    (let w : World := { objs := [], doms := [] }
     let σ : Asg := [(0, .set [0]), (1, .set [1])]
     let e : Surface := .not (.cmp .lt (.var 0) (.var 1))
     satS w e σ = .ok true ∧ satE w (buildWith complementTable e) σ = .ok false) ∧
    (let w : World := { objs := [], doms := [] }
     let σ : Asg := [(0, .list [1, 2])]
     let e : Surface := .not (.cmp .eq (.flatten (.var 0)) (.lit 101 (.int 1)))
     satS w e σ = .ok false ∧ satE w (buildWith complementTable e) σ = .ok true) := by
  refine ⟨by decide, ⟨by decide, by decide⟩, ⟨by decide, by decide⟩⟩

/-- the tables of the seeded changes C01-r2m1 (`ElseIf` when the right variables are a SUBSET of the left ones) and
C02-m1 (variable LISTS compared) -/
def subsetTable : RewriteTable := { rewrites with orRule := { rewrites.orRule with test := .subsetRL } }
def listEqTable : RewriteTable := { rewrites with orRule := { rewrites.orRule with test := .listEq } }

/-- **orTables_rejected** (test). Both are rejected, and each builds the wrong node on a two-variable disjunction:
`or_(x < y, x > 1)` becomes an `ElseIf` (answers with `y` unbound are lost), `or_(x < y, y > x)` a `Union` (duplicates). -/
theorem orTables_rejected :
    RewritesOk subsetTable = false ∧ RewritesOk listEqTable = false ∧
    buildWith subsetTable (.orN (.cmp .lt (.var 0) (.var 1)) (.cons (.cmp .gt (.var 0) (.lit 101 (.int 1))) .nil)) =
      .elseIf (.cmp .lt (.var 0) (.var 1)) (.cmp .gt (.var 0) (.lit 101 (.int 1))) ∧
    buildWith listEqTable (.orN (.cmp .lt (.var 0) (.var 1)) (.cons (.cmp .gt (.var 1) (.var 0)) .nil)) =
      .union (.cmp .lt (.var 0) (.var 1)) (.cmp .gt (.var 1) (.var 0)) := by
  refine ⟨by decide, by decide, by decide, by decide⟩

/-! ### `== ↔ !=` on flatten-free operands (partial: the rule level, not lifted to `buildWith`) -/

theorem applyCmp_ne_eq (w : World) (a b : Val) :
    applyCmp w .ne a b = (do pure (!(← applyCmp w .eq a b))) := by
  cases a <;> cases b <;> rfl

theorem applyCmp_eq_ne (w : World) (a b : Val) :
    applyCmp w .eq a b = (do pure (!(← applyCmp w .ne a b))) := by
  cases a <;> cases b <;> simp [applyCmp, bind, Except.bind, pure, Except.pure]

theorem anyM_singleton {α} (x : α) (f : α → Except Err Bool) : anyM [x] f = f x := by
  simp only [anyM]
  cases f x with
  | error e => rfl
  | ok a => cases a <;> rfl

theorem satE_cmp_noFlat (w : World) (σ : Asg) (op : CmpOp) (l r : Term)
    (hl : l.noFlat = true) (hr : r.noFlat = true) :
    satE w (.cmp op l r) σ = (do let a ← tval w σ l; let b ← tval w σ r; applyCmp w op a b) := by
  simp only [satE, tvals_noFlat w σ l hl, tvals_noFlat w σ r hr]
  cases tval w σ l with
  | error e => rfl
  | ok a =>
    cases tval w σ r with
    | error e => rfl
    | ok b =>
      show anyM [a] (fun a => anyM [b] fun b => applyCmp w op a b) = applyCmp w op a b
      rw [anyM_singleton, anyM_singleton]

/-- the Comparator rule that also accepts `== ↦ !=` and `!= ↦ ==` -/
def okComparatorNF : InvRule → Bool
  | .wrapNot => true
  | .opTable tbl => tbl.all fun p =>
      p.1 == .notContains || p == (.contains, .notContains) || p == (.cmp .eq, .cmp .ne) || p == (.cmp .ne, .cmp .eq)
  | _ => false

/-- **satE_invComparatorWith_noFlat_partial.** On flatten-free operands a `Comparator._invert_` that replaces `==` by `!=`
and `!=` by `==` (and nothing else) negates. PARTIAL: stated for the rule, not lifted to `buildWith`; the full statement
would be `RewritesOkNF t = true → e flatten-free → satE w (buildWith t e) σ = satS w e σ` with `okComparatorNF` in place of
`okComparator` — missing: `satE_invertWith` / `satE_buildWith` re-proved under the flatten-free hypothesis. -/
theorem satE_invComparatorWith_noFlat_partial (w : World) {rule : InvRule} (h : okComparatorNF rule = true)
    (op : CmpOp) (l r : Term) (hl : l.noFlat = true) (hr : r.noFlat = true) (σ : Asg) :
    satE w (invComparatorWith rule (.cmp op) l r) σ = (do pure (!(← satE w (.cmp op l r) σ))) := by
  cases rule with
  | opTable tbl =>
    simp only [invComparatorWith]
    split
    · rename_i k' hlk
      have hm := lookup_mem hlk
      simp only [okComparatorNF, List.all_eq_true] at h
      have := h _ hm
      simp only [Bool.or_eq_true, beq_iff_eq, Prod.mk.injEq, OpK.cmp.injEq] at this
      rcases this with ((h1 | ⟨h1, _⟩) | ⟨h1, h2⟩) | ⟨h1, h2⟩
      · cases h1
      · cases h1
      · subst h1 h2
        simp only [OpK.mk, satE_cmp_noFlat w σ _ l r hl hr, applyCmp_ne_eq]
        cases tval w σ l with
        | error e => rfl
        | ok a => cases tval w σ r <;> rfl
      · subst h1 h2
        simp only [OpK.mk, satE_cmp_noFlat w σ _ l r hl hr]
        cases tval w σ l with
        | error e => rfl
        | ok a =>
          cases tval w σ r with
          | error e => rfl
          | ok b => exact applyCmp_eq_ne w a b
    · simp only [OpK.mk, satE]
  | wrapNot => simp only [invComparatorWith, OpK.mk, satE]
  | operand _ => simp [okComparatorNF] at h
  | bin _ _ _ => simp [okComparatorNF] at h
  | quant _ _ => simp [okComparatorNF] at h

/-- non-vacuity: the `==`/`!=` part of the seeded complementary-operator table passes, and the hypothesis is needed
(`complementTable_rejected`: with a flattened operand the meaning changes) -/
example : okComparatorNF (.opTable [(.cmp .eq, .cmp .ne), (.cmp .ne, .cmp .eq), (.contains, .notContains)]) = true := by
  decide

end KrroodVerif.Eql
