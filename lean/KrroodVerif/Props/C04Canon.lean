import KrroodVerif.Model.Dao
import KrroodVerif.Props.C04
/-!
# C04 — the decided comparison `canonEq` IS the property relation `Iso`

`Dao.canonEq h r h' r' = true ↔ Dao.Iso h r h' r'` for ALL heaps and root lists (`C04_canonEq_iff_Iso`), so the verdict
the driver computes between the model's result and the input is the property's relation and not a proxy of it.

Ingredients: the depth-first numbering with fuel `dfsFuel` visits exactly the nodes reachable from the roots, each once
(`dfs_closed`: a potential argument — pending stack entries + reference cells of unexpanded nodes — drops by one per
pop); runs with any sufficient fuel agree (`dfs_fuel_stable`), so the numberings of two heaps of different size can be
compared; isomorphic graphs are numbered alike (`dfsOrder_rel` of `Props/C04.lean`); conversely "same number" is an
isomorphism when the observed nodes agree.

Well-formedness the equivalence needs: NONE as a hypothesis. Dangling references below a root falsify `Iso` (every
related address must hold a node) and `canonEq` alike (`closedFrom`); addresses are list positions, so duplicate
addresses cannot be expressed. `C04_copy_wf` / `C04_roundtrip_wf` show that `to_dao` / `from_dao` of the model produce
heaps without dangling references whose roots are allocated, so on the model's outputs `closedFrom` never fails.
-/
namespace KrroodVerif.Dao

/-! ## The potential of the depth-first numbering -/

/-- reference cells of the nodes of `l` that are not yet expanded -/
def remOn (h : Heap) (acc : List Nat) (l : List Nat) : Nat :=
  ((l.filter fun x => !acc.contains x).map fun x => (tg h x).length).sum

theorem remOn_snoc (h : Heap) (acc : List Nat) (x : Nat) (hx : x ∉ acc) :
    ∀ (l : List Nat), l.Nodup →
      remOn h (acc ++ [x]) l + (if x ∈ l then (tg h x).length else 0) = remOn h acc l := by
  intro l
  induction l with
  | nil => intro _; simp [remOn]
  | cons a l ih =>
    intro hnd
    have hnd' := (List.nodup_cons.1 hnd)
    have ih' := ih hnd'.2
    by_cases hax : a = x
    · subst hax
      have hnl : a ∉ l := hnd'.1
      simp only [hnl, if_false, Nat.add_zero] at ih'
      have h1 : remOn h (acc ++ [a]) (a :: l) = remOn h (acc ++ [a]) l := by
        simp [remOn]
      have h2 : remOn h acc (a :: l) = (tg h a).length + remOn h acc l := by
        simp [remOn, hx]
      rw [h1, h2, ih']
      simp; omega
    · have hxa : x ≠ a := fun e => hax e.symm
      have h1 : remOn h (acc ++ [x]) (a :: l) =
          (if a ∈ acc then 0 else (tg h a).length) + remOn h (acc ++ [x]) l := by
        by_cases ha : a ∈ acc <;> simp [remOn, ha, hax]
      have h2 : remOn h acc (a :: l) = (if a ∈ acc then 0 else (tg h a).length) + remOn h acc l := by
        by_cases ha : a ∈ acc <;> simp [remOn, ha]
      have h3 : (if x ∈ a :: l then (tg h x).length else 0) = (if x ∈ l then (tg h x).length else 0) := by
        simp [hxa]
      rw [h1, h2, h3]
      omega

/-- reference cells of all unexpanded nodes of the heap -/
def rem (h : Heap) (acc : List Nat) : Nat := remOn h acc (List.range h.length)

theorem tg_out (h : Heap) (x : Nat) (hx : ¬ x < h.length) : tg h x = [] := by
  unfold tg
  rw [List.getElem?_eq_none (by omega)]

theorem rem_snoc (h : Heap) (acc : List Nat) (x : Nat) (hx : x ∉ acc) :
    rem h (acc ++ [x]) + (tg h x).length = rem h acc := by
  have := remOn_snoc h acc x hx (List.range h.length) List.nodup_range
  unfold rem
  by_cases hl : x < h.length
  · simpa [List.mem_range, hl] using this
  · rw [tg_out h x hl]
    simpa [List.mem_range, hl] using this

theorem rem_nil (h : Heap) : rem h [] = ((List.range h.length).map fun x => (tg h x).length).sum := by
  have : ∀ l : List Nat, l.filter (fun _ => true) = l := fun l => List.filter_eq_self.2 (fun _ _ => rfl)
  simp [rem, remOn, this]

/-! ## Completeness of the numbering for sufficient fuel -/

/-- with fuel ≥ pending entries + unexpanded reference cells the numbering extends `acc`, contains the whole work
list, is closed under successors for everything it adds, and has no duplicates -/
theorem dfs_closed (h : Heap) : ∀ (fuel : Nat) (work acc : List Nat), work.length + rem h acc ≤ fuel →
    (∃ l, dfsOrder h fuel work acc = acc ++ l) ∧
    (∀ x ∈ work, x ∈ dfsOrder h fuel work acc) ∧
    (∀ x ∈ dfsOrder h fuel work acc, x ∉ acc → ∀ t ∈ tg h x, t ∈ dfsOrder h fuel work acc) ∧
    (acc.Nodup → (dfsOrder h fuel work acc).Nodup) := by
  intro fuel
  induction fuel with
  | zero =>
    intro work acc hle
    have : work = [] := List.eq_nil_of_length_eq_zero (by omega)
    subst this
    refine ⟨⟨[], by simp [dfsOrder]⟩, by simp, ?_, by simp [dfsOrder]⟩
    intro x hx hn; simp [dfsOrder] at hx; exact (hn hx).elim
  | succ fuel ih =>
    intro work acc hle
    cases work with
    | nil =>
      refine ⟨⟨[], by simp [dfsOrder]⟩, by simp, ?_, by simp [dfsOrder]⟩
      intro x hx hn; simp [dfsOrder] at hx; exact (hn hx).elim
    | cons x work =>
      by_cases hc : acc.contains x = true
      · have hxa : x ∈ acc := by simpa using hc
        have e : dfsOrder h (fuel + 1) (x :: work) acc = dfsOrder h fuel work acc := by
          simp only [dfsOrder, hc, if_true]
        rw [e]
        obtain ⟨hp, hw, hcl, hnd⟩ := ih work acc (by simp at hle; omega)
        refine ⟨hp, ?_, hcl, hnd⟩
        intro y hy
        rcases List.mem_cons.1 hy with rfl | hy
        · obtain ⟨l, hl⟩ := hp; rw [hl]; exact List.mem_append_left _ hxa
        · exact hw y hy
      · have hxa : x ∉ acc := by simpa using hc
        have e : dfsOrder h (fuel + 1) (x :: work) acc = dfsOrder h fuel (tg h x ++ work) (acc ++ [x]) := by
          simp only [dfsOrder, hc, tg]; rfl
        rw [e]
        have hr := rem_snoc h acc x hxa
        obtain ⟨hp, hw, hcl, hnd⟩ := ih (tg h x ++ work) (acc ++ [x]) (by simp at hle ⊢; omega)
        obtain ⟨l, hl⟩ := hp
        have hxin : x ∈ dfsOrder h fuel (tg h x ++ work) (acc ++ [x]) := by rw [hl]; simp
        refine ⟨⟨[x] ++ l, by rw [hl]; simp⟩, ?_, ?_, ?_⟩
        · intro y hy
          rcases List.mem_cons.1 hy with rfl | hy
          · exact hxin
          · exact hw y (List.mem_append_right _ hy)
        · intro y hy hny t ht
          by_cases hyx : y = x
          · subst hyx; exact hw t (List.mem_append_left _ ht)
          · exact hcl y hy (by simp [hny, hyx]) t ht
        · intro hacc
          apply hnd
          rw [List.nodup_append]
          refine ⟨hacc, by simp, ?_⟩
          intro a ha b hb
          simp at hb; subst hb
          exact fun e => hxa (e ▸ ha)

/-- any two sufficient fuels give the same numbering -/
theorem dfs_fuel_stable (h : Heap) : ∀ (fuel k : Nat) (work acc : List Nat), work.length + rem h acc ≤ fuel →
    dfsOrder h (fuel + k) work acc = dfsOrder h fuel work acc := by
  intro fuel
  induction fuel with
  | zero =>
    intro k work acc hle
    have : work = [] := List.eq_nil_of_length_eq_zero (by omega)
    subst this
    cases k <;> simp [dfsOrder]
  | succ fuel ih =>
    intro k work acc hle
    cases work with
    | nil => simp [dfsOrder]
    | cons x work =>
      have e : fuel + 1 + k = (fuel + k) + 1 := by omega
      rw [e]
      by_cases hc : acc.contains x = true
      · simp only [dfsOrder, hc, if_true]
        exact ih k work acc (by simp at hle; omega)
      · have hxa : x ∉ acc := by simpa using hc
        simp only [dfsOrder, hc]
        have hr := rem_snoc h acc x hxa
        apply ih
        change (tg h x ++ work).length + rem h (acc ++ [x]) ≤ fuel
        simp at hle ⊢; omega

theorem reach_eq_of_le (h : Heap) (roots : List Nat) (F : Nat) (hF : dfsFuel h roots ≤ F) :
    dfsOrder h F roots [] = reach h roots := by
  obtain ⟨k, rfl⟩ := Nat.exists_eq_add_of_le hF
  exact dfs_fuel_stable h (dfsFuel h roots) k roots [] (by rw [rem_nil]; exact Nat.le_refl _)

/-- **reach_spec.** `reach` has no duplicates, contains the roots and is closed under successors — for every heap -/
theorem reach_spec (h : Heap) (roots : List Nat) :
    (reach h roots).Nodup ∧ (∀ r ∈ roots, r ∈ reach h roots) ∧
    (∀ x ∈ reach h roots, ∀ t ∈ tg h x, t ∈ reach h roots) := by
  obtain ⟨_, hw, hcl, hnd⟩ := dfs_closed h (dfsFuel h roots) roots [] (by rw [rem_nil]; exact Nat.le_refl _)
  exact ⟨hnd List.nodup_nil, hw, fun x hx => hcl x hx (by simp)⟩

/-! ## `Iso` ⇒ `canonEq` -/

section fwd
variable {R : Nat → Nat → Prop}

theorem All2.exists_right {α β : Type} {S : α → β → Prop} : ∀ {xs : List α} {ys : List β}, All2 S xs ys →
    ∀ x ∈ xs, ∃ y, y ∈ ys ∧ S x y
  | [], [], _, x, hx => by cases hx
  | a :: as, b :: bs, ⟨h, t⟩, x, hx => by
    rcases List.mem_cons.1 hx with rfl | hx
    · exact ⟨b, List.mem_cons_self, h⟩
    · obtain ⟨y, hy, hr⟩ := All2.exists_right t x hx
      exact ⟨y, List.mem_cons_of_mem _ hy, hr⟩
  | [], _ :: _, h, _, _ => h.elim
  | _ :: _, [], h, _, _ => h.elim

theorem map_idxOf_rel (hf : ∀ a b b', R a b → R a b' → b = b') (hi : ∀ a a' b, R a b → R a' b → a = a')
    {o o' : List Nat} (ho : All2 R o o') : ∀ {xs xs' : List Nat}, All2 R xs xs' →
      xs.map (idxOf o) = xs'.map (idxOf o')
  | [], [], _ => rfl
  | _ :: _, _ :: _, ⟨h, t⟩ => by
    simp only [List.map_cons, map_idxOf_rel hf hi ho t]
    congr 1
    exact findIdx_rel hf hi h ho
  | [], _ :: _, h => h.elim
  | _ :: _, [], h => h.elim

theorem renum_rel (hf : ∀ a b b', R a b → R a b' → b = b') (hi : ∀ a a' b, R a b → R a' b → a = a')
    {o o' : List Nat} (ho : All2 R o o') : ∀ {rs ss : List Ref}, All2 (RefRel R) rs ss →
      rs.map (Ref.renum o) = ss.map (Ref.renum o')
  | [], [], _ => rfl
  | r :: rs, s :: ss, ⟨h, t⟩ => by
    simp only [List.map_cons, renum_rel hf hi ho t]
    congr 1
    cases r <;> cases s <;> first | exact h.elim | skip
    · rfl
    · simp only [Ref.renum]; congr 1; exact findIdx_rel hf hi h ho
    · simp only [Ref.renum, map_idxOf_rel hf hi ho h]
  | [], _ :: _, h => h.elim
  | _ :: _, [], h => h.elim

end fwd

/-- isomorphic rooted graphs are numbered alike by `reach` (the two fuels differ; both suffice) -/
theorem reach_rel {R : Nat → Nat → Prop} {h h' : Heap} {rs rs' : List Nat}
    (hroots : All2 R rs rs')
    (hf : ∀ a b b', R a b → R a b' → b = b') (hi : ∀ a a' b, R a b → R a' b → a = a')
    (hn : ∀ a b, R a b → ∃ n m, h[a]? = some n ∧ h'[b]? = some m ∧ m.lab = n.lab ∧ All2 (RefRel R) n.refs m.refs) :
    All2 R (reach h rs) (reach h' rs') := by
  have := dfsOrder_rel hf hi hn (max (dfsFuel h rs) (dfsFuel h' rs')) rs rs' [] [] hroots trivial
  rwa [reach_eq_of_le h rs _ (Nat.le_max_left _ _), reach_eq_of_le h' rs' _ (Nat.le_max_right _ _)] at this

theorem Iso_canonEq {h h' : Heap} {rs rs' : List Nat} (hiso : Iso h rs h' rs') : canonEq h rs h' rs' = true := by
  obtain ⟨R, hroots, hf, hi, hn⟩ := hiso
  have ho := reach_rel hroots hf hi hn
  unfold canonEq
  rw [Bool.and_eq_true]
  constructor
  · rw [decide_eq_true_eq]
    unfold canonForm
    simp only []
    rw [map_idxOf_rel hf hi ho hroots]
    congr 1
    have : ∀ (xs xs' : List Nat), All2 R xs xs' →
        xs.map (cnode h (reach h rs)) = xs'.map (cnode h' (reach h' rs')) := by
      intro xs
      induction xs with
      | nil => intro xs' hh; cases xs' with
        | nil => rfl
        | cons _ _ => exact hh.elim
      | cons x xs ih => intro xs' hh; cases xs' with
        | nil => exact hh.elim
        | cons x' xs' =>
          obtain ⟨hx, ht⟩ := hh
          obtain ⟨n, m, e1, e2, hl, hr⟩ := hn x x' hx
          simp only [List.map_cons, ih xs' ht]
          congr 1
          simp only [cnode, e1, e2, Option.map_some, hl, renum_rel hf hi ho hr]
    exact this _ _ ho
  · unfold closedFrom
    rw [List.all_eq_true]
    intro x hx
    obtain ⟨y, _, hr⟩ := All2.exists_right ho x hx
    obtain ⟨n, _, e1, _⟩ := hn x y hr
    simp [e1]

/-! ## `canonEq` ⇒ `Iso`: "same depth-first number" is an isomorphism -/

/-- `a` and `b` carry the same depth-first number -/
def SameNum (o o' : List Nat) (a b : Nat) : Prop := ∃ i : Nat, o[i]? = some a ∧ o'[i]? = some b

theorem idxOf_getElem? {o : List Nat} {a : Nat} (ha : a ∈ o) : o[idxOf o a]? = some a := by
  unfold idxOf
  have hex : ∃ x ∈ o, (x == a) = true := ⟨a, ha, by simp⟩
  have hlt : o.findIdx (· == a) < o.length := List.findIdx_lt_length_of_exists hex
  have := List.findIdx_getElem (w := hlt)
  rw [List.getElem?_eq_getElem hlt]
  simpa using this

theorem sameNum_of_idx {o o' : List Nat} {a b : Nat} (ha : a ∈ o) (hb : b ∈ o')
    (e : idxOf o a = idxOf o' b) : SameNum o o' a b :=
  ⟨idxOf o a, idxOf_getElem? ha, e ▸ idxOf_getElem? hb⟩

theorem all2_sameNum {o o' : List Nat} : ∀ {as bs : List Nat}, (∀ a ∈ as, a ∈ o) → (∀ b ∈ bs, b ∈ o') →
    as.map (idxOf o) = bs.map (idxOf o') → All2 (SameNum o o') as bs
  | [], [], _, _, _ => trivial
  | a :: as, b :: bs, ha, hb, e => by
    simp only [List.map_cons, List.cons.injEq] at e
    exact ⟨sameNum_of_idx (ha a List.mem_cons_self) (hb b List.mem_cons_self) e.1,
      all2_sameNum (fun x hx => ha x (List.mem_cons_of_mem _ hx)) (fun x hx => hb x (List.mem_cons_of_mem _ hx)) e.2⟩
  | [], _ :: _, _, _, e => by simp at e
  | _ :: _, [], _, _, e => by simp at e

theorem refRel_sameNum {o o' : List Nat} {r s : Ref} (hr : ∀ t ∈ r.targets, t ∈ o) (hs : ∀ t ∈ s.targets, t ∈ o')
    (e : r.renum o = s.renum o') : RefRel (SameNum o o') r s := by
  cases r <;> cases s <;> simp only [Ref.renum, reduceCtorEq, Ref.one.injEq, Ref.many.injEq] at e
  · trivial
  · exact sameNum_of_idx (hr _ (by simp [Ref.targets])) (hs _ (by simp [Ref.targets])) e
  · exact all2_sameNum (fun a ha => hr a (by simpa [Ref.targets] using ha))
      (fun b hb => hs b (by simpa [Ref.targets] using hb)) e

theorem all2_refRel_sameNum {o o' : List Nat} : ∀ {rs ss : List Ref},
    (∀ t ∈ rs.flatMap Ref.targets, t ∈ o) → (∀ t ∈ ss.flatMap Ref.targets, t ∈ o') →
    rs.map (Ref.renum o) = ss.map (Ref.renum o') → All2 (RefRel (SameNum o o')) rs ss
  | [], [], _, _, _ => trivial
  | r :: rs, s :: ss, hr, hs, e => by
    simp only [List.map_cons, List.cons.injEq] at e
    simp only [List.flatMap_cons, List.mem_append] at hr hs
    exact ⟨refRel_sameNum (fun t ht => hr t (Or.inl ht)) (fun t ht => hs t (Or.inl ht)) e.1,
      all2_refRel_sameNum (fun t ht => hr t (Or.inr ht)) (fun t ht => hs t (Or.inr ht)) e.2⟩
  | [], _ :: _, _, _, e => by simp at e
  | _ :: _, [], _, _, e => by simp at e

theorem nodup_getElem?_inj {o : List Nat} (hnd : o.Nodup) {i j a : Nat} (hi : o[i]? = some a) (hj : o[j]? = some a) :
    i = j := by
  obtain ⟨hil, _⟩ := List.getElem?_eq_some_iff.1 hi
  exact (List.getElem?_inj hil hnd).1 (hi.trans hj.symm)

theorem canonEq_Iso {h h' : Heap} {rs rs' : List Nat} (hc : canonEq h rs h' rs' = true) : Iso h rs h' rs' := by
  unfold canonEq at hc
  rw [Bool.and_eq_true, decide_eq_true_eq] at hc
  obtain ⟨hform, hclosed⟩ := hc
  unfold canonForm at hform
  simp only [Prod.mk.injEq] at hform
  obtain ⟨eroots, enodes⟩ := hform
  obtain ⟨hnd, hrt, hcl⟩ := reach_spec h rs
  obtain ⟨hnd', hrt', hcl'⟩ := reach_spec h' rs'
  unfold closedFrom at hclosed
  rw [List.all_eq_true] at hclosed
  refine ⟨SameNum (reach h rs) (reach h' rs'), all2_sameNum hrt hrt' eroots, ?_, ?_, ?_⟩
  · rintro a b b' ⟨i, h1, h2⟩ ⟨j, h1', h2'⟩
    have := nodup_getElem?_inj hnd h1 h1'; subst this
    rw [h2] at h2'; exact Option.some.inj h2'
  · rintro a a' b ⟨i, h1, h2⟩ ⟨j, h1', h2'⟩
    have := nodup_getElem?_inj hnd' h2 h2'; subst this
    rw [h1] at h1'; exact Option.some.inj h1'
  · rintro a b ⟨i, h1, h2⟩
    have hao : a ∈ reach h rs := List.mem_of_getElem? h1
    have hbo : b ∈ reach h' rs' := List.mem_of_getElem? h2
    have hsome := hclosed a hao
    obtain ⟨n, hn⟩ := Option.isSome_iff_exists.1 hsome
    have ei := congrArg (fun l => l[i]?) enodes
    simp only [List.getElem?_map, h1, h2, Option.map_some, Option.some.injEq] at ei
    simp only [cnode, hn, Option.map_some] at ei
    cases hm : h'[b]? with
    | none => simp [hm] at ei
    | some m =>
      simp only [hm, Option.map_some, Option.some.injEq, Prod.mk.injEq] at ei
      refine ⟨n, m, hn, rfl, ei.1.symm, ?_⟩
      apply all2_refRel_sameNum _ _ ei.2
      · intro t ht
        exact hcl a hao t (by simpa [tg, hn, Node.targets] using ht)
      · intro t ht
        exact hcl' b hbo t (by simpa [tg, hm, Node.targets] using ht)

/-- **C04_canonEq_iff_Iso.** The comparison the driver DECIDES is the property relation: rooted-graph isomorphism
preserving classes, scalars, every reference field position-wise (order, multiplicity), aliasing and cycles — for all
heaps of any size and any lists of roots (one root or many, repeated roots included), with no well-formedness
hypothesis (a dangling reference below a root makes both sides false). -/
theorem C04_canonEq_iff_Iso (h : Heap) (rs : List Nat) (h' : Heap) (rs' : List Nat) :
    canonEq h rs h' rs' = true ↔ Iso h rs h' rs' := ⟨canonEq_Iso, Iso_canonEq⟩

instance (h : Heap) (rs : List Nat) (h' : Heap) (rs' : List Nat) : Decidable (Iso h rs h' rs') :=
  decidable_of_iff _ (C04_canonEq_iff_Iso h rs h' rs')

/-! ## The driver's verdict -/

theorem canon_ne_error (h : Heap) (rs : List Nat) : canon h rs ≠ "error:canon-text-collision" := by
  intro e
  have := congrArg String.toList e
  unfold canon at this
  simp only [String.toList_append] at this
  have h1 : "r=".toList = ['r', '='] := by decide
  have h2 : "error:canon-text-collision".toList = 'e' :: "rror:canon-text-collision".toList := by decide
  rw [h1, h2] at this
  simp at this

/-- **C04_verdict.** The `model=` text the driver prints equals its `spec=` text EXACTLY when the model's result is
isomorphic to the input (for arbitrary heaps, in particular for whatever the model of the current code returns): a
printing collision can no longer pass as agreement, and isomorphic graphs never print differently. -/
theorem C04_verdict (h : Heap) (rs : List Nat) (out : Heap) (rs' : List Nat) :
    verdictText h rs out rs' = canon h rs ↔ Iso h rs out rs' := by
  rw [← C04_canonEq_iff_Iso]
  unfold verdictText
  cases hc : canonEq h rs out rs' with
  | true => simp
  | false =>
    simp only [Bool.false_eq_true, if_false, iff_false]
    split
    · exact fun e => canon_ne_error h rs e.symm
    · rename_i hne
      simpa using hne

/-! ## Well-formedness is preserved by the model's `to_dao` / `from_dao` -/

theorem all2_memo_lt {st : St} (hi : Inv st) : ∀ (xs ys : List Nat), All2 (fun x y => (x, y) ∈ st.memo) xs ys →
    ∀ y ∈ ys, y < st.out.length
  | [], [], _, y, hy => by cases hy
  | _ :: xs, y' :: ys, hh, y, hy => by
    rcases List.mem_cons.1 hy with rfl | hy
    · exact hi.lt _ hh.1
    · exact all2_memo_lt hi xs ys hh.2 y hy
  | [], _ :: _, hh, _, _ => hh.elim
  | _ :: _, [], hh, _, _ => hh.elim

theorem refs_memo_lt {st : St} (hi : Inv st) : ∀ (xs rs : List Ref),
    All2 (RefRel fun x y => (x, y) ∈ st.memo) xs rs → ∀ t ∈ rs.flatMap Ref.targets, t < st.out.length
  | [], [], _, t, ht => by simp at ht
  | x :: xs, r :: rs, ⟨h1, h2⟩, t, ht => by
    simp only [List.flatMap_cons, List.mem_append] at ht
    rcases ht with ht | ht
    · cases x <;> cases r <;> first | exact h1.elim | skip
      · simp [Ref.targets] at ht
      · simp only [Ref.targets, List.mem_singleton] at ht; subst ht; exact hi.lt _ h1
      · exact all2_memo_lt hi _ _ h1 t (by simpa [Ref.targets] using ht)
    · exact refs_memo_lt hi xs rs h2 t ht
  | [], _ :: _, hh, _, _ => hh.elim
  | _ :: _, [], hh, _, _ => hh.elim

/-- the state invariant "memo one-to-one into allocated slots, result heap without dangling references" -/
def OutWF (st : St) : Prop := Inv st ∧ st.out.WF

theorem wf_set {out : Heap} (hw : out.WF) (d : Nat) (n : Node) (hn : ∀ t ∈ n.targets, t < out.length) :
    Heap.WF (out.set d n) := by
  intro n' hn' t ht
  rw [List.length_set]
  rcases List.mem_or_eq_of_mem_set hn' with hm | rfl
  · exact hw n' hm t ht
  · exact hn t ht

theorem wf_append_fresh {out : Heap} (hw : out.WF) (ns : List Node) (hns : ∀ n ∈ ns, n.targets = []) :
    Heap.WF (out ++ ns) := by
  intro n' hn' t ht
  rw [List.length_append]
  rcases List.mem_append.1 hn' with hm | hm
  · have := hw n' hm t ht; omega
  · rw [hns n' hm] at ht; cases ht

theorem copyNode_outwf (P : Params) (hq : P.quirk = false) (h : Heap) :
    ∀ fuel, Pres OutWF (copyNode P h fuel) := by
  intro fuel
  induction fuel with
  | zero => intro o st d st' _ hc; simp [copyNode] at hc
  | succ fuel ih =>
    intro o st d st' hi hc
    simp only [copyNode] at hc
    split at hc
    · split at hc
      · simp only [Option.some.injEq, Prod.mk.injEq] at hc
        obtain ⟨-, rfl⟩ := hc
        exact ⟨⟨hi.1.keys, hi.1.vals, hi.1.lt⟩, hi.2⟩
      · simp only [Option.some.injEq, Prod.mk.injEq] at hc
        obtain ⟨-, rfl⟩ := hc; exact hi
    · rename_i hlook
      split at hc
      · cases hc
      · rename_i n hn
        split at hc
        · split at hc
          · cases hc
          · rename_i rs st2 hrefs
            simp only [Option.some.injEq, Prod.mk.injEq] at hc
            obtain ⟨-, rfl⟩ := hc
            have hi1 : Inv { memo := (o, st.out.length) :: st.memo, out := st.out ++ [(P.conv n).withRefs []],
                             prog := st.prog, hits := st.hits } :=
              hi.1.register hlook _ _ _ _ (Nat.le_refl _) (by simp) (by simp)
            have hw1 : OutWF { memo := (o, st.out.length) :: st.memo, out := st.out ++ [(P.conv n).withRefs []],
                               prog := st.prog, hits := st.hits } :=
              ⟨hi1, wf_append_fresh hi.2 _ (by intro n' hn'; simp at hn'; subst hn'; simp [Node.targets, Node.withRefs])⟩
            have hw2 := copyRefs_pres ih n.refs _ rs st2 hw1 hrefs
            obtain ⟨i2, _, a2, _⟩ := copyRefs_spec (copyNode_spec P hq h fuel) n.refs _ rs st2 hi1 hrefs
            refine ⟨⟨i2.keys, i2.vals, fun p hp => by simpa using i2.lt p hp⟩, ?_⟩
            apply wf_set hw2.2
            intro t ht
            exact refs_memo_lt i2 n.refs rs a2 t (by simpa [Node.targets, Node.withRefs] using ht)
        · rename_i m hinter
          split at hc
          · cases hc
          · rename_i rs st2 hrefs
            simp only [Option.some.injEq, Prod.mk.injEq] at hc
            obtain ⟨-, rfl⟩ := hc
            have hi1 : Inv { memo := (o, st.out.length + 1) :: st.memo,
                             out := st.out ++ [m.withRefs [], (P.conv n).withRefs []],
                             prog := (st.out.length + 1) :: st.prog, hits := st.hits } :=
              hi.1.register hlook _ _ _ _ (by omega) (by simp) (by simp)
            have hw1 : OutWF { memo := (o, st.out.length + 1) :: st.memo,
                               out := st.out ++ [m.withRefs [], (P.conv n).withRefs []],
                               prog := (st.out.length + 1) :: st.prog, hits := st.hits } :=
              ⟨hi1, wf_append_fresh hi.2 _ (by
                intro n' hn'; simp at hn'
                rcases hn' with rfl | rfl <;> simp [Node.targets, Node.withRefs])⟩
            have hw2 := copyRefs_pres ih n.refs _ rs st2 hw1 hrefs
            obtain ⟨i2, _, a2, _⟩ := copyRefs_spec (copyNode_spec P hq h fuel) n.refs _ rs st2 hi1 hrefs
            have htg : ∀ t ∈ rs.flatMap Ref.targets, t < st2.out.length := refs_memo_lt i2 n.refs rs a2
            refine ⟨⟨i2.keys, i2.vals, fun p hp => by simpa using i2.lt p hp⟩, ?_⟩
            apply wf_set
            · apply wf_set hw2.2
              intro t ht
              exact htg t (by simpa [Node.targets, Node.withRefs] using ht)
            · intro t ht
              rw [List.length_set]
              exact htg t (by simpa [Node.targets, Node.withRefs] using ht)

/-- **C04_copy_wf.** Whatever the source heap, the memoised copy (the algorithm of `to_dao` and of `from_dao`,
one- and two-phase nodes) builds a heap WITHOUT dangling references, and the roots it returns are allocated slots.
Duplicate addresses cannot arise: allocation is `append`, an address is a list position. -/
theorem C04_copy_wf (P : Params) (hq : P.quirk = false) (h : Heap) (roots ds : List Nat) (st : St)
    (hrun : copyRoots P h roots = some (ds, st)) : st.out.WF ∧ ∀ d ∈ ds, d < st.out.length := by
  unfold copyRoots at hrun
  have hw : OutWF St.empty := ⟨Inv.empty, by intro n hn; cases hn⟩
  have hw' := copyList_pres (copyNode_outwf P hq h (h.length + 1)) roots St.empty ds st hw hrun
  obtain ⟨i, _, a, _⟩ := copyList_spec (copyNode_spec P hq h (h.length + 1)) roots St.empty ds st Inv.empty hrun
  exact ⟨hw'.2, all2_memo_lt i roots ds a⟩

/-- on a heap without dangling references everything numbered from valid roots is a valid address -/
theorem dfs_lt_of_wf (h : Heap) (hwf : h.WF) : ∀ (fuel : Nat) (work acc : List Nat),
    (∀ x ∈ work, x < h.length) → (∀ x ∈ acc, x < h.length) → ∀ x ∈ dfsOrder h fuel work acc, x < h.length := by
  intro fuel
  induction fuel with
  | zero => intro work acc _ ha x hx; simp [dfsOrder] at hx; exact ha x hx
  | succ fuel ih =>
    intro work acc hw ha x hx
    cases work with
    | nil => simp [dfsOrder] at hx; exact ha x hx
    | cons y work =>
      simp only [dfsOrder] at hx
      split at hx
      · exact ih work acc (fun z hz => hw z (List.mem_cons_of_mem _ hz)) ha x hx
      · have hy : y < h.length := hw y List.mem_cons_self
        have hn : h[y]? = some h[y] := List.getElem?_eq_getElem hy
        simp only [hn] at hx
        apply ih _ _ _ _ x hx
        · intro z hz
          rcases List.mem_append.1 hz with hz | hz
          · exact hwf h[y] (List.getElem_mem hy) z hz
          · exact hw z (List.mem_cons_of_mem _ hz)
        · intro z hz
          rcases List.mem_append.1 hz with hz | hz
          · exact ha z hz
          · simp at hz; subst hz; exact hy

theorem closedFrom_of_wf (h : Heap) (hwf : h.WF) (roots : List Nat) (hr : ∀ r ∈ roots, r < h.length) :
    closedFrom h roots = true := by
  unfold closedFrom
  rw [List.all_eq_true]
  intro x hx
  have := dfs_lt_of_wf h hwf _ roots [] hr (by simp) x hx
  simp [List.getElem?_eq_getElem this]

/-- **C04_roundtrip_wf.** The heaps the model's `to_dao` and `from_dao` produce are closed: no dangling reference, valid
roots — so `canonEq` applied to a model output never fails for lack of well-formedness, only for a real difference. -/
theorem C04_roundtrip_wf (unmap : Label → Option Label) (h : Heap) (roots rs' : List Nat) (st' : St)
    (hrun : roundTrip false unmap h roots = some (rs', st')) :
    st'.out.WF ∧ (∀ r ∈ rs', r < st'.out.length) ∧ closedFrom st'.out rs' = true := by
  unfold roundTrip at hrun
  split at hrun
  · cases hrun
  · obtain ⟨hw, hr⟩ := C04_copy_wf (fromDaoParams false unmap) rfl _ _ rs' st' hrun
    exact ⟨hw, hr, closedFrom_of_wf _ hw _ hr⟩

/-- **C04_canonEq_roundtrip.** What the driver decides for the model of today's code: the round trip of every finite
object graph (any roots, one state each way) passes the decided isomorphism test against its input. -/
theorem C04_canonEq_roundtrip (unmap : Label → Option Label) (h : Heap) (roots rs' : List Nat) (st' : St)
    (hrt : RoundTrips unmap h) (hrun : roundTrip false unmap h roots = some (rs', st')) :
    canonEq h roots st'.out rs' = true ∧ verdictText h roots st'.out rs' = canon h roots := by
  have hiso := C04_roundtrip unmap h roots rs' st' hrt hrun
  exact ⟨Iso_canonEq hiso, (C04_verdict h roots st'.out rs').2 hiso⟩

/-! Non-vacuity and sanity (tests on concrete heaps): the decided test accepts the round trip of the sharing / cycle
example, rejects the pre-repair result of F-C04-1's witness, and rejects a heap with a dangling reference even against
itself (as `Iso` does). -/

example : ∃ rs' st', roundTrip false (fun _ => none) exHeap [0, 2, 0] = some (rs', st') ∧
    canonEq exHeap [0, 2, 0] st'.out rs' = true := by
  obtain ⟨rs', st', hrun⟩ := C04_roundtrip_total false (fun _ => none) exHeap (by
    intro n hn t ht
    have : ∀ n ∈ exHeap, ∀ t ∈ n.targets, t < exHeap.length := by decide
    exact this n hn t ht) [0, 2, 0] (by decide)
  exact ⟨rs', st', hrun, (C04_canonEq_roundtrip _ exHeap _ rs' st' (by decide) hrun).1⟩

example : canonEq cexHeap [0] cexOut [1] = false := by decide

example : canonEq cexHeap [0] cexHeap [0] = true ∧ canonEq cexHeap [0, 1] cexHeap [1, 0] = false := by decide

def danglingHeap : Heap := [{ (leafNode "AuxFrame" "name=sf") with refs := [.one 7], fields := [⟨false, ""⟩] }]

example : canonEq danglingHeap [0] danglingHeap [0] = false ∧ ¬ Iso danglingHeap [0] danglingHeap [0] := by
  refine ⟨by decide, fun hiso => ?_⟩
  have := Iso_canonEq hiso
  revert this; decide

end KrroodVerif.Dao
