import KrroodVerif.Model.OrmGen
import Mathlib.Data.List.Nodup
/-!
# C06 — ORMatic produces a valid, complete SQLAlchemy layer for every supported model; generation is deterministic

Property theorems about `OrmGen.generate` (Model/OrmGen.lean), the transcription of ORMatic's name derivation, parent
resolution, inherited-field elimination, kind dispatch and module imports.
-/
namespace KrroodVerif.OrmGen

/-! ## name formulas -/

theorem lower_append (a b : Name) : lower (a ++ b) = lower a ++ lower b := by simp [lower]

theorem toLower_of_not (c : Char) (h : ¬ (c.val ≥ 'A'.val ∧ c.val ≤ 'Z'.val)) : c.toLower = c := by
  unfold Char.toLower
  rw [dif_neg h]

theorem toLower_val_of (c : Char) (h : c.val ≥ 'A'.val ∧ c.val ≤ 'Z'.val) :
    c.toLower.val = c.val + ('a'.val - 'A'.val) := by
  unfold Char.toLower
  rw [dif_pos h]

/-- ASCII lower-casing is idempotent -/
theorem toLower_toLower (c : Char) : c.toLower.toLower = c.toLower := by
  by_cases h : c.val ≥ 'A'.val ∧ c.val ≤ 'Z'.val
  · apply toLower_of_not
    rw [toLower_val_of c h]
    intro ⟨h3, h4⟩
    have a1 := h.1; have a2 := h.2
    simp only [ge_iff_le, UInt32.le_iff_toNat_le] at *
    have : ('a'.val - 'A'.val).toNat = 32 := by decide
    have e : (c.val + ('a'.val - 'A'.val)).toNat = c.val.toNat + 32 := by
      rw [UInt32.toNat_add, this]
      have : 'Z'.val.toNat = 90 := by decide
      omega
    have : 'Z'.val.toNat = 90 := by decide
    have : 'A'.val.toNat = 65 := by decide
    omega
  · rw [toLower_of_not c h, toLower_of_not c h]

theorem lower_lower (a : Name) : lower (lower a) = lower a := by
  simp [lower, toLower_toLower]

theorem lower_length (a : Name) : (lower a).length = a.length := by simp [lower]

theorem lower_tableName (c : Name) : lower (tableName c) = lower c ++ ['d', 'a', 'o'] := by
  simp [tableName, daoSuffix, lower]

theorem tableName_injective : Function.Injective tableName := by
  intro a b h; exact List.append_cancel_right h

theorem fkName_injective : Function.Injective fkName := by
  intro a b h; exact List.append_cancel_right h

/-- the only way `dao_ x` can be read as `b dao_ y` with `b` free of `dao_` is `b = []` -/
theorem dao_prefix_unique (b x y : Name) (hb : hasDaoUnderscore b = false)
    (h : ['d', 'a', 'o', '_'] ++ x = b ++ ['d', 'a', 'o', '_'] ++ y) : b = [] := by
  match b, hb, h with
  | [], _, _ => rfl
  | [_], _, h => simp at h
  | [_, _], _, h => simp at h
  | [_, _, _], _, h => simp at h
  | c1 :: c2 :: c3 :: c4 :: r, hb, h =>
    simp at h
    obtain ⟨h1, h2, h3, h4, _⟩ := h
    subst h1 h2 h3 h4
    simp [hasDaoUnderscore, List.isPrefixOf] at hb

theorem hasDaoUnderscore_tail {c : Char} {r : Name} (h : hasDaoUnderscore (c :: r) = false) :
    hasDaoUnderscore r = false := by
  cases r <;> simp_all [hasDaoUnderscore]

/-- **Unique decomposition around `dao_`.** -/
theorem dao_split_unique : ∀ (a b x y : Name), hasDaoUnderscore a = false → hasDaoUnderscore b = false →
    a ++ ['d', 'a', 'o', '_'] ++ x = b ++ ['d', 'a', 'o', '_'] ++ y → a = b ∧ x = y
  | [], b, x, y, _, hb, h => by
    have : b = [] := dao_prefix_unique b x y hb (by simpa using h)
    subst this
    simpa using h
  | c :: a, [], x, y, ha, _, h => by
    have : c :: a = [] := dao_prefix_unique (c :: a) y x ha (by simpa using h.symm)
    exact absurd this (by simp)
  | c :: a, d :: b, x, y, ha, hb, h => by
    simp only [List.cons_append, List.cons.injEq] at h
    obtain ⟨hcd, h⟩ := h
    have := dao_split_unique a b x y (hasDaoUnderscore_tail ha) (hasDaoUnderscore_tail hb)
      (by simpa using h)
    exact ⟨by rw [hcd, this.1], this.2⟩

theorem lower_assocName (c f : Name) :
    lower (assocName (tableName c) f) = lower c ++ ['d', 'a', 'o', '_'] ++ (lower f ++ assocSuffix) := by
  simp [assocName, tableName, daoSuffix, lower, assocSuffix, toLower_toLower]

/-- `C06_names_injective`: the name formulas do not collide.
(1) table names `XDAO` and FK column names `f_id` are injective in the class / field name;
(2) association table names `f"{table.lower()}_{field}_association"` of two (class, field) pairs coincide — even
    ignoring case — only if the class names coincide ignoring case and the field names coincide ignoring case,
    provided the class names do not contain `dao_`;
(3) a DAO table name is never an association table name (ignoring case). -/
theorem C06_names_injective :
    Function.Injective tableName ∧ Function.Injective fkName ∧
    (∀ c₁ c₂ f₁ f₂ : Name, hasDaoUnderscore (lower c₁) = false → hasDaoUnderscore (lower c₂) = false →
      lower (assocName (tableName c₁) f₁) = lower (assocName (tableName c₂) f₂) →
      lower c₁ = lower c₂ ∧ lower f₁ = lower f₂) ∧
    (∀ c₁ c₂ f : Name, lower (tableName c₁) ≠ lower (assocName (tableName c₂) f)) := by
  refine ⟨tableName_injective, fkName_injective, ?_, ?_⟩
  · intro c₁ c₂ f₁ f₂ h₁ h₂ h
    rw [lower_assocName, lower_assocName] at h
    have := dao_split_unique _ _ _ _ h₁ h₂ h
    exact ⟨this.1, List.append_cancel_right this.2⟩
  · intro c₁ c₂ f h
    rw [lower_assocName, lower_tableName] at h
    have := congrArg (fun l => l.reverse.head?) h
    simp [assocSuffix] at this

/-- **`assocName_injective`**: the association table name `f"{table.lower()}_{field}_association"` is an injective
function of the (class, field) pair — up to the case of the class name, which `table.lower()` erases — for class names
free of `dao_`. In particular two different collection fields of one class never share an association table. -/
theorem assocName_injective (c₁ c₂ f₁ f₂ : Name) (h₁ : hasDaoUnderscore (lower c₁) = false)
    (h₂ : hasDaoUnderscore (lower c₂) = false)
    (h : assocName (tableName c₁) f₁ = assocName (tableName c₂) f₂) : lower c₁ = lower c₂ ∧ f₁ = f₂ := by
  have e : ∀ c f : Name, assocName (tableName c) f = lower c ++ ['d', 'a', 'o', '_'] ++ (f ++ assocSuffix) := by
    intro c f
    simp [assocName, tableName, daoSuffix, lower, assocSuffix]
  rw [e, e] at h
  have := dao_split_unique _ _ _ _ h₁ h₂ h
  exact ⟨this.1, List.append_cancel_right this.2⟩

/-- the association table name keeps every character of the table and the field name (no truncation): its length is
`len(table) + 1 + len(field) + len("_association")` -/
theorem assocName_length (t f : Name) : (assocName t f).length = t.length + f.length + 13 := by
  simp [assocName, lower, assocSuffix]
  omega

/-- … and so does every generated identifier: `XDAO`, `f_id`, `<table.lower()>_id` -/
theorem generated_name_lengths (c f : Name) :
    (tableName c).length = c.length + 3 ∧ (fkName f).length = f.length + 3 ∧
      (assocFk (tableName c)).length = c.length + 6 := by
  simp [tableName, fkName, assocFk, lower, daoSuffix, idSuffix]

/-- the two FK columns of an association table between different classes (ignoring case) are named differently -/
theorem C06_assoc_fk_distinct (c₁ c₂ : Name) (h : lower c₁ ≠ lower c₂) :
    assocFk (tableName c₁) ≠ assocFk (tableName c₂) := by
  intro e
  simp only [assocFk, lower_tableName] at e
  exact h (List.append_cancel_right (List.append_cancel_right e))


/-! ## lookup, parent chain, dataclass fields -/

theorem lookup_some {m : ClassModel} {n : Name} {c : Class} (h : lookup m n = some c) : c ∈ m ∧ c.name = n := by
  unfold lookup at h
  exact ⟨List.mem_of_find?_eq_some h, by simpa using List.find?_some h⟩

theorem mapped_iff {m : ClassModel} {n : Name} : mapped m n = true ↔ ∃ c ∈ m, c.name = n := by
  unfold mapped lookup
  rw [List.find?_isSome]
  simp

theorem parentOf_some {m : ClassModel} {c p : Class} (h : parentOf m c = some p) :
    p ∈ m ∧ c.base = some p.name := by
  unfold parentOf at h
  cases hb : c.base with
  | none => simp [hb] at h
  | some b =>
    simp only [hb, Option.bind_some] at h
    have := lookup_some h
    exact ⟨this.1, by rw [this.2]⟩

theorem anc_mem {m : ClassModel} : ∀ (n : Nat) (c a : Class), a ∈ anc m n c → a ∈ m
  | 0, _, _, h => by simp [anc] at h
  | n + 1, c, a, h => by
    unfold anc at h
    split at h
    · simp at h
    · rename_i p hp
      rcases List.mem_cons.mp h with rfl | h
      · exact (parentOf_some hp).1
      · exact anc_mem n p a h

theorem ancestors_mem {m : ClassModel} {c a : Class} (h : a ∈ ancestors m c) : a ∈ m := anc_mem _ _ _ h

theorem anc_stable {m : ClassModel} : ∀ (n : Nat) (c : Class), natural m n c = true →
    ∀ k, anc m (n + k) c = anc m n c ∧ natural m (n + k) c = true
  | 0, c, h, k => by
    simp only [natural, Option.isNone_iff_eq_none] at h
    cases k with
    | zero => simp [anc, natural, h]
    | succ k => simp [anc, natural, h]
  | n + 1, c, h, k => by
    have e : n + 1 + k = (n + k) + 1 := by omega
    rw [e]
    unfold natural anc at *
    split
    · simp
    · rename_i p hp
      simp only [hp] at h
      have := anc_stable n p h k
      simp [this.1, this.2]

theorem ancestors_nil {m : ClassModel} {c : Class} (hp : parentOf m c = none) : ancestors m c = [] := by
  unfold ancestors
  cases m.length <;> simp [anc, hp]

theorem ancestors_cons {m : ClassModel} {c p : Class} (hc : c ∈ m) (hn : natural m m.length c = true)
    (hp : parentOf m c = some p) : ancestors m c = p :: ancestors m p ∧ natural m m.length p = true := by
  unfold ancestors
  obtain ⟨L, hL⟩ : ∃ L, m.length = L + 1 := by
    cases m with
    | nil => simp at hc
    | cons _ _ => exact ⟨_, rfl⟩
  rw [hL] at hn ⊢
  have hn' : natural m L p = true := by
    unfold natural at hn
    simpa [hp] using hn
  have := anc_stable L p hn' 1
  constructor
  · conv => lhs; unfold anc
    simp [hp, this.1]
  · exact this.2

/-- names after merging one field -/
theorem mergeField_names (acc : List Field) (f : Field) :
    (mergeField acc f).map (·.name) =
      if f.name ∈ acc.map (·.name) then acc.map (·.name) else acc.map (·.name) ++ [f.name] := by
  unfold mergeField
  by_cases h : f.name ∈ acc.map (·.name)
  · have h' : acc.any (fun g => g.name == f.name) = true := by
      simp only [List.mem_map] at h
      obtain ⟨g, hg, e⟩ := h
      exact List.any_eq_true.mpr ⟨g, hg, by simp [e]⟩
    simp only [h', h, if_true]
    rw [List.map_map]
    apply List.map_congr_left
    intro g _
    by_cases e : g.name = f.name <;> simp [e]
  · have h' : acc.any (fun g => g.name == f.name) = false := by
      simp only [List.mem_map, not_exists, not_and] at h
      simp only [List.any_eq_false, beq_iff_eq]
      intro g hg e
      exact h g hg e
    simp [h', h]

theorem mergeField_nodup (acc : List Field) (f : Field) (h : (acc.map (·.name)).Nodup) :
    ((mergeField acc f).map (·.name)).Nodup := by
  rw [mergeField_names]
  split
  · exact h
  · rename_i hn
    exact List.nodup_append.mpr ⟨h, by simp, by
      intro a ha b hb e
      simp at hb
      subst hb; subst e
      exact hn ha⟩

theorem mem_mergeField {acc : List Field} {f x : Field} (h : x ∈ mergeField acc f) : x ∈ acc ∨ x = f := by
  unfold mergeField at h
  split at h
  · simp only [List.mem_map] at h
    obtain ⟨g, hg, e⟩ := h
    split at e
    · exact .inr e.symm
    · exact .inl (e ▸ hg)
  · simpa using h

theorem mergeFields_nodup : ∀ (own acc : List Field), (acc.map (·.name)).Nodup →
    ((mergeFields acc own).map (·.name)).Nodup
  | [], _, h => h
  | f :: own, acc, h => by
    unfold mergeFields
    simp only [List.foldl_cons]
    exact mergeFields_nodup own (mergeField acc f) (mergeField_nodup acc f h)

theorem mem_mergeFields : ∀ (own acc : List Field) (x : Field), x ∈ mergeFields acc own → x ∈ acc ∨ x ∈ own
  | [], _, _, h => .inl h
  | f :: own, acc, x, h => by
    unfold mergeFields at h
    simp only [List.foldl_cons] at h
    rcases mem_mergeFields own (mergeField acc f) x h with h | h
    · rcases mem_mergeField h with h | h
      · exact .inl h
      · exact .inr (by simp [h])
    · exact .inr (by simp [h])

/-- merging keeps every inherited name and adds every own name -/
theorem mergeFields_names : ∀ (own acc : List Field) (x : Name),
    x ∈ (mergeFields acc own).map (·.name) ↔ x ∈ acc.map (·.name) ∨ x ∈ own.map (·.name)
  | [], _, _ => by simp [mergeFields]
  | f :: own, acc, x => by
    unfold mergeFields
    simp only [List.foldl_cons]
    have := mergeFields_names own (mergeField acc f) x
    unfold mergeFields at this
    rw [this, mergeField_names]
    split
    · rename_i hf
      constructor
      · rintro (h | h)
        · exact .inl h
        · exact .inr (by simp [h])
      · rintro (h | h)
        · exact .inl h
        · simp only [List.map_cons, List.mem_cons] at h
          rcases h with rfl | h
          · exact .inl hf
          · exact .inr h
    · simp only [List.mem_append, List.map_cons, List.mem_cons]
      tauto

theorem foldl_merge_nodup : ∀ (ks : List Class) (acc : List Field), (acc.map (·.name)).Nodup →
    ((ks.foldl (fun acc k => mergeFields acc k.fields) acc).map (·.name)).Nodup
  | [], _, h => h
  | k :: ks, acc, h => by
    simp only [List.foldl_cons]
    exact foldl_merge_nodup ks _ (mergeFields_nodup k.fields acc h)

theorem foldl_merge_mem : ∀ (ks : List Class) (acc : List Field) (x : Field),
    x ∈ ks.foldl (fun acc k => mergeFields acc k.fields) acc → x ∈ acc ∨ ∃ k ∈ ks, x ∈ k.fields
  | [], _, _, h => .inl h
  | k :: ks, acc, x, h => by
    simp only [List.foldl_cons] at h
    rcases foldl_merge_mem ks _ x h with h | ⟨k', hk', h⟩
    · rcases mem_mergeFields _ _ _ h with h | h
      · exact .inl h
      · exact .inr ⟨k, by simp, h⟩
    · exact .inr ⟨k', by simp [hk'], h⟩

/-- the names of `dataclasses.fields(cls)` are distinct -/
theorem dcFields_nodup (m : ClassModel) (c : Class) : ((dcFields m c).map (·.name)).Nodup :=
  foldl_merge_nodup _ _ (by simp)

/-- every dataclass field is declared in the body of the class or of one of its ancestors -/
theorem dcFields_declared {m : ClassModel} {c : Class} {f : Field} (h : f ∈ dcFields m c) :
    ∃ k, (k = c ∨ k ∈ ancestors m c) ∧ f ∈ k.fields := by
  rcases foldl_merge_mem _ _ _ h with h | ⟨k, hk, h⟩
  · simp at h
  · refine ⟨k, ?_, h⟩
    simp only [List.mem_append, List.mem_reverse, List.mem_singleton] at hk
    tauto

theorem dcFields_cons {m : ClassModel} {c p : Class} (hc : c ∈ m) (hn : natural m m.length c = true)
    (hp : parentOf m c = some p) : dcFields m c = mergeFields (dcFields m p) c.fields := by
  unfold dcFields
  rw [(ancestors_cons hc hn hp).1]
  simp [List.foldl_append]

theorem dcFields_root {m : ClassModel} {c : Class} (hp : parentOf m c = none) :
    dcFields m c = mergeFields [] c.fields := by
  unfold dcFields
  rw [ancestors_nil hp]
  simp

theorem tableFields_sub {m : ClassModel} {c : Class} {f : Field} (h : f ∈ tableFields m c) :
    f ∈ dcFields m c ∧ isPrivate f.name = false ∧ f.name ∉ inheritedNames m c := by
  unfold tableFields wrappedFields at h
  simp only [List.mem_filter, Bool.not_eq_true', List.contains_eq_mem, decide_eq_false_iff_not] at h
  exact ⟨h.1.1, h.1.2, by simpa using h.2⟩

theorem tableFields_names_nodup (m : ClassModel) (c : Class) : ((tableFields m c).map (·.name)).Nodup := by
  unfold tableFields wrappedFields
  exact List.Nodup.sublist ((List.filter_sublist.trans List.filter_sublist).map _) (dcFields_nodup m c)


/-! ## kind dispatch: what `parseField` / `assocOf` produce -/

theorem parseField_inv {m : ClassModel} {c : Class} {f : Field} {a : Attr} (h : a ∈ parseField m c f) :
    (a.name = f.name ∨ a.name = fkName f.name) ∧
    (∀ tg, a.kind = .fkCol tg → ∃ t, mapped m t = true ∧ tg = tableName t) ∧
    (∀ tg many sec, a.kind = .rel tg many sec → ∃ t, mapped m t = true ∧ tg = tableName t ∧
      ∀ s, sec = some s → f.kind = .coll t ∧ s = assocName (tableName c.name) f.name) ∧
    (∀ x ∈ a.mods, x = .typing ∨ x = .builtins ∨ (x = .model ∧ ∃ o, f.kind = .enum o) ∨
      (x = .datetime ∧ ∃ o, f.kind = .datetime o) ∨ x = .customTypes) := by
  obtain ⟨n, k⟩ := f
  cases k with
  | scalar s o => cases o <;> simp [parseField, optMods] at h <;> subst h <;> simp
  | enum o => cases o <;> simp [parseField, optMods] at h <;> subst h <;> simp
  | datetime o => cases o <;> simp [parseField, optMods] at h <;> subst h <;> simp
  | jsonList s => simp [parseField] at h; subst h; simp
  | ref t o =>
    by_cases hm : mapped m t = true
    · cases o <;> simp [parseField, hm] at h <;> rcases h with h | h <;> subst h <;> simp <;>
        exact ⟨t, hm, rfl⟩
    · simp [parseField, hm] at h
  | coll t =>
    by_cases hm : mapped m t = true
    · simp [parseField, hm] at h; subst h; simp
      exact hm
    · simp [parseField, hm] at h
  | custom o => cases o <;> simp [parseField, optMods] at h <;> subst h <;> simp


/-! ## validity -/

theorem tableFields_hygiene {m : ClassModel} (wf : WF m) {c : Class} (hc : c ∈ m) {f : Field}
    (hf : f ∈ tableFields m c) : fieldNameOk f.name = true ∧ kindOk m f.kind = true := by
  obtain ⟨k, hk, hfk⟩ := dcFields_declared (tableFields_sub hf).1
  have hkm : k ∈ m := by
    rcases hk with rfl | hk
    · exact hc
    · exact ancestors_mem hk
  exact ⟨wf.fieldNamesOk k hkm f hfk, wf.kindsOk k hkm f hfk⟩

theorem fieldNameOk_iff {n : Name} (h : fieldNameOk n = true) :
    lower n = n ∧ endsWithId n = false ∧ n ≠ polyName ∧ n ≠ databaseName := by
  simpa [fieldNameOk, and_assoc] using h

theorem endsWithId_fkName (x : Name) : endsWithId (fkName x) = true := by
  simp [endsWithId, fkName, List.isSuffixOf_iff_suffix]

theorem fkName_ne_self (x : Name) : fkName x ≠ x := by
  intro h
  have := congrArg List.length h
  simp [fkName, idSuffix] at this

theorem lower_fkName (x : Name) : lower (fkName x) = fkName (lower x) := by
  simp [fkName, lower, idSuffix]

theorem parseField_names_nodup (m : ClassModel) (c : Class) (f : Field) :
    ((parseField m c f).map (·.name)).Nodup := by
  obtain ⟨n, k⟩ := f
  cases k with
  | scalar s o => simp [parseField]
  | enum o => simp [parseField]
  | datetime o => simp [parseField]
  | jsonList s => simp [parseField]
  | ref t o =>
    by_cases hm : mapped m t = true
    · simp [parseField, hm, fkName_ne_self]
    · simp [parseField, hm]
  | coll t =>
    by_cases hm : mapped m t = true <;> simp [parseField, hm]
  | custom o => simp [parseField]

/-- the attribute names a table gets from its fields are pairwise distinct -/
theorem attrs_names_nodup {m : ClassModel} (wf : WF m) {c : Class} (hc : c ∈ m) :
    (((tableFields m c).flatMap (parseField m c)).map (·.name)).Nodup := by
  rw [List.map_flatMap, List.nodup_flatMap]
  refine ⟨fun f _ => parseField_names_nodup m c f, ?_⟩
  have hp : List.Pairwise (fun a b : Field => a.name ≠ b.name) (tableFields m c) := by
    have := tableFields_names_nodup m c
    rwa [List.Nodup, List.pairwise_map] at this
  refine hp.imp_of_mem ?_
  intro f g hf hg hne
  have hyf := fieldNameOk_iff (tableFields_hygiene wf hc hf).1
  have hyg := fieldNameOk_iff (tableFields_hygiene wf hc hg).1
  intro x hx hy
  simp only [List.mem_map] at hx hy
  obtain ⟨a, ha, rfl⟩ := hx
  obtain ⟨b, hb, e⟩ := hy
  rcases (parseField_inv ha).1 with h1 | h1 <;> rcases (parseField_inv hb).1 with h2 | h2
  · exact hne (by rw [← h1, ← h2, e])
  · have : endsWithId f.name = true := by rw [← h1, ← e, h2]; exact endsWithId_fkName _
    simp [hyf.2.1] at this
  · have : endsWithId g.name = true := by rw [← h2, e, h1]; exact endsWithId_fkName _
    simp [hyg.2.1] at this
  · exact hne (fkName_injective (by rw [← h1, ← h2, e]))

theorem pkName_eq : pkName = fkName databaseName := by decide

theorem genTable_attrNames (m : ClassModel) (c : Class) : (genTable m c).attrNames =
    pkName :: (if ((parentOf m c).isNone && hasChildren m c) = true then [polyName] else []) ++
      ((tableFields m c).flatMap (parseField m c)).map (·.name) := rfl

theorem genTable_attrNames_nodup {m : ClassModel} (wf : WF m) {c : Class} (hc : c ∈ m) :
    ((genTable m c).attrNames.map lower).Nodup := by
  have hlow : ∀ x ∈ (genTable m c).attrNames, lower x = x := by
    intro x hx
    rw [genTable_attrNames] at hx
    simp only [List.cons_append, List.mem_cons, List.mem_append, List.mem_map, List.mem_flatMap] at hx
    rcases hx with rfl | hx | ⟨a, ⟨f, hf, ha⟩, rfl⟩
    · decide
    · by_cases hb : ((parentOf m c).isNone && hasChildren m c) = true
      · rw [if_pos hb] at hx; simp at hx; subst hx; decide
      · rw [if_neg hb] at hx; simp at hx
    · have hy := fieldNameOk_iff (tableFields_hygiene wf hc hf).1
      rcases (parseField_inv ha).1 with h | h
      · rw [h, hy.1]
      · rw [h, lower_fkName, hy.1]
  rw [List.map_congr_left hlow, List.map_id']
  have hA := attrs_names_nodup wf hc
  have hnot : ∀ x ∈ ((tableFields m c).flatMap (parseField m c)).map (·.name), x ≠ pkName ∧ x ≠ polyName := by
    intro x hx
    simp only [List.mem_map, List.mem_flatMap] at hx
    obtain ⟨a, ⟨f, hf, ha⟩, rfl⟩ := hx
    have hy := fieldNameOk_iff (tableFields_hygiene wf hc hf).1
    rcases (parseField_inv ha).1 with h | h
    · refine ⟨?_, by rw [h]; exact hy.2.2.1⟩
      intro e
      have : endsWithId f.name = true := by rw [← h, e]; decide
      simp [hy.2.1] at this
    · refine ⟨?_, ?_⟩
      · intro e
        rw [h, pkName_eq] at e
        exact hy.2.2.2 (fkName_injective e)
      · intro e
        have : endsWithId polyName = true := by rw [← e, h]; exact endsWithId_fkName _
        exact absurd this (by decide)
  rw [genTable_attrNames]
  by_cases hb : ((parentOf m c).isNone && hasChildren m c) = true
  · rw [if_pos hb]
    simp only [List.cons_append, List.nil_append, List.nodup_cons, List.mem_cons, not_or]
    exact ⟨⟨by decide, fun h => (hnot _ h).1 rfl⟩, fun h => (hnot _ h).2 rfl, hA⟩
  · rw [if_neg hb]
    simp only [List.cons_append, List.nil_append, List.nodup_cons]
    exact ⟨fun h => (hnot _ h).1 rfl, hA⟩


theorem assocOf_inv {q : Quirks} {m : ClassModel} {c : Class} {f : Field} {a : Assoc} (h : a ∈ assocOf q m c f) :
    ∃ t, f.kind = .coll t ∧ mapped m t = true ∧ a.name = assocName (tableName c.name) f.name ∧
      a.leftTable = tableName c.name ∧ a.rightTable = tableName t ∧
      (a.leftFk, a.rightFk) = assocFkNames q (tableName c.name) (tableName t) := by
  obtain ⟨n, k⟩ := f
  cases k with
  | coll t =>
    by_cases hm : mapped m t = true
    · simp [assocOf, hm] at h; subst h; exact ⟨t, rfl, hm, rfl, rfl, rfl, rfl⟩
    · simp [assocOf, hm] at h
  | _ => simp [assocOf] at h

theorem mem_assocs {q : Quirks} {m : ClassModel} {a : Assoc} (h : a ∈ (generate q m).assocs) :
    ∃ c ∈ m, ∃ f ∈ tableFields m c, a ∈ assocOf q m c f := by
  simpa [generate, List.mem_flatMap] using h

theorem tableNames_nodup {q : Quirks} {m : ClassModel} (wf : WF m) :
    ((generate q m).tables.map (fun t => lower t.name)).Nodup := by
  have e : (generate q m).tables.map (fun t => lower t.name) =
      (m.map (fun c => lower c.name)).map (· ++ ['d', 'a', 'o']) := by
    simp [generate, List.map_map, genTable, lower_tableName, Function.comp_def]
  rw [e]
  exact List.Nodup.map (fun a b h => List.append_cancel_right h) wf.namesDistinct

theorem assocNames_nodup {q : Quirks} {m : ClassModel} (wf : WF m) :
    ((generate q m).assocs.map (fun a => lower a.name)).Nodup := by
  simp only [generate, List.map_flatMap]
  rw [List.nodup_flatMap]
  constructor
  · intro c hc
    rw [List.nodup_flatMap]
    constructor
    · intro f _
      obtain ⟨n, k⟩ := f
      cases k with
      | coll t => by_cases hm : mapped m t = true <;> simp [assocOf, hm]
      | _ => simp [assocOf]
    · have hp : List.Pairwise (fun a b : Field => a.name ≠ b.name) (tableFields m c) := by
        have := tableFields_names_nodup m c
        rwa [List.Nodup, List.pairwise_map] at this
      refine hp.imp_of_mem ?_
      intro f g hf hg hne x hx hy
      simp only [List.mem_map] at hx hy
      obtain ⟨a, ha, rfl⟩ := hx
      obtain ⟨b, hb, e⟩ := hy
      obtain ⟨_, _, _, han, _⟩ := assocOf_inv ha
      obtain ⟨_, _, _, hbn, _⟩ := assocOf_inv hb
      rw [han, hbn] at e
      have hcl := wf.namesClean c hc
      have := (C06_names_injective.2.2.1 _ _ _ _ hcl hcl e.symm).2
      have hyf := fieldNameOk_iff (tableFields_hygiene wf hc hf).1
      have hyg := fieldNameOk_iff (tableFields_hygiene wf hc hg).1
      rw [hyf.1, hyg.1] at this
      exact hne this
  · have hp : List.Pairwise (fun a b : Class => lower a.name ≠ lower b.name) m := by
      have := wf.namesDistinct
      rwa [List.Nodup, List.pairwise_map] at this
    refine hp.imp_of_mem ?_
    intro c d hc hd hne x hx hy
    simp only [List.mem_flatMap, List.mem_map] at hx hy
    obtain ⟨f, _, a, ha, rfl⟩ := hx
    obtain ⟨g, _, b, hb, e⟩ := hy
    obtain ⟨_, _, _, han, _⟩ := assocOf_inv ha
    obtain ⟨_, _, _, hbn, _⟩ := assocOf_inv hb
    rw [han, hbn] at e
    exact hne (C06_names_injective.2.2.1 _ _ _ _ (wf.namesClean c hc) (wf.namesClean d hd) e.symm).1


theorem selfCollection_of {m : ClassModel} {c : Class} {f : Field} (hc : c ∈ m) (hf : f ∈ tableFields m c)
    (hk : f.kind = .coll c.name) : selfCollection m = true := by
  unfold selfCollection
  exact List.any_eq_true.mpr ⟨c, hc, List.any_eq_true.mpr ⟨f, hf, by simp [hk]⟩⟩

theorem mem_imports_of_field {q : Quirks} {m : ClassModel} {c : Class} {f : Field} {x : Module} (hc : c ∈ m)
    (hf : f ∈ tableFields m c) (hx : x ∈ fieldImports f) : x ∈ imports q m := by
  unfold imports
  simp only [List.mem_append, List.mem_flatMap]
  exact .inl (.inr ⟨c, hc, f, hf, hx⟩)

theorem builtins_imported {q : Quirks} {m : ClassModel}
    (h2 : q.builtinsOnlyWhenUsed = true → hasBuiltinField m = true) : Module.builtins ∈ imports q m := by
  cases hq : q.builtinsOnlyWhenUsed with
  | false => simp [imports, hq]
  | true =>
    have := h2 hq
    unfold hasBuiltinField at this
    obtain ⟨c, hc, hany⟩ := List.any_eq_true.mp this
    obtain ⟨f, hf, hk⟩ := List.any_eq_true.mp hany
    refine mem_imports_of_field hc hf ?_
    obtain ⟨n, k⟩ := f
    cases k <;> simp_all [fieldImports]

theorem assocFkNames_distinct (q : Quirks) (l r : Name)
    (h : q.sameAssocFkNames = true → assocFk l ≠ assocFk r) :
    (assocFkNames q l r).1 ≠ (assocFkNames q l r).2 := by
  unfold assocFkNames
  cases hq : q.sameAssocFkNames with
  | true => simpa using h hq
  | false =>
    by_cases e : assocFk l = assocFk r
    · simp [e, sourcePrefix, targetPrefix]
    · simp [e]

/-- Validity of the generated schema for a well-formed model, for any quirk setting whose triggers are excluded. -/
theorem valid_of (q : Quirks) (m : ClassModel) (wf : WF m)
    (h1 : q.sameAssocFkNames = true → noSelfCollection m)
    (h2 : q.builtinsOnlyWhenUsed = true → hasBuiltinField m = true) : Valid (generate q m) := by
  have tables_eq : (generate q m).tables = m.map (genTable m) := rfl
  have mem_tables : ∀ t ∈ (generate q m).tables, ∃ c ∈ m, t = genTable m c := by
    intro t ht
    rw [tables_eq, List.mem_map] at ht
    obtain ⟨c, hc, rfl⟩ := ht
    exact ⟨c, hc, rfl⟩
  have tableName_mem : ∀ d ∈ m, tableName d.name ∈ (generate q m).tableNames := by
    intro d hd
    simp only [Schema.tableNames, tables_eq, List.map_map, List.mem_map]
    exact ⟨d, hd, rfl⟩
  have mapped_mem : ∀ t, mapped m t = true → tableName t ∈ (generate q m).tableNames := by
    intro t ht
    obtain ⟨d, hd, rfl⟩ := mapped_iff.mp ht
    exact tableName_mem d hd
  refine ⟨?_, ?_, ?_, ?_, ?_, ?_, ?_, ?_⟩
  · -- generation does not raise
    simp only [generate, List.any_eq_false]
    intro c hc
    simp only [List.any_eq_true, not_exists, not_and]
    intro f hf
    have := (tableFields_hygiene wf hc hf).2
    obtain ⟨n, k⟩ := f
    cases k <;> simp_all [fieldCrashes, kindOk]
  · -- table names distinct
    rw [List.nodup_append]
    refine ⟨tableNames_nodup wf, assocNames_nodup wf, ?_⟩
    intro x hx y hy e
    simp only [List.mem_map] at hx hy
    obtain ⟨t, ht, rfl⟩ := hx
    obtain ⟨a, ha, rfl⟩ := hy
    obtain ⟨c, _, rfl⟩ := mem_tables t ht
    obtain ⟨d, _, f, _, haf⟩ := mem_assocs ha
    obtain ⟨_, _, _, han, _⟩ := assocOf_inv haf
    rw [han] at e
    exact C06_names_injective.2.2.2 _ _ _ e
  · -- attribute names distinct in every DAO
    intro t ht
    obtain ⟨c, hc, rfl⟩ := mem_tables t ht
    exact genTable_attrNames_nodup wf hc
  · -- the two columns of an association table are named differently
    intro a ha
    obtain ⟨c, hc, f, hf, haf⟩ := mem_assocs ha
    obtain ⟨t, hk, hm, _, _, _, hfk⟩ := assocOf_inv haf
    have := assocFkNames_distinct q (tableName c.name) (tableName t) (by
      intro hq
      apply C06_assoc_fk_distinct
      intro e
      obtain ⟨d, hd, rfl⟩ := mapped_iff.mp hm
      have hcd : c = d := List.inj_on_of_nodup_map wf.namesDistinct hc hd e
      subst hcd
      have := selfCollection_of hc hf hk
      rw [h1 hq] at this
      exact absurd this (by simp))
    rw [← hfk] at this
    exact this
  · -- targets exist
    intro t ht x hx
    obtain ⟨c, hc, rfl⟩ := mem_tables t ht
    simp only [Table.targets, genTable, List.mem_append, Option.mem_toList, Option.map_eq_some_iff,
      List.mem_flatMap] at hx
    rcases hx with ⟨p, hp, rfl⟩ | ⟨a, ⟨f, hf, ha⟩, hx⟩
    · exact tableName_mem p (parentOf_some hp).1
    · have inv := parseField_inv ha
      cases hk : a.kind with
      | builtinCol => simp [hk] at hx
      | customCol => simp [hk] at hx
      | fkCol tg =>
        simp [hk] at hx; subst hx
        obtain ⟨t', ht', rfl⟩ := inv.2.1 _ hk
        exact mapped_mem t' ht'
      | rel tg many sec =>
        simp [hk] at hx; subst hx
        obtain ⟨t', ht', rfl, _⟩ := inv.2.2.1 _ _ _ hk
        exact mapped_mem t' ht'
  · -- secondary tables exist
    intro t ht x hx
    obtain ⟨c, hc, rfl⟩ := mem_tables t ht
    simp only [Table.secondaries, genTable, List.mem_flatMap] at hx
    obtain ⟨a, ⟨f, hf, ha⟩, hx⟩ := hx
    have inv := parseField_inv ha
    cases hk : a.kind with
    | rel tg many sec =>
      cases sec with
      | none => simp [hk] at hx
      | some s =>
        simp [hk] at hx; subst hx
        obtain ⟨t', ht', _, hs⟩ := inv.2.2.1 _ _ _ hk
        obtain ⟨hfk, rfl⟩ := hs _ rfl
        simp only [generate, List.mem_map, List.mem_flatMap]
        refine ⟨⟨assocName (tableName c.name) f.name, tableName c.name,
          (assocFkNames q (tableName c.name) (tableName t')).1, tableName t',
          (assocFkNames q (tableName c.name) (tableName t')).2⟩, ⟨c, hc, f, hf, ?_⟩, rfl⟩
        simp [assocOf, hfk, ht']
    | _ => simp [hk] at hx
  · -- association tables link existing tables
    intro a ha
    obtain ⟨c, hc, f, hf, haf⟩ := mem_assocs ha
    obtain ⟨t, _, hm, _, hl, hr, _⟩ := assocOf_inv haf
    rw [hl, hr]
    exact ⟨tableName_mem c hc, mapped_mem t hm⟩
  · -- every module named in an annotation is imported
    intro t ht
    obtain ⟨c, hc, rfl⟩ := mem_tables t ht
    have hb : Module.builtins ∈ (generate q m).imports := builtins_imported h2
    constructor
    · intro x hx
      simp only [genTable, List.mem_singleton] at hx
      subst hx; exact hb
    · intro a ha x hx
      simp only [genTable, List.mem_flatMap] at ha
      obtain ⟨f, hf, ha⟩ := ha
      rcases (parseField_inv ha).2.2.2 x hx with rfl | rfl | ⟨rfl, o, hk⟩ | ⟨rfl, o, hk⟩ | rfl
      · simp [generate, imports]
      · exact hb
      · exact mem_imports_of_field hc hf (by simp [fieldImports, hk])
      · exact mem_imports_of_field hc hf (by simp [fieldImports, hk])
      · simp [generate, imports]


/-! ## completeness -/

/-- induction along the `parent_table` chain of a well-formed model -/
theorem chain_induction {m : ClassModel} (wf : WF m) (P : Class → Prop)
    (root : ∀ c ∈ m, parentOf m c = none → P c)
    (step : ∀ c ∈ m, ∀ p, parentOf m c = some p → p ∈ m → P p → P c) : ∀ c ∈ m, P c := by
  have : ∀ n, ∀ c ∈ m, (ancestors m c).length = n → P c := by
    intro n
    induction n with
    | zero =>
      intro c hc hl
      cases hp : parentOf m c with
      | none => exact root c hc hp
      | some p =>
        rw [(ancestors_cons hc (wf.chainsEnd c hc) hp).1] at hl
        simp at hl
    | succ n ih =>
      intro c hc hl
      cases hp : parentOf m c with
      | none => exact root c hc hp
      | some p =>
        have hpm := (parentOf_some hp).1
        rw [(ancestors_cons hc (wf.chainsEnd c hc) hp).1] at hl
        exact step c hc p hp hpm (ih p hpm (by simpa using hl))
  intro c hc
  exact this _ c hc rfl

theorem mem_wrapped_names {m : ClassModel} {c : Class} {x : Name} :
    x ∈ (wrappedFields m c).map (·.name) ↔ x ∈ (dcFields m c).map (·.name) ∧ isPrivate x = false := by
  simp only [wrappedFields, List.mem_map, List.mem_filter, Bool.not_eq_true']
  constructor
  · rintro ⟨f, ⟨hf, hp⟩, rfl⟩
    exact ⟨⟨f, hf, rfl⟩, hp⟩
  · rintro ⟨⟨f, hf, rfl⟩, hp⟩
    exact ⟨f, ⟨hf, hp⟩, rfl⟩

theorem inheritedNames_cons {m : ClassModel} {c p : Class} (hc : c ∈ m) (hn : natural m m.length c = true)
    (hp : parentOf m c = some p) :
    inheritedNames m c = (wrappedFields m p).map (·.name) ++ inheritedNames m p := by
  unfold inheritedNames
  rw [(ancestors_cons hc hn hp).1]
  simp

theorem inheritedNames_root {m : ClassModel} {c : Class} (hp : parentOf m c = none) : inheritedNames m c = [] := by
  unfold inheritedNames
  rw [ancestors_nil hp]
  simp

/-- the public field names of a class contain those of all its ancestors -/
theorem inherited_sub_wrapped {m : ClassModel} (wf : WF m) :
    ∀ c ∈ m, ∀ x ∈ inheritedNames m c, x ∈ (wrappedFields m c).map (·.name) := by
  apply chain_induction wf
  · intro c _ hp x hx
    rw [inheritedNames_root hp] at hx
    simp at hx
  · intro c hc p hp _ ih x hx
    rw [inheritedNames_cons hc (wf.chainsEnd c hc) hp, List.mem_append] at hx
    have hxp : x ∈ (wrappedFields m p).map (·.name) := by
      rcases hx with hx | hx
      · exact hx
      · exact ih x hx
    rw [mem_wrapped_names] at hxp ⊢
    refine ⟨?_, hxp.2⟩
    rw [dcFields_cons hc (wf.chainsEnd c hc) hp, mergeFields_names]
    exact .inl hxp.1

/-- every public field name of a class is introduced by the class itself or by one of its ancestors -/
theorem covered_names {m : ClassModel} (wf : WF m) :
    ∀ c ∈ m, ∀ x ∈ (wrappedFields m c).map (·.name),
      ∃ a ∈ c :: ancestors m c, x ∈ (tableFields m a).map (·.name) := by
  apply chain_induction wf
  · intro c _ hp x hx
    refine ⟨c, by simp, ?_⟩
    simp only [tableFields, inheritedNames_root hp, List.mem_map, List.mem_filter] at hx ⊢
    obtain ⟨f, hf, rfl⟩ := hx
    exact ⟨f, ⟨hf, by simp⟩, rfl⟩
  · intro c hc p hp hpm ih x hx
    by_cases hin : x ∈ inheritedNames m c
    · rw [inheritedNames_cons hc (wf.chainsEnd c hc) hp, List.mem_append] at hin
      have hxp : x ∈ (wrappedFields m p).map (·.name) := by
        rcases hin with h | h
        · exact h
        · exact inherited_sub_wrapped wf p hpm x h
      obtain ⟨a, ha, hxa⟩ := ih x hxp
      refine ⟨a, ?_, hxa⟩
      rw [(ancestors_cons hc (wf.chainsEnd c hc) hp).1]
      exact List.mem_cons_of_mem _ ha
    · refine ⟨c, by simp, ?_⟩
      simp only [List.mem_map] at hx
      obtain ⟨f, hf, rfl⟩ := hx
      simp only [tableFields, List.mem_map, List.mem_filter]
      exact ⟨f, ⟨hf, by simpa using hin⟩, rfl⟩

theorem fieldMapped_genTable (m : ClassModel) (c : Class) (f : Field) (hf : f ∈ tableFields m c) :
    FieldMapped m c (genTable m c) f := by
  have mem : ∀ a, a ∈ parseField m c f → a ∈ (genTable m c).attrs := by
    intro a ha
    simp only [genTable, List.mem_flatMap]
    exact ⟨f, hf, ha⟩
  obtain ⟨n, k⟩ := f
  cases k with
  | scalar s o =>
    exact ⟨_, mem ⟨n, .builtinCol, o, o, optMods o ++ [.builtins]⟩ (by simp [parseField]), rfl, rfl, fun h => h⟩
  | enum o =>
    exact ⟨_, mem ⟨n, .builtinCol, o, o, optMods o ++ [.model]⟩ (by simp [parseField]), rfl, rfl, fun h => h⟩
  | datetime o =>
    exact ⟨_, mem ⟨n, .builtinCol, o, o, optMods o ++ [.datetime]⟩ (by simp [parseField]), rfl, rfl, fun h => h⟩
  | jsonList s =>
    exact ⟨_, mem ⟨n, .customCol, false, false, [.typing, .builtins]⟩ (by simp [parseField]), rfl, rfl⟩
  | ref t o =>
    intro hm
    exact ⟨⟨_, mem ⟨n, .rel (tableName t) false none, o, true, []⟩ (by simp [parseField, hm]), rfl, rfl⟩,
      ⟨_, mem ⟨fkName n, .fkCol (tableName t), o, true, if o then [.typing, .builtins] else []⟩
        (by simp [parseField, hm]), rfl, rfl, fun _ => rfl⟩⟩
  | coll t =>
    intro hm
    exact ⟨_, mem ⟨n, .rel (tableName t) true (some (assocName (tableName c.name) n)), false, false, [.typing]⟩
      (by simp [parseField, hm]), _, rfl, rfl, rfl⟩
  | custom o =>
    exact ⟨_, mem ⟨n, .customCol, o, o, optMods o ++ [.customTypes]⟩ (by simp [parseField]), rfl, rfl, fun h => h⟩

/-- **C06 (completeness)**: for every well-formed model the generated schema has one DAO per class mirroring the
first-base chain; every public dataclass field (own or inherited) is introduced by the class or one of its ancestors
and mapped on that class's DAO with the kind the property demands (column for scalar / Optional / enum / datetime /
JSON list, FK + one-relationship for a reference, association-table many-relationship for a collection); and every
attribute of a DAO stems from a public field — nothing for `_`-fields. Holds for every quirk setting. -/
theorem C06_complete (q : Quirks) (m : ClassModel) (wf : WF m) : Complete m (generate q m) := by
  refine ⟨?_, ?_, ?_, ?_⟩
  · simp [generate, genTable, List.map_map, Function.comp_def]
  · intro c hc f hf hpub
    have hx : f.name ∈ (wrappedFields m c).map (·.name) :=
      mem_wrapped_names.mpr ⟨List.mem_map.mpr ⟨f, hf, rfl⟩, hpub⟩
    obtain ⟨a, ha, hxa⟩ := covered_names wf c hc f.name hx
    obtain ⟨g, hg, hgn⟩ := List.mem_map.mp hxa
    exact ⟨a, ha, g, hg, hgn⟩
  · intro c hc t ht hcls f hf
    simp only [generate, List.mem_map] at ht
    obtain ⟨c', hc', rfl⟩ := ht
    have : c' = c := List.inj_on_of_nodup_map wf.namesDistinct hc' hc (by
      have : c'.name = c.name := hcls
      rw [this])
    subst this
    exact fieldMapped_genTable m c' f hf
  · intro t ht a ha
    simp only [generate, List.mem_map] at ht
    obtain ⟨c, hc, rfl⟩ := ht
    simp only [genTable, List.mem_flatMap] at ha
    obtain ⟨f, hf, ha⟩ := ha
    have hs := tableFields_sub hf
    exact ⟨c, hc, rfl, f, hs.1, hs.2.1, (parseField_inv ha).1⟩

/-! ## the model meets the specification -/

theorem filter_map_replace (P : Name → Bool) (f : Field) (hf : P f.name = false) :
    ∀ R : List Field, (R.map (fun g => if g.name == f.name then f else g)).filter (fun g => P g.name) =
      R.filter (fun g => P g.name)
  | [] => rfl
  | g :: R => by
    simp only [List.map_cons, List.filter_cons]
    rw [filter_map_replace P f hf R]
    by_cases e : g.name = f.name
    · simp [e, hf]
    · simp [e]

theorem filter_mergeFields_rev (P : Name → Bool) (inh : List Field) (hP : ∀ g ∈ inh, P g.name = false) :
    ∀ r : List Field, ((r.reverse).map (·.name)).Nodup →
      (mergeFields inh r.reverse).filter (fun f => P f.name) = r.reverse.filter (fun f => P f.name)
  | [], _ => by
    simp only [List.reverse_nil, mergeFields, List.foldl_nil, List.filter_nil, List.filter_eq_nil_iff]
    intro g hg
    simp [hP g hg]
  | f :: r, hn => by
    have hn' : (r.reverse.map (·.name)).Nodup ∧ f.name ∉ r.reverse.map (·.name) := by
      simp only [List.reverse_cons, List.map_append, List.map_cons, List.map_nil] at hn
      rw [List.nodup_append] at hn
      exact ⟨hn.1, fun h => hn.2.2 _ h f.name (by simp) rfl⟩
    have ih := filter_mergeFields_rev P inh hP r hn'.1
    have e : mergeFields inh (f :: r).reverse = mergeField (mergeFields inh r.reverse) f := by
      simp [mergeFields, List.foldl_append]
    rw [e]
    unfold mergeField
    by_cases hany : (mergeFields inh r.reverse).any (fun g => g.name == f.name) = true
    · have hmem : f.name ∈ (mergeFields inh r.reverse).map (·.name) := by
        obtain ⟨g, hg, he⟩ := List.any_eq_true.mp hany
        exact List.mem_map.mpr ⟨g, hg, by simpa using he⟩
      rw [mergeFields_names] at hmem
      have hinh : f.name ∈ inh.map (·.name) := by
        rcases hmem with h | h
        · exact h
        · exact absurd h hn'.2
      obtain ⟨g, hg, hge⟩ := List.mem_map.mp hinh
      have hPf : P f.name = false := by rw [← hge]; exact hP g hg
      rw [if_pos hany, filter_map_replace P f hPf, ih]
      simp [List.filter_append, hPf]
    · rw [if_neg hany, List.filter_append, ih]
      simp [List.filter_append]

theorem filter_mergeFields (P : Name → Bool) (inh own : List Field) (hP : ∀ g ∈ inh, P g.name = false)
    (hn : (own.map (·.name)).Nodup) :
    (mergeFields inh own).filter (fun f => P f.name) = own.filter (fun f => P f.name) := by
  have := filter_mergeFields_rev P inh hP own.reverse (by simpa using hn)
  simpa using this


/-- **Inherited-field elimination, closed form**: the fields a table maps are the public fields declared in the class
body whose name no ancestor has. -/
theorem tableFields_eq_own {m : ClassModel} (wf : WF m) {c : Class} (hc : c ∈ m) :
    tableFields m c =
      c.fields.filter (fun f => !isPrivate f.name && !(inheritedNames m c).contains f.name) := by
  have e : tableFields m c = (dcFields m c).filter
      (fun f => (fun x => !isPrivate x && !(inheritedNames m c).contains x) f.name) := by
    simp only [tableFields, wrappedFields, List.filter_filter]
    apply List.filter_congr
    intro f _
    exact Bool.and_comm _ _
  rw [e]
  cases hp : parentOf m c with
  | none =>
    rw [dcFields_root hp]
    exact filter_mergeFields (fun x => !isPrivate x && !(inheritedNames m c).contains x) [] c.fields (by simp)
      (wf.ownFieldsDistinct c hc)
  | some p =>
    rw [dcFields_cons hc (wf.chainsEnd c hc) hp]
    refine filter_mergeFields (fun x => !isPrivate x && !(inheritedNames m c).contains x) _ c.fields ?_
      (wf.ownFieldsDistinct c hc)
    intro g hg
    by_cases hpriv : isPrivate g.name = true
    · simp [hpriv]
    · have : g.name ∈ inheritedNames m c := by
        rw [inheritedNames_cons hc (wf.chainsEnd c hc) hp, List.mem_append]
        left
        simp only [wrappedFields, List.mem_map, List.mem_filter]
        exact ⟨g, ⟨hg, by simpa using hpriv⟩, rfl⟩
      simp [this]


theorem ancestorDeclared_eq (m : ClassModel) : ∀ (n : Nat) (c : Class),
    Spec.ancestorDeclared m n c.base = (anc m n c).flatMap (fun a => a.fields.map (·.name))
  | 0, c => by simp [Spec.ancestorDeclared, anc]
  | n + 1, c => by
    cases hb : c.base with
    | none => simp [Spec.ancestorDeclared, anc, parentOf, hb]
    | some b =>
      cases hl : lookup m b with
      | none => simp [Spec.ancestorDeclared, anc, parentOf, hb, hl]
      | some p =>
        simp [Spec.ancestorDeclared, anc, parentOf, hb, hl, ancestorDeclared_eq m n p]

theorem ancestors_trans {m : ClassModel} (wf : WF m) :
    ∀ c ∈ m, ∀ a ∈ ancestors m c, ∀ k ∈ ancestors m a, k ∈ ancestors m c := by
  apply chain_induction wf
  · intro c _ hp a ha
    rw [ancestors_nil hp] at ha
    simp at ha
  · intro c hc p hp _ ih a ha k hk
    rw [(ancestors_cons hc (wf.chainsEnd c hc) hp).1] at ha ⊢
    rcases List.mem_cons.mp ha with rfl | ha
    · exact List.mem_cons_of_mem _ hk
    · exact List.mem_cons_of_mem _ (ih a ha k hk)

theorem declared_in_dcFields {m : ClassModel} (wf : WF m) {k : Class} (hk : k ∈ m) {g : Field} (hg : g ∈ k.fields) :
    g.name ∈ (dcFields m k).map (·.name) := by
  cases hp : parentOf m k with
  | none =>
    rw [dcFields_root hp, mergeFields_names]
    exact .inr (List.mem_map.mpr ⟨g, hg, rfl⟩)
  | some p =>
    rw [dcFields_cons hk (wf.chainsEnd k hk) hp, mergeFields_names]
    exact .inr (List.mem_map.mpr ⟨g, hg, rfl⟩)

/-- a public name is inherited (in ORMatic's sense) iff some ancestor declares it -/
theorem inherited_iff_declared {m : ClassModel} (wf : WF m) {c : Class} (hc : c ∈ m) (x : Name)
    (hpub : isPrivate x = false) :
    x ∈ inheritedNames m c ↔ x ∈ Spec.ancestorDeclared m m.length c.base := by
  rw [ancestorDeclared_eq]
  change _ ↔ x ∈ (ancestors m c).flatMap _
  simp only [inheritedNames, List.mem_flatMap, List.mem_map]
  constructor
  · rintro ⟨a, ha, g, hg, rfl⟩
    simp only [wrappedFields, List.mem_filter] at hg
    obtain ⟨k, hk, hgk⟩ := dcFields_declared hg.1
    refine ⟨k, ?_, g, hgk, rfl⟩
    rcases hk with rfl | hk
    · exact ha
    · exact ancestors_trans wf c hc a ha k hk
  · rintro ⟨k, hk, g, hg, rfl⟩
    refine ⟨k, hk, ?_⟩
    have := declared_in_dcFields wf (ancestors_mem hk) hg
    obtain ⟨g', hg', e⟩ := List.mem_map.mp this
    refine ⟨g', ?_, e⟩
    simp only [wrappedFields, List.mem_filter]
    exact ⟨hg', by simp [e, hpub]⟩

/-- **The model's field elimination computes exactly the specification's "fields a class introduces".** -/
theorem tableFields_eq_introduced {m : ClassModel} (wf : WF m) {c : Class} (hc : c ∈ m) :
    tableFields m c = Spec.introduced m c := by
  rw [tableFields_eq_own wf hc]
  unfold Spec.introduced
  apply List.filter_congr
  intro f _
  cases hpriv : isPrivate f.name with
  | true => simp
  | false =>
    have := inherited_iff_declared wf hc f.name hpriv
    simp only [Bool.not_false, Bool.true_and]
    congr 1
    rw [Bool.eq_iff_iff]
    simpa using this


/-! ### the model's observation is the specification's -/

theorem dao_eq_tableName (n : Name) : Spec.dao n = tableName n := rfl

theorem parent_base (m : ClassModel) (c : Class) :
    (parentOf m c).map (fun p => tableName p.name) =
      c.base.bind (fun b => if mapped m b = true then some (Spec.dao b) else none) := by
  unfold parentOf mapped
  cases c.base with
  | none => rfl
  | some b =>
    cases hl : lookup m b with
    | none => simp [hl]
    | some p => simp [hl, (lookup_some hl).2, dao_eq_tableName]

theorem parent_isNone {m : ClassModel} (wf : WF m) {c : Class} (hc : c ∈ m) :
    (parentOf m c).isNone = c.base.isNone := by
  cases hb : c.base with
  | none => simp [parentOf, hb]
  | some b =>
    have := wf.basesMapped c hc b hb
    unfold mapped at this
    simp only [parentOf, hb, Option.bind_some]
    cases hl : lookup m b with
    | none => simp [hl] at this
    | some p => simp

theorem hasChildren_eq {m : ClassModel} (wf : WF m) (c : Class) :
    hasChildren m c = m.any (fun d => d.base == some c.name) := by
  unfold hasChildren
  rw [Bool.eq_iff_iff]
  simp only [List.any_eq_true]
  have key : ∀ d ∈ m, ∀ b, d.base = some b → ∃ p, parentOf m d = some p ∧ p.name = b := by
    intro d hd b hb
    have := wf.basesMapped d hd b hb
    unfold mapped at this
    simp only [parentOf, hb, Option.bind_some]
    cases hl : lookup m b with
    | none => simp [hl] at this
    | some p => exact ⟨p, rfl, (lookup_some hl).2⟩
  constructor
  · rintro ⟨d, hd, h⟩
    refine ⟨d, hd, ?_⟩
    cases hb : d.base with
    | none => simp [parentOf, hb] at h
    | some b =>
      obtain ⟨p, hp, hpn⟩ := key d hd b hb
      rw [hp] at h
      simp only [beq_iff_eq] at h
      simp [← hpn, h]
  · rintro ⟨d, hd, h⟩
    refine ⟨d, hd, ?_⟩
    simp only [beq_iff_eq] at h
    obtain ⟨p, hp, hpn⟩ := key d hd c.name h
    rw [hp]
    simp [hpn]

theorem cols_of_field (m : ClassModel) (c : Class) (f : Field) :
    ((parseField m c f).filter Attr.isColumn).map
        (fun a => (a.name, if a.optional then some a.nullable else none, a.colTy)) =
      (match f.kind with
        | .ref t o => if mapped m t then [(f.name ++ ['_', 'i', 'd'], if o then some true else none, .key)] else []
        | .coll _ => []
        | k => [(f.name, if Spec.optOf k then some true else none, Spec.tyOf k)]) := by
  obtain ⟨n, k⟩ := f
  cases k with
  | scalar s o => cases o <;> rfl
  | enum o => cases o <;> rfl
  | datetime o => cases o <;> rfl
  | jsonList s => rfl
  | ref t o =>
    by_cases hm : mapped m t = true
    · simp only [parseField, hm, if_true]
      cases o <;> rfl
    · simp only [parseField, hm]
      rfl
  | coll t =>
    by_cases hm : mapped m t = true
    · simp only [parseField, hm, if_true]
      rfl
    · simp only [parseField, hm]
      rfl
  | custom o => cases o <;> rfl

theorem rels_of_field (m : ClassModel) (c : Class) (f : Field) :
    (parseField m c f).filterMap (fun a => match a.kind with
        | .rel tg many sec => some (tableName c.name, a.name, tg, many, sec)
        | _ => none) =
      (match f.kind with
        | .ref t _ => if mapped m t then [(Spec.dao c.name, f.name, Spec.dao t, false, none)] else []
        | .coll t => if mapped m t then
            [(Spec.dao c.name, f.name, Spec.dao t, true,
              some (lower (Spec.dao c.name) ++ ['_'] ++ f.name ++ assocSuffix))] else []
        | _ => []) := by
  obtain ⟨n, k⟩ := f
  cases k with
  | ref t o => by_cases hm : mapped m t = true <;> simp [parseField, hm, dao_eq_tableName]
  | coll t => by_cases hm : mapped m t = true <;> simp [parseField, hm, dao_eq_tableName, assocName]
  | _ => simp [parseField]

theorem fks_of_field (m : ClassModel) (c : Class) (f : Field) :
    (parseField m c f).filterMap (fun a => match a.kind with
        | .fkCol tg => some (tableName c.name, a.name, tg)
        | _ => none) =
      (match f.kind with
        | .ref t _ => if mapped m t then [(Spec.dao c.name, f.name ++ ['_', 'i', 'd'], Spec.dao t)] else []
        | _ => []) := by
  obtain ⟨n, k⟩ := f
  cases k with
  | ref t o => by_cases hm : mapped m t = true <;> simp [parseField, hm, dao_eq_tableName, fkName, idSuffix]
  | coll t => by_cases hm : mapped m t = true <;> simp [parseField, hm]
  | _ => simp [parseField]

theorem assocs_of_field (q : Quirks) (m : ClassModel) (c : Class) (f : Field) :
    (assocOf q m c f).map (fun a => (a.name, a.leftTable, a.rightTable)) =
      (match f.kind with
        | .coll t => if mapped m t then
            [(lower (Spec.dao c.name) ++ ['_'] ++ f.name ++ assocSuffix, Spec.dao c.name, Spec.dao t)] else []
        | _ => []) := by
  obtain ⟨n, k⟩ := f
  cases k with
  | coll t => by_cases hm : mapped m t = true <;> simp [assocOf, hm, dao_eq_tableName, assocName]
  | _ => simp [assocOf]


theorem filterMap_sublist_map {α β : Type} (f : α → Option β) (g : α → β) :
    ∀ l : List α, (∀ t ∈ l, f t = none ∨ f t = some (g t)) → (l.filterMap f).Sublist (l.map g)
  | [], _ => by simp
  | a :: l, h => by
    have ih := filterMap_sublist_map f g l (fun t ht => h t (List.mem_cons_of_mem _ ht))
    rcases h a (by simp) with e | e
    · simp only [List.filterMap_cons, e, List.map_cons]
      exact ih.cons _
    · simp only [List.filterMap_cons, e, List.map_cons]
      exact ih.cons_cons _

theorem schema_hasChild (q : Quirks) (m : ClassModel) (c : Class) :
    (generate q m).tables.any (fun u => u.base == some (genTable m c).name) = hasChildren m c := by
  simp only [generate, List.any_map, hasChildren]
  congr 1
  funext d
  simp only [Function.comp, genTable]
  cases parentOf m d with
  | none => simp
  | some p =>
    by_cases e : p.name = c.name
    · simp [e]
    · have : ¬ tableName p.name = tableName c.name := fun h => e (tableName_injective h)
      simp [e, this]

theorem polyOk_generate (q : Quirks) (m : ClassModel) (wf : WF m) : polyOk (generate q m) = true := by
  unfold polyOk
  simp only [Bool.and_eq_true, List.all_eq_true, decide_eq_true_eq]
  constructor
  · intro t ht
    simp only [generate, List.mem_map] at ht
    obtain ⟨c, _, rfl⟩ := ht
    simp only [schema_hasChild]
    simp only [genTable, Option.isSome_map, Option.isNone_map]
    cases (parentOf m c).isSome <;> cases h : hasChildren m c <;> simp [Option.isNone_iff_eq_none] <;>
      cases hp : parentOf m c <;> simp_all
  · have hn : ((generate q m).tables.map (·.name)).Nodup := by
      have := tableNames_nodup (q := q) wf
      have e : (generate q m).tables.map (fun t => lower t.name) =
          ((generate q m).tables.map (·.name)).map lower := by simp [List.map_map, Function.comp_def]
      rw [e] at this
      exact List.Nodup.of_map _ this
    refine List.Nodup.sublist (filterMap_sublist_map _ (·.name) _ ?_) hn
    intro t ht
    simp only [generate, List.mem_map] at ht
    obtain ⟨c, _, rfl⟩ := ht
    simp only [genTable]
    split <;> simp

/-- **C06 (the model meets the specification).** For every well-formed model — whatever the quirk setting — the
schema facts observed of the model's output (DAOs with base chain and column sets incl. the nullability of Optional
fields, association tables and what they link, relationships, foreign keys, polymorphic set-up) are exactly those the
specification `Spec.expected` reads directly off the dataclasses. Together with `C06_valid_partial` / `C06_full`
("imports, configures, creates" as far as names decide it) this is `model= equals spec=` of the correspondence, for
all inputs. -/
theorem C06_model_meets_spec (q : Quirks) (m : ClassModel) (wf : WF m) :
    observe (generate q m) = Spec.expected m := by
  unfold observe Spec.expected
  simp only [Obs.mk.injEq]
  refine ⟨?_, ?_, ?_, ?_, polyOk_generate q m wf⟩
  · -- DAO classes
    simp only [generate, List.map_map]
    apply List.map_congr_left
    intro c hc
    simp only [Function.comp, ObsTable.mk.injEq]
    refine ⟨rfl, rfl, parent_base m c, ?_⟩
    simp only [genTable, List.filter_flatMap, List.map_flatMap, tableFields_eq_introduced wf hc,
      parent_isNone wf hc, hasChildren_eq wf c, cols_of_field]
    refine congrArg _ ?_
    apply List.flatMap_congr
    intro f _
    obtain ⟨n, k⟩ := f
    cases k <;> rfl
  · -- association tables
    simp only [generate, List.map_flatMap]
    apply List.flatMap_congr
    intro c hc
    simp only [tableFields_eq_introduced wf hc]
    apply List.flatMap_congr
    intro f _
    exact assocs_of_field q m c f
  · -- relationships
    simp only [generate, List.flatMap_map, genTable, List.filterMap_flatMap]
    apply List.flatMap_congr
    intro c hc
    simp only [tableFields_eq_introduced wf hc]
    apply List.flatMap_congr
    intro f _
    exact rels_of_field m c f
  · -- foreign keys
    simp only [generate, List.flatMap_map, genTable, List.filterMap_flatMap]
    apply List.flatMap_congr
    intro c hc
    simp only [tableFields_eq_introduced wf hc, ← parent_base]
    refine congr (congrArg _ ?_) ?_
    · cases parentOf m c <;> rfl
    · apply List.flatMap_congr
      intro f _
      exact fks_of_field m c f

/-! ## determinism: the result depends on the set of classes only -/

theorem lookup_perm {m m' : ClassModel} (hn : (m.map (·.name)).Nodup) (hp : m.Perm m') (n : Name) :
    lookup m n = lookup m' n := by
  have uniq : ∀ c ∈ m, ∀ d ∈ m, c.name = d.name → c = d := fun c hc d hd e =>
    List.inj_on_of_nodup_map hn hc hd e
  cases h : lookup m n with
  | none =>
    cases h' : lookup m' n with
    | none => rfl
    | some d =>
      have hd := lookup_some h'
      have : d ∈ m := hp.symm.subset hd.1
      unfold lookup at h
      rw [List.find?_eq_none] at h
      exact absurd (h d this) (by simp [hd.2])
  | some c =>
    have hc := lookup_some h
    cases h' : lookup m' n with
    | none =>
      unfold lookup at h'
      rw [List.find?_eq_none] at h'
      exact absurd (h' c (hp.subset hc.1)) (by simp [hc.2])
    | some d =>
      have hd := lookup_some h'
      rw [uniq c hc.1 d (hp.symm.subset hd.1) (by rw [hc.2, hd.2])]

/-- everything the generator reads off the model for one class is the same for a permuted class list -/
theorem genTable_perm {m m' : ClassModel} (hn : (m.map (·.name)).Nodup) (hp : m.Perm m') :
    genTable m = genTable m' ∧ tableFields m = tableFields m' ∧ mapped m = mapped m' := by
  have hlk : lookup m = lookup m' := funext (lookup_perm hn hp)
  have hmp : mapped m = mapped m' := by funext n; simp [mapped, hlk]
  have hpar : parentOf m = parentOf m' := by funext c; simp [parentOf, hlk]
  have hanc : anc m = anc m' := by
    funext n c
    induction n generalizing c with
    | zero => rfl
    | succ n ih => simp only [anc, hpar]; split <;> simp [ih]
  have hancs : ancestors m = ancestors m' := by funext c; simp [ancestors, hanc, hp.length_eq]
  have hdc : dcFields m = dcFields m' := by funext c; simp [dcFields, hancs]
  have hw : wrappedFields m = wrappedFields m' := by funext c; simp [wrappedFields, hdc]
  have hin : inheritedNames m = inheritedNames m' := by funext c; simp [inheritedNames, hancs, hw]
  have htf : tableFields m = tableFields m' := by funext c; simp [tableFields, hw, hin]
  have hpf : parseField m = parseField m' := by
    funext c f
    obtain ⟨n, k⟩ := f
    cases k <;> simp [parseField, hmp]
  have hch : hasChildren m = hasChildren m' := by
    funext c
    simp only [hasChildren, hpar]
    exact hp.any_eq
  refine ⟨?_, htf, hmp⟩
  funext c
  simp [genTable, hpar, hch, htf, hpf]

/-- **C06 (determinism)**: `generate` is a function of the *set* of classes — permuting the class list handed to
`ClassDiagram` permutes the generated DAO classes and association tables and changes nothing else. (That the function
is a function at all — no hidden state, no hash-order dependence — is what the correspondence's byte-comparison under
two `PYTHONHASHSEED`s checks on the real code.) -/
theorem C06_perm_invariant (q : Quirks) (m m' : ClassModel) (hn : (m.map (·.name)).Nodup) (hp : m.Perm m') :
    (generate q m).tables.Perm (generate q m').tables ∧
    (generate q m).assocs.Perm (generate q m').assocs ∧
    (generate q m).imports.Perm (generate q m').imports ∧
    (generate q m).crashed = (generate q m').crashed := by
  obtain ⟨hg, htf, hmp⟩ := genTable_perm hn hp
  have hao : assocOf q m = assocOf q m' := by
    funext c f
    obtain ⟨n, k⟩ := f
    cases k <;> simp [assocOf, hmp]
  have hfc : fieldCrashes m = fieldCrashes m' := by
    funext f
    obtain ⟨n, k⟩ := f
    cases k <;> simp [fieldCrashes, hmp]
  have hemp : m.isEmpty = m'.isEmpty := by
    have := hp.length_eq
    cases m <;> cases m' <;> simp_all
  refine ⟨?_, ?_, ?_, ?_⟩
  · simp only [generate, hg]
    exact hp.map _
  · simp only [generate, htf, hao]
    exact hp.flatMap_right _
  · simp only [generate, imports, htf, hemp]
    exact (List.Perm.append_left _ (hp.flatMap_right _)).append_right _
  · simp only [generate, htf, hfc]
    exact hp.any_eq

/-! ## the property theorems -/

/-- **C06 (validity, the code as it is today).** For every model that follows the modelling rules and the naming
hygiene `WF`, that has no collection of a class's own type (trigger of F-C06-1) and at least one builtin-typed column
(otherwise F-C06-2), the schema ORMatic derives is valid: distinct table / column names, existing targets, every module
named in an annotation imported. Unbounded in the number of classes and fields.

Full statement (false today, see `C06_cex_self_list`, `C06_cex_no_builtin`; true of the repaired generator, `C06_full`):
`theorem C06_valid : WF m → Valid (generate Quirks.today m)`. -/
theorem C06_valid_partial (m : ClassModel) (wf : WF m) (h1 : noSelfCollection m) (h2 : hasBuiltinField m = true) :
    Valid (generate Quirks.today m) :=
  valid_of Quirks.today m wf (fun _ => h1) (fun _ => h2)

/-- **C06 (validity, repaired generator)**: with distinct left/right column names and `builtins` always imported the
schema is valid for every well-formed model. -/
theorem C06_full (m : ClassModel) (wf : WF m) : Valid (generate Quirks.none m) :=
  valid_of Quirks.none m wf (fun h => by simp [Quirks.none] at h) (fun h => by simp [Quirks.none] at h)

/-- `Tree.children: List[Tree]` (plus an `int` field) -/
def treeModel : ClassModel :=
  [⟨['T', 'r', 'e', 'e'], none,
    [⟨['v'], .scalar .int false⟩, ⟨['c', 'h', 'i', 'l', 'd', 'r', 'e', 'n'], .coll ['T', 'r', 'e', 'e']⟩]⟩]

/-- `Holder.leaf: Optional[Leaf]`, `Leaf` without fields -/
def holderModel : ClassModel :=
  [⟨['L', 'e', 'a', 'f'], none, []⟩,
   ⟨['H', 'o', 'l', 'd', 'e', 'r'], none, [⟨['l', 'e', 'a', 'f'], .ref ['L', 'e', 'a', 'f'] true⟩]⟩]

/-- **Counter-example (F-C06-1)**, a test on one concrete model: a well-formed model with a collection of its own class
makes today's generator produce an association table with two identically named columns. -/
theorem C06_cex_self_list :
    WF treeModel ∧ selfCollection treeModel = true ∧ hasBuiltinField treeModel = true ∧
    ¬ Valid (generate Quirks.today treeModel) ∧ Valid (generate Quirks.none treeModel) := by
  decide

/-- **Counter-example (F-C06-2)**, a test on one concrete model: a well-formed model without any builtin-typed column
makes today's generator name `builtins` in the primary key annotation without importing it. -/
theorem C06_cex_no_builtin :
    WF holderModel ∧ noSelfCollection holderModel ∧ noBuiltinField holderModel = true ∧
    ¬ Valid (generate Quirks.today holderModel) ∧ Valid (generate Quirks.none holderModel) := by
  decide


/-! ## non-vacuity -/

/-- `Owner(Part)` with a reference, an Optional self reference, two collections of one target, an enum, a datetime, a
JSON list and a private field; `Wheel(Part)`; `Part` the root of the hierarchy -/
def sampleModel : ClassModel :=
  [⟨['P', 'a', 'r', 't'], none, [⟨['m', 'a', 's', 's'], .scalar .float false⟩, ⟨['t', 'a', 'g'], .scalar .str true⟩,
      ⟨['_', 'c'], .scalar .int false⟩]⟩,
   ⟨['W', 'h', 'e', 'e', 'l'], some ['P', 'a', 'r', 't'], [⟨['k', 'i', 'n', 'd'], .enum false⟩,
      ⟨['m', 'a', 's', 's'], .scalar .float false⟩]⟩,
   ⟨['O', 'w', 'n', 'e', 'r'], some ['P', 'a', 'r', 't'],
     [⟨['m', 'a', 'i', 'n'], .ref ['W', 'h', 'e', 'e', 'l'] false⟩, ⟨['p', 'r', 'e', 'v'], .ref ['O', 'w', 'n', 'e', 'r'] true⟩,
      ⟨['l', 'e', 'f', 't'], .coll ['W', 'h', 'e', 'e', 'l']⟩, ⟨['r', 'i', 'g', 'h', 't'], .coll ['W', 'h', 'e', 'e', 'l']⟩,
      ⟨['w', 'h', 'e', 'n'], .datetime true⟩, ⟨['l', 'o', 'g'], .jsonList .int⟩]⟩]

/-- the hypotheses of `C06_valid_partial` / `C06_complete` are satisfiable by a model using the whole grammar -/
example : WF sampleModel ∧ noSelfCollection sampleModel ∧ hasBuiltinField sampleModel = true := by decide

/-- … and the conclusion is not trivially true: the same model with a self collection is rejected (test) -/
example : ¬ Valid (generate Quirks.today treeModel) := C06_cex_self_list.2.2.2.1

/-- the hypotheses of `C06_perm_invariant` are satisfiable with a non-trivial permutation -/
example : (sampleModel.map (·.name)).Nodup ∧ sampleModel.Perm sampleModel.reverse ∧
    sampleModel ≠ sampleModel.reverse :=
  ⟨by decide, (List.reverse_perm _).symm, by decide⟩

/-- the `dao_` hygiene of `C06_names_injective` is necessary: class `A` with field `xdao_y` and class `Adao_x` with
field `y` get the same association table name (test) -/
example : assocName (tableName ['A']) ['x', 'd', 'a', 'o', '_', 'y'] =
    assocName (tableName ['A', 'd', 'a', 'o', '_', 'x']) ['y'] := by decide

/-- the `*_id` hygiene of `WF` is necessary: a reference `x` next to a scalar `x_id` gives two attributes `x_id` (test) -/
example : ¬ Valid (generate Quirks.none
    [⟨['A'], none, [⟨['x'], .ref ['A'] false⟩, ⟨['x', '_', 'i', 'd'], .scalar .int false⟩]⟩]) := by decide


/-- long names that agree in their first 51 characters still give different association tables (test) -/
example : assocName (tableName "EnvironmentalMonitoringStation".toList) "temperature_sensors_indoor".toList ≠
    assocName (tableName "EnvironmentalMonitoringStation".toList) "temperature_sensors_outdoor".toList := by decide

end KrroodVerif.OrmGen
