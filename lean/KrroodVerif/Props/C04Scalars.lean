import KrroodVerif.Model.Dao
/-!
# C04 / C05 — scalar columns: the conversion table as a parameter

`C04_scalars_preserved`: for ANY conversion table that is lossless on the values admissible for each column kind, the
scalars of every object (any number of columns) come back unchanged. Instances: `tableMem` (today's in-memory copy of
C04: lossless on everything, `C04_scalars_mem`), `tableSql` (today's column types under persistence: enumerations by
member name, classes by qualified name, `is None` guards: lossless on admissible values, `C04_scalars_sql`). The traps
are refuted on concrete values: a truthiness guard loses every falsy value (`guarded_truthy_loses_falsy`,
`C04_cex_truthy`), storing enumerations by value merges aliases (`C04_cex_enum_alias`).
The correspondence exercises the instances: the driver pushes the scalars of every generated object through
`tableMem` (`scalarsKept`), the generator produces `None`, falsy and truthy values in every scalar column kind, and
the real code must return them unchanged.
-/
namespace KrroodVerif.Dao

/-- **C04_scalars_preserved.** The conversion table is a parameter: if every column conversion returns every
admissible value of its kind, every record of admissible scalars is returned unchanged. -/
theorem C04_scalars_preserved (T : Table) (adm : ColKind → SVal → Prop)
    (hl : ∀ k v, adm k v → (T k).roundTrip v = v) (cols : List (ColKind × SVal))
    (hadm : ∀ p ∈ cols, adm p.1 p.2) : convRecord T cols = cols := by
  unfold convRecord
  induction cols with
  | nil => rfl
  | cons p cols ih =>
    simp only [List.map_cons]
    rw [ih (fun q hq => hadm q (List.mem_cons_of_mem _ hq)), hl p.1 p.2 (hadm p List.mem_cons_self)]

/-! ## `is None` guards against truthiness guards -/

/-- **guarded_isNone_lossless.** A conversion pair guarded by `is None` on both sides is lossless as soon as the pair
is lossless on the values that are not `None`: `None` stays `None`, and a FALSY value (0, 0.0, "", False, an `IntEnum`
member with value 0, []) is converted like any other. -/
theorem guarded_isNone_lossless (f g : SVal → SVal) (hfg : ∀ v, v ≠ .none → g (f v) = v)
    (hf : ∀ v, v ≠ .none → f v ≠ .none) (v : SVal) : guarded .isNone g (guarded .isNone f v) = v := by
  by_cases hv : v = .none
  · subst hv; simp [guarded]
  · simp [guarded, hv, hf v hv, hfg v hv]

/-- **guarded_truthy_loses_falsy.** With a truthiness guard on the writing side every falsy value other than `None`
is stored as `None`, whatever the conversion — and comes back as `None` from every reader that keeps `None`. -/
theorem guarded_truthy_loses_falsy (f g : SVal → SVal) (hg : g .none = .none) (v : SVal) (hv : v.truthy = false)
    (hn : v ≠ .none) : g (guarded .truthy f v) ≠ v := by
  simp only [guarded, hv, Bool.false_eq_true, if_false, hg]
  exact fun e => hn e.symm

/-- the falsy values of every scalar column kind -/
def falsyValues : List SVal :=
  [.int 0, .float "0.0", .float "-0.0", .str "", .bool false, .enum "AuxMode" "OFF" 0 true, .strs []]

/-- **C04_cex_truthy.** (tests on concrete values) The in-memory copy "only when there is a value" turns each falsy
value into `None`, while today's table returns each of them; truthy values and `None` pass both. -/
theorem C04_cex_truthy :
    (∀ v ∈ falsyValues, ((tableMemTruthy .plain).roundTrip v = .none ∧ (tableMem .plain).roundTrip v = v)) ∧
    (∀ v ∈ [SVal.none, .int 7, .str "a", .bool true, .enum "AuxMode" "ON" 1 true, .enum "Element" "C" 1 false],
      (tableMemTruthy .plain).roundTrip v = v) := by decide

/-! ## Today's tables are lossless -/

theorem tableMem_lossless (k : ColKind) (v : SVal) : (tableMem k).roundTrip v = v := rfl

/-- **C04_scalars_mem.** Today's `to_dao` / `from_dao` return the scalars of every object unchanged — no admissibility
condition: nothing is tested, nothing is converted. -/
theorem C04_scalars_mem (cols : List (ColKind × SVal)) : convRecord tableMem cols = cols :=
  C04_scalars_preserved tableMem (fun _ _ => True) (fun k v _ => tableMem_lossless k v) cols (fun _ _ => trivial)

/-- what the driver checks for every generated object holds for every scalar text -/
theorem scalarsKept_mem (E : EnumEnv) (text : String) : scalarsKept tableMem E text = true := by
  unfold scalarsKept
  simp [C04_scalars_mem]

theorem tableSql_lossless (E : EnumEnv) (resolves : String → String → Bool) (k : ColKind) (v : SVal)
    (ha : Admissible E resolves k v) : (tableSql E resolves k).roundTrip v = v := by
  cases k with
  | plain => rfl
  | enumOf cls =>
    rcases ha with rfl | ⟨n, x, rfl, hlk⟩
    · simp [tableSql, ColConv.roundTrip, guarded]
    · simp [tableSql, ColConv.roundTrip, guarded, enumToName, enumFromName, hlk]
  | typeCol =>
    obtain ⟨m, c, rfl, hr⟩ := ha
    simp [tableSql, ColConv.roundTrip, guarded, typeToQual, typeFromQual, hr]

/-- **C04_scalars_sql.** The column types of the generated ORM layer (enumerations by member name, classes by
qualified name, `is None` guards) return every record of admissible scalars unchanged: `None` in an Optional
enumeration column stays `None`, the `IntEnum` member with value 0 stays that member. -/
theorem C04_scalars_sql (E : EnumEnv) (resolves : String → String → Bool) (cols : List (ColKind × SVal))
    (hadm : ∀ p ∈ cols, Admissible E resolves p.1 p.2) : convRecord (tableSql E resolves) cols = cols :=
  C04_scalars_preserved _ (Admissible E resolves) (tableSql_lossless E resolves) cols hadm

/-- an enumeration with an alias: `B` is another name of `A` -/
def aliasEnums : EnumEnv := { members := fun _ => [("A", 1), ("B", 1), ("Z", 0)], isInt := fun _ => true }

/-- **C04_cex_enum_alias.** (tests) By name every member comes back, the falsy `Z` included; by value the alias `B`
comes back as `A`; with truthiness guards `Z` comes back as `None`. -/
theorem C04_cex_enum_alias :
    (∀ v ∈ [SVal.enum "M" "A" 1 true, .enum "M" "B" 1 true, .enum "M" "Z" 0 true, .none],
      (tableSql aliasEnums (fun _ _ => true) (.enumOf "M")).roundTrip v = v) ∧
    (tableSqlByValue aliasEnums (fun _ _ => true) (.enumOf "M")).roundTrip (.enum "M" "B" 1 true)
      = .enum "M" "A" 1 true ∧
    (tableSqlTruthy aliasEnums (fun _ _ => true) (.enumOf "M")).roundTrip (.enum "M" "Z" 0 true) = .none := by decide

/-! Non-vacuity: the admissibility hypotheses are met by records with `None`, falsy and truthy values. -/
example : ∀ p ∈ [(ColKind.plain, SVal.int 0), (.plain, .none), (.plain, .str ""), (.enumOf "AuxMode", .none),
      (.enumOf "AuxMode", .enum "AuxMode" "OFF" 0 true), (.enumOf "Element", .enum "Element" "H" 2 false),
      (.typeCol, .type "m" "AuxFrame")],
    Admissible driverEnums (fun _ _ => true) p.1 p.2 := by
  intro p hp
  simp only [List.mem_cons, List.not_mem_nil, or_false] at hp
  rcases hp with rfl | rfl | rfl | rfl | rfl | rfl | rfl
  · exact ⟨by intros; simp, by intros; simp⟩
  · exact ⟨by intros; simp, by intros; simp⟩
  · exact ⟨by intros; simp, by intros; simp⟩
  · exact Or.inl rfl
  · exact Or.inr ⟨"OFF", 0, by decide, by decide⟩
  · exact Or.inr ⟨"H", 2, by decide, by decide⟩
  · exact ⟨"m", "AuxFrame", rfl, rfl⟩

end KrroodVerif.Dao
