import KrroodVerif.Lemmas.EqlTraceNLemmas
import KrroodVerif.Props.C10Q
/-!
# C10N — laziness with quantifiers in arbitrary position

`Model/EqlTraceN.lean` extends the demand-driven trace model to `exists_` / `forAll` anywhere below `and` / `elseIf` /
`union` / `not` and below each other (`traceN`, `streamN`, `traceQueryN`). This file relates it to the list model
`Eql.eval` / `Eql.evalQuery` and to the quantifier-free trace `traceE` (both frozen) and states what it says about
laziness. Helper lemmas: `Lemmas/EqlTraceNLemmas.lean`.

All theorems are unbounded in the world, the domains, the expression (any nesting of quantifiers), the selection, the
continuation and `k`.
-/
namespace KrroodVerif.Eql

/-! ## 0. `traceN` is `traceE` with the quantifier clauses filled in -/

/-- **C10N_extends.** On quantifier-free expressions the new trace IS the old one (same events, same order, for every
continuation): the theorems of `Props/C10.lean` are theorems about `traceN` there. -/
theorem C10N_extends (w : World) (e : Expr) (hq : e.QF = true) (env : Env) (k : Env → Bool → List Ev) :
    traceN w e env k = traceE w e env k := by
  induction e generalizing env k with
  | cmp op l r => rfl
  | contains c i => rfl
  | truth t => rfl
  | hasType t c => rfl
  | and l r ihl ihr =>
    simp only [Expr.QF, Bool.and_eq_true] at hq
    simp only [traceN, traceE, ihl hq.1, ihr hq.2]
  | elseIf l r ihl ihr =>
    simp only [Expr.QF, Bool.and_eq_true] at hq
    simp only [traceN, traceE, ihl hq.1, ihr hq.2]
  | union l r ihl ihr =>
    simp only [Expr.QF, Bool.and_eq_true] at hq
    simp only [traceN, traceE, ihl hq.1, ihr hq.2]
  | not e ih =>
    simp only [Expr.QF] at hq
    simp only [traceN, traceE, ih hq]
  | exists_ v e => simp [Expr.QF] at hq
  | forAll v e => simp [Expr.QF] at hq

theorem C10N_extends_query (w : World) (q : Query) (hq : ∀ c, q.cond = some c → c.QF = true) :
    traceQueryN w q = traceQuery w q := by
  unfold traceQueryN traceQuery
  cases hc : q.cond with
  | none => rfl
  | some c => simp only [C10N_extends w c (hq c hc)]

/-! ## 1. the rows handed out are exactly the list model's -/

/-- **C10N_trace_vis.** ANY expression (quantifiers anywhere): when the list model evaluates it from `env` to the cells
`rs`, the consumer-visible events (`vis`: rows and exceptions) of the trace are the continuation applied to exactly
those cells, in order — the expression itself hands out nothing else and raises nothing. -/
theorem C10N_trace_vis (w : World) (e : Expr) (env : Env) (k : Env → Bool → List Ev)
    (rs : List (Env × Bool)) (h : eval w e env = .ok rs) :
    vis (traceN w e env k) = rs.flatMap fun p => vis (k p.1 p.2) :=
  traceN_vis w e env k rs h

/-- the expression's own stream (`streamN`: events with the results in place) carries exactly the list model's cells -/
theorem C10N_stream_cells (w : World) (e : Expr) (env : Env) (rs : List (Env × Bool)) (h : eval w e env = .ok rs) :
    cellsOf (streamN w e env) = rs ∧ hasErr (streamN w e env) = false := by
  have hv : vis (streamN w e env) = rs.map cellRow := by
    unfold streamN; rw [traceN_vis w e env cell rs h, flatMap_vis_cell]
  refine ⟨cellsOf_of_vis _ rs hv, ?_⟩
  rw [hasErr_eq_vis, hv]
  generalize rs = l
  induction l with
  | nil => rfl
  | cons p l ih => simp [hasErr, cellRow]

theorem C10N_trace_rows (w : World) (e : Expr) (env : Env) (k : Env → Bool → List Ev)
    (rs : List (Env × Bool)) (h : eval w e env = .ok rs) :
    rowsOf (traceN w e env k) = rs.flatMap fun p => rowsOf (k p.1 p.2) := by
  rw [← rowsOf_vis, traceN_vis w e env k rs h, rowsOf_flatMap]
  simp only [rowsOf_vis]

theorem C10N_query_vis (w : World) (q : Query) (rows : List (List Val)) (h : evalQuery w q = .ok rows) :
    vis (traceQueryN w q) = rows.map Ev.row := by
  unfold evalQuery at h
  unfold traceQueryN
  cases hc : q.cond with
  | none =>
    simp only [hc, bind_eq_ok, pure_eq_ok] at h
    obtain ⟨_, rfl, h⟩ := h
    simp only [flatMapM_cons_eq_ok, flatMapM_nil, Except.ok.injEq, bind_eq_ok, pure_eq_ok] at h
    obtain ⟨_, _, ⟨per, hper, rfl⟩, rfl, rfl⟩ := h
    rw [traceSel_vis w [] q.sel [] per hper]; simp
  | some c =>
    simp only [hc, bind_eq_ok, pure_eq_ok] at h
    obtain ⟨rs, hrs, _, rfl, h⟩ := h
    simp only
    rw [traceN_vis w c [] _ rs hrs]
    simp only [apply_ite vis, vis_nil]
    rw [flatMap_ite_filter rs (fun p => p.2) (fun p => vis (traceSel w p.1 q.sel []))]
    have := flatMapM_ok_flatMap _ _ _ (fun env : Env => vis (traceSel w env q.sel [])) (fun r => [Ev.row r]) h
      (by
        intro env _ zs hz
        simp only [bind_eq_ok, pure_eq_ok] at hz
        obtain ⟨per, hper, rfl⟩ := hz
        rw [traceSel_vis w env q.sel [] per hper]
        rw [flatMap_singleton_map]; rfl)
    rw [List.flatMap_map] at this
    rw [this, flatMap_singleton_map]

/-- **C10N_rows.** ANY query (condition with quantifiers in any position, or none): when the list model evaluates it to
`rows`, the rows handed out by the demand-driven trace are exactly `rows` (order, multiplicity) and no exception
escapes. -/
theorem C10N_rows (w : World) (q : Query) (rows : List (List Val)) (h : evalQuery w q = .ok rows) :
    rowsOf (traceQueryN w q) = rows ∧ hasErr (traceQueryN w q) = false := by
  constructor
  · rw [← rowsOf_vis, C10N_query_vis w q rows h, rowsOf_map_row]
  · rw [hasErr_eq_vis, C10N_query_vis w q rows h, hasErr_map_row]

/-! ## 2. the consumer that stops after `k` results -/

/-- **C10N_prefix.** The consumer that stops after its `k`-th result has performed a PREFIX of the event stream of the
whole evaluation, has received exactly the first `k` rows of the list model, and has performed nothing before its
first `next()`. -/
theorem C10N_prefix (w : World) (q : Query) (rows : List (List Val)) (h : evalQuery w q = .ok rows) (k : Nat) :
    uptoRow k (traceQueryN w q) <+: traceQueryN w q ∧
    rowsOf (uptoRow k (traceQueryN w q)) = rows.take k ∧
    uptoRow 0 (traceQueryN w q) = [] := by
  refine ⟨uptoRow_prefix k _, ?_, uptoRow_zero _⟩
  rw [rowsOf_uptoRow, (C10N_rows w q rows h).1]

/-- what has been pulled grows with `k` and never exceeds what the whole evaluation pulls -/
theorem C10N_pulled_mono (w : World) (q : Query) (v : VarId) (k : Nat) :
    pulled v (uptoRow k (traceQueryN w q)) ≤ pulled v (uptoRow (k + 1) (traceQueryN w q)) ∧
    pulled v (uptoRow k (traceQueryN w q)) ≤ pulled v (traceQueryN w q) :=
  C10_pulled_mono v k _

/-! ## 3. streaming: the events of an expression do not depend on its consumer -/

/-- **C10N_streaming.** ANY expression, ANY continuation: the trace is the expression's OWN stream (`streamN`: its
pull/read/exception events with its results in place) with the consumer's events spliced in at the results
(`substCells`). So what the expression performs before handing out its `j`-th result is a prefix of its own stream
that does not depend on what the consumer does with the results — in particular not on whether it ever asks for the
next one; and nothing of the expression's stream after a result is performed before the consumer is done with it. -/
theorem C10N_streaming (w : World) (e : Expr) (env : Env) (k : Env → Bool → List Ev) :
    traceN w e env k = substCells k (streamN w e env) :=
  traceN_eq_substCells w e env k

/-- … for whole queries: the trace is the condition's own stream with the selection events of each TRUE result
spliced in -/
theorem C10N_streaming_query (w : World) (sel : List Term) (c : Expr) :
    traceQueryN w ⟨sel, some c⟩ =
      substCells (fun env t => if t then traceSel w env sel [] else []) (streamN w c []) :=
  traceN_eq_substCells w c [] _

/-- **C10N_streaming_var.** ANY condition (quantifiers anywhere), ANY selection, `v` a variable no selected term
mentions: the pulls of `v` in the query trace are exactly the pulls of `v` in the condition's own stream, in order; the
consumer that stops after `k` results has performed a PREFIX of them; so it has consumed at most what the whole
condition consumes, and exhausting the query consumes exactly that. -/
theorem C10N_streaming_var (w : World) (sel : List Term) (c : Expr) (v : VarId) (hv : ∀ t ∈ sel, v ∉ t.vars)
    (k : Nat) :
    (traceQueryN w ⟨sel, some c⟩).filter (isPullOf v) = (streamN w c []).filter (isPullOf v) ∧
    (uptoRow k (traceQueryN w ⟨sel, some c⟩)).filter (isPullOf v) <+: (streamN w c []).filter (isPullOf v) ∧
    pulled v (uptoRow k (traceQueryN w ⟨sel, some c⟩)) ≤ pulled v (streamN w c []) ∧
    pulled v (traceQueryN w ⟨sel, some c⟩) = pulled v (streamN w c []) := by
  have hn : (traceQueryN w ⟨sel, some c⟩).filter (isPullOf v) = (streamN w c []).filter (isPullOf v) := by
    rw [C10N_streaming_query]
    refine filter_substCells (isPullOf v) (fun _ => rfl) _ _ fun p _ => ?_
    split
    · exact List.filter_eq_nil_iff.2 fun e he => by
        simp [isPullOf_false_of_noPull v _ (traceSel_noPull w v p.1 sel [] hv) e he]
    · rfl
  have hp : (uptoRow k (traceQueryN w ⟨sel, some c⟩)).filter (isPullOf v) <+:
      (streamN w c []).filter (isPullOf v) := by
    rw [← hn]; exact filter_prefix _ (uptoRow_prefix k _)
  refine ⟨hn, hp, ?_, ?_⟩
  · rw [← pulled_filter_isPullOf v (uptoRow k _), ← pulled_filter_isPullOf v (streamN w c [])]
    exact pulled_mono_prefix v hp
  · rw [← pulled_filter_isPullOf v (traceQueryN w ⟨sel, some c⟩), hn, pulled_filter_isPullOf]

/-- **C10N_streaming_all.** When every selected term is a variable bound in every true result of the condition, the
selection costs nothing: ALL pull/read/exception events of the query are those of the condition's own stream, and the
consumer that stops after `k` results has performed a prefix of them. -/
theorem C10N_streaming_all (w : World) (sel : List Term) (c : Expr)
    (hsel : ∀ p ∈ cellsOf (streamN w c []), p.2 = true → ∀ t ∈ sel, ∃ v, t = .var v ∧ Bnd v p.1) (k : Nat) :
    nonRow (traceQueryN w ⟨sel, some c⟩) = nonRow (streamN w c []) ∧
    nonRow (uptoRow k (traceQueryN w ⟨sel, some c⟩)) <+: nonRow (streamN w c []) := by
  have hn : nonRow (traceQueryN w ⟨sel, some c⟩) = nonRow (streamN w c []) := by
    rw [C10N_streaming_query]
    refine filter_substCells (fun e => !e.isRow) (fun _ => rfl) _ _ fun p hp => ?_
    split
    · rename_i ht
      exact List.filter_eq_nil_iff.2 fun e he => by
        simp [traceSel_bound_vars w p.1 sel [] (hsel p hp ht) e he]
    · rfl
  exact ⟨hn, by rw [← hn]; exact nonRow_prefix (uptoRow_prefix k _)⟩

/-! ## 4. `exists` in any position: streams, adds nothing, needs only a prefix of its child -/

/-- the stream of an `exists` node is the walk over the stream of its child (definitional; stated for reference) -/
theorem C10N_exists_stream (w : World) (u : VarId) (c : Expr) (env : Env) :
    streamN w (.exists_ u c) env = existsWalkN w u cell (streamN w c env) [] := rfl

/-- **C10N_exists_prefix.** To perform any prefix of its own stream, an `exists` node (in any position, under any
consumer) needs only a prefix of its child's stream: the walk over a prefix of the child's stream is a prefix of the
walk over all of it. (`Exists` hands a witness on the moment its child produced it; it never looks ahead.) -/
theorem C10N_exists_prefix (w : World) (u : VarId) (k : Env → Bool → List Ev) (a s : List Ev) (h : a <+: s)
    (seen : List Val) : existsWalkN w u k a seen <+: existsWalkN w u k s seen :=
  existsWalkN_prefix w u k h seen

/-- **C10N_exists_adds_nothing.** When every result of the child binds the quantified variable (otherwise: `KeyError`),
the pull/read/exception events of an `exists` node are exactly those of its child, in order — whatever is above. -/
theorem C10N_exists_adds_nothing (w : World) (u : VarId) (c : Expr) (env : Env)
    (hb : ∀ p ∈ cellsOf (streamN w c env), Bnd u p.1) :
    nonRow (streamN w (.exists_ u c) env) = nonRow (streamN w c env) :=
  existsWalkN_dropRows_cell w u _ [] hb

/-! ## 5. `for_all` in any position: lazy in its universal variable, blocking in its condition -/

/-- **C10N_forall_blocking.** Everything a `for_all` node performs happens BEFORE its first result: its trace is a
row-free block of events that does not depend on the consumer, followed by the consumer's events for each surviving
candidate. (The property allows it: "consuming pulls only what it needs" — `ForAll` needs the candidates under the
first universal value and every later universal value to decide its first result; the correspondence confirms that
the real engine does exactly this, see the build report.) -/
theorem C10N_forall_blocking (w : World) (u : VarId) (c : Expr) (env : Env) :
    ∃ (block : List Ev) (sols : List Env), NoRow block ∧
      ∀ k : Env → Bool → List Ev, traceN w (.forAll u c) env k = block ++ sols.flatMap fun sol => k (merge env sol) true := by
  simp only [traceN, traceForAllN]
  have hu := uvals_noRow w u env
  cases hU : uvals w u env with
  | nil => exact ⟨[Ev.err .typeError], [], fun e he => by simp at he; subst he; rfl, fun k => rfl⟩
  | cons q qs =>
    obtain ⟨pre, env1⟩ := q
    rw [hU] at hu
    refine ⟨_, _, ?_, fun k => rfl⟩
    exact NoRow.append (NoRow.append (hu _ (List.mem_cons_self ..)) (NoRow.dropRows _))
      (forAllLoopN_fst_noRow _ qs (fun q h => hu q (List.mem_cons_of_mem _ h)) _)

/-- **C10N_forall_early_exit.** `for_all` in any position, universal variable not bound by what is to its left, domain
`v1 :: rest`: if the condition has no true result under the first value, ONE element of the universal domain is
pulled, however long the domain; the events are that pull and the condition's events under it; the consumer gets
nothing. -/
theorem C10N_forall_early_exit (w : World) (u : VarId) (c : Expr) (env : Env) (k : Env → Bool → List Ev)
    (v1 : Val) (rest : List Val) (hl : env.lookup (.var u) = none) (hd : w.dom u = v1 :: rest)
    (h : (cellsOf (streamN w c ((.var u, v1) :: env))).filter (·.2) = []) :
    traceN w (.forAll u c) env k = Ev.pull u 0 :: nonRow (streamN w c ((.var u, v1) :: env)) := by
  simp only [traceN, traceForAllN, uvals, hl, hd, enumFrom, List.map_cons]
  unfold streamN at h
  rw [h]
  simp [forAllLoopN_nil_sols, dropRows_eq_nonRow, streamN]

/-- **C10N_forall_stops.** Once no candidate is left the loop performs nothing more — no further universal value is
pulled, the condition is not evaluated again. -/
theorem C10N_forall_stops (stream : Env → List Ev) (qs : List (List Ev × Env)) :
    forAllLoopN stream qs [] = ([], []) :=
  forAllLoopN_nil_sols stream qs

/-- **C10N_forall_step.** While candidates are left, the loop obtains ONE more universal value (`pre`: its pull, or
nothing for a bound variable), re-checks each candidate by taking the FIRST result of the condition's stream from
`{**candidate, **bindings}` (`recheck`/`uptoCell`: nothing after that result is performed), and goes on with the
survivors. -/
theorem C10N_forall_step (stream : Env → List Ev) (pre : List Ev) (envq : Env) (qs : List (List Ev × Env))
    (sol : Env) (sols : List Env) :
    forAllLoopN stream ((pre, envq) :: qs) (sol :: sols) =
      (pre ++ (recheck stream envq (sol :: sols)).1 ++ (forAllLoopN stream qs (recheck stream envq (sol :: sols)).2).1,
       (forAllLoopN stream qs (recheck stream envq (sol :: sols)).2).2) := rfl

/-! ## 6. a bound variable is never pulled; pulls stay inside the domains -/

/-- **C10N_never_pulls_bound.** Evaluating ANY expression (quantifiers anywhere) from bindings that contain `u` never
pulls an element of `u`'s domain, provided the consumer does not. In particular the body of a quantifier never pulls
the quantified variable once it is bound, a `for_all` whose universal variable is bound by what is to its left checks
that one value without touching the domain, and no variable bound by an enclosing operator is ever re-enumerated. -/
theorem C10N_never_pulls_bound (w : World) (u : VarId) (e : Expr) (env : Env) (k : Env → Bool → List Ev)
    (hb : Bnd u env) (hk : ∀ e b, Bnd u e → NoPull u (k e b)) : NoPull u (traceN w e env k) :=
  traceN_noPull w u e env k hb hk

/-- the body of a quantifier, evaluated under a value of the quantified variable, pulls nothing of its domain -/
theorem C10N_body_never_pulls_quantified (w : World) (u : VarId) (c : Expr) (env : Env) (x : Val) :
    NoPull u (streamN w c ((.var u, x) :: env)) :=
  traceN_noPull w u c _ cell (Bnd.cons_var u x (Or.inr rfl)) fun _ _ _ i h => by simp [cell] at h

/-- **C10N_forall_early_exit_pulled.** Under the hypotheses of `C10N_forall_early_exit` and a consumer-independent
reading: exactly ONE element of the universal domain has been consumed. -/
theorem C10N_forall_early_exit_pulled (w : World) (u : VarId) (c : Expr) (env : Env) (k : Env → Bool → List Ev)
    (v1 : Val) (rest : List Val) (hl : env.lookup (.var u) = none) (hd : w.dom u = v1 :: rest)
    (h : (cellsOf (streamN w c ((.var u, v1) :: env))).filter (·.2) = []) :
    pulled u (traceN w (.forAll u c) env k) = 1 ∧ rowsOf (traceN w (.forAll u c) env k) = [] := by
  rw [C10N_forall_early_exit w u c env k v1 rest hl hd h]
  have hnp : NoPull u (nonRow (streamN w c ((.var u, v1) :: env))) := by
    intro i hi
    exact C10N_body_never_pulls_quantified w u c env v1 i (List.mem_filter.1 hi).1
  constructor
  · rw [pulled_eq_foldl, List.foldl_cons, foldl_pullStep_noPull u _ _ hnp]
    simp [pullStep]
  · rw [rowsOf_cons_pull]
    exact rowsOf_eq_nil_of_noRow _ fun e he => by simpa using (List.mem_filter.1 he).2

theorem C10N_pull_in_range (w : World) (q : Query) (v : VarId) (i : Nat) (h : Ev.pull v i ∈ traceQueryN w q) :
    i < (w.dom v).length :=
  traceQueryN_pullOk w q _ h

/-- **C10N_pulled_le_domain.** After any number of results no more elements have been consumed than at the end, and
never more than the domain has. -/
theorem C10N_pulled_le_domain (w : World) (q : Query) (v : VarId) (k : Nat) :
    pulled v (uptoRow k (traceQueryN w q)) ≤ pulled v (traceQueryN w q) ∧
    pulled v (traceQueryN w q) ≤ (w.dom v).length :=
  ⟨pulled_mono_prefix v (uptoRow_prefix k _), pulled_le_of_forall v _ _ fun _ hi => C10N_pull_in_range w q v _ hi⟩

/-! ## 7. non-vacuity (tests) on `exWorld` of C10 (three objects, `a = 1, 2, 1`; variables 0 and 1 range over all) -/

section Tests

/-- `an(entity(x, x.a == 1, exists(y, y.a == x.a)))`: the quantifier is the RIGHT operand of `and` -/
def exnAndExists : Expr :=
  .and (.cmp .eq (.attr (.var 0) "a") (.lit 10 (.int 1)))
       (.exists_ 1 (.cmp .eq (.attr (.var 1) "a") (.attr (.var 0) "a")))

/-- TEST (`exists` below `and` streams): the hypothesis of `C10N_rows` holds with two rows; the FIRST row is handed out
after one element of `x`'s and one of `y`'s 3-element domain has been pulled; exhausting pulls all. -/
example :
    exnAndExists.hasQ = true ∧
    (evalQuery exWorld ⟨[.var 0], some exnAndExists⟩).toOption = some [[.obj 0], [.obj 0], [.obj 2], [.obj 2]] ∧
    rowsOf (traceQueryN exWorld ⟨[.var 0], some exnAndExists⟩) = [[.obj 0], [.obj 0], [.obj 2], [.obj 2]] ∧
    hasErr (traceQueryN exWorld ⟨[.var 0], some exnAndExists⟩) = false ∧
    uptoRow 1 (traceQueryN exWorld ⟨[.var 0], some exnAndExists⟩) =
      [.pull 0 0, .read 0 "a", .read 0 "a", .pull 1 0, .read 0 "a", .row [.obj 0]] ∧
    pulled 0 (uptoRow 1 (traceQueryN exWorld ⟨[.var 0], some exnAndExists⟩)) = 1 ∧
    pulled 1 (uptoRow 1 (traceQueryN exWorld ⟨[.var 0], some exnAndExists⟩)) = 1 ∧
    pulled 0 (traceQueryN exWorld ⟨[.var 0], some exnAndExists⟩) = 3 ∧
    pulled 1 (traceQueryN exWorld ⟨[.var 0], some exnAndExists⟩) = 3 := by decide

/-- `an(entity(x, x.a == 1, for_all(y, x.a <= y.a)))` -/
def exnAndForAll : Expr :=
  .and (.cmp .eq (.attr (.var 0) "a") (.lit 10 (.int 1)))
       (.forAll 1 (.cmp .le (.attr (.var 0) "a") (.attr (.var 1) "a")))

/-- TEST (`for_all` below `and`: blocking in its own variable, the enclosing `and` still streams): the first row needs
ONE element of `x`'s domain and ALL of `y`'s. -/
example :
    (evalQuery exWorld ⟨[.var 0], some exnAndForAll⟩).toOption = some [[.obj 0], [.obj 2]] ∧
    rowsOf (traceQueryN exWorld ⟨[.var 0], some exnAndForAll⟩) = [[.obj 0], [.obj 2]] ∧
    pulled 0 (uptoRow 1 (traceQueryN exWorld ⟨[.var 0], some exnAndForAll⟩)) = 1 ∧
    pulled 1 (uptoRow 1 (traceQueryN exWorld ⟨[.var 0], some exnAndForAll⟩)) = 3 ∧
    pulled 0 (traceQueryN exWorld ⟨[.var 0], some exnAndForAll⟩) = 3 := by decide

/-- TEST (`for_all` early exit in nested position; hypotheses of `C10N_forall_early_exit`): below
`x.a == 2 and for_all(y, y.a == 2)` the condition fails under the first `y`: ONE of three is pulled. -/
example :
    let c : Expr := .cmp .eq (.attr (.var 1) "a") (.lit 11 (.int 2))
    let e : Expr := .and (.cmp .eq (.attr (.var 0) "a") (.lit 10 (.int 2))) (.forAll 1 c)
    (cellsOf (streamN exWorld c [(Key.var 1, .obj 0), (Key.var 0, .obj 1)])).filter (·.2) = [] ∧
    pulled 1 (traceQueryN exWorld ⟨[.var 0], some e⟩) = 1 ∧
    rowsOf (traceQueryN exWorld ⟨[.var 0], some e⟩) = [] ∧
    (evalQuery exWorld ⟨[.var 0], some e⟩).toOption = some [] := by decide

/-- TEST (a quantifier in a quantifier's body): `exists(x, x.a == 1 and for_all(y, x.a <= y.a))` selecting `x`:
rows as the list model, first row before `x`'s domain is exhausted. -/
example :
    let e : Expr := .exists_ 0 exnAndForAll
    (evalQuery exWorld ⟨[.var 0], some e⟩).toOption = some [[.obj 0], [.obj 2]] ∧
    rowsOf (traceQueryN exWorld ⟨[.var 0], some e⟩) = [[.obj 0], [.obj 2]] ∧
    pulled 0 (uptoRow 1 (traceQueryN exWorld ⟨[.var 0], some e⟩)) = 1 ∧
    pulled 0 (traceQueryN exWorld ⟨[.var 0], some e⟩) = 3 ∧
    nonRow (streamN exWorld e []) = nonRow (streamN exWorld exnAndForAll []) := by decide

/-- TEST (`KeyError`, why the row theorems are conditional on the list model returning — and the trace agrees with it
here): below `exists(y, x.a == 2 and y.a == 1)` the first result of the body is false and does not bind `y`; the real
`Exists` looks `y` up in it and raises, so do the list model and `traceN` (the root-level `traceExistsRoot` of
`Model/EqlTraceQ.lean` does not: it only looks at true results). -/
example :
    let c : Expr := .and (.cmp .eq (.attr (.var 0) "a") (.lit 10 (.int 2)))
                         (.cmp .eq (.attr (.var 1) "a") (.lit 11 (.int 1)))
    errOf (evalQuery exWorld ⟨[.var 1], some (.exists_ 1 c)⟩) = some .keyError ∧
    hasErr (traceQueryN exWorld ⟨[.var 1], some (.exists_ 1 c)⟩) = true ∧
    hasErr (traceExistsRoot exWorld [.var 1] 1 c) = false := by decide

/-- TEST (`C10N_streaming` is not vacuous: the splice really interleaves): the query trace of the first example is its
condition's stream with one selection row per true result -/
example :
    (cellsOf (streamN exWorld exnAndExists [])).length = 5 ∧
    (nonRow (traceQueryN exWorld ⟨[.var 0], some exnAndExists⟩)).length = 20 ∧
    nonRow (traceQueryN exWorld ⟨[.var 0], some exnAndExists⟩) = nonRow (streamN exWorld exnAndExists []) := by decide

end Tests

end KrroodVerif.Eql
