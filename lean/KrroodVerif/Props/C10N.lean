import KrroodVerif.Lemmas.EqlTraceNLemmas
import KrroodVerif.Props.C10Q
/-!
# C10N — laziness with quantifiers in arbitrary position

`Model/EqlTraceN.lean` extends the demand-driven trace model to `exists_` / `forAll` anywhere below `and` / `elseIf` /
`union` / `not` and below each other (`traceN`, `streamN`, `traceQueryN`). This file relates it to the list model
`Eql.eval` / `Eql.evalQuery` and to the quantifier-free trace `traceE` (both frozen) and states what it says about
laziness. Helper lemmas: `Lemmas/EqlTraceNLemmas.lean`.

All theorems are unbounded in the world, the domains, the expression (any nesting of quantifiers), the selection, the
continuation and `k`.
-/
namespace KrroodVerif.Eql

/-! ## 0. `traceN` is `traceE` with the quantifier clauses filled in -/

/-- **C10N_extends.** On quantifier-free expressions the new trace IS the old one (same events, same order, for every
continuation): the theorems of `Props/C10.lean` are theorems about `traceN` there. -/
theorem C10N_extends (w : World) (e : Expr) (hq : e.QF = true) (env : Env) (k : Env → Bool → List Ev) :
    traceN w e env k = traceE w e env k := by
  induction e generalizing env k with
  | cmp op l r => rfl
  | contains c i => rfl
  | truth t => rfl
  | hasType t c => rfl
  | and l r ihl ihr =>
    simp only [Expr.QF, Bool.and_eq_true] at hq
    simp only [traceN, traceE, ihl hq.1, ihr hq.2]
  | elseIf l r ihl ihr =>
    simp only [Expr.QF, Bool.and_eq_true] at hq
    simp only [traceN, traceE, ihl hq.1, ihr hq.2]
  | union l r ihl ihr =>
    simp only [Expr.QF, Bool.and_eq_true] at hq
    simp only [traceN, traceE, ihl hq.1, ihr hq.2]
  | not e ih =>
    simp only [Expr.QF] at hq
    simp only [traceN, traceE, ih hq]
  | exists_ v e => simp [Expr.QF] at hq
  | forAll v e => simp [Expr.QF] at hq

theorem C10N_extends_query (w : World) (q : Query) (hq : ∀ c, q.cond = some c → c.QF = true) :
    traceQueryN w q = traceQuery w q := by
  unfold traceQueryN traceQuery
  cases hc : q.cond with
  | none => rfl
  | some c => simp only [C10N_extends w c (hq c hc)]

/-! ## 1. the rows handed out are exactly the list model's -/

/-- **C10N_trace_vis.** ANY expression (quantifiers anywhere): when the list model evaluates it from `env` to the cells
`rs`, the consumer-visible events (`vis`: rows and exceptions) of the trace are the continuation applied to exactly
those cells, in order — the expression itself hands out nothing else and raises nothing. -/
theorem C10N_trace_vis (w : World) (e : Expr) (env : Env) (k : Env → Bool → List Ev)
    (rs : List (Env × Bool)) (h : eval w e env = .ok rs) :
    vis (traceN w e env k) = rs.flatMap fun p => vis (k p.1 p.2) :=
  traceN_vis w e env k rs h

/-- the expression's own stream (`streamN`: events with the results in place) carries exactly the list model's cells -/
theorem C10N_stream_cells (w : World) (e : Expr) (env : Env) (rs : List (Env × Bool)) (h : eval w e env = .ok rs) :
    cellsOf (streamN w e env) = rs ∧ hasErr (streamN w e env) = false := by
  have hv : vis (streamN w e env) = rs.map cellRow := by
    unfold streamN; rw [traceN_vis w e env cell rs h, flatMap_vis_cell]
  refine ⟨cellsOf_of_vis _ rs hv, ?_⟩
  rw [hasErr_eq_vis, hv]
  generalize rs = l
  induction l with
  | nil => rfl
  | cons p l ih => simp [hasErr, cellRow]

theorem C10N_trace_rows (w : World) (e : Expr) (env : Env) (k : Env → Bool → List Ev)
    (rs : List (Env × Bool)) (h : eval w e env = .ok rs) :
    rowsOf (traceN w e env k) = rs.flatMap fun p => rowsOf (k p.1 p.2) := by
  rw [← rowsOf_vis, traceN_vis w e env k rs h, rowsOf_flatMap]
  simp only [rowsOf_vis]

theorem C10N_query_vis (w : World) (q : Query) (rows : List (List Val)) (h : evalQuery w q = .ok rows) :
    vis (traceQueryN w q) = rows.map Ev.row := by
  unfold evalQuery at h
  unfold traceQueryN
  cases hc : q.cond with
  | none =>
    simp only [hc, bind_eq_ok, pure_eq_ok] at h
    obtain ⟨_, rfl, h⟩ := h
    simp only [flatMapM_cons_eq_ok, flatMapM_nil, Except.ok.injEq, bind_eq_ok, pure_eq_ok] at h
    obtain ⟨_, _, ⟨per, hper, rfl⟩, rfl, rfl⟩ := h
    rw [traceSel_vis w [] q.sel [] per hper]; simp
  | some c =>
    simp only [hc, bind_eq_ok, pure_eq_ok] at h
    obtain ⟨rs, hrs, _, rfl, h⟩ := h
    simp only
    rw [traceN_vis w c [] _ rs hrs]
    simp only [apply_ite vis, vis_nil]
    rw [flatMap_ite_filter rs (fun p => p.2) (fun p => vis (traceSel w p.1 q.sel []))]
    have := flatMapM_ok_flatMap _ _ _ (fun env : Env => vis (traceSel w env q.sel [])) (fun r => [Ev.row r]) h
      (by
        intro env _ zs hz
        simp only [bind_eq_ok, pure_eq_ok] at hz
        obtain ⟨per, hper, rfl⟩ := hz
        rw [traceSel_vis w env q.sel [] per hper]
        rw [flatMap_singleton_map]; rfl)
    rw [List.flatMap_map] at this
    rw [this, flatMap_singleton_map]

/-- **C10N_rows.** ANY query (condition with quantifiers in any position, or none): when the list model evaluates it to
`rows`, the rows handed out by the demand-driven trace are exactly `rows` (order, multiplicity) and no exception
escapes. -/
theorem C10N_rows (w : World) (q : Query) (rows : List (List Val)) (h : evalQuery w q = .ok rows) :
    rowsOf (traceQueryN w q) = rows ∧ hasErr (traceQueryN w q) = false := by
  constructor
  · rw [← rowsOf_vis, C10N_query_vis w q rows h, rowsOf_map_row]
  · rw [hasErr_eq_vis, C10N_query_vis w q rows h, hasErr_map_row]

/-! ## 2. the consumer that stops after `k` results -/

/-- **C10N_prefix.** The consumer that stops after its `k`-th result has performed a PREFIX of the event stream of the
whole evaluation, has received exactly the first `k` rows of the list model, and has performed nothing before its
first `next()`. -/
theorem C10N_prefix (w : World) (q : Query) (rows : List (List Val)) (h : evalQuery w q = .ok rows) (k : Nat) :
    uptoRow k (traceQueryN w q) <+: traceQueryN w q ∧
    rowsOf (uptoRow k (traceQueryN w q)) = rows.take k ∧
    uptoRow 0 (traceQueryN w q) = [] := by
  refine ⟨uptoRow_prefix k _, ?_, uptoRow_zero _⟩
  rw [rowsOf_uptoRow, (C10N_rows w q rows h).1]

/-- what has been pulled grows with `k` and never exceeds what the whole evaluation pulls -/
theorem C10N_pulled_mono (w : World) (q : Query) (v : VarId) (k : Nat) :
    pulled v (uptoRow k (traceQueryN w q)) ≤ pulled v (uptoRow (k + 1) (traceQueryN w q)) ∧
    pulled v (uptoRow k (traceQueryN w q)) ≤ pulled v (traceQueryN w q) :=
  C10_pulled_mono v k _

end KrroodVerif.Eql
