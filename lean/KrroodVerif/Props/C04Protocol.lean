import KrroodVerif.Model.DaoProtocol
import KrroodVerif.Props.C04
/-!
C04 / C05, second tie by translation: theorems about the interpreter `copyWith` of conversion-protocol tables
(`Model/DaoProtocol.lean`).

* `copyWith_eq_copyNode`: a table direction that passes the decidable test `DirProto.ok` is interpreted as exactly the
  proved memoised copy (`copyNode`, quirk off) — for every environment of oracles, heap, fuel, node and state.
* `C04_copy_eq_copyWith`: the hand table `Dao.protocol` is interpreted as the hand-written model (`toDao`, `fromDao
  false`, `roundTrip false`), unbounded.
* `C04_protocol_iso` / `C04_protocol_to_dao_iso` / `C04_protocol_total`: `ProtocolOk t →` the interpretation of `t` is a
  rooted-graph isomorphism and total.
* `C04_protocol_needs_*`: for each conjunct of `ProtocolOk` a table that violates only that one, with an environment and
  a heap on which the interpretation is NOT an isomorphism (by `decide`): the test asks for nothing superfluous.

Per run the generated file (`harness/translate/c04_translate.py`) states `Translated.protocol = Dao.protocol` and
`ProtocolOk Translated.protocol` by `decide`, and instantiates the theorems below.
-/
namespace KrroodVerif.Dao

/-! ### what `DirProto.ok` gives -/

structure DirProto.Good (d : DirProto) : Prop where
  memoFirst : d.memoFirst = true
  memoKey : d.memoKey = .identity
  keepAlive : d.keepAlive = true
  register : d.register = .before
  singleGuard : d.singleGuard = .isNone
  collDedup : d.collDedup = .none
  scalarGuard : d.scalarGuard = none
  losesState : d.losesState = false
  stale : d.stale = false
  fix : d.fixups ≠ .afterInit ∨ d.fixDedup = .none

theorem DirProto.good_of_ok {d : DirProto} (h : d.ok = true) : d.Good := by
  unfold DirProto.ok at h
  simp only [Bool.and_eq_true, Bool.or_eq_true, beq_iff_eq, bne_iff_ne, Bool.not_eq_true', ne_eq] at h
  obtain ⟨⟨⟨⟨⟨⟨⟨⟨⟨h1, h2⟩, h3⟩, h4⟩, h5⟩, h6⟩, h7⟩, h8⟩, h9⟩, h10⟩ := h
  exact ⟨h1, h2, h3, h4, h5, h6, h7, h8, h9, h10⟩

theorem memoFind_good {d : DirProto} (g : d.Good) (E : Env) (h : Heap) (memo : List (Nat × Nat)) (o : Nat) :
    memoFind d E h memo o = memo.lookup o := by
  unfold memoFind
  simp only [g.memoFirst, g.memoKey, g.keepAlive, Bool.not_true, Bool.false_eq_true, if_false, if_true]
  cases memo.lookup o <;> rfl

theorem collResult_good {d : DirProto} (g : d.Good) (out : Heap) (ds : List Nat) : collResult d out ds = ds := by
  unfold collResult
  simp only [g.collDedup, dedupBy]
  rcases g.fix with hf | hf
  · have : (d.fixups == FixWhen.afterInit) = false := by simpa using hf
    simp [this]
  · simp [hf]

theorem copyRefWith_good {d : DirProto} (g : d.Good) (E : Env) (h : Heap) (rec : Rec) (r : Ref) (st : St) :
    copyRefWith d E h rec r st = copyRef rec r st := by
  cases r with
  | none => rfl
  | one t =>
    simp only [copyRefWith, copyRef, guardDrops, g.singleGuard, Bool.false_eq_true, if_false]
    rfl
  | many ts =>
    simp only [copyRefWith, copyRef]
    cases copyList rec ts st with
    | none => rfl
    | some p => simp only [collResult_good g]

theorem copyRefsWith_good {d : DirProto} (g : d.Good) (E : Env) (h : Heap) (rec : Rec) :
    ∀ (rs : List Ref) (st : St), copyRefsWith d E h rec rs st = copyRefs rec rs st
  | [], _ => rfl
  | r :: rs, st => by
    simp only [copyRefsWith, copyRefs, copyRefWith_good g]
    cases copyRef rec r st with
    | none => rfl
    | some p => simp only [copyRefsWith_good g E h rec rs]; rfl

/-- **copyWith_eq_copyNode.** A direction of a table that passes the test is interpreted as the proved copy — whatever
the oracles say. -/
theorem copyWith_eq_copyNode {d : DirProto} (hok : d.ok = true) (E : Env) (conv : Node → Node)
    (inter : Node → Option Node) (h : Heap) :
    ∀ (fuel o : Nat) (st : St), copyWith d E conv inter h fuel o st = copyNode ⟨conv, inter, false⟩ h fuel o st := by
  have g := DirProto.good_of_ok hok
  intro fuel
  induction fuel with
  | zero => intro o st; rfl
  | succ fuel ih =>
    intro o st
    have hrec : copyWith d E conv inter h fuel = copyNode ⟨conv, inter, false⟩ h fuel := by
      funext o st; exact ih o st
    simp only [copyWith, copyNode, memoFind_good g, g.stale, hrec, copyRefsWith_good g, scalWith, g.scalarGuard,
      regBefore, regAfter, g.register, beq_self_eq_true, if_true, Bool.false_eq_true, if_false]
    rfl

theorem copyTop_good {d : DirProto} (g : d.Good) (rec : Rec) :
    ∀ (ts : List Nat) (st : St), copyTop d rec ts st = copyList rec ts st
  | [], _ => rfl
  | t :: ts, st => by
    simp only [copyTop, copyList, g.losesState, Bool.false_eq_true, if_false]
    cases rec t st with
    | none => rfl
    | some p => simp only [copyTop_good g rec ts]; rfl

theorem copyRootsWith_eq_copyRoots {d : DirProto} (hok : d.ok = true) (E : Env) (conv : Node → Node)
    (inter : Node → Option Node) (h : Heap) (roots : List Nat) :
    copyRootsWith d E conv inter h roots = copyRoots ⟨conv, inter, false⟩ h roots := by
  have g := DirProto.good_of_ok hok
  unfold copyRootsWith copyRoots
  rw [copyTop_good g]
  congr 1
  funext o st
  exact copyWith_eq_copyNode hok E conv inter h _ o st

/-! ### tables that pass the test -/

theorem toDaoWith_ok {t : ProtocolTable} (hok : ProtocolOk t) (E : Env) (h : Heap) (roots : List Nat) :
    toDaoWith t E h roots = toDao h roots :=
  copyRootsWith_eq_copyRoots hok.1 E daoMk (fun _ => none) h roots

theorem fromDaoWith_ok {t : ProtocolTable} (hok : ProtocolOk t) (E : Env) (unmap : Label → Option Label) (dh : Heap)
    (roots : List Nat) : fromDaoWith t E unmap dh roots = fromDao false unmap dh roots :=
  copyRootsWith_eq_copyRoots hok.2 E (objMk unmap) objInter dh roots

theorem roundTripWith_ok {t : ProtocolTable} (hok : ProtocolOk t) (E : Env) (unmap : Label → Option Label) (h : Heap)
    (roots : List Nat) : roundTripWith t E unmap h roots = roundTrip false unmap h roots := by
  unfold roundTripWith roundTrip
  rw [toDaoWith_ok hok]
  cases toDao h roots with
  | none => rfl
  | some p => simp only [fromDaoWith_ok hok]

theorem protocol_ok : ProtocolOk protocol := by decide

/-- **C04_copy_eq_copyWith.** The hand-written model IS the interpretation of the hand table `Dao.protocol`: both
directions and the round trip, for every environment, every heap and every list of roots. -/
theorem C04_copy_eq_copyWith (E : Env) (unmap : Label → Option Label) (h : Heap) (roots : List Nat) :
    toDaoWith protocol E h roots = toDao h roots ∧
    fromDaoWith protocol E unmap h roots = fromDao false unmap h roots ∧
    roundTripWith protocol E unmap h roots = roundTrip false unmap h roots :=
  ⟨toDaoWith_ok protocol_ok E h roots, fromDaoWith_ok protocol_ok E unmap h roots,
   roundTripWith_ok protocol_ok E unmap h roots⟩

/-- **C04_protocol_to_dao_iso.** `to_dao` as described by any table that passes the test: the DAO graph is isomorphic
to the object graph via `daoMk`. -/
theorem C04_protocol_to_dao_iso {t : ProtocolTable} (hok : ProtocolOk t) (E : Env) (h : Heap)
    (roots droots : List Nat) (st : St) (hrun : toDaoWith t E h roots = some (droots, st)) :
    IsoVia daoMk h roots st.out droots :=
  C04_to_dao_iso h roots droots st (by rw [← toDaoWith_ok hok E]; exact hrun)

/-- **C04_protocol_iso.** `ProtocolOk t →` the round trip the table describes is a rooted-graph isomorphism (classes,
scalars, field order, multiplicity, sharing, cycles) for EVERY finite object graph, every list of roots and every
environment; the only other hypothesis is that the user-written mapping pairs round-trip. -/
theorem C04_protocol_iso {t : ProtocolTable} (hok : ProtocolOk t) (E : Env) (unmap : Label → Option Label) (h : Heap)
    (roots rs' : List Nat) (st' : St) (hrt : RoundTrips unmap h)
    (hrun : roundTripWith t E unmap h roots = some (rs', st')) : Iso h roots st'.out rs' :=
  C04_roundtrip unmap h roots rs' st' hrt (by rw [← roundTripWith_ok hok E]; exact hrun)

/-- **C04_protocol_total.** … and it always produces a result on a graph without dangling references. -/
theorem C04_protocol_total {t : ProtocolTable} (hok : ProtocolOk t) (E : Env) (unmap : Label → Option Label) (h : Heap)
    (hwf : h.WF) (roots : List Nat) (hr : ∀ r ∈ roots, r < h.length) :
    ∃ rs' st', roundTripWith t E unmap h roots = some (rs', st') := by
  simp only [roundTripWith_ok hok E]
  exact C04_roundtrip_total false unmap h hwf roots hr

/-- what the driver prints for a table that passes the test: `model=` IS `spec=` -/
theorem C04_protocol_canon {t : ProtocolTable} (hok : ProtocolOk t) (E : Env) (unmap : Label → Option Label) (h : Heap)
    (roots rs' : List Nat) (st' : St) (hrt : RoundTrips unmap h)
    (hrun : roundTripWith t E unmap h roots = some (rs', st')) : canon st'.out rs' = canon h roots :=
  (Iso_canon_eq (C04_protocol_iso hok E unmap h roots rs' st' hrt hrun)).symm

/-! ### non-vacuity and: every conjunct of the test is needed -/

private def pn (cls scal : String) (refs : List Ref) : Node :=
  { lab := ⟨cls, scal⟩, kind := .plain, view := noView, tabs := [cls ++ "DAO"], fields := [], refs := refs }

/-- a two-cycle with a shared leaf, the leaf twice in a list -/
def protoHeap : Heap := [pn "A" "x=i1" [.one 1, .many [2, 2]], pn "B" "" [.one 0, .one 2], pn "C" "v=i0" []]

example : ∃ rs' st', roundTripWith protocol Env.inert (fun _ => none) protoHeap [0, 1] = some (rs', st') ∧
    Iso protoHeap [0, 1] st'.out rs' := by
  have hwf : protoHeap.WF := by
    have : ∀ n ∈ protoHeap, ∀ t ∈ n.targets, t < protoHeap.length := by decide
    exact this
  obtain ⟨rs', st', hrun⟩ := C04_protocol_total protocol_ok Env.inert (fun _ => none) protoHeap hwf [0, 1] (by decide)
  exact ⟨rs', st', hrun, C04_protocol_iso protocol_ok Env.inert (fun _ => none) protoHeap [0, 1] rs' st' (by decide) hrun⟩

/-- the result of a run as the decided relation sees it -/
def isoRun (h : Heap) (roots : List Nat) : Option (List Nat × St) → Bool
  | some (rs', st') => canonEq h roots st'.out rs'
  | none => false

/-- registration after the descent: a cycle is never closed (no result for any fuel the model grants) -/
theorem C04_protocol_needs_register_before :
    let t : ProtocolTable := { protocol with toD := { protocol.toD with register := .after } }
    t.toD.ok = false ∧ toDaoWith t Env.inert protoHeap [0] = none := by decide

/-- no memo look-up first: the shared leaf is copied once per reference -/
theorem C04_protocol_needs_memo_first :
    let t : ProtocolTable := { protocol with fromD := { protocol.fromD with memoFirst := false } }
    let h : Heap := [pn "A" "" [.one 1, .one 1], pn "C" "" []]
    t.fromD.ok = false ∧ isoRun h [0] (roundTripWith t Env.inert (fun _ => none) h [0]) = false := by decide

/-- memo keyed by equality: two distinct value-equal objects become one -/
theorem C04_protocol_needs_identity_key :
    let t : ProtocolTable := { protocol with toD := { protocol.toD with memoKey := .equality } }
    let h : Heap := [pn "A" "" [.one 1, .one 2], pn "C" "v=i0" [], pn "C" "v=i0" []]
    t.toD.ok = false ∧ isoRun h [0] (roundTripWith t Env.inert (fun _ => none) h [0]) = false := by decide

/-- sources not kept alive: a later object at a reused address gets the earlier object's DAO -/
theorem C04_protocol_needs_keep_alive :
    let t : ProtocolTable := { protocol with toD := { protocol.toD with keepAlive := false } }
    let E : Env := { Env.inert with reuse := fun o => if o = 2 then some 1 else none }
    let h : Heap := [pn "A" "" [.one 1, .one 2], pn "C" "v=i0" [], pn "C" "v=i1" []]
    t.toD.ok = false ∧ isoRun h [0] (roundTripWith t E (fun _ => none) h [0]) = false := by decide

/-- truthiness guard: a falsy mapped object (`__len__` = 0) is replaced by `None` -/
theorem C04_protocol_needs_isNone_guard :
    let t : ProtocolTable := { protocol with toD := { protocol.toD with singleGuard := .truthy } }
    let E : Env := { Env.inert with falsy := fun n => n.lab.cls == "Bag" && n.refs == [.many []] }
    let h : Heap := [pn "A" "" [.one 1], pn "Bag" "" [.many []]]
    t.toD.ok = false ∧ isoRun h [0] (roundTripWith t E (fun _ => none) h [0]) = false := by decide

/-- de-duplicated collections: an object contained twice comes back once -/
theorem C04_protocol_needs_no_dedup :
    let t : ProtocolTable := { protocol with toD := { protocol.toD with collDedup := .byEquality } }
    t.toD.ok = false ∧ isoRun protoHeap [0] (roundTripWith t Env.inert (fun _ => none) protoHeap [0]) = false := by
  decide

/-- the same for the list a fix-up re-assigns -/
theorem C04_protocol_needs_no_fix_dedup :
    let t : ProtocolTable := { protocol with fromD := { protocol.fromD with fixDedup := .byEquality } }
    t.fromD.ok = false ∧ isoRun protoHeap [0] (roundTripWith t Env.inert (fun _ => none) protoHeap [0]) = false := by
  decide

/-- skipped scalar values: the constructor's default replaces an explicit `None` -/
theorem C04_protocol_needs_scalars_unguarded :
    let t : ProtocolTable := { protocol with fromD := { protocol.fromD with scalarGuard := some .isNone } }
    let E : Env := { Env.inert with skip := fun _ n => { n with lab := ⟨n.lab.cls, "v=i7"⟩ } }
    let h : Heap := [pn "C" "v=N" []]
    t.fromD.ok = false ∧ isoRun h [0] (roundTripWith t E (fun _ => none) h [0]) = false := by decide

/-- `state = state or State()` with a state that is falsy while empty: the roots of one explicitly passed state no
longer share their common parts -/
theorem C04_protocol_needs_state_kept :
    let t : ProtocolTable := { protocol with fromD := { protocol.fromD with stateFalsy := true } }
    let h : Heap := [pn "A" "" [.one 1], pn "C" "" []]
    t.fromD.ok = false ∧ isoRun h [0, 1] (roundTripWith t Env.inert (fun _ => none) h [0, 1]) = false := by decide

/-- no deferred fix-ups: a reference into an alternatively mapped object in progress stays at the intermediate
(the former finding F-C04-1) -/
theorem C04_protocol_needs_deferred_fix :
    let t : ProtocolTable := { protocol with fromD := { protocol.fromD with deferredFix := false } }
    t.fromD.ok = false ∧ isoRun cexHeap [0] (roundTripWith t Env.inert cexUnmap cexHeap [0]) = false := by decide

end KrroodVerif.Dao
