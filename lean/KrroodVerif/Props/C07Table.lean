import KrroodVerif.Props.C07
/-!
# C07 — the operator tables (second tie by translation)

`Model/SqlTable.lean` states the decision logic of `OperatorMapper.map_comparison_operator`, `map_contains_operator`,
`null_safe_in`, the dispatch of `translate_query` / `_translate_comparator_operand` and the rejection rules as tables
(`opTable`, `dispatch`, `operandDispatch`, `rejects`).  `harness/translate/c07_translate.py` regenerates them from the
current Python AST on every run and the kernel re-checks `Translated.opTable = opTable` and `tableOk Translated.opTable`.
This file gives those two facts their meaning:

* `cmpT_opTable`, `memT_opTable`, `subT_opTable`, `evalSqlT_opTable` — the hand-written SQL semantics of the model
  (`sqlCmpV`, `sqlIn`, the `instr` atom: what every other C07 theorem and the correspondence are about) IS the
  interpretation of `opTable`, for all scalar values (unbounded).  So `Translated.opTable = opTable` says: the operator
  logic of the current source is the one the model transcribes.
* `evalSqlT_sem`, **`C07_table_preserves`**, `C07_table_the` — for EVERY table `T` with `tableOk T = true`, translation with
  the operators rendered as `T` says preserves the answers on the fragment of `C07_preserves_partial` (unbounded in the
  condition, the chains, the database).  So `tableOk Translated.opTable` (by `decide`: a genuinely finite table — 24
  comparison rows × 6 ways two scalars can be related, 2 membership rows × 12 cases, 4 substring rows × 4 cases) says: the
  property holds of the operator logic of the current source, whatever it looks like.
* `C07_opTable_ok` — the table of the code as it is passes (by `decide`), `C07_table_cex_le_as_lt`,
  `C07_table_cex_legacy_ne`, `C07_table_cex_legacy_in`, `C07_table_cex_like` — the tables of a seeded change
  (`le` bound to `operator.lt`: seeded/C07-r4m2) and of the code before the fixes 1eb4fe3 / 20e7107 do NOT.
* `C07_dispatch_rejects`, `C07_operand_rejects` — the hand-written translator rejects exactly the node kinds the tables
  `dispatch` / `operandDispatch` have no case for, with the error class `rejects` names.
-/
namespace KrroodVerif.SqlTr

/-! ## Scalars and their relation -/

theorem null_bne_num (m : Int) : (Val.null != Val.num m) = true := by simp [bne, null_beq_num]
theorem num_bne_null (m : Int) : (Val.num m != Val.null) = true := by simp [bne, num_beq_null]
theorem null_bne_null : (Val.null != Val.null) = false := by decide
theorem num_bne (a b : Int) : (Val.num a != Val.num b) = (a != b) := by simp [bne, num_beq]

theorem relOf_scalar {v w : Val} (hv : Scalar v) (hw : Scalar w) : ∃ r, relOf v w = some r ∧ r ∈ allRels := by
  rcases hv with rfl | ⟨n, rfl⟩ <;> rcases hw with rfl | ⟨m, rfl⟩
  · exact ⟨.nullLR, rfl, by decide⟩
  · exact ⟨.nullL, rfl, by decide⟩
  · exact ⟨.nullR, rfl, by decide⟩
  · refine ⟨_, rfl, ?_⟩
    by_cases h1 : n < m
    · simp [h1, allRels]
    · by_cases h2 : n = m <;> simp [h1, h2, allRels]

/-- Python's comparison of two scalars depends only on how they are related -/
theorem pyCmp_rel (op : Cmp) {v w : Val} {r : Rel} (hv : Scalar v) (hw : Scalar w) (hr : relOf v w = some r) :
    pyCmp op v w = pyRel op r := by
  rcases hv with rfl | ⟨n, rfl⟩ <;> rcases hw with rfl | ⟨m, rfl⟩
  · cases hr; cases op <;> simp [pyCmp, pyRel, Rel.isEq, Rel.bothNull, null_bne_null]
  · cases hr; cases op <;> simp [pyCmp, pyRel, Rel.isEq, Rel.bothNull, null_beq_num, null_bne_num]
  · cases hr; cases op <;> simp [pyCmp, pyRel, Rel.isEq, Rel.bothNull, num_beq_null, num_bne_null]
  · simp only [relOf, Option.some.injEq] at hr
    by_cases h1 : n < m
    · simp only [h1, ↓reduceIte] at hr; subst hr
      have hne : n ≠ m := by omega
      cases op <;> simp [pyCmp, pyRel, Rel.isEq, Rel.bothNull, cmpInt, num_beq, num_bne, h1, hne] <;> omega
    · by_cases h2 : n = m
      · simp only [h1, h2, ↓reduceIte] at hr; subst hr; subst h2
        cases op <;> simp [pyCmp, pyRel, Rel.isEq, Rel.bothNull, cmpInt, num_beq, num_bne]
      · simp only [h1, h2, ↓reduceIte] at hr; subst hr
        cases op <;> simp [pyCmp, pyRel, Rel.isEq, Rel.bothNull, cmpInt, num_beq, num_bne, h2] <;> omega

theorem mem_allCmps (op : Cmp) : op ∈ allCmps := by cases op <;> simp [allCmps]
theorem mem_allSides (s : Sides) : s ∈ allSides := by cases s <;> simp [allSides]

/-! ## Every table that passes the check has the property -/

theorem tableOk_cmp {T : OpTable} (h : tableOk T = true) (op : Cmp) (s : Sides) :
    ∃ f, lookupOp T (.cmp op s) = some (.cmp f) ∧ cmpRowOk op s f = true := by
  simp only [tableOk, Bool.and_eq_true, List.all_eq_true] at h
  have h1 := h.1.1.1.1.1 op (mem_allCmps op) s (mem_allSides s)
  split at h1
  · rename_i f hf; exact ⟨f, hf, h1⟩
  · simp at h1

theorem cmpT_ok {T : OpTable} (h : tableOk T = true) (op : Cmp) (a b : SqlOperand) (va vb : Val) (bb : Bool)
    (hva : Scalar va) (hvb : Scalar vb) (hpy : pyCmp op va vb = some bb) :
    cmpT T op a b va vb = some true ↔ bb = true := by
  obtain ⟨f, hf, hrow⟩ := tableOk_cmp h op (sidesOf a b)
  obtain ⟨r, hr, hmem⟩ := relOf_scalar hva hvb
  rw [pyCmp_rel op hva hvb hr] at hpy
  simp only [cmpRowOk, List.all_eq_true] at hrow
  have := hrow r hmem
  rw [hpy] at this
  simp only [cmpT, hf, hr, Option.bind_some]
  cases hs : f.sem (sidesOf a b) r with
  | none => simp [hs] at this; simp [this]
  | some x => cases x <;> cases bb <;> simp_all

theorem memCase_mem {x : Val} {vs : List (Option Int)} {c : MemCase} (h : memCaseOf x vs = some c) :
    c ∈ allMemCases ∧ c.hasNone = vs.contains none := by
  cases x with
  | ref i => simp [memCaseOf] at h
  | null =>
    simp only [memCaseOf, Option.some.injEq] at h; subst h
    refine ⟨?_, rfl⟩
    cases vs.contains none <;> cases (vs.filter Option.isSome).isEmpty <;> decide
  | num n =>
    simp only [memCaseOf, Option.some.injEq] at h; subst h
    refine ⟨?_, rfl⟩
    by_cases hm : vs.contains (some n) = true
    · have hne : (vs.filter Option.isSome).isEmpty = false := by
        rw [List.contains_iff_mem] at hm
        cases hf : (vs.filter Option.isSome).isEmpty with
        | false => rfl
        | true =>
          rw [List.isEmpty_iff] at hf
          have : some n ∈ vs.filter Option.isSome := List.mem_filter.mpr ⟨hm, rfl⟩
          rw [hf] at this; simp at this
      rw [hm, hne]
      cases vs.contains none <;> decide
    · have hm' : vs.contains (some n) = false := by simpa using hm
      rw [hm']
      cases vs.contains none <;> cases (vs.filter Option.isSome).isEmpty <;> decide

theorem any_null_eq (vs : List (Option Int)) : (vs.any fun w => litVal w == Val.null) = vs.contains none := by
  induction vs with
  | nil => simp
  | cons w vs ih =>
    simp only [List.any_cons, ih, List.contains_cons]
    cases w with
    | none => simp [litVal]
    | some m => simp [litVal, num_beq_null]

theorem any_num_eq (n : Int) (vs : List (Option Int)) :
    (vs.any fun w => litVal w == Val.num n) = vs.contains (some n) := by
  induction vs with
  | nil => simp
  | cons w vs ih =>
    simp only [List.any_cons, ih, List.contains_cons]
    cases w with
    | none => simp [litVal, null_beq_num]
    | some m =>
      simp only [litVal, num_beq]
      congr 1
      by_cases hm : m = n
      · subst hm; simp
      · have h2 : (some n == some m) = false := by
          simp only [beq_eq_false_iff_ne, ne_eq, Option.some.injEq]
          exact fun h => hm h.symm
        rw [beq_eq_false_iff_ne.mpr hm, h2]

/-- Python's `in` on a scalar and a literal list depends only on the membership case -/
theorem pyMem_case {x : Val} {vs : List (Option Int)} {c : MemCase} (hx : Scalar x) (h : memCaseOf x vs = some c) :
    (vs.any fun w => litVal w == x) = pyMem c := by
  rcases hx with rfl | ⟨n, rfl⟩
  · simp only [memCaseOf, Option.some.injEq] at h; subst h
    simp [pyMem, any_null_eq]
  · simp only [memCaseOf, Option.some.injEq] at h; subst h
    simp [pyMem, any_num_eq]

theorem memT_ok {T : OpTable} (h : tableOk T = true) (x : Val) (vs : List (Option Int)) (hx : Scalar x) :
    memT T x vs = some true ↔ (vs.any fun w => litVal w == x) = true := by
  have h' := h
  simp only [tableOk, Bool.and_eq_true, List.all_eq_true, beq_iff_eq] at h'
  have hl := h'.1.1.1.1.2
  have hm := h'.1.1.2 (vs.contains none) (by cases vs.contains none <;> simp)
  split at hm
  · rename_i f hf
    obtain ⟨c, hc⟩ : ∃ c, memCaseOf x vs = some c := by
      rcases hx with rfl | ⟨n, rfl⟩ <;> exact ⟨_, rfl⟩
    obtain ⟨hcm, hcn⟩ := memCase_mem hc
    simp only [memRowOk, List.all_eq_true] at hm
    have hrow := hm c hcm
    rw [pyMem_case hx hc]
    simp only [memT, hl, hf, hc, Option.bind_some]
    rw [hcn] at hrow
    simp only [bne_self_eq_false, Bool.false_or, beq_iff_eq] at hrow
    cases hs : f.sem c with
    | none => simp [hs] at hrow; simp [hrow]
    | some b => cases b <;> simp_all
  · simp at hm

/-- **evalSqlT_sem.**  For every operator table that passes the decidable check, the statement evaluated with the
operators rendered as the table says has the property the preservation proof needs. -/
theorem evalSqlT_sem (T : OpTable) (h : tableOk T = true) : SqlSem (evalSqlT T) where
  and_ := fun _ _ _ _ => rfl
  or_ := fun _ _ _ _ => rfl
  cmp := fun db env op a b bb hva hvb hpy => by
    simp only [evalSqlT]
    exact cmpT_ok h op a b _ _ bb hva hvb hpy
  inList := fun db env c vs hv => by
    simp only [evalSqlT]
    exact memT_ok h _ vs hv
  truthy := fun db env c hv => by
    simp only [evalSqlT]
    exact evalSql_sem.truthy db env c hv

/-- **C07_table_preserves.**  For EVERY operator table `T` that passes `tableOk` (decidable, finite): a single-variable
query of the fragment of `C07_preserves_partial`, translated with the operators rendered as `T` says and executed under
SQL's three-valued logic, returns exactly the entities in-memory evaluation returns (same ids, order, multiplicity), and
in-memory evaluation does not raise.  Unbounded in nesting depth, chain length, database size and in the table. -/
theorem C07_table_preserves (T : OpTable) (hT : tableOk T = true)
    (S : Schema) (db : DB) (q : Query) (sel : Cls) (e : Expr) (s : SqlQuery)
    (hv : q.vars = [sel]) (hc : q.cond = some e) (hf : Frag e) (hg : Good db (rootsOf S db sel) e)
    (ht : translate S q = .ok s) :
    evalMem S q db = some (execSqlWith (evalSqlT T) S s db) :=
  C07_preserves_with (evalSqlT T) (evalSqlT_sem T hT) S db q sel e s hv hc hf hg ht

/-- `the(...)` fails in both worlds or in neither, for every table that passes the check -/
theorem C07_table_the (T : OpTable) (hT : tableOk T = true)
    (S : Schema) (db : DB) (q : Query) (sel : Cls) (e : Expr) (s : SqlQuery)
    (hv : q.vars = [sel]) (hc : q.cond = some e) (hf : Frag e) (hg : Good db (rootsOf S db sel) e)
    (ht : translate S q = .ok s) :
    (evalMem S q db).map theOf = some (theOf (execSqlWith (evalSqlT T) S s db)) := by
  rw [C07_table_preserves T hT S db q sel e s hv hc hf hg ht]; rfl

/-! ## The table of the code as it is: passes the check, and IS what the hand-written model computes -/

/-- the per-run obligation on the hand-written table (a finite table: `decide`) -/
theorem C07_opTable_ok : tableOk opTable = true := by decide

/-- an operand's value is the literal's value where the operand is a literal -/
def Consistent : SqlOperand → Val → Prop
  | .lit m, v => v = litVal m
  | .col _, _ => True

theorem relOf_num (n m : Int) :
    (n < m ∧ relOf (.num n) (.num m) = some .lt) ∨ (n = m ∧ relOf (.num n) (.num m) = some .eq) ∨
    (m < n ∧ relOf (.num n) (.num m) = some .gt) := by
  by_cases h1 : n < m
  · exact Or.inl ⟨h1, by simp [relOf, h1]⟩
  · by_cases h2 : n = m
    · exact Or.inr (Or.inl ⟨h2, by simp [relOf, h2]⟩)
    · exact Or.inr (Or.inr ⟨by omega, by simp [relOf, h1, h2]⟩)

/-- **cmpT_opTable.**  The hand-written three-valued comparison of the model is the interpretation of `opTable`, on all
scalar values. -/
theorem cmpT_opTable (op : Cmp) (a b : SqlOperand) (va vb : Val) (hva : Scalar va) (hvb : Scalar vb)
    (ha : Consistent a va) (hb : Consistent b vb) :
    cmpT opTable op a b va vb = sqlCmpV op a b va vb := by
  have hlook : ∀ s, lookupOp opTable (.cmp op s) = some (.cmp (cmpRow op s)) := by
    intro s; cases op <;> cases s <;> rfl
  simp only [cmpT, hlook]
  rcases hva with rfl | ⟨n, rfl⟩ <;> rcases hvb with rfl | ⟨m, rfl⟩
  · -- NULL, NULL
    cases a with
    | col c => cases b with
      | col d => cases op <;> simp [sidesOf, isLitOperand, cmpRow, ordRel, relOf, CmpForm.sem, SqlRel.sem, Rel.bothNull, sqlCmpV, sqlCmpVal, null_bne_null]
      | lit k =>
        cases k with
        | none => cases op <;> simp [sidesOf, isLitOperand, cmpRow, ordRel, relOf, CmpForm.sem, SqlRel.sem, Rel.bothNull, sqlCmpV, sqlCmpVal, null_bne_null]
        | some k => simp [Consistent, litVal] at hb
    | lit j =>
      cases j with
      | some j => simp [Consistent, litVal] at ha
      | none => cases b with
        | col d => cases op <;> simp [sidesOf, isLitOperand, cmpRow, ordRel, relOf, CmpForm.sem, SqlRel.sem, Rel.bothNull, Sides.swap, Rel.swap, sqlCmpV, sqlCmpVal, null_bne_null]
        | lit k =>
          cases k with
          | none => cases op <;> simp [sidesOf, isLitOperand, cmpRow, ordRel, relOf, CmpForm.sem, SqlRel.sem, Rel.bothNull, sqlCmpV, sqlCmpVal, null_bne_null]
          | some k => simp [Consistent, litVal] at hb
  · -- NULL, number
    cases a with
    | col c => cases b with
      | col d => cases op <;> simp [sidesOf, isLitOperand, cmpRow, ordRel, relOf, CmpForm.sem, SqlRel.sem, Rel.bothNull, sqlCmpV, sqlCmpVal, null_bne_num, null_beq_num]
      | lit k =>
        cases k with
        | none => simp [Consistent, litVal] at hb
        | some k => cases op <;> simp [sidesOf, isLitOperand, cmpRow, ordRel, relOf, CmpForm.sem, SqlRel.sem, Rel.bothNull, sqlCmpV, sqlCmpVal, null_bne_num, null_beq_num]
    | lit j =>
      cases j with
      | some j => simp [Consistent, litVal] at ha
      | none => cases b with
        | col d => cases op <;> simp [sidesOf, isLitOperand, cmpRow, ordRel, relOf, CmpForm.sem, SqlRel.sem, Rel.bothNull, Sides.swap, Rel.swap, sqlCmpV, sqlCmpVal, null_bne_num, null_beq_num, num_beq_null]
        | lit k =>
          cases k with
          | none => simp [Consistent, litVal] at hb
          | some k => cases op <;> simp [sidesOf, isLitOperand, cmpRow, ordRel, relOf, CmpForm.sem, SqlRel.sem, Rel.bothNull, sqlCmpV, sqlCmpVal, null_bne_num, null_beq_num, num_beq_null]
  · -- number, NULL
    cases a with
    | col c => cases b with
      | col d => cases op <;> simp [sidesOf, isLitOperand, cmpRow, ordRel, relOf, CmpForm.sem, SqlRel.sem, Rel.bothNull, sqlCmpV, sqlCmpVal, num_bne_null, num_beq_null]
      | lit k =>
        cases k with
        | some k => simp [Consistent, litVal] at hb
        | none => cases op <;> simp [sidesOf, isLitOperand, cmpRow, ordRel, relOf, CmpForm.sem, SqlRel.sem, Rel.bothNull, sqlCmpV, sqlCmpVal, num_bne_null, num_beq_null]
    | lit j =>
      cases j with
      | none => simp [Consistent, litVal] at ha
      | some j => cases b with
        | col d => cases op <;> simp [sidesOf, isLitOperand, cmpRow, ordRel, relOf, CmpForm.sem, SqlRel.sem, Rel.bothNull, Sides.swap, Rel.swap, sqlCmpV, sqlCmpVal, num_bne_null, num_beq_null, null_beq_num]
        | lit k =>
          cases k with
          | some k => simp [Consistent, litVal] at hb
          | none => cases op <;> simp [sidesOf, isLitOperand, cmpRow, ordRel, relOf, CmpForm.sem, SqlRel.sem, Rel.bothNull, sqlCmpV, sqlCmpVal, num_bne_null, num_beq_null, null_beq_num]
  · -- two numbers: every row of the table reads as the plain comparison
    have hsem : ∀ s, (relOf (.num n) (.num m)).bind ((cmpRow op s).sem s) = some (cmpInt op n m) := by
      intro s
      rcases relOf_num n m with ⟨h, hr⟩ | ⟨h, hr⟩ | ⟨h, hr⟩ <;> rw [hr] <;> cases op <;> cases s <;>
        simp [cmpRow, ordRel, CmpForm.sem, SqlRel.sem, plainRel, Rel.swap, Rel.isEq, Rel.isLt, Rel.isGt, cmpInt] <;> omega
    rw [hsem]
    have hnull : ∀ k : Int, (Val.num k == Val.null) = false := num_beq_null
    cases a with
    | col c => cases b with
      | col d => cases op <;> simp [sqlCmpV, sqlCmpVal, cmpInt, num_beq, num_bne]
      | lit k =>
        cases k with
        | none => simp [Consistent, litVal] at hb
        | some k => cases op <;> simp [sqlCmpV, sqlCmpVal, cmpInt, num_beq, num_bne]
    | lit j =>
      cases j with
      | none => simp [Consistent, litVal] at ha
      | some j => cases b with
        | col d => cases op <;> simp [sqlCmpV, sqlCmpVal, cmpInt, num_beq, num_bne]
        | lit k =>
          cases k with
          | none => simp [Consistent, litVal] at hb
          | some k => cases op <;> simp [sqlCmpV, sqlCmpVal, cmpInt, num_beq, num_bne]

/-- **memT_opTable.**  The hand-written `null_safe_in` semantics of the model (`sqlIn`) is the interpretation of `opTable`. -/
theorem memT_opTable (x : Val) (vs : List (Option Int)) : memT opTable x vs = sqlIn x vs := by
  have h1 : lookupOp opTable (.contains .leftColl) = some (.nullSafeIn .right) := rfl
  have h2 : lookupOp opTable (.member false) = some (.mem .inAll) := rfl
  have h3 : lookupOp opTable (.member true) = some (.mem (.or .inNonNull .isNull)) := rfl
  unfold memT
  rw [h1]
  cases hc : vs.contains none with
  | false =>
    rw [h2]
    cases x with
    | ref i => rfl
    | null =>
      simp only [memCaseOf, hc, Option.bind_some, MemForm.sem, sqlIn, ↓reduceIte, Bool.not_false, Bool.and_true,
        Bool.false_eq_true]
    | num n =>
      simp only [memCaseOf, hc, Option.bind_some, MemForm.sem, sqlIn, Bool.false_eq_true, ↓reduceIte]
      cases vs.contains (some n) <;> simp
  | true =>
    rw [h3]
    cases x with
    | ref i => rfl
    | null =>
      simp only [memCaseOf, hc, Option.bind_some, MemForm.sem, sqlIn, ↓reduceIte]
      cases (vs.filter Option.isSome).isEmpty <;> simp [or3]
    | num n =>
      simp only [memCaseOf, hc, Option.bind_some, MemForm.sem, sqlIn, Bool.false_eq_true, ↓reduceIte]
      cases vs.contains (some n) <;> simp [or3]

theorem subT_aux (f : SqlForm) (hf : ∀ c, subFormSem f c = some c.rInL) (x y : Option (List Char)) :
    (match some f, x, y with
      | some f, some cs, some is => subFormSem f ⟨isInfixL is cs, isInfixL cs is⟩
      | _, _, _ => none) =
    (match x, y with
      | some container, some item => some (isInfixL item container)
      | _, _ => none) := by
  cases x <;> cases y <;> simp [hf]

/-- **subT_opTable.**  The `instr` atom of the model is the interpretation of the four substring rows of `opTable`. -/
theorem subT_opTable (db : DB) (env : List Nat) (tab : StrTab) (a b : SqlSOperand) :
    subT opTable a b (strOperandVal db env tab a) (strOperandVal db env tab b) = evalSql db env (.instr tab a b) := by
  cases a <;> cases b
  · exact subT_aux (.instrGt0 false) (fun _ => rfl) _ _
  · exact subT_aux (.instrGt0 false) (fun _ => rfl) _ _
  · exact subT_aux (.instrGt0 false) (fun _ => rfl) _ _
  · exact subT_aux (.pyIn false) (fun _ => rfl) _ _

/-- **evalSqlT_opTable.**  On a WHERE condition whose compared values are scalars (what `Good` gives on the fragment), the
statement evaluated through `opTable` is the hand-written `evalSql` (the model every other C07 theorem and the
correspondence are about). -/
def ScalarCond (db : DB) (env : List Nat) : SqlCond → Prop
  | .and a b | .or a b => ScalarCond db env a ∧ ScalarCond db env b
  | .cmp _ a b => Scalar (sqlOperandVal db env a) ∧ Scalar (sqlOperandVal db env b)
  | _ => True

theorem evalSqlT_opTable (db : DB) (env : List Nat) : ∀ c, ScalarCond db env c →
    evalSqlT opTable db env c = evalSql db env c := by
  intro c
  induction c with
  | and a b iha ihb => intro h; simp only [evalSqlT, evalSql, iha h.1, ihb h.2]
  | or a b iha ihb => intro h; simp only [evalSqlT, evalSql, iha h.1, ihb h.2]
  | cmp op a b =>
    intro h
    simp only [evalSqlT, evalSql, sqlCmp]
    exact cmpT_opTable op a b _ _ h.1 h.2 (by cases a <;> simp [Consistent, sqlOperandVal])
      (by cases b <;> simp [Consistent, sqlOperandVal])
  | inList c vs => intro _; simp only [evalSqlT, evalSql]; exact memT_opTable _ vs
  | instr tab a b => intro _; simp only [evalSqlT]; exact subT_opTable db env tab a b
  | truthy c => intro _; rfl
  | like tab c k => intro _; rfl
  | truthyStr tab c => intro _; rfl
  | pyConst b v i n => intro _; rfl
  | strNonEmpty tab c => intro _; rfl
  | rowIs v i n => intro _; rfl

/-! ## Tables that do NOT pass (tests by `decide`: a seeded change and the code before two fixes) -/

def setRows (T : OpTable) (p : EqlOp → Option SqlForm) : OpTable :=
  T.map fun (k, f) => (k, (p k).getD f)

/-- seeded change C07-r4m2: `le` bound to `operator.lt` in a lookup table -/
def leAsLtTable : OpTable := setRows opTable fun k => match k with | .cmp .le _ => some (.cmp ⟨.lt, false⟩) | _ => none
/-- before fix 1eb4fe3: `!=` rendered `left != right` (UNKNOWN on NULL: F-C07-2) -/
def legacyNeTable : OpTable := setRows opTable fun k => match k with | .cmp .ne _ => some (.cmp ⟨.ne, false⟩) | _ => none
/-- before fix 1eb4fe3: `column.in_(values)` also when None is among the values (F-C07-2) -/
def legacyInTable : OpTable := setRows opTable fun k => match k with | .member true => some (.mem .inAll) | _ => none
/-- before fix 20e7107: `contains(column, "literal")` rendered with LIKE (F-C07-5) -/
def likeTable : OpTable := setRows opTable fun k => match k with | .contains .colStr => some (.like false) | _ => none
/-- `ge` mapped to `>` (DESIGN §8) -/
def geAsGtTable : OpTable := setRows opTable fun k => match k with | .cmp .ge _ => some (.cmp ⟨.gt, false⟩) | _ => none
/-- operands of `<` swapped -/
def ltSwappedTable : OpTable := setRows opTable fun k => match k with | .cmp .lt s => some (.cmp ⟨.lt, true⟩) | _ => none
/-- a harmless variant that DOES pass: `a >= b` written `b <= a`, `a != b` between a literal and a column written with the
column as receiver in both orders -/
def harmlessVariantTable : OpTable :=
  setRows opTable fun k => match k with | .cmp .ge _ => some (.cmp ⟨.le, true⟩) | _ => none

theorem C07_table_cex_le_as_lt : tableOk leAsLtTable = false := by decide
theorem C07_table_cex_legacy_ne : tableOk legacyNeTable = false := by decide
theorem C07_table_cex_legacy_in : tableOk legacyInTable = false := by decide
theorem C07_table_cex_like : tableOk likeTable = false := by decide
example : tableOk geAsGtTable = false := by decide
example : tableOk ltSwappedTable = false := by decide
/-- `C07_table_preserves` is not vacuous beyond `opTable`: a different table passes too -/
example : tableOk harmlessVariantTable = true ∧ harmlessVariantTable ≠ opTable := by decide

/-! ## Dispatch and rejection tables -/

def operandKind : Operand → NodeKind
  | .chain _ => .attribute
  | .lit _ => .literal
  | .other .index => .index
  | .other .call => .call
  | .other .flatten => .flatten
  | .other .nested => .nestedQuery
  | .other .selfVar => .variable
  | .other .objLit => .literal
  | .var _ _ => .variable
  | .obj _ => .literal

/-- **C07_dispatch_rejects.**  The node kinds `dispatch` has no case for are exactly the constructors outside the
dispatch of the hand-written translator, and each of them is refused with the error class `rejects` names. -/
theorem C07_dispatch_rejects (S : Schema) (vars : List Cls) (uo : Bool) (e : Expr) (st : St) :
    (dispatch.lookup (exprKind e) = none ↔ OutsideDispatch e) ∧
    (dispatch.lookup (exprKind e) = none →
      ∃ err, (rejects.lookup .condNodeOther).bind ErrClass.toTrErr = some err ∧ tr S vars uo e st = .error (.rejected err)) := by
  refine ⟨?_, ?_⟩
  · cases e <;> (simp only [exprKind, OutsideDispatch]; decide)
  · intro h
    refine ⟨.unsupportedQueryType, rfl, ?_⟩
    cases e <;> first | (exfalso; revert h; simp only [exprKind]; decide) | simp [tr]

/-- **C07_operand_rejects.**  An operand of a kind `operandDispatch` has no case for is refused with the error class
`rejects` names (Index / Call / Flatten / nested query: `UnsupportedQueryTypeError`, fix c10063e). -/
theorem C07_operand_rejects (S : Schema) (vars : List Cls) (o : Operand) (st : St)
    (h : operandDispatch.lookup (operandKind o) = none) :
    ∃ err, (rejects.lookup .operandSymbolicOther).bind ErrClass.toTrErr = some err ∧
      trOperand S vars o st = .error (.rejected err) := by
  refine ⟨.unsupportedQueryType, rfl, ?_⟩
  cases o with
  | chain c => exfalso; revert h; simp only [operandKind]; decide
  | lit v => exfalso; revert h; simp only [operandKind]; decide
  | var v s => exfalso; revert h; simp only [operandKind]; decide
  | obj i => exfalso; revert h; simp only [operandKind]; decide
  | other k => cases k <;> first | (exfalso; revert h; simp only [operandKind]; decide) | rfl

/-- `set_of` and a missing DAO are refused with the classes `rejects` names -/
theorem C07_query_rejects (S : Schema) (q : Query) :
    (q.kind = .setOf → ∃ err, (rejects.lookup .selectNotEntity).bind ErrClass.toTrErr = some err ∧
      translate S q = .error (.rejected err)) ∧
    (∀ sel, q.kind = .entity → q.vars[0]? = some sel → findClass S sel = none →
      ∃ err, (rejects.lookup .noDaoForSelected).bind ErrClass.toTrErr = some err ∧
        translate S q = .error (.rejected err)) := by
  refine ⟨fun h => ⟨.unsupportedQueryType, rfl, by simp [translate, h]⟩, fun sel hk hv hf => ⟨.missingDAO, rfl, ?_⟩⟩
  simp [translate, hk, hv, hf]

end KrroodVerif.SqlTr
