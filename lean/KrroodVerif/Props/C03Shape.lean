import KrroodVerif.Lemmas.DomShapeLemmas
import KrroodVerif.Props.C03
/-!
# C03 — second tie by translation: `HashedIterable.__iter__` / `__bool__` as an `IterShape`

`harness/translate/c03_translate.py` regenerates `Translated.shape : IterShape` from the CURRENT Python AST on every
run; the kernel then re-checks, by `decide`,

* `Translated.shape = Dom.shape ∨ Translated.shape = Dom.shapeIdx ∨ Translated.shape = Dom.shapeSnap` (the code is one of
  the two hand-written machines, or the snapshot variant of today's),
* `IterOk Translated.shape` (and `IterFullOk Translated.shape` once F-C03-1 is recorded as fixed).

This file turns these finite facts into statements about ALL domains, query families and schedules:

* `C03_shape_is_model` / `C03_shape_is_model_idx` — the machine interpreted from today's shape (`runS shape`) IS the
  hand-written machine `run` of `Model/Dom.lean` (from `step_eq_interp`, every state), and `runS shapeIdx` IS `runIdx`;
  for EVERY schedule, overlapping or not;
* `C03_shape_nonoverlap` — `IterOk s →` every non-overlapping schedule meets the specification;
* `C03_shape_full` — `IterFullOk s →` EVERY schedule meets the specification (`C03_full` is its instance `shapeIdx`);
* `C03_shape_cex` — each way of leaving `IterOk` that has been seen (seeded changes C02-m2, C01-r2m2, C03-m1, C09-r3m2,
  C10-r2m1, C03-r4m1, C09-r5m1, C11-r5m2) breaks the specification on a NON-overlapping schedule (tests by `decide`);
* `C03_shape_handed_out_cached` — for `IterOk` shapes a handed-out value is cached, so `__getitem__` never pulls for it;
* `C03_shape_ok_tight` — over all 288 shapes: `IterOk` fails exactly where one of three fixed non-overlapping witness
  schedules fails (apart from `truth = sourceOnly`, which this machine cannot tell from `valuesOrSource`).
-/
namespace KrroodVerif.Dom

/-- the decidable condition checked on the regenerated shape: see `IterShape.coreOk` -/
def IterOk (s : IterShape) : Prop := s.ok = true
/-- … with index cursors in phase 1 -/
def IterFullOk (s : IterShape) : Prop := s.fullOk = true

instance (s : IterShape) : Decidable (IterOk s) := inferInstanceAs (Decidable (s.ok = true))
instance (s : IterShape) : Decidable (IterFullOk s) := inferInstanceAs (Decidable (s.fullOk = true))

theorem IterOk_cases {s : IterShape} (h : IterOk s) : s = shape ∨ s = shapeSnap ∨ s = shapeIdx := by
  obtain ⟨p, co, cw, so, ae, tr⟩ := s
  simp only [IterOk, IterShape.ok, IterShape.coreOk, Bool.and_eq_true, Bool.not_eq_true', beq_iff_eq] at h
  obtain ⟨⟨⟨⟨rfl, rfl⟩, rfl⟩, rfl⟩, rfl⟩ := h
  cases p
  · exact .inl rfl
  · exact .inr (.inl rfl)
  · exact .inr (.inr rfl)

theorem IterFullOk_eq {s : IterShape} (h : IterFullOk s) : s = shapeIdx := by
  obtain ⟨p, co, cw, so, ae, tr⟩ := s
  simp only [IterFullOk, IterShape.fullOk, IterShape.coreOk, Bool.and_eq_true, Bool.not_eq_true', beq_iff_eq] at h
  obtain ⟨rfl, ⟨⟨⟨⟨rfl, rfl⟩, rfl⟩, rfl⟩, rfl⟩⟩ := h
  rfl

theorem IterFullOk.ok {s : IterShape} (h : IterFullOk s) : IterOk s := by
  rw [IterFullOk_eq h]; decide

/-- **C03_shape_is_model** (today's code, EVERY schedule): the machine interpreted from `Dom.shape` produces exactly
the outputs of the hand-written machine of `Model/Dom.lean` — so every theorem of `Props/C03.lean` about `run` is a
theorem about the interpretation of the regenerated shape whenever `Translated.shape = Dom.shape`. -/
theorem C03_shape_is_model (n : Nat) (sats : Nat → List Nat) (ops : List Op) :
    runS shape sats (initS n) ops = run sats (init n) ops := by
  rw [← embS_init, run_eq_interp]

/-- **C03_shape_is_model_idx** (the repaired code, EVERY schedule): the same for `Dom.shapeIdx` and `runIdx`. -/
theorem C03_shape_is_model_idx (n : Nat) (sats : Nat → List Nat) (ops : List Op) :
    runS shapeIdx sats (initS n) ops = runIdx sats (initIdx n) ops := by
  rw [← embSI_init, runIdx_eq_interp]

/-! ### snapshot replay: indistinguishable from the live view as long as the live view does not fail -/

theorem stepS_snap (d : SDom) (c : SCursor) :
    stepS shapeSnap d c = stepS shape d c ∨ (stepS shape d c).2.2 = .runtimeError := by
  cases c with
  | fresh => exact .inl rfl
  | replay i size =>
    by_cases hs : d.cache.length = size
    · left
      subst hs
      simp [stepS, shapeSnap, shape, afterReplay]
      generalize (if i < d.cache.length then d.cache[i]? else none) = o
      cases o <;> rfl
    · right
      have hb : (d.cache.length != size) = true := by simpa using hs
      simp [stepS, shape, hb]
  | drain own held => exact .inl rfl
  | done => exact .inl rfl

theorem qnextS_snap (sat : List Nat) : ∀ (fuel : Nat) (d : SDom) (c : SCursor),
    qnextS shapeSnap d ⟨c, sat⟩ fuel = qnextS shape d ⟨c, sat⟩ fuel ∨
      (qnextS shape d ⟨c, sat⟩ fuel).2.2 = .runtimeError := by
  intro fuel
  induction fuel with
  | zero => intro d c; exact .inl rfl
  | succ fuel ih =>
    intro d c
    rcases stepS_snap d c with h | h
    · simp only [qnextS, h]
      rcases hst : stepS shape d c with ⟨d', c', o⟩
      cases o with
      | val x =>
        by_cases hx : sat.contains x = true
        · left; simp only [hx, if_true]
        · have hx' : sat.contains x = false := by simpa using hx
          simp only [hx', Bool.false_eq_true, if_false]
          exact ih d' c'
      | stop => exact .inl rfl
      | runtimeError => exact .inl rfl
      | valueError => exact .inl rfl
    · right
      simp only [qnextS]
      rcases hst : stepS shape d c with ⟨d', c', o⟩
      rw [hst] at h
      simp only at h
      subst h
      rfl

theorem runS_snap (sats : Nat → List Nat) : ∀ (ops : List Op) (st : SState),
    some Out.runtimeError ∉ runS shape sats st ops → runS shapeSnap sats st ops = runS shape sats st ops := by
  intro ops
  induction ops with
  | nil => intros; rfl
  | cons op ops ih =>
    intro st hno
    cases op with
    | start i =>
      simp only [runS, run1S, List.mem_cons, not_or] at hno ⊢
      congr 1
      exact ih _ hno.2
    | abandon i =>
      simp only [runS, run1S, List.mem_cons, not_or] at hno ⊢
      congr 1
      exact ih _ hno.2
    | next i =>
      simp only [runS, run1S] at hno ⊢
      cases hq : st.its.lookup i with
      | none =>
        simp only [hq, List.mem_cons, not_or] at hno ⊢
        congr 1
        exact ih _ hno.2
      | some q =>
        obtain ⟨qc, qs⟩ := q
        simp only [hq, List.mem_cons, not_or] at hno ⊢
        rcases qnextS_snap qs (st.dom.cache.length + st.dom.rest.length + qc.ownLen + 2) st.dom qc with h | h
        · rw [h]
          congr 1
          exact ih _ hno.2
        · exact absurd (by rw [h]) hno.1

theorem specRun_no_error (n : Nat) (sats : Nat → List Nat) : ∀ (ops : List Op) (st : List (Nat × Nat)),
    some Out.runtimeError ∉ specRun n sats st ops := by
  intro ops
  induction ops with
  | nil => intro st; simp [specRun]
  | cons op ops ih =>
    intro st
    cases op with
    | start i => simp only [specRun, List.mem_cons, not_or]; exact ⟨by simp, ih _⟩
    | abandon i => simp only [specRun, List.mem_cons, not_or]; exact ⟨by simp, ih _⟩
    | next i =>
      simp only [specRun]
      cases st.lookup i with
      | none => simp only [List.mem_cons, not_or]; exact ⟨by simp, ih _⟩
      | some k =>
        simp only
        cases (isolated n (sats i))[k]? with
        | none => simp only [List.mem_cons, not_or]; exact ⟨by simp, ih _⟩
        | some x => simp only [List.mem_cons, not_or]; exact ⟨by simp, ih _⟩

/-- **C03_shape_nonoverlap** (generic; the per-run obligation `IterOk Translated.shape` makes it a statement about
the current code). For every shape satisfying `IterOk` — whatever phase 1 is: live dict view, snapshot list or index —
every domain size, every family of queries and every schedule whose consumption phases do not overlap (any abandonment
point, any number of re-evaluations, iterators created in advance), every `next()` of the interpreted machine returns
what the same query returns alone on a fresh query. -/
theorem C03_shape_nonoverlap (s : IterShape) (hok : IterOk s) (n : Nat) (sats : Nat → List Nat) (ops : List Op)
    (hno : noOverlap ops = true) : runS s sats (initS n) ops = specRun n sats [] ops := by
  have htoday : runS shape sats (initS n) ops = specRun n sats [] ops := by
    rw [C03_shape_is_model, C03_nonoverlap_partial n sats ops hno]
  rcases IterOk_cases hok with rfl | rfl | rfl
  · exact htoday
  · rw [runS_snap sats ops (initS n) (by rw [htoday]; exact specRun_no_error n sats ops []), htoday]
  · rw [C03_shape_is_model_idx, C03_full]

/-- **C03_shape_full** (generic). For every shape satisfying `IterFullOk`, EVERY schedule — any interleaving of any
number of iterators, nested loops, abandonment, re-evaluation — meets the specification. `C03_full` is the instance
`s = shapeIdx` read through `C03_shape_is_model_idx`. -/
theorem C03_shape_full (s : IterShape) (hok : IterFullOk s) (n : Nat) (sats : Nat → List Nat) (ops : List Op) :
    runS s sats (initS n) ops = specRun n sats [] ops := by
  rw [IterFullOk_eq hok, C03_shape_is_model_idx, C03_full]

/-! ## Non-vacuity (tests by `decide`) -/

example : IterOk shape ∧ IterOk shapeSnap ∧ IterOk shapeIdx ∧ IterFullOk shapeIdx ∧ ¬ IterFullOk shape ∧
    ¬ IterFullOk shapeSnap := by decide

example : runS shapeSnap nvSats (initS 4) nvOps2 = specRun 4 nvSats [] nvOps2 :=
  C03_shape_nonoverlap shapeSnap (by decide) 4 nvSats nvOps2 (by decide)

/-- the snapshot shape really differs from today's on an overlapping schedule (no RuntimeError, a lost element
instead), and neither meets the specification there -/
example :
    runS shapeSnap cexSats (initS 3) cexOpsErr =
      [none, some (.val 0), none, some (.val 0), some (.val 1), some (.val 2)] ∧
    runS shape cexSats (initS 3) cexOpsErr =
      [none, some (.val 0), none, some (.val 0), some (.val 1), some .runtimeError] ∧
    specRun 3 cexSats [] cexOpsErr =
      [none, some (.val 0), none, some (.val 0), some (.val 1), some (.val 1)] := by decide

example : runS shapeIdx cexSats (initS 3) cexOps = specRun 3 cexSats [] cexOps :=
  C03_shape_full shapeIdx (by decide) 3 cexSats cexOps

/-! ## Leaving `IterOk` breaks the property on NON-overlapping schedules (tests by `decide`) -/

/-- first evaluation reads one result and is closed, the second one runs to the end -/
def shapeOpsAbandon : List Op :=
  [.start 0, .next 0, .abandon 0, .start 1, .next 1, .next 1, .next 1, .next 1]

/-- a query over an EMPTY domain evaluated twice -/
def shapeOpsEmpty : List Op := [.start 0, .next 0, .start 1, .next 1]

/-- one evaluation of a fresh query -/
def shapeOpsOnce : List Op := [.start 0, .next 0]

/-- **C03_shape_cex.** The shapes of the seeded changes, each on a `noOverlap` schedule:
`cacheWhen = afterYield` (C03-m1, C10-r2m1, C09-r3m2) and `never`: the element handed out last is lost;
`atEnd` (C01-r2m2): likewise; `source = takeOver` (C11-r5m2): everything after it is lost; `cachedOnly` (C02-m2): the
un-cached tail is never read; `atEnd = release` (C03-r4m1, C09-r5m1): the second evaluation over an empty domain
raises ValueError; `truth = valuesOnly`: already the first evaluation does. -/
theorem C03_shape_cex :
    noOverlap shapeOpsAbandon = true ∧ noOverlap shapeOpsEmpty = true ∧ noOverlap shapeOpsOnce = true ∧
    specRun 3 cexSats [] shapeOpsAbandon =
      [none, some (.val 0), none, none, some (.val 0), some (.val 1), some (.val 2), some .stop] ∧
    runS { shape with cacheWhen := .afterYield } cexSats (initS 3) shapeOpsAbandon =
      [none, some (.val 0), none, none, some (.val 1), some (.val 2), some .stop, some .stop] ∧
    runS { shape with cacheWhen := .never } cexSats (initS 3) shapeOpsAbandon =
      [none, some (.val 0), none, none, some (.val 1), some (.val 2), some .stop, some .stop] ∧
    runS { shape with cacheWhen := .atEnd } cexSats (initS 3) shapeOpsAbandon =
      [none, some (.val 0), none, none, some (.val 1), some (.val 2), some .stop, some .stop] ∧
    runS { shape with source := .takeOver } cexSats (initS 3) shapeOpsAbandon =
      [none, some (.val 0), none, none, some (.val 0), some .stop, some .stop, some .stop] ∧
    runS { shape with cachedOnly := true } cexSats (initS 3) shapeOpsAbandon =
      [none, some (.val 0), none, none, some (.val 0), some .stop, some .stop, some .stop] ∧
    specRun 0 cexSats [] shapeOpsEmpty = [none, some .stop, none, some .stop] ∧
    runS { shape with atEnd := .release } cexSats (initS 0) shapeOpsEmpty =
      [none, some .stop, none, some .valueError] ∧
    specRun 1 cexSats [] shapeOpsOnce = [none, some (.val 0)] ∧
    runS { shape with truth := .valuesOnly } cexSats (initS 1) shapeOpsOnce = [none, some .valueError] := by
  decide

/-- the three witness schedules of `C03_shape_ok_tight`, as one test -/
def passesWitnesses (s : IterShape) : Bool :=
  runS s cexSats (initS 3) shapeOpsAbandon == specRun 3 cexSats [] shapeOpsAbandon &&
  runS s cexSats (initS 0) shapeOpsEmpty == specRun 0 cexSats [] shapeOpsEmpty &&
  runS s cexSats (initS 1) shapeOpsOnce == specRun 1 cexSats [] shapeOpsOnce

/-- **C03_shape_ok_tight** (all 288 shapes; a finite table, by `decide` per shape). `IterOk` is not stricter than
the property: a shape that is not `IterOk` fails one of three fixed NON-overlapping witness schedules — except that this
machine (whose source is always a generator object) cannot tell `truth = sourceOnly` from `valuesOrSource`;
`sourceOnly` is excluded from `IterOk` because a `HashedIterable(values=…)` without a source must be truthy. -/
theorem C03_shape_ok_tight (s : IterShape) (ht : s.truth ≠ .sourceOnly) :
    IterOk s ↔ passesWitnesses s = true := by
  obtain ⟨p, co, cw, so, ae, tr⟩ := s
  cases tr
  · cases p <;> cases co <;> cases cw <;> cases so <;> cases ae <;> decide
  · cases p <;> cases co <;> cases cw <;> cases so <;> cases ae <;> decide
  · exact absurd rfl ht

/-! ## `__getitem__` / `__contains__` never read the source for a value the engine has in hand -/

/-- **C03_shape_handed_out_cached** (every `IterOk` shape, every state and cursor): a value handed out by one `next()` is
in the cache when the caller gets it, and nothing is ever removed from the cache. So `HashedIterable.__getitem__` (the only
other reader of the shared source: it pulls only for an id that is NOT cached; its body is checked by the translator) never
pulls for a value the engine has in hand, and the schedule machine may ignore it. -/
theorem C03_shape_handed_out_cached (s : IterShape) (hok : IterOk s) (d : SDom) (c : SCursor) :
    (∀ x, (stepS s d c).2.2 = .val x → x ∈ (stepS s d c).1.cache) ∧
    (∀ y, y ∈ d.cache → y ∈ (stepS s d c).1.cache) := by
  obtain ⟨cache, rest, rel⟩ := d
  have hm : ∀ (i : Nat) (x : Nat), cache[i]? = some x → x ∈ cache := fun i x h => List.mem_of_getElem? h
  rcases IterOk_cases hok with rfl | rfl | rfl <;> cases c <;>
    simp only [stepS, shape, shapeSnap, shapeIdx, truthy, afterReplay, enterPull, pullStep, emit, finish, idxPull] <;>
    (repeat' split) <;> simp_all <;> grind

/-- necessity: with `cacheWhen = afterYield` the value in the caller's hand is NOT cached (test by `decide`) -/
example :
    (stepS { shape with cacheWhen := .afterYield } { cache := [], rest := [7, 8], released := false } .fresh).2.2 = .val 7 ∧
    (stepS { shape with cacheWhen := .afterYield } { cache := [], rest := [7, 8], released := false } .fresh).1.cache = [] ∧
    (stepS shape { cache := [], rest := [7, 8], released := false } .fresh).1.cache = [7] := by decide

end KrroodVerif.Dom
