import KrroodVerif.Props.C20
import KrroodVerif.Props.C14
import KrroodVerif.Lemmas.HeapReach
/-!
# C20, run level — at every point of every history nothing is alive that the user cannot reach

`C20_wf_run`: in every history (every schema, allocator, `id()` recycling) the heap of the model of the code as it is
mentions live instances only. `C20_no_garbage_after_collect_run`: hence a `gc.collect()` at ANY point of ANY history leaves
no garbage (`Heap.collect` is idempotent on every heap a history produces). `C20_no_garbage_run`: for EVERY schema the
garbage list is empty at every point of every history (the model's `set` on a container field ends with a collection, as
the one on a scalar field does: its inference may overwrite a scalar field — `parent` of `children` — and CPython frees the
overwritten value at once; `C20_cex_container_overwrite` is the regression witness of the former model lag).
`C20_drop_all_clean` (every schema): once the user holds no instance and no query object nothing is alive and after a
sweep every SymbolGraph structure is empty.
-/
namespace KrroodVerif.SG

variable {σ : Type}

/-- the inference started by a relation on a container (non-scalar) field only writes container fields -/
structure Schema.ContainerClosed (S : Schema) : Prop where
  supers : ∀ f c f', S.kind f ≠ .scalar → f' ∈ S.supers f c → S.kind f' ≠ .scalar
  takerSupers : ∀ f c f', S.kind f ≠ .scalar → f' ∈ S.takerSupers f c → S.kind f' ≠ .scalar
  inverse : ∀ f c f', S.kind f ≠ .scalar → S.inverse f c = some f' → S.kind f' ≠ .scalar
  takerInverse : ∀ f c f', S.kind f ≠ .scalar → S.takerInverse f c = some f' → S.kind f' ≠ .scalar
  trans : ∀ f f', S.kind f ≠ .scalar → S.transitive f = true → S.desc f' = S.desc f → S.kind f' ≠ .scalar

/-- `specAddFact_inv` (Props/C14.lean) with a predicate on the fields the inference goes through -/
theorem specAddFact_invP (S : Schema) (I : Spec → Prop) (E : R → Prop) (P : Fld → Prop)
    (hrecord : ∀ s f a b inf, I s → P f → E a → E b → I (s.record S f a b inf))
    (hensure : ∀ s y, I s → y ∈ s.h.live → I (s.ensure y) ∧ E ⟨y.obj, y.cls⟩)
    (hedge : ∀ s e, I s → e ∈ s.edges → E e.src ∧ E e.tgt)
    (hsup : ∀ f c f', P f → f' ∈ S.supers f c → P f')
    (htsup : ∀ f c f', P f → f' ∈ S.takerSupers f c → P f')
    (hinv : ∀ f c f', P f → S.inverse f c = some f' → P f')
    (htinv : ∀ f c f', P f → S.takerInverse f c = some f' → P f')
    (htr : ∀ f f', P f → S.transitive f = true → S.desc f' = S.desc f → P f') :
    ∀ (fuel : Nat) (s : Spec) (f : Fld) (a b : R) (inf : Bool), I s → P f → E a → E b →
      I (specAddFact S fuel s f a b inf)
  | 0, _, _, _, _, _, h, _, _, _ => h
  | fuel + 1, s, f, a, b, inf, h, hP, ha, hb => by
    unfold specAddFact
    split
    · exact h
    have hrec : ∀ s f a b, I s → P f → E a → E b → I ((fun s f a b => specAddFact S fuel s f a b true) s f a b) :=
      fun s f a b h hP ha hb =>
        specAddFact_invP S I E P hrecord hensure hedge hsup htsup hinv htinv htr fuel s f a b true h hP ha hb
    have h1 := hrecord s f a b inf h hP ha hb
    have h2 : I (Spec.inferSupers S (fun s f a b => specAddFact S fuel s f a b true) (s.record S f a b inf) f a b) := by
      unfold Spec.inferSupers
      have hd := foldl_specInv I (fun f' => P f') (fun s f' => specAddFact S fuel s f' a b true)
        (fun s f' hs hf' => hrec s f' a b hs hf' ha hb) (S.supers f a.cls) _ h1
        (fun f' hf' => hsup f a.cls f' hP hf')
      generalize (S.supers f a.cls).foldl (fun s f' => specAddFact S fuel s f' a b true) (s.record S f a b inf) = s1
        at hd ⊢
      unfold Spec.inferTakerSupers
      split
      · exact hd
      · split
        · exact hd
        · rename_i y hy
          have he := hensure s1 y hd (takerOf_live hy)
          exact foldl_specInv I (fun f' => P f') _ (fun s f' hs hf' => hrec s f' _ b hs hf' he.2 hb) _ _ he.1
            (fun f' hf' => htsup f a.cls f' hP hf')
    generalize Spec.inferSupers S (fun s f a b => specAddFact S fuel s f a b true) (s.record S f a b inf) f a b = s2
      at h2 ⊢
    have h3 : I (Spec.inferInverse S (fun s f a b => specAddFact S fuel s f a b true) s2 f a b) := by
      unfold Spec.inferInverse
      split
      · rename_i f' hf'
        exact hrec _ _ _ _ h2 (hinv f b.cls f' hP hf') hb ha
      · split
        · exact h2
        · rename_i f' hf'
          split
          · exact h2
          · rename_i y hy
            have he := hensure s2 y h2 (takerOf_live hy)
            exact hrec _ _ _ _ he.1 (htinv f b.cls f' hP hf') he.2 ha
    generalize Spec.inferInverse S (fun s f a b => specAddFact S fuel s f a b true) s2 f a b = s3 at h3 ⊢
    unfold Spec.inferTransitive
    split
    · rename_i htrans
      have h4 : I (Spec.inferOut S (fun s f a b => specAddFact S fuel s f a b true) s3 f a b) := by
        unfold Spec.inferOut
        refine foldl_specInv I (fun (e : AEdge) => E e.tgt ∧ P e.fld) _
          (fun s e hs he => hrec s e.fld a e.tgt hs he.2 ha he.1) _ _ h3 ?_
        intro e he
        have hm := List.mem_filter.1 (List.mem_reverse.1 he)
        have hd := hm.2
        simp only [Bool.and_eq_true, beq_iff_eq] at hd
        exact ⟨(hedge s3 e h3 hm.1).2, htr f e.fld hP htrans hd.2⟩
      generalize Spec.inferOut S (fun s f a b => specAddFact S fuel s f a b true) s3 f a b = s4 at h4 ⊢
      unfold Spec.inferIn
      refine foldl_specInv I (fun (e : AEdge) => E e.src ∧ P e.fld) _
        (fun s e hs he => hrec s e.fld e.src b hs he.2 he.1 hb) _ _ h4 ?_
      intro e he
      have hm := List.mem_filter.1 (List.mem_reverse.1 he)
      have hd := hm.2
      simp only [Bool.and_eq_true, beq_iff_eq] at hd
      exact ⟨(hedge s4 e h4 hm.1).1, htr f e.fld hP htrans hd.2⟩
    · exact h3

/-- the heap-level invariant of a history: well-formed; no root, no live instance; and — under the condition `C` (the
schema is container-closed; `False` while a scalar assignment is under way) — no garbage -/
def HK (q : Quirks) (C : Prop) (h : Heap) : Prop :=
  h.WF q ∧ (h.roots q = [] → h.live = []) ∧ (C → h.Tight q)

theorem HK.collect {q : Quirks} {C : Prop} {h : Heap} (hw : h.WF q) : HK q C (h.collect q) :=
  ⟨hw.collect, hw.collect_tight.live_nil, fun _ => hw.collect_tight⟩

theorem HK.weaken {q : Quirks} {C : Prop} {h : Heap} (hk : HK q C h) : HK q False h :=
  ⟨hk.1, hk.2.1, fun hc => hc.elim⟩

/-- the steps without a collection: live instances stay and new ones are held, references and query objects are only added
(to live instances), field contents are only added (between live instances) -/
theorem HK.of {q : Quirks} {C : Prop} {h h' : Heap} (hk : HK q C h)
    (hl : ∀ x ∈ h.live, x ∈ h'.live) (hl' : ∀ x ∈ h'.live, x ∈ h.live ∨ x.obj ∈ h'.held)
    (hheld : ∀ o ∈ h.held, o ∈ h'.held) (hheld' : ∀ o ∈ h'.held, o ∈ h.held ∨ h'.isLive o = true)
    (hqv : ∀ v ∈ h.qvars, v ∈ h'.qvars)
    (hqv' : ∀ v ∈ h'.qvars, v ∈ h.qvars ∨ (v.held = true ∧ ∀ o ∈ v.cache.getD [], h'.isLive o = true))
    (hf' : ∀ e ∈ h'.fields, e ∈ h.fields ∨ (h'.isLive e.owner = true ∧ h'.isLive e.val = true))
    (hf : C → ∀ e ∈ h.fields, e ∈ h'.fields) : HK q C h' := by
  have hroots : ∀ o ∈ h.roots q, o ∈ h'.roots q := by
    intro o ho
    rcases mem_roots.1 ho with h1 | ⟨v, h1, h2, h3⟩
    · exact mem_roots.2 (Or.inl (hheld o h1))
    · exact mem_roots.2 (Or.inr ⟨v, hqv v h1, h2, h3⟩)
  refine ⟨hk.1.of hl ?_ hf' ?_, ?_, ?_⟩
  · intro o ho
    rcases mem_roots.1 ho with h1 | ⟨v, h1, h2, h3⟩
    · rcases hheld' o h1 with h4 | h4
      · exact Or.inl (mem_roots.2 (Or.inl h4))
      · exact Or.inr h4
    · rcases hqv' v h1 with h4 | h4
      · exact Or.inl (mem_roots.2 (Or.inr ⟨v, h4, h2, h3⟩))
      · exact Or.inr (h4.2 o h3)
  · intro v hv
    rcases hqv' v hv with h4 | h4
    · exact hk.1.qheld v h4
    · simp [h4.1]
  · intro hr
    have hr0 : h.roots q = [] := by
      rw [List.eq_nil_iff_forall_not_mem]
      intro o ho
      have := hroots o ho
      rw [hr] at this; cases this
    have hl0 := hk.2.1 hr0
    rw [List.eq_nil_iff_forall_not_mem]
    intro x hx
    rcases hl' x hx with h1 | h1
    · rw [hl0] at h1; cases h1
    · have : x.obj ∈ h'.roots q := mem_roots.2 (Or.inl h1)
      rw [hr] at this; cases this
  · intro hc
    refine (hk.2.2 hc).of (fun o ho => .root (hroots o ho)) (hf hc) ?_
    intro x hx
    rcases hl' x hx with h1 | h1
    · exact Or.inl h1
    · exact Or.inr (.root (mem_roots.2 (Or.inl h1)))

/-- the ghost parts of the heap (labels used, registered labels, results, table size) play no role -/
theorem HK.congr {q : Quirks} {C : Prop} {h h' : Heap} (hk : HK q C h) (e1 : h'.live = h.live)
    (e2 : h'.held = h.held) (e3 : h'.fields = h.fields) (e4 : h'.qvars = h.qvars) : HK q C h' :=
  hk.of (fun _ hx => e1 ▸ hx) (fun _ hx => Or.inl (e1 ▸ hx)) (fun _ ho => e2 ▸ ho) (fun _ ho => Or.inl (e2 ▸ ho))
    (fun _ hv => e4 ▸ hv) (fun _ hv => Or.inl (e4 ▸ hv)) (fun _ he => Or.inl (e3 ▸ he)) (fun _ _ he => e3 ▸ he)

theorem HK.ensure {q : Quirks} {C : Prop} {s : Spec} (hk : HK q C s.h) (x : HObj) : HK q C (s.ensure x).h :=
  hk.congr rfl rfl rfl rfl

theorem updateFields_mem {S : Schema} {fields : List FEntry} {f : Fld} {a b : Obj} {e : FEntry}
    (he : e ∈ updateFields S fields f a b) : e ∈ fields ∨ e = ⟨a, f, b⟩ := by
  unfold updateFields at he
  split at he
  · rcases List.mem_append.1 he with h1 | h1
    · exact Or.inl (List.mem_filter.1 h1).1
    · exact Or.inr (by simpa using h1)
  · split at he
    · exact Or.inl he
    · rcases List.mem_append.1 he with h1 | h1
      · exact Or.inl h1
      · exact Or.inr (by simpa using h1)

theorem updateFields_sub {S : Schema} {fields : List FEntry} {f : Fld} {a b : Obj} (hk : S.kind f ≠ .scalar)
    {e : FEntry} (he : e ∈ fields) : e ∈ updateFields S fields f a b := by
  unfold updateFields
  split
  · rename_i h1; exact (hk h1).elim
  · split
    · exact he
    · exact List.mem_append_left _ he

theorem write_mem {S : Schema} {h : Heap} {f : Fld} {a b : Obj} {e : FEntry}
    (he : e ∈ (h.write S f a b).fields) : e ∈ h.fields ∨ e = ⟨a, f, b⟩ := by
  unfold Heap.write at he
  split at he
  · rcases List.mem_append.1 he with h1 | h1
    · exact Or.inl (List.mem_filter.1 h1).1
    · exact Or.inr (by simpa using h1)
  · split at he
    · exact Or.inl he
    · rcases List.mem_append.1 he with h1 | h1
      · exact Or.inl h1
      · exact Or.inr (by simpa using h1)
  · rcases List.mem_append.1 he with h1 | h1
    · exact Or.inl h1
    · exact Or.inr (by simpa using h1)

theorem write_sub {S : Schema} {h : Heap} {f : Fld} {a b : Obj} (hk : S.kind f ≠ .scalar)
    {e : FEntry} (he : e ∈ h.fields) : e ∈ (h.write S f a b).fields := by
  unfold Heap.write
  split
  · rename_i h1; exact (hk h1).elim
  · split
    · exact he
    · exact List.mem_append_left _ he
  · exact List.mem_append_left _ he

theorem write_held (S : Schema) (h : Heap) (f : Fld) (a b : Obj) : (h.write S f a b).held = h.held := by
  unfold Heap.write; split <;> (try split) <;> rfl
theorem write_qvars (S : Schema) (h : Heap) (f : Fld) (a b : Obj) : (h.write S f a b).qvars = h.qvars := by
  unfold Heap.write; split <;> (try split) <;> rfl

/-- a user assignment between live instances; `C` must imply that the field is a container -/
theorem HK.write {q : Quirks} {C : Prop} {h : Heap} (hk : HK q C h) (S : Schema) (f : Fld) (a b : Obj)
    (ha : h.isLive a = true) (hb : h.isLive b = true) (hc : C → S.kind f ≠ .scalar) : HK q C (h.write S f a b) := by
  have hisl : (h.write S f a b).isLive = h.isLive := by funext o; simp [Heap.isLive]
  refine hk.of (fun x hx => by rw [write_live]; exact hx) (fun x hx => Or.inl (by rw [write_live] at hx; exact hx))
    (fun o ho => by rw [write_held]; exact ho) (fun o ho => Or.inl (by rw [write_held] at ho; exact ho))
    (fun v hv => by rw [write_qvars]; exact hv) (fun v hv => Or.inl (by rw [write_qvars] at hv; exact hv)) ?_
    (fun hC e he => write_sub (hc hC) he)
  intro e he
  rcases write_mem he with h1 | h1
  · exact Or.inl h1
  · subst h1; rw [hisl]; exact Or.inr ⟨ha, hb⟩

/-- an inferred relation between live instances updates the field of its source -/
theorem HK.record {q : Quirks} {C : Prop} {s : Spec} (hk : HK q C s.h) (S : Schema) (f : Fld) (a b : R) (inf : Bool)
    (ha : s.h.isLive a.obj = true) (hb : s.h.isLive b.obj = true) (hc : C → S.kind f ≠ .scalar) :
    HK q C (s.record S f a b inf).h := by
  unfold Spec.record
  cases inf with
  | false => exact hk
  | true =>
    show HK q C (s.h.updateValue S f a.obj b.obj)
    refine hk.of (fun x hx => hx) (fun x hx => Or.inl hx) (fun o ho => ho) (fun o ho => Or.inl ho)
      (fun v hv => hv) (fun v hv => Or.inl hv) ?_ (fun hC e he => updateFields_sub (hc hC) he)
    intro e he
    rcases updateFields_mem he with h1 | h1
    · exact Or.inl h1
    · subst h1; exact Or.inr ⟨ha, hb⟩

/-- the whole inference of an asserted relation between live instances -/
theorem HK.assert {q : Quirks} {C : Prop} {S : Schema} (hC : C → S.ContainerClosed) {s : Spec} (hI : SpecInv s)
    (hk : HK q C s.h) (f : Fld) (a b : R) (ha : s.h.isLive a.obj = true) (hb : s.h.isLive b.obj = true)
    (hc : C → S.kind f ≠ .scalar) : HK q C (s.assert S f a b).h := by
  have := specAddFact_invP S (fun s' => (SpecInv s' ∧ s'.h.live = s.h.live) ∧ HK q C s'.h)
    (fun r => s.h.isLive r.obj = true) (fun f => C → S.kind f ≠ .scalar)
    (by
      intro s' f a b inf h hP ha hb
      have hisl : s'.h.isLive = s.h.isLive := by funext o; simp [Heap.isLive, h.1.2]
      refine ⟨⟨h.1.1.record S f a b inf (by rw [hisl]; exact ha) (by rw [hisl]; exact hb), ?_⟩,
        h.2.record S f a b inf (by rw [hisl]; exact ha) (by rw [hisl]; exact hb) hP⟩
      unfold Spec.record; cases inf <;> exact h.1.2)
    (by
      intro s' y h hy
      refine ⟨⟨⟨h.1.1.ensure y hy, h.1.2⟩, h.2.ensure y⟩, ?_⟩
      rw [isLive_iff]; exact ⟨y, h.1.2 ▸ hy, rfl⟩)
    (by
      intro s' e h he
      have hisl : s'.h.isLive = s.h.isLive := by funext o; simp [Heap.isLive, h.1.2]
      rw [← hisl]; exact h.1.1.rel.2 e he)
    (fun f c f' hP hf' hc' => (hC hc').supers f c f' (hP hc') hf')
    (fun f c f' hP hf' hc' => (hC hc').takerSupers f c f' (hP hc') hf')
    (fun f c f' hP hf' hc' => (hC hc').inverse f c f' (hP hc') hf')
    (fun f c f' hP hf' hc' => (hC hc').takerInverse f c f' (hP hc') hf')
    (fun f f' hP h1 h2 hc' => (hC hc').trans f f' (hP hc') h1 h2)
    S.fuel s f a b false ⟨⟨hI, rfl⟩, hk⟩ hc ha hb
  exact this.2

theorem census_live {q : Quirks} {S : Schema} {s : Spec} (hI : SpecInv s) (T : Cls) :
    ∀ o ∈ s.census q S T, s.h.isLive o = true := by
  intro o ho
  unfold Spec.census at ho
  obtain ⟨c, _, hc⟩ := List.mem_flatMap.1 ho
  obtain ⟨r, hr, rfl⟩ := List.mem_map.1 hc
  exact hI.reg r (List.mem_filter.1 hr).1

/-- **the invariant step by step**: every operation of a history keeps the heap well-formed and (container-closed schema)
free of garbage -/
theorem specStep_HK (q : Quirks) (C : Prop) (S : Schema) (s : Spec) (op : Op) (hI : SpecInv s)
    (hk : HK q C s.h) : HK q C (specStep q S s op).h := by
  cases op with
  | new o c pid =>
    simp only [specStep]
    split
    · exact hk
    · refine hk.of ?_ ?_ ?_ ?_ ?_ ?_ ?_ ?_
      · exact fun x hx => List.mem_append_left _ hx
      rotate_left
      · exact fun x hx => List.mem_append_left _ hx
      rotate_left
      · exact fun v hv => hv
      · exact fun v hv => Or.inl hv
      · exact fun e he => Or.inl he
      · exact fun _ e he => he
      · intro x hx
        rcases List.mem_append.1 hx with h | h
        · exact Or.inl h
        · simp only [List.mem_singleton] at h; subst h
          exact Or.inr (List.mem_append_right _ (List.mem_singleton.2 rfl))
      · intro o' ho'
        rcases List.mem_append.1 ho' with h | h
        · exact Or.inl h
        · simp only [List.mem_singleton] at h; subst h
          exact Or.inr ((isLive_iff _ _).2 ⟨⟨o', c, pid⟩, by simp, rfl⟩)
  | drop l =>
    refine HK.collect (hk.1.of (h' := { s.h with held := s.h.held.filter (fun x => x != l) }) (fun x hx => hx) ?_
      (fun e he => Or.inl he) hk.1.qheld)
    intro o ho
    rcases mem_roots.1 ho with h1 | h1
    · exact Or.inl (mem_roots.2 (Or.inl (List.mem_filter.1 h1).1))
    · exact Or.inl (mem_roots.2 (Or.inr h1))
  | sweep => exact hk
  | clear => exact hk.congr rfl rfl rfl rfl
  | rel f a b =>
    simp only [specStep]
    split
    · split
      · exact hk.congr rfl rfl rfl rfl
      · exact hk.congr rfl rfl rfl rfl
    · exact hk
  | set f a b =>
    simp only [specStep]
    split
    · rename_i xa xb hfa hfb
      have hxa := find_some hfa
      have hxb := find_some hfb
      have hla : s.h.isLive a = true := (isLive_iff _ _).2 ⟨xa, hxa.1, hxa.2⟩
      have hlb : s.h.isLive b = true := (isLive_iff _ _).2 ⟨xb, hxb.1, hxb.2⟩
      split
      · -- scalar: the overwritten value may be garbage until the collection at the end
        have hI1 := hI.write S f a b hla
        have hla' : xa ∈ (Heap.write S s.h f a b).live := by rw [write_live]; exact hxa.1
        have hlb' : xb ∈ (Heap.write S s.h f a b).live := by rw [write_live]; exact hxb.1
        have hI2 := (hI1.ensure xa hla').ensure xb hlb'
        have hk1 : HK q False (s.h.write S f a b) := hk.weaken.write S f a b hla hlb (fun hc => hc.elim)
        have hk2 : HK q False (((({ s with h := s.h.write S f a b } : Spec).ensure xa).ensure xb).h) :=
          HK.ensure (HK.ensure (s := { s with h := s.h.write S f a b }) hk1 xa) xb
        have hk3 := HK.assert (S := S) (fun hc => hc.elim) hI2 hk2 f ⟨xa.obj, xa.cls⟩ ⟨xb.obj, xb.cls⟩
          ((isLive_iff _ _).2 ⟨xa, hla', rfl⟩) ((isLive_iff _ _).2 ⟨xb, hlb', rfl⟩) (fun hc => hc.elim)
        exact HK.collect hk3.1
      · -- container: an inferred relation on a scalar field may have overwritten a value, which may be garbage until
        -- the collection at the end
        have hI2 := (hI.ensure xa hxa.1).ensure xb hxb.1
        have hk2 : HK q False ((s.ensure xa).ensure xb).h := HK.ensure (HK.ensure hk.weaken xa) xb
        have hk3 := HK.assert (S := S) (fun hc => hc.elim) hI2 hk2 f ⟨xa.obj, xa.cls⟩ ⟨xb.obj, xb.cls⟩
          ((isLive_iff _ _).2 ⟨xa, hxa.1, rfl⟩) ((isLive_iff _ _).2 ⟨xb, hxb.1, rfl⟩) (fun hc => hc.elim)
        have hl3 := (assert_heap S ((s.ensure xa).ensure xb) f ⟨xa.obj, xa.cls⟩ ⟨xb.obj, xb.cls⟩).1
        have hk4 := hk3.write S f a b
          ((isLive_iff _ _).2 ⟨xa, by rw [hl3]; exact hxa.1, hxa.2⟩)
          ((isLive_iff _ _).2 ⟨xb, by rw [hl3]; exact hxb.1, hxb.2⟩) (fun hc => hc.elim)
        exact HK.collect hk4.1
    · exact hk
  | mkq k c dom =>
    simp only [specStep]
    split
    · exact hk
    · refine hk.of ?_ ?_ ?_ ?_ ?_ ?_ ?_ ?_
      · exact fun x hx => hx
      · exact fun x hx => Or.inl hx
      · exact fun o ho => ho
      · exact fun o ho => Or.inl ho
      · exact fun v hv => List.mem_append_left _ hv
      rotate_left
      · exact fun e he => Or.inl he
      · exact fun _ e he => he
      intro v hv
      rcases List.mem_append.1 hv with h | h
      · exact Or.inl h
      · simp only [List.mem_singleton] at h; subst h
        refine Or.inr ⟨rfl, ?_⟩
        intro o ho
        cases dom with
        | none => simp at ho
        | some d =>
          simp only [Option.map_some, Option.getD_some, List.mem_filter] at ho
          have h2 := ho.2
          cases hf : s.h.find o with
          | none => rw [hf] at h2; simp at h2
          | some x => exact (isLive_iff _ _).2 ⟨x, (find_some hf).1, (find_some hf).2⟩
  | evalq k =>
    simp only [specStep]
    split
    · exact hk
    · rename_i v hv
      have hvm : v ∈ s.h.qvars := List.mem_of_find?_eq_some hv
      have hres : ∀ o ∈ s.evalQuery q S v, s.h.isLive o = true := by
        intro o ho
        unfold Spec.evalQuery at ho
        split at ho
        · rename_i c hc
          split at ho
          · exact hk.1.roots o (mem_roots.2 (Or.inr ⟨v, hvm, hk.1.qheld v hvm, by simp [hc, ho]⟩))
          · exact census_live hI _ o ho
        · exact census_live hI _ o ho
      refine HK.collect (hk.1.of (h' := s.h.recordEval S k v (s.evalQuery q S v)) (fun x hx => hx) ?_
        (fun e he => Or.inl he) ?_)
      · intro o ho
        rcases mem_roots.1 ho with h1 | ⟨v', h1, h2, h3⟩
        · exact Or.inl (mem_roots.2 (Or.inl h1))
        · simp only [Heap.recordEval, List.mem_map] at h1
          obtain ⟨v0, hv0, rfl⟩ := h1
          split at h3
          · simp only [Option.getD_some] at h3
            exact Or.inr (hres o (List.mem_eraseDups.1 h3))
          · exact Or.inl (mem_roots.2 (Or.inr ⟨v0, hv0, hk.1.qheld v0 hv0, h3⟩))
      · intro v' h1
        simp only [Heap.recordEval, List.mem_map] at h1
        obtain ⟨v0, hv0, rfl⟩ := h1
        split
        · exact hk.1.qheld v0 hv0
        · exact hk.1.qheld v0 hv0
  | dropq k =>
    simp only [specStep]
    split
    · exact hk
    · split
      · exact hk
      · refine HK.collect (hk.1.of (h' := s.h.dropQuery q k) ?_ ?_ ?_ ?_)
        · unfold Heap.dropQuery; split <;> exact fun x hx => hx
        · intro o ho
          refine Or.inl ?_
          unfold Heap.dropQuery at ho
          split at ho
          · rename_i hleak
            rcases mem_roots.1 ho with h1 | ⟨v', h1, h2, h3⟩
            · exact mem_roots.2 (Or.inl h1)
            · simp only [List.mem_map] at h1
              obtain ⟨v0, hv0, rfl⟩ := h1
              refine mem_roots.2 (Or.inr ⟨v0, hv0, hk.1.qheld v0 hv0, ?_⟩)
              split at h3 <;> exact h3
          · rcases mem_roots.1 ho with h1 | ⟨v', h1, h2, h3⟩
            · exact mem_roots.2 (Or.inl h1)
            · exact mem_roots.2 (Or.inr ⟨v', (List.mem_filter.1 h1).1, h2, h3⟩)
        · unfold Heap.dropQuery; split <;> exact fun e he => Or.inl he
        · intro v' h1
          unfold Heap.dropQuery at h1
          split at h1
          · rename_i hleak; simp [hleak]
          · exact hk.1.qheld v' (List.mem_filter.1 h1).1
  | newrole o c pid t =>
    simp only [specStep]
    split
    · exact hk
    · rename_i hguard
      have hsub : ∀ x ∈ s.h.live, x ∈ s.h.live ++ [(⟨o, c, pid⟩ : HObj)] := fun x hx => List.mem_append_left _ hx
      have ht : s.h.isLive t = true := by
        simp only [Bool.or_eq_true, Bool.not_eq_eq_eq_not, Bool.not_true, not_or] at hguard
        have := hguard.2
        simpa using this
      refine hk.of ?_ ?_ ?_ ?_ ?_ ?_ ?_ ?_
      · exact hsub
      rotate_left
      · exact fun x hx => List.mem_append_left _ hx
      rotate_left
      · exact fun v hv => hv
      · exact fun v hv => Or.inl hv
      rotate_left; rotate_left
      · intro x hx
        rcases List.mem_append.1 hx with h | h
        · exact Or.inl h
        · simp only [List.mem_singleton] at h; subst h
          exact Or.inr (List.mem_append_right _ (List.mem_singleton.2 rfl))
      · intro o' ho'
        rcases List.mem_append.1 ho' with h | h
        · exact Or.inl h
        · simp only [List.mem_singleton] at h; subst h
          exact Or.inr ((isLive_iff _ _).2 ⟨⟨o', c, pid⟩, by simp, rfl⟩)
      · intro e he
        have he' : e ∈ (match S.takerFld c with
                        | some tf => s.h.fields ++ [(⟨o, tf, t⟩ : FEntry)]
                        | none => s.h.fields) := he
        split at he'
        · rcases List.mem_append.1 he' with h | h
          · exact Or.inl h
          · simp only [List.mem_singleton] at h; subst h
            exact Or.inr ⟨(isLive_iff _ _).2 ⟨⟨o, c, pid⟩, by simp, rfl⟩, isLive_mono hsub _ ht⟩
        · exact Or.inl he'
      · intro _ e he
        show e ∈ (match S.takerFld c with
                  | some tf => s.h.fields ++ [(⟨o, tf, t⟩ : FEntry)]
                  | none => s.h.fields)
        split
        · exact List.mem_append_left _ he
        · exact he

theorem HK_init (q : Quirks) (C : Prop) : HK q C Spec.init.h := by
  refine ⟨⟨?_, ?_, ?_, ?_⟩, fun _ => rfl, ?_⟩ <;> simp [Spec.init, Heap.empty, Heap.roots, Heap.Tight]

theorem specRun_HK (q : Quirks) (S : Schema) (ops : List Op) : HK q True (specRun q S ops).h := by
  unfold specRun
  have : ∀ (l : List Op) (s : Spec), SpecInv s → HK q True s.h →
      SpecInv (l.foldl (specStep q S) s) ∧ HK q True (l.foldl (specStep q S) s).h := by
    intro l; induction l with
    | nil => intro s h1 h2; exact ⟨h1, h2⟩
    | cons op l ih => intro s h1 h2; exact ih _ (specStep_inv q S s op h1) (specStep_HK q True S s op h1 h2)
  exact (this ops _ specInv_init (HK_init q _)).2

/-- the heap of the model of the code as it is IS the heap of the index-free specification (`C14_model_eq_spec`) -/
theorem run_heap_eq (S : Schema) (a : Alloc σ) (ha : a.Valid) (ops : List Op) :
    (run Quirks.asIs S a ops).h = (specRun Quirks.asIs S ops).h := by
  have := (C14_model_eq_spec Quirks.asIs S a ha ops ⟨Or.inl rfl, Or.inl rfl⟩).1
  rw [← this]; rfl

/-- **C20_wf_run.** At every point of every history (every schema, valid allocator, `id()` recycling) the heap of the code
as it is only mentions live instances: the user's references, the cached domains of the query objects, owners and values
of field contents; and every query object in the expression table is one the user holds. -/
theorem C20_wf_run (S : Schema) (a : Alloc σ) (ha : a.Valid) (ops : List Op) :
    (run Quirks.asIs S a ops).h.WF Quirks.asIs := by
  rw [run_heap_eq S a ha]; exact (specRun_HK Quirks.asIs S ops).1

/-- **C20_no_garbage_after_collect_run.** `gc.collect()` at any point of any history leaves no garbage — the fuel
`live.length + 1` of the model's collector is adequate on every heap a history produces, and `Heap.collect` is idempotent
there. -/
theorem C20_no_garbage_after_collect_run (S : Schema) (a : Alloc σ) (ha : a.Valid) (ops : List Op) :
    (((run Quirks.asIs S a ops).h.collect Quirks.asIs).garbage Quirks.asIs) = [] :=
  collect_garbage_nil (C20_wf_run S a ha ops)

/-- **C20_no_garbage_run.** Every schema, every valid allocator, every history: at every point nothing is alive that is
unreachable from the user's references and the user's live query objects. (Every operation that can release a reference —
`drop`, `dropq`, `evalq`, and `set` on a scalar AND on a container field, whose inference may overwrite a scalar field —
ends with the collection CPython's reference counting performs; all others only add references to live instances.) -/
theorem C20_no_garbage_run (S : Schema) (a : Alloc σ) (ha : a.Valid) (ops : List Op) :
    (run Quirks.asIs S a ops).h.garbage Quirks.asIs = [] := by
  have hk := specRun_HK Quirks.asIs S ops
  rw [run_heap_eq S a ha]
  exact hk.1.garbage_nil_iff.2 (hk.2.2 trivial)

/-- a container field `0` (children) whose inverse `1` (parent) is a scalar -/
def overwriteSchema : Schema where
  subs := fun _ => []
  depth := 1
  kind := fun f => if f = 1 then .scalar else .list
  supers := fun _ _ => []
  inverse := fun f _ => if f = 0 then some 1 else none
  transitive := fun _ => false
  desc := fun f => f
  fuel := 4

/-- **C20_cex_container_overwrite** (regression test on a concrete witness; it was a finding about the MODEL, not about
krrood): `p0.children = [c]` (inferred: `c.parent = p0`), the user drops `p0` (still reachable through `c.parent`), then
`p1.children.append(c)`: the inferred `c.parent = p1` overwrites the only reference to `p0`. Before the repair the model's
container `set` did not collect and kept `p0` alive until the next collecting operation (`garbage = [0]`); now `p0` dies
with the `append`, as in CPython — in a schema that is not container-closed. -/
theorem C20_cex_container_overwrite :
    let ops : List Op := [.new 0 0 0, .new 1 0 1, .new 2 0 2, .set 0 0 2, .drop 0, .set 0 1 2]
    (run Quirks.asIs overwriteSchema lifo (ops.take 5)).h.live.map (·.obj) = [0, 1, 2] ∧
    (run Quirks.asIs overwriteSchema lifo ops).h.live.map (·.obj) = [1, 2] ∧
    (run Quirks.asIs overwriteSchema lifo ops).h.garbage Quirks.asIs = [] ∧
    (specRun Quirks.asIs overwriteSchema ops).reg.map (·.obj) = [1, 2] ∧
    ¬ overwriteSchema.ContainerClosed := by
  refine ⟨by decide, by decide, by decide, by decide, ?_⟩
  intro h
  exact h.inverse 0 0 1 (by decide) (by decide) (by decide)

/-- **C20_drop_all_clean.** Every schema, every valid allocator, every history: if at the end the user holds no instance
and no query object then no instance is alive, and after `remove_dead_instances` every SymbolGraph structure is empty. -/
theorem C20_drop_all_clean (S : Schema) (a : Alloc σ) (ha : a.Valid) (ops : List Op)
    (hheld : (run Quirks.asIs S a ops).h.held = [])
    (hqv : ∀ v ∈ (run Quirks.asIs S a ops).h.qvars, v.held = false) :
    let st := run Quirks.asIs S a ops
    let g := sweep Quirks.asIs a st.g st.h.isLive
    st.h.live = [] ∧ g.nodes = [] ∧ g.byClass = [] ∧ g.instIdx = [] ∧ g.edges = [] ∧ g.relIdx = [] := by
  intro st g
  have hk := specRun_HK Quirks.asIs S ops
  rw [← run_heap_eq S a ha] at hk
  have hroots : st.h.roots Quirks.asIs = [] := by
    unfold Heap.roots
    have : st.h.qvars.filter (fun v => v.held || Quirks.asIs.exprTableLeak) = [] := by
      rw [List.filter_eq_nil_iff]; intro v hv; simp [hqv v hv, Quirks.asIs]
    have hheld' : st.h.held = [] := hheld
    rw [hheld', this]; rfl
  have hlive : st.h.live = [] := hk.2.1 hroots
  have hc : Clean st.h g := C20_registry_bounded_run Quirks.asIs S a ha ops rfl rfl
  have hn : g.nodes = [] := by
    have := hc.nodesLe
    rw [hlive] at this
    exact List.eq_nil_of_length_eq_zero (by simpa using this)
  have hi : g.instIdx = [] := by
    have := hc.instLe
    rw [hn] at this
    exact List.eq_nil_of_length_eq_zero (by simpa using this)
  have he : g.edges = [] := by
    rw [List.eq_nil_iff_forall_not_mem]
    intro e hem
    have := (hc.edgesLive e hem).1
    rw [hn] at this; cases this
  have hr : g.relIdx = [] := by
    rw [List.eq_nil_iff_forall_not_mem]
    intro r hrm
    obtain ⟨e, hem, _⟩ := hc.relEdges r hrm
    rw [he] at hem; cases hem
  exact ⟨hlive, hn, hc.byClass.trans hn, hi, he, hr⟩

open KrroodVerif.Drive.SG in
/-- **C20_no_garbage_run_harness.** The instance the correspondence runs: the harness's schema (which has container fields
whose inference overwrites a scalar field: `Org.children` (10) / `Org.parent` (11)), classes defined on the way included. -/
theorem C20_no_garbage_run_harness (extra : List (Cls × Cls)) (a : Alloc σ) (ha : a.Valid) (ops : List Op) :
    (run Quirks.asIs (schemaWith extra) a ops).h.garbage Quirks.asIs = [] :=
  C20_no_garbage_run _ a ha ops

/-! Non-vacuity: the hypotheses are met by non-trivial inputs. -/
example : cexSchema.ContainerClosed :=
  ⟨fun _ _ _ _ h => by simp [cexSchema] at h, fun _ _ _ _ h => by simp [cexSchema] at h,
   fun _ _ _ _ h => by simp [cexSchema] at h, fun _ _ _ _ h => by simp [cexSchema] at h,
   fun _ _ _ _ _ => by simp [cexSchema]⟩
/-- the harness schema is NOT container-closed any more: `children.append` overwrites `parent`; the overwritten parent dies
with the `append` -/
example :
    let ops : List Op := [.new 0 1 0, .new 1 1 1, .new 2 1 2, .set 10 0 2, .drop 0, .set 10 1 2]
    (run Quirks.asIs Drive.SG.schema lifo (ops.take 5)).h.live.map (·.obj) = [0, 1, 2] ∧
    (run Quirks.asIs Drive.SG.schema lifo ops).h.live.map (·.obj) = [1, 2] ∧
    (run Quirks.asIs Drive.SG.schema lifo ops).h.fields.map (fun e => (e.owner, e.fld, e.val)) = [(2, 11, 1), (1, 10, 2)] := by
  decide
/-- a history that ends with nothing held, after relations, a role and queries (harness schema) -/
example :
    let st := run Quirks.asIs Drive.SG.schema lifo
      [.new 0 2 0, .new 1 1 1, .newrole 2 8 2 0, .set 7 2 1, .mkq 5 0 none, .evalq 5, .drop 0, .drop 1, .drop 2, .dropq 5]
    st.h.held = [] ∧ (∀ v ∈ st.h.qvars, v.held = false) ∧ st.g.nodes.length = 3 := by
  decide

end KrroodVerif.SG
