import KrroodVerif.Model.SqlTr
import KrroodVerif.Model.SqlTable
/-!
# C07 — an EQL query translated to SQL selects the same entities as in-memory evaluation

Property theorems only (about `translate`, `execSql`, `evalMem` of `Model/SqlTr.lean`).

Full statement (no counter-example is known any more after the fixes for F-C07-1 … F-C07-5, but only the fragment below is proved):
  `translate S q = .ok s → toSet (execSql S s db) = ids (evalMem S q db)`, `the` fails in both worlds or in neither,
  and every query the translator cannot express yields `Fail.rejected _` (an `EQLTranslationError`).

Proved here:
* `C07_preserves_partial` — the full statement on the fragment *single selected variable; atoms compare attribute
  chains (any number of relationship hops) with literals / with each other / by membership in a literal list / by
  truthiness; arbitrary and_/or_ nesting*, over every database in which the compared chains evaluate (no NULL
  relationship hop) to a scalar on every candidate.  Since the fix for F-C07-2 **NULL is allowed on the compared
  columns** for `==`, `!=`, `in_` and truthiness (`Good`); only chains compared by `< <= > >=` must be numbers (in memory
  such a comparison with `None` raises).  Unbounded in nesting depth, chain length, database size.
  (`C07_the_partial`: the same for `the(...)`.)
* `C07_rejects`, `C07_rejects_nested`, `C07_rejects_query` — every constructor outside the dispatch is an
  `EQLTranslationError`, wherever it occurs in an and_/or_ tree it prevents acceptance.
* counter-examples (by `decide`, concrete witnesses = the recorded findings), all restated for the repaired code so that
  they show the former behaviour on the primitive it came from and the present agreement of both worlds:
  `C07_cex_two_variables` (F-C07-1: the condition with its columns `conflate`d), `C07_cex_null_ne`, `C07_cex_null_in`
  (F-C07-2: `sqlCmpLegacy`, `sqlInLegacy`), `C07_cex_set_of_escapes` (F-C07-3: `Fail.escape`), `C07_cex_eq_join_under_or`
  (F-C07-4: `legacyJoinUnderOr`), `C07_cex_like_substring` (F-C07-5: `sqlLike`).
Not proved (left to the correspondence): queries with more than one variable (their translation — aliases, equality joins —
is modelled and tested, incl. multiplicities), substring tests.
-/
namespace KrroodVerif.SqlTr

/-! ## The fragment and the database hypothesis -/

/-- single-variable fragment: every chain is on the selected variable (index 0) -/
def Frag : Expr → Prop
  | .and l r => Frag l ∧ Frag r
  | .or l r => Frag l ∧ Frag r
  | .cmp op (.chain c) (.lit v) => c.var = 0 ∧ (v = none → op = .eq ∨ op = .ne)
  | .cmp op (.lit v) (.chain c) => c.var = 0 ∧ (v = none → op = .eq ∨ op = .ne)
  | .cmp _ (.chain c) (.chain d) => c.var = 0 ∧ d.var = 0
  | .isIn (.chain c) _ => c.var = 0
  | .attr c => c.var = 0
  | _ => False

/-- a scalar attribute value: `None`/NULL or a number -/
def Scalar (v : Val) : Prop := v = .null ∨ ∃ n, v = .num n

/-- the ordering comparators: in memory they raise TypeError on `None` -/
def isOrd : Cmp → Bool
  | .eq | .ne => false
  | _ => true

/-- the chains that occur in an ordering comparison -/
def ordChains : Expr → List Chain
  | .and l r | .or l r => ordChains l ++ ordChains r
  | .cmp op l r =>
    if isOrd op then
      (match l with | .chain c => [c] | _ => []) ++ (match r with | .chain c => [c] | _ => [])
    else []
  | _ => []

/-- on every candidate row every compared chain evaluates (no NULL relationship hop) to a scalar — NULL IS ALLOWED on
the compared column for `==`, `!=`, `in_` and truthiness (since the fix for F-C07-2) — and to a number where it is
compared by `< <= > >=` (in memory an ordering comparison with `None` raises TypeError). -/
def Good (db : DB) (roots : List Nat) (e : Expr) : Prop :=
  (∀ r ∈ roots, ∀ c ∈ exprChains e, ∃ v, chainVal db [r] c = some v ∧ Scalar v) ∧
  (∀ r ∈ roots, ∀ c ∈ ordChains e, ∃ n, chainVal db [r] c = some (.num n))

/-! ## Lemmas -/

theorem navObj_append (db : DB) : ∀ (p q : List Attr) (i : Nat),
    navObj db i (p ++ q) = (navObj db i p).bind (fun j => navObj db j q) := by
  intro p
  induction p with
  | nil => intro q i; simp [navObj]
  | cons a p ih =>
    intro q i
    simp only [List.cons_append, navObj]
    split <;> simp [ih]

theorem navObj_prefix_isSome (db : DB) (p suf : List Attr) (i : Nat)
    (h : (navObj db i (p ++ suf)).isSome) : (navObj db i p).isSome := by
  rw [navObj_append] at h
  cases hp : navObj db i p with
  | none => simp [hp] at h
  | some j => simp

theorem dropLast_cons_cons {α} (a b : α) (l : List α) : (a :: b :: l).dropLast = a :: (b :: l).dropLast := by
  simp [List.dropLast]

theorem getLast?_cons_cons {α} (a b : α) (l : List α) : (a :: b :: l).getLast? = (b :: l).getLast? := by
  simp [List.getLast?_cons_cons]

theorem mem_addJoin {st : St} {j j' : Join} (h : j' ∈ (addJoin st j).joins) :
    j' ∈ st.joins ∨ j' = j := by
  unfold addJoin at h
  split at h
  · exact Or.inl h
  · simp only [List.mem_append, List.mem_singleton] at h
    exact h

theorem addJoin_eqJoins (st : St) (j : Join) : (addJoin st j).eqJoins = st.eqJoins := by
  unfold addJoin; split <;> rfl

/-- what a successful chain walk returns: the column of the alias reached by all hops but the last, the equality
joins untouched, and every new aliased join is a prefix of the walked hops. -/
theorem walk_spec (S : Schema) (var : Nat) : ∀ (rest : List Attr) (cur : Cls) (acc : List Attr) (st : St)
    (col : ColRef) (st' : St), walk S var cur acc rest st = .ok (col, st') →
    (∃ a, rest.getLast? = some a ∧ col = ⟨var, acc ++ rest.dropLast, a⟩) ∧ st'.eqJoins = st.eqJoins ∧
    (∀ j ∈ st'.joins, j ∈ st.joins ∨ (j.var = var ∧ ∃ suf, acc ++ rest.dropLast = j.path ++ suf)) := by
  intro rest
  induction rest with
  | nil => intro cur acc st col st' h; simp [walk] at h
  | cons a rest ih =>
    intro cur acc st col st' h
    cases rest with
    | nil =>
      simp only [walk] at h
      split at h
      · simp only [Except.ok.injEq, Prod.mk.injEq] at h
        obtain ⟨h1, h2⟩ := h
        subst h1 h2
        exact ⟨⟨a, by simp, by simp⟩, rfl, fun j hj => Or.inl hj⟩
      · split at h
        · simp only [Except.ok.injEq, Prod.mk.injEq] at h
          obtain ⟨h1, h2⟩ := h
          subst h1 h2
          exact ⟨⟨a, by simp, by simp⟩, rfl, fun j hj => Or.inl hj⟩
        · simp at h
    | cons b rest =>
      simp only [walk] at h
      split at h
      · rename_i t _
        obtain ⟨⟨x, hx1, hx2⟩, he, hj⟩ := ih t (acc ++ [a]) _ col st' h
        refine ⟨⟨x, ?_, ?_⟩, ?_, ?_⟩
        · rw [getLast?_cons_cons]; exact hx1
        · rw [hx2, dropLast_cons_cons]; simp
        · rw [he, addJoin_eqJoins]
        · intro j hjm
          rcases hj j hjm with hj' | ⟨hv, suf, hsuf⟩
          · rcases mem_addJoin hj' with h1 | h1
            · exact Or.inl h1
            · right
              subst h1
              exact ⟨rfl, (b :: rest).dropLast, by rw [dropLast_cons_cons]; simp⟩
          · right
            exact ⟨hv, suf, by rw [dropLast_cons_cons, ← hsuf]; simp⟩
      · simp at h

/-- every aliased join of the state finds its partner for every candidate row -/
def JoinsNav (db : DB) (roots : List Nat) (st : St) : Prop :=
  ∀ j ∈ st.joins, j.var = 0 ∧ ∀ r ∈ roots, (navObj db r j.path).isSome

theorem chainVal_zero (db : DB) (r : Nat) (c : Chain) (h0 : c.var = 0) (v : Val)
    (h : chainVal db [r] c = some v) :
    ∃ a, c.path.getLast? = some a ∧ colVal db r c.path.dropLast a = some v := by
  unfold chainVal at h
  rw [h0] at h
  simp only [List.getElem?_cons_zero] at h
  cases hl : c.path.getLast? with
  | none => simp [hl] at h
  | some a => simp only [hl] at h; exact ⟨a, rfl, h⟩

/-- translating a chain of the selected variable -/
theorem trChain_spec (S : Schema) (sel : Cls) (db : DB) (roots : List Nat) (c : Chain) (st : St) (col : ColRef)
    (st' : St) (h0 : c.var = 0) (hg : ∀ r ∈ roots, ∃ v, chainVal db [r] c = some v)
    (hinv : JoinsNav db roots st) (h : trChain S [sel] c st = .ok (col, st')) :
    JoinsNav db roots st' ∧ st'.eqJoins = st.eqJoins ∧
    ∀ r ∈ roots, sqlColVal db [r] col = chainVal db [r] c := by
  unfold trChain at h
  rw [h0] at h
  simp only [List.getElem?_cons_zero] at h
  split at h
  · simp at h
  · have hms : markSeen st 0 = st := by simp [markSeen]
    rw [hms] at h
    obtain ⟨⟨a, ha1, ha2⟩, he, hj⟩ := walk_spec S 0 c.path sel [] st col st' h
    simp only [List.nil_append] at ha2 hj
    refine ⟨?_, he, ?_⟩
    · intro j hjm
      rcases hj j hjm with h1 | ⟨hv0, suf, hsuf⟩
      · exact hinv j h1
      · refine ⟨hv0, ?_⟩
        intro r hr
        obtain ⟨n, hn⟩ := hg r hr
        obtain ⟨a', ha', hv⟩ := chainVal_zero db r c h0 _ hn
        apply navObj_prefix_isSome db j.path suf r
        rw [← hsuf]
        unfold colVal at hv
        cases hnav : navObj db r c.path.dropLast with
        | none => simp [hnav] at hv
        | some k => simp
    · intro r hr
      obtain ⟨n, hn⟩ := hg r hr
      obtain ⟨a', ha', hv⟩ := chainVal_zero db r c h0 _ hn
      rw [ha1] at ha'
      cases ha'
      rw [hn, ha2]
      simpa [sqlColVal] using hv

theorem and3_true (x y : Option Bool) : and3 x y = some true ↔ x = some true ∧ y = some true := by
  cases x with
  | none => cases y with
    | none => simp [and3]
    | some b => cases b <;> simp [and3]
  | some a => cases a <;> (cases y with
    | none => simp [and3]
    | some b => cases b <;> simp [and3])

theorem or3_true (x y : Option Bool) : or3 x y = some true ↔ x = some true ∨ y = some true := by
  cases x with
  | none => cases y with
    | none => simp [or3]
    | some b => cases b <;> simp [or3]
  | some a => cases a <;> (cases y with
    | none => simp [or3]
    | some b => cases b <;> simp [or3])

theorem num_beq (a b : Int) : (Val.num a == Val.num b) = (a == b) := by
  by_cases h : a = b
  · subst h; simp
  · have hne : Val.num a ≠ Val.num b := fun hh => by cases hh; exact h rfl
    rw [beq_eq_false_iff_ne.mpr hne, beq_eq_false_iff_ne.mpr h]

theorem null_beq_num (a : Int) : (Val.null == Val.num a) = false :=
  beq_eq_false_iff_ne.mpr (fun h => by cases h)
theorem num_beq_null (a : Int) : (Val.num a == Val.null) = false :=
  beq_eq_false_iff_ne.mpr (fun h => by cases h)
theorem null_beq_null : (Val.null == Val.null) = true := by decide

theorem litVal_scalar (m : Option Int) : Scalar (litVal m) := by
  cases m with
  | none => exact Or.inl rfl
  | some n => exact Or.inr ⟨n, rfl⟩

/-- column ⋄ column: Python's comparison of two scalars and the NULL-safe SQL rendering agree (ordering only on numbers) -/
theorem cmp_col_col (op : Cmp) (c d : ColRef) (v w : Val) (hv : Scalar v) (hw : Scalar w)
    (hord : isOrd op = true → (∃ n, v = .num n) ∧ (∃ n, w = .num n)) :
    ∃ b, pyCmp op v w = some b ∧ (sqlCmpV op (.col c) (.col d) v w = some true ↔ b = true) := by
  cases op
  case eq => exact ⟨v == w, by simp [pyCmp], by simp [sqlCmpV]⟩
  case ne => exact ⟨v != w, by simp [pyCmp], by simp [sqlCmpV]⟩
  all_goals
    obtain ⟨⟨n, rfl⟩, ⟨m, rfl⟩⟩ := hord rfl
    exact ⟨_, rfl, by simp [sqlCmpV, sqlCmpVal]⟩

/-- column ⋄ literal -/
theorem cmp_col_lit (op : Cmp) (c : ColRef) (v : Val) (m : Option Int) (hv : Scalar v)
    (hord : isOrd op = true → ∃ n, v = .num n) (hm : m = none → op = .eq ∨ op = .ne) :
    ∃ b, pyCmp op v (litVal m) = some b ∧ (sqlCmpV op (.col c) (.lit m) v (litVal m) = some true ↔ b = true) := by
  cases m with
  | none =>
    rcases hm rfl with rfl | rfl
    · exact ⟨v == .null, by simp [pyCmp, litVal], by simp [sqlCmpV, litVal]⟩
    · exact ⟨v != .null, by simp [pyCmp, litVal], by simp [sqlCmpV, litVal]⟩
  | some k =>
    cases op
    case ne => exact ⟨v != .num k, by simp [pyCmp, litVal], by simp [sqlCmpV, litVal]⟩
    case eq =>
      rcases hv with rfl | ⟨n, rfl⟩
      · exact ⟨false, by simp [pyCmp, litVal, null_beq_num], by simp [sqlCmpV, litVal, sqlCmpVal]⟩
      · exact ⟨n == k, by simp [pyCmp, litVal, num_beq], by simp [sqlCmpV, litVal, sqlCmpVal, cmpInt]⟩
    all_goals
      obtain ⟨n, rfl⟩ := hord rfl
      exact ⟨_, rfl, by simp [sqlCmpV, litVal, sqlCmpVal]⟩

/-- literal ⋄ column -/
theorem cmp_lit_col (op : Cmp) (c : ColRef) (v : Val) (m : Option Int) (hv : Scalar v)
    (hord : isOrd op = true → ∃ n, v = .num n) (hm : m = none → op = .eq ∨ op = .ne) :
    ∃ b, pyCmp op (litVal m) v = some b ∧ (sqlCmpV op (.lit m) (.col c) (litVal m) v = some true ↔ b = true) := by
  cases m with
  | none =>
    rcases hm rfl with rfl | rfl
    · refine ⟨Val.null == v, by simp [pyCmp, litVal], ?_⟩
      rcases hv with rfl | ⟨n, rfl⟩ <;> simp [sqlCmpV, litVal, null_beq_num, num_beq_null]
    · refine ⟨Val.null != v, by simp [pyCmp, litVal], ?_⟩
      rcases hv with rfl | ⟨n, rfl⟩ <;> simp [sqlCmpV, litVal, bne, null_beq_num, num_beq_null]
  | some k =>
    cases op
    case ne => exact ⟨Val.num k != v, by simp [pyCmp, litVal], by simp [sqlCmpV, litVal]⟩
    case eq =>
      rcases hv with rfl | ⟨n, rfl⟩
      · exact ⟨false, by simp [pyCmp, litVal, num_beq_null], by simp [sqlCmpV, litVal, sqlCmpVal]⟩
      · exact ⟨k == n, by simp [pyCmp, litVal, num_beq], by simp [sqlCmpV, litVal, sqlCmpVal, cmpInt]⟩
    all_goals
      obtain ⟨n, rfl⟩ := hord rfl
      exact ⟨_, rfl, by simp [sqlCmpV, litVal, sqlCmpVal]⟩

/-- membership: `null_safe_in` is TRUE exactly when Python's `in` is -/
theorem sqlIn_scalar (v : Val) (vs : List (Option Int)) (hv : Scalar v) :
    (sqlIn v vs = some true) ↔ (vs.any fun w => litVal w == v) = true := by
  rcases hv with rfl | ⟨n, rfl⟩
  · have key : (vs.any fun w => litVal w == Val.null) = vs.contains none := by
      induction vs with
      | nil => simp
      | cons w vs ih =>
        simp only [List.any_cons, ih, List.contains_cons]
        cases w with
        | none => simp [litVal]
        | some m => simp [litVal, num_beq_null]
    rw [key]
    unfold sqlIn
    by_cases hc : vs.contains none = true
    · simp [hc]
    · simp only [hc, Bool.false_eq_true, ↓reduceIte, iff_false]
      split <;> simp
  · have key : (vs.any fun w => litVal w == Val.num n) = vs.contains (some n) := by
      induction vs with
      | nil => simp
      | cons w vs ih =>
        simp only [List.any_cons, ih, List.contains_cons]
        cases w with
        | none => simp [litVal, null_beq_num]
        | some m =>
          simp only [litVal, num_beq]
          congr 1
          by_cases hm : m = n
          · subst hm; simp
          · have h2 : (some n == some m) = false := by
              simp only [beq_eq_false_iff_ne, ne_eq, Option.some.injEq]
              exact fun h => hm h.symm
            rw [beq_eq_false_iff_ne.mpr hm, h2]
    rw [key]
    simp [sqlIn]

theorem good_and_left {db : DB} {roots : List Nat} {l r : Expr} (hg : Good db roots (.and l r)) : Good db roots l :=
  ⟨fun x hx c hc => hg.1 x hx c (by simp [exprChains, hc]), fun x hx c hc => hg.2 x hx c (by simp [ordChains, hc])⟩
theorem good_and_right {db : DB} {roots : List Nat} {l r : Expr} (hg : Good db roots (.and l r)) : Good db roots r :=
  ⟨fun x hx c hc => hg.1 x hx c (by simp [exprChains, hc]), fun x hx c hc => hg.2 x hx c (by simp [ordChains, hc])⟩
theorem good_or_left {db : DB} {roots : List Nat} {l r : Expr} (hg : Good db roots (.or l r)) : Good db roots l :=
  ⟨fun x hx c hc => hg.1 x hx c (by simp [exprChains, hc]), fun x hx c hc => hg.2 x hx c (by simp [ordChains, hc])⟩
theorem good_or_right {db : DB} {roots : List Nat} {l r : Expr} (hg : Good db roots (.or l r)) : Good db roots r :=
  ⟨fun x hx c hc => hg.1 x hx c (by simp [exprChains, hc]), fun x hx c hc => hg.2 x hx c (by simp [ordChains, hc])⟩

/-- ordering comparisons are only defined (in memory) between numbers -/
theorem pyCmp_ord {op : Cmp} {v w : Val} {bb : Bool} (ho : isOrd op = true) (h : pyCmp op v w = some bb) :
    (∃ n, v = .num n) ∧ (∃ m, w = .num m) := by
  cases op <;> simp [isOrd] at ho <;>
    (cases v <;> cases w <;> simp [pyCmp] at h <;> exact ⟨⟨_, rfl⟩, ⟨_, rfl⟩⟩)

/-- literal ⋄ literal (two Python values: the comparison is Python's own) -/
theorem cmp_lit_lit (op : Cmp) (m k : Option Int) (bb : Bool) (h : pyCmp op (litVal m) (litVal k) = some bb) :
    sqlCmpV op (.lit m) (.lit k) (litVal m) (litVal k) = some true ↔ bb = true := by
  cases m <;> cases k <;> cases op <;>
    simp_all [pyCmp, sqlCmpV, litVal, sqlCmpVal, cmpInt, null_beq_num, num_beq_null, num_beq] <;>
    (subst h; simp)

/-- **What the proof needs to know about an evaluation `ev` of WHERE conditions**: Kleene and/or, and for each kind of
atom that it is TRUE exactly when Python's operator is True on the same (scalar) values — wherever Python's operator is
defined.  The hand-written `evalSql` satisfies it (`evalSql_sem`); so does `evalSqlT T` for EVERY operator table `T`
that passes the decidable check `tableOk` (`evalSqlT_sem`, Props/C07Table.lean). -/
structure SqlSem (ev : DB → List Nat → SqlCond → Option Bool) : Prop where
  and_ : ∀ db env a b, ev db env (.and a b) = and3 (ev db env a) (ev db env b)
  or_ : ∀ db env a b, ev db env (.or a b) = or3 (ev db env a) (ev db env b)
  cmp : ∀ db env op a b bb, Scalar (sqlOperandVal db env a) → Scalar (sqlOperandVal db env b) →
    pyCmp op (sqlOperandVal db env a) (sqlOperandVal db env b) = some bb →
    (ev db env (.cmp op a b) = some true ↔ bb = true)
  inList : ∀ db env c vs, Scalar ((sqlColVal db env c).getD .null) →
    (ev db env (.inList c vs) = some true ↔
      (vs.any fun w => litVal w == (sqlColVal db env c).getD .null) = true)
  truthy : ∀ db env c, Scalar ((sqlColVal db env c).getD .null) →
    (ev db env (.truthy c) = some true ↔ pyTruthy ((sqlColVal db env c).getD .null) = true)

/-- the hand-written SQL semantics (`evalSql`: the model of the code as it is) has the property -/
theorem evalSql_sem : SqlSem evalSql where
  and_ := fun _ _ _ _ => rfl
  or_ := fun _ _ _ _ => rfl
  cmp := by
    intro db env op a b bb hva hvb hpy
    have hord : isOrd op = true → (∃ n, sqlOperandVal db env a = .num n) ∧ (∃ n, sqlOperandVal db env b = .num n) :=
      fun ho => pyCmp_ord ho hpy
    simp only [evalSql, sqlCmp]
    cases a with
    | col c =>
      cases b with
      | col d =>
        obtain ⟨b', h1, h2⟩ := cmp_col_col op c d _ _ hva hvb hord
        rw [hpy] at h1; cases h1; exact h2
      | lit k =>
        have hm : k = none → op = .eq ∨ op = .ne := by
          intro hk; subst hk
          cases op <;> first | exact Or.inl rfl | exact Or.inr rfl | (obtain ⟨_, ⟨n, hn⟩⟩ := hord rfl; simp [sqlOperandVal, litVal] at hn)
        obtain ⟨b', h1, h2⟩ := cmp_col_lit op c _ k hva (fun ho => (hord ho).1) hm
        simp only [sqlOperandVal] at hpy h1 h2 ⊢
        rw [hpy] at h1; cases h1; exact h2
    | lit m =>
      cases b with
      | col d =>
        have hm : m = none → op = .eq ∨ op = .ne := by
          intro hk; subst hk
          cases op <;> first | exact Or.inl rfl | exact Or.inr rfl | (obtain ⟨⟨n, hn⟩, _⟩ := hord rfl; simp [sqlOperandVal, litVal] at hn)
        obtain ⟨b', h1, h2⟩ := cmp_lit_col op d _ m hvb (fun ho => (hord ho).2) hm
        simp only [sqlOperandVal] at hpy h1 h2 ⊢
        rw [hpy] at h1; cases h1; exact h2
      | lit k => exact cmp_lit_lit op m k bb hpy
  inList := by
    intro db env c vs hv
    simp only [evalSql]
    exact sqlIn_scalar _ vs hv
  truthy := by
    intro db env c hv
    simp only [evalSql]
    rcases hv with h | ⟨n, h⟩ <;> rw [h] <;> simp [pyTruthy]

/-- the heart: on the fragment, for every candidate row, the translated condition is TRUE under SQL's logic exactly when
in-memory evaluation (which does not raise) says True; joins added never drop a candidate. -/
theorem tr_frag (ev : DB → List Nat → SqlCond → Option Bool) (hs : SqlSem ev)
    (S : Schema) (sel : Cls) (db : DB) (roots : List Nat) : ∀ (e : Expr) (uo : Bool) (st : St)
    (p : Option SqlCond) (st' : St), Frag e → Good db roots e → JoinsNav db roots st →
    tr S [sel] uo e st = .ok (p, st') →
    JoinsNav db roots st' ∧ st'.eqJoins = st.eqJoins ∧
    ∃ c, p = some c ∧ ∀ r ∈ roots, ∃ b, evalCond db [r] e = some b ∧ (ev db [r] c = some true ↔ b = true) := by
  intro e
  induction e with
  | and l r ihl ihr =>
    intro uo st p st' hf hg hinv h
    obtain ⟨hfl, hfr⟩ := hf
    simp only [tr] at h
    split at h
    · simp at h
    · rename_i pl st1 h1
      split at h
      · simp at h
      · rename_i pr st2 h2
        simp only [Except.ok.injEq, Prod.mk.injEq] at h
        obtain ⟨hp, hst⟩ := h
        subst hst
        obtain ⟨i1, e1, cl, hcl, hl⟩ := ihl uo st pl st1 hfl (good_and_left hg) hinv h1
        obtain ⟨i2, e2, cr, hcr, hr⟩ := ihr uo st1 pr st2 hfr (good_and_right hg) i1 h2
        refine ⟨i2, by rw [e2, e1], .and cl cr, by rw [← hp, hcl, hcr]; rfl, ?_⟩
        intro x hx
        obtain ⟨bl, hbl, hbl'⟩ := hl x hx
        obtain ⟨br, hbr, hbr'⟩ := hr x hx
        refine ⟨bl && br, ?_, ?_⟩
        · simp only [evalCond, hbl]
          cases bl <;> simp [hbr]
        · simp only [hs.and_, and3_true, hbl', hbr', Bool.and_eq_true]
  | or l r ihl ihr =>
    intro uo st p st' hf hg hinv h
    obtain ⟨hfl, hfr⟩ := hf
    simp only [tr] at h
    split at h
    · simp at h
    · rename_i pl st1 h1
      split at h
      · simp at h
      · rename_i pr st2 h2
        simp only [Except.ok.injEq, Prod.mk.injEq] at h
        obtain ⟨hp, hst⟩ := h
        subst hst
        obtain ⟨i1, e1, cl, hcl, hl⟩ := ihl true st pl st1 hfl (good_or_left hg) hinv h1
        obtain ⟨i2, e2, cr, hcr, hr⟩ := ihr true st1 pr st2 hfr (good_or_right hg) i1 h2
        refine ⟨i2, by rw [e2, e1], .or cl cr, by rw [← hp, hcl, hcr]; rfl, ?_⟩
        intro x hx
        obtain ⟨bl, hbl, hbl'⟩ := hl x hx
        obtain ⟨br, hbr, hbr'⟩ := hr x hx
        refine ⟨bl || br, ?_, ?_⟩
        · simp only [evalCond, hbl]
          cases bl <;> simp [hbr]
        · simp only [hs.or_, or3_true, hbl', hbr', Bool.or_eq_true]
  | cmp op l r =>
    intro uo st p st' hf hg hinv h
    cases l with
    | other k => simp [Frag] at hf
    | var v s => simp [Frag] at hf
    | obj i => simp [Frag] at hf
    | chain c =>
      cases r with
      | other k => simp [Frag] at hf
      | var v s => simp [Frag] at hf
      | obj i => simp [Frag] at hf
      | lit v =>
        obtain ⟨h0, hv⟩ := hf
        have hgc : ∀ x ∈ roots, ∃ w, chainVal db [x] c = some w :=
          fun x hx => by obtain ⟨w, hw, _⟩ := hg.1 x hx c (by simp [exprChains]); exact ⟨w, hw⟩
        have hj : eqJoinFor S [sel] uo op (.chain c) (.lit v) st = .fallthrough := by
          cases op <;> rfl
        simp only [tr, varObj?, hj, trOrdinary, trOperand, Except.map] at h
        split at h
        · simp at h
        · rename_i a st1 h1
          split at h1
          · simp at h1
          · rename_i colst hc
            obtain ⟨col, stc⟩ := colst
            simp only [Except.ok.injEq, Prod.mk.injEq] at h1 h
            obtain ⟨ha, hs1⟩ := h1
            obtain ⟨hp, hst⟩ := h
            subst ha hs1 hst
            obtain ⟨i1, e1, hval⟩ := trChain_spec S sel db roots c st col stc h0 hgc hinv hc
            refine ⟨i1, e1, _, hp.symm, ?_⟩
            intro x hx
            obtain ⟨w, hw, hsc⟩ := hg.1 x hx c (by simp [exprChains])
            have hcv := hval x hx
            rw [hw] at hcv
            have hord : isOrd op = true → ∃ n, w = .num n := fun ho => by
              obtain ⟨n, hn⟩ := hg.2 x hx c (by simp [ordChains, ho])
              rw [hw] at hn
              exact ⟨n, Option.some.inj hn⟩
            obtain ⟨b, hb1, _⟩ := cmp_col_lit op col w v hsc hord hv
            refine ⟨b, ?_, ?_⟩
            · simp [evalCond, operandVal, hw, hb1]
            · have h1 : sqlOperandVal db [x] (.col col) = w := by simp [sqlOperandVal, hcv]
              have h2 : sqlOperandVal db [x] (.lit v) = litVal v := rfl
              exact hs.cmp db [x] op _ _ b (by rw [h1]; exact hsc) (by rw [h2]; exact litVal_scalar v)
                (by rw [h1, h2]; exact hb1)
      | chain d =>
        obtain ⟨h0, h0d⟩ := hf
        have hgc : ∀ x ∈ roots, ∃ w, chainVal db [x] c = some w :=
          fun x hx => by obtain ⟨w, hw, _⟩ := hg.1 x hx c (by simp [exprChains]); exact ⟨w, hw⟩
        have hgd : ∀ x ∈ roots, ∃ w, chainVal db [x] d = some w :=
          fun x hx => by obtain ⟨w, hw, _⟩ := hg.1 x hx d (by simp [exprChains]); exact ⟨w, hw⟩
        have hj : eqJoinFor S [sel] uo op (.chain c) (.chain d) st = .fallthrough := by
          have hj' : eqJoinAttempt S [sel] c d st = .fallthrough := by
            simp [eqJoinAttempt, h0, h0d]
          cases op <;> first | rfl | (simp only [eqJoinFor, hj']; split <;> rfl)
        simp only [tr, varObj?, hj, trOrdinary, trOperand, Except.map] at h
        split at h
        · simp at h
        · rename_i a st1 h1
          split at h1
          · simp at h1
          · rename_i colst hc
            obtain ⟨col, stc⟩ := colst
            simp only [Except.ok.injEq, Prod.mk.injEq] at h1
            obtain ⟨ha, hs1⟩ := h1
            subst ha hs1
            split at h
            · simp at h
            · rename_i b st2 h2
              split at h2
              · simp at h2
              · rename_i colst2 hc2
                obtain ⟨col2, stc2⟩ := colst2
                simp only [Except.ok.injEq, Prod.mk.injEq] at h2 h
                obtain ⟨hb, hs2⟩ := h2
                obtain ⟨hp, hst⟩ := h
                subst hb hs2 hst
                obtain ⟨i1, e1, hval1⟩ := trChain_spec S sel db roots c st col stc h0 hgc hinv hc
                obtain ⟨i2, e2, hval2⟩ := trChain_spec S sel db roots d stc col2 stc2 h0d hgd i1 hc2
                refine ⟨i2, by rw [e2, e1], _, hp.symm, ?_⟩
                intro x hx
                obtain ⟨w1, hw1, hsc1⟩ := hg.1 x hx c (by simp [exprChains])
                obtain ⟨w2, hw2, hsc2⟩ := hg.1 x hx d (by simp [exprChains])
                have hcv1 := hval1 x hx
                have hcv2 := hval2 x hx
                rw [hw1] at hcv1
                rw [hw2] at hcv2
                have hord : isOrd op = true → (∃ n, w1 = .num n) ∧ (∃ n, w2 = .num n) := fun ho => by
                  obtain ⟨n, hn⟩ := hg.2 x hx c (by simp [ordChains, ho])
                  obtain ⟨m, hm⟩ := hg.2 x hx d (by simp [ordChains, ho])
                  rw [hw1] at hn
                  rw [hw2] at hm
                  exact ⟨⟨n, Option.some.inj hn⟩, ⟨m, Option.some.inj hm⟩⟩
                obtain ⟨b, hb1, _⟩ := cmp_col_col op col col2 w1 w2 hsc1 hsc2 hord
                refine ⟨b, ?_, ?_⟩
                · simp [evalCond, operandVal, hw1, hw2, hb1]
                · have h1 : sqlOperandVal db [x] (.col col) = w1 := by simp [sqlOperandVal, hcv1]
                  have h2 : sqlOperandVal db [x] (.col col2) = w2 := by simp [sqlOperandVal, hcv2]
                  exact hs.cmp db [x] op _ _ b (by rw [h1]; exact hsc1) (by rw [h2]; exact hsc2)
                    (by rw [h1, h2]; exact hb1)
    | lit v =>
      cases r with
      | other k => simp [Frag] at hf
      | var v s => simp [Frag] at hf
      | obj i => simp [Frag] at hf
      | lit w => simp [Frag] at hf
      | chain c =>
        obtain ⟨h0, hv⟩ := hf
        have hgc : ∀ x ∈ roots, ∃ w, chainVal db [x] c = some w :=
          fun x hx => by obtain ⟨w, hw, _⟩ := hg.1 x hx c (by simp [exprChains]); exact ⟨w, hw⟩
        have hj : eqJoinFor S [sel] uo op (.lit v) (.chain c) st = .fallthrough := by
          cases op <;> rfl
        simp only [tr, varObj?, hj, trOrdinary, trOperand, Except.map] at h
        split at h
        · simp at h
        · rename_i a st1 h1
          split at h1
          · simp at h1
          · rename_i colst hc
            obtain ⟨col, stc⟩ := colst
            simp only [Except.ok.injEq, Prod.mk.injEq] at h1 h
            obtain ⟨ha, hs1⟩ := h1
            obtain ⟨hp, hst⟩ := h
            subst ha hs1 hst
            obtain ⟨i1, e1, hval⟩ := trChain_spec S sel db roots c st col stc h0 hgc hinv hc
            refine ⟨i1, e1, _, hp.symm, ?_⟩
            intro x hx
            obtain ⟨w, hw, hsc⟩ := hg.1 x hx c (by simp [exprChains])
            have hcv := hval x hx
            rw [hw] at hcv
            have hord : isOrd op = true → ∃ n, w = .num n := fun ho => by
              obtain ⟨n, hn⟩ := hg.2 x hx c (by simp [ordChains, ho])
              rw [hw] at hn
              exact ⟨n, Option.some.inj hn⟩
            obtain ⟨b, hb1, _⟩ := cmp_lit_col op col w v hsc hord hv
            refine ⟨b, ?_, ?_⟩
            · simp [evalCond, operandVal, hw, hb1]
            · have h1 : sqlOperandVal db [x] (.col col) = w := by simp [sqlOperandVal, hcv]
              have h2 : sqlOperandVal db [x] (.lit v) = litVal v := rfl
              exact hs.cmp db [x] op _ _ b (by rw [h2]; exact litVal_scalar v) (by rw [h1]; exact hsc)
                (by rw [h1, h2]; exact hb1)
  | isIn item vs =>
    intro uo st p st' hf hg hinv h
    cases item with
    | other k => simp [Frag] at hf
    | var v s => simp [Frag] at hf
    | obj i => simp [Frag] at hf
    | lit v => simp [Frag] at hf
    | chain c =>
      have h0 : c.var = 0 := hf
      have hgc : ∀ x ∈ roots, ∃ w, chainVal db [x] c = some w :=
        fun x hx => by obtain ⟨w, hw, _⟩ := hg.1 x hx c (by simp [exprChains]); exact ⟨w, hw⟩
      simp only [tr] at h
      split at h
      · simp at h
      · rename_i col stc hc
        simp only [Except.ok.injEq, Prod.mk.injEq] at h
        obtain ⟨hp, hst⟩ := h
        subst hst
        obtain ⟨i1, e1, hval⟩ := trChain_spec S sel db roots c st col stc h0 hgc hinv hc
        refine ⟨i1, e1, _, hp.symm, ?_⟩
        intro x hx
        obtain ⟨w, hw, hsc⟩ := hg.1 x hx c (by simp [exprChains])
        have hcv := hval x hx
        rw [hw] at hcv
        refine ⟨vs.any fun u => litVal u == w, ?_, ?_⟩
        · simp [evalCond, operandVal, hw]
        · have h := hs.inList db [x] col vs (by rw [hcv]; exact hsc)
          rw [hcv] at h
          exact h
  | attr c =>
    intro uo st p st' hf hg hinv h
    have h0 : c.var = 0 := hf
    have hgc : ∀ x ∈ roots, ∃ w, chainVal db [x] c = some w :=
      fun x hx => by obtain ⟨w, hw, _⟩ := hg.1 x hx c (by simp [exprChains]); exact ⟨w, hw⟩
    simp only [tr] at h
    split at h
    · simp at h
    · rename_i col stc hc
      simp only [Except.ok.injEq, Prod.mk.injEq] at h
      obtain ⟨hp, hst⟩ := h
      subst hst
      obtain ⟨i1, e1, hval⟩ := trChain_spec S sel db roots c st col stc h0 hgc hinv hc
      refine ⟨i1, e1, _, hp.symm, ?_⟩
      intro x hx
      obtain ⟨w, hw, hsc⟩ := hg.1 x hx c (by simp [exprChains])
      have hcv := hval x hx
      rw [hw] at hcv
      refine ⟨pyTruthy w, ?_, ?_⟩
      · simp [evalCond, hw]
      · have h := hs.truthy db [x] col (by rw [hcv]; exact hsc)
        rw [hcv] at h
        exact h
  | substr tab a b => intro uo st p st' hf; simp [Frag] at hf
  | strAttr tab c => intro uo st p st' hf; simp [Frag] at hf
  | not e _ => intro uo st p st' hf; simp [Frag] at hf
  | exist v e _ => intro uo st p st' hf; simp [Frag] at hf
  | all v e _ => intro uo st p st' hf; simp [Frag] at hf
  | pred n => intro uo st p st' hf; simp [Frag] at hf
  | bareVar v => intro uo st p st' hf; simp [Frag] at hf
  | bareLit b => intro uo st p st' hf; simp [Frag] at hf

theorem select_eq (roots : List Nat) (f : Nat → Option Bool) (g : Nat → Bool) (F : Nat → List Nat)
    (hf : ∀ r ∈ roots, f r = some (g r)) (hF : ∀ r ∈ roots, F r = if g r then [r] else []) :
    ((roots.map fun r => (r, f r)).filter fun p => p.2 == some true).map (·.1) = roots.flatMap F := by
  induction roots with
  | nil => simp
  | cons r rs ih =>
    have ih' := ih (fun x hx => hf x (List.mem_cons_of_mem _ hx)) (fun x hx => hF x (List.mem_cons_of_mem _ hx))
    simp only [List.map_cons, List.flatMap_cons, List.filter_cons, hf r (List.mem_cons_self ..),
      hF r (List.mem_cons_self ..)]
    cases g r <;> simp [ih']

/-! ## The property theorems -/

theorem whereTrueWith_evalSql (db : DB) (env : List Nat) (w : Option SqlCond) :
    whereTrueWith evalSql db env w = whereTrue db env w := by
  cases w <;> rfl

theorem execSqlWith_evalSql (S : Schema) (s : SqlQuery) (db : DB) : execSqlWith evalSql S s db = execSql S s db := by
  unfold execSqlWith execSql
  simp only [whereTrueWith_evalSql]

/-- **C07_preserves_with.**  `C07_preserves_partial` for ANY evaluation `ev` of WHERE conditions that has the property
`SqlSem` (Kleene and/or; every atom TRUE exactly when Python's operator is True): the statement executed with `ev`
returns exactly the entities in-memory evaluation returns.  Instances: the hand-written semantics
(`C07_preserves_partial`) and every operator table passing `tableOk` (`C07_table_preserves`). -/
theorem C07_preserves_with (ev : DB → List Nat → SqlCond → Option Bool) (hs : SqlSem ev)
    (S : Schema) (db : DB) (q : Query) (sel : Cls) (e : Expr) (s : SqlQuery)
    (hv : q.vars = [sel]) (hc : q.cond = some e) (hf : Frag e) (hg : Good db (rootsOf S db sel) e)
    (ht : translate S q = .ok s) :
    evalMem S q db = some (execSqlWith ev S s db) := by
  unfold translate at ht
  split at ht
  · simp at ht
  · rw [hv, hc] at ht
    simp only [List.getElem?_cons_zero] at ht
    split at ht
    · simp at ht
    · split at ht
      · simp at ht
      · rename_i w st htr
        simp only [Except.ok.injEq] at ht
        subst ht
        have hinv0 : JoinsNav db (rootsOf S db sel) ({} : St) := by
          intro j hj; simp at hj
        obtain ⟨hjn, hej, c, hw, hcond⟩ := tr_frag ev hs S sel db (rootsOf S db sel) e false {} w st hf hg hinv0 htr
        subst hw
        have hej' : st.eqJoins = [] := by rw [hej]
        unfold evalMem execSqlWith
        rw [hv, hc]
        simp only [List.getElem?_cons_zero, hej', List.all_nil, Bool.and_true, List.tail_cons, restEnvs]
        have hsel : ∀ r ∈ rootsOf S db sel, memSelects S db q e r = some (ev db [r] c == some true) := by
          intro r hr
          obtain ⟨b, hb, hiff⟩ := hcond r hr
          unfold memSelects
          rw [hv]
          simp only [List.tail_cons, assignments, List.map_cons, List.map_nil, hb]
          cases b with
          | true => simp [hiff.mpr rfl]
          | false =>
            have : ev db [r] c ≠ some true := fun h => by simpa using hiff.mp h
            simp [this]
        have hjo : ∀ r ∈ rootsOf S db sel, joinsOk db [r] st.joins = true := by
          intro r hr
          unfold joinsOk
          rw [List.all_eq_true]
          intro j hj
          obtain ⟨hj0, hjr⟩ := hjn j hj
          simpa [hj0] using hjr r hr
        generalize rootsOf S db sel = roots at hsel hjo
        have hnone : (List.map (fun r => (r, memSelects S db q e r)) roots).any (fun p => p.2.isNone) = false := by
          rw [List.any_eq_false]
          intro p hp
          simp only [List.mem_map] at hp
          obtain ⟨r, hr, rfl⟩ := hp
          simp [hsel r hr]
        simp only [hnone, Bool.false_eq_true, ↓reduceIte, Option.some.injEq]
        exact select_eq roots _ (fun r => ev db [r] c == some true) _ hsel
          (fun r hr => by
            simp only [List.filter_cons, List.filter_nil, hjo r hr, whereTrueWith, Bool.true_and]
            cases ev db [r] c == some true <;> simp)

/-- **C07_preserves_partial.**  For a single-variable `an/the(entity(x, cond))` whose condition is in the fragment,
over any database on which the compared chains are numbers for every candidate: if the translator accepts, the rows the
statement returns are *exactly* (same ids, no duplicates, same order) the entities in-memory evaluation returns, and
in-memory evaluation does not raise. -/
theorem C07_preserves_partial (S : Schema) (db : DB) (q : Query) (sel : Cls) (e : Expr) (s : SqlQuery)
    (hv : q.vars = [sel]) (hc : q.cond = some e) (hf : Frag e) (hg : Good db (rootsOf S db sel) e)
    (ht : translate S q = .ok s) :
    evalMem S q db = some (execSql S s db) := by
  rw [← execSqlWith_evalSql]
  exact C07_preserves_with evalSql evalSql_sem S db q sel e s hv hc hf hg ht

/-- **C07_the_partial.**  On the same fragment `the(...)` fails in both worlds or in neither, with the same class
(no row ↔ NoSolutionFound/NoResultFound, several ↔ MultipleSolutionFound/MultipleResultsFound), else the same entity. -/
theorem C07_the_partial (S : Schema) (db : DB) (q : Query) (sel : Cls) (e : Expr) (s : SqlQuery)
    (hv : q.vars = [sel]) (hc : q.cond = some e) (hf : Frag e) (hg : Good db (rootsOf S db sel) e)
    (ht : translate S q = .ok s) :
    (evalMem S q db).map theOf = some (theOf (execSql S s db)) := by
  rw [C07_preserves_partial S db q sel e s hv hc hf hg ht]; rfl

/-- set form of `C07_preserves_partial`, as DESIGN states it -/
theorem C07_preserves_sets (S : Schema) (db : DB) (q : Query) (sel : Cls) (e : Expr) (s : SqlQuery)
    (hv : q.vars = [sel]) (hc : q.cond = some e) (hf : Frag e) (hg : Good db (rootsOf S db sel) e)
    (ht : translate S q = .ok s) :
    (evalMem S q db).map toSet = some (toSet (execSql S s db)) := by
  rw [C07_preserves_partial S db q sel e s hv hc hf hg ht]; rfl

/-- constructors outside the dispatch of `translate_query` -/
def OutsideDispatch : Expr → Prop
  | .not _ | .exist _ _ | .all _ _ | .pred _ | .bareVar _ | .bareLit _ => True
  | _ => False

/-- **C07_rejects.**  Every constructor outside the dispatch yields an `EQLTranslationError`
(`UnsupportedQueryTypeError`), in every translator state. -/
theorem C07_rejects (S : Schema) (vars : List Cls) (uo : Bool) (e : Expr) (st : St) (h : OutsideDispatch e) :
    tr S vars uo e st = .error (.rejected .unsupportedQueryType) := by
  cases e <;> simp [OutsideDispatch] at h <;> simp [tr]

/-- an and_/or_ tree that contains a constructor outside the dispatch somewhere -/
def ContainsOutside : Expr → Prop
  | .and l r => ContainsOutside l ∨ ContainsOutside r
  | .or l r => ContainsOutside l ∨ ContainsOutside r
  | e => OutsideDispatch e

/-- **C07_rejects_nested.**  Wherever it sits in an and_/or_ tree, a constructor outside the dispatch prevents
acceptance (translation is eager over the whole tree): the result is never `.ok`. -/
theorem C07_rejects_nested (S : Schema) (vars : List Cls) : ∀ (e : Expr) (uo : Bool) (st : St),
    ContainsOutside e → ∃ f, tr S vars uo e st = .error f := by
  intro e
  induction e with
  | and l r ihl ihr =>
    intro uo st h
    simp only [tr]
    rcases h with h | h
    · obtain ⟨f, hf⟩ := ihl uo st h
      exact ⟨f, by rw [hf]⟩
    · cases hl : tr S vars uo l st with
      | error f => exact ⟨f, rfl⟩
      | ok v =>
        obtain ⟨pl, st1⟩ := v
        obtain ⟨f, hf⟩ := ihr uo st1 h
        exact ⟨f, by simp [hf]⟩
  | or l r ihl ihr =>
    intro uo st h
    simp only [tr]
    rcases h with h | h
    · obtain ⟨f, hf⟩ := ihl true st h
      exact ⟨f, by rw [hf]⟩
    · cases hl : tr S vars true l st with
      | error f => exact ⟨f, rfl⟩
      | ok v =>
        obtain ⟨pl, st1⟩ := v
        obtain ⟨f, hf⟩ := ihr true st1 h
        exact ⟨f, by simp [hf]⟩
  | cmp op l r => intro uo st h; simp [ContainsOutside, OutsideDispatch] at h
  | isIn i vs => intro uo st h; simp [ContainsOutside, OutsideDispatch] at h
  | attr c => intro uo st h; simp [ContainsOutside, OutsideDispatch] at h
  | substr tab a b => intro uo st h; simp [ContainsOutside, OutsideDispatch] at h
  | strAttr tab c => intro uo st h; simp [ContainsOutside, OutsideDispatch] at h
  | not e _ => intro uo st _; exact ⟨_, C07_rejects S vars uo _ st trivial⟩
  | exist v e _ => intro uo st _; exact ⟨_, C07_rejects S vars uo _ st trivial⟩
  | all v e _ => intro uo st _; exact ⟨_, C07_rejects S vars uo _ st trivial⟩
  | pred n => intro uo st _; exact ⟨_, C07_rejects S vars uo _ st trivial⟩
  | bareVar v => intro uo st _; exact ⟨_, C07_rejects S vars uo _ st trivial⟩
  | bareLit b => intro uo st _; exact ⟨_, C07_rejects S vars uo _ st trivial⟩

/-- **C07_rejects_query.**  A query without a condition, or whose selected class has no DAO, or whose condition
contains a constructor outside the dispatch, is never accepted; the first two are `EQLTranslationError`s. -/
theorem C07_rejects_query (S : Schema) (q : Query) (sel : Cls) (hk : q.kind = .entity) (hv : q.vars[0]? = some sel) :
    (findClass S sel = none → translate S q = .error (.rejected .missingDAO)) ∧
    (findClass S sel ≠ none → q.cond = none → translate S q = .error (.rejected .unsupportedQueryType)) ∧
    (∀ e, q.cond = some e → ContainsOutside e → ∃ f, translate S q = .error f) := by
  refine ⟨?_, ?_, ?_⟩
  · intro h; simp [translate, hk, hv, h]
  · intro h hc
    cases hd : findClass S sel with
    | none => exact absurd hd h
    | some d => simp [translate, hk, hv, hd, hc]
  · intro e hc ho
    cases hd : findClass S sel with
    | none => exact ⟨.rejected .missingDAO, by simp [translate, hk, hv, hd]⟩
    | some d =>
      obtain ⟨f, hf⟩ := C07_rejects_nested S q.vars e false {} ho
      exact ⟨f, by simp [translate, hk, hv, hd, hc, hf]⟩

/-! ## Counter-examples: the witnesses of the open findings (tests by `decide`, not unbounded claims) -/

def posSchema : Schema := [⟨"Position", none, ["x", "y", "z"], []⟩]
def pos (x y z : Int) : Obj := ⟨"Position", [("x", some x), ("y", some y), ("z", some z)], []⟩
def posDB : DB := [pos 1 2 3, pos 1 5 9, pos 2 2 2, pos 7 7 8]

/-- `p = let(Position); q = let(Position); an(entity(p, p.x > q.z))` -/
def qTwoVars : Query :=
  ⟨false, .entity, ["Position", "Position"], some (.cmp .gt (.chain ⟨0, ["x"]⟩) (.chain ⟨1, ["z"]⟩))⟩

/-- **C07_cex_two_variables** (F-C07-1, repaired by fix 544475f).  Before the fix both columns of `p.x > q.z` were
resolved by class (`WHERE PositionDAO.x > PositionDAO.z`, i.e. the translated condition with every column `conflate`d onto
the selected row): no candidate satisfies it, while in memory `Position(7,7,8)` is selected.  The repaired translator gives
`q` its own alias (`seen = [1]`), and both worlds select row 3. -/
theorem C07_cex_two_variables :
    ∃ s c, translate posSchema qTwoVars = .ok s ∧ s.whr = some c ∧ s.seen = [1] ∧
      ((rootsOf posSchema posDB "Position").filter fun r => evalSql posDB [r, r] c.conflate == some true) = [] ∧
      toSet (execSql posSchema s posDB) = [3] ∧ evalMem posSchema qTwoVars posDB = some [3] := by
  refine ⟨_, _, rfl, rfl, ?_, ?_, ?_, ?_⟩ <;> decide

def oriSchema : Schema := [⟨"Orientation", none, ["x", "y", "z", "w"], []⟩]
def ori (w : Option Int) : Obj := ⟨"Orientation", [("x", some 1), ("y", some 2), ("z", some 3), ("w", w)], []⟩
def oriDB : DB := [ori none, ori (some 1), ori (some 2)]

/-- `an(entity(o, o.w != 1.0))` -/
def qNullNe : Query := ⟨false, .entity, ["Orientation"], some (.cmp .ne (.chain ⟨0, ["w"]⟩) (.lit (some 1)))⟩

/-- **C07_cex_null_ne** (F-C07-2, repaired by fix 1eb4fe3).  `o.w != 1.0` over a row whose `w` is NULL is selected in
memory (`None != 1.0`).  Before the fix the comparison was rendered `w != 1.0`, which is UNKNOWN on that row
(`sqlCmpLegacy`), so SQL dropped it; the repaired translator renders `w IS DISTINCT FROM 1.0` and both worlds select the
rows 0 and 2. -/
theorem C07_cex_null_ne :
    (sqlCmpLegacy oriDB [0] .ne (.col ⟨0, [], "w"⟩) (.lit (some 1)) = none ∧ pyCmp .ne .null (.num 1) = some true ∧
      trigNull oriSchema qNullNe oriDB = true) ∧
    ∃ s, translate oriSchema qNullNe = .ok s ∧
      execSql oriSchema s oriDB = [0, 2] ∧ evalMem oriSchema qNullNe oriDB = some [0, 2] := by
  refine ⟨⟨?_, ?_, ?_⟩, _, rfl, ?_, ?_⟩ <;> decide

/-- `an(entity(o, in_(o.w, [None, 2.0])))` -/
def qNullIn : Query := ⟨false, .entity, ["Orientation"], some (.isIn (.chain ⟨0, ["w"]⟩) [none, some 2])⟩

/-- **C07_cex_null_in** (F-C07-2, repaired by fix 1eb4fe3).  `in_(o.w, [None, 2.0])`: `None in [None, 2.0]` is True in
memory; before the fix `NULL IN (NULL, 2.0)` was UNKNOWN in SQL (`sqlInLegacy`); the repaired translator renders
`w IN (2.0) OR w IS NULL` and both worlds select the rows 0 and 2. -/
theorem C07_cex_null_in :
    (sqlInLegacy .null [none, some 2] = none ∧ ([none, some 2].any fun v => litVal v == Val.null) = true) ∧
    ∃ s, translate oriSchema qNullIn = .ok s ∧
      execSql oriSchema s oriDB = [0, 2] ∧ evalMem oriSchema qNullIn oriDB = some [0, 2] := by
  refine ⟨⟨?_, ?_⟩, _, rfl, ?_, ?_⟩ <;> decide

/-- `an(set_of([o], o.w == 1.0))` -/
def qSetOf : Query := ⟨false, .setOf, ["Orientation"], some (.cmp .eq (.chain ⟨0, ["w"]⟩) (.lit (some 1)))⟩

/-- **C07_cex_set_of_escapes** (F-C07-3, repaired by fix c10063e).  Before the fix `set_of` was not rejected with an
`EQLTranslationError`: AttributeError ('SetOf' object has no attribute 'selected_variable') escaped (`Fail.escape`, which
the property forbids: `Fail.escape ≠ Fail.rejected _`).  The repaired translator raises `UnsupportedQueryTypeError`; so do
an Index/Call/Flatten operand and an equality join of the selected class with itself. -/
theorem C07_cex_set_of_escapes :
    (∀ t, Fail.escape ≠ Fail.rejected t) ∧
    translate oriSchema qSetOf = .error (.rejected .unsupportedQueryType) ∧
    (∀ st, trOperand oriSchema ["Orientation"] (.other .index) st = .error (.rejected .unsupportedQueryType)) := by
  refine ⟨?_, rfl, fun st => rfl⟩
  intro t h
  cases h

def connSchema : Schema :=
  [⟨"Body", none, ["size"], []⟩,
   ⟨"Connection", none, [], [("parent", "Body"), ("child", "Body")]⟩,
   ⟨"FixedConnection", some "Connection", [], []⟩,
   ⟨"RevoluteConnection", some "Connection", [], []⟩]
def body (n : Int) : Obj := ⟨"Body", [("size", some n)], []⟩
def conn (c : Cls) (p ch : Nat) : Obj := ⟨c, [], [("parent", some p), ("child", some ch)]⟩
/-- two bodies; a fixed connection 0→1; a revolute connection 0→1 (same parent as the fixed one) -/
def connDB : DB := [body 1, body 2, conn "FixedConnection" 0 1, conn "RevoluteConnection" 1 0]

/-- (a test) the equality join of the selected class with itself, `f.parent == g.child` with `f`, `g` both FixedConnection
(before the fixes: InvalidRequestError at execution), is translated since `g` has its own alias: over `connDB2'` the
fixed connection 0→1 is selected because another fixed connection has body 0 as its child — in both worlds. -/
def connDB2' : DB := [body 1, body 2, conn "FixedConnection" 0 1, conn "FixedConnection" 1 0]
example : ∃ s, translate connSchema ⟨false, .entity, ["FixedConnection", "FixedConnection"],
      some (.cmp .eq (.chain ⟨0, ["parent"]⟩) (.chain ⟨1, ["child"]⟩))⟩ = .ok s ∧
    s.eqJoins = [⟨1, "child", "parent"⟩] ∧ execSql connSchema s connDB2' = [2, 3] ∧
    evalMem connSchema ⟨false, .entity, ["FixedConnection", "FixedConnection"],
      some (.cmp .eq (.chain ⟨0, ["parent"]⟩) (.chain ⟨1, ["child"]⟩))⟩ connDB2' = some [2, 3] := by
  refine ⟨_, rfl, ?_, ?_, ?_⟩ <;> decide

/-- `an(entity(f, or_(f.parent == r.parent, f.parent.size == 1)))`, `f: FixedConnection`, `r: RevoluteConnection` -/
def qJoinUnderOr : Query :=
  ⟨false, .entity, ["FixedConnection", "RevoluteConnection"],
   some (.or (.cmp .eq (.chain ⟨0, ["parent"]⟩) (.chain ⟨1, ["parent"]⟩))
             (.cmp .eq (.chain ⟨0, ["parent", "size"]⟩) (.lit (some 1))))⟩

/-- the statement the translator produced for `qJoinUnderOr` BEFORE the fix: the equality below `or_` as a global INNER JOIN
of the revolute connection, the other disjunct alone in WHERE -/
def legacyJoinUnderOr : SqlQuery :=
  ⟨"FixedConnection", ["FixedConnection", "RevoluteConnection"], [1], [⟨0, ["parent"]⟩], [⟨1, "parent", "parent"⟩],
   some (.cmp .eq (.col ⟨0, ["parent"], "size"⟩) (.lit (some 1))), []⟩

/-- **C07_cex_eq_join_under_or** (F-C07-4, repaired by fix 544475f).  Before the fix an attribute-equality comparison
below `or_` was emitted as a global INNER JOIN (`legacyJoinUnderOr`): the fixed connection whose parent has size 1
satisfies the second disjunct in memory, but the JOIN finds no revolute connection with the same parent and SQL returned
nothing.  The repaired translator only JOINs outside `or_`; here the equality stays a comparison inside the OR (no
equality join, the revolute connection's alias joined `ON true`) and both worlds select row 2. -/
theorem C07_cex_eq_join_under_or :
    execSql connSchema legacyJoinUnderOr connDB = [] ∧
    ∃ s, translate connSchema qJoinUnderOr = .ok s ∧ s.eqJoins = [] ∧ s.seen = [1] ∧
      toSet (execSql connSchema s connDB) = [2] ∧ evalMem connSchema qJoinUnderOr connDB = some [2] := by
  refine ⟨?_, _, rfl, ?_, ?_, ?_, ?_⟩ <;> decide

def nameSchema : Schema := [⟨"Body", none, ["name"], []⟩]
/-- ranks: 1 ↦ "B", 2 ↦ "a_", 3 ↦ "ab", 4 ↦ "b" (code-point order) -/
def nameTab : StrTab := [['B'], ['a', '_'], ['a', 'b'], ['b']]
def named (k : Int) : Obj := ⟨"Body", [("name", some k)], []⟩
/-- bodies named "a_", "ab", "b" -/
def nameDB : DB := [named 2, named 3, named 4]

/-- `an(entity(b, contains(b.name, "B")))` -/
def qLike : Query := ⟨false, .entity, ["Body"], some (.substr nameTab (.chain ⟨0, ["name"]⟩) (.lit 1))⟩

/-- **C07_cex_like_substring** (F-C07-5, repaired by fix 20e7107).  Before the fix `contains(b.name, "B")` was rendered
`name LIKE '%' || 'B' || '%'`; SQLite's LIKE is case-insensitive and `_`/`%` are wildcards, so that rendering selects the
bodies named "ab" and "b" (and `'a_' LIKE '%_%'`-style matches) while `"B" in name` is false for every body in memory.
With the fix the atom is rendered with the exact `instr`, and SQL and memory agree on the same data. -/
theorem C07_cex_like_substring :
    (sqlLike ['a', 'b'] ['%', 'B', '%'] = true ∧ isInfixL ['B'] ['a', 'b'] = false) ∧
    (sqlLike ['a', 'c'] ['%', '_', 'c', '%'] = true ∧ isInfixL ['_', 'c'] ['a', 'c'] = false) ∧
    ∃ s, translate nameSchema qLike = .ok s ∧ trigLike s = false ∧
      toSet (execSql nameSchema s nameDB) = [] ∧ evalMem nameSchema qLike nameDB = some [] := by
  refine ⟨by decide, by decide, _, rfl, ?_, ?_, ?_⟩ <;> decide

/-- the other direction (a test): `contains("ab", b.name)` is `instr('ab', name) > 0`, an exact substring test in which a
stored `_` is NOT a wildcard: only "ab" and "b" are selected, in both worlds. -/
example : ∃ s, translate nameSchema ⟨false, .entity, ["Body"], some (.substr nameTab (.lit 3) (.chain ⟨0, ["name"]⟩))⟩ = .ok s ∧
    execSql nameSchema s nameDB = [1, 2] ∧
    evalMem nameSchema ⟨false, .entity, ["Body"], some (.substr nameTab (.lit 3) (.chain ⟨0, ["name"]⟩))⟩ nameDB = some [1, 2] := by
  refine ⟨_, rfl, ?_, ?_⟩ <;> decide

/-! ## The two condition shapes added last: a bare STRING attribute, a whole variable compared with an object
(open findings F-C07-6 / F-C07-7: counter-examples by `decide` on the recorded witnesses; `SqlCond.repair` is the statement
a repaired translator would produce, and on the witnesses it agrees with memory) -/

/-- ranks: 1 ↦ "", 2 ↦ "0", 3 ↦ "1", 4 ↦ "ab" (code-point order) -/
def truthTab : StrTab := [[], ['0'], ['1'], ['a', 'b']]
/-- bodies named "ab", "1", "0", "" -/
def truthDB : DB := [named 4, named 3, named 2, named 1]
/-- `an(entity(b, b.name))` -/
def qStrTruthy : Query := ⟨false, .entity, ["Body"], some (.strAttr truthTab ⟨0, ["name"]⟩)⟩

/-- **C07_cex_string_truthiness** (F-C07-6, open).  `entity(b, b.name)`: in memory every body with a non-empty name is
selected ("ab", "1", "0"); the statement is `… WHERE BodyDAO.name`, and SQLite casts the TEXT to NUMERIC: only "1" is
non-zero.  With the repaired rendering (`name IS NOT NULL AND name != ''`) both worlds agree. -/
theorem C07_cex_string_truthiness :
    ∃ s, translate nameSchema qStrTruthy = .ok s ∧ hasStrAttr (.strAttr truthTab ⟨0, ["name"]⟩) = true ∧
      execSql nameSchema s truthDB = [1] ∧ evalMem nameSchema qStrTruthy truthDB = some [0, 1, 2] ∧
      execSql nameSchema s.repair truthDB = [0, 1, 2] := by
  refine ⟨_, rfl, rfl, ?_, ?_, ?_⟩ <;> decide

/-- (tests) SQLite's cast on the strings probed on the real engine -/
example : ([['1', '2', 'a'], ['-', '1'], ['0', '.', '5'], ['.', '5'], ['1', 'e', '3'], ['+', '2'], [' ', '3']].all sqliteTextTruthy
    && ([['a', 'b'], ['0'], ['a', '1'], ['0', 'x', '1'], ['0', '0'], ['0', '.', '0'], ['-', '0'], [], ['e', '5'], ['-'], ['.']].all
      fun s => !sqliteTextTruthy s)) = true := by decide

/-- `p = let(Position, domain); an(entity(p, p == positions[3]))`; the first element of the domain is object 0 -/
def qVarObj (i : Nat) (op : Cmp) : Query :=
  ⟨false, .entity, ["Position"], some (.cmp op (.var 0 (some 0)) (.obj i))⟩

/-- **C07_cex_var_eq_obj** (F-C07-7, open).  `p == obj` is evaluated by Python at translation time on the FIRST element
of the variable's domain: for `obj` = that element the statement is `WHERE true` (every position is returned, memory
returns one), for any other object `WHERE false` (nothing is returned, memory returns the object); `!=` likewise.  With
the repaired rendering (comparison of primary keys) both worlds agree. -/
theorem C07_cex_var_eq_obj :
    (∃ s, translate posSchema (qVarObj 3 .eq) = .ok s ∧ execSql posSchema s posDB = [] ∧
      evalMem posSchema (qVarObj 3 .eq) posDB = some [3] ∧ execSql posSchema s.repair posDB = [3]) ∧
    (∃ s, translate posSchema (qVarObj 0 .eq) = .ok s ∧ execSql posSchema s posDB = [0, 1, 2, 3] ∧
      evalMem posSchema (qVarObj 0 .eq) posDB = some [0] ∧ execSql posSchema s.repair posDB = [0]) ∧
    (∃ s, translate posSchema (qVarObj 3 .ne) = .ok s ∧ execSql posSchema s posDB = [0, 1, 2, 3] ∧
      evalMem posSchema (qVarObj 3 .ne) posDB = some [0, 1, 2] ∧ execSql posSchema s.repair posDB = [0, 1, 2]) ∧
    hasVarObj (.cmp .eq (.var 0 (some 0)) (.obj 3)) = true := by
  refine ⟨⟨_, rfl, ?_, ?_, ?_⟩, ⟨_, rfl, ?_, ?_, ?_⟩, ⟨_, rfl, ?_, ?_, ?_⟩, rfl⟩ <;> decide

/-- a class with a `name`: the sample is replaced by its database id, which never equals an object: `b == obj` is
`WHERE false` whatever `obj` is (a test) -/
example : ∃ s, translate nameSchema ⟨false, .entity, ["Body"], some (.cmp .eq (.var 0 (some 0)) (.obj 0))⟩ = .ok s ∧
    execSql nameSchema s nameDB = [] ∧
    evalMem nameSchema ⟨false, .entity, ["Body"], some (.cmp .eq (.var 0 (some 0)) (.obj 0))⟩ nameDB = some [0] := by
  refine ⟨_, rfl, ?_, ?_⟩ <;> decide

/-- the new atoms are outside `Frag`: `C07_preserves_partial` does not claim them (the trigger of the two findings is
the complement) -/
example : ¬ Frag (.strAttr truthTab ⟨0, ["name"]⟩) ∧ ¬ Frag (.cmp .eq (.var 0 (some 0)) (.obj 3)) := by
  simp [Frag]

/-! ## Non-vacuity: the hypotheses of `C07_preserves_partial` are satisfiable by a non-trivial input, the translator
accepts it, and the common answer is neither empty nor everything. -/

def poseSchema : Schema :=
  [⟨"Position", none, ["x", "y", "z"], []⟩, ⟨"Pose", none, [], [("position", "Position")]⟩]
def poseDB : DB := [pos 1 2 3, pos 4 5 6, ⟨"Pose", [], [("position", some 0)]⟩, ⟨"Pose", [], [("position", some 1)]⟩]
/-- `an(entity(p, or_(and_(p.position.x > 3, in_(p.position.y, [5, 7])), p.position.z == 9)))` -/
def poseExpr : Expr :=
  .or (.and (.cmp .gt (.chain ⟨0, ["position", "x"]⟩) (.lit (some 3))) (.isIn (.chain ⟨0, ["position", "y"]⟩) [some 5, some 7]))
      (.cmp .eq (.chain ⟨0, ["position", "z"]⟩) (.lit (some 9)))
def qPose : Query := ⟨false, .entity, ["Pose"], some poseExpr⟩

example : Frag poseExpr := by simp [Frag, poseExpr]
example : Good poseDB (rootsOf poseSchema poseDB "Pose") poseExpr := by
  have hroots : rootsOf poseSchema poseDB "Pose" = [2, 3] := by decide
  rw [hroots]
  constructor
  · intro r hr c hc
    have hr' : r = 2 ∨ r = 3 := by simpa using hr
    simp only [poseExpr, exprChains, List.cons_append, List.nil_append, List.mem_cons, List.not_mem_nil, or_false] at hc
    rcases hr' with rfl | rfl <;> rcases hc with rfl | rfl | rfl
    · exact ⟨.num 1, by decide, Or.inr ⟨1, rfl⟩⟩
    · exact ⟨.num 2, by decide, Or.inr ⟨2, rfl⟩⟩
    · exact ⟨.num 3, by decide, Or.inr ⟨3, rfl⟩⟩
    · exact ⟨.num 4, by decide, Or.inr ⟨4, rfl⟩⟩
    · exact ⟨.num 5, by decide, Or.inr ⟨5, rfl⟩⟩
    · exact ⟨.num 6, by decide, Or.inr ⟨6, rfl⟩⟩
  · intro r hr c hc
    have hr' : r = 2 ∨ r = 3 := by simpa using hr
    simp only [poseExpr, ordChains, isOrd, ↓reduceIte, List.nil_append, List.append_nil,
      List.mem_cons, List.not_mem_nil, or_false, Bool.false_eq_true] at hc
    subst hc
    rcases hr' with rfl | rfl
    · exact ⟨1, by decide⟩
    · exact ⟨4, by decide⟩

/-- the hypotheses now admit NULL on the compared column: `or_(o.w != 1, in_(o.w, [None, 2]))` over orientations whose
`w` is None, 1, 2 — `Good` holds, the translator accepts, and both worlds select the rows 0 and 2. -/
def nullExpr : Expr := .or (.cmp .ne (.chain ⟨0, ["w"]⟩) (.lit (some 1))) (.isIn (.chain ⟨0, ["w"]⟩) [none, some 2])
example : Frag nullExpr := by simp [Frag, nullExpr]
example : Good oriDB (rootsOf oriSchema oriDB "Orientation") nullExpr := by
  have hroots : rootsOf oriSchema oriDB "Orientation" = [0, 1, 2] := by decide
  rw [hroots]
  constructor
  · intro r hr c hc
    have hr' : r = 0 ∨ r = 1 ∨ r = 2 := by simpa using hr
    simp only [nullExpr, exprChains, List.cons_append, List.nil_append, List.mem_cons, List.not_mem_nil, or_false,
      or_self] at hc
    subst hc
    rcases hr' with rfl | rfl | rfl
    · exact ⟨.null, by decide, Or.inl rfl⟩
    · exact ⟨.num 1, by decide, Or.inr ⟨1, rfl⟩⟩
    · exact ⟨.num 2, by decide, Or.inr ⟨2, rfl⟩⟩
  · intro r hr c hc
    simp [nullExpr, ordChains, isOrd] at hc
example : ∃ s, translate oriSchema ⟨false, .entity, ["Orientation"], some nullExpr⟩ = .ok s ∧
    execSql oriSchema s oriDB = [0, 2] ∧
    evalMem oriSchema ⟨false, .entity, ["Orientation"], some nullExpr⟩ oriDB = some [0, 2] := by
  refine ⟨_, rfl, ?_, ?_⟩ <;> decide
example : ∃ s, translate poseSchema qPose = .ok s ∧ s.joins = [⟨0, ["position"]⟩] ∧
    execSql poseSchema s poseDB = [3] ∧ evalMem poseSchema qPose poseDB = some [3] := by
  refine ⟨_, rfl, ?_, ?_, ?_⟩ <;> decide
/-- multiplicity (a test, by `decide`): a join between two variables has one solution per matching PAIR.  The fixed
connection 0→1 (row 2) shares its parent with two revolute connections: the statement returns its row twice, in memory it
is a solution twice, and `the(...)` fails in both worlds (MultipleResultsFound / MultipleSolutionFound). -/
def connDB2 : DB :=
  [body 1, body 2, conn "FixedConnection" 0 1, conn "RevoluteConnection" 0 1, conn "RevoluteConnection" 0 0]
def qJoin : Query :=
  ⟨true, .entity, ["FixedConnection", "RevoluteConnection"],
   some (.cmp .eq (.chain ⟨0, ["parent"]⟩) (.chain ⟨1, ["parent"]⟩))⟩
example : ∃ s, translate connSchema qJoin = .ok s ∧ execSql connSchema s connDB2 = [2, 2] ∧
    evalMemMulti connSchema qJoin connDB2 = some [2, 2] ∧ theOf (execSql connSchema s connDB2) = .multiple ∧
    evalMem connSchema qJoin connDB2 = some [2] := by
  refine ⟨_, rfl, ?_, ?_, ?_, ?_⟩ <;> decide

/-- `C07_rejects_nested` is not vacuous: a `not_` two levels down -/
example : ContainsOutside (.and (.attr ⟨0, ["x"]⟩) (.or (.not (.attr ⟨0, ["y"]⟩)) (.attr ⟨0, ["z"]⟩))) := by
  simp [ContainsOutside, OutsideDispatch]

end KrroodVerif.SqlTr
