import KrroodVerif.Lemmas.EqlQuant
import KrroodVerif.Props.C01
/-!
# C01 — quantified conditions: `exists`, `for_all` and `not_` over them

Property theorems only (lemmas: `Lemmas/EqlQuant.lean`; the main induction is `ql_qinv`, the query level
`sound_complete_Ql`). All unbounded: any world, any domains (duplicate-free), any number of free variables, any nesting
of the quantifier-free conjuncts.

Shape of the proved fragment: the condition is `and_(l₁, and_(l₂, … Q))` — or just `Q` — where every `lᵢ` is in the
fragment F1 of `Props/C01.lean` and `Q` is ONE quantifier `exists(y, φ)`, `for_all(y, φ)`, `not_(exists(y, φ))` or
`not_(for_all(y, φ))` with `φ` in F1. (`and_(a, b, Q)` of the library is `and_(and_(a, b), Q)`: one `l`.) The side
conditions are decidable and syntactic (`existsSide`, `forAllSide` below; `Expr.Ql` on the built expression):

* `exists(y, φ)`: (E1) every result cell of `φ`, true or false, binds `y` — `Expr.bK`; just outside: F-C01-7
  (`KeyError`); (E2) every other variable of `φ` is bound by every true cell of the conjuncts to the left — so a
  root-level `exists` must be closed; just outside: F-C01-5 (the de-duplication on the value of `y` runs across the
  free variables' assignments);
* `for_all(y, φ)`: (A1) every TRUE result cell of `φ` binds every VARIABLE of `φ`; just outside: F-C01-11. This is
  strictly weaker than the trigger `Expr.forAllCompound` ("`φ` contains and_/or_"): `for_all(y, and_(a, b))` with atoms
  `a`, `b` is INSIDE (test below), its negation is outside. (A2) F-C01-6 (empty universal domain) needs no hypothesis:
  the theorems are conditional on the evaluation returning, and `C01_forall_empty_error` shows it never does then;
* the quantified variable occurs nowhere else (not in the `lᵢ`, not selected).

`C01_quant_tree_sound_complete_partial` extends the shape to and-TREES with any number of quantifiers on either side of
other conjuncts (`Expr.Qt`). Not proved (left to the executable model + search): quantifiers below `or_` (F-C01-8 shows
that is wrong in general), nested quantifiers, a quantified variable used outside its quantifier.
-/
namespace KrroodVerif.Eql

/-- **C01_quant_sound_complete_partial.** For every query whose built condition is in the quantifier fragment
`Expr.Ql` (see `Lemmas/EqlQuant.lean`), the returned rows are exactly the projections of the assignments of the FREE
variables that satisfy the condition read as a first-order formula (`∃ y ∈ dom y, φ` / `∀ y ∈ dom y, φ`): set equality.
Side conditions as in `C01_sound_complete_F1_partial`. Conditional on both sides returning `.ok`. -/
theorem C01_quant_sound_complete_partial (w : World) (q : SQuery) (c : SExpr)
    (hc : q.cond = some c) (hQ : (build c).Ql [] [] = true)
    (hsel : selF1 q.sel = true) (hms : trigMultiSel q = false) (hsq : selNoQuant q.sel (build c) = true)
    (hnd : ∀ v, (w.dom v).Nodup) (hne : ∀ v ∈ q.vars, w.dom v ≠ [])
    (hlit : LitNodup (build c))
    {rows rows' : List (List Val)}
    (h1 : evalQuery w q.toQuery = .ok rows) (h2 : solutions w q = .ok rows') :
    ∀ r, r ∈ rows ↔ r ∈ rows' := by
  obtain ⟨sel, cond⟩ := q
  simp only at hc; subst hc
  refine sound_complete_Ql w sel c hQ hsel (hasDup_false_iff.mp hms) ?_ hnd hne hlit h1 h2
  intro v hv
  have := List.all_eq_true.mp hsq v hv
  simpa using this

/- Intended statement (full strength): the set equality for EVERY tree-shaped query with quantifiers. False for the code
   as it is (F-C01-5/6/7/8/11). Proved: and-trees (`Expr.Qt`). Missing: quantifiers below `or_` / inside quantifiers (and
   `exists` with a free variable that nothing binds before it, `for_all` whose true cells leave a node unbound: wrong). -/
/-- **C01_quant_tree_sound_complete_partial.** The same for and-TREES (`Expr.Qt`, `Model/EqlQuantFrag.lean`): any nesting
of `and_` over quantifier-free conditions of the cover fragment and ANY NUMBER of quantifiers `exists(y, φ)` /
`for_all(y, φ)` / `not_` of them, quantifiers also to the LEFT of other conjuncts (an `exists` binds its variable for the
conjuncts after it, which however must not use it; a later `exists` may rely on variables that an earlier conjunct —
or an earlier `exists` body — binds); conjuncts may also follow a `for_all`. Contains the chain fragment (`ql_qt`). -/
theorem C01_quant_tree_sound_complete_partial (w : World) (q : SQuery) (c : SExpr)
    (hc : q.cond = some c) (hQ : (build c).Qt [] [] = true)
    (hsel : selF1 q.sel = true) (hms : trigMultiSel q = false) (hsq : selNoQuant q.sel (build c) = true)
    (hnd : ∀ v, (w.dom v).Nodup) (hne : ∀ v ∈ q.vars, w.dom v ≠ [])
    (hlit : LitNodup (build c))
    {rows rows' : List (List Val)}
    (h1 : evalQuery w q.toQuery = .ok rows) (h2 : solutions w q = .ok rows') :
    ∀ r, r ∈ rows ↔ r ∈ rows' := by
  obtain ⟨sel, cond⟩ := q
  simp only at hc; subst hc
  refine sound_complete_Qt w sel c hQ hsel (hasDup_false_iff.mp hms) ?_ hnd hne hlit h1 h2
  intro v hv
  have := List.all_eq_true.mp hsq v hv
  simpa using this

/-! ## The four quantifier shapes, with the side conditions spelled out on the surface syntax -/

/-- `and_(l₁, and_(l₂, … last))` -/
def chainS : List SExpr → SExpr → SExpr
  | [], last => last
  | l :: ls, last => .and l (chainS ls last)

/-- variables the conjuncts `ls` may bind / keys every true result of them binds -/
def chainVars (ls : List SExpr) : List VarId := ls.flatMap SExpr.freeVars
def chainKeys (ls : List SExpr) : List Key := ls.flatMap fun l => Expr.bK true (build l)

theorem ql_chain (last : SExpr) : ∀ (ls : List SExpr) (A : List VarId) (B : List Key),
    (∀ l ∈ ls, l.F1 = true) → (build last).Ql (A ++ chainVars ls) (B ++ chainKeys ls) = true →
    (build (chainS ls last)).Ql A B = true := by
  intro ls
  induction ls with
  | nil => intro A B _ h; simpa [chainS, chainVars, chainKeys] using h
  | cons l ls ih =>
    intro A B hls h
    obtain ⟨hFc, hv⟩ := build_F1 (hls l List.mem_cons_self)
    simp only [chainS, build, Expr.Ql, Expr.FcQ_eq, Bool.and_eq_true]
    refine ⟨hFc, ih _ _ (fun l' hl' => hls l' (List.mem_cons_of_mem _ hl')) ?_⟩
    rw [hv]
    simpa [chainVars, chainKeys, List.append_assoc] using h

/-- side condition of `exists(y, φ)` after the conjuncts `ls`: (E0) `y` is not used by the conjuncts; (E1) every result
cell of `φ` — true and false — binds `y`; (E2) every other variable of `φ` is bound by every true result of `ls` -/
def existsSide (ls : List SExpr) (y : VarId) (φ : Expr) : Bool :=
  !(chainVars ls).contains y && (Expr.bK true φ).contains (.var y) && (Expr.bK false φ).contains (.var y) &&
    φ.vars.all fun v => v == y || (chainKeys ls).contains (.var v)

/-- side condition of `for_all(y, φ)` after the conjuncts `ls`: (A0) `y` is not used by the conjuncts; (A1) every TRUE
result cell of `φ` binds every VARIABLE of `φ` (a literal node may stay unbound: the re-check reads it afresh) -/
def forAllSide (ls : List SExpr) (y : VarId) (φ : Expr) : Bool :=
  !(chainVars ls).contains y && φ.vars.all fun v => (Expr.bK true φ).contains (.var v)

theorem ql_exists {ls : List SExpr} {y : VarId} {φ : Expr} (hF : φ.Fc = true) (h : existsSide ls y φ = true) :
    (Expr.exists_ y φ).Ql ([] ++ chainVars ls) ([] ++ chainKeys ls) = true := by
  simp only [existsSide, Bool.and_eq_true] at h
  simp only [Expr.Ql, Expr.FcQ_eq, List.nil_append, Bool.and_eq_true]
  exact ⟨⟨⟨⟨hF, h.1.1.1⟩, h.1.1.2⟩, h.1.2⟩, h.2⟩

theorem ql_forAll {ls : List SExpr} {y : VarId} {φ : Expr} (hF : φ.Fc = true) (h : forAllSide ls y φ = true) :
    (Expr.forAll y φ).Ql ([] ++ chainVars ls) ([] ++ chainKeys ls) = true := by
  simp only [forAllSide, Bool.and_eq_true] at h
  simp only [Expr.Ql, Expr.FcQ_eq, List.nil_append, Bool.and_eq_true]
  exact ⟨⟨hF, h.1⟩, h.2⟩

/- Intended statement (full strength): the same set equality for EVERY query whose condition contains `exists`
   anywhere. False for the code as it is (F-C01-5, F-C01-7, F-C01-8: counter-examples below); proved here: `exists` as
   the last conjunct of a chain of quantifier-free conjuncts, under `existsSide`. Missing towards the full statement:
   conjuncts to the right of the quantifier, several / nested quantifiers (left to the correspondence). -/
/-- **C01_exists_sound_complete_partial.** `and_(l₁, … exists(y, φ))` (or `exists(y, φ)` alone, `ls = []`) with `lᵢ`, `φ`
in F1 and `existsSide`: the returned rows are exactly the assignments of the free variables that satisfy
`l₁ ∧ … ∧ ∃ y ∈ dom y, φ`, projected onto the selection. -/
theorem C01_exists_sound_complete_partial (w : World) (q : SQuery) (ls : List SExpr) (y : VarId) (φ : SExpr)
    (hc : q.cond = some (chainS ls (.exists_ y φ)))
    (hls : ∀ l ∈ ls, l.F1 = true) (hφ : φ.F1 = true) (hside : existsSide ls y (build φ) = true)
    (hsel : selF1 q.sel = true) (hms : trigMultiSel q = false)
    (hsq : selNoQuant q.sel (build (chainS ls (.exists_ y φ))) = true)
    (hnd : ∀ v, (w.dom v).Nodup) (hne : ∀ v ∈ q.vars, w.dom v ≠ [])
    (hlit : LitNodup (build (chainS ls (.exists_ y φ))))
    {rows rows' : List (List Val)}
    (h1 : evalQuery w q.toQuery = .ok rows) (h2 : solutions w q = .ok rows') :
    ∀ r, r ∈ rows ↔ r ∈ rows' :=
  C01_quant_sound_complete_partial w q _ hc
    (ql_chain _ ls [] [] hls (by simp only [build]; exact ql_exists (build_F1 hφ).1 hside))
    hsel hms hsq hnd hne hlit h1 h2

/- Intended statement (full strength): the same for EVERY query containing `for_all`. False for the code as it is
   (F-C01-6, F-C01-11, F-C01-8); proved here: `for_all` as the last conjunct under `forAllSide`. -/
/-- **C01_forall_sound_complete_partial.** `and_(l₁, … for_all(y, φ))` (or `for_all(y, φ)` alone) with `lᵢ`, `φ` in F1
and `forAllSide`: the returned rows are exactly the assignments of the free variables that satisfy
`l₁ ∧ … ∧ ∀ y ∈ dom y, φ`. The free variables of `φ` need NOT be bound by the conjuncts. -/
theorem C01_forall_sound_complete_partial (w : World) (q : SQuery) (ls : List SExpr) (y : VarId) (φ : SExpr)
    (hc : q.cond = some (chainS ls (.forAll y φ)))
    (hls : ∀ l ∈ ls, l.F1 = true) (hφ : φ.F1 = true) (hside : forAllSide ls y (build φ) = true)
    (hsel : selF1 q.sel = true) (hms : trigMultiSel q = false)
    (hsq : selNoQuant q.sel (build (chainS ls (.forAll y φ))) = true)
    (hnd : ∀ v, (w.dom v).Nodup) (hne : ∀ v ∈ q.vars, w.dom v ≠ [])
    (hlit : LitNodup (build (chainS ls (.forAll y φ))))
    {rows rows' : List (List Val)}
    (h1 : evalQuery w q.toQuery = .ok rows) (h2 : solutions w q = .ok rows') :
    ∀ r, r ∈ rows ↔ r ∈ rows' :=
  C01_quant_sound_complete_partial w q _ hc
    (ql_chain _ ls [] [] hls (by simp only [build]; exact ql_forAll (build_F1 hφ).1 hside))
    hsel hms hsq hnd hne hlit h1 h2

/-- the construction-time dualisation: `not_(exists(y, φ))` is built as `for_all(y, not φ)` -/
theorem build_not_exists {y : VarId} {φ : SExpr} (hφ : φ.F1 = true) :
    build (.not (.exists_ y φ)) = .forAll y (.not (build φ)) := by
  simp only [build, invert, invert_Fc (build_F1 hφ).1]

/-- … and `not_(for_all(y, φ))` as `exists(y, not φ)` -/
theorem build_not_forAll {y : VarId} {φ : SExpr} (hφ : φ.F1 = true) :
    build (.not (.forAll y φ)) = .exists_ y (.not (build φ)) := by
  simp only [build, invert, invert_Fc (build_F1 hφ).1]

/-- **C01_not_exists_sound_complete_partial.** `not_(exists(y, φ))` as the last conjunct: the engine evaluates
`for_all(y, not φ)` (`build_not_exists`; `satE_build` gives the semantic side: the first-order reading is unchanged), so
the side condition is `forAllSide` of `not φ` — every FALSE result cell of `φ` binds every variable of `φ`. The returned
rows are exactly the assignments satisfying `l₁ ∧ … ∧ ¬∃ y ∈ dom y, φ`. -/
theorem C01_not_exists_sound_complete_partial (w : World) (q : SQuery) (ls : List SExpr) (y : VarId) (φ : SExpr)
    (hc : q.cond = some (chainS ls (.not (.exists_ y φ))))
    (hls : ∀ l ∈ ls, l.F1 = true) (hφ : φ.F1 = true) (hside : forAllSide ls y (.not (build φ)) = true)
    (hsel : selF1 q.sel = true) (hms : trigMultiSel q = false)
    (hsq : selNoQuant q.sel (build (chainS ls (.not (.exists_ y φ)))) = true)
    (hnd : ∀ v, (w.dom v).Nodup) (hne : ∀ v ∈ q.vars, w.dom v ≠ [])
    (hlit : LitNodup (build (chainS ls (.not (.exists_ y φ)))))
    {rows rows' : List (List Val)}
    (h1 : evalQuery w q.toQuery = .ok rows) (h2 : solutions w q = .ok rows') :
    ∀ r, r ∈ rows ↔ r ∈ rows' :=
  C01_quant_sound_complete_partial w q _ hc
    (ql_chain _ ls [] [] hls (by
      rw [build_not_exists hφ]
      exact ql_forAll (by simp only [Expr.Fc]; exact (build_F1 hφ).1) hside))
    hsel hms hsq hnd hne hlit h1 h2

/-- **C01_not_forall_sound_complete_partial.** `not_(for_all(y, φ))` as the last conjunct: the engine evaluates
`exists(y, not φ)`; side condition `existsSide` of `not φ`. The returned rows are exactly the assignments satisfying
`l₁ ∧ … ∧ ¬∀ y ∈ dom y, φ`. -/
theorem C01_not_forall_sound_complete_partial (w : World) (q : SQuery) (ls : List SExpr) (y : VarId) (φ : SExpr)
    (hc : q.cond = some (chainS ls (.not (.forAll y φ))))
    (hls : ∀ l ∈ ls, l.F1 = true) (hφ : φ.F1 = true) (hside : existsSide ls y (.not (build φ)) = true)
    (hsel : selF1 q.sel = true) (hms : trigMultiSel q = false)
    (hsq : selNoQuant q.sel (build (chainS ls (.not (.forAll y φ)))) = true)
    (hnd : ∀ v, (w.dom v).Nodup) (hne : ∀ v ∈ q.vars, w.dom v ≠ [])
    (hlit : LitNodup (build (chainS ls (.not (.forAll y φ)))))
    {rows rows' : List (List Val)}
    (h1 : evalQuery w q.toQuery = .ok rows) (h2 : solutions w q = .ok rows') :
    ∀ r, r ∈ rows ↔ r ∈ rows' :=
  C01_quant_sound_complete_partial w q _ hc
    (ql_chain _ ls [] [] hls (by
      rw [build_not_forAll hφ]
      exact ql_exists (by simp only [Expr.Fc]; exact (build_F1 hφ).1) hside))
    hsel hms hsq hnd hne hlit h1 h2

/-- **C01_exists_no_keyError** (F-C01-7, unbounded). Under side condition (E1) — every result cell of `φ`, true or false,
binds `y` — `exists(y, φ)` never raises by itself: whatever error it returns is an error of evaluating `φ` (so never the
`KeyError` of the quantifier). Without (E1): `C01_quant_need_E1`. -/
theorem C01_exists_no_keyError (w : World) (y : VarId) (φ : Expr) (env : Env) (hF : φ.Fc = true)
    (hE1 : Key.var y ∈ Expr.bK true φ ∧ Key.var y ∈ Expr.bK false φ) (err : Err)
    (h : eval w (.exists_ y φ) env = .error err) : eval w φ env = .error err :=
  exists_error_from_body w y φ env hF hE1 err h

/-- non-vacuity (test): the body `x.nope > y.a` meets (E1); the attribute does not exist, the quantifier raises — the
body's `AttributeError`, as the theorem says -/
example : eval cex7W (.cmp .gt (.attr (.var 0) "nope") (cexAttrA 3)) [] = .error .attrError :=
  C01_exists_no_keyError cex7W 3 (.cmp .gt (.attr (.var 0) "nope") (cexAttrA 3)) [] (by decide) (by decide) _
    (by decide)

/-- **C01_forall_empty_error** (F-C01-6, unbounded). `for_all(y, φ)` over an EMPTY domain for `y` (with `y` not yet
bound) raises `TypeError` whatever `φ` is — never "vacuously true"; so no query whose evaluation returns has this
defect, and the theorems above need no hypothesis for it. -/
theorem C01_forall_empty_error (w : World) (y : VarId) (φ : Expr) (env : Env)
    (hd : w.dom y = []) (hy : env.lookup (.var y) = none) :
    eval w (.forAll y φ) env = .error .typeError := by
  simp only [eval, evalVar, hy, hd, List.map_nil]

/-! ## Non-vacuity (tests): one query inside each theorem's hypotheses, non-empty and non-total answers

World: objects `P0, P1, P2` with `a = 0, 1, 2`; `x` (variable 0) ranges over all three, the quantified variable `y`
(variable 3) over `{P1, P2}`, `u` (variable 4) over `{P0, P1}`; variable 1 (`z`) over all three. -/

def qnvW : World :=
  { objs := [cexObj false 0 true [] 0, cexObj false 1 true [] 2, cexObj false 2 true [] 4],
    doms := [(0, [.obj 0, .obj 1, .obj 2]), (1, [.obj 0, .obj 1, .obj 2]), (3, [.obj 1, .obj 2]), (4, [.obj 0, .obj 1])] }

/-- `x.a >= 1` -/
def qnvL : SExpr := .cmp .ge (cexAttrA 0) (.lit 101 (.int 1))

/-- `and_(x.a >= 1, exists(y, x.a > y.a))`, selecting `x` and a variable `z` that does not occur in the condition:
only `x = P2` (3 of the 9 assignments of `x, z`) -/
def qnvE : SQuery := ⟨[.var 0, .var 1], some (chainS [qnvL] (.exists_ 3 (.cmp .gt (cexAttrA 0) (cexAttrA 3))))⟩

example : ∀ r, r ∈ [[Val.obj 2, .obj 0], [.obj 2, .obj 1], [.obj 2, .obj 2]] ↔
    r ∈ [[Val.obj 2, .obj 0], [.obj 2, .obj 1], [.obj 2, .obj 2]] :=
  C01_exists_sound_complete_partial qnvW qnvE [qnvL] 3 (.cmp .gt (cexAttrA 0) (cexAttrA 3)) rfl (by decide) (by decide)
    (by decide) (by decide) (by decide) (by decide) (domsNodup_of_B (by decide)) (by decide) (by decide)
    (by decide) (by decide)

/-- a root-level `exists` must be CLOSED: `set_of([x], exists(y, y.a > 1))` returns every `x` -/
def qnvE0 : SQuery := ⟨[.var 0], some (chainS [] (.exists_ 3 (.cmp .gt (cexAttrA 3) (.lit 101 (.int 1)))))⟩

example : ∀ r, r ∈ [[Val.obj 0], [.obj 1], [.obj 2]] ↔ r ∈ [[Val.obj 0], [.obj 1], [.obj 2]] :=
  C01_exists_sound_complete_partial qnvW qnvE0 [] 3 (.cmp .gt (cexAttrA 3) (.lit 101 (.int 1))) rfl (by decide) (by decide)
    (by decide) (by decide) (by decide) (by decide) (domsNodup_of_B (by decide)) (by decide) (by decide)
    (by decide) (by decide)

/-- `for_all(u, x.a >= u.a)` at the ROOT with the free variable `x` enumerated inside the quantifier: `x ∈ {P1, P2}` -/
def qnvA : SQuery := ⟨[.var 0], some (chainS [] (.forAll 4 (.cmp .ge (cexAttrA 0) (cexAttrA 4))))⟩

example : ∀ r, r ∈ [[Val.obj 1], [.obj 2]] ↔ r ∈ [[Val.obj 1], [.obj 2]] :=
  C01_forall_sound_complete_partial qnvW qnvA [] 4 (.cmp .ge (cexAttrA 0) (cexAttrA 4)) rfl (by decide) (by decide)
    (by decide) (by decide) (by decide) (by decide) (domsNodup_of_B (by decide)) (by decide) (by decide)
    (by decide) (by decide)

/-- a COMPOUND condition inside the fragment: `and_(x.a >= 1, for_all(u, and_(x.a >= u.a, u.a < 2)))` — the trigger
`Expr.forAllCompound` of F-C01-11 fires (it over-approximates), `forAllSide` holds: every true cell of a conjunction of
atoms binds every node -/
def qnvAcφ : SExpr := .and (.cmp .ge (cexAttrA 0) (cexAttrA 4)) (.cmp .lt (cexAttrA 4) (.lit 102 (.int 2)))
def qnvAc : SQuery := ⟨[.var 0], some (chainS [qnvL] (.forAll 4 qnvAcφ))⟩

example : (∀ r, r ∈ [[Val.obj 1], [.obj 2]] ↔ r ∈ [[Val.obj 1], [.obj 2]]) ∧
    (build (chainS [qnvL] (.forAll 4 qnvAcφ))).forAllCompound = true :=
  ⟨C01_forall_sound_complete_partial qnvW qnvAc [qnvL] 4 qnvAcφ rfl (by decide) (by decide)
    (by decide) (by decide) (by decide) (by decide) (domsNodup_of_B (by decide)) (by decide) (by decide)
    (by decide) (by decide), by decide⟩

/-- a NEGATED conjunction inside the fragment: `for_all(u, not_(and_(x.a < u.a, u.a >= 1)))` — a true cell of the body is
a false cell of `x.a < u.a` passed through un-extended: it binds both VARIABLES but not the literal node of `u.a >= 1`,
which the re-check under the next `u` then reads afresh. `x ∈ {P1, P2}`. (Compare `C01_quant_need_A1`, where the
un-evaluated conjunct holds a VARIABLE.) -/
def qnvAnφ : SExpr := .not (.and (.cmp .lt (cexAttrA 0) (cexAttrA 4)) (.cmp .ge (cexAttrA 4) (.lit 102 (.int 1))))
def qnvAn : SQuery := ⟨[.var 0], some (chainS [] (.forAll 4 qnvAnφ))⟩

example : (∀ r, r ∈ [[Val.obj 1], [.obj 2]] ↔ r ∈ [[Val.obj 1], [.obj 2]]) ∧
    ((build qnvAnφ).nodes.all fun k => (Expr.bK true (build qnvAnφ)).contains k) = false :=
  ⟨C01_forall_sound_complete_partial qnvW qnvAn [] 4 qnvAnφ rfl (by decide) (by decide)
    (by decide) (by decide) (by decide) (by decide) (domsNodup_of_B (by decide)) (by decide) (by decide)
    (by decide) (by decide), by decide⟩

/-- `not_(exists(u, x.a < u.a))` at the root: built as `for_all(u, not(x.a < u.a))`; `x ∈ {P1, P2}` -/
def qnvNE : SQuery := ⟨[.var 0], some (chainS [] (.not (.exists_ 4 (.cmp .lt (cexAttrA 0) (cexAttrA 4)))))⟩

example : ∀ r, r ∈ [[Val.obj 1], [.obj 2]] ↔ r ∈ [[Val.obj 1], [.obj 2]] :=
  C01_not_exists_sound_complete_partial qnvW qnvNE [] 4 (.cmp .lt (cexAttrA 0) (cexAttrA 4)) rfl (by decide) (by decide)
    (by decide) (by decide) (by decide) (by decide) (domsNodup_of_B (by decide)) (by decide) (by decide)
    (by decide) (by decide)

/-- `and_(x.a >= 1, not_(for_all(y, x.a > y.a)))`: built with `exists(y, not(x.a > y.a))`; `x ∈ {P1, P2}` (the engine
returns `P1` twice — once per witness `y`; C01 is about the SET of rows) -/
def qnvNA : SQuery := ⟨[.var 0], some (chainS [qnvL] (.not (.forAll 3 (.cmp .gt (cexAttrA 0) (cexAttrA 3)))))⟩

example : ∀ r, r ∈ [[Val.obj 1], [.obj 1], [.obj 2]] ↔ r ∈ [[Val.obj 1], [.obj 2]] :=
  C01_not_forall_sound_complete_partial qnvW qnvNA [qnvL] 3 (.cmp .gt (cexAttrA 0) (cexAttrA 3)) rfl (by decide) (by decide)
    (by decide) (by decide) (by decide) (by decide) (domsNodup_of_B (by decide)) (by decide) (by decide)
    (by decide) (by decide)

/-! ## Each side condition is necessary (tests, by `decide`): one query JUST outside it, on which evaluation and
specification differ. The other side conditions hold on these witnesses. -/

/-- **C01_quant_need_E1** (F-C01-7). `and_(x.a >= 1, exists(y, and_(x.a > 1, y.a == 1)))`: `x` is bound by the left
conjunct (E2 holds), but a FALSE result cell of `and_(x.a > 1, …)` does not bind `y` (E1 fails) — `KeyError`. So does
the recorded witness `cex7Q` (where E2 fails as well). -/
theorem C01_quant_need_E1 :
    let φ : SExpr := .and (.cmp .gt (cexAttrA 0) (.lit 102 (.int 1))) (.cmp .eq (cexAttrA 3) (.lit 103 (.int 1)))
    let q : SQuery := ⟨[.var 0], some (chainS [qnvL] (.exists_ 3 φ))⟩
    existsSide [qnvL] 3 (build φ) = false ∧
    (!(chainVars [qnvL]).contains 3 && (Expr.bK true (build φ)).contains (.var 3) &&
      (build φ).vars.all fun v => v == 3 || (chainKeys [qnvL]).contains (.var v)) = true ∧
    (Expr.bK false (build φ)).contains (.var 3) = false ∧
    evalQuery qnvW q.toQuery = .error .keyError ∧ solutions qnvW q = .ok [[.obj 2]] ∧
    (build (chainS [] (.exists_ 3 (.and (.cmp .gt (cexAttrA 0) (.lit 101 (.int 1)))
      (.cmp .eq (cexAttrA 3) (.lit 102 (.int 1))))))).Ql [] [] = false := by
  decide

/-- **C01_quant_need_E2** (F-C01-5). `exists(y, x.a >= y.a)` at the root (the recorded witness `cex5Q`): every cell binds
`y` (E1 holds) but `x` is not bound before the quantifier (E2 fails) — `x = 2` is lost. -/
theorem C01_quant_need_E2 :
    let φ : SExpr := .cmp .ge (cexAttrA 0) (cexAttrA 3)
    existsSide [] 3 (build φ) = false ∧
    ((Expr.bK true (build φ)).contains (.var 3) && (Expr.bK false (build φ)).contains (.var 3)) = true ∧
    cex5Q.cond = some (chainS [] (.exists_ 3 φ)) ∧
    sameAnswers (evalQuery cex5W cex5Q.toQuery) (solutions cex5W cex5Q) = false := by
  decide

def cex11W : World :=
  { objs := [{ cls := 0, veq := false, fields := [("a", .int 2), ("f", .bool false)] },
             { cls := 0, veq := false, fields := [("a", .int 1), ("f", .bool true)] }],
    doms := [(0, [.int 1, .int 3]), (4, [.obj 0, .obj 1])] }
/-- `u.f ∧ x == u.a` -/
def cex11φ : SExpr := .and (.truth (.attr (.var 4) "f")) (.cmp .eq (.var 0) (cexAttrA 4))
def cex11Q : SQuery := ⟨[.var 0], some (.forAll 4 (.not cex11φ))⟩

/-- **C01_quant_need_A1** (F-C01-11, the recorded witness). `for_all(u, not_(and_(u.f, x == u.a)))`: a true cell of
`not(and …)` is a false cell of `u.f` passed through un-extended — it does not bind `x` (A1 fails); `x = 3` is lost.
The same condition WITHOUT the negation is inside the fragment. -/
theorem C01_quant_need_A1 :
    forAllSide [] 4 (build (.not cex11φ)) = false ∧ forAllSide [] 4 (build cex11φ) = true ∧
    evalQuery cex11W cex11Q.toQuery = .ok [] ∧ solutions cex11W cex11Q = .ok [[.int 3]] := by
  decide

/-- **C01_quant_need_A2** (F-C01-6). `for_all(y, x.a >= y.a)` with an empty domain for `y` (the recorded witness `cex6Q`)
meets every syntactic side condition; the evaluation raises (`C01_forall_empty_error`), the specification is vacuously
true: the hypothesis "the evaluation returns" of the theorems cannot be dropped. -/
theorem C01_quant_need_A2 :
    forAllSide [] 3 (build (.cmp .ge (cexAttrA 0) (cexAttrA 3))) = true ∧
    cex6Q.cond = some (chainS [] (.forAll 3 (.cmp .ge (cexAttrA 0) (cexAttrA 3)))) ∧
    evalQuery cex6W cex6Q.toQuery = .error .typeError ∧ solutions cex6W cex6Q = .ok [[.obj 0]] := by
  decide

/-- **C01_quant_need_shape** (F-C01-8). A quantifier beside `or_` is outside the fragment, and wrong (`cex8Q`). -/
theorem C01_quant_need_shape :
    (cex8Q.cond.map fun c => (build c).Ql [] []) = some false ∧
    sameAnswers (evalQuery cex7W cex8Q.toQuery) (solutions cex7W cex8Q) = false := by
  decide

/-- non-vacuity of the TREE theorem (test): `and_(exists(y, y.a > 1), x.a >= 1, exists(u, u.a < x.a))` — a quantifier to
the LEFT of a conjunct and two quantifiers, the second relying on `x`, which the middle conjunct binds; outside the chain
fragment `Expr.Ql`. `x ∈ {P1, P2}` (the engine returns `P2` twice, once per witness `u`). -/
def qnvT : SQuery :=
  ⟨[.var 0], some (.and (.and (.exists_ 3 (.cmp .gt (cexAttrA 3) (.lit 103 (.int 1)))) qnvL)
    (.exists_ 4 (.cmp .lt (cexAttrA 4) (cexAttrA 0))))⟩

example : (∀ r, r ∈ [[Val.obj 1], [.obj 2], [.obj 2]] ↔ r ∈ [[Val.obj 1], [.obj 2]]) ∧
    (qnvT.cond.map fun c => (build c).Ql [] []) = some false :=
  ⟨C01_quant_tree_sound_complete_partial qnvW qnvT _ rfl (by decide) (by decide) (by decide) (by decide)
    (domsNodup_of_B (by decide)) (by decide) (by decide) (by decide) (by decide), by decide⟩

/-- non-vacuity of the TREE theorem, a conjunct AFTER `for_all` (test): `and_(for_all(u, x.a >= u.a), x.a < 2)` — the row
`for_all` passes on lists `x` twice (the candidate's copy and the outer binding); `x = P1` -/
def qnvTA : SQuery :=
  ⟨[.var 0], some (.and (.forAll 4 (.cmp .ge (cexAttrA 0) (cexAttrA 4))) (.cmp .lt (cexAttrA 0) (.lit 103 (.int 2))))⟩

example : ∀ r, r ∈ [[Val.obj 1]] ↔ r ∈ [[Val.obj 1]] :=
  C01_quant_tree_sound_complete_partial qnvW qnvTA _ rfl (by decide) (by decide) (by decide) (by decide)
    (domsNodup_of_B (by decide)) (by decide) (by decide) (by decide) (by decide)

/-- **C01_quant_need_scope** (test of the fragment's boundary, NOT a finding). `Expr.Qt` accepts conjuncts on either side
of a quantifier, but rejects a quantified variable used by another conjunct (nothing is proved about it; the harness
assumes it does not happen either) and a quantifier beside `or_` or inside another quantifier. The correspondence check
still compares such queries with the specification. -/
theorem C01_quant_need_scope :
    (build (.and (.forAll 3 (.cmp .gt (cexAttrA 3) (.lit 101 (.int 0)))) qnvL)).Qt [] [] = true ∧
    (build (.and (.exists_ 3 (.cmp .gt (cexAttrA 3) (.lit 101 (.int 1)))) qnvL)).Qt [] [] = true ∧
    (build (.and (.exists_ 3 (.cmp .gt (cexAttrA 3) (.lit 101 (.int 1))))
      (.cmp .ge (cexAttrA 0) (cexAttrA 3)))).Qt [] [] = false ∧
    (build (.exists_ 3 (.exists_ 4 (.cmp .gt (cexAttrA 3) (cexAttrA 4))))).Qt [] [] = false := by
  decide

/-- **C01_quantProved_sound_complete.** The decidable predicate `quantProved w q` (`Model/EqlQuantFrag.lean`; the driver
evaluates it on every case and then does not offer F-C01-5 / F-C01-7 / F-C01-11 as an excuse: `triggersQ`) implies every
hypothesis of `C01_quant_tree_sound_complete_partial`: on such a query the evaluation returns exactly the specified rows. -/
theorem C01_quantProved_sound_complete (w : World) (q : SQuery) (h : quantProved w q = true)
    {rows rows' : List (List Val)}
    (h1 : evalQuery w q.toQuery = .ok rows) (h2 : solutions w q = .ok rows') :
    ∀ r, r ∈ rows ↔ r ∈ rows' := by
  unfold quantProved at h
  cases hc : q.cond with
  | none => rw [hc] at h; cases h
  | some c =>
    rw [hc] at h
    simp only [Bool.and_eq_true, Bool.not_eq_true'] at h
    obtain ⟨⟨⟨⟨⟨⟨⟨hQ, _⟩, hsel⟩, hms⟩, hsq⟩, hnd⟩, hne⟩, hlit⟩ := h
    refine C01_quant_tree_sound_complete_partial w q c hc hQ ?_ hms hsq ?_ ?_ ?_ h1 h2
    · simpa [selF1] using hsel
    · apply domsNodup_of_B
      simp only [domsNodupB, List.all_eq_true, decide_eq_true_eq]
      intro d hd
      exact (nodupVal_iff _).mp (List.all_eq_true.mp hnd d hd)
    · intro v hv hemp
      have := List.all_eq_true.mp hne v hv
      simp [hemp] at this
    · exact (nodupNat_iff _).mp hlit

/-- non-vacuity (test): the queries of the tests above satisfy `quantProved`; the recorded witnesses of the quantifier
findings do not -/
example : quantProved qnvW qnvE = true ∧ quantProved qnvW qnvA = true ∧ quantProved qnvW qnvAc = true ∧
    quantProved qnvW qnvNE = true ∧ quantProved qnvW qnvNA = true ∧ quantProved qnvW qnvE0 = true ∧
    quantProved qnvW qnvT = true ∧ quantProved qnvW qnvTA = true ∧ quantProved c02nvW c02nvQ = false ∧
    quantProved cex5W cex5Q = false ∧ quantProved cex7W cex7Q = false ∧ quantProved cex7W cex8Q = false ∧
    quantProved cex11W cex11Q = false ∧
    ("F-C01-5" ∈ triggers qnvW qnvE ∧ "F-C01-5" ∉ triggersQ qnvW qnvE) ∧
    ("F-C01-11" ∈ triggers qnvW qnvAc ∧ "F-C01-11" ∉ triggersQ qnvW qnvAc) ∧
    triggersQ cex5W cex5Q = triggers cex5W cex5Q := by
  decide

end KrroodVerif.Eql
