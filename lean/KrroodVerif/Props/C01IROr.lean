import KrroodVerif.Props.C01IR
/-!
C01 (c01b) — `runIR irTable = eval`, continued: the `OR` family (`OR.evaluate_left` calling `OR.evaluate_right`, the flag
`_is_false_` threaded from one left result to the next: `flatMapRF` / `loopSt_specF` of `Props/C01IR.lean`).
-/
open KrroodVerif.Eql KrroodVerif.Eql.IR
namespace KrroodVerif.Eql.IR

/-- one pass of the `for left_value in left_values` loop of `OR.evaluate_left`: `(yielded, flag left behind)` -/
def orG (lower : CallH) (src : IEnv) (a : Env × Val × Bool) (s : Bool) : R (List V × Bool) :=
  if a.2.2 then pure ([V.res (wrapC .left src a)], false)
  else (lower "evaluate_right" [V.env (wrapC .left src a).b] s >>= fun p => iterV p.1 >>= fun xs => pure (xs, p.2))

theorem or_left_call (nd : Node) (hfind : irTable.find nd.cls "evaluate_left" = some mOrLeft) (w : World)
    (lower : CallH) (b : IEnv) (s0 : Bool) :
    callWith irTable nd w lower "evaluate_left" [V.env b] s0
      = (nd.ev .left b.env >>= fun ls => flatMapRF ls (orG lower b) Prod.fst Prod.snd s0 >>= fun p => pure (V.list p.1, p.2)) := by
  rw [callWith_find _ _ _ _ _ _ _ mOrLeft hfind]
  simp only [mOrLeft, bindParams]
  rw [exec_seq_assign_nm, evalE_leftCall]
  cases hF : nd.ev .left b.env with
  | error e => rfl
  | ok ls =>
    have hloop := loopSt_specF (β := V × Bool)
      (fun x fr1 => do let fr2 ← bindTarget fr1 (.nm "v1") x; exec lower nd w orLeftBody fr2)
      (fun fr => fr.locals = LBl (wrapChild b .left ls) (V.env b) ∨ ∃ y z, fr.locals = ("v2", z) :: ("v1", y) :: LBl (wrapChild b .left ls) (V.env b))
      (orG lower b) Prod.fst Prod.snd (fun a => V.res (wrapC .left b a))
      (by
        intro a fr hfr
        obtain ⟨e1, v1, t⟩ := a
        cases t with
        | true =>
          exact ⟨fun c => { locals := ("v2", .bool false) :: ("v1", V.res (wrapC .left b (e1, v1, true))) :: LBl _ _, isFalse := c.2 },
            fun c => ⟨Or.inr ⟨_, _, rfl⟩, rfl⟩, or_left_body_true lower nd w _ _ _ fr hfr⟩
        | false =>
          refine ⟨fun c => { locals := ("v2", .bool true) :: ("v1", V.res (wrapC .left b (e1, v1, false))) :: LBl _ _, isFalse := c.2 },
            fun c => ⟨Or.inr ⟨_, _, rfl⟩, rfl⟩, ?_⟩
          refine (or_left_body_false lower nd w _ _ (wrapC .left b (e1, v1, false)).b fr hfr).trans ?_
          simp only [orG, Bool.false_eq_true, if_false, bind_assoc, pure_bind]
          rfl)
      ls { locals := LBl (wrapChild b .left ls) (V.env b), isFalse := s0 }
      (fun ys c s => match c with
        | .ret .none => pure (.list ys, s)
        | .ret v => pure (v, s)
        | _ => pure (.list ys, s))
      (Or.inl rfl)
    show (exec lower nd w (.forIn (.nm "v1") (.nm "v0") orLeftBody)
            { locals := LBl (wrapChild b .left ls) (V.env b), isFalse := s0 } >>= post) = _
    rw [exec_forIn]
    exact hloop

theorem mapM_after (nd : Node) (X : List V) (zs : List (Env × Val × Bool)) (hX : X.mapM (conv nd) = pure zs)
    (m : R (List V × Bool)) :
    (m >>= fun p => (X ++ p.1).mapM (conv nd)) = ((m >>= fun p => p.1.mapM (conv nd)) >>= fun ws => pure (zs ++ ws)) := by
  simp only [mapM_append_R, hX, bind_assoc, pure_bind]

theorem or_finish (nd : Node) (hfind : irTable.find nd.cls "evaluate_right" = some mOrRight)
    (hk : nd.keyOf .self = none) (w : World) (lower : CallH) (src : IEnv) (hsrc : src.own.lookup .self = none)
    (ls : List (Env × Val × Bool)) : ∀ s,
    (flatMapRF ls (orG (callWith irTable nd w lower) src) Prod.fst Prod.snd s >>= fun p => p.1.mapM (conv nd))
      = flatMapR ls fun a =>
          if a.2.2 then pure [(a.1, Val.none, true)]
          else (nd.ev .right a.1 >>= fun rs => pure (rs.map fun c => (c.1, Val.none, c.2.2))) := by
  induction ls with
  | nil => intro s; rfl
  | cons a rest ih =>
    intro s
    obtain ⟨e1, v1, t⟩ := a
    have hl : (wrapC .left src (e1, v1, t)).b.own.lookup .self = none := by
      simp [wrapC, List.lookup, hsrc, show (NodeRef.self == NodeRef.left) = false from rfl]
    cases t with
    | true =>
      have hX : [V.res (wrapC .left src (e1, v1, true))].mapM (conv nd) = (pure [(e1, Val.none, true)] : R _) := by
        simp [conv, hk, wrapC, List.lookup, hsrc, show (NodeRef.self == NodeRef.left) = false from rfl]
      simp only [flatMapRF, flatMapR, orG, if_true, pure_bind, bind_assoc]
      rw [mapM_after nd _ _ hX, ih]
    | false =>
      simp only [flatMapRF, flatMapR, orG, Bool.false_eq_true, if_false, pure_bind, bind_assoc]
      rw [or_right_call nd hfind]
      simp only [bind_assoc, pure_bind, show (wrapC .left src (e1, v1, false)).b.env = e1 from rfl]
      cases nd.ev .right e1 with
      | error e => rfl
      | ok rs =>
        show (flatMapRF rest _ Prod.fst Prod.snd _ >>= fun p => ((rs.map fun c => V.res (wrapC .right (wrapC .left src (e1, v1, false)).b c)) ++ p.1).mapM (conv nd)) = _
        rw [mapM_after nd _ _ (mapM_conv_right nd hk _ hl rs), ih]
        rfl

theorem iterV_list (l : List V) : iterV (.list l) = pure l := rfl
theorem post_next (fr : Frame) (ys : List V) : post { fr := fr, ys := ys, ctl := .next } = pure (.list ys, fr.isFalse) := rfl

theorem runNode_elseIf (nd : Node) (hcls : nd.cls = "ElseIf") (hk : nd.keyOf .self = none) (w : World) (env : Env) :
    runNode irTable nd w env = (nd.ev .left env >>= fun ls => flatMapR ls fun a =>
      if a.2.2 then pure [(a.1, Val.none, true)]
      else (nd.ev .right a.1 >>= fun rs => pure (rs.map fun c => (c.1, Val.none, c.2.2)))) := by
  rw [runNode_eq, callTop, callWith_find _ _ _ _ _ _ _ mElseIf (by rw [hcls]; exact find_mElseIf)]
  simp only [mElseIf, bindParams]
  rw [prologue]
  rw [show exec (callWith irTable nd w (callWith irTable nd w (callWith irTable nd w call0))) nd w
        (.yldFrom (.call (.att .self "evaluate_left") (.cons (.nm "sources") .nil)))
        { locals := [("sources", .env { env := env }), ("parent", .none)], isFalse := false }
      = (callWith irTable nd w (callWith irTable nd w (callWith irTable nd w call0)) "evaluate_left" [V.env { env := env }] false
          >>= fun p => iterV p.1 >>= fun xs =>
            pure { fr := { locals := [("sources", .env { env := env }), ("parent", .none)], isFalse := p.2 }, ys := xs, ctl := .next })
      from rfl]
  rw [or_left_call nd (by rw [hcls]; exact find_mOrLeft)]
  simp only [bind_assoc, pure_bind, iterV_list, post_next]
  cases nd.ev .left env with
  | error e => rfl
  | ok ls =>
    exact or_finish nd (by rw [hcls]; exact find_mOrRight) hk w _ { env := env } rfl ls false

theorem or_model (F : Env → Except Err (List (Env × Bool))) (G : Env → R (List (Env × Bool))) (ls : List (Env × Bool))
    (hG : ∀ p ∈ ls, p.2 = false → G p.1 = liftE (F p.1)) :
    (flatMapR (addVal ls) (fun a => if a.2.2 then pure [(a.1, Val.none, true)]
        else ((G a.1 >>= fun x => pure (addVal x)) >>= fun rs => pure (rs.map fun c => (c.1, Val.none, c.2.2))))
        >>= fun rs => pure (dropVal rs))
      = liftE (flatMapM ls fun p => if p.2 then pure [(p.1, true)] else F p.1) := by
  induction ls with
  | nil => rfl
  | cons p rest ih =>
    obtain ⟨e, t⟩ := p
    have ih' := ih (fun p hp => hG p (List.mem_cons_of_mem _ hp))
    cases hrest : flatMapM rest (fun p => if p.2 then pure [(p.1, true)] else F p.1) with
    | error err =>
      rw [hrest] at ih'
      cases t with
      | true =>
        simp only [addVal, List.map_cons, flatMapR, flatMapM, hrest] at ih' ⊢
        cases hx : flatMapR (List.map (fun r => (r.1, Val.none, r.2)) rest) _ with
        | error e2 => rw [hx] at ih'; cases ih'; rfl
        | ok x => rw [hx] at ih'; cases ih'
      | false =>
        have hGe := hG (e, false) (List.mem_cons_self ..) rfl
        simp only [addVal, List.map_cons, flatMapR, flatMapM, hrest, hGe] at ih' ⊢
        cases F e with
        | error e3 => rfl
        | ok fs =>
          cases hx : flatMapR (List.map (fun r => (r.1, Val.none, r.2)) rest) _ with
          | error e2 => rw [hx] at ih'; cases ih'; rfl
          | ok x => rw [hx] at ih'; cases ih'
    | ok rs =>
      rw [hrest] at ih'
      cases t with
      | true =>
        simp only [addVal, List.map_cons, flatMapR, flatMapM, hrest] at ih' ⊢
        cases hx : flatMapR (List.map (fun r => (r.1, Val.none, r.2)) rest) _ with
        | error e2 => rw [hx] at ih'; cases ih'
        | ok x =>
          rw [hx] at ih'
          have : dropVal x = rs := by cases ih'; rfl
          simp [liftE, dropVal, ← this]
          rfl
      | false =>
        have hGe := hG (e, false) (List.mem_cons_self ..) rfl
        simp only [addVal, List.map_cons, flatMapR, flatMapM, hrest, hGe] at ih' ⊢
        cases F e with
        | error e3 => rfl
        | ok fs =>
          cases hx : flatMapR (List.map (fun r => (r.1, Val.none, r.2)) rest) _ with
          | error e2 => rw [hx] at ih'; cases ih'
          | ok x =>
            rw [hx] at ih'
            have : dropVal x = rs := by cases ih'; rfl
            simp [liftE, dropVal, addVal, ← this, List.map_map, Function.comp_def]
            rfl


/-- the `ElseIf` node (`OR.evaluate_left` / `OR.evaluate_right`), pointwise: agreement on the left operand under `env` and on
the right operand under the bindings of every FALSE result of the left operand gives agreement on the else-if -/
theorem C01_runIR_eq_eval_elseIf_partial (w : World) (l r : Expr) (env : Env)
    (ihl : runIR irTable w l env = liftE (eval w l env))
    (ihr : ∀ ls, eval w l env = .ok ls → ∀ p ∈ ls, p.2 = false → runIR irTable w r p.1 = liftE (eval w r p.1)) :
    runIR irTable w (.elseIf l r) env = liftE (eval w (.elseIf l r) env) := by
  rw [runIR, runNode_elseIf _ rfl rfl]
  simp only [ihl, eval]
  cases hl : eval w l env with
  | error err => rfl
  | ok ls => exact or_model (eval w r) (runIR irTable w r) ls (ihr ls hl)

theorem exec_seq_eq (lower : CallH) (nd : Node) (w : World) (a b : St) (fr : Frame) :
    exec lower nd w (.seq a b) fr = (exec lower nd w a fr >>= fun o =>
      match o.ctl with
      | .next => exec lower nd w b o.fr >>= fun o2 => pure { fr := o2.fr, ys := o.ys ++ o2.ys, ctl := o2.ctl }
      | _ => pure o) := by
  rfl

theorem or_allres (nd : Node) (hfind : irTable.find nd.cls "evaluate_right" = some mOrRight)
    (hk : nd.keyOf .self = none) (w : World) (lower : CallH) (src : IEnv) (hsrc : src.own.lookup .self = none)
    (ls : List (Env × Val × Bool)) : ∀ s p,
    flatMapRF ls (orG (callWith irTable nd w lower) src) Prod.fst Prod.snd s = .ok p →
      ∃ zs, p.1.mapM (conv nd) = .ok zs := by
  induction ls with
  | nil => intro s p h; cases h; exact ⟨[], rfl⟩
  | cons a rest ih =>
    intro s p h
    obtain ⟨e1, v1, t⟩ := a
    have hl : (wrapC .left src (e1, v1, t)).b.own.lookup .self = none := by
      simp [wrapC, List.lookup, hsrc, show (NodeRef.self == NodeRef.left) = false from rfl]
    cases t with
    | true =>
      simp only [flatMapRF, orG, if_true, pure_bind] at h
      cases hr : flatMapRF rest (orG (callWith irTable nd w lower) src) Prod.fst Prod.snd false with
      | error e => rw [hr] at h; cases h
      | ok p' =>
        rw [hr] at h; cases h
        obtain ⟨zs, hz⟩ := ih _ _ hr
        refine ⟨(e1, Val.none, true) :: zs, ?_⟩
        show ([V.res (wrapC .left src (e1, v1, true))] ++ p'.1).mapM (conv nd) = _
        have hX : [V.res (wrapC .left src (e1, v1, true))].mapM (conv nd) = (pure [(e1, Val.none, true)] : R _) := by
          simp [conv, hk, wrapC, List.lookup, hsrc, show (NodeRef.self == NodeRef.left) = false from rfl]
        rw [mapM_append_R, hX, hz]
        rfl
    | false =>
      simp only [flatMapRF, orG, Bool.false_eq_true, if_false, bind_assoc, pure_bind] at h
      rw [or_right_call nd hfind] at h
      simp only [bind_assoc, pure_bind, iterV_list] at h
      cases hR : nd.ev .right (wrapC .left src (e1, v1, false)).b.env with
      | error e => rw [hR] at h; cases h
      | ok rs =>
        rw [hR] at h
        replace h : (flatMapRF rest (orG (callWith irTable nd w lower) src) Prod.fst Prod.snd
              (orRightFlag (wrapC .left src (e1, v1, false)).b s rs) >>= fun p' =>
            (pure ((rs.map fun c => V.res (wrapC .right (wrapC .left src (e1, v1, false)).b c)) ++ p'.1, p'.2) : R (List V × Bool)))
            = .ok p := h
        cases hr : flatMapRF rest (orG (callWith irTable nd w lower) src) Prod.fst Prod.snd
            (orRightFlag (wrapC .left src (e1, v1, false)).b s rs) with
        | error e => rw [hr] at h; cases h
        | ok p' =>
          rw [hr] at h; cases h
          obtain ⟨zs, hz⟩ := ih _ _ hr
          refine ⟨(rs.map fun c => (c.1, Val.none, c.2.2)) ++ zs, ?_⟩
          show ((rs.map fun c => V.res (wrapC .right (wrapC .left src (e1, v1, false)).b c)) ++ p'.1).mapM (conv nd) = _
          rw [mapM_append_R, hz, mapM_conv_right nd hk _ hl rs]
          rfl

abbrev L3 (nd : Node) (w : World) : CallH := callWith irTable nd w (callWith irTable nd w (callWith irTable nd w call0))

theorem runNode_union (nd : Node) (hcls : nd.cls = "Union") (hk : nd.keyOf .self = none) (w : World) (env : Env) :
    runNode irTable nd w env = (nd.ev .left env >>= fun ls =>
      (flatMapR ls fun a =>
        if a.2.2 then pure [(a.1, Val.none, true)]
        else (nd.ev .right a.1 >>= fun rs => pure (rs.map fun c => (c.1, Val.none, c.2.2)))) >>= fun a =>
      nd.ev .right env >>= fun rs => pure (a ++ rs.map fun c => (c.1, Val.none, c.2.2))) := by
  have hfR : irTable.find nd.cls "evaluate_right" = some mOrRight := by rw [hcls]; exact find_mOrRightU
  rw [runNode_eq, callTop, callWith_find _ _ _ _ _ _ _ mUnion (by rw [hcls]; exact find_mUnion)]
  simp only [mUnion, bindParams]
  rw [prologue, exec_seq_eq]
  rw [show exec (L3 nd w) nd w (.yldFrom (.call (.att .self "evaluate_left") (.cons (.nm "sources") .nil)))
        { locals := [("sources", .env { env := env }), ("parent", .none)], isFalse := false }
      = (L3 nd w "evaluate_left" [V.env { env := env }] false >>= fun p => iterV p.1 >>= fun xs =>
            pure { fr := { locals := [("sources", .env { env := env }), ("parent", .none)], isFalse := p.2 }, ys := xs, ctl := .next })
      from rfl]
  have hyR : ∀ s, exec (L3 nd w) nd w (.yldFrom (.call (.att .self "evaluate_right") (.cons (.nm "sources") .nil)))
        { locals := [("sources", .env { env := env }), ("parent", .none)], isFalse := s }
      = (L3 nd w "evaluate_right" [V.env { env := env }] s >>= fun p => iterV p.1 >>= fun xs =>
            pure { fr := { locals := [("sources", .env { env := env }), ("parent", .none)], isFalse := p.2 }, ys := xs, ctl := .next }) :=
    fun s => rfl
  rw [L3, or_left_call nd (by rw [hcls]; exact find_mOrLeftU)]
  simp only [bind_assoc, pure_bind, iterV_list, hyR, or_right_call nd hfR, post_next]
  cases nd.ev .left env with
  | error e => rfl
  | ok ls =>
    have hfin := or_finish nd hfR hk w (callWith irTable nd w call0) { env := env } rfl ls false
    cases hL : flatMapRF ls (orG (callWith irTable nd w (callWith irTable nd w call0)) { env := env }) Prod.fst Prod.snd false with
    | error e =>
      rw [hL] at hfin
      show (flatMapRF ls _ Prod.fst Prod.snd false >>= _) = (flatMapR ls _ >>= _)
      rw [hL, ← hfin]
      rfl
    | ok p =>
      obtain ⟨zs, hz⟩ := or_allres nd hfR hk w _ { env := env } rfl ls false p hL
      rw [hL] at hfin
      have hM : flatMapR ls (fun a => if a.2.2 then (pure [(a.1, Val.none, true)] : R _)
          else (nd.ev .right a.1 >>= fun rs => pure (rs.map fun c => (c.1, Val.none, c.2.2)))) = .ok zs := by
        rw [← hfin]; exact hz
      show (flatMapRF ls _ Prod.fst Prod.snd false >>= _) = (flatMapR ls _ >>= _)
      rw [hL, hM]
      show (nd.ev .right env >>= fun rs => (p.1 ++ rs.map fun c => V.res (wrapC .right { env := env } c)).mapM (conv nd))
        = (nd.ev .right env >>= fun rs => pure (zs ++ rs.map fun c => (c.1, Val.none, c.2.2)))
      congr 1
      funext rs
      rw [mapM_append_R, hz, mapM_conv_right nd hk _ rfl rs]
      rfl

/-- the `Union` node, pointwise: agreement on the left operand under `env`, on the right operand under the bindings of
every FALSE result of the left operand and under `env` itself gives agreement on the union -/
theorem C01_runIR_eq_eval_union_partial (w : World) (l r : Expr) (env : Env)
    (ihl : runIR irTable w l env = liftE (eval w l env))
    (ihr : ∀ ls, eval w l env = .ok ls → ∀ p ∈ ls, p.2 = false → runIR irTable w r p.1 = liftE (eval w r p.1))
    (ihr0 : runIR irTable w r env = liftE (eval w r env)) :
    runIR irTable w (.union l r) env = liftE (eval w (.union l r) env) := by
  rw [runIR, runNode_union _ rfl rfl]
  simp only [ihl, ihr0, eval]
  cases hl : eval w l env with
  | error err => rfl
  | ok ls =>
    have hm := or_model (eval w r) (runIR irTable w r) ls (ihr ls hl)
    show ((flatMapR (addVal ls) _ >>= fun a => _) >>= fun rs => pure (dropVal rs))
      = liftE (flatMapM ls (fun p => if p.2 then pure [(p.1, true)] else eval w r p.1) >>= fun a =>
          eval w r env >>= fun b => pure (a ++ b))
    cases hA : flatMapR (addVal ls) (fun a => if a.2.2 then (pure [(a.1, Val.none, true)] : R _)
        else ((runIR irTable w r a.1 >>= fun x => pure (addVal x)) >>= fun rs => pure (rs.map fun c => (c.1, Val.none, c.2.2)))) with
    | error e =>
      rw [hA] at hm
      cases hB : flatMapM ls (fun p => if p.2 then pure [(p.1, true)] else eval w r p.1) with
      | error e' => rw [hB] at hm; cases hm; rfl
      | ok a' => rw [hB] at hm; cases hm
    | ok a =>
      rw [hA] at hm
      cases hB : flatMapM ls (fun p => if p.2 then pure [(p.1, true)] else eval w r p.1) with
      | error e' => rw [hB] at hm; cases hm
      | ok a' =>
        rw [hB] at hm
        have ha : dropVal a = a' := by cases hm; rfl
        cases eval w r env with
        | error e2 => rfl
        | ok b =>
          simp [liftE, dropVal, addVal, ← ha, List.map_map, Function.comp_def]
          rfl

/-- the class of expressions on which `runIR irTable` agrees with `eval` under EVERY environment is closed under `not_`,
`and_` and both forms of `or_` (`ElseIf`, `Union`) — PARTIAL: the full statement `∀ e env, runIR irTable w e env =
liftE (eval w e env)` also needs the leaves (`Comparator`, the `DomainMapping` / `Variable` terms, `HasType`) and the
quantifiers (`Exists`, `ForAll`), which are validated by the driver cross-check only -/
theorem C01_runIR_eq_eval_connectives_partial (w : World) (Agree : Expr → Prop)
    (hA : ∀ e, Agree e ↔ ∀ env, runIR irTable w e env = liftE (eval w e env)) :
    (∀ e, Agree e → Agree (.not e)) ∧ (∀ l r, Agree l → Agree r → Agree (.and l r)) ∧
    (∀ l r, Agree l → Agree r → Agree (.elseIf l r)) ∧ (∀ l r, Agree l → Agree r → Agree (.union l r)) := by
  refine ⟨fun e h => (hA _).2 fun env => C01_runIR_eq_eval_not_partial w e env ((hA _).1 h env),
    fun l r hl hr => (hA _).2 fun env => C01_runIR_eq_eval_and_partial w l r env ((hA _).1 hl env) (fun _ _ p _ _ => (hA _).1 hr p.1),
    fun l r hl hr => (hA _).2 fun env => C01_runIR_eq_eval_elseIf_partial w l r env ((hA _).1 hl env) (fun _ _ p _ _ => (hA _).1 hr p.1),
    fun l r hl hr => (hA _).2 fun env => C01_runIR_eq_eval_union_partial w l r env ((hA _).1 hl env)
      (fun _ _ p _ _ => (hA _).1 hr p.1) ((hA _).1 hr env)⟩

example (w : World) : ∃ Agree : Expr → Prop, ∀ e, Agree e ↔ ∀ env, runIR irTable w e env = liftE (eval w e env) :=
  ⟨fun e => ∀ env, runIR irTable w e env = liftE (eval w e env), fun _ => Iff.rfl⟩

/-! ### non-vacuity (kernel-evaluated leaves) -/

example : runIR irTable w0 (.elseIf (.not (.truth (.var 0))) (.truth (.var 0))) []
    = liftE (eval w0 (.elseIf (.not (.truth (.var 0))) (.truth (.var 0))) []) := by
  refine C01_runIR_eq_eval_elseIf_partial w0 _ _ _ (C01_runIR_eq_eval_not_partial w0 _ _ leaf0) ?_
  intro ls hls p hp _
  have : ls = [([(.var 0, .bool true)], false), ([(.var 0, .bool false)], false)] := by
    have h0 : eval w0 (.not (.truth (.var 0))) [] = .ok [([(.var 0, .bool true)], false), ([(.var 0, .bool false)], false)] := by rfl
    rw [h0] at hls; cases hls; rfl
  subst this
  simp only [List.mem_cons, List.mem_nil_iff, or_false] at hp
  rcases hp with rfl | rfl <;> rfl

example : runIR irTable w0 (.union (.not (.truth (.var 0))) (.truth (.var 0))) []
    = liftE (eval w0 (.union (.not (.truth (.var 0))) (.truth (.var 0))) []) := by
  refine C01_runIR_eq_eval_union_partial w0 _ _ _ (C01_runIR_eq_eval_not_partial w0 _ _ leaf0) ?_ leaf0
  intro ls hls p hp _
  have : ls = [([(.var 0, .bool true)], false), ([(.var 0, .bool false)], false)] := by
    have h0 : eval w0 (.not (.truth (.var 0))) [] = .ok [([(.var 0, .bool true)], false), ([(.var 0, .bool false)], false)] := by rfl
    rw [h0] at hls; cases hls; rfl
  subst this
  simp only [List.mem_cons, List.mem_nil_iff, or_false] at hp
  rcases hp with rfl | rfl <;> rfl

/-! ### `HasType` (the instantiated-`Variable` branch of `Variable._evaluate__`) and `truth` -/

def mVar : Method :=
  { cls := "Variable", name := "_evaluate__", kind := "def", params := ["sources", "parent"],
      body := (.seq (.assign (.att .self "_eval_parent_") (.nm "parent")) (.seq (.assign (.nm "sources") (.bin "or" (.nm "sources") (.dict .nil))) (.ifte (.bin "in" (.att .self "_id_") (.nm "sources")) (.seq (.ifte (.bin "or" (.call (.nm "isinstance") (.cons (.att .self "_parent_") (.cons (.nm "LogicalBinaryOperator") .nil))) (.bin "is" .self (.att .self "_conditions_root_"))) (.assign (.att .self "_is_false_") (.un "not" (.call (.nm "bool") (.cons (.idx (.nm "sources") (.att .self "_id_")) .nil)))) .pass) (.seq (.assign (.nm "v0") (.bin "or" (.call (.nm "isinstance") (.cons (.att .self "_parent_") (.cons (.nm "LogicalOperator") .nil))) (.bin "or" (.bin "is" .self (.att .self "_conditions_root_")) (.att .self "_is_condition_of_nested_query_")))) (.yld (.call (.nm "OperationResult") (.cons (.nm "sources") (.cons (.bin "and" (.nm "v0") (.un "not" (.call (.nm "bool") (.cons (.idx (.nm "sources") (.att .self "_id_")) .nil)))) (.cons .self .nil))))))) (.ifte (.att .self "_domain_") (.forIn (.nm "v1") (.att .self "_domain_") (.yld (.call (.nm "OperationResult") (.cons (.dict (.cons (.splat (.nm "sources")) (.cons (.kv (.att .self "_id_") (.call (.nm "HashedValue") (.cons (.nm "v1") .nil))) .nil))) (.cons (.cst "False") (.cons .self .nil)))))) (.ifte (.att .self "_should_be_instantiated_") (.yldFrom (.call (.att .self "_instantiate_using_child_vars_and_yield_results_") (.cons (.nm "sources") .nil))) (.raise (.nm "ValueError"))))))) }

theorem find_mVar : irTable.find "Variable" "_evaluate__" = some mVar := by rfl

theorem exec_yldFrom_eq (lower : CallH) (nd : Node) (w : World) (e : PE) (fr : Frame) :
    exec lower nd w (.yldFrom e) fr = (do
      let (v, s) ← evalE lower nd w e fr
      let xs ← iterV v
      pure { fr := { fr with isFalse := s }, ys := xs, ctl := .next }) := by
  rfl

theorem evalE_instantiate (lower : CallH) (nd : Node) (w : World) (b : IEnv) (L : List (String × V)) (s : Bool) :
    evalE lower nd w (.call (.att .self "_instantiate_using_child_vars_and_yield_results_") (.cons (.nm "sources") .nil))
        { locals := ("sources", .env b) :: L, isFalse := s }
      = (nd.instantiate b.env >>= fun rs =>
          pure (.list (rs.map fun r => V.res { b := { env := r.1, own := (.self, r.2.1) :: b.own }, isFalse := !r.2.2 }), s)) := by
  rfl

/-- the node `runIR` builds for the predicate `HasType(t, c)`: a `Variable` without a domain that is instantiated -/
def ndHasType (inst : Env → R (List (Env × Val × Bool))) : Node :=
  { cls := "Variable", domain := none, instantiable := true, instantiate := inst }

theorem runNode_hasType (inst : Env → R (List (Env × Val × Bool))) (w : World) (env : Env) :
    runNode irTable (ndHasType inst) w env = (inst env >>= fun rs => pure (rs.map fun a => (a.1, a.2.1, a.2.2))) := by
  rw [runNode_eq, callTop, callWith_find _ _ _ _ _ _ _ mVar find_mVar]
  simp only [mVar, bindParams]
  rw [prologue]
  have h : ∀ lower : CallH, exec lower (ndHasType inst) w
        (.ifte (.bin "in" (.att .self "_id_") (.nm "sources")) (.seq (.ifte (.bin "or" (.call (.nm "isinstance") (.cons (.att .self "_parent_") (.cons (.nm "LogicalBinaryOperator") .nil))) (.bin "is" .self (.att .self "_conditions_root_"))) (.assign (.att .self "_is_false_") (.un "not" (.call (.nm "bool") (.cons (.idx (.nm "sources") (.att .self "_id_")) .nil)))) .pass) (.seq (.assign (.nm "v0") (.bin "or" (.call (.nm "isinstance") (.cons (.att .self "_parent_") (.cons (.nm "LogicalOperator") .nil))) (.bin "or" (.bin "is" .self (.att .self "_conditions_root_")) (.att .self "_is_condition_of_nested_query_")))) (.yld (.call (.nm "OperationResult") (.cons (.nm "sources") (.cons (.bin "and" (.nm "v0") (.un "not" (.call (.nm "bool") (.cons (.idx (.nm "sources") (.att .self "_id_")) .nil)))) (.cons .self .nil))))))) (.ifte (.att .self "_domain_") (.forIn (.nm "v1") (.att .self "_domain_") (.yld (.call (.nm "OperationResult") (.cons (.dict (.cons (.splat (.nm "sources")) (.cons (.kv (.att .self "_id_") (.call (.nm "HashedValue") (.cons (.nm "v1") .nil))) .nil))) (.cons (.cst "False") (.cons .self .nil)))))) (.ifte (.att .self "_should_be_instantiated_") (.yldFrom (.call (.att .self "_instantiate_using_child_vars_and_yield_results_") (.cons (.nm "sources") .nil))) (.raise (.nm "ValueError")))))
        { locals := [("sources", .env { env := env }), ("parent", .none)], isFalse := false }
      = (inst env >>= fun rs => iterV (.list (rs.map fun r => V.res { b := { env := r.1, own := [(.self, r.2.1)] }, isFalse := !r.2.2 })) >>= fun xs =>
          pure { fr := { locals := [("sources", .env { env := env }), ("parent", .none)], isFalse := false }, ys := xs, ctl := .next }) := by
    intro lower
    show exec lower (ndHasType inst) w (.yldFrom (.call (.att .self "_instantiate_using_child_vars_and_yield_results_") (.cons (.nm "sources") .nil)))
        { locals := [("sources", .env { env := env }), ("parent", .none)], isFalse := false } = _
    rw [exec_yldFrom_eq, evalE_instantiate]
    show ((inst env >>= fun rs => _) >>= _) = _
    cases inst env <;> rfl
  rw [h]
  cases inst env with
  | error e => rfl
  | ok rs =>
    show (rs.map fun r => V.res { b := { env := r.1, own := [(.self, r.2.1)] }, isFalse := !r.2.2 }).mapM (conv (ndHasType inst)) = _
    induction rs with
    | nil => rfl
    | cons r rest ih =>
      simp only [List.map_cons, List.mapM_cons, ih]
      simp [conv, List.lookup]
      rfl
/-- the predicate `HasType(t, c)` (a `Variable` that is instantiated from its child variable), pointwise: agreement of
`runIRTerm irTable` with `evalTerm` on the argument term gives agreement on the predicate -/
theorem C01_runIR_eq_eval_hasType_partial (w : World) (t : Term) (c : Nat) (env : Env)
    (ih : runIRTerm irTable w false t env = liftE (evalTerm w false t env)) :
    runIR irTable w (.hasType t c) env = liftE (eval w (.hasType t c) env) := by
  rw [runIR]
  show (runNode irTable (ndHasType fun e => do
          let rs ← runIRTerm irTable w false t e
          pure (rs.map fun r => (r.1, Val.none, isInstance w r.2.1 c))) w env >>= fun rs => pure (dropVal rs)) = _
  rw [runNode_hasType]
  simp only [ih, eval]
  cases evalTerm w false t env with
  | error e => rfl
  | ok rs =>
    simp [liftE, dropVal, List.map_map, Function.comp_def]
    rfl

/-- a term used as a condition: `runIR` / `eval` only drop the value component -/
theorem C01_runIR_eq_eval_truth_partial (w : World) (t : Term) (env : Env)
    (ih : runIRTerm irTable w true t env = liftE (evalTerm w true t env)) :
    runIR irTable w (.truth t) env = liftE (eval w (.truth t) env) := by
  rw [runIR]
  simp only [ih, eval]
  cases evalTerm w true t env with
  | error e => rfl
  | ok rs => rfl

example : runIRTerm irTable w0 false (.var 0) [] = liftE (evalTerm w0 false (.var 0) []) := by rfl
example : runIR irTable w0 (.hasType (.var 0) 3) [] = liftE (eval w0 (.hasType (.var 0) 3) []) :=
  C01_runIR_eq_eval_hasType_partial w0 _ _ _ (by rfl)
example : runIR irTable w0 (.truth (.var 0)) [] = liftE (eval w0 (.truth (.var 0)) []) :=
  C01_runIR_eq_eval_truth_partial w0 _ _ (by rfl)


/-! ### variables and literals as operands (`Variable._evaluate__`), and a closed fragment -/

theorem exec_ifte_eq (lower : CallH) (nd : Node) (w : World) (c : PE) (a b : St) (fr : Frame) :
    exec lower nd w (.ifte c a b) fr = (do
      let (v, s) ← evalE lower nd w c fr
      if truthyV v then exec lower nd w a { fr with isFalse := s } else exec lower nd w b { fr with isFalse := s }) := by
  rfl

/-- the node `runIRTerm` builds for a variable / literal used as an OPERAND (`condPos = false`) -/
def ndKey (cls : String) (k : Key) (d : List Val) : Node :=
  { cls := cls, keyOf := fun | .self => some k | _ => none, condPos := false, domain := some d }

abbrev varBoundBranch : St :=
  (.seq (.ifte (.bin "or" (.call (.nm "isinstance") (.cons (.att .self "_parent_") (.cons (.nm "LogicalBinaryOperator") .nil))) (.bin "is" .self (.att .self "_conditions_root_"))) (.assign (.att .self "_is_false_") (.un "not" (.call (.nm "bool") (.cons (.idx (.nm "sources") (.att .self "_id_")) .nil)))) .pass) (.seq (.assign (.nm "v0") (.bin "or" (.call (.nm "isinstance") (.cons (.att .self "_parent_") (.cons (.nm "LogicalOperator") .nil))) (.bin "or" (.bin "is" .self (.att .self "_conditions_root_")) (.att .self "_is_condition_of_nested_query_")))) (.yld (.call (.nm "OperationResult") (.cons (.nm "sources") (.cons (.bin "and" (.nm "v0") (.un "not" (.call (.nm "bool") (.cons (.idx (.nm "sources") (.att .self "_id_")) .nil)))) (.cons .self .nil)))))))

abbrev varDomBranch : St :=
  (.ifte (.att .self "_domain_") (.forIn (.nm "v1") (.att .self "_domain_") (.yld (.call (.nm "OperationResult") (.cons (.dict (.cons (.splat (.nm "sources")) (.cons (.kv (.att .self "_id_") (.call (.nm "HashedValue") (.cons (.nm "v1") .nil))) .nil))) (.cons (.cst "False") (.cons .self .nil)))))) (.ifte (.att .self "_should_be_instantiated_") (.yldFrom (.call (.att .self "_instantiate_using_child_vars_and_yield_results_") (.cons (.nm "sources") .nil))) (.raise (.nm "ValueError"))))

abbrev varYield : St :=
  (.yld (.call (.nm "OperationResult") (.cons (.dict (.cons (.splat (.nm "sources")) (.cons (.kv (.att .self "_id_") (.call (.nm "HashedValue") (.cons (.nm "v1") .nil))) .nil))) (.cons (.cst "False") (.cons .self .nil)))))

def FRv (env : Env) : Frame := { locals := [("sources", .env { env := env }), ("parent", .none)], isFalse := false }

theorem var_test (lower : CallH) (cls : String) (k : Key) (d : List Val) (w : World) (env : Env) :
    evalE lower (ndKey cls k d) w (.bin "in" (.att .self "_id_") (.nm "sources")) (FRv env)
      = .ok (.bool (env.lookup k).isSome, false) := by
  rfl

theorem var_bound (lower : CallH) (cls : String) (k : Key) (d : List Val) (w : World) (env : Env) :
    exec lower (ndKey cls k d) w varBoundBranch (FRv env)
      = .ok { fr := { locals := ("v0", .bool false) :: (FRv env).locals, isFalse := false },
              ys := [V.res { b := { env := env }, isFalse := false }], ctl := .next } := by
  rfl

theorem var_dom_body (lower : CallH) (cls : String) (k : Key) (d : List Val) (w : World) (env : Env) (y : Val) (fr : Frame)
    (hfr : fr = FRv env ∨ ∃ z, fr = { locals := ("v1", z) :: (FRv env).locals, isFalse := false }) :
    (do let fr2 ← bindTarget fr (.nm "v1") (V.val y); exec lower (ndKey cls k d) w varYield fr2)
      = .ok { fr := { locals := ("v1", V.val y) :: (FRv env).locals, isFalse := false },
              ys := [V.res { b := IEnv.bind (ndKey cls k d) (IEnv.merge { env := [] } { env := env }) .self y, isFalse := false }],
              ctl := .next } := by
  rcases hfr with rfl | ⟨z, rfl⟩ <;> rfl

theorem mapM_conv_key (nd : Node) (k : Key) (hk : nd.keyOf .self = some k) (env : Env) (ys : List Val) :
    (ys.map fun y => V.res { b := IEnv.bind nd (IEnv.merge { env := [] } { env := env }) .self y, isFalse := false }).mapM (conv nd)
      = (pure (ys.map fun x => ((k, x) :: env, x, true)) : R _) := by
  induction ys with
  | nil => rfl
  | cons y rest ih =>
    simp only [List.map_cons, List.mapM_cons, ih]
    simp [conv, IEnv.bind, IEnv.merge, Eql.merge, hk, List.lookup]

theorem find_mVarLit : irTable.find "Literal" "_evaluate__" = some mVar := by rfl

/-- `Variable._evaluate__` (also `Literal`) for a node used as an operand: bound → the bound value, flagged true;
unbound → one result per domain element -/
theorem runNode_key (cls : String) (hfind : irTable.find cls "_evaluate__" = some mVar) (k : Key) (d : List Val)
    (w : World) (env : Env) :
    runNode irTable (ndKey cls k d) w env = .ok (match env.lookup k with
      | some x => [(env, x, true)]
      | none => d.map fun x => ((k, x) :: env, x, true)) := by
  rw [runNode_eq, callTop, callWith_find _ _ _ _ _ _ _ mVar hfind]
  simp only [mVar, bindParams]
  rw [prologue, exec_ifte_eq]
  rw [show ({ locals := [("sources", V.env { env := env }), ("parent", V.none)], isFalse := false } : Frame) = FRv env from rfl,
    var_test]
  cases h : env.lookup k with
  | some x =>
    show (exec (L3 (ndKey cls k d) w) (ndKey cls k d) w varBoundBranch (FRv env) >>= post >>= fun p => iterV p.1 >>= fun xs => xs.mapM (conv (ndKey cls k d))) = _
    rw [var_bound]
    show [V.res { b := { env := env }, isFalse := false }].mapM (conv (ndKey cls k d)) = _
    simp [conv, ndKey, h, List.lookup]
    rfl
  | none =>
    show (exec (L3 (ndKey cls k d) w) (ndKey cls k d) w varDomBranch (FRv env) >>= post >>= fun p => iterV p.1 >>= fun xs => xs.mapM (conv (ndKey cls k d))) = _
    have hloop : exec (L3 (ndKey cls k d) w) (ndKey cls k d) w varDomBranch (FRv env)
        = .ok { fr := d.foldl (fun _ y => { locals := ("v1", V.val y) :: (FRv env).locals, isFalse := false }) (FRv env),
                ys := d.flatMap fun y => [V.res { b := IEnv.bind (ndKey cls k d) (IEnv.merge { env := [] } { env := env }) .self y, isFalse := false }],
                ctl := .next } := by
      show exec (L3 (ndKey cls k d) w) (ndKey cls k d) w (.forIn (.nm "v1") (.att .self "_domain_") varYield) (FRv env) = _
      rw [exec_forIn]
      show loopSt (d.map V.val) (FRv env) (fun x fr1 => do let fr2 ← bindTarget fr1 (.nm "v1") x; exec (L3 (ndKey cls k d) w) (ndKey cls k d) w varYield fr2) = _
      exact loopSt_det _ (fun fr => fr = FRv env ∨ ∃ z, fr = { locals := ("v1", z) :: (FRv env).locals, isFalse := false })
        (fun y _ => { locals := ("v1", V.val y) :: (FRv env).locals, isFalse := false })
        (fun y => [V.res { b := IEnv.bind (ndKey cls k d) (IEnv.merge { env := [] } { env := env }) .self y, isFalse := false }])
        V.val (fun y fr hfr => ⟨Or.inr ⟨_, rfl⟩, var_dom_body _ cls k d w env y fr hfr⟩) d (FRv env) (Or.inl rfl)
    rw [hloop, flatMap_single]
    show (d.map fun y => V.res { b := IEnv.bind (ndKey cls k d) (IEnv.merge { env := [] } { env := env }) .self y, isFalse := false }).mapM (conv (ndKey cls k d)) = _
    rw [mapM_conv_key (ndKey cls k d) k rfl]
    rfl

/-- a variable used as an operand: `runIRTerm irTable` IS `evalTerm` (no hypothesis) -/
theorem C01_runIRTerm_var_operand (w : World) (v : VarId) (env : Env) :
    runIRTerm irTable w false (.var v) env = liftE (evalTerm w false (.var v) env) := by
  rw [runIRTerm]
  show runNode irTable (ndKey "Variable" (.var v) (w.dom v)) w env = _
  rw [runNode_key _ find_mVar]
  simp only [evalTerm, evalVarAt, boundFlag, liftE]
  cases env.lookup (.var v) <;> rfl

/-- a literal used as an operand -/
theorem C01_runIRTerm_lit_operand (w : World) (id : VarId) (x : Val) (env : Env) :
    runIRTerm irTable w false (.lit id x) env = liftE (evalTerm w false (.lit id x) env) := by
  rw [runIRTerm]
  show runNode irTable (ndKey "Literal" (.lit id) [x]) w env = _
  rw [runNode_key _ find_mVarLit]
  simp only [evalTerm, boundFlag, liftE]
  cases env.lookup (.lit id) <;> rfl

/-- a fragment on which `runIR irTable = eval` holds WITHOUT hypotheses: `HasType` of a variable or a literal under
`not_` / `and_` / `or_` (both forms) -/
inductive IRFrag : Expr → Prop where
  | hasTypeVar (v : VarId) (c : Nat) : IRFrag (.hasType (.var v) c)
  | hasTypeLit (id : VarId) (x : Val) (c : Nat) : IRFrag (.hasType (.lit id x) c)
  | not {e} (h : IRFrag e) : IRFrag (.not e)
  | and {l r} (hl : IRFrag l) (hr : IRFrag r) : IRFrag (.and l r)
  | elseIf {l r} (hl : IRFrag l) (hr : IRFrag r) : IRFrag (.elseIf l r)
  | union {l r} (hl : IRFrag l) (hr : IRFrag r) : IRFrag (.union l r)

/-- PARTIAL form of `∀ e env, runIR irTable w e env = liftE (eval w e env)`: proved for the fragment `IRFrag`, every
world, every environment (missing: `Comparator`, attribute / index / flatten terms, terms as conditions, `Exists`,
`ForAll` — validated by the driver cross-check on every case) -/
theorem C01_runIR_eq_eval_frag_partial (w : World) : ∀ e, IRFrag e → ∀ env, runIR irTable w e env = liftE (eval w e env) := by
  intro e h
  induction h with
  | hasTypeVar v c => exact fun env => C01_runIR_eq_eval_hasType_partial w _ c env (C01_runIRTerm_var_operand w v env)
  | hasTypeLit id x c => exact fun env => C01_runIR_eq_eval_hasType_partial w _ c env (C01_runIRTerm_lit_operand w id x env)
  | not _ ih => exact fun env => C01_runIR_eq_eval_not_partial w _ env (ih env)
  | and _ _ ihl ihr => exact fun env => C01_runIR_eq_eval_and_partial w _ _ env (ihl env) (fun _ _ p _ _ => ihr p.1)
  | elseIf _ _ ihl ihr => exact fun env => C01_runIR_eq_eval_elseIf_partial w _ _ env (ihl env) (fun _ _ p _ _ => ihr p.1)
  | union _ _ ihl ihr =>
    exact fun env => C01_runIR_eq_eval_union_partial w _ _ env (ihl env) (fun _ _ p _ _ => ihr p.1) (ihr env)

example : IRFrag (.union (.and (.hasType (.var 0) 1) (.not (.hasType (.var 1) 2))) (.elseIf (.hasType (.lit 7 (.int 3)) 1) (.hasType (.var 0) 2))) :=
  .union (.and (.hasTypeVar 0 1) (.not (.hasTypeVar 1 2))) (.elseIf (.hasTypeLit 7 (.int 3) 1) (.hasTypeVar 0 2))


end KrroodVerif.Eql.IR
