import KrroodVerif.Model.MatchTable
import KrroodVerif.Props.C11
/-!
C11 — second tie by translation: the desugaring as a table interpreter.

* `tableOk_table`: the hand-written table (`Match.table`, the decisions of the code as it is now) is `TableOk` (`decide`);
* `desugar_eq_interp`: for EVERY table that is `TableOk`, every schema, subclass relation and pattern (any nesting depth,
  ill-formed ones included) the interpreter builds the very query the hand-written transcription `desugar Quirks.now`
  builds — mutual structural induction over patterns;
* `C11_equiv_of_tableOk`: hence `C11_equiv_partial_now` holds of `runWith t` for every `TableOk` table;
* the generated file (harness/translate/c11_translate.py) states `Translated.table = Match.table` and
  `TableOk Translated.table` for the table read off the current source, both by `decide`.
-/
namespace KrroodVerif.Match
open KrroodVerif.Eql

theorem tableOk_table : TableOk table := by decide

theorem iter_now (fi : FieldInfo) : fi.iter Quirks.now = fi.coll := rfl

/-- the comparator chain of the model is the `infer` / `exWrap` rows -/
theorem inferWith_eq (t : Table) (hT : TableOk t) (fi : FieldInfo) (a : MTerm) (l : Val) (iv m un ex : Bool)
    (hu : (m || !un) = true) (he : (m || !ex) = true) :
    inferWith t fi a l iv m un ex = inferCond Quirks.now fi a l iv un ex := by
  obtain ⟨_, _, _, hinf, hex, _⟩ := hT
  obtain ⟨rel, coll, ty⟩ := fi
  simp only [inferWith, hinf coll iv m un hu, hex m ex he, inferCond, iter_now]
  cases coll <;> cases iv <;> cases m <;> cases un <;> cases ex <;> first | rfl | exact absurd hu (by decide) | exact absurd he (by decide)

theorem typeFilter_eq (t : Table) (hT : TableOk t) (sub : List (Nat × Nat)) (declared cls : Option Nat) :
    rowB t.typeFilter (typeAtoms sub declared cls) = typeFilterNeeded sub declared cls := by
  obtain ⟨_, _, _, _, _, _, htf, _⟩ := hT
  cases declared with
  | none => cases cls <;> simp [typeAtoms, htf, typeFilterNeeded]
  | some d =>
    cases cls with
    | none => simp [typeAtoms, htf, typeFilterNeeded]
    | some c =>
      simp only [typeAtoms, htf, typeFilterNeeded]
      by_cases hcd : c = d
      · subst hcd; simp
      · have h1 : (c == d) = false := by simpa using hcd
        have h2 : (c != d) = true := by simpa using hcd
        simp only [h1, h2, Bool.false_or, Bool.not_false, Bool.true_and]

theorem owner_eq (sub : List (Nat × Nat)) (declared cls : Option Nat) :
    (if subMatched sub declared cls then (cls.orElse fun _ => declared) else declared) =
      (if typeFilterNeeded sub declared cls then cls else declared) := by
  cases declared with
  | none => cases cls <;> simp [subMatched, typeAtoms, typeFilterNeeded]
  | some d =>
    cases cls with
    | none => simp [subMatched, typeAtoms, typeFilterNeeded]
    | some c =>
      simp only [subMatched, typeAtoms, typeFilterNeeded, List.getD_cons_succ, List.getD_cons_zero, Option.orElse]
      by_cases hcd : c = d
      · subst hcd; simp
      · have h1 : (c == d) = false := by simpa using hcd
        have h2 : (c != d) = true := by simpa using hcd
        simp only [h1, h2, Bool.false_or, Bool.true_and]

theorem need_cls {sub : List (Nat × Nat)} {declared cls : Option Nat} (h : typeFilterNeeded sub declared cls = true) :
    ∃ c, cls = some c := by
  cases declared <;> cases cls <;> simp_all [typeFilterNeeded]

theorem selsWith_root (t : Table) (h : t.selUp = .root) (depth : Nat) (a t' : MTerm) :
    selsWith t depth a t' = if t' == a then [a] else [a, t'] := by
  simp only [selsWith, h, dedupTerms, List.filter]
  by_cases hta : t' = a
  · subst hta; simp
  · have h1 : (t' == a) = false := by simpa using hta
    have h2 : (t' != a) = true := by simpa using hta
    simp [h1, h2]

mutual
theorem resolveAssignsWith_eq (t : Table) (hT : TableOk t) (s : Schema) (sub : List (Nat × Nat)) :
    (as : Assigns) → ∀ (depth : Nat) (owner : Option Nat) (v : MTerm),
      resolveAssignsWith t s sub depth owner v as = resolveAssigns Quirks.now s sub owner v as
  | .nil, _, _, _ => by simp [resolveAssignsWith, resolveAssigns]
  | .cons n av rest, depth, owner, v => by
    rw [resolveAssignsWith, resolveAssigns]
    cases fieldOf s owner n with
    | none => rfl
    | some fi =>
      simp only
      rw [resolveValWith_eq t hT s sub av depth fi (.attr v n), resolveAssignsWith_eq t hT s sub rest depth owner v]
      generalize resolveVal Quirks.now s sub fi (.attr v n) av = x
      generalize resolveAssigns Quirks.now s sub owner v rest = y
      rcases x with _ | ⟨c1, s1⟩ <;> rcases y with _ | ⟨c2, s2⟩ <;> rfl
theorem resolveValWith_eq (t : Table) (hT : TableOk t) (s : Schema) (sub : List (Nat × Nat)) :
    (av : AVal) → ∀ (depth : Nat) (fi : FieldInfo) (a : MTerm),
      resolveValWith t s sub depth fi a av = resolveVal Quirks.now s sub fi a av
  | .lit l, depth, fi, a => by
    have hT' := hT
    obtain ⟨_, ⟨hu1, _, _⟩, ⟨hiv, _⟩, _⟩ := hT
    simp only [resolveValWith, hu1, Bool.false_eq_true, if_false, hiv, resolveVal,
      inferWith_eq t hT' fi a l (isColl l) false false false rfl rfl]
  | .coll l ex un sel, depth, fi, a => by
    have hT' := hT
    obtain ⟨⟨_, _, hd2, hd3⟩, ⟨_, hu2, _⟩, ⟨_, hiv⟩, _, _, _, _, _, _, _, hsel⟩ := hT
    have hd : t.dispatchAt (if truthy l = true then 2 else 3) = .overLiteral := by
      cases truthy l <;> simp [hd2, hd3]
    have hq : (Quirks.now.falsyValueIsNoType && !truthy l) = false := rfl
    simp only [resolveValWith, hd, hu2, Bool.false_eq_true, if_false, hiv, resolveVal, hq,
      inferWith_eq t hT' fi a l true true un ex rfl rfl, selAttrWith, hsel]
  | .nested (.mk cls sel as), depth, fi, a => by
    have hT' := hT
    obtain ⟨⟨hd0, hd1, _, _⟩, ⟨_, _, hu3⟩, _, _, _, hfl, _, hunc, hemit, hown, hsel⟩ := hT
    have hd : t.dispatchAt (if cls.isSome = true then 1 else 0) = .unresolved := by
      cases cls <;> simp [hd0, hd1]
    have hneed := typeFilter_eq t hT' sub fi.type cls
    have ih := resolveAssignsWith_eq t hT' s sub as (depth + 1)
    have hq1 : Quirks.now.declaredOwner = false := rfl
    have hq2 : Quirks.now.lazyFlatten = false := rfl
    have hnode : nestedNode Quirks.now sub fi a cls as = if fi.coll then MTerm.flat a else a := by
      simp [nestedNode, iter_now, hq2]
    unfold resolveValWith resolveVal
    simp only [hd, hu3, Bool.not_true, Bool.false_eq_true, if_false, hneed, hfl, hown, owner_eq, ih, hnode, hq1, hq2,
      Bool.not_false, Bool.true_and, iter_now, selsWith_root t hsel]
    generalize hown' : (if typeFilterNeeded sub fi.type cls = true then cls else fi.type) = ow
    generalize ht' : (if fi.coll = true then MTerm.flat a else a) = t'
    cases hp : resolveAssigns Quirks.now s sub ow t' as with
    | none => rfl
    | some p =>
      obtain ⟨cs, ss⟩ := p
      have hk : (!as.isNil || cs.isEmpty) = true := by
        cases as with
        | nil => simp [resolveAssigns] at hp; simp [hp.1]
        | cons _ _ _ => rfl
      simp only [hunc _ _ _ _ hk, hemit]
      cases hn : typeFilterNeeded sub fi.type cls with
      | true =>
        obtain ⟨c, rfl⟩ := need_cls hn
        simp
      | false =>
        cases hc : fi.coll <;> cases he : cs.isEmpty <;> cases hty : (cls.orElse fun _ => fi.type) <;> simp
end

/-- **desugar_eq_interp.** For every table whose reachable rows hold the decisions of the model (`TableOk`), the table
interpreter builds, for every schema, subclass relation and pattern of any nesting depth, the very query the
hand-written transcription of `match.py` (`desugar Quirks.now`, the function all C11 theorems are about) builds. -/
theorem desugar_eq_interp (t : Table) (hT : TableOk t) (s : Schema) (sub : List (Nat × Nat)) (p : Pat) :
    desugarWith t s sub p = desugar Quirks.now s sub p := by
  obtain ⟨cls, sel, as⟩ := p
  cases cls with
  | none => rfl
  | some T =>
    simp only [desugarWith, desugar, resolveAssignsWith_eq t hT]
    generalize resolveAssigns Quirks.now s sub (some T) .root as = x
    rcases x with _ | ⟨cs, ss⟩ <;> rfl

/-- in particular the hand-written table IS the hand-written transcription -/
theorem desugar_eq_interp_table (s : Schema) (sub : List (Nat × Nat)) (p : Pat) :
    desugarWith table s sub p = desugar Quirks.now s sub p :=
  desugar_eq_interp table tableOk_table s sub p

theorem runWith_eq_run (t : Table) (hT : TableOk t) (w : World) (Q : Quirks) (s : Schema) (dom : List Val) (p : Pat) :
    runWith t w Q s dom p = (desugar Quirks.now s w.subclass p).map (evalQuery w Q dom) := by
  simp only [runWith, desugar_eq_interp t hT]

/-- **C11_equiv_of_tableOk.** The property on the fragment of `C11_equiv_partial`, for the desugaring run on ANY
table that is `TableOk` (in particular the table regenerated from the current source, for which the generated file
checks `TableOk` by `decide`): every row is `[x]` for a domain element `x` that satisfies the pattern, and every such
element is returned. -/
theorem C11_equiv_of_tableOk (t : Table) (hT : TableOk t) (w : World) (s : Schema) (dom : List Val) (T : Nat)
    (rootSel : Bool) (as : Assigns)
    (hinh : schemaInheritsB s w.subclass = true)
    (hconf : conformsB w s = true)
    (hwf : (Pat.mk (some T) rootSel as).wf s w.subclass = true)
    (hclean : triggers w s (.mk (some T) rootSel as) = [])
    (hnosel : as.nSel = 0) :
    ∃ rows, runWith t w Quirks.now s dom (.mk (some T) rootSel as) = some rows ∧
      ∀ r, r ∈ rows ↔ ∃ x ∈ dom, r = [x] ∧ matchesPat w (.mk (some T) rootSel as) x = true := by
  rw [runWith_eq_run t hT]
  exact C11_equiv_partial_now w s dom T rootSel as hinh hconf hwf hclean hnosel

/-- **C11_full_of_tableOk.** The same with `Exists` keyed on the matched element: existential matches included. -/
theorem C11_full_of_tableOk (t : Table) (hT : TableOk t) (w : World) (s : Schema) (dom : List Val) (T : Nat)
    (rootSel : Bool) (as : Assigns)
    (hinh : schemaInheritsB s w.subclass = true)
    (hconf : conformsB w s = true)
    (hwf : (Pat.mk (some T) rootSel as).wf s w.subclass = true)
    (hbc : (Pat.mk (some T) rootSel as).trigBuiltinColl s = false)
    (hlf : (Pat.mk (some T) rootSel as).trigLazyFlatten s w.subclass = false)
    (hfv : (Pat.mk (some T) rootSel as).trigFalsyValue = false)
    (hnosel : as.nSel = 0) :
    ∃ rows, runWith t w Quirks.nowKeyed s dom (.mk (some T) rootSel as) = some rows ∧
      ∀ r, r ∈ rows ↔ ∃ x ∈ dom, r = [x] ∧ matchesPat w (.mk (some T) rootSel as) x = true := by
  rw [runWith_eq_run t hT]
  have h := C11_full_now w s dom T rootSel as hinh hconf hwf hbc hlf hfv hnosel
  have hd : desugar Quirks.nowKeyed s w.subclass (.mk (some T) rootSel as) =
      desugar Quirks.now s w.subclass (.mk (some T) rootSel as) := by
    have hwf' := hwf
    simp only [Pat.wf, Option.isSome_some, Bool.true_and] at hwf'
    rw [desugar_now Quirks.nowKeyed ⟨rfl, rfl, rfl, rfl⟩ s w.subclass hinh T rootSel as hwf'
        (by simpa [Pat.trigBuiltinColl] using hbc) (by simpa [Pat.trigLazyFlatten] using hlf)
        (by simpa [Pat.trigFalsyValue] using hfv),
      desugar_now Quirks.now ⟨rfl, rfl, rfl, rfl⟩ s w.subclass hinh T rootSel as hwf'
        (by simpa [Pat.trigBuiltinColl] using hbc) (by simpa [Pat.trigLazyFlatten] using hlf)
        (by simpa [Pat.trigFalsyValue] using hfv)]
  simpa only [run, hd] using h

/-! non-vacuity: the witness inside the proved fragment satisfies every hypothesis, for the hand-written table -/
open Witness in
example : ∃ rows, runWith table world Quirks.now schema dom inScope = some rows ∧
    ∀ r, r ∈ rows ↔ ∃ x ∈ dom, r = [x] ∧ matchesPat world inScope x = true :=
  C11_equiv_of_tableOk table tableOk_table world schema dom 4 false _ (by decide) (by decide) (by decide) (by decide)
    (by decide)

/-! ### tables that are NOT `TableOk`, and what the interpreter then builds (tests by `decide`)

Each is one decision of the source changed; the interpreter run on the changed table gives a concrete input on which
the answers differ from the specification (the kind of input the correspondence then looks for in the real code). -/

/-- `issubclass(attr_type, matched_type)` instead of `issubclass(matched_type, attr_type)` -/
def tableSwappedSubclass : Table :=
  { table with typeFilter := table.typeFilter.take 24 ++ [false, true, false, true, false, false, false, false] }
/-- the element of a collection counts as unconstrained only if the nested match has no kwargs -/
def tableUnconstrainedByKwargs : Table :=
  { table with unconstrained := [false, false, false, false, false, false, false, false,
                                 false, false, false, false, false, false, false, true] }
/-- a nested match on a collection is flattened only if it has kwargs or needs a type filter (the code before f0a8439) -/
def tableLazyFlatten : Table :=
  { table with flatten := [false, false, false, false, true, true, false, true] }
/-- `contains` / `in_` swapped -/
def tableSwappedMembership : Table :=
  { table with infer := [.eq, .eq, .eq, .eq, .litIn, .litIn, .litIn, .litIn, .inLit, .inLit, .inLit, .inLit,
                         .inLitFlat, .inLitFlat, .inLitFlat, .eq] }
/-- `match_all` treated like `match_any` -/
def tableAllAsAny : Table :=
  { table with infer := table.infer.take 15 ++ [.inLitFlat] }
/-- a falsy value taken for "no type" (the code before 5fb83cd) -/
def tableFalsyIsNoType : Table :=
  { table with dispatch := [.unresolved, .unresolved, .overLiteral, .unresolved] }

example : ¬ TableOk tableSwappedSubclass ∧ ¬ TableOk tableUnconstrainedByKwargs ∧ ¬ TableOk tableLazyFlatten ∧
    ¬ TableOk tableSwappedMembership ∧ ¬ TableOk tableAllAsAny ∧ ¬ TableOk tableFalsyIsNoType := by decide

namespace Witness
/-- `entity_matching(Cabinet, dom)(main=match(BigDrawer)())` -/
def mainIsBig : Pat := .mk (some 4) false (.cons "main" (.nested (.mk (some 3) false .nil)) .nil)
/-- `entity_matching(Cabinet, dom)(drawers=match(Drawer)(handle=match(Handle)()))` -/
def drawerWithHandle : Pat :=
  .mk (some 4) false (.cons "drawers" (.nested (.mk (some 2) false
    (.cons "handle" (.nested (.mk (some 0) false .nil)) .nil))) .nil)
/-- `entity_matching(Cabinet, dom)(tags=1)` -/
def tagOne : Pat := .mk (some 4) false (.cons "tags" (.lit (.int 1)) .nil)
/-- `entity_matching(Cabinet, dom)(drawers=match_all([o1]))` with `o4.drawers` made `[o1, o2]` -/
def allDrawers : Pat := .mk (some 4) false (.cons "drawers" (.coll (.objs [1]) false true false) .nil)
end Witness

open Witness in
/-- **C11T_cex_tables.** On the witness world the changed tables give answers that differ from the specification,
while the hand-written table meets it on the same inputs. -/
theorem C11T_cex_tables :
    runWith table world Quirks.now schema dom mainIsBig = some (specRows world dom mainIsBig) ∧
    runWith tableSwappedSubclass world Quirks.now schema dom mainIsBig ≠ some (specRows world dom mainIsBig) ∧
    runWith table world Quirks.now schema dom drawerWithHandle = some (specRows world dom drawerWithHandle) ∧
    runWith tableUnconstrainedByKwargs world Quirks.now schema dom drawerWithHandle ≠
      some (specRows world dom drawerWithHandle) ∧
    runWith table world Quirks.now schema dom lazyFlatten = some (specRows world dom lazyFlatten) ∧
    runWith tableLazyFlatten world Quirks.now schema dom lazyFlatten ≠ some (specRows world dom lazyFlatten) ∧
    runWith table world Quirks.now schema dom tagOne = some (specRows world dom tagOne) ∧
    runWith tableSwappedMembership world Quirks.now schema dom tagOne ≠ some (specRows world dom tagOne) ∧
    runWith table world Quirks.now schema dom falsyValue = some (specRows world dom falsyValue) ∧
    runWith tableFalsyIsNoType world Quirks.now schema dom falsyValue ≠ some (specRows world dom falsyValue) := by
  decide

end KrroodVerif.Match
