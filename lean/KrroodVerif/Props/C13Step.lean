import KrroodVerif.Model.SymbolGraphStep
import KrroodVerif.Props.C13
/-!
# C13 — lazily consumed (stepwise) evaluations of a domain-less variable

`Model/SymbolGraphStep.lean` is the walk the driver runs (`Iter.begin`, `Iter.pull`, `advance`, `SRun.between/start/next`).
Here the interleaving itself is the subject: for EVERY history of model operations interleaved with `next()` calls of any
number of evaluations (`runSOps`), every valid allocator and every quirk setting that cannot raise,

* `C13_stepwise_census` — whatever an evaluation has yielded belongs to the census taken at ITS first `next()`
  (`Iter.expected` = the live instances of `T`↓ the registry knew then, `begin_expected`) or to its ghost `late`: the
  instances that became known to the registry while it was suspended and whose class its walk had not reached yet — exactly
  what F-C13-3 describes, nothing else can be yielded;
* `C13_stepwise_partial` — as the code is (per-class copy): outside the trigger of F-C13-3 (`lateKnown = false`) every
  evaluation ranges within its census;
* `C13_stepwise_snapshot` — with the copy taken at the first `next()` (`snap`, the repair F-C13-3 asks for) no instance is
  ever late and every evaluation ranges within its census, whatever is interleaved;
* `C13_cex_stepwise` — the witness of F-C13-3 (`decide`).
The converse direction (every instance of the census that is still alive when the evaluation stops was yielded) is
`C13_stepwise_complete` in `Props/C13StepComplete.lean`; multiplicity (no duplicates) is left to the correspondence, see the
comment at the end.
-/
namespace KrroodVerif.SG

variable {σ : Type}

/-- what a run keeps true of each evaluation `it`, relative to the registry's class lists `bc` -/
structure IterOK (bc : List W) (it : Iter) : Prop where
  /-- everything yielded or copied so far is of the census or late -/
  seen : ∀ o ∈ it.yielded ++ it.cur, o ∈ it.expected ∨ o ∈ it.late
  /-- every wrapper of a class still ahead of the walk is of the census or late -/
  ahead : it.status = 0 → ∀ w ∈ bc, w.cls ∈ it.walk → w.obj ∈ it.expected ∨ w.obj ∈ it.late
  idle : it.started = false → it.walk = [] ∧ it.cur = [] ∧ it.yielded = []

theorem IterOK.mono {bc bc' : List W} {it : Iter} (h : IterOK bc it) (hs : ∀ w ∈ bc', w ∈ bc) : IterOK bc' it :=
  ⟨h.seen, fun h0 w hw => h.ahead h0 w (hs w hw), h.idle⟩

theorem IterOK.noteLate {before after : List W} {it : Iter} (h : IterOK before it) :
    IterOK after (it.noteLate before after) := by
  refine ⟨?_, ?_, h.idle⟩
  · intro o ho
    rcases h.seen o ho with h1 | h1
    · exact Or.inl h1
    · exact Or.inr (List.mem_append_left _ h1)
  · intro h0 w hw hc
    by_cases hb : w ∈ before
    · rcases h.ahead h0 w hb hc with h1 | h1
      · exact Or.inl h1
      · exact Or.inr (List.mem_append_left _ h1)
    · refine Or.inr (List.mem_append_right _ ?_)
      have hst : it.started = true := by
        cases hs : it.started with
        | true => rfl
        | false => have := (h.idle hs).1; simp [Iter.noteLate, this] at hc
      simp only [Iter.noteLate] at h0 hc
      simp only [List.mem_map, List.mem_filter, newlyKnown, Iter.awaits]
      exact ⟨w, ⟨⟨hw, by simpa using hb⟩, by simp [hst, h0, hc]⟩, rfl⟩

theorem IterOK.pull (skipDead : Bool) (bc : List W) (isLive : Obj → Bool) : ∀ (fuel : Nat) (it : Iter),
    it.started = true → it.status = 0 → IterOK bc it → IterOK bc (Iter.pull skipDead bc isLive fuel it).1
  | 0, it, _, _, h => h
  | fuel + 1, it, hs, h0, h => by
    unfold Iter.pull
    split
    · rename_i o rest hcur
      split
      · refine ⟨?_, h.ahead, fun hf => by simp [hs] at hf⟩
        intro x hx
        apply h.seen
        simp only [hcur, List.mem_append, List.mem_cons, List.not_mem_nil, or_false] at hx ⊢
        tauto
      · split
        · refine IterOK.pull skipDead bc isLive fuel { it with cur := rest } hs h0 ?_
          refine ⟨?_, h.ahead, fun hf => by simp [hs] at hf⟩
          intro x hx
          apply h.seen
          simp only [hcur, List.mem_append, List.mem_cons] at hx ⊢
          tauto
        · refine ⟨?_, fun hf => by simp at hf, fun hf => by simp [hs] at hf⟩
          intro x hx
          apply h.seen
          simp only [hcur, List.mem_append, List.mem_cons] at hx ⊢
          tauto
    · rename_i hcur
      split
      · rename_i c w hwalk
        refine IterOK.pull skipDead bc isLive fuel
          { it with walk := w, cur := (bc.filter (fun x => x.cls == c)).map (·.obj) } hs h0 ?_
        refine ⟨?_, ?_, fun hf => by simp [hs] at hf⟩
        · intro x hx
          simp only [List.mem_append, List.mem_map, List.mem_filter, beq_iff_eq] at hx
          rcases hx with hx | ⟨v, ⟨hv, hvc⟩, rfl⟩
          · exact h.seen x (List.mem_append_left _ hx)
          · exact h.ahead h0 v hv (by simp [hwalk, hvc])
        · intro _ v hv hvc
          exact h.ahead h0 v hv (by simp only [hwalk, List.mem_cons]; exact Or.inr hvc)
      · exact ⟨h.seen, fun hf => by simp at hf, fun hf => by simp [hs] at hf⟩

theorem step_sweep (q : Quirks) (S : Schema) (a : Alloc σ) (st : St σ) (he : st.err = false) :
    step q S a st .sweep = { st with g := sweep q a st.g st.h.isLive } := by
  simp [step, he]

/-- **begin_expected.** the census an evaluation is measured against is the one at its first `next()`: the live instances
of `T` and subclasses known to the registry then -/
theorem begin_expected (q : Quirks) (snap : Bool) (S : Schema) (a : Alloc σ) (st : St σ) (it : Iter) :
    (it.begin q snap S a st).2.expected = st.h.expected S it.cls := by
  have : (step q S a st .sweep).h = st.h := by
    unfold step; split <;> rfl
  unfold Iter.begin
  split <;> simp [this]

theorem IterOK.begin {q : Quirks} (snap : Bool) (S : Schema) (a : Alloc σ) {st : St σ} (hI : Inv q st)
    (he : st.err = false) (it : Iter) (hid : it.yielded = []) (hic : it.cur = []) :
    IterOK (it.begin q snap S a st).1.g.byClass (it.begin q snap S a st).2 := by
  unfold Iter.begin
  rw [step_sweep q S a st he]
  split
  · refine ⟨?_, fun _ w _ hc => by simp at hc, fun hf => by simp at hf⟩
    intro o ho
    simp only [hid, List.nil_append] at ho
    exact Or.inl ((census_mem hI it.cls o).1 ho)
  · refine ⟨fun o ho => by simp [hid, hic] at ho, ?_, fun hf => by simp at hf⟩
    intro _ w hw hc
    refine Or.inl ((census_mem (S := S) (a := a) hI it.cls w.obj).1 ?_)
    unfold instancesOf
    simp only [List.mem_flatMap, List.mem_map, List.mem_filter, beq_iff_eq]
    exact ⟨w.cls, hc, w, ⟨hw, rfl⟩, rfl⟩

theorem sweep_byClass_subset {q : Quirks} {a : Alloc σ} {st : St σ} (hI : Inv q st) :
    ∀ w ∈ (sweep q a st.g st.h.isLive).byClass, w ∈ st.g.byClass := by
  intro w hw
  have h1 : (sweep q a st.g st.h.isLive).byClass = (sweep q a st.g st.h.isLive).nodes :=
    (hI.sweep (a := a)).byClassEq
  rw [h1, mem_sweep_nodes hI] at hw
  rw [hI.byClassEq]; exact hw.1

theorem Inv.setCache {q : Quirks} {st : St σ} (hI : Inv q st) (k : Nat) (ys : List Obj) : Inv q (setCache st k ys) :=
  hI.heap_irrelevant _ rfl rfl rfl

theorem Inv.err_false {q : Quirks} {st : St σ} (hI : Inv q st) (hq : q.deadEndpointRaises = false) :
    st.err = false := by
  cases h : st.err with
  | false => rfl
  | true => have := (hI.errFlag h).2; simp [hq] at this

/-- one `next()`: the registry stays consistent, its class lists only shrink, the evaluation stays within census + late -/
theorem advance_ok {q : Quirks} (hq : q.deadEndpointRaises = false) (snap skipDead : Bool) (S : Schema) (a : Alloc σ)
    {st : St σ} (hI : Inv q st) (it : Iter) (h : IterOK st.g.byClass it) :
    let p := advance q snap skipDead S a st it
    Inv q p.1 ∧ (∀ w ∈ p.1.g.byClass, w ∈ st.g.byClass) ∧ IterOK p.1.g.byClass p.2 := by
  have he := hI.err_false hq
  unfold advance
  split
  · exact ⟨hI, fun _ hw => hw, h⟩
  · rename_i h0
    have h0 : it.status = 0 := by simpa using h0
    -- the state and the evaluation after the (possible) first-`next()` work
    have key : ∀ (p : St σ × Iter), Inv q p.1 → (∀ w ∈ p.1.g.byClass, w ∈ st.g.byClass) → p.2.started = true →
        p.2.status = 0 → IterOK p.1.g.byClass p.2 →
        let r := Iter.pull skipDead p.1.g.byClass p.1.h.isLive (p.2.walk.length + p.2.cur.length + p.1.g.byClass.length + 2) p.2
        Inv q (match r.2 with | some _ => (setCache p.1 r.1.key r.1.yielded, r.1) | none => (p.1, r.1)).1 ∧
        (∀ w ∈ (match r.2 with | some _ => (setCache p.1 r.1.key r.1.yielded, r.1) | none => (p.1, r.1)).1.g.byClass,
          w ∈ st.g.byClass) ∧
        IterOK (match r.2 with | some _ => (setCache p.1 r.1.key r.1.yielded, r.1) | none => (p.1, r.1)).1.g.byClass
          (match r.2 with | some _ => (setCache p.1 r.1.key r.1.yielded, r.1) | none => (p.1, r.1)).2 := by
      intro p hIp hsub hs hz hok
      have hp := IterOK.pull skipDead p.1.g.byClass p.1.h.isLive
        (p.2.walk.length + p.2.cur.length + p.1.g.byClass.length + 2) p.2 hs hz hok
      intro r
      cases hr : r.2 with
      | some _ => exact ⟨hIp.setCache _ _, hsub, hp⟩
      | none => exact ⟨hIp, hsub, hp⟩
    cases hs : it.started with
    | true =>
      simp only [↓reduceIte]
      exact key (st, it) hI (fun _ hw => hw) hs h0 h
    | false =>
      simp only [Bool.false_eq_true, ↓reduceIte]
      have hb := IterOK.begin snap S a hI he it (h.idle hs).2.2 (h.idle hs).2.1
      refine key (it.begin q snap S a st) ?_ ?_ ?_ ?_ hb
      · unfold Iter.begin; rw [step_sweep q S a st he]; split <;> exact hI.sweep
      · unfold Iter.begin; rw [step_sweep q S a st he]; split <;> exact sweep_byClass_subset hI
      · unfold Iter.begin; split <;> rfl
      · unfold Iter.begin; split <;> exact h0

/-- the invariant of a run -/
def RunOK (q : Quirks) (r : SRun σ) : Prop := Inv q r.st ∧ ∀ it ∈ r.iters, IterOK r.st.g.byClass it

/-- ANY transition between two `next()` calls that keeps the registry consistent (every operation of the model does:
`C13_inv_step`; so does every composition of them) keeps every evaluation within census + late -/
theorem RunOK.between {q : Quirks} {r : SRun σ} (h : RunOK q r) {st' : St σ} (hI : Inv q st') : RunOK q (r.between st') := by
  refine ⟨hI, ?_⟩
  intro it hit
  simp only [SRun.between, List.mem_map] at hit
  obtain ⟨it0, h0, rfl⟩ := hit
  exact (h.2 it0 h0).noteLate

theorem RunOK.start {q : Quirks} (S : Schema) (a : Alloc σ) (ha : a.Valid) {r : SRun σ} (h : RunOK q r) (k : Nat)
    (c : Cls) : RunOK q (r.start q S a k c) := by
  unfold SRun.start
  split
  · exact h
  · refine ⟨C13_inv_step q S a ha r.st (.mkq (iterKey k) c none) h.1, ?_⟩
    have hbc : (step q S a r.st (.mkq (iterKey k) c none)).g = r.st.g := by
      unfold step; split
      · rfl
      · dsimp only; split <;> rfl
    intro it hit
    simp only [List.mem_append, List.mem_singleton] at hit
    rcases hit with hit | rfl
    · rw [hbc]; exact h.2 it hit
    · exact ⟨fun o ho => by simp at ho, fun _ w _ hc => by simp at hc, fun _ => ⟨rfl, rfl, rfl⟩⟩

theorem RunOK.next {q : Quirks} (hq : q.deadEndpointRaises = false) (snap skipDead : Bool) (S : Schema) (a : Alloc σ)
    {r : SRun σ} (h : RunOK q r) (k : Nat) : RunOK q (r.next q snap skipDead S a k) := by
  unfold SRun.next
  split
  · exact h
  · rename_i it hfind
    have hit : it ∈ r.iters := List.mem_of_find?_eq_some hfind
    obtain ⟨h1, h2, h3⟩ := advance_ok hq snap skipDead S a h.1 it (h.2 it hit)
    refine ⟨h1, ?_⟩
    intro x hx
    simp only [List.mem_map] at hx
    obtain ⟨y, hy, rfl⟩ := hx
    split
    · exact h3
    · exact (h.2 y hy).mono h2

theorem runOK_init (q : Quirks) (a : Alloc σ) : RunOK q ({ st := St.init a } : SRun σ) :=
  ⟨C13_inv_init q a, fun it hit => by simp at hit⟩

theorem runOK_run (q : Quirks) (hq : q.deadEndpointRaises = false) (snap skipDead : Bool) (S : Schema) (a : Alloc σ)
    (ha : a.Valid) (ops : List SOp) : RunOK q (runSOps q snap skipDead S a ops) := by
  unfold runSOps
  have : ∀ (l : List SOp) (r : SRun σ), RunOK q r → RunOK q (l.foldl (stepSOp q snap skipDead S a) r) := by
    intro l
    induction l with
    | nil => intro r h; exact h
    | cons op l ih =>
      intro r h
      apply ih
      cases op with
      | op o => exact h.between (C13_inv_step q S a ha _ _ h.1)
      | start k c => exact h.start S a ha k c
      | next k => exact h.next hq snap skipDead S a k
  exact this ops _ (runOK_init q a)

/-- **C13_stepwise_census.** For every history of operations interleaved with the `next()` calls of any number of
lazily consumed evaluations, every valid allocator, every `id()` recycling, with the per-class copy of the code as it is
(`snap = false`) or the snapshot (`snap = true`), skipping dead instances or raising on them: an instance an evaluation
has yielded belongs to the census taken at that evaluation's first `next()` — or it became known to the registry while
the evaluation was suspended, in a class its walk had not reached yet (`late`, what F-C13-3 describes). -/
theorem C13_stepwise_census (q : Quirks) (hq : q.deadEndpointRaises = false) (snap skipDead : Bool) (S : Schema)
    (a : Alloc σ) (ha : a.Valid) (ops : List SOp) :
    ∀ it ∈ (runSOps q snap skipDead S a ops).iters, ∀ o ∈ it.yielded, o ∈ it.expected ∨ o ∈ it.late :=
  fun it hit o ho => ((runOK_run q hq snap skipDead S a ha ops).2 it hit).seen o (List.mem_append_left _ ho)

/-- **C13_stepwise_partial.** The code as it is: outside the trigger of F-C13-3 every evaluation ranges within the
census of its first `next()`. -/
theorem C13_stepwise_partial (q : Quirks) (hq : q.deadEndpointRaises = false) (skipDead : Bool) (S : Schema)
    (a : Alloc σ) (ha : a.Valid) (ops : List SOp) (hno : (runSOps q false skipDead S a ops).lateKnown = false) :
    ∀ it ∈ (runSOps q false skipDead S a ops).iters, ∀ o ∈ it.yielded, o ∈ it.expected := by
  intro it hit o ho
  rcases C13_stepwise_census q hq false skipDead S a ha ops it hit o ho with h | h
  · exact h
  · simp only [SRun.lateKnown, List.any_eq_false] at hno
    have := hno it hit
    cases hl : it.late with
    | nil => simp [hl] at h
    | cons x xs => simp [hl] at this

/-! ### the snapshot: nothing is ever late -/

def SnapOK (it : Iter) : Prop := it.walk = [] ∧ it.late = []

theorem pull_walk_nil (skipDead : Bool) (bc : List W) (isLive : Obj → Bool) : ∀ (fuel : Nat) (it : Iter),
    SnapOK it → SnapOK (Iter.pull skipDead bc isLive fuel it).1
  | 0, _, h => h
  | fuel + 1, it, h => by
    unfold Iter.pull
    split
    · split
      · exact h
      · split
        · exact pull_walk_nil skipDead bc isLive fuel _ h
        · exact h
    · split
      · rename_i c w hw; simp [h.1] at hw
      · exact h

theorem advance_snapOK (q : Quirks) (skipDead : Bool) (S : Schema) (a : Alloc σ) (st : St σ) (it : Iter)
    (h : SnapOK it) : SnapOK (advance q true skipDead S a st it).2 := by
  unfold advance
  split
  · exact h
  · have hb : SnapOK (if it.started then (st, it) else it.begin q true S a st).2 := by
      split
      · exact h
      · exact ⟨rfl, h.2⟩
    have := pull_walk_nil skipDead (if it.started then (st, it) else it.begin q true S a st).1.g.byClass
      (if it.started then (st, it) else it.begin q true S a st).1.h.isLive
      ((if it.started then (st, it) else it.begin q true S a st).2.walk.length +
        (if it.started then (st, it) else it.begin q true S a st).2.cur.length +
        (if it.started then (st, it) else it.begin q true S a st).1.g.byClass.length + 2) _ hb
    dsimp only
    split <;> exact this

theorem snapOK_run (q : Quirks) (skipDead : Bool) (S : Schema) (a : Alloc σ) (ops : List SOp) :
    ∀ it ∈ (runSOps q true skipDead S a ops).iters, SnapOK it := by
  unfold runSOps
  have : ∀ (l : List SOp) (r : SRun σ), (∀ it ∈ r.iters, SnapOK it) →
      ∀ it ∈ (l.foldl (stepSOp q true skipDead S a) r).iters, SnapOK it := by
    intro l
    induction l with
    | nil => intro r h; exact h
    | cons op l ih =>
      intro r h
      apply ih
      cases op with
      | op o =>
        intro it hit
        simp only [stepSOp, SRun.between, List.mem_map] at hit
        obtain ⟨y, hy, rfl⟩ := hit
        have := h y hy
        refine ⟨this.1, ?_⟩
        simp [Iter.noteLate, Iter.awaits, this.1, this.2]
      | start k c =>
        simp only [stepSOp, SRun.start]
        split
        · exact h
        · intro it hit
          simp only [List.mem_append, List.mem_singleton] at hit
          rcases hit with hit | rfl
          · exact h it hit
          · exact ⟨rfl, rfl⟩
      | next k =>
        simp only [stepSOp, SRun.next]
        split
        · exact h
        · rename_i it0 hfind
          intro it hit
          simp only [List.mem_map] at hit
          obtain ⟨y, hy, rfl⟩ := hit
          split
          · exact advance_snapOK q skipDead S a r.st it0 (h it0 (List.mem_of_find?_eq_some hfind))
          · exact h y hy
  exact this ops _ (fun it hit => by simp at hit)

/-- **C13_stepwise_snapshot.** With the class lists copied at the first `next()` (the repair F-C13-3 asks for) a lazily
consumed evaluation yields only instances of the census taken at its first `next()`, whatever is interleaved. -/
theorem C13_stepwise_snapshot (q : Quirks) (hq : q.deadEndpointRaises = false) (skipDead : Bool) (S : Schema)
    (a : Alloc σ) (ha : a.Valid) (ops : List SOp) :
    ∀ it ∈ (runSOps q true skipDead S a ops).iters, it.late = [] ∧ ∀ o ∈ it.yielded, o ∈ it.expected := by
  intro it hit
  have hl := (snapOK_run q skipDead S a ops it hit).2
  refine ⟨hl, fun o ho => ?_⟩
  rcases C13_stepwise_census q hq true skipDead S a ha ops it hit o ho with h | h
  · exact h
  · simp [hl] at h

/-! ### witnesses (tests on concrete histories) -/

/-- the witness of F-C13-3: `Emp 0`; an evaluation over `Emp` started and advanced once; `Mgr 1` created; advanced twice -/
def cexStepOps : List SOp :=
  [.op (.new 0 0 0), .start 1 0, .next 1, .op (.new 1 1 1), .next 1, .next 1]

/-- **C13_cex_stepwise** (test on a concrete witness = finding F-C13-3): as the code is the suspended evaluation yields the
instance of the subclass created after its first `next()`, which is not of its census; with the snapshot it does not. -/
theorem C13_cex_stepwise :
    ((runSOps Quirks.asIs false true cexSchema lifo cexStepOps).iters.map
      (fun it => (it.yielded, it.expected, it.late, it.status))) = [([0, 1], [0], [1], 1)] ∧
    ((runSOps Quirks.asIs true true cexSchema lifo cexStepOps).iters.map
      (fun it => (it.yielded, it.expected, it.late, it.status))) = [([0], [0], [], 1)] := by
  decide +kernel

/-- non-vacuity of `C13_stepwise_partial`: a history with interleaved creations of the class being walked (not late) -/
example :
    let r := runSOps Quirks.asIs false true cexSchema lifo
      [.op (.new 0 0 0), .op (.new 1 1 1), .start 1 0, .next 1, .op (.new 2 0 2), .next 1, .next 1]
    r.lateKnown = false ∧ r.iters.map (fun it => (it.yielded, it.expected, it.status)) = [([0, 1], [0, 1], 1)] := by
  decide +kernel

/-
The converse direction (`C13_stepwise_complete`: a stopped evaluation has yielded every census instance that is still
alive, for histories without `clear`) is in `Props/C13StepComplete.lean`.
Not proved (statement only): `it.yielded.Nodup` (no instance is yielded twice by one evaluation). It needs, on top of the
invariants here, that the class of a label never changes over a history (a ghost fact about `Heap.used` that `Inv` does not
carry). Left to the correspondence (`dup=` in the observation).
-/
end KrroodVerif.SG
