import KrroodVerif.Model.RuleHistory
/-!
C03, rule queries — "this includes rule queries that infer instances".

About `Model/RuleHistory.lean`: ONE rule query object under a history of `start | next | abandon | full | grow`.
Specification `RuleHist.spec`: every evaluation yields, result by result, what a freshly written query (the same
`with` blocks, never evaluated) yields when it is evaluated alone.

* `C03_rules_sequential` (unbounded; `HQuirks.repaired` = the code after `fixes/C03_reset_selector_state.diff` and
  `fixes/C03_surgery_graph_parent.diff`): for EVERY payload, domain, rule program and history in which evaluations do
  not overlap — any abandonment point, any number of repetitions, the tree grown any number of times in between —
  every step yields what the isolated run yields.
* `C03_rules_interleaved` (unbounded; `HQuirks.ideal` = evaluation-local node state in addition): the same under EVERY
  history, overlapping evaluations included.
* NOT PROVED — `C03_rules_sequential_partial`, the statement for the code as it is (`HQuirks.today`):
  `trigAbandoned ops = false → trigOverlap ops = false → trigStaleGrow ops = false →
   model HQuirks.today pay dom a ops = spec pay dom a ops`.
  Missing: (1) a complete evaluation leaves every selector's `_conclusion_` empty and every `Next`'s flags cleared,
  (2) `evalG` does not depend on the `_is_false_` values it finds (each is written before it is read within one
  uninterrupted chain of `yield`s), (3) with at most one branch attached since the last evaluation every `_parent_`
  that the surgery reads equals the graph parent. (1)-(3) are bisimulation arguments over `Gen`; what holds today
  outside the three triggers is covered by the correspondence only (the families never found a deviation there).
* `C03_cex_rule_abandoned` (F-C03-4), `C03_cex_rule_suspended` (F-C03-5), `C03_cex_rule_stale_parent` (F-C03-6): the
  witnesses of the three findings, `decide`d; each also shows which repair removes it.
-/
namespace KrroodVerif.RuleHist
open KrroodVerif.Rdr

/-! ### one `next()` at a time yields the elements of the complete run -/

theorem drain_item (rc : KSt → List Nat) (x : Nat) (f : Bool) (s : KSt) (nxt : KSt → Gen) :
    (drain rc (.item x f s nxt)).1 =
      if f then (drain rc (nxt s)).1 else if (rc s).isEmpty then (drain rc (nxt s)).1
      else (rc s, x) :: (drain rc (nxt s)).1 := by
  rw [drain]
  split
  · rfl
  · split <;> rfl

theorem pump_item (rc : KSt → List Nat) (x : Nat) (f : Bool) (s : KSt) (nxt : KSt → Gen) :
    pump rc (.item x f s nxt) =
      if f then pump rc (nxt s) else if (rc s).isEmpty then pump rc (nxt s) else .emitted (rc s, x) s nxt := by
  rw [pump]

theorem pump_finished (rc : KSt → List Nat) : ∀ (g : Gen) (s : KSt), pump rc g = .finished s → (drain rc g).1 = [] := by
  intro g
  induction g with
  | done s0 => intro s _; simp [drain]
  | item x f s0 nxt ih =>
    intro s h
    rw [pump_item] at h
    rw [drain_item]
    split at h
    · rw [if_pos ‹_›]; exact ih _ _ h
    · rw [if_neg ‹_›]
      split at h
      · rw [if_pos ‹_›]; exact ih _ _ h
      · cases h

theorem pump_emitted (rc : KSt → List Nat) : ∀ (g : Gen) (row : Row) (s : KSt) (nx : KSt → Gen),
    pump rc g = .emitted row s nx → (drain rc g).1 = row :: (drain rc (nx s)).1 := by
  intro g
  induction g with
  | done s0 => intro row s nx h; simp [pump] at h
  | item x f s0 nxt ih =>
    intro row s nx h
    rw [pump_item] at h
    rw [drain_item]
    split at h
    · rw [if_pos ‹_›]; exact ih _ _ _ _ h
    · rw [if_neg ‹_›]
      split at h
      · rw [if_pos ‹_›]; exact ih _ _ _ _ h
      · rw [if_neg ‹_›]
        simp only [PumpRes.emitted.injEq] at h
        obtain ⟨h1, h2, h3⟩ := h
        subst h1 h2 h3
        rfl

theorem drop_nil_get {α} (l : List α) (k : Nat) (h : l.drop k = []) : l[k]? = none := by
  rw [List.getElem?_eq_none_iff]
  exact List.drop_eq_nil_iff.mp h

theorem drop_cons_get {α} (l : List α) (k : Nat) (a : α) (t : List α) (h : l.drop k = a :: t) :
    l[k]? = some a ∧ l.drop (k + 1) = t := by
  constructor
  · have : (l.drop k)[0]? = some a := by rw [h]; rfl
    simpa using this
  · have : (l.drop k).drop 1 = t := by rw [h]; rfl
    simpa [List.drop_drop, Nat.add_comm] using this

/-! ### growing a tree without stale evaluation parents is plain tree surgery -/

theorem growRun_graph (q : HQuirks) (hq : q.staleEvalParent = false) (ep : List (Option Nat)) :
    ∀ (ops : List Op) (b : BState), growRun q ep b ops = growRun HQuirks.ideal [] b ops := by
  intro ops
  induction ops with
  | nil => intro b; rfl
  | cons op ops ih =>
    intro b
    simp only [growRun, growStep, hq, HQuirks.ideal, Bool.not_false, if_true]
    cases b.step Quirks.today op with
    | none => rfl
    | some b' => exact ih b'

/-! ### evaluation-local state: every history -/

/-- what relates an iterator of the machine with evaluation-local state to its specification -/
def RelOwn : Iter → SIter → Prop
  | .fresh, .fresh => True
  | .closed, .closed => True
  | .susp rc nx own, .run rows k => (drain rc (nx own)).1 = rows.drop k
  | _, _ => False

theorem handleNext_ideal (m : Mach) (sm : SMach) (i : Nat) (rc : KSt → List Nat) (g : Gen) (rows : List Row) (k : Nat)
    (hb : m.b = sm.b) (hr : ∀ j, RelOwn (m.its j) (sm.its j)) (hg : (drain rc g).1 = rows.drop k) :
    (handleNext HQuirks.ideal m i rc g).2 = (specNext sm i rows k).2 ∧
    (handleNext HQuirks.ideal m i rc g).1.b = (specNext sm i rows k).1.b ∧
    ∀ j, RelOwn ((handleNext HQuirks.ideal m i rc g).1.its j) ((specNext sm i rows k).1.its j) := by
  unfold handleNext specNext
  cases hp : pump rc g with
  | finished s =>
    have h0 := pump_finished rc g s hp
    rw [hg] at h0
    rw [drop_nil_get rows k h0]
    refine ⟨rfl, hb, ?_⟩
    intro j
    simp only [HQuirks.ideal, Mach.set, SMach.set]
    by_cases hj : j = i
    · simp [hj, RelOwn]
    · simp [hj]; exact hr j
  | emitted row s nx =>
    have h0 := pump_emitted rc g row s nx hp
    rw [hg] at h0
    -- h0 : rows.drop k = row :: …
    obtain ⟨h1, h2⟩ := drop_cons_get rows k row _ h0
    rw [h1]
    refine ⟨rfl, hb, ?_⟩
    intro j
    simp only [HQuirks.ideal, Mach.set, SMach.set]
    by_cases hj : j = i
    · simp [hj, RelOwn, h2]
    · simp [hj]; exact hr j

theorem beginEval_ideal (pay : Payload) (dom : List Nat) (m : Mach) (sm : SMach) (hb : m.b = sm.b) :
    (beginEval pay dom HQuirks.ideal m = none ∧ freshRows pay dom sm.b = none) ∨
    ∃ m' rc g, beginEval pay dom HQuirks.ideal m = some (m', rc, g) ∧ m'.b = m.b ∧ m'.its = m.its ∧
      freshRows pay dom sm.b = some (drain rc g).1 := by
  unfold beginEval freshRows
  rw [← hb]
  cases hmb : m.b with
  | none => left; exact ⟨rfl, rfl⟩
  | some b =>
    dsimp only
    cases hbt : b.tree with
    | none => left; exact ⟨rfl, rfl⟩
    | some t =>
      right
      dsimp only
      exact ⟨_, _, _, rfl, rfl, rfl, rfl⟩

theorem run_ideal (pay : Payload) (dom : List Nat) (blk : Nat) : ∀ (ops : List HOp) (m : Mach) (sm : SMach),
    m.b = sm.b → (∀ j, RelOwn (m.its j) (sm.its j)) →
    run pay dom blk HQuirks.ideal m ops = specRun pay dom blk sm ops := by
  intro ops
  induction ops with
  | nil => intros; rfl
  | cons op ops ih =>
    intro m sm hb hr
    simp only [run, specRun]
    cases op with
    | start i =>
      simp only [step, specStep]
      congr 1
      apply ih
      · exact hb
      · intro j; simp only [Mach.set, SMach.set]; by_cases hj : j = i <;> simp [hj, RelOwn]; exact hr j
    | abandon i =>
      simp only [step, specStep]
      congr 1
      apply ih
      · exact hb
      · intro j; simp only [Mach.set, SMach.set]; by_cases hj : j = i <;> simp [hj, RelOwn]; exact hr j
    | next i =>
      simp only [step, specStep, Mach.get, SMach.get]
      have hri := hr i
      cases hm : m.its i with
      | closed =>
        cases hs : sm.its i with
        | closed => simp only []; congr 1; exact ih m sm hb hr
        | fresh => rw [hm, hs] at hri; exact hri.elim
        | run rows k => rw [hm, hs] at hri; exact hri.elim
      | fresh =>
        cases hs : sm.its i with
        | closed => rw [hm, hs] at hri; exact hri.elim
        | run rows k => rw [hm, hs] at hri; exact hri.elim
        | fresh =>
          simp only []
          rcases beginEval_ideal pay dom m sm hb with ⟨h1, h2⟩ | ⟨m', rc, g, h1, h2, h3, h4⟩
          · rw [h1, h2]
            simp only []
            congr 1
            apply ih
            · exact hb
            · intro j; simp only [Mach.set, SMach.set]; by_cases hj : j = i <;> simp [hj, RelOwn]; exact hr j
          · rw [h1, h4]
            simp only []
            have hr' : ∀ j, RelOwn (m'.its j) (sm.its j) := by rw [h3]; exact hr
            obtain ⟨e1, e2, e3⟩ := handleNext_ideal m' sm i rc g (drain rc g).1 0 (h2.trans hb) hr' (by simp)
            rw [e1]
            congr 1
            exact ih _ _ e2 e3
      | susp rc nx own =>
        cases hs : sm.its i with
        | closed => rw [hm, hs] at hri; exact hri.elim
        | fresh => rw [hm, hs] at hri; exact hri.elim
        | run rows k =>
          rw [hm, hs] at hri
          simp only []
          have hg : (drain rc (nx (if HQuirks.ideal.sharedState = true then m.st else own))).1 = rows.drop k := by
            simpa [HQuirks.ideal, RelOwn] using hri
          obtain ⟨e1, e2, e3⟩ := handleNext_ideal m sm i rc _ rows k hb hr hg
          rw [e1]
          congr 1
          exact ih _ _ e2 e3
    | full i =>
      simp only [step, specStep]
      rcases beginEval_ideal pay dom m sm hb with ⟨h1, h2⟩ | ⟨m', rc, g, h1, h2, h3, h4⟩
      · rw [h1, h2]
        simp only []
        congr 1
        apply ih
        · exact hb
        · intro j; simp only [Mach.set, SMach.set]; by_cases hj : j = i <;> simp [hj, RelOwn]; exact hr j
      · rw [h1, h4]
        simp only []
        congr 1
        apply ih
        · simp only [HQuirks.ideal, Mach.set, SMach.set]; exact h2.trans hb
        · intro j
          simp only [HQuirks.ideal, Mach.set, SMach.set]
          by_cases hj : j = i
          · simp [hj, RelOwn]
          · simp [hj]; rw [h3]; exact hr j
    | grow items =>
      simp only [step, specStep]
      congr 1
      apply ih
      · simp only []
        rw [hb]
        cases sm.b with
        | none => rfl
        | some b => simp only [Option.bind]; exact growRun_graph HQuirks.ideal rfl _ _ _
      · exact hr

/-- **every history, with evaluation-local node state**: each step of each iterator yields what the isolated run
yields — whatever the interleaving, abandonment and growth of the tree. -/
theorem C03_rules_interleaved (pay : Payload) (dom : List Nat) (a : Authored) (ops : List HOp) :
    model HQuirks.ideal pay dom a ops = spec pay dom a ops := by
  unfold model spec initMach
  apply run_ideal
  · rfl
  · intro j; simp [RelOwn]

/-! ### the repaired code: every history in which evaluations do not overlap -/

/-- what relates the iterator that is being consumed to its specification, given the shared node state -/
def RelSh (st : KSt) : Iter → SIter → Prop
  | .fresh, .fresh => True
  | .closed, .closed => True
  | .susp rc nx _, .run rows k => (drain rc (nx st)).1 = rows.drop k
  | _, _ => False

theorem handleNext_repaired (m : Mach) (sm : SMach) (i : Nat) (rc : KSt → List Nat) (g : Gen) (rows : List Row) (k : Nat)
    (hb : m.b = sm.b) (hg : (drain rc g).1 = rows.drop k) :
    (handleNext HQuirks.repaired m i rc g).2 = (specNext sm i rows k).2 ∧
    (handleNext HQuirks.repaired m i rc g).1.b = (specNext sm i rows k).1.b ∧
    RelSh (handleNext HQuirks.repaired m i rc g).1.st ((handleNext HQuirks.repaired m i rc g).1.its i)
      ((specNext sm i rows k).1.its i) := by
  unfold handleNext specNext
  cases hp : pump rc g with
  | finished s =>
    have h0 := pump_finished rc g s hp
    rw [hg] at h0
    rw [drop_nil_get rows k h0]
    refine ⟨rfl, hb, ?_⟩
    simp [HQuirks.repaired, Mach.set, SMach.set, RelSh]
  | emitted row s nx =>
    have h0 := pump_emitted rc g row s nx hp
    rw [hg] at h0
    obtain ⟨h1, h2⟩ := drop_cons_get rows k row _ h0
    rw [h1]
    refine ⟨rfl, hb, ?_⟩
    simp [HQuirks.repaired, Mach.set, SMach.set, RelSh, h2]

theorem beginEval_repaired (pay : Payload) (dom : List Nat) (m : Mach) (sm : SMach) (hb : m.b = sm.b) :
    (beginEval pay dom HQuirks.repaired m = none ∧ freshRows pay dom sm.b = none) ∨
    ∃ m' rc g, beginEval pay dom HQuirks.repaired m = some (m', rc, g) ∧ m'.b = m.b ∧
      freshRows pay dom sm.b = some (drain rc g).1 := by
  unfold beginEval freshRows
  rw [← hb]
  cases hmb : m.b with
  | none => left; exact ⟨rfl, rfl⟩
  | some b =>
    dsimp only
    cases hbt : b.tree with
    | none => left; exact ⟨rfl, rfl⟩
    | some t =>
      right
      dsimp only
      exact ⟨_, _, _, rfl, rfl, rfl⟩

theorem run_repaired (pay : Payload) (dom : List Nat) (blk : Nat) :
    ∀ (ops : List HOp) (m : Mach) (sm : SMach) (cur : Option Nat),
    m.b = sm.b → (∀ c, cur = some c → RelSh m.st (m.its c) (sm.its c)) → sequentialAux cur ops = true →
    run pay dom blk HQuirks.repaired m ops = specRun pay dom blk sm ops := by
  intro ops
  induction ops with
  | nil => intros; rfl
  | cons op ops ih =>
    intro m sm cur hb hr hs
    simp only [run, specRun]
    cases op with
    | start i =>
      simp only [step, specStep]
      congr 1
      refine ih _ _ (some i) ?_ ?_ ?_
      · exact hb
      · intro c hc
        cases hc
        simp [Mach.set, SMach.set, RelSh]
      · simpa [sequentialAux] using hs
    | abandon i =>
      simp only [step, specStep]
      congr 1
      refine ih _ _ (if cur == some i then none else cur) ?_ ?_ ?_
      · exact hb
      · intro c hc
        by_cases hci : cur = some i
        · simp [hci] at hc
        · have hcc : cur = some c := by simpa [hci] using hc
          have hne : c ≠ i := by intro h; apply hci; rw [hcc, h]
          simp only [Mach.set, SMach.set, hne, if_false]
          exact hr c hcc
      · simpa [sequentialAux] using hs
    | next i =>
      simp only [sequentialAux, Bool.and_eq_true, beq_iff_eq] at hs
      obtain ⟨hci, hs⟩ := hs
      have hri := hr i hci
      simp only [step, specStep, Mach.get, SMach.get]
      cases hm : m.its i with
      | closed =>
        cases hsi : sm.its i with
        | closed => simp only []; congr 1; exact ih m sm cur hb hr hs
        | fresh => rw [hm, hsi] at hri; exact hri.elim
        | run rows k => rw [hm, hsi] at hri; exact hri.elim
      | fresh =>
        cases hsi : sm.its i with
        | closed => rw [hm, hsi] at hri; exact hri.elim
        | run rows k => rw [hm, hsi] at hri; exact hri.elim
        | fresh =>
          simp only []
          rcases beginEval_repaired pay dom m sm hb with ⟨h1, h2⟩ | ⟨m', rc, g, h1, h2, h4⟩
          · rw [h1, h2]
            simp only []
            congr 1
            refine ih _ _ cur ?_ ?_ ?_
            · exact hb
            · intro c hc
              have : c = i := by rw [hci] at hc; cases hc; rfl
              subst this
              simp [Mach.set, SMach.set, RelSh]
            · exact hs
          · rw [h1, h4]
            simp only []
            obtain ⟨e1, e2, e3⟩ := handleNext_repaired m' sm i rc g (drain rc g).1 0 (h2.trans hb) (by simp)
            rw [e1]
            congr 1
            refine ih _ _ cur e2 ?_ ?_
            · intro c hc
              have : c = i := by rw [hci] at hc; cases hc; rfl
              subst this
              exact e3
            · exact hs
      | susp rc nx own =>
        cases hsi : sm.its i with
        | closed => rw [hm, hsi] at hri; exact hri.elim
        | fresh => rw [hm, hsi] at hri; exact hri.elim
        | run rows k =>
          rw [hm, hsi] at hri
          simp only []
          have hg : (drain rc (nx (if HQuirks.repaired.sharedState = true then m.st else own))).1 = rows.drop k := by
            simpa [HQuirks.repaired, RelSh] using hri
          obtain ⟨e1, e2, e3⟩ := handleNext_repaired m sm i rc _ rows k hb hg
          rw [e1]
          congr 1
          refine ih _ _ cur e2 ?_ ?_
          · intro c hc
            have : c = i := by rw [hci] at hc; cases hc; rfl
            subst this
            exact e3
          · exact hs
    | full i =>
      simp only [step, specStep]
      have hs' : sequentialAux none ops = true := by simpa [sequentialAux] using hs
      rcases beginEval_repaired pay dom m sm hb with ⟨h1, h2⟩ | ⟨m', rc, g, h1, h2, h4⟩
      · rw [h1, h2]
        simp only []
        congr 1
        exact ih _ _ none (by exact hb) (by intro c hc; cases hc) hs'
      · rw [h1, h4]
        simp only []
        congr 1
        exact ih _ _ none (by simp only [HQuirks.repaired, Mach.set, SMach.set]; exact h2.trans hb)
          (by intro c hc; cases hc) hs'
    | grow items =>
      simp only [step, specStep]
      have hs' : sequentialAux none ops = true := by simpa [sequentialAux] using hs
      congr 1
      refine ih _ _ none ?_ (by intro c hc; cases hc) hs'
      simp only []
      rw [hb]
      cases sm.b with
      | none => rfl
      | some b => simp only [Option.bind]; exact growRun_graph HQuirks.repaired rfl _ _ _

/-- **every history in which evaluations do not overlap, after the two repairs**: whatever the rule program, the
domain, the points at which iterators are abandoned (or just left), the number of repetitions and the growth of the
tree between evaluations, every step yields what the isolated run of a freshly written query yields. -/
theorem C03_rules_sequential (pay : Payload) (dom : List Nat) (a : Authored) (ops : List HOp)
    (hseq : sequential ops = true) :
    model HQuirks.repaired pay dom a ops = spec pay dom a ops := by
  unfold model spec initMach
  exact run_repaired pay dom a.blk ops _ _ none rfl (by intro c hc; cases hc) hseq

/-! ### the three findings: witnesses (tests on concrete inputs, `decide`d) -/

/-- F-C03-4. `x` over `[0, 1]`; rule `x ∈ {1}` concluding `K0`, with an `alternative(x ∈ {0})` that concludes
nothing. The first result (`K0` of 1) is read and the iterator closed: the `Alternative` keeps `{K0}` in its
`_conclusion_`. The next complete evaluation then also concludes `K0` for 0. Resetting the selector state repairs it. -/
def cexA_pay : Payload := Payload.ofList [⟨[1], [0]⟩, ⟨[0], []⟩]
def cexA_prog : Authored := ⟨0, [.add, .kid .alt (.mk 1 .nil)]⟩
def cexA_ops : List HOp := [.start 0, .next 0, .abandon 0, .full 1]

theorem C03_cex_rule_abandoned :
    trigAbandoned cexA_ops = true ∧ sequential cexA_ops = true ∧
    spec cexA_pay [0, 1] cexA_prog cexA_ops = [.none, .row ([0], 1), .none, .rows [([0], 1)]] ∧
    model HQuirks.today cexA_pay [0, 1] cexA_prog cexA_ops = [.none, .row ([0], 1), .none, .rows [([0], 0), ([0], 1)]] ∧
    model { HQuirks.today with staleSelectorState := false } cexA_pay [0, 1] cexA_prog cexA_ops
      = spec cexA_pay [0, 1] cexA_prog cexA_ops := by
  decide +kernel

/-- F-C03-5. `x` over `[0, 1, 2]`; rule `x ∈ {0,1,2}` concluding `K0` with an alternative. One result is read, the
query is evaluated completely by someone else (correct), then the first iterator yields nothing more: the complete
evaluation left everything "concluded before". No reset can repair this; evaluation-local state does. -/
def cexB_pay : Payload := Payload.ofList [⟨[0, 1, 2], [0]⟩, ⟨[0, 1, 2], [1]⟩]
def cexB_prog : Authored := ⟨0, [.add, .kid .alt (.mk 1 .nil)]⟩
def cexB_ops : List HOp := [.start 0, .next 0, .full 1, .next 0]

theorem C03_cex_rule_suspended :
    trigOverlap cexB_ops = true ∧
    spec cexB_pay [0, 1, 2] cexB_prog cexB_ops
      = [.none, .row ([0], 0), .rows [([0], 0), ([0], 1), ([0], 2)], .row ([0], 1)] ∧
    model HQuirks.today cexB_pay [0, 1, 2] cexB_prog cexB_ops
      = [.none, .row ([0], 0), .rows [([0], 0), ([0], 1), ([0], 2)], .stop] ∧
    model HQuirks.repaired cexB_pay [0, 1, 2] cexB_prog cexB_ops
      = model HQuirks.today cexB_pay [0, 1, 2] cexB_prog cexB_ops ∧
    model HQuirks.ideal cexB_pay [0, 1, 2] cexB_prog cexB_ops = spec cexB_pay [0, 1, 2] cexB_prog cexB_ops := by
  decide +kernel

/-- F-C03-6. `x` over `[0,1,2,3]`; plain rule concluding `K0`, evaluated once; then ONE `with query:` block adds
`refinement(x ∈ {1})` concluding `K1` and `refinement(x ∈ {2})` concluding `K2`. The second `refinement()` reads the
condition's `_parent_`, gets the evaluation parent (the query descriptor) instead of the first `ExceptIf`, and hangs its
own `ExceptIf` directly under the descriptor: the first refinement is no longer evaluated (`K0` for 1). Reading the
graph parent repairs it. -/
def cexC_pay : Payload := Payload.ofList [⟨[0, 1, 2, 3], [0]⟩, ⟨[1], [1]⟩, ⟨[2], [2]⟩]
def cexC_prog : Authored := ⟨0, [.add]⟩
def cexC_ops : List HOp := [.full 0, .grow [.kid .ref (.mk 1 .nil), .kid .ref (.mk 2 .nil)], .full 1]

theorem C03_cex_rule_stale_parent :
    trigStaleGrow cexC_ops = true ∧ sequential cexC_ops = true ∧ trigAbandoned cexC_ops = false ∧
    spec cexC_pay [0, 1, 2, 3] cexC_prog cexC_ops
      = [.rows [([0], 0), ([0], 1), ([0], 2), ([0], 3)], .none, .rows [([0], 0), ([1], 1), ([2], 2), ([0], 3)]] ∧
    model HQuirks.today cexC_pay [0, 1, 2, 3] cexC_prog cexC_ops
      = [.rows [([0], 0), ([0], 1), ([0], 2), ([0], 3)], .none, .rows [([0], 0), ([0], 1), ([2], 2), ([0], 3)]] ∧
    model { HQuirks.today with staleEvalParent := false } cexC_pay [0, 1, 2, 3] cexC_prog cexC_ops
      = spec cexC_pay [0, 1, 2, 3] cexC_prog cexC_ops := by
  decide +kernel

/-- non-vacuity: a history with abandonment, repetition and growth that is sequential — and on which the code as it
is deviates -/
example : sequential (cexA_ops ++ cexC_ops) = true ∧
    model HQuirks.today cexA_pay [0, 1] cexA_prog cexA_ops ≠ spec cexA_pay [0, 1] cexA_prog cexA_ops := by
  decide +kernel


end KrroodVerif.RuleHist
