import KrroodVerif.Lemmas.EqlTraceQLemmas
import KrroodVerif.Props.C10
/-!
# C10Q — laziness of a quantifier at the root of a query

`Model/EqlTraceQ.lean` extends the demand-driven trace model of C10 (`traceE`, quantifier-free) to
`an(entity(sel, exists(u, c)))` and `an(entity(sel, for_all(u, c)))` with a quantifier-free body `c`:
`traceExistsRoot`, `traceForAllRoot`, `traceQueryQ`. This file relates them to the list model `Eql.eval` /
`Eql.evalQuery` (frozen) and states what they say about laziness. Helper lemmas and the auxiliary definitions used in
the statements (`walkEnvs`, `NoPull`, `nonRow`, `isPullOf`, `forAllStep`) are in `Lemmas/EqlTraceQLemmas.lean`;
`Expr.QF`, `vis`, `Bnd`, `firstVar`, `AllPullOk` are in `Lemmas/EqlTraceLemmas.lean`.

* `C10Q_exists_vis`, `C10Q_exists_rows` — the streaming `exists` hands out exactly the list model's rows;
* `C10Q_forall_filter`, `C10Q_forall_vis`, `C10Q_forall_rows` — the same for `for_all`;
* `C10Q_query_rows`, `C10Q_prefix_query` — the same for `traceQueryQ` (quantifier-free or root quantifier);
* `C10Q_body_never_pulls_bound`, `C10Q_forall_early_exit`, `C10Q_forAllLoop_pulls_le`, `C10Q_forAllLoop_early_stop`,
  `C10Q_forall_pulled_exact`, `C10Q_forall_partial_pull_no_rows` — the universal variable is pulled one value at a
  time and no further once no candidate is left;
* `C10Q_sel_bound_vars`, `C10Q_existsWalk_nonrow`, `C10Q_exists_nonrow`, `C10Q_exists_nonrow'`,
  `C10Q_exists_streaming`, `C10Q_exists_streaming_var` — the `exists` trace is the condition's stream with rows
  spliced in: stopping after `k` results has performed a PREFIX of it;
* `C10Q_pull_in_range`, `C10Q_pulled_le_domain` — pulls stay inside the domains.

All theorems are unbounded in the world, the domains, the body, the selection and `k`.
-/
namespace KrroodVerif.Eql

/-! ## 1. `exists` at the root: rows -/

/-- consumer-visible events (`vis`: rows and exceptions) of the streaming `exists`: exactly the list model's rows -/
theorem C10Q_exists_vis (w : World) (sel : List Term) (u : VarId) (c : Expr) (hq : c.QF = true)
    (rows : List (List Val)) (h : evalQuery w ⟨sel, some (.exists_ u c)⟩ = .ok rows) :
    vis (traceExistsRoot w sel u c) = rows.map Ev.row :=
  traceExistsRoot_vis w sel u c hq rows h

/-- **C10Q_exists_rows.** Quantifier-free body `c`: when the list model evaluates `an(entity(sel, exists(u, c)))` to
`rows`, the rows handed out by the streaming trace are exactly `rows` (order, multiplicity), and no exception escapes.
(Conditional on the list model succeeding: `eval` looks the quantified variable up in EVERY cell, `existsWalk` only
in the true ones.) -/
theorem C10Q_exists_rows (w : World) (sel : List Term) (u : VarId) (c : Expr) (hq : c.QF = true)
    (rows : List (List Val)) (h : evalQuery w ⟨sel, some (.exists_ u c)⟩ = .ok rows) :
    rowsOf (traceExistsRoot w sel u c) = rows ∧ hasErr (traceExistsRoot w sel u c) = false := by
  constructor
  · rw [← rowsOf_vis, traceExistsRoot_vis w sel u c hq rows h, rowsOf_map_row]
  · rw [hasErr_eq_vis, traceExistsRoot_vis w sel u c hq rows h, hasErr_map_row]

/-- the walk lemma behind it: erasing pull/read events, `existsWalk` over a stream with one marker per cell is the
walk over the cells alone (`walkEnvs`), which is `existsFilter` followed by the selection -/
theorem C10Q_existsWalk_vis (w : World) (sel : List Term) (u : VarId) (evs : List Ev)
    (rs rs' : List (Env × Bool)) (seen : List Val)
    (hevs : vis evs = ((rs.filter (·.2)).map (·.1)).map fun _ => Ev.row [])
    (h : existsFilter w u rs seen = .ok rs') :
    vis (existsWalk w sel u evs ((rs.filter (·.2)).map (·.1)) seen) =
      vis (((rs'.filter (·.2)).map (·.1)).flatMap fun env => traceSel w env sel []) := by
  rw [existsWalk_vis _ _ _ _ _ _ hevs, walkEnvs_existsFilter _ _ _ _ _ _ h]

/-! ## 2. `for_all` at the root: rows -/

/-- the candidates surviving `forAllLoop` are the result of the list model's `foldlM` over the later values of the
universal variable (`forAllStep` is the step function in `eval`'s `.forAll` clause), whenever that succeeds -/
theorem C10Q_forall_filter (w : World) (u : VarId) (c : Expr) (vals : List Val) (s : Nat) (cands final : List Env)
    (h : (vals.map fun x => (((Key.var u, x) :: [] : Env), x, true)).foldlM (forAllStep w c) cands = .ok final) :
    (forAllLoop w u c (enumFrom s vals) cands).2 = final :=
  forAllLoop_snd w u c vals s cands final h

theorem C10Q_forall_vis (w : World) (sel : List Term) (u : VarId) (c : Expr) (hq : c.QF = true)
    (rows : List (List Val)) (h : evalQuery w ⟨sel, some (.forAll u c)⟩ = .ok rows) :
    vis (traceForAllRoot w sel u c) = rows.map Ev.row :=
  traceForAllRoot_vis w sel u c hq rows h

/-- **C10Q_forall_rows.** The same for `an(entity(sel, for_all(u, c)))`. -/
theorem C10Q_forall_rows (w : World) (sel : List Term) (u : VarId) (c : Expr) (hq : c.QF = true)
    (rows : List (List Val)) (h : evalQuery w ⟨sel, some (.forAll u c)⟩ = .ok rows) :
    rowsOf (traceForAllRoot w sel u c) = rows ∧ hasErr (traceForAllRoot w sel u c) = false := by
  constructor
  · rw [← rowsOf_vis, traceForAllRoot_vis w sel u c hq rows h, rowsOf_map_row]
  · rw [hasErr_eq_vis, traceForAllRoot_vis w sel u c hq rows h, hasErr_map_row]

/-! ## 2'. whole queries -/

/-- the conditions covered by `traceQueryQ`: quantifier-free, or one quantifier at the root of a quantifier-free body -/
def Expr.QF1 : Expr → Bool
  | .exists_ _ c | .forAll _ c => c.QF
  | c => c.QF

theorem C10Q_query_vis (w : World) (q : Query) (hq : ∀ c, q.cond = some c → c.QF1 = true)
    (rows : List (List Val)) (h : evalQuery w q = .ok rows) :
    vis (traceQueryQ w q) = rows.map Ev.row := by
  obtain ⟨sel, cond⟩ := q
  cases cond with
  | none => exact traceQuery_vis w ⟨sel, none⟩ (fun c hc => by cases hc) rows h
  | some c =>
    have hc := hq c rfl
    cases c with
    | exists_ u b => exact traceExistsRoot_vis w sel u b hc rows h
    | forAll u b => exact traceForAllRoot_vis w sel u b hc rows h
    | cmp op l r => exact traceQuery_vis w _ (fun c' hc' => by cases hc'; exact hc) rows h
    | contains a b => exact traceQuery_vis w _ (fun c' hc' => by cases hc'; exact hc) rows h
    | truth t => exact traceQuery_vis w _ (fun c' hc' => by cases hc'; exact hc) rows h
    | hasType t k => exact traceQuery_vis w _ (fun c' hc' => by cases hc'; exact hc) rows h
    | and l r => exact traceQuery_vis w _ (fun c' hc' => by cases hc'; exact hc) rows h
    | elseIf l r => exact traceQuery_vis w _ (fun c' hc' => by cases hc'; exact hc) rows h
    | union l r => exact traceQuery_vis w _ (fun c' hc' => by cases hc'; exact hc) rows h
    | not e => exact traceQuery_vis w _ (fun c' hc' => by cases hc'; exact hc) rows h

/-- **C10Q_query_rows.** `traceQueryQ` (quantifier-free condition, or a root-level `exists`/`for_all` over a
quantifier-free body): rows of the trace = rows of the list model, no exception. -/
theorem C10Q_query_rows (w : World) (q : Query) (hq : ∀ c, q.cond = some c → c.QF1 = true)
    (rows : List (List Val)) (h : evalQuery w q = .ok rows) :
    rowsOf (traceQueryQ w q) = rows ∧ hasErr (traceQueryQ w q) = false := by
  constructor
  · rw [← rowsOf_vis, C10Q_query_vis w q hq rows h, rowsOf_map_row]
  · rw [hasErr_eq_vis, C10Q_query_vis w q hq rows h, hasErr_map_row]

/-- the first `k` results of the lazily consumed query are the first `k` rows of the list model -/
theorem C10Q_prefix_query (w : World) (q : Query) (hq : ∀ c, q.cond = some c → c.QF1 = true)
    (rows : List (List Val)) (h : evalQuery w q = .ok rows) (k : Nat) :
    rowsOf (uptoRow k (traceQueryQ w q)) = rows.take k := by
  rw [rowsOf_uptoRow, (C10Q_query_rows w q hq rows h).1]

/-! ## 3. `for_all`: the universal variable is pulled only while candidates survive -/

/-- evaluating ANY expression from bindings that contain `u` never pulls an element of `u`'s domain (so the
hypothesis "`u` is not pulled inside the body's own trace" of the early-exit theorem always holds) -/
theorem C10Q_body_never_pulls_bound (w : World) (u : VarId) (c : Expr) (env : Env) (k : Env → Bool → List Ev)
    (hb : Bnd u env) (hk : ∀ e b, Bnd u e → NoPull u (k e b)) : NoPull u (traceE w c env k) :=
  traceE_noPull w u c env k hb hk

/-- **C10Q_forAllLoop_pulls_le.** `forAllLoop` emits nothing but pulls of the universal variable, at the positions of
a PREFIX of the remaining values: at most `rest.length` of them, and none when no candidate is left. -/
theorem C10Q_forAllLoop_pulls_le (w : World) (u : VarId) (c : Expr) (rest : List (Nat × Val)) (sols : List Env) :
    (forAllLoop w u c rest sols).1 <+: (rest.map fun p => Ev.pull u p.1) ∧
    (forAllLoop w u c rest sols).1.length ≤ rest.length ∧
    (sols = [] → (forAllLoop w u c rest sols).1 = []) := by
  refine ⟨forAllLoop_fst_prefix w u c rest sols, ?_, ?_⟩
  · have := (forAllLoop_fst_prefix w u c rest sols).length_le
    simpa using this
  · rintro rfl; rw [forAllLoop_nil_sols]

/-- if `forAllLoop` did not pull every remaining value, it is because no candidate was left -/
theorem C10Q_forAllLoop_early_stop (w : World) (u : VarId) (c : Expr) (rest : List (Nat × Val)) (sols : List Env)
    (h : (forAllLoop w u c rest sols).1.length < rest.length) : (forAllLoop w u c rest sols).2 = [] :=
  forAllLoop_early_stop w u c rest sols h

/-- **C10Q_forall_early_exit.** If the condition has no true result under the first value of the universal variable,
exactly one element of its domain is pulled, however long the domain. -/
theorem C10Q_forall_early_exit (w : World) (sel : List Term) (u : VarId) (c : Expr) (v1 : Val) (rest : List Val)
    (hd : w.dom u = v1 :: rest) (h : childTrue w c [(.var u, v1)] = []) :
    pulled u (traceForAllRoot w sel u c) = 1 ∧ rowsOf (traceForAllRoot w sel u c) = [] := by
  have hb : Bnd u [(Key.var u, v1)] := by simp [Bnd, List.lookup]
  have hfirst : NoPull u (traceE w c [(Key.var u, v1)] fun _ _ => []) :=
    traceE_noPull w u c _ _ hb fun _ _ _ => NoPull.nil u
  unfold traceForAllRoot
  simp only [hd, enumFrom, h, List.map_nil, forAllLoop_nil_sols, List.append_nil, List.flatMap_nil]
  constructor
  · rw [pulled_eq_foldl, List.foldl_cons, foldl_pullStep_noPull u _ _ hfirst]
    simp [pullStep]
  · rw [rowsOf_cons_pull, rowsOf_traceE_silent]

/-- **C10Q_forall_pulled_exact.** When the selection does not mention the universal variable, the number of its
domain elements consumed by the whole query is exactly `1 +` the number of loop iterations performed -/
theorem C10Q_forall_pulled_exact (w : World) (sel : List Term) (u : VarId) (c : Expr) (v1 : Val) (rest : List Val)
    (hd : w.dom u = v1 :: rest) (hsel : ∀ t ∈ sel, u ∉ t.vars) :
    pulled u (traceForAllRoot w sel u c) =
      1 + (forAllLoop w u c (enumFrom 1 rest)
        ((childTrue w c [(.var u, v1)]).map (restrict · (c.nodes.filter (· != .var u))))).1.length := by
  have hb : Bnd u [(Key.var u, v1)] := by simp [Bnd, List.lookup]
  have hfirst : NoPull u (traceE w c [(Key.var u, v1)] fun _ _ => []) :=
    traceE_noPull w u c _ _ hb fun _ _ _ => NoPull.nil u
  unfold traceForAllRoot
  simp only [hd, enumFrom, Nat.zero_add]
  rw [pulled_eq_foldl, List.foldl_append, List.foldl_append, List.foldl_cons,
    foldl_pullStep_noPull u _ _ hfirst]
  have h0 : pullStep u 0 (Ev.pull u 0) = 1 := by simp [pullStep]
  rw [h0, forAllLoop_fst_foldl]
  exact foldl_pullStep_noPull u _ _ (NoPull.flatMap _ _ fun sol _ => traceSel_noPull w u sol sel [] hsel)

/-- … so a `for_all` query that has not consumed the whole universal domain has no result: pulling stops early only
because no candidate is left -/
theorem C10Q_forall_partial_pull_no_rows (w : World) (sel : List Term) (u : VarId) (c : Expr)
    (hsel : ∀ t ∈ sel, u ∉ t.vars) (h : pulled u (traceForAllRoot w sel u c) < (w.dom u).length) :
    rowsOf (traceForAllRoot w sel u c) = [] := by
  cases hd : w.dom u with
  | nil => rw [hd] at h; simp at h
  | cons v1 rest =>
    rw [C10Q_forall_pulled_exact w sel u c v1 rest hd hsel, hd, List.length_cons] at h
    have hstop := forAllLoop_early_stop w u c (enumFrom 1 rest)
      ((childTrue w c [(.var u, v1)]).map (restrict · (c.nodes.filter (· != .var u))))
      (by rw [enumFrom_length]; omega)
    unfold traceForAllRoot
    simp only [hd, enumFrom, Nat.zero_add]
    rw [hstop]
    simp [rowsOf_traceE_silent, rowsOf_eq_nil_of_noRow _ (forAllLoop_fst_noRow w u c _ _)]

/-! ## 4. `exists`: the trace is the condition's stream with rows spliced in -/

/-- selected variables that are bound in a row's bindings cost nothing: their selection only hands out rows -/
theorem C10Q_sel_bound_vars (w : World) (env : Env) (sel : List Term) (acc : List (List Val))
    (h : ∀ t ∈ sel, ∃ v, t = .var v ∧ Bnd v env) : ∀ e ∈ traceSel w env sel acc, e.isRow = true :=
  traceSel_bound_vars w env sel acc h

/-- **C10Q_existsWalk_nonrow.** `existsWalk` never reorders, drops or invents non-row events (pulls, reads,
exceptions), provided there is a cell for every marker, every cell binds the quantified variable and the selection
of a cell hands out rows only -/
theorem C10Q_existsWalk_nonrow (w : World) (sel : List Term) (u : VarId) (evs : List Ev) (envs : List Env)
    (seen : List Val) (hlen : (rowsOf evs).length ≤ envs.length) (hb : ∀ env ∈ envs, Bnd u env)
    (hsel : ∀ env ∈ envs, ∀ e ∈ traceSel w env sel [], e.isRow = true) :
    nonRow (existsWalk w sel u evs envs seen) = nonRow evs :=
  existsWalk_nonRow w sel u evs envs seen hlen hb hsel

/-- **C10Q_exists_nonrow.** Quantifier-free `c` on which the list model's `exists` succeeds; every selected term is a
variable bound in every true result of `c`. Then the non-row events of the `exists` trace are exactly the non-row
events of the condition's own stream, in order. -/
theorem C10Q_exists_nonrow (w : World) (sel : List Term) (u : VarId) (c : Expr) (hq : c.QF = true)
    (res : List (Env × Bool)) (h : eval w (.exists_ u c) [] = .ok res)
    (hsel : ∀ env ∈ childTrue w c [], ∀ t ∈ sel, ∃ v, t = .var v ∧ Bnd v env) :
    nonRow (traceExistsRoot w sel u c) = nonRow (childTrace w c []) := by
  simp only [eval, bind_eq_ok] at h
  obtain ⟨rs, hrs, hex⟩ := h
  unfold traceExistsRoot
  refine existsWalk_nonRow w sel u _ _ _ ?_ ?_ ?_
  · rw [← rowsOf_vis, childTrace_vis w c hq [] rs hrs, childTrue_ok w c [] rs hrs]
    generalize (rs.filter (·.2)).map (·.1) = l
    induction l with
    | nil => exact Nat.le_refl _
    | cons a l ih => simpa using ih
  · intro env henv
    rw [childTrue_ok w c [] rs hrs] at henv
    simp only [List.mem_map, List.mem_filter] at henv
    obtain ⟨p, ⟨hp, _⟩, rfl⟩ := henv
    exact existsFilter_ok_bnd w u rs [] res hex p hp
  · intro env henv
    exact traceSel_bound_vars w env sel [] (hsel env henv)

/-- a syntactic sufficient condition for the selection hypothesis: every selected term is the quantified variable or
the variable the condition enumerates first -/
theorem C10Q_exists_nonrow' (w : World) (sel : List Term) (u : VarId) (c : Expr) (hq : c.QF = true)
    (res : List (Env × Bool)) (h : eval w (.exists_ u c) [] = .ok res)
    (hsel : ∀ t ∈ sel, t = .var u ∨ ∃ v, t = .var v ∧ firstVar c = some v) :
    nonRow (traceExistsRoot w sel u c) = nonRow (childTrace w c []) := by
  refine C10Q_exists_nonrow w sel u c hq res h ?_
  have h' := h
  simp only [eval, bind_eq_ok] at h'
  obtain ⟨rs, hrs, hex⟩ := h'
  intro env henv t ht
  rw [childTrue_ok w c [] rs hrs] at henv
  simp only [List.mem_map, List.mem_filter] at henv
  obtain ⟨p, ⟨hp, _⟩, rfl⟩ := henv
  rcases hsel t ht with rfl | ⟨v, rfl, hv⟩
  · exact ⟨u, rfl, existsFilter_ok_bnd w u rs [] res hex p hp⟩
  · exact ⟨v, rfl, eval_bnd w v c hq [] rs hrs (Or.inr ⟨rfl, hv⟩) p hp⟩

/-- **C10Q_exists_streaming.** Under the hypotheses of `C10Q_exists_nonrow`: the consumer that stops after its `k`-th
result has performed a PREFIX of the condition's stream (nothing beyond it has been pulled or read); in particular it
has consumed at most as much of every domain as the whole condition does, and the whole `exists` consumes exactly as
much as the condition. -/
theorem C10Q_exists_streaming (w : World) (sel : List Term) (u : VarId) (c : Expr) (hq : c.QF = true)
    (res : List (Env × Bool)) (h : eval w (.exists_ u c) [] = .ok res)
    (hsel : ∀ env ∈ childTrue w c [], ∀ t ∈ sel, ∃ v, t = .var v ∧ Bnd v env) (k : Nat) :
    nonRow (uptoRow k (traceExistsRoot w sel u c)) <+: nonRow (childTrace w c []) ∧
    (∀ v, pulled v (uptoRow k (traceExistsRoot w sel u c)) ≤ pulled v (childTrace w c [])) ∧
    (∀ v, pulled v (traceExistsRoot w sel u c) = pulled v (childTrace w c [])) := by
  have hn := C10Q_exists_nonrow w sel u c hq res h hsel
  have hp : nonRow (uptoRow k (traceExistsRoot w sel u c)) <+: nonRow (childTrace w c []) := by
    rw [← hn]; exact nonRow_prefix (uptoRow_prefix k _)
  refine ⟨hp, ?_, ?_⟩
  · intro v
    rw [← pulled_nonRow v (uptoRow k _), ← pulled_nonRow v (childTrace w c [])]
    exact pulled_mono_prefix v hp
  · intro v
    rw [← pulled_nonRow v (traceExistsRoot w sel u c), hn, pulled_nonRow]

/-- **C10Q_exists_streaming_var.** ANY selection; `v` a variable that no selected term mentions (e.g. a variable
occurring only in the condition). The pulls of `v` in the `exists` trace are exactly the pulls of `v` in the
condition's stream, in order; the consumer stopping after `k` results has performed a prefix of them; so it has
consumed at most what the whole condition consumes, and exhausting the query consumes exactly that. -/
theorem C10Q_exists_streaming_var (w : World) (sel : List Term) (u : VarId) (c : Expr) (hq : c.QF = true)
    (res : List (Env × Bool)) (h : eval w (.exists_ u c) [] = .ok res)
    (v : VarId) (hv : ∀ t ∈ sel, v ∉ t.vars) (k : Nat) :
    (traceExistsRoot w sel u c).filter (isPullOf v) = (childTrace w c []).filter (isPullOf v) ∧
    (uptoRow k (traceExistsRoot w sel u c)).filter (isPullOf v) <+: (childTrace w c []).filter (isPullOf v) ∧
    pulled v (uptoRow k (traceExistsRoot w sel u c)) ≤ pulled v (childTrace w c []) ∧
    pulled v (traceExistsRoot w sel u c) = pulled v (childTrace w c []) := by
  have hn : (traceExistsRoot w sel u c).filter (isPullOf v) = (childTrace w c []).filter (isPullOf v) := by
    simp only [eval, bind_eq_ok] at h
    obtain ⟨rs, hrs, hex⟩ := h
    unfold traceExistsRoot
    refine existsWalk_filter (isPullOf v) (fun _ => rfl) w sel u _ _ _ ?_ ?_ ?_
    · rw [← rowsOf_vis, childTrace_vis w c hq [] rs hrs, childTrue_ok w c [] rs hrs]
      generalize (rs.filter (·.2)).map (·.1) = l
      induction l with
      | nil => exact Nat.le_refl _
      | cons a l ih => simpa using ih
    · intro env henv
      rw [childTrue_ok w c [] rs hrs] at henv
      simp only [List.mem_map, List.mem_filter] at henv
      obtain ⟨p, ⟨hp, _⟩, rfl⟩ := henv
      exact existsFilter_ok_bnd w u rs [] res hex p hp
    · intro env _
      exact isPullOf_false_of_noPull v _ (traceSel_noPull w v env sel [] hv)
  have hp : (uptoRow k (traceExistsRoot w sel u c)).filter (isPullOf v) <+:
      (childTrace w c []).filter (isPullOf v) := by
    rw [← hn]; exact filter_prefix _ (uptoRow_prefix k _)
  refine ⟨hn, hp, ?_, ?_⟩
  · rw [← pulled_filter_isPullOf v (uptoRow k _), ← pulled_filter_isPullOf v (childTrace w c [])]
    exact pulled_mono_prefix v hp
  · rw [← pulled_filter_isPullOf v (traceExistsRoot w sel u c), hn, pulled_filter_isPullOf]

/-! ## 5. pulls stay inside the domains -/

theorem C10Q_pull_in_range (w : World) (q : Query) (v : VarId) (i : Nat) (h : Ev.pull v i ∈ traceQueryQ w q) :
    i < (w.dom v).length := by
  have : AllPullOk w (traceQueryQ w q) := by
    unfold traceQueryQ
    split
    · exact traceExistsRoot_pullOk w _ _ _
    · exact traceForAllRoot_pullOk w _ _ _
    · exact traceQuery_pullOk w q
  exact this _ h

/-- **C10Q_pulled_le_domain.** No more elements are consumed than the domain has, after any number of results. -/
theorem C10Q_pulled_le_domain (w : World) (q : Query) (v : VarId) (k : Nat) :
    pulled v (uptoRow k (traceQueryQ w q)) ≤ pulled v (traceQueryQ w q) ∧
    pulled v (traceQueryQ w q) ≤ (w.dom v).length :=
  ⟨pulled_mono_prefix v (uptoRow_prefix k _), pulled_le_of_forall v _ _ fun _ hi => C10Q_pull_in_range w q v _ hi⟩

/-! ## 6. non-vacuity (tests) -/

section Tests

/-- `x.a == 1` over the three objects of `exWorld` (`a = 1, 2, 1`) -/
def exqBody : Expr := .cmp .eq (.attr (.var 0) "a") (.lit 10 (.int 1))

/-- TEST (`exists` streams): `an(entity(x), exists(x, x.a == 1))`. The first row is handed out after ONE of the three
objects has been pulled (strictly less than at the end), the second after all three; the hypotheses of
`C10Q_exists_rows` / `C10Q_exists_streaming` hold and the rows are the list model's. -/
example :
    exqBody.QF = true ∧
    (evalQuery exWorld ⟨[.var 0], some (.exists_ 0 exqBody)⟩).toOption = some [[.obj 0], [.obj 2]] ∧
    rowsOf (traceExistsRoot exWorld [.var 0] 0 exqBody) = [[.obj 0], [.obj 2]] ∧
    hasErr (traceExistsRoot exWorld [.var 0] 0 exqBody) = false ∧
    uptoRow 1 (traceExistsRoot exWorld [.var 0] 0 exqBody) = [.pull 0 0, .read 0 "a", .row [.obj 0]] ∧
    pulled 0 (uptoRow 1 (traceExistsRoot exWorld [.var 0] 0 exqBody)) = 1 ∧
    pulled 0 (traceExistsRoot exWorld [.var 0] 0 exqBody) = 3 ∧
    pulled 0 (uptoRow 1 (traceExistsRoot exWorld [.var 0] 0 exqBody)) <
      pulled 0 (traceExistsRoot exWorld [.var 0] 0 exqBody) ∧
    pulled 0 (childTrace exWorld exqBody []) = 3 := by decide

/-- `y.a == x.a` (`y` = variable 1 is enumerated first, then `x` = variable 0) -/
def exqBody2 : Expr := .cmp .eq (.attr (.var 1) "a") (.attr (.var 0) "a")

/-- TEST (`exists` over a two-variable body, de-duplication): `an(entity(x), exists(x, y.a == x.a))`.
The witnesses `o0`, `o2` are found under `y = o0`, `o1` under `y = o1`; under `y = o2` the witnesses `o0`, `o2` are
met again and skipped (5 true cells, 3 rows). Consumption of `y`'s domain grows with the number of results: 1, 1, 2
and 3 at exhaustion; the non-row events are those of the condition's own stream. -/
example :
    (evalQuery exWorld ⟨[.var 0], some (.exists_ 0 exqBody2)⟩).toOption = some [[.obj 0], [.obj 2], [.obj 1]] ∧
    rowsOf (traceExistsRoot exWorld [.var 0] 0 exqBody2) = [[.obj 0], [.obj 2], [.obj 1]] ∧
    (childTrue exWorld exqBody2 []).length = 5 ∧
    pulled 1 (uptoRow 1 (traceExistsRoot exWorld [.var 0] 0 exqBody2)) = 1 ∧
    pulled 0 (uptoRow 1 (traceExistsRoot exWorld [.var 0] 0 exqBody2)) = 1 ∧
    pulled 1 (uptoRow 2 (traceExistsRoot exWorld [.var 0] 0 exqBody2)) = 1 ∧
    pulled 0 (uptoRow 2 (traceExistsRoot exWorld [.var 0] 0 exqBody2)) = 3 ∧
    pulled 1 (uptoRow 3 (traceExistsRoot exWorld [.var 0] 0 exqBody2)) = 2 ∧
    pulled 1 (traceExistsRoot exWorld [.var 0] 0 exqBody2) = 3 ∧
    nonRow (traceExistsRoot exWorld [.var 0] 0 exqBody2) = nonRow (childTrace exWorld exqBody2 []) := by decide

/-- TEST (`for_all` early exit): `an(entity(x), for_all(y, y.a == 2))`: the universal domain has 3 values, the
condition fails under the first, ONE value is pulled. (`C10Q_forall_early_exit`'s hypotheses hold.) -/
example :
    let c : Expr := .cmp .eq (.attr (.var 1) "a") (.lit 10 (.int 2))
    (exWorld.dom 1).length = 3 ∧ childTrue exWorld c [(.var 1, .obj 0)] = [] ∧
    pulled 1 (traceForAllRoot exWorld [.var 0] 1 c) = 1 ∧
    rowsOf (traceForAllRoot exWorld [.var 0] 1 c) = [] ∧
    (evalQuery exWorld ⟨[.var 0], some (.forAll 1 c)⟩).toOption = some [] := by decide

/-- TEST (`for_all` stops when the candidates die out): `an(entity(x), for_all(y, x.a == y.a))`: `x ∈ {o0, o2}`
survive `y = o0`, none survives `y = o1`, `o2` is never pulled (2 of 3). -/
example :
    let c : Expr := .cmp .eq (.attr (.var 0) "a") (.attr (.var 1) "a")
    (childTrue exWorld c [(.var 1, .obj 0)]).length = 2 ∧
    pulled 1 (traceForAllRoot exWorld [.var 0] 1 c) = 2 ∧
    rowsOf (traceForAllRoot exWorld [.var 0] 1 c) = [] ∧
    (evalQuery exWorld ⟨[.var 0], some (.forAll 1 c)⟩).toOption = some [] := by decide

/-- TEST (`for_all` with results: the hypotheses of `C10Q_forall_rows` are satisfiable with a non-empty result):
`an(entity(x), for_all(y, x.a <= y.a))` yields the two objects with the least `a`, after the whole universal domain
has been pulled and before the first row is handed out. -/
example :
    let c : Expr := .cmp .le (.attr (.var 0) "a") (.attr (.var 1) "a")
    c.QF = true ∧
    (evalQuery exWorld ⟨[.var 0], some (.forAll 1 c)⟩).toOption = some [[.obj 0], [.obj 2]] ∧
    rowsOf (traceForAllRoot exWorld [.var 0] 1 c) = [[.obj 0], [.obj 2]] ∧
    hasErr (traceForAllRoot exWorld [.var 0] 1 c) = false ∧
    pulled 1 (uptoRow 1 (traceForAllRoot exWorld [.var 0] 1 c)) = 3 := by decide

/-- TEST (why `C10Q_exists_rows` is conditional): a FALSE cell that does not bind the quantified variable makes the
list model raise `KeyError`, the streaming walk never looks at it. `exists(y, x.a == 2 and y.a == 1)`: under
`x = o0` the conjunction is false before `y` is bound. -/
example :
    let c : Expr := .and (.cmp .eq (.attr (.var 0) "a") (.lit 10 (.int 2)))
                         (.cmp .eq (.attr (.var 1) "a") (.lit 11 (.int 1)))
    errOf (evalQuery exWorld ⟨[.var 1], some (.exists_ 1 c)⟩) = some .keyError ∧
    rowsOf (traceExistsRoot exWorld [.var 1] 1 c) = [[.obj 0], [.obj 2]] ∧
    hasErr (traceExistsRoot exWorld [.var 1] 1 c) = false := by decide

end Tests

end KrroodVerif.Eql
