import KrroodVerif.Model.Rule
/-!
# C08 — Rule trees follow except-if / else-if / also-if semantics

Property theorems (and the lemmas they need). Model: `Model/Rule.lean`.

* `C08_eval` — evaluation: on every well-formed selector tree `query.evaluate()` of the code as it is returns exactly
  the rows of the ripple-down-rules interpreter `fire` (any depth/width, any payload, any domain); the keying before
  fix f11669e (`Dedup.byBinding`) is refuted by `C08_cex_next_same_binding`.
* `C08_eval_partial` — any keying of `concluded_before` (in particular the one before the fix) on rule trees without
  `next_rule` over pairwise distinct domain elements: nothing is ever suppressed (`evalT_fresh`).
* `C08_build_partial` — construction: the surgery as it is (fixes 5ccefb5, 6d59379) leaves the well-formed
  tree for every unambiguous program with ≤ 4 branches (finite table, kernel evaluation; payload-independent by
  construction). SUBSUMED by the unbounded `C08_build` (`Props/C08Build.lean`: every unambiguous program, by
  induction over the program with a store/tree representation invariant); kept as an independent kernel-evaluated
  cross-check of the layout functions.
* `C08_today_end_to_end` — builder + evaluator = `fire` on every unambiguous program with ≤ 4 branches, every payload,
  every domain. Subsumed by `C08_end_to_end` (`Props/C08Build.lean`).
* `C08_cex_third_alternative`, `C08_cex_nested_refinement`, `C08_cex_next_same_binding` — the three repaired findings:
  what `Quirks.legacy` (the code before the fixes) did on their witnesses and what `Quirks.today` does.
* `C08_two_variables_conservative`, `C08_spec_conservative` — the two-variable evaluator `evalT2` / specification
  `spec2` (a branch may introduce a second variable `y`; `concluded_before` keyed by the projection of the binding
  onto the conclusions' variables, with `SeenSet`'s coverage test) coincide with `evalT` / `fire` on every payload
  that never mentions `y`: the theorems here speak about the general model on that fragment. Programs that do
  mention `y` are covered by the correspondence only.
* `C08_authoring` — multi-step authoring, unbounded: closing the `with rule:` block and opening `with rule:` again on
  the same rule, anywhere between the top-level statements, leaves the very same store behind (the conditions root
  is cached). `C08_build_partial_authored`, `C08_today_end_to_end_authored` — the
  build theorems for rules written in several blocks with the base `Add` anywhere between the branches (≤ 3
  branches, finite table); subsumed by `C08_build_authored` / `C08_build_authored_at` (`Props/C08Build.lean`).
-/
namespace KrroodVerif.Rdr

/-! ### stateless reading of `evalT` with de-duplication off -/

def evalP (pay : Payload) (dom : List Nat) : Sel → Option Nat → List Out
  | .leaf _ blk concl, src => leafOuts pay dom blk concl src
  | .node .exceptIf _ l r, src =>
    (evalP pay dom l src).flatMap fun lv =>
      if lv.isF then [⟨lv.x, true, []⟩]
      else
        let trues := (evalP pay dom r (some lv.x)).filter fun o => !o.isF
        if trues.isEmpty then [⟨lv.x, false, lv.concl⟩]
        else trues.flatMap fun rv => [⟨rv.x, false, rv.concl⟩]
  | .node .alt _ l r, src =>
    (evalP pay dom l src).flatMap fun lv =>
      if lv.isF then
        (evalP pay dom r (some lv.x)).flatMap fun rv =>
          if rv.isF then [⟨rv.x, true, []⟩] else [⟨rv.x, false, rv.concl⟩]
      else [⟨lv.x, false, lv.concl⟩]
  | .node .next _ l r, src =>
    ((evalP pay dom l src).flatMap fun lv =>
      if lv.isF then (evalP pay dom r (some lv.x)).flatMap fun rv => [⟨rv.x, rv.isF, rv.concl⟩]
      else [⟨lv.x, false, lv.concl⟩])
    ++ (evalP pay dom r src).flatMap fun rv => [⟨rv.x, rv.isF, rv.concl⟩]

theorem update_off (id x : Nat) (f : Bool) (c : List Nat) (s : Seen) : update .off id x f c s = (c, s) := by
  unfold update
  cases c <;> simp

theorem mapSeen_pure {α} (g : α → List Out) (l : List α) (s : Seen) :
    mapSeen (fun a s => (g a, s)) l s = (l.flatMap g, s) := by
  induction l generalizing s with
  | nil => simp [mapSeen]
  | cons a as ih => simp [mapSeen, ih]

theorem mapSeen_pure' {α} (f : α → Seen → List Out × Seen) (g : α → List Out)
    (h : ∀ a s, f a s = (g a, s)) (l : List α) (s : Seen) :
    mapSeen f l s = (l.flatMap g, s) := by
  have : f = fun a s => (g a, s) := by funext a s; exact h a s
  rw [this]; exact mapSeen_pure g l s

/-- a keying under which no selector below the outermost one ever suppresses anything -/
def Dedup.passes (d : Dedup) : Prop := ∀ id x f c s, update d id x f c s = (c, s)

theorem passes_off : Dedup.off.passes := update_off

theorem passes_atRoot : Dedup.atRoot.passes := by
  intro id x f c s
  unfold update
  cases c <;> simp

theorem evalT_pure (pay : Payload) (d : Dedup) (hd : d.passes) (dom : List Nat) (t : Sel) :
    ∀ src s, evalT pay d dom t src s = (evalP pay dom t src, s) := by
  have update_off : ∀ id x f c s, update d id x f c s = (c, s) := hd
  induction t with
  | leaf id blk concl => intro src s; simp [evalT, evalP]
  | node k id l r ihl ihr =>
    intro src s
    cases k <;> simp only [evalT, evalP, ihl, ihr, update_off, mapSeen_pure]
    · apply mapSeen_pure'
      intro a s
      split
      · rfl
      · split <;> rfl
    · apply mapSeen_pure'
      intro a s
      split
      · rw [mapSeen_pure']
        intro b s; split <;> rfl
      · rfl
    · rw [mapSeen_pure' _ (fun lv =>
          if lv.isF = true then
            List.flatMap (fun rv => [{ x := rv.x, isF := rv.isF, concl := rv.concl }]) (evalP pay dom r (some lv.x))
          else [{ x := lv.x, isF := false, concl := lv.concl }])]
      intro a s; split <;> rfl

theorem evalT_off (pay : Payload) (dom : List Nat) (t : Sel) :
    ∀ src s, evalT pay .off dom t src s = (evalP pay dom t src, s) :=
  evalT_pure pay .off passes_off dom t

/-! the outermost selector's de-duplication removes repetitions only -/

theorem mem_dedupFirst_aux {α} [BEq α] [LawfulBEq α] (l : List α) : ∀ (acc : List α) (a : α),
    a ∈ l.foldl (fun acc a => if acc.contains a then acc else acc ++ [a]) acc ↔ a ∈ acc ∨ a ∈ l := by
  induction l with
  | nil => intro acc a; simp
  | cons b bs ih =>
    intro acc a
    simp only [List.foldl_cons, ih, List.mem_cons]
    by_cases hb : acc.contains b = true
    · simp only [hb, ↓reduceIte]
      have : b ∈ acc := by simpa using hb
      constructor
      · rintro (h | h)
        · exact Or.inl h
        · exact Or.inr (Or.inr h)
      · rintro (h | rfl | h)
        · exact Or.inl h
        · exact Or.inl this
        · exact Or.inr h
    · simp only [hb, Bool.false_eq_true, ↓reduceIte, List.mem_append, List.mem_singleton]
      constructor
      · rintro ((h | rfl) | h)
        · exact Or.inl h
        · exact Or.inr (Or.inl rfl)
        · exact Or.inr (Or.inr h)
      · rintro (h | rfl | h)
        · exact Or.inl (Or.inl h)
        · exact Or.inl (Or.inr rfl)
        · exact Or.inr h

theorem mem_rootDedup {α} [BEq α] [LawfulBEq α] (d : Dedup) (t : Sel) (rows : List α) (a : α) :
    a ∈ rootDedup d t rows ↔ a ∈ rows := by
  unfold rootDedup
  split
  · unfold dedupFirst
    rw [mem_dedupFirst_aux]
    simp
  · rfl

theorem rootDedup_off {α} [BEq α] (t : Sel) (rows : List α) : rootDedup .off t rows = rows := by
  cases t <;> rfl

theorem mem_rowsOf_congr (A B : List (List Nat × Nat)) (h : ∀ r, r ∈ A ↔ r ∈ B) (c x : Nat) :
    (c, x) ∈ rowsOf A ↔ (c, x) ∈ rowsOf B := by
  simp only [rowsOf, List.mem_flatMap]
  constructor
  · rintro ⟨r, hr, hc⟩; exact ⟨r, (h r).mp hr, hc⟩
  · rintro ⟨r, hr, hc⟩; exact ⟨r, (h r).mpr hr, hc⟩

/-- under a keying that never suppresses below the outermost selector, `query.evaluate()` returns the rows it
returns without any de-duplication -/
theorem mem_evalTop_passes (pay : Payload) (d : Dedup) (hd : d.passes) (dom : List Nat) (t : Sel) (c x : Nat) :
    (c, x) ∈ evalTop pay d dom t ↔ (c, x) ∈ evalTop pay .off dom t := by
  simp only [evalTop, evalT_pure pay d hd, evalT_off]
  exact mem_rowsOf_congr _ _ (fun r => by rw [mem_rootDedup, mem_rootDedup]) c x

theorem flatMap_congr' {α β} {l : List α} {f g : α → List β} (h : ∀ a ∈ l, f a = g a) :
    l.flatMap f = l.flatMap g := by
  induction l with
  | nil => rfl
  | cons a as ih =>
    simp only [List.flatMap_cons]
    rw [h a (by simp), ih (fun b hb => h b (by simp [hb]))]

section bound
variable (pay : Payload) (dom : List Nat)

/-- with `x` bound every result is about `x` -/
theorem evalP_x (t : Sel) : ∀ x, ∀ o ∈ evalP pay dom t (some x), o.x = x := by
  induction t with
  | leaf id blk concl => intro x o h; simp [evalP, leafOuts] at h; simp [h]
  | node k id l r ihl ihr =>
    intro x o h
    cases k <;> simp only [evalP, List.mem_flatMap, List.mem_append] at h
    · obtain ⟨lv, hlv, h⟩ := h
      have hx := ihl x lv hlv
      split at h
      · simp at h; simp [h, hx]
      · split at h
        · simp at h; simp [h, hx]
        · simp only [List.mem_flatMap, List.mem_filter] at h
          obtain ⟨rv, ⟨hrv, _⟩, h⟩ := h
          have := ihr lv.x rv hrv
          simp at h; simp [h, this, hx]
    · obtain ⟨lv, hlv, h⟩ := h
      have hx := ihl x lv hlv
      split at h
      · simp only [List.mem_flatMap] at h
        obtain ⟨rv, hrv, h⟩ := h
        have := ihr lv.x rv hrv
        split at h <;> (simp at h; simp [h, this, hx])
      · simp at h; simp [h, hx]
    · rcases h with h | h
      · obtain ⟨lv, hlv, h⟩ := h
        have hx := ihl x lv hlv
        split at h
        · simp only [List.mem_flatMap] at h
          obtain ⟨rv, hrv, h⟩ := h
          have := ihr lv.x rv hrv
          simp at h; simp [h, this, hx]
        · simp at h; simp [h, hx]
      · obtain ⟨rv, hrv, h⟩ := h
        have := ihr x rv hrv
        simp at h; simp [h, this]


/-- bound-`x` reading of the three selectors (every `lv.x`, `rv.x` is `x`) -/
theorem evalP_exceptIf_bound (id : Nat) (l r : Sel) (x : Nat) :
    evalP pay dom (.node .exceptIf id l r) (some x) =
      (evalP pay dom l (some x)).flatMap fun lv =>
        if lv.isF then [⟨x, true, []⟩]
        else if ((evalP pay dom r (some x)).filter fun o => !o.isF).isEmpty then [⟨x, false, lv.concl⟩]
        else ((evalP pay dom r (some x)).filter fun o => !o.isF).flatMap fun rv => [⟨x, false, rv.concl⟩] := by
  simp only [evalP]
  apply flatMap_congr'
  intro lv hlv
  have hx := evalP_x pay dom l x lv hlv
  rw [hx]
  split
  · rfl
  · split
    · rfl
    · apply flatMap_congr'
      intro rv hrv
      have := evalP_x pay dom r x rv (List.mem_filter.mp hrv).1
      rw [this]

theorem evalP_alt_bound (id : Nat) (l r : Sel) (x : Nat) :
    evalP pay dom (.node .alt id l r) (some x) =
      (evalP pay dom l (some x)).flatMap fun lv =>
        if lv.isF then
          (evalP pay dom r (some x)).flatMap fun rv =>
            if rv.isF then [⟨x, true, []⟩] else [⟨x, false, rv.concl⟩]
        else [⟨x, false, lv.concl⟩] := by
  simp only [evalP]
  apply flatMap_congr'
  intro lv hlv
  have hx := evalP_x pay dom l x lv hlv
  rw [hx]
  split
  · apply flatMap_congr'
    intro rv hrv
    have := evalP_x pay dom r x rv hrv
    rw [this]
  · rfl

theorem evalP_next_bound (id : Nat) (l r : Sel) (x : Nat) :
    evalP pay dom (.node .next id l r) (some x) =
      ((evalP pay dom l (some x)).flatMap fun lv =>
        if lv.isF then (evalP pay dom r (some x)).flatMap fun rv => [⟨x, rv.isF, rv.concl⟩]
        else [⟨x, false, lv.concl⟩])
      ++ (evalP pay dom r (some x)).flatMap fun rv => [⟨x, rv.isF, rv.concl⟩] := by
  simp only [evalP]
  congr 1
  · apply flatMap_congr'
    intro lv hlv
    have hx := evalP_x pay dom l x lv hlv
    rw [hx]
    split
    · apply flatMap_congr'
      intro rv hrv
      have := evalP_x pay dom r x rv hrv
      rw [this]
    · rfl
  · apply flatMap_congr'
    intro rv hrv
    have := evalP_x pay dom r x rv hrv
    rw [this]

/-- some result for the bound `x` is true -/
def HasTrue (t : Sel) (x : Nat) : Prop := ∃ o ∈ evalP pay dom t (some x), o.isF = false
/-- some result for the bound `x` is false -/
def HasFalse (t : Sel) (x : Nat) : Prop := ∃ o ∈ evalP pay dom t (some x), o.isF = true
/-- class `c` is among the conclusions carried by a true result for the bound `x` -/
def Cin (c : Nat) (t : Sel) (x : Nat) : Prop := ∃ o ∈ evalP pay dom t (some x), o.isF = false ∧ c ∈ o.concl

theorem evalP_nonempty (t : Sel) : ∀ x, evalP pay dom t (some x) ≠ [] := by
  induction t with
  | leaf id blk concl => intro x; simp [evalP, leafOuts]
  | node k id l r ihl ihr =>
    intro x
    obtain ⟨lv, ls, hl⟩ := List.exists_cons_of_ne_nil (ihl x)
    obtain ⟨rv, rs, hr⟩ := List.exists_cons_of_ne_nil (ihr x)
    cases k
    · rw [evalP_exceptIf_bound, hl]
      simp only [List.flatMap_cons]
      intro h
      have h1 := (List.append_eq_nil_iff.mp h).1
      split at h1
      · simp at h1
      · split at h1
        · simp at h1
        · rename_i hne
          obtain ⟨tv, ts, ht⟩ := List.exists_cons_of_ne_nil (by simpa using hne :
            List.filter (fun o => !o.isF) (evalP pay dom r (some x)) ≠ [])
          rw [ht] at h1; simp at h1
    · rw [evalP_alt_bound, hl, hr]
      simp only [List.flatMap_cons]
      intro h
      have h1 := (List.append_eq_nil_iff.mp h).1
      split at h1
      · have h2 := (List.append_eq_nil_iff.mp h1).1
        split at h2 <;> simp at h2
      · simp at h1
    · rw [evalP_next_bound, hr]
      simp


theorem hasTrue_or_hasFalse (t : Sel) (x : Nat) : HasTrue pay dom t x ∨ HasFalse pay dom t x := by
  obtain ⟨o, os, h⟩ := List.exists_cons_of_ne_nil (evalP_nonempty pay dom t x)
  cases hf : o.isF
  · left; exact ⟨o, by simp [h], hf⟩
  · right; exact ⟨o, by simp [h], hf⟩

/-! per-constructor characterisations -/

theorem leaf_sem (id blk : Nat) (cs : List Nat) (x c : Nat) :
    (HasTrue pay dom (.leaf id blk cs) x ↔ (pay blk).cond.contains x = true) ∧
    (HasFalse pay dom (.leaf id blk cs) x ↔ (pay blk).cond.contains x = false) ∧
    (Cin pay dom c (.leaf id blk cs) x ↔ (pay blk).cond.contains x = true ∧ c ∈ conclOf pay cs) := by
  simp [HasTrue, HasFalse, Cin, evalP, leafOuts]

theorem exceptIf_sem (id : Nat) (l r : Sel) (x c : Nat) :
    (HasTrue pay dom (.node .exceptIf id l r) x ↔ HasTrue pay dom l x) ∧
    (HasFalse pay dom (.node .exceptIf id l r) x ↔ HasFalse pay dom l x) ∧
    (Cin pay dom c (.node .exceptIf id l r) x ↔
      (HasTrue pay dom l x ∧ Cin pay dom c r x) ∨ (¬ HasTrue pay dom r x ∧ Cin pay dom c l x)) := by
  simp only [HasTrue, HasFalse, Cin, evalP_exceptIf_bound, List.mem_flatMap]
  refine ⟨?_, ?_, ?_⟩
  · constructor
    · rintro ⟨o, ⟨lv, hlv, ho⟩, hf⟩
      refine ⟨lv, hlv, ?_⟩
      cases hlf : lv.isF
      · rfl
      · simp [hlf] at ho; simp [ho] at hf
    · rintro ⟨lv, hlv, hlf⟩
      by_cases he : ((evalP pay dom r (some x)).filter fun o => !o.isF).isEmpty
      · exact ⟨⟨x, false, lv.concl⟩, ⟨lv, hlv, by simp [hlf, he]⟩, rfl⟩
      · obtain ⟨tv, ts, ht⟩ := List.exists_cons_of_ne_nil (by simpa using he :
            List.filter (fun o => !o.isF) (evalP pay dom r (some x)) ≠ [])
        exact ⟨⟨x, false, tv.concl⟩, ⟨lv, hlv, by simp [hlf, ht]⟩, rfl⟩
  · constructor
    · rintro ⟨o, ⟨lv, hlv, ho⟩, hf⟩
      refine ⟨lv, hlv, ?_⟩
      cases hlf : lv.isF
      · simp only [hlf, Bool.false_eq_true, ↓reduceIte] at ho
        split at ho
        · simp at ho; simp [ho] at hf
        · simp only [List.mem_flatMap] at ho
          obtain ⟨rv, _, ho⟩ := ho
          simp at ho; simp [ho] at hf
      · rfl
    · rintro ⟨lv, hlv, hlf⟩
      exact ⟨⟨x, true, []⟩, ⟨lv, hlv, by simp [hlf]⟩, rfl⟩
  · constructor
    · rintro ⟨o, ⟨lv, hlv, ho⟩, hf, hc⟩
      cases hlf : lv.isF
      · simp only [hlf, Bool.false_eq_true, ↓reduceIte] at ho
        split at ho
        · rename_i he
          right
          refine ⟨?_, lv, hlv, hlf, ?_⟩
          · rintro ⟨rv, hrv, hrf⟩
            have : rv ∈ List.filter (fun o => !o.isF) (evalP pay dom r (some x)) := by
              simp [List.mem_filter, hrv, hrf]
            simp [List.isEmpty_iff] at he
            have := he rv hrv
            simp [hrf] at this
          · simp at ho; simpa [ho] using hc
        · left
          simp only [List.mem_flatMap, List.mem_filter] at ho
          obtain ⟨rv, ⟨hrv, hrf⟩, ho⟩ := ho
          refine ⟨⟨lv, hlv, hlf⟩, rv, hrv, by simpa using hrf, ?_⟩
          simp at ho; simpa [ho] using hc
      · simp [hlf] at ho; simp [ho] at hf
    · rintro (⟨⟨lv, hlv, hlf⟩, rv, hrv, hrf, hc⟩ | ⟨hnr, lv, hlv, hlf, hc⟩)
      · have hmem : rv ∈ List.filter (fun o => !o.isF) (evalP pay dom r (some x)) := by
          simp [List.mem_filter, hrv, hrf]
        have hne : ¬ (List.filter (fun o => !o.isF) (evalP pay dom r (some x))).isEmpty = true := by
          intro he; simp [List.isEmpty_iff] at he
          have := he rv hrv
          simp [hrf] at this
        refine ⟨⟨x, false, rv.concl⟩, ⟨lv, hlv, ?_⟩, rfl, hc⟩
        simp only [hlf, Bool.false_eq_true, ↓reduceIte, hne, List.mem_flatMap]
        exact ⟨rv, hmem, by simp⟩
      · have he : (List.filter (fun o => !o.isF) (evalP pay dom r (some x))).isEmpty = true := by
          simp only [List.isEmpty_iff, List.filter_eq_nil_iff]
          intro rv hrv
          cases hrf : rv.isF
          · exact absurd ⟨rv, hrv, hrf⟩ hnr
          · simp
        exact ⟨⟨x, false, lv.concl⟩, ⟨lv, hlv, by simp [hlf, he]⟩, rfl, hc⟩


theorem alt_sem (id : Nat) (l r : Sel) (x c : Nat) :
    (HasTrue pay dom (.node .alt id l r) x ↔
      HasTrue pay dom l x ∨ (HasFalse pay dom l x ∧ HasTrue pay dom r x)) ∧
    (HasFalse pay dom (.node .alt id l r) x ↔ HasFalse pay dom l x ∧ HasFalse pay dom r x) ∧
    (Cin pay dom c (.node .alt id l r) x ↔
      Cin pay dom c l x ∨ (HasFalse pay dom l x ∧ Cin pay dom c r x)) := by
  simp only [HasTrue, HasFalse, Cin, evalP_alt_bound, List.mem_flatMap]
  refine ⟨?_, ?_, ?_⟩
  · constructor
    · rintro ⟨o, ⟨lv, hlv, ho⟩, hf⟩
      cases hlf : lv.isF
      · exact Or.inl ⟨lv, hlv, hlf⟩
      · right
        refine ⟨⟨lv, hlv, hlf⟩, ?_⟩
        simp only [hlf, ↓reduceIte, List.mem_flatMap] at ho
        obtain ⟨rv, hrv, ho⟩ := ho
        refine ⟨rv, hrv, ?_⟩
        cases hrf : rv.isF
        · rfl
        · simp [hrf] at ho; simp [ho] at hf
    · rintro (⟨lv, hlv, hlf⟩ | ⟨⟨lv, hlv, hlf⟩, rv, hrv, hrf⟩)
      · exact ⟨⟨x, false, lv.concl⟩, ⟨lv, hlv, by simp [hlf]⟩, rfl⟩
      · refine ⟨⟨x, false, rv.concl⟩, ⟨lv, hlv, ?_⟩, rfl⟩
        simp only [hlf, ↓reduceIte, List.mem_flatMap]
        exact ⟨rv, hrv, by simp [hrf]⟩
  · constructor
    · rintro ⟨o, ⟨lv, hlv, ho⟩, hf⟩
      cases hlf : lv.isF
      · simp [hlf] at ho; simp [ho] at hf
      · refine ⟨⟨lv, hlv, hlf⟩, ?_⟩
        simp only [hlf, ↓reduceIte, List.mem_flatMap] at ho
        obtain ⟨rv, hrv, ho⟩ := ho
        refine ⟨rv, hrv, ?_⟩
        cases hrf : rv.isF
        · simp [hrf] at ho; simp [ho] at hf
        · rfl
    · rintro ⟨⟨lv, hlv, hlf⟩, rv, hrv, hrf⟩
      refine ⟨⟨x, true, []⟩, ⟨lv, hlv, ?_⟩, rfl⟩
      simp only [hlf, ↓reduceIte, List.mem_flatMap]
      exact ⟨rv, hrv, by simp [hrf]⟩
  · constructor
    · rintro ⟨o, ⟨lv, hlv, ho⟩, hf, hc⟩
      cases hlf : lv.isF
      · left
        simp [hlf] at ho
        exact ⟨lv, hlv, hlf, by simpa [ho] using hc⟩
      · right
        refine ⟨⟨lv, hlv, hlf⟩, ?_⟩
        simp only [hlf, ↓reduceIte, List.mem_flatMap] at ho
        obtain ⟨rv, hrv, ho⟩ := ho
        refine ⟨rv, hrv, ?_⟩
        cases hrf : rv.isF
        · simp [hrf] at ho
          exact ⟨rfl, by simpa [ho] using hc⟩
        · simp [hrf] at ho; simp [ho] at hf
    · rintro (⟨lv, hlv, hlf, hc⟩ | ⟨⟨lv, hlv, hlf⟩, rv, hrv, hrf, hc⟩)
      · exact ⟨⟨x, false, lv.concl⟩, ⟨lv, hlv, by simp [hlf]⟩, rfl, hc⟩
      · refine ⟨⟨x, false, rv.concl⟩, ⟨lv, hlv, ?_⟩, rfl, hc⟩
        simp only [hlf, ↓reduceIte, List.mem_flatMap]
        exact ⟨rv, hrv, by simp [hrf]⟩

theorem next_sem (id : Nat) (l r : Sel) (x c : Nat) :
    (HasTrue pay dom (.node .next id l r) x ↔ HasTrue pay dom l x ∨ HasTrue pay dom r x) ∧
    (Cin pay dom c (.node .next id l r) x ↔ Cin pay dom c l x ∨ Cin pay dom c r x) := by
  simp only [HasTrue, Cin, evalP_next_bound, List.mem_append, List.mem_flatMap]
  refine ⟨?_, ?_⟩
  · constructor
    · rintro ⟨o, (⟨lv, hlv, ho⟩ | ⟨rv, hrv, ho⟩), hf⟩
      · cases hlf : lv.isF
        · exact Or.inl ⟨lv, hlv, hlf⟩
        · right
          simp only [hlf, ↓reduceIte, List.mem_flatMap] at ho
          obtain ⟨rv, hrv, ho⟩ := ho
          simp at ho
          exact ⟨rv, hrv, by simpa [ho] using hf⟩
      · right
        simp at ho
        exact ⟨rv, hrv, by simpa [ho] using hf⟩
    · rintro (⟨lv, hlv, hlf⟩ | ⟨rv, hrv, hrf⟩)
      · exact ⟨⟨x, false, lv.concl⟩, Or.inl ⟨lv, hlv, by simp [hlf]⟩, rfl⟩
      · exact ⟨⟨x, rv.isF, rv.concl⟩, Or.inr ⟨rv, hrv, by simp⟩, hrf⟩
  · constructor
    · rintro ⟨o, (⟨lv, hlv, ho⟩ | ⟨rv, hrv, ho⟩), hf, hc⟩
      · cases hlf : lv.isF
        · left
          simp [hlf] at ho
          exact ⟨lv, hlv, hlf, by simpa [ho] using hc⟩
        · right
          simp only [hlf, ↓reduceIte, List.mem_flatMap] at ho
          obtain ⟨rv, hrv, ho⟩ := ho
          simp at ho
          exact ⟨rv, hrv, by simpa [ho] using hf, by simpa [ho] using hc⟩
      · right
        simp at ho
        exact ⟨rv, hrv, by simpa [ho] using hf, by simpa [ho] using hc⟩
    · rintro (⟨lv, hlv, hlf, hc⟩ | ⟨rv, hrv, hrf, hc⟩)
      · exact ⟨⟨x, false, lv.concl⟩, Or.inl ⟨lv, hlv, by simp [hlf]⟩, rfl, hc⟩
      · exact ⟨⟨x, rv.isF, rv.concl⟩, Or.inr ⟨rv, hrv, by simp⟩, hrf, hc⟩


/-- no `Next` on the spine: such a tree gives results of one truth value for a bound `x` -/
def Sel.uniform : Sel → Bool
  | .leaf _ _ _ => true
  | .node .exceptIf _ l _ => l.uniform
  | .node .alt _ l r => l.uniform && r.uniform
  | .node .next _ _ _ => false

theorem uniform_excl (t : Sel) (x : Nat) (hu : t.uniform = true) :
    ¬ (HasTrue pay dom t x ∧ HasFalse pay dom t x) := by
  induction t with
  | leaf id blk cs =>
    rintro ⟨h1, h2⟩
    rw [(leaf_sem pay dom id blk cs x 0).1] at h1
    rw [(leaf_sem pay dom id blk cs x 0).2.1] at h2
    rw [h1] at h2; exact absurd h2 (by decide)
  | node k id l r ihl ihr =>
    cases k
    · simp only [Sel.uniform] at hu
      rw [(exceptIf_sem pay dom id l r x 0).1, (exceptIf_sem pay dom id l r x 0).2.1]
      exact ihl hu
    · simp only [Sel.uniform, Bool.and_eq_true] at hu
      rw [(alt_sem pay dom id l r x 0).1, (alt_sem pay dom id l r x 0).2.1]
      rintro ⟨h1 | ⟨_, h1⟩, h2, h3⟩
      · exact ihl hu.1 ⟨h1, h2⟩
      · exact ihr hu.2 ⟨h1, h3⟩
    · simp [Sel.uniform] at hu

theorem uniform_hasFalse (t : Sel) (x : Nat) (hu : t.uniform = true) :
    HasFalse pay dom t x ↔ ¬ HasTrue pay dom t x := by
  constructor
  · intro hf ht; exact uniform_excl pay dom t x hu ⟨ht, hf⟩
  · intro hn
    rcases hasTrue_or_hasFalse pay dom t x with h | h
    · exact absurd h hn
    · exact h

theorem hasTrue_iff_anyTrue (t : Sel) (x : Nat) : HasTrue pay dom t x ↔ anyTrue pay t x = true := by
  induction t with
  | leaf id blk cs => rw [(leaf_sem pay dom id blk cs x 0).1]; simp [anyTrue]
  | node k id l r ihl ihr =>
    cases k
    · rw [(exceptIf_sem pay dom id l r x 0).1, ihl]; simp [anyTrue]
    · rw [(alt_sem pay dom id l r x 0).1, ihl, ihr]
      simp only [anyTrue, Bool.or_eq_true]
      constructor
      · rintro (h | ⟨_, h⟩)
        · exact Or.inl h
        · exact Or.inr h
      · rintro (h | h)
        · exact Or.inl h
        · by_cases hl : anyTrue pay l x = true
          · exact Or.inl hl
          · right
            refine ⟨?_, h⟩
            rcases hasTrue_or_hasFalse pay dom l x with h' | h'
            · exact absurd (ihl.mp h') hl
            · exact h'
    · rw [(next_sem pay dom id l r x 0).1, ihl, ihr]; simp [anyTrue]

/-- unbound evaluation enumerates the domain: a result of the unbound evaluation is a result for some
bound element, and conversely -/
theorem evalP_unbound (t : Sel) : ∀ o, o ∈ evalP pay dom t none ↔ ∃ x ∈ dom, o ∈ evalP pay dom t (some x) := by
  induction t with
  | leaf id blk cs =>
    intro o
    simp only [evalP, leafOuts, List.mem_map, List.mem_cons, List.not_mem_nil, or_false, exists_eq_left]
  | node k id l r ihl ihr =>
    intro o
    cases k
    · simp only [evalP, List.mem_flatMap]
      constructor
      · rintro ⟨lv, hlv, ho⟩
        obtain ⟨x, hx, hlv⟩ := (ihl lv).mp hlv
        exact ⟨x, hx, lv, hlv, ho⟩
      · rintro ⟨x, hx, lv, hlv, ho⟩
        exact ⟨lv, (ihl lv).mpr ⟨x, hx, hlv⟩, ho⟩
    · simp only [evalP, List.mem_flatMap]
      constructor
      · rintro ⟨lv, hlv, ho⟩
        obtain ⟨x, hx, hlv⟩ := (ihl lv).mp hlv
        exact ⟨x, hx, lv, hlv, ho⟩
      · rintro ⟨x, hx, lv, hlv, ho⟩
        exact ⟨lv, (ihl lv).mpr ⟨x, hx, hlv⟩, ho⟩
    · simp only [evalP, List.mem_append, List.mem_flatMap]
      constructor
      · rintro (⟨lv, hlv, ho⟩ | ⟨rv, hrv, ho⟩)
        · obtain ⟨x, hx, hlv⟩ := (ihl lv).mp hlv
          exact ⟨x, hx, Or.inl ⟨lv, hlv, ho⟩⟩
        · obtain ⟨x, hx, hrv⟩ := (ihr rv).mp hrv
          exact ⟨x, hx, Or.inr ⟨rv, hrv, ho⟩⟩
      · rintro ⟨x, hx, (⟨lv, hlv, ho⟩ | ⟨rv, hrv, ho⟩)⟩
        · exact Or.inl ⟨lv, (ihl lv).mpr ⟨x, hx, hlv⟩, ho⟩
        · exact Or.inr ⟨rv, (ihr rv).mpr ⟨x, hx, hrv⟩, ho⟩

/-- rows of `query.evaluate()` (de-duplication off) in terms of the bound-`x` semantics -/
theorem mem_evalTop_off (t : Sel) (c x : Nat) :
    (c, x) ∈ evalTop pay .off dom t ↔ x ∈ dom ∧ Cin pay dom c t x := by
  simp only [evalTop, evalT_off, rootDedup_off, rowsOf, topOuts, List.mem_flatMap, List.mem_filterMap, List.mem_map,
    Prod.mk.injEq, Cin]
  constructor
  · rintro ⟨⟨cs, y⟩, ⟨o, ho, hsome⟩, c', hc', rfl, rfl⟩
    split at hsome
    · simp at hsome
    · rename_i hcond
      simp only [Option.some.injEq, Prod.mk.injEq] at hsome
      obtain ⟨rfl, rfl⟩ := hsome
      obtain ⟨x', hx', ho'⟩ := (evalP_unbound pay dom t o).mp ho
      have := evalP_x pay dom t x' o ho'
      subst this
      simp only [Bool.or_eq_true, not_or, Bool.not_eq_true] at hcond
      exact ⟨hx', o, ho', hcond.1, hc'⟩
  · rintro ⟨hx, o, ho, hf, hc⟩
    have hox := evalP_x pay dom t x o ho
    refine ⟨(o.concl, o.x), ⟨o, (evalP_unbound pay dom t o).mpr ⟨x, hx, ho⟩, ?_⟩, c, hc, rfl, hox⟩
    have : o.concl.isEmpty = false := by
      cases hcl : o.concl with
      | nil => simp [hcl] at hc
      | cons a b => rfl
    simp [hf, this]


/-! ### folds of Alternative / Next over a list of branch bodies -/

variable (x : Nat)

/-- class `c` is concluded by the first body of the list that has a true result -/
def firstC (c : Nat) : List Sel → Prop
  | [] => False
  | b :: bs => Cin pay dom c b x ∨ (¬ HasTrue pay dom b x ∧ firstC c bs)

def anyT : List Sel → Prop
  | [] => False
  | b :: bs => HasTrue pay dom b x ∨ anyT bs

theorem anyT_append (xs ys : List Sel) : anyT pay dom x (xs ++ ys) ↔ anyT pay dom x xs ∨ anyT pay dom x ys := by
  induction xs with
  | nil => simp [anyT]
  | cons a as ih => simp [anyT, ih, or_assoc]

theorem firstC_append (c : Nat) (xs ys : List Sel) :
    firstC pay dom x c (xs ++ ys) ↔ firstC pay dom x c xs ∨ (¬ anyT pay dom x xs ∧ firstC pay dom x c ys) := by
  induction xs with
  | nil => simp [firstC, anyT]
  | cons a as ih =>
    simp only [List.cons_append, firstC, anyT, ih, not_or]
    constructor
    · rintro (h | ⟨h1, h2 | ⟨h2, h3⟩⟩)
      · exact Or.inl (Or.inl h)
      · exact Or.inl (Or.inr ⟨h1, h2⟩)
      · exact Or.inr ⟨⟨h1, h2⟩, h3⟩
    · rintro ((h | ⟨h1, h2⟩) | ⟨⟨h1, h2⟩, h3⟩)
      · exact Or.inl h
      · exact Or.inr ⟨h1, Or.inl h2⟩
      · exact Or.inr ⟨h1, Or.inr ⟨h2, h3⟩⟩

theorem foldl_alt_sem (bs : List Sel) : ∀ (t0 : Sel), t0.uniform = true → (∀ b ∈ bs, b.uniform = true) →
    (bs.foldl (fun t b => Sel.node .alt 0 t b) t0).uniform = true ∧
    (HasTrue pay dom (bs.foldl (fun t b => Sel.node .alt 0 t b) t0) x ↔
      HasTrue pay dom t0 x ∨ anyT pay dom x bs) ∧
    (∀ c, Cin pay dom c (bs.foldl (fun t b => Sel.node .alt 0 t b) t0) x ↔
      Cin pay dom c t0 x ∨ (¬ HasTrue pay dom t0 x ∧ firstC pay dom x c bs)) := by
  induction bs with
  | nil => intro t0 h0 _; simp [anyT, firstC, h0]
  | cons b bs ih =>
    intro t0 h0 hbs
    have hb : b.uniform = true := hbs b (by simp)
    have hu' : (Sel.node .alt 0 t0 b).uniform = true := by simp [Sel.uniform, h0, hb]
    obtain ⟨i1, i2, i3⟩ := ih (Sel.node .alt 0 t0 b) hu' (fun b' hb' => hbs b' (by simp [hb']))
    have hF := uniform_hasFalse pay dom t0 x h0
    have aT := (alt_sem pay dom 0 t0 b x 0).1
    refine ⟨i1, ?_, ?_⟩
    · simp only [List.foldl_cons]
      rw [i2, aT, hF]
      simp only [anyT]
      by_cases h : HasTrue pay dom t0 x <;> simp [h]
    · intro c
      simp only [List.foldl_cons]
      rw [i3, aT, (alt_sem pay dom 0 t0 b x c).2.2, hF]
      simp only [firstC]
      by_cases h : HasTrue pay dom t0 x <;> by_cases h' : HasTrue pay dom b x <;> simp [h, h', or_assoc]

theorem foldl_next_sem (bs : List Sel) : ∀ (t0 : Sel),
    (HasTrue pay dom (bs.foldl (fun t b => Sel.node .next 0 t b) t0) x ↔
      HasTrue pay dom t0 x ∨ ∃ b ∈ bs, HasTrue pay dom b x) ∧
    (∀ c, Cin pay dom c (bs.foldl (fun t b => Sel.node .next 0 t b) t0) x ↔
      Cin pay dom c t0 x ∨ ∃ b ∈ bs, Cin pay dom c b x) := by
  induction bs with
  | nil => intro t0; simp
  | cons b bs ih =>
    intro t0
    obtain ⟨i1, i2⟩ := ih (Sel.node .next 0 t0 b)
    refine ⟨?_, ?_⟩
    · simp only [List.foldl_cons]
      rw [i1, (next_sem pay dom 0 t0 b x 0).1]
      simp [or_assoc]
    · intro c
      simp only [List.foldl_cons]
      rw [i2, (next_sem pay dom 0 t0 b x c).2]
      simp [or_assoc]


/-! ### the well-formed tree of a rule means what `fire` says (mutual induction over `Rule` / `Rules`) -/

def Rule.blk : Rule → Nat | .mk b _ _ _ => b
def Rule.refs : Rule → Rules | .mk _ r _ _ => r
def Rule.alts : Rule → Rules | .mk _ _ a _ => a
def Rule.nexts : Rule → Rules | .mk _ _ _ n => n

theorem combine_isSome (ch : Option (List Nat)) (ns : List (List Nat)) :
    (combine ch ns).isSome = true ↔ ch.isSome = true ∨ ns ≠ [] := by
  cases ch <;> cases ns <;> simp [combine]

theorem mem_combine (c : Nat) (ch : Option (List Nat)) (ns : List (List Nat)) :
    c ∈ (combine ch ns).getD [] ↔ c ∈ ch.getD [] ∨ c ∈ ns.flatten := by
  cases ch <;> cases ns <;> simp [combine]

theorem Rule.compile_eq (r : Rule) :
    r.compile = r.nextItems.foldl (fun t b => Sel.node .next 0 t b)
      (r.chainItems.foldl (fun t b => Sel.node .alt 0 t b) r.body) := by
  cases r; simp [Rule.compile, Rule.nextItems, Rule.chainItems, Rule.body]

theorem exists_append_iff_ne_nil {α β} (P : α → Prop) (as bs : List α) (us vs : List β)
    (h1 : (∃ t ∈ as, P t) ↔ us ≠ []) (h2 : (∃ t ∈ bs, P t) ↔ vs ≠ []) :
    (∃ t ∈ as ++ bs, P t) ↔ us ++ vs ≠ [] := by
  constructor
  · rintro ⟨t, ht, hT⟩
    rcases List.mem_append.mp ht with h | h
    · have := h1.mp ⟨t, h, hT⟩; simp [this]
    · have := h2.mp ⟨t, h, hT⟩; simp [this]
  · intro h
    by_cases hu : us = []
    · have : vs ≠ [] := by simpa [hu] using h
      obtain ⟨t, ht, hT⟩ := h2.mpr this
      exact ⟨t, List.mem_append.mpr (Or.inr ht), hT⟩
    · obtain ⟨t, ht, hT⟩ := h1.mpr hu
      exact ⟨t, List.mem_append.mpr (Or.inl ht), hT⟩

theorem exists_append_iff_mem_flatten {α} (P : α → Prop) (as bs : List α) (us vs : List (List Nat)) (c : Nat)
    (h1 : (∃ t ∈ as, P t) ↔ c ∈ us.flatten) (h2 : (∃ t ∈ bs, P t) ↔ c ∈ vs.flatten) :
    (∃ t ∈ as ++ bs, P t) ↔ c ∈ (us ++ vs).flatten := by
  rw [List.flatten_append, List.mem_append, ← h1, ← h2]
  constructor
  · rintro ⟨t, ht, hT⟩
    rcases List.mem_append.mp ht with h | h
    · exact Or.inl ⟨t, h, hT⟩
    · exact Or.inr ⟨t, h, hT⟩
  · rintro (⟨t, ht, hT⟩ | ⟨t, ht, hT⟩)
    · exact ⟨t, List.mem_append.mpr (Or.inl ht), hT⟩
    · exact ⟨t, List.mem_append.mpr (Or.inr ht), hT⟩

structure RuleSem (r : Rule) : Prop where
  body_unif : r.body.uniform = true
  body_true : HasTrue pay dom r.body x ↔ (pay r.blk).cond.contains x = true
  body_cin : ∀ c, Cin pay dom c r.body x ↔
    (pay r.blk).cond.contains x = true ∧ c ∈ (r.refs.firstFiring pay x).getD (pay r.blk).concl
  items_unif : ∀ b ∈ r.chainItems, b.uniform = true
  items_any : anyT pay dom x r.chainItems ↔ (r.alts.chainFirst pay x).isSome = true
  items_first : ∀ c, firstC pay dom x c r.chainItems ↔ c ∈ (r.alts.chainFirst pay x).getD []
  next_any : (∃ b ∈ r.nextItems, HasTrue pay dom b x) ↔ r.nextsOf pay x ≠ []
  next_cin : ∀ c, (∃ b ∈ r.nextItems, Cin pay dom c b x) ↔ c ∈ (r.nextsOf pay x).flatten
  comp_true : HasTrue pay dom r.compile x ↔ (r.group pay x).isSome = true
  comp_cin : ∀ c, Cin pay dom c r.compile x ↔ c ∈ (r.group pay x).getD []

structure RulesSem (rs : Rules) : Prop where
  wrap_unif : ∀ inner : Sel, inner.uniform = true → (rs.wrap inner).uniform = true
  wrap_true : ∀ inner : Sel, HasTrue pay dom (rs.wrap inner) x ↔ HasTrue pay dom inner x
  wrap_cin : ∀ (inner : Sel) (c : Nat), Cin pay dom c (rs.wrap inner) x ↔
    HasTrue pay dom inner x ∧
      (match rs.firstFiring pay x with | some cs => c ∈ cs | none => Cin pay dom c inner x)
  cil_unif : ∀ b ∈ rs.chainItemsL, b.uniform = true
  cil_any : anyT pay dom x rs.chainItemsL ↔ (rs.chainFirst pay x).isSome = true
  cil_first : ∀ c, firstC pay dom x c rs.chainItemsL ↔ c ∈ (rs.chainFirst pay x).getD []
  nia_any : (∃ b ∈ rs.nextItemsA, HasTrue pay dom b x) ↔ rs.nextsIn pay x ≠ []
  nia_cin : ∀ c, (∃ b ∈ rs.nextItemsA, Cin pay dom c b x) ↔ c ∈ (rs.nextsIn pay x).flatten
  nin_any : (∃ b ∈ rs.nextItemsN, HasTrue pay dom b x) ↔ rs.nextGroups pay x ≠ []
  nin_cin : ∀ c, (∃ b ∈ rs.nextItemsN, Cin pay dom c b x) ↔ c ∈ (rs.nextGroups pay x).flatten

mutual
theorem Rule.sem : ∀ r : Rule, RuleSem pay dom x r
  | .mk b refs alts nexts => by
    have hr := Rules.sem refs
    have ha := Rules.sem alts
    have hn := Rules.sem nexts
    have leafU : (Sel.leaf 0 b [b]).uniform = true := rfl
    have bodyU : (refs.wrap (Sel.leaf 0 b [b])).uniform = true := hr.wrap_unif _ leafU
    have bodyT : HasTrue pay dom (refs.wrap (Sel.leaf 0 b [b])) x ↔ (pay b).cond.contains x = true := by
      rw [hr.wrap_true, (leaf_sem pay dom 0 b [b] x 0).1]
    have bodyC : ∀ c, Cin pay dom c (refs.wrap (Sel.leaf 0 b [b])) x ↔
        (pay b).cond.contains x = true ∧ c ∈ (refs.firstFiring pay x).getD (pay b).concl := by
      intro c
      rw [hr.wrap_cin, (leaf_sem pay dom 0 b [b] x 0).1, (leaf_sem pay dom 0 b [b] x c).2.2]
      cases hff : refs.firstFiring pay x <;> simp [conclOf]
    have nAny : (∃ t ∈ alts.nextItemsA ++ nexts.nextItemsN, HasTrue pay dom t x) ↔
        alts.nextsIn pay x ++ nexts.nextGroups pay x ≠ [] :=
      exists_append_iff_ne_nil _ _ _ _ _ ha.nia_any hn.nin_any
    have nCin : ∀ c, (∃ t ∈ alts.nextItemsA ++ nexts.nextItemsN, Cin pay dom c t x) ↔
        c ∈ (alts.nextsIn pay x ++ nexts.nextGroups pay x).flatten :=
      fun c => exists_append_iff_mem_flatten _ _ _ _ _ c (ha.nia_cin c) (hn.nin_cin c)
    obtain ⟨_, fT, fC⟩ := foldl_alt_sem pay dom x alts.chainItemsL _ bodyU ha.cil_unif
    refine ⟨bodyU, bodyT, bodyC, ha.cil_unif, ha.cil_any, ha.cil_first, nAny, nCin, ?_, ?_⟩
    · show HasTrue pay dom (Rule.compile (.mk b refs alts nexts)) x ↔ _
      simp only [Rule.compile, Rule.group]
      rw [(foldl_next_sem pay dom x _ _).1, fT, nAny, bodyT, ha.cil_any, combine_isSome]
      by_cases hc : x ∈ (pay b).cond <;> simp [hc]
    · intro c
      show Cin pay dom c (Rule.compile (.mk b refs alts nexts)) x ↔ _
      simp only [Rule.compile, Rule.group]
      rw [(foldl_next_sem pay dom x _ _).2, fC, nCin, bodyT, bodyC, ha.cil_first, mem_combine]
      by_cases hc : x ∈ (pay b).cond <;> simp [hc]
theorem Rules.sem : ∀ rs : Rules, RulesSem pay dom x rs
  | .nil => by
    refine ⟨?_, ?_, ?_, ?_, ?_, ?_, ?_, ?_, ?_, ?_⟩ <;>
      simp [Rules.wrap, Rules.firstFiring, Rules.chainItemsL, Rules.chainFirst, Rules.nextItemsA,
        Rules.nextsIn, Rules.nextItemsN, Rules.nextGroups, anyT, firstC]
    intro inner c
    exact fun ⟨o, ho, hf, _⟩ => ⟨o, ho, hf⟩
  | .cons r rs => by
    have h1 := Rule.sem r
    have h2 := Rules.sem rs
    -- the rule `r` seen as a whole (`compile`), re-split into chain part and next part
    have cT : (HasTrue pay dom (r.chainItems.foldl (fun t b => Sel.node .alt 0 t b) r.body) x ∨
        ∃ t ∈ r.nextItems, HasTrue pay dom t x) ↔ (r.group pay x).isSome = true := by
      rw [← h1.comp_true, Rule.compile_eq, (foldl_next_sem pay dom x _ _).1]
    have cC : ∀ c, (Cin pay dom c (r.chainItems.foldl (fun t b => Sel.node .alt 0 t b) r.body) x ∨
        ∃ t ∈ r.nextItems, Cin pay dom c t x) ↔ c ∈ (r.group pay x).getD [] := by
      intro c
      rw [← h1.comp_cin, Rule.compile_eq, (foldl_next_sem pay dom x _ _).2]
    -- `r` as a member of a chain: its body, then the alternatives written in its block
    have chT : (HasTrue pay dom r.body x ∨ anyT pay dom x r.chainItems) ↔ (r.chain pay x).isSome = true := by
      rw [h1.body_true, h1.items_any]
      cases r with
      | mk b refs alts nexts =>
        simp only [Rule.blk, Rule.alts, Rule.chain]
        by_cases hc : x ∈ (pay b).cond <;> simp [hc]
    have chC : ∀ c, (Cin pay dom c r.body x ∨ (¬ HasTrue pay dom r.body x ∧ firstC pay dom x c r.chainItems)) ↔
        c ∈ (r.chain pay x).getD [] := by
      intro c
      rw [h1.body_cin, h1.body_true, h1.items_first]
      cases r with
      | mk b refs alts nexts =>
        simp only [Rule.blk, Rule.alts, Rule.refs, Rule.chain]
        by_cases hc : x ∈ (pay b).cond <;> simp [hc]
    refine ⟨?_, ?_, ?_, ?_, ?_, ?_, ?_, ?_, ?_, ?_⟩
    · intro inner hu
      simp only [Rules.wrap, Sel.uniform]
      exact h2.wrap_unif inner hu
    · intro inner
      simp only [Rules.wrap]
      rw [(exceptIf_sem pay dom 0 _ _ x 0).1, h2.wrap_true]
    · intro inner c
      simp only [Rules.wrap, Rules.firstFiring]
      rw [(exceptIf_sem pay dom 0 _ _ x c).2.2, h2.wrap_true, h2.wrap_cin, h1.comp_true, h1.comp_cin]
      cases hg : r.group pay x with
      | none => simp
      | some cs =>
        simp only [Option.getD_some, Option.isSome_some, not_true_eq_false, false_and, or_false]
    · intro t ht
      simp only [Rules.chainItemsL, List.cons_append, List.mem_cons, List.mem_append] at ht
      rcases ht with rfl | ht | ht
      · exact h1.body_unif
      · exact h1.items_unif t ht
      · exact h2.cil_unif t ht
    · simp only [Rules.chainItemsL, Rules.chainFirst]
      rw [anyT_append, h2.cil_any]
      simp only [anyT]
      rw [chT]
      cases r.chain pay x <;> simp
    · intro c
      simp only [Rules.chainItemsL, Rules.chainFirst]
      rw [firstC_append, h2.cil_first]
      simp only [firstC, anyT]
      rw [chC, chT]
      cases r.chain pay x <;> simp
    · simp only [Rules.nextItemsA, Rules.nextsIn]
      exact exists_append_iff_ne_nil _ _ _ _ _ h1.next_any h2.nia_any
    · intro c
      simp only [Rules.nextItemsA, Rules.nextsIn]
      exact exists_append_iff_mem_flatten _ _ _ _ _ c (h1.next_cin c) (h2.nia_cin c)
    · simp only [Rules.nextItemsN, Rules.nextGroups]
      refine exists_append_iff_ne_nil _ _ _ _ _ ?_ h2.nin_any
      simp only [List.mem_cons, exists_eq_or_imp]
      rw [cT]
      cases r.group pay x <;> simp
    · intro c
      simp only [Rules.nextItemsN, Rules.nextGroups]
      refine exists_append_iff_mem_flatten _ _ _ _ _ c ?_ (h2.nin_cin c)
      simp only [List.mem_cons, exists_eq_or_imp]
      rw [cC]
      cases r.group pay x <;> simp
end


end bound

/-! ### main theorem: evaluation of a well-formed tree -/

theorem evalP_shape (pay : Payload) (dom : List Nat) (t : Sel) :
    ∀ src, evalP pay dom t.shape src = evalP pay dom t src := by
  induction t with
  | leaf id blk cs => intro src; simp [Sel.shape, evalP]
  | node k id l r ihl ihr =>
    intro src
    cases k <;> simp only [Sel.shape, evalP, ihl, ihr]

theorem evalTop_off_shape (pay : Payload) (dom : List Nat) (t : Sel) :
    evalTop pay .off dom t.shape = evalTop pay .off dom t := by
  simp only [evalTop, evalT_off, rootDedup_off, evalP_shape]

theorem mem_specObs (pay : Payload) (r : Rule) (dom : List Nat) (c x : Nat) :
    (c, x) ∈ specObs pay r dom ↔ x ∈ dom ∧ c ∈ fire pay r x := by
  simp only [specObs, List.mem_flatMap, List.mem_map, Prod.mk.injEq]
  constructor
  · rintro ⟨y, hy, c', hc', rfl, rfl⟩; exact ⟨hy, hc'⟩
  · rintro ⟨hx, hc⟩; exact ⟨x, hx, c, hc, rfl, rfl⟩

/-- the evaluation theorem without any de-duplication -/
theorem C08_eval_off (pay : Payload) (dom : List Nat) (r : Rule) (t : Sel) (hwf : WellFormed t r) (c x : Nat) :
    (c, x) ∈ evalTop pay .off dom t ↔ (c, x) ∈ specObs pay r dom := by
  rw [← evalTop_off_shape, hwf.1, mem_evalTop_off, mem_specObs, (Rule.sem pay dom x r).comp_cin c]
  rfl

/-- **C08_eval.** On a well-formed selector tree — the tree `Rule.compile r` of an abstract rule `r`, every
node its own object — `query.evaluate()` of the code as it is (`Quirks.today`: the outermost selector skips a set
of conclusions it already produced for the same values of their variables, fix f11669e) returns, as a set
of (class, source element) rows, exactly what the ripple-down-rules interpreter `fire` demands: for every rule
tree of any depth and width, every payload (conditions, conclusions) and every domain. -/
theorem C08_eval (pay : Payload) (dom : List Nat) (r : Rule) (t : Sel) (hwf : WellFormed t r) (c x : Nat) :
    (c, x) ∈ evalTop pay Quirks.today.dedup dom t ↔ (c, x) ∈ specObs pay r dom := by
  rw [show Quirks.today.dedup = Dedup.atRoot from rfl, mem_evalTop_passes pay .atRoot passes_atRoot]
  exact C08_eval_off pay dom r t hwf c x


/-! ### today's `concluded_before` on trees without `Next`: nothing is ever suppressed -/

/-- no `Next` node anywhere -/
def Sel.nextFree : Sel → Bool
  | .leaf _ _ _ => true
  | .node .next _ _ _ => false
  | .node _ _ l r => l.nextFree && r.nextFree

def xsOf (dom : List Nat) : Option Nat → List Nat
  | some x => [x]
  | none => dom

/-- the single result of a next-free tree for the element `x` -/
def val (pay : Payload) : Sel → Nat → Out
  | .leaf _ blk cs, x => ⟨x, !(pay blk).cond.contains x, conclOf pay cs⟩
  | .node .exceptIf _ l r, x =>
    if (val pay l x).isF then ⟨x, true, []⟩
    else if (val pay r x).isF then ⟨x, false, (val pay l x).concl⟩ else ⟨x, false, (val pay r x).concl⟩
  | .node .alt _ l r, x =>
    if (val pay l x).isF then
      (if (val pay r x).isF then ⟨x, true, []⟩ else ⟨x, false, (val pay r x).concl⟩)
    else ⟨x, false, (val pay l x).concl⟩
  | .node .next _ l _, x => val pay l x

theorem val_x (pay : Payload) (t : Sel) (x : Nat) : (val pay t x).x = x := by
  induction t with
  | leaf => rfl
  | node k id l r ihl ihr =>
    cases k
    · simp only [val]; split
      · rfl
      · split <;> rfl
    · simp only [val]; split
      · split <;> rfl
      · rfl
    · simpa [val] using ihl

theorem flatMap_map' {α β γ} (l : List α) (f : α → β) (g : β → List γ) :
    (l.map f).flatMap g = l.flatMap (fun a => g (f a)) := by
  induction l with
  | nil => rfl
  | cons a as ih => simp [ih]

theorem evalP_nextFree (pay : Payload) (dom : List Nat) (t : Sel) (h : t.nextFree = true) :
    ∀ src, evalP pay dom t src = (xsOf dom src).map (val pay t) := by
  induction t with
  | leaf id blk cs => intro src; cases src <;> simp [evalP, leafOuts, xsOf, val]
  | node k id l r ihl ihr =>
    intro src
    cases k
    · simp only [Sel.nextFree, Bool.and_eq_true] at h
      simp only [evalP, ihl h.1, ihr h.2, flatMap_map', xsOf, val_x]
      rw [List.map_eq_flatMap]
      apply flatMap_congr'
      intro y _
      simp only [val]
      by_cases h1 : (val pay l y).isF = true
      · simp [h1]
      · by_cases h2 : (val pay r y).isF = true
        · simp [h1, h2]
        · simp [h1, h2, val_x]
    · simp only [Sel.nextFree, Bool.and_eq_true] at h
      simp only [evalP, ihl h.1, ihr h.2, flatMap_map', xsOf, val_x]
      rw [List.map_eq_flatMap]
      apply flatMap_congr'
      intro y _
      simp only [val]
      by_cases h1 : (val pay l y).isF = true
      · by_cases h2 : (val pay r y).isF = true
        · simp [h1, h2]
        · simp [h1, h2]
      · simp [h1]
    · simp [Sel.nextFree] at h


/-- no entry of `concluded_before` of the nodes `ids` mentions an element of `X` -/
def Fresh (ids X : List Nat) (s : Seen) : Prop := ∀ e ∈ s, e.1 ∈ ids → e.2.2.1 ∉ X
/-- `s'` extends `s` by entries of the nodes `ids` about elements of `X` -/
def Added (ids X : List Nat) (s s' : Seen) : Prop :=
  ∃ add, s' = add ++ s ∧ ∀ e ∈ add, e.1 ∈ ids ∧ e.2.2.1 ∈ X

theorem Added.refl (ids X : List Nat) (s : Seen) : Added ids X s s := ⟨[], rfl, by simp⟩

theorem Added.trans {ids X : List Nat} {s s1 s2 : Seen} (h1 : Added ids X s s1) (h2 : Added ids X s1 s2) :
    Added ids X s s2 := by
  obtain ⟨a1, rfl, p1⟩ := h1
  obtain ⟨a2, rfl, p2⟩ := h2
  refine ⟨a2 ++ a1, by simp, ?_⟩
  intro e he
  rcases List.mem_append.mp he with h | h
  · exact p2 e h
  · exact p1 e h

theorem Added.mono {ids ids' X X' : List Nat} {s s' : Seen} (h : Added ids X s s')
    (hi : ∀ i ∈ ids, i ∈ ids') (hx : ∀ x ∈ X, x ∈ X') : Added ids' X' s s' := by
  obtain ⟨a, rfl, p⟩ := h
  exact ⟨a, rfl, fun e he => ⟨hi _ (p e he).1, hx _ (p e he).2⟩⟩

theorem Fresh.mono {ids ids' X X' : List Nat} {s : Seen} (h : Fresh ids X s)
    (hi : ∀ i ∈ ids', i ∈ ids) (hx : ∀ x ∈ X', x ∈ X) : Fresh ids' X' s :=
  fun e he hid hxx => h e he (hi _ hid) (hx _ hxx)

/-- freshness survives additions that are about other nodes or other elements -/
theorem Fresh.after {ids ids' X X' : List Nat} {s s' : Seen} (h : Fresh ids X s) (ha : Added ids' X' s s')
    (hd : ∀ i x, i ∈ ids' → x ∈ X' → i ∈ ids → x ∉ X) : Fresh ids X s' := by
  obtain ⟨a, rfl, p⟩ := ha
  intro e he hid
  rcases List.mem_append.mp he with h' | h'
  · exact hd _ _ (p e h').1 (p e h').2 hid
  · exact h e h' hid

theorem update_fresh (d : Dedup) (id x : Nat) (isF : Bool) (c : List Nat) (s : Seen)
    (h : Fresh [id] [x] s) : ∃ s', update d id x isF c s = (c, s') ∧ Added [id] [x] s s' := by
  unfold update
  cases hc : c with
  | nil => exact ⟨s, by simp, Added.refl _ _ _⟩
  | cons a as =>
    have hnot : ∀ k : List Nat, (id, !isF, x, k) ∉ s := by
      intro k hm
      exact absurd (h _ hm (by simp)) (by simp)
    cases d with
    | off => exact ⟨s, by simp, Added.refl _ _ _⟩
    | atRoot => exact ⟨s, by simp, Added.refl _ _ _⟩
    | byBinding =>
      refine ⟨(id, !isF, x, []) :: s, by simp [hnot []], ⟨[(id, !isF, x, [])], rfl, by simp⟩⟩
    | byConclusion =>
      refine ⟨(id, !isF, x, a :: as) :: s, by simp [hnot (a :: as)], ⟨[(id, !isF, x, a :: as)], rfl, by simp⟩⟩

theorem mapSeen_map {α β} (f : β → Seen → List Out × Seen) (v : α → β) (l : List α) (s : Seen) :
    mapSeen f (l.map v) s = mapSeen (fun a => f (v a)) l s := by
  induction l generalizing s with
  | nil => rfl
  | cons a as ih => simp [mapSeen, ih]

/-- a loop over distinct elements, each step fresh for its own element -/
theorem mapSeen_loop (ids : List Nat) (f : Nat → Seen → List Out × Seen) (g : Nat → List Out)
    (step : ∀ y s, Fresh ids [y] s → ∃ s', f y s = (g y, s') ∧ Added ids [y] s s') :
    ∀ (Y : List Nat) (s : Seen), Y.Nodup → Fresh ids Y s →
      ∃ s', mapSeen f Y s = (Y.flatMap g, s') ∧ Added ids Y s s' := by
  intro Y
  induction Y with
  | nil => intro s _ _; exact ⟨s, rfl, Added.refl _ _ _⟩
  | cons y Y ih =>
    intro s hnd hf
    obtain ⟨s1, e1, a1⟩ := step y s (hf.mono (fun _ h => h) (by simp))
    have hnd' := List.nodup_cons.mp hnd
    have hf1 : Fresh ids Y s1 := by
      refine Fresh.after (hf.mono (fun _ h => h) (by intro x hx; simp [hx])) a1 ?_
      intro i x _ hx _
      simp at hx; subst hx; exact hnd'.1
    obtain ⟨s2, e2, a2⟩ := ih s1 hnd'.2 hf1
    refine ⟨s2, by simp [mapSeen, e1, e2], ?_⟩
    exact (a1.mono (fun _ h => h) (by simp)).trans (a2.mono (fun _ h => h) (by intro x hx; simp [hx]))


theorem nodup_ids_node {id : Nat} {l r : Sel} (h : (id :: (l.ids ++ r.ids)).Nodup) :
    id ∉ l.ids ∧ id ∉ r.ids ∧ l.ids.Nodup ∧ r.ids.Nodup ∧ (∀ i, i ∈ l.ids → i ∉ r.ids) := by
  have h1 := List.nodup_cons.mp h
  have h2 := List.nodup_append.mp h1.2
  refine ⟨fun hm => h1.1 (List.mem_append.mpr (Or.inl hm)), fun hm => h1.1 (List.mem_append.mpr (Or.inr hm)),
    h2.1, h2.2.1, ?_⟩
  intro i hi hr
  exact h2.2.2 i hi i hr rfl

/-- **key lemma**: started from a `concluded_before` that is fresh for the elements about to be enumerated, a
next-free tree with distinct nodes never suppresses anything, whatever the keying -/
theorem evalT_fresh (pay : Payload) (d : Dedup) (dom : List Nat) (t : Sel) :
    t.nextFree = true → t.ids.Nodup → ∀ src s, (xsOf dom src).Nodup → Fresh t.ids (xsOf dom src) s →
      ∃ s', evalT pay d dom t src s = (evalP pay dom t src, s') ∧ Added t.ids (xsOf dom src) s s' := by
  induction t with
  | leaf id blk cs =>
    intro _ _ src s _ _
    exact ⟨s, by simp [evalT, evalP], Added.refl _ _ _⟩
  | node k id l r ihl ihr =>
    intro hnf hid src s hX hfr
    cases k
    · -- ExceptIf
      simp only [Sel.nextFree, Bool.and_eq_true] at hnf
      simp only [Sel.ids] at hid hfr ⊢
      obtain ⟨hil, hir, hnl, hnr, hdis⟩ := nodup_ids_node hid
      obtain ⟨s1, el, al⟩ := ihl hnf.1 hnl src s hX
        (hfr.mono (fun i hi => by simp [hi]) (fun _ h => h))
      have hfr1 : Fresh (id :: r.ids) (xsOf dom src) s1 := by
        refine Fresh.after (hfr.mono (fun i hi => ?_) (fun _ h => h)) al ?_
        · rcases List.mem_cons.mp hi with rfl | hi
          · simp
          · simp [hi]
        · intro i x hi _ hi' _
          rcases List.mem_cons.mp hi' with rfl | hi'
          · exact hil hi
          · exact hdis i hi hi'
      have step : ∀ y s, Fresh (id :: r.ids) [y] s → ∃ s',
          (fun (lv : Out) s =>
            if lv.isF then ([⟨lv.x, true, []⟩], s)
            else
              let (rs, s) := evalT pay d dom r (some lv.x) s
              let trues := rs.filter fun o => !o.isF
              if trues.isEmpty then
                let (c, s) := update d id lv.x false lv.concl s
                ([⟨lv.x, false, c⟩], s)
              else
                mapSeen (fun (rv : Out) s =>
                  let (c, s) := update d id rv.x false rv.concl s
                  ([⟨rv.x, false, c⟩], s)) trues s) (val pay l y) s
            = ([val pay (.node .exceptIf id l r) y], s') ∧ Added (id :: r.ids) [y] s s' := by
        intro y s hf
        by_cases h1 : (val pay l y).isF = true
        · exact ⟨s, by simp [h1, val, val_x], Added.refl _ _ _⟩
        · obtain ⟨s2, er, ar⟩ := ihr hnf.2 hnr (some y) s (by simp [xsOf])
            (hf.mono (fun i hi => by simp [hi]) (fun _ h => h))
          have hf2 : Fresh [id] [y] s2 := by
            refine Fresh.after (hf.mono (fun i hi => ?_) (fun _ h => h)) ar ?_
            · simp at hi; simp [hi]
            · intro i x hi _ hi' _
              simp at hi'; subst hi'; exact absurd hi hir
          have hPr : evalP pay dom r (some y) = [val pay r y] := by
            rw [evalP_nextFree pay dom r hnf.2]; rfl
          by_cases h2 : (val pay r y).isF = true
          · obtain ⟨s3, eu, au⟩ := update_fresh d id y false (val pay l y).concl s2 hf2
            refine ⟨s3, ?_, ?_⟩
            · simp [h1, val_x, er, hPr, h2, eu, val]
            · exact (ar.mono (fun i hi => by simp [hi]) (fun _ h => h)).trans
                (au.mono (fun i hi => by simp at hi; simp [hi]) (fun _ h => h))
          · obtain ⟨s3, eu, au⟩ := update_fresh d id y false (val pay r y).concl s2 hf2
            refine ⟨s3, ?_, ?_⟩
            · simp [h1, val_x, er, hPr, h2, eu, val, mapSeen]
            · exact (ar.mono (fun i hi => by simp [hi]) (fun _ h => h)).trans
                (au.mono (fun i hi => by simp at hi; simp [hi]) (fun _ h => h))
      obtain ⟨s2, e2, a2⟩ := mapSeen_loop (id :: r.ids) _ _ step (xsOf dom src) s1 hX hfr1
      refine ⟨s2, ?_, ?_⟩
      · rw [evalP_nextFree pay dom (.node .exceptIf id l r) (by simp [Sel.nextFree, hnf.1, hnf.2]) src]
        simp only [evalT, el]
        rw [evalP_nextFree pay dom l hnf.1 src, mapSeen_map, e2, List.map_eq_flatMap]
      · exact (al.mono (fun i hi => by simp [hi]) (fun _ h => h)).trans
          (a2.mono (fun i hi => by
            rcases List.mem_cons.mp hi with rfl | hi
            · simp
            · simp [hi]) (fun _ h => h))
    · -- Alternative
      simp only [Sel.nextFree, Bool.and_eq_true] at hnf
      simp only [Sel.ids] at hid hfr ⊢
      obtain ⟨hil, hir, hnl, hnr, hdis⟩ := nodup_ids_node hid
      obtain ⟨s1, el, al⟩ := ihl hnf.1 hnl src s hX
        (hfr.mono (fun i hi => by simp [hi]) (fun _ h => h))
      have hfr1 : Fresh (id :: r.ids) (xsOf dom src) s1 := by
        refine Fresh.after (hfr.mono (fun i hi => ?_) (fun _ h => h)) al ?_
        · rcases List.mem_cons.mp hi with rfl | hi
          · simp
          · simp [hi]
        · intro i x hi _ hi' _
          rcases List.mem_cons.mp hi' with rfl | hi'
          · exact hil hi
          · exact hdis i hi hi'
      have step : ∀ y s, Fresh (id :: r.ids) [y] s → ∃ s',
          (fun (lv : Out) s =>
            if lv.isF then
              let (rs, s) := evalT pay d dom r (some lv.x) s
              mapSeen (fun (rv : Out) s =>
                if rv.isF then ([⟨rv.x, true, []⟩], s)
                else
                  let (c, s) := update d id rv.x false rv.concl s
                  ([⟨rv.x, false, c⟩], s)) rs s
            else
              let (c, s) := update d id lv.x false lv.concl s
              ([⟨lv.x, false, c⟩], s)) (val pay l y) s
            = ([val pay (.node .alt id l r) y], s') ∧ Added (id :: r.ids) [y] s s' := by
        intro y s hf
        by_cases h1 : (val pay l y).isF = true
        · obtain ⟨s2, er, ar⟩ := ihr hnf.2 hnr (some y) s (by simp [xsOf])
            (hf.mono (fun i hi => by simp [hi]) (fun _ h => h))
          have hf2 : Fresh [id] [y] s2 := by
            refine Fresh.after (hf.mono (fun i hi => ?_) (fun _ h => h)) ar ?_
            · simp at hi; simp [hi]
            · intro i x hi _ hi' _
              simp at hi'; subst hi'; exact absurd hi hir
          have hPr : evalP pay dom r (some y) = [val pay r y] := by
            rw [evalP_nextFree pay dom r hnf.2]; rfl
          by_cases h2 : (val pay r y).isF = true
          · refine ⟨s2, ?_, ar.mono (fun i hi => by simp [hi]) (fun _ h => h)⟩
            simp [h1, val_x, er, hPr, h2, val, mapSeen]
          · obtain ⟨s3, eu, au⟩ := update_fresh d id y false (val pay r y).concl s2 hf2
            refine ⟨s3, ?_, ?_⟩
            · simp [h1, val_x, er, hPr, h2, eu, val, mapSeen]
            · exact (ar.mono (fun i hi => by simp [hi]) (fun _ h => h)).trans
                (au.mono (fun i hi => by simp at hi; simp [hi]) (fun _ h => h))
        · have hf2 : Fresh [id] [y] s := hf.mono (fun i hi => by simp at hi; simp [hi]) (fun _ h => h)
          obtain ⟨s3, eu, au⟩ := update_fresh d id y false (val pay l y).concl s hf2
          refine ⟨s3, ?_, au.mono (fun i hi => by simp at hi; simp [hi]) (fun _ h => h)⟩
          simp [h1, val_x, eu, val]
      obtain ⟨s2, e2, a2⟩ := mapSeen_loop (id :: r.ids) _ _ step (xsOf dom src) s1 hX hfr1
      refine ⟨s2, ?_, ?_⟩
      · rw [evalP_nextFree pay dom (.node .alt id l r) (by simp [Sel.nextFree, hnf.1, hnf.2]) src]
        simp only [evalT, el]
        rw [evalP_nextFree pay dom l hnf.1 src, mapSeen_map, e2, List.map_eq_flatMap]
      · exact (al.mono (fun i hi => by simp [hi]) (fun _ h => h)).trans
          (a2.mono (fun i hi => by
            rcases List.mem_cons.mp hi with rfl | hi
            · simp
            · simp [hi]) (fun _ h => h))
    · simp [Sel.nextFree] at hnf


/-- with no `Next` in the tree and pairwise distinct domain elements, the keying of `concluded_before` is
irrelevant for one evaluation of a fresh query -/
theorem evalTop_nextFree (pay : Payload) (d : Dedup) (dom : List Nat) (t : Sel)
    (hnf : t.nextFree = true) (hid : t.ids.Nodup) (hd : dom.Nodup) (c x : Nat) :
    (c, x) ∈ evalTop pay d dom t ↔ (c, x) ∈ evalTop pay .off dom t := by
  obtain ⟨s', e, _⟩ := evalT_fresh pay d dom t hnf hid none [] hd (by intro e he; simp at he)
  simp only [evalTop, e, evalT_off]
  exact mem_rowsOf_congr _ _ (fun r => by rw [mem_rootDedup, mem_rootDedup]) c x

mutual
/-- no `next_rule` anywhere in the rule tree -/
def Rule.noNext : Rule → Bool
  | .mk _ refs alts nexts => refs.noNext && alts.noNext && (match nexts with | .nil => true | _ => false)
def Rules.noNext : Rules → Bool
  | .nil => true
  | .cons r rs => r.noNext && rs.noNext
end

theorem foldl_alt_nextFree (bs : List Sel) : ∀ t0 : Sel, t0.nextFree = true → (∀ b ∈ bs, b.nextFree = true) →
    (bs.foldl (fun t b => Sel.node .alt 0 t b) t0).nextFree = true := by
  induction bs with
  | nil => intro t0 h _; simpa using h
  | cons b bs ih =>
    intro t0 h hb
    simp only [List.foldl_cons]
    exact ih _ (by simp [Sel.nextFree, h, hb b (by simp)]) (fun b' hb' => hb b' (by simp [hb']))

mutual
theorem Rule.compile_nextFree : ∀ r : Rule, r.noNext = true →
    r.compile.nextFree = true ∧ r.body.nextFree = true ∧ (∀ b ∈ r.chainItems, b.nextFree = true)
  | .mk b refs alts nexts => by
    intro h
    simp only [Rule.noNext, Bool.and_eq_true] at h
    obtain ⟨⟨hr, ha⟩, hn⟩ := h
    have hn' : nexts = .nil := by cases nexts <;> simp_all
    subst hn'
    have h1 := Rules.compile_nextFree refs hr
    have h2 := Rules.compile_nextFree alts ha
    have hbody : (refs.wrap (Sel.leaf 0 b [b])).nextFree = true := h1.1 _ rfl
    refine ⟨?_, hbody, h2.2.1⟩
    simp only [Rule.compile, h2.2.2, Rules.nextItemsN, List.append_nil, List.foldl_nil]
    exact foldl_alt_nextFree _ _ hbody h2.2.1
theorem Rules.compile_nextFree : ∀ rs : Rules, rs.noNext = true →
    (∀ inner : Sel, inner.nextFree = true → (rs.wrap inner).nextFree = true) ∧
    (∀ b ∈ rs.chainItemsL, b.nextFree = true) ∧ rs.nextItemsA = []
  | .nil => by intro _; simp [Rules.wrap, Rules.chainItemsL, Rules.nextItemsA]
  | .cons r rs => by
    intro h
    simp only [Rules.noNext, Bool.and_eq_true] at h
    have h1 := Rule.compile_nextFree r h.1
    have h2 := Rules.compile_nextFree rs h.2
    refine ⟨?_, ?_, ?_⟩
    · intro inner hi
      simp only [Rules.wrap, Sel.nextFree, Bool.and_eq_true]
      exact ⟨h2.1 inner hi, h1.1⟩
    · intro t ht
      simp only [Rules.chainItemsL, List.cons_append, List.mem_cons, List.mem_append] at ht
      rcases ht with rfl | ht | ht
      · exact h1.2.1
      · exact h1.2.2 t ht
      · exact h2.2.1 t ht
    · cases r with
      | mk b refs alts nexts =>
        simp only [Rule.noNext, Bool.and_eq_true] at h
        have hn' : nexts = .nil := by cases nexts <;> simp_all
        subst hn'
        have h3 := Rules.compile_nextFree alts h.1.1.2
        simp [Rules.nextItemsA, Rule.nextItems, h3.2.2, h2.2.2, Rules.nextItemsN]
end

theorem shape_nextFree (t : Sel) : t.shape.nextFree = t.nextFree := by
  induction t with
  | leaf => rfl
  | node k id l r ihl ihr => cases k <;> simp [Sel.shape, Sel.nextFree, ihl, ihr]

/-- **C08_eval_partial.** Any keying of `concluded_before`, in particular the one before fix f11669e
(by the bindings only, every selector): on a well-formed selector tree of a rule tree without `next_rule` (the trigger of F-C08-3 needs one),
over pairwise distinct domain elements, one evaluation of the freshly built query returns exactly the rows
`fire` demands. -/
theorem C08_eval_partial (pay : Payload) (d : Dedup) (dom : List Nat) (r : Rule) (t : Sel)
    (hwf : WellFormed t r) (hnn : r.noNext = true) (hd : dom.Nodup) (c x : Nat) :
    (c, x) ∈ evalTop pay d dom t ↔ (c, x) ∈ specObs pay r dom := by
  have hnf : t.nextFree = true := by
    rw [← shape_nextFree, hwf.1]; exact (Rule.compile_nextFree r hnn).1
  rw [evalTop_nextFree pay d dom t hnf hwf.2 hd]
  exact C08_eval_off pay dom r t hwf c x


/-! ## Construction: what the surgery builds -/

/-- kid-forests with exactly `n` branch blocks: every kind, nesting and textual order (block numbers are
assigned afterwards); the first argument is fuel (`n + 1` suffices) -/
def forests : Nat → Nat → List Kids
  | 0, _ => []
  | _ + 1, 0 => [.nil]
  | f + 1, n + 1 =>
    (List.range (n + 1)).flatMap fun k =>
      (forests f k).flatMap fun sub => (forests f (n - k)).flatMap fun rest =>
        [Kind.ref, .alt, .next].map fun kd => .cons kd (.mk 0 sub) rest

mutual
/-- number the blocks in textual order -/
def Prog.renum (i : Nat) : Prog → Prog × Nat
  | .mk _ kids => let (k, j) := kids.renum (i + 1); (.mk i k, j)
def Kids.renum (i : Nat) : Kids → Kids × Nat
  | .nil => (.nil, i)
  | .cons kd p rest => let (p', j) := p.renum i; let (r', l) := rest.renum j; (.cons kd p' r', l)
end

/-- every program skeleton with at most `n` branches (blocks numbered 0, 1, … in textual order) -/
def skeletons (n : Nat) : List Prog :=
  (List.range (n + 1)).flatMap fun m => (forests (m + 1) m).map fun kids => ((Prog.mk 0 kids).renum 0).1

/-- the builder leaves behind the well-formed tree of the program's rule, every node its own object -/
def buildsWellFormed (q : Quirks) (p : Prog) : Bool :=
  match (build q p).bind BState.tree with
  | some t => t.shape == p.toRule.compile && decide t.ids.Nodup
  | none => false

theorem buildsWellFormed_iff (q : Quirks) (p : Prog) :
    buildsWellFormed q p = true ↔ ∃ t, (build q p).bind BState.tree = some t ∧ WellFormed t p.toRule := by
  unfold buildsWellFormed WellFormed
  cases (build q p).bind BState.tree with
  | none => simp
  | some t => simp

theorem build_table :
    ((skeletons 4).all fun p => !p.unambiguous || buildsWellFormed Quirks.today p) = true := by decide +kernel

/-- **C08_build_partial.** For every unambiguous program with at most 4 branches (any kinds, nesting and textual
order: 855 skeletons) the surgery as it is (`Quirks.today`: `alternative_or_next` climbs to the top of the chain and
re-links the side of `prev_parent` that pointed at the climbed node, fix 5ccefb5; `refinement` re-links
`prev_parent.left/right`, fix 6d59379) leaves behind exactly the well-formed selector tree of the program.
The builder never sees conditions or conclusions (they live in the payload table), so this holds for every
payload. A finite table checked by kernel evaluation. (Before the two fixes this held for 75 of the skeletons only,
see the counter-example theorems below.)

Full statement `C08_full`, now PROVED as `C08_build` in `Props/C08Build.lean` (invariant relating the pointer store
to the abstract tree through arbitrary nesting: `Lemmas/RuleBuild.lean`):
`∀ p : Prog, p.unambiguous = true → ∃ t, (build Quirks.today p).bind BState.tree = some t ∧ WellFormed t p.toRule` -/
theorem C08_build_partial (p : Prog) (hp : p ∈ skeletons 4) (hu : p.unambiguous = true) :
    ∃ t, (build Quirks.today p).bind BState.tree = some t ∧ WellFormed t p.toRule := by
  have := List.all_eq_true.mp build_table p hp
  simp only [hu, Bool.not_true, Bool.false_or] at this
  exact (buildsWellFormed_iff _ _).mp this

/-- **C08_today_end_to_end.** The code as it is, builder and evaluator together: for every unambiguous program with
at most 4 branches, every payload and every domain, evaluating the freshly built query returns exactly the rows
`fire` demands. -/
theorem C08_today_end_to_end (p : Prog) (hp : p ∈ skeletons 4) (hu : p.unambiguous = true)
    (pay : Payload) (dom : List Nat) :
    ∃ t, (build Quirks.today p).bind BState.tree = some t ∧
      ∀ c x, (c, x) ∈ evalTop pay Quirks.today.dedup dom t ↔ (c, x) ∈ spec pay p dom := by
  obtain ⟨t, ht, hwf⟩ := C08_build_partial p hp hu
  exact ⟨t, ht, fun c x => C08_eval pay dom p.toRule t hwf c x⟩

/-! ## The three repaired findings (tests by `decide` on their witnesses): what the code did before the fixes
(`Quirks.legacy`) and what it does now (`Quirks.today`) -/

/-- witness of F-C08-1: `Add A; alternative → B; alternative → C; alternative → D`, x ∈ {0,1,2,3}, the i-th
condition holds for i only -/
def w1 : Prog := .mk 0 (.cons .alt (.mk 1 .nil) (.cons .alt (.mk 2 .nil) (.cons .alt (.mk 3 .nil) .nil)))
def pay1 : Payload := Payload.ofList [⟨[0], [0]⟩, ⟨[1], [1]⟩, ⟨[2], [2]⟩, ⟨[3], [3]⟩]

/-- before fix 5ccefb5 the third alternative overwrote the second (class 2 was never inferred for element
2); now the tree is well-formed and the rows are the specification's -/
theorem C08_cex_third_alternative :
    w1.trigClimb = true ∧ w1.trigRef true = false ∧ w1.trigNextScope pay1 [0, 1, 2, 3] = false ∧
    model Quirks.legacy pay1 w1 [0, 1, 2, 3] = .ok [([0], 0), ([1], 1), ([3], 3)] ∧
    spec pay1 w1 [0, 1, 2, 3] = [(0, 0), (1, 1), (2, 2), (3, 3)] ∧
    model Quirks.today pay1 w1 [0, 1, 2, 3] = .ok [([0], 0), ([1], 1), ([2], 2), ([3], 3)] ∧
    buildsWellFormed Quirks.legacy w1 = false ∧ buildsWellFormed Quirks.today w1 = true := by
  decide +kernel

/-- witness of F-C08-2: `Add A; refinement(x ≥ 1) → B; inside it refinement(x ≥ 2) → C`, x ∈ {0,1,2} -/
def w2 : Prog := .mk 0 (.cons .ref (.mk 1 (.cons .ref (.mk 2 .nil) .nil)) .nil)
def pay2 : Payload := Payload.ofList [⟨[0, 1, 2], [0]⟩, ⟨[1, 2], [1]⟩, ⟨[2], [2]⟩]

/-- before fix 6d59379 the nested refinement was never evaluated (element 2 got class 1 instead of class 2) -/
theorem C08_cex_nested_refinement :
    w2.trigRef true = true ∧ w2.trigClimb = false ∧ w2.trigNextScope pay2 [0, 1, 2] = false ∧
    model Quirks.legacy pay2 w2 [0, 1, 2] = .ok [([0], 0), ([1], 1), ([1], 2)] ∧
    spec pay2 w2 [0, 1, 2] = [(0, 0), (1, 1), (2, 2)] ∧
    model Quirks.today pay2 w2 [0, 1, 2] = .ok [([0], 0), ([1], 1), ([2], 2)] ∧
    buildsWellFormed Quirks.legacy w2 = false ∧ buildsWellFormed Quirks.today w2 = true := by
  decide +kernel

/-- witness of F-C08-3: `Add A` for x ∈ {0,1}; `next_rule(x ∈ {1,2}) → B` -/
def w3 : Prog := .mk 0 (.cons .next (.mk 1 .nil) .nil)
def pay3 : Payload := Payload.ofList [⟨[0, 1], [0]⟩, ⟨[1, 2], [1]⟩]

/-- before fix f11669e the tree was well-formed, yet the next_rule was suppressed for element 1, for which
the base rule had concluded; now class 1 is inferred for element 1 too -/
theorem C08_cex_next_same_binding :
    w3.trigNextScope pay3 [0, 1, 2] = true ∧ w3.trigClimb = false ∧ w3.trigRef true = false ∧
    buildsWellFormed Quirks.legacy w3 = true ∧
    model Quirks.legacy pay3 w3 [0, 1, 2] = .ok [([0], 0), ([0], 1), ([1], 2)] ∧
    spec pay3 w3 [0, 1, 2] = [(0, 0), (0, 1), (1, 1), (1, 2)] ∧
    model Quirks.today pay3 w3 [0, 1, 2] = .ok [([0], 0), ([0], 1), ([1], 2), ([1], 1)] := by
  decide +kernel

/-! ## Non-vacuity -/

/-- the class of the build theorems is inhabited: 855 of the 1291 skeletons with ≤ 4 branches are unambiguous (75 of
them were built correctly before the fixes) -/
example : ((skeletons 4).filter Prog.clean).length = 75 ∧ ((skeletons 4).filter Prog.unambiguous).length = 855 ∧
    (skeletons 4).length = 1291 := by decide +kernel

/-- a well-formed tree in the sense of `C08_eval`: the one the surgery builds for "three alternatives of the base
rule, a refinement nested in a refinement" -/
example : ∃ t, (build Quirks.today (.mk 0 (.cons .ref (.mk 1 (.cons .ref (.mk 2 .nil) .nil))
      (.cons .alt (.mk 3 .nil) (.cons .alt (.mk 4 .nil) (.cons .alt (.mk 5 .nil) .nil)))))).bind BState.tree = some t ∧
    WellFormed t (Prog.toRule (.mk 0 (.cons .ref (.mk 1 (.cons .ref (.mk 2 .nil) .nil))
      (.cons .alt (.mk 3 .nil) (.cons .alt (.mk 4 .nil) (.cons .alt (.mk 5 .nil) .nil)))))) :=
  (buildsWellFormed_iff _ _).mp (by decide +kernel)

/-! ## Multi-step authoring: several `with rule:` blocks on one rule -/

theorem run_append (q : Quirks) (xs ys : List Op) : ∀ s : BState,
    BState.run q s (xs ++ ys) = (BState.run q s xs).bind fun s' => BState.run q s' ys := by
  induction xs with
  | nil => intro s; simp [BState.run]
  | cons x xs ih =>
    intro s
    simp only [List.cons_append, BState.run]
    cases BState.step q s x with
    | none => simp
    | some s1 => simp [ih]

/-- closing the `with rule:` block and opening `with rule:` again restores the very same builder state: the
conditions root pushed by `__enter__` is the cached one -/
theorem reenter_noop (q : Quirks) (s : BState) (c : Nat) (hs : s.stack = [c]) (hc : s.cachedRoot = some c)
    (rest : List Op) :
    BState.run q s (Op.exit :: Op.enterQuery :: rest) = BState.run q s rest := by
  have : ({ nodes := s.nodes, stack := [c], cachedRoot := some c, last := s.last } : BState) = s := by
    cases s; simp_all
  simp only [BState.run, BState.step, hs, BState.conditionsRoot, hc]
  rw [this]


/-! the surgery touches neither the expression stack nor the cached conditions root -/

@[simp] theorem modify_stack (s : BState) (i : Nat) (f : Node → Node) : (s.modify i f).stack = s.stack := rfl
@[simp] theorem modify_cached (s : BState) (i : Nat) (f : Node → Node) :
    (s.modify i f).cachedRoot = s.cachedRoot := rfl
@[simp] theorem alloc_stack (s : BState) (n : Node) : (s.alloc n).1.stack = s.stack := rfl
@[simp] theorem alloc_cached (s : BState) (n : Node) : (s.alloc n).1.cachedRoot = s.cachedRoot := rfl
@[simp] theorem mkBinop_stack (s : BState) (k : NK) (l r : Nat) : (s.mkBinop k l r).1.stack = s.stack := rfl
@[simp] theorem mkBinop_cached (s : BState) (k : NK) (l r : Nat) :
    (s.mkBinop k l r).1.cachedRoot = s.cachedRoot := rfl
@[simp] theorem setParent_stack (s : BState) (i : Nat) (p : Option Nat) : (s.setParent i p).stack = s.stack := by
  cases p <;> rfl
@[simp] theorem setParent_cached (s : BState) (i : Nat) (p : Option Nat) :
    (s.setParent i p).cachedRoot = s.cachedRoot := by
  cases p <;> rfl

theorem doRefinement_frame (q : Quirks) (s s' : BState) (b : Nat) (h : s.doRefinement q b = some s') :
    s'.stack = s.stack ∧ s'.cachedRoot = s.cachedRoot := by
  unfold BState.doRefinement at h
  split at h
  · simp at h
  · simp only [Option.some.injEq] at h
    subst h
    refine ⟨?_, ?_⟩ <;>
    · simp only []
      repeat' split
      all_goals simp_all


theorem doAltOrNext_frame (q : Quirks) (s s' : BState) (k : NK) (b : Nat)
    (h : s.doAltOrNext q k b = some s') : s'.stack = s.stack ∧ s'.cachedRoot = s.cachedRoot := by
  unfold BState.doAltOrNext at h
  split at h
  · simp at h
  · simp only [Option.some.injEq] at h
    subst h
    refine ⟨?_, ?_⟩ <;>
    · simp only []
      repeat' split
      all_goals simp_all

/-- effect of one op on (stack, cached conditions root), once the root is cached -/
theorem step_frame (q : Quirks) (s s' : BState) (c : Nat) (hc : s.cachedRoot = some c) (op : Op)
    (h : s.step q op = some s') :
    s'.cachedRoot = some c ∧
      (match op with
        | .enterQuery => s'.stack = c :: s.stack
        | .enter => ∃ n, s'.stack = n :: s.stack
        | .exit => ∃ n, s.stack = n :: s'.stack
        | _ => s'.stack = s.stack) := by
  cases op with
  | enterQuery =>
    simp only [BState.step, BState.conditionsRoot, hc, Option.some.injEq] at h
    subst h; simp
  | enter =>
    simp only [BState.step] at h
    split at h
    · simp at h
    · split at h
      · simp only [BState.conditionsRoot, hc, Option.some.injEq] at h
        subst h; exact ⟨rfl, c, rfl⟩
      · simp only [Option.some.injEq] at h
        subst h; exact ⟨hc, _, rfl⟩
  | exit =>
    simp only [BState.step] at h
    split at h
    · simp at h
    · rename_i n st hst
      simp only [Option.some.injEq] at h
      subst h; exact ⟨hc, n, hst⟩
  | add b =>
    simp only [BState.step] at h
    split at h
    · simp at h
    · simp only [Option.some.injEq] at h
      subst h; exact ⟨hc, rfl⟩
  | refinement b =>
    have := doRefinement_frame q s s' b h
    exact ⟨this.2 ▸ hc, this.1⟩
  | alternative b =>
    have := doAltOrNext_frame q s s' .alt b h
    exact ⟨this.2 ▸ hc, this.1⟩
  | next b =>
    have := doAltOrNext_frame q s s' .next b h
    exact ⟨this.2 ▸ hc, this.1⟩

mutual
/-- a block's body leaves the expression stack as it found it -/
theorem Prog.ops_frame (q : Quirks) (c : Nat) : ∀ (p : Prog) (s s' : BState), s.cachedRoot = some c →
    BState.run q s p.ops = some s' → s'.stack = s.stack ∧ s'.cachedRoot = some c
  | .mk b kids, s, s', hc, h => by
    simp only [Prog.ops, BState.run] at h
    cases h1 : s.step q (Op.add b) with
    | none => simp [h1] at h
    | some s1 =>
      simp only [h1] at h
      have f1 := step_frame q s s1 c hc _ h1
      have f2 := Kids.ops_frame q c kids s1 s' f1.1 h
      exact ⟨f2.1.trans f1.2, f2.2⟩
theorem Kids.ops_frame (q : Quirks) (c : Nat) : ∀ (k : Kids) (s s' : BState), s.cachedRoot = some c →
    BState.run q s k.ops = some s' → s'.stack = s.stack ∧ s'.cachedRoot = some c
  | .nil, s, s', hc, h => by
    simp only [Kids.ops, BState.run, Option.some.injEq] at h
    subst h; exact ⟨rfl, hc⟩
  | .cons kd p rest, s, s', hc, h => by
    simp only [Kids.ops, BState.run] at h
    split at h
    · rename_i s1 h1
      have f1 : s1.cachedRoot = some c ∧ s1.stack = s.stack := by
        cases kd <;> exact step_frame q s s1 c hc _ h1
      split at h
      · rename_i s2 h2
        obtain ⟨c2, n, hn⟩ := step_frame q s1 s2 c f1.1 _ h2
        rw [run_append] at h
        cases h3 : BState.run q s2 p.ops with
        | none => simp [h3] at h
        | some s3 =>
          simp only [h3, Option.bind_some, BState.run] at h
          have f3 := Prog.ops_frame q c p s2 s3 c2 h3
          split at h
          · rename_i s4 h4
            obtain ⟨c4, m, hm⟩ := step_frame q s3 s4 c f3.2 _ h4
            have f5 := Kids.ops_frame q c rest s4 s' c4 h
            refine ⟨?_, f5.2⟩
            rw [f5.1]
            have : m :: s4.stack = n :: s1.stack := by rw [← hm, f3.1, hn]
            rw [(List.cons.inj this).2, f1.2]
          · simp at h
      · simp at h
    · simp at h
end


theorem kidOps_eq (k : Kind) (p : Prog) : kidOps k p = (Kids.cons k p .nil).ops := by
  simp [kidOps, Kids.ops]

theorem items_run (q : Quirks) (c b : Nat) (tail : List Op) : ∀ (items : List Item) (s : BState),
    s.stack = [c] → s.cachedRoot = some c →
    BState.run q s (items.flatMap (Item.ops b) ++ tail) =
      BState.run q s ((items.filter fun i => !i.isReenter).flatMap (Item.ops b)
        ++ tail) := by
  intro items
  induction items with
  | nil => intro s _ _; rfl
  | cons it items ih =>
    intro s hs hc
    cases it with
    | kid k p =>
      simp only [List.flatMap_cons, List.filter_cons, Item.isReenter, Bool.not_false, ↓reduceIte, Item.ops, List.append_assoc]
      rw [run_append, run_append]
      cases h1 : BState.run q s (kidOps k p) with
      | none => rfl
      | some s1 =>
        have f := Kids.ops_frame q c (.cons k p .nil) s s1 hc (by rw [← kidOps_eq]; exact h1)
        simp only [Option.bind_some]
        exact ih s1 (f.1.trans hs) f.2
    | reenter =>
      simp only [List.flatMap_cons, List.filter_cons, Item.isReenter, Bool.not_true, Bool.false_eq_true, ↓reduceIte, Item.ops, List.cons_append, List.nil_append]
      rw [reenter_noop q s c hs hc]
      exact ih s hs hc
    | add =>
      simp only [List.flatMap_cons, List.filter_cons, Item.isReenter, Bool.not_false, ↓reduceIte, Item.ops, List.cons_append, List.nil_append, BState.run]
      cases h1 : s.step q (Op.add b) with
      | none => rfl
      | some s1 =>
        have f := step_frame q s s1 c hc _ h1
        exact ih s1 (f.2.trans hs) f.1

/-- **C08_authoring.** Splitting the authoring of a rule over several `with rule:` blocks on the same rule does
not change what is built: closing the block and opening `with rule:` again at any point between the top-level
statements leaves the very same store behind — for every rule program, whatever the surgery quirks. (It is the
*cached* `_conditions_root_` that makes this true: each `__enter__` pushes the base condition again.) -/
theorem C08_authoring (q : Quirks) (a : Authored) : buildA q a = buildA q a.oneBlock := by
  unfold buildA Authored.ops Authored.oneBlock
  simp only [BState.run]
  have h0 : (BState.init a.blk).step q Op.enterQuery =
      some { BState.init a.blk with stack := [2], cachedRoot := some 2 } := by
    simp [BState.step, BState.conditionsRoot, BState.init, BState.condLoop, BState.rootOf, BState.node]
  rw [h0]
  exact items_run q 2 a.blk [Op.exit] a.items _ rfl rfl


/-! the base rule's `Add` statements anywhere between the branches (finite tables) -/

def Kids.length : Kids → Nat
  | .nil => 0
  | .cons _ _ rest => rest.length + 1

/-- program `p` written in one block with the base rule's `Add` statements after its first `k` branches -/
def Prog.authoredAt (p : Prog) (k : Nat) : Authored :=
  ⟨p.blk, (itemsOfKids p.kids).take k ++ Item.add :: (itemsOfKids p.kids).drop k⟩

/-- the authoring `a` leaves behind the well-formed tree of program `p`'s rule -/
def buildsWellFormedFor (q : Quirks) (a : Authored) (p : Prog) : Bool :=
  match (buildA q a).bind BState.tree with
  | some t => t.shape == p.toRule.compile && decide t.ids.Nodup
  | none => false

theorem buildsWellFormedFor_iff (q : Quirks) (a : Authored) (p : Prog) :
    buildsWellFormedFor q a p = true ↔ ∃ t, (buildA q a).bind BState.tree = some t ∧ WellFormed t p.toRule := by
  unfold buildsWellFormedFor WellFormed
  cases (buildA q a).bind BState.tree with
  | none => simp
  | some t => simp

theorem add_position_table :
    ((skeletons 3).all fun p => !p.unambiguous ||
      (List.range (p.kids.length + 1)).all fun k => buildsWellFormedFor Quirks.today (p.authoredAt k) p) = true := by
  decide +kernel

/-- **C08_build_partial_authored.** Multi-step authoring: an unambiguous program with at most 3 branches, written
in any number of `with rule:` blocks on the same rule, with the base rule's `Add` statements after any `k` of its
branches, still leaves the well-formed selector tree behind. (`C08_authoring` — unbounded — removes the block
boundaries; the position of the `Add` is a kernel-evaluated table.) -/
theorem C08_build_partial_authored (p : Prog) (hp : p ∈ skeletons 3) (hu : p.unambiguous = true)
    (k : Nat) (hk : k ≤ p.kids.length) (a : Authored) (ha : a.oneBlock = p.authoredAt k) :
    ∃ t, (buildA Quirks.today a).bind BState.tree = some t ∧ WellFormed t p.toRule := by
  have h := List.all_eq_true.mp add_position_table p hp
  simp only [hu, Bool.not_true, Bool.false_or] at h
  have h2 := List.all_eq_true.mp h k (List.mem_range.mpr (Nat.lt_succ_of_le hk))
  rw [C08_authoring, ha]
  exact (buildsWellFormedFor_iff _ _ _).mp h2

/-- **C08_today_end_to_end_authored.** Builder and evaluator on a rule written in several steps: unambiguous, at
most 3 branches, any payload, any domain — the rows are those `fire` demands. -/
theorem C08_today_end_to_end_authored (p : Prog) (hp : p ∈ skeletons 3) (hu : p.unambiguous = true)
    (k : Nat) (hk : k ≤ p.kids.length) (a : Authored)
    (ha : a.oneBlock = p.authoredAt k) (pay : Payload) (dom : List Nat) :
    ∃ t, (buildA Quirks.today a).bind BState.tree = some t ∧
      ∀ c x, (c, x) ∈ evalTop pay Quirks.today.dedup dom t ↔ (c, x) ∈ spec pay p dom := by
  obtain ⟨t, ht, hwf⟩ := C08_build_partial_authored p hp hu k hk a ha
  exact ⟨t, ht, fun c x => C08_eval pay dom p.toRule t hwf c x⟩

/-- non-vacuity: the two-step authoring of the seeded-change demo (first block: the refinement; second block:
the base conclusion) is an instance — `oneBlock` of it is `authoredAt 1` of the one-refinement program -/
example : (Authored.mk 0 [.kid .ref (.mk 1 .nil), .reenter, .add]).oneBlock.items.length = 2 ∧
    buildsWellFormedFor Quirks.today (Authored.mk 0 [.kid .ref (.mk 1 .nil), .reenter, .add])
      (.mk 0 (.cons .ref (.mk 1 .nil) .nil)) = true := by decide +kernel

/-! ## Two variables: a conservative extension -/

def liftO (o : Out) : Out2 := ⟨(o.x, none), o.isF, o.concl⟩
def liftS (s : Seen) : Seen2 := s.map fun e => (e.1, e.2.1, (e.2.2.1, none), e.2.2.2)

/-- the payload never relates `x` and `y` -/
def Rel2.yFree (r2 : Rel2) : Prop := ∀ b, r2.rel b = none

theorem any_liftS (s : Seen) (p : Nat × Bool × Bnd × List Nat → Bool) :
    (liftS s).any p = s.any fun e => p (e.1, e.2.1, (e.2.2.1, none), e.2.2.2) := by
  simp [liftS, List.any_map, Function.comp_def]

theorem key_match (a id : Nat) (b tr : Bool) (c' x : Nat) (k c : List Nat) :
    (a == id && b == tr && k == c && (c' == x && true)) = ((id, tr, x, c) == (a, b, c', k)) := by
  rw [Bool.eq_iff_iff]
  simp only [Bool.and_eq_true, beq_iff_eq, Bool.and_true, Prod.mk.injEq]
  constructor
  · rintro ⟨⟨⟨h1, h2⟩, h3⟩, h4⟩; exact ⟨h1.symm, h2.symm, h4.symm, h3.symm⟩
  · rintro ⟨h1, h2, h3, h4⟩; exact ⟨⟨⟨h1.symm, h2.symm⟩, h4.symm⟩, h3.symm⟩

theorem update2_lift (d : Dedup) (id x : Nat) (f : Bool) (c : List Nat) (s : Seen) :
    update2 d id (x, none) f c (liftS s) = ((update d id x f c s).1, liftS (update d id x f c s).2) := by
  unfold update2 update
  by_cases hc : c.isEmpty
  · simp [hc]
  · simp only [hc, Bool.false_eq_true, ↓reduceIte]
    have hk : keyOf c (x, none) = (x, none) := by simp [keyOf]
    cases d with
    | off => simp
    | atRoot => simp
    | byBinding =>
      simp only [hk, any_liftS, covers]
      have : (s.any fun e => e.1 == id && e.2.1 == !f && e.2.2.2 == [] && (e.2.2.1 == x && true)) =
          s.contains (id, !f, x, []) := by
        induction s with
        | nil => rfl
        | cons e es ih =>
          simp only [List.any_cons, List.contains_cons, ih]
          congr 1
          obtain ⟨a, b, c', k⟩ := e
          exact key_match a id b (!f) c' x k []
      rw [this]
      split <;> simp [liftS]
    | byConclusion =>
      simp only [hk, any_liftS, covers]
      have : (s.any fun e => e.1 == id && e.2.1 == !f && e.2.2.2 == c && (e.2.2.1 == x && true)) =
          s.contains (id, !f, x, c) := by
        induction s with
        | nil => rfl
        | cons e es ih =>
          simp only [List.any_cons, List.contains_cons, ih]
          congr 1
          obtain ⟨a, b, c', k⟩ := e
          exact key_match a id b (!f) c' x k c
      rw [this]
      split <;> simp [liftS]


theorem mapSeen2_lift {α β} (g : α → β) (f : α → Seen → List Out × Seen) (f2 : β → Seen2 → List Out2 × Seen2)
    (h : ∀ a s, f2 (g a) (liftS s) = ((f a s).1.map liftO, liftS (f a s).2)) :
    ∀ (l : List α) (s : Seen),
      mapSeen2 f2 (l.map g) (liftS s) = ((mapSeen f l s).1.map liftO, liftS (mapSeen f l s).2) := by
  intro l
  induction l with
  | nil => intro s; rfl
  | cons a as ih =>
    intro s
    simp only [List.map_cons, mapSeen2, mapSeen, h a s, ih (f a s).2, List.map_append]

theorem liftO_filter (rs : List Out) :
    (rs.map liftO).filter (fun o => !o.isF) = (rs.filter fun o => !o.isF).map liftO := by
  induction rs with
  | nil => rfl
  | cons r rs ih => simp only [List.map_cons, List.filter_cons, liftO, ih]; split <;> rfl

/-- **the two-variable evaluator restricted to payloads that never mention `y` is the one-variable evaluator** (so
every theorem about `evalT` speaks about `evalT2` on such payloads) -/
theorem evalT2_yFree (pay : Payload) (r2 : Rel2) (d : Dedup) (dom : List Nat) (hy : r2.yFree) (t : Sel) :
    ∀ (src : Option Nat) (s : Seen),
      evalT2 pay r2 d true dom t (src.map fun x => (x, none)) (liftS s) =
        ((evalT pay d dom t src s).1.map liftO, liftS (evalT pay d dom t src s).2) := by
  induction t with
  | leaf id blk cs =>
    intro src s
    simp only [evalT2, evalT, leafOuts2, leafOuts, leafBnds, leafHolds, hy blk]
    cases src <;> simp [liftO, Function.comp_def]
  | node k id l r ihl ihr =>
    intro src s
    have hr : ∀ (x : Nat) (s : Seen), evalT2 pay r2 d true dom r (some (x, none)) (liftS s) =
        ((evalT pay d dom r (some x) s).1.map liftO, liftS (evalT pay d dom r (some x) s).2) :=
      fun x s => ihr (some x) s
    cases k
    · simp only [evalT2, evalT, ihl src s]
      apply mapSeen2_lift
      intro lv s
      simp only [liftO]
      by_cases h1 : lv.isF = true
      · simp [h1, liftO]
      · simp only [h1, Bool.false_eq_true, ↓reduceIte, hr]
        have hf := liftO_filter (evalT pay d dom r (some lv.x) s).1
        try simp only [liftO] at hf
        rw [hf]
        by_cases h2 : ((evalT pay d dom r (some lv.x) s).1.filter fun o => !o.isF).isEmpty = true
        · simp [h2, update2_lift, liftO]
        · simp only [List.isEmpty_map, h2, Bool.false_eq_true, ↓reduceIte]
          apply mapSeen2_lift
          intro rv s
          simp [update2_lift, liftO]
    · simp only [evalT2, evalT, ihl src s]
      apply mapSeen2_lift
      intro lv s
      simp only [liftO]
      by_cases h1 : lv.isF = true
      · simp only [h1, ↓reduceIte, hr]
        apply mapSeen2_lift
        intro rv s
        by_cases h2 : rv.isF = true
        · simp [h2, liftO]
        · simp [h2, liftO, update2_lift]
      · simp [h1, update2_lift, liftO]
    · simp only [evalT2, evalT, ihl src s]
      have e1 := mapSeen2_lift liftO
        (fun (lv : Out) s =>
          if lv.isF then
            let (rs, s) := evalT pay d dom r (some lv.x) s
            mapSeen (fun (rv : Out) s =>
              let (c, s) := update d id rv.x rv.isF rv.concl s
              ([⟨rv.x, rv.isF, c⟩], s)) rs s
          else
            let (c, s) := update d id lv.x false lv.concl s
            ([⟨lv.x, false, c⟩], s))
        (fun (lv : Out2) s =>
          if lv.isF && !true then ([⟨lv.b, true, []⟩], s)
          else if lv.isF then
            let (rs, s) := evalT2 pay r2 d true dom r (some lv.b) s
            mapSeen2 (fun (rv : Out2) s =>
              let (c, s) := update2 d id rv.b rv.isF rv.concl s
              ([⟨rv.b, rv.isF, c⟩], s)) rs s
          else
            let (c, s) := update2 d id lv.b false lv.concl s
            ([⟨lv.b, false, c⟩], s))
        (by
          intro lv s
          simp only [liftO, Bool.not_true, Bool.and_false, Bool.false_eq_true, ↓reduceIte]
          by_cases h1 : lv.isF = true
          · simp only [h1, ↓reduceIte, hr]
            apply mapSeen2_lift
            intro rv s
            simp [liftO, update2_lift]
          · simp [h1, update2_lift, liftO])
        (evalT pay d dom l src s).1 (evalT pay d dom l src s).2
      simp only [e1, ihr]
      have e2 := mapSeen2_lift liftO
        (fun (rv : Out) s =>
          let (c, s) := update d id rv.x rv.isF rv.concl s
          ([⟨rv.x, rv.isF, c⟩], s))
        (fun (rv : Out2) s =>
          let (c, s) := update2 d id rv.b rv.isF rv.concl s
          ([⟨rv.b, rv.isF, c⟩], s))
        (by intro rv s; simp [liftO, update2_lift])
      simp only [e2, List.map_append]


theorem topOuts2_lift (os : List Out) :
    topOuts2 (os.map liftO) = (topOuts os).map fun r => (r.1, ((r.2, none) : Bnd)) := by
  induction os with
  | nil => rfl
  | cons o os ih =>
    simp only [topOuts2, topOuts] at ih
    by_cases h : (o.isF || o.concl.isEmpty) = true
    · simp only [List.map_cons, topOuts2, topOuts, List.filterMap_cons, liftO, h, ↓reduceIte]
      exact ih
    · simp only [List.map_cons, topOuts2, topOuts, List.filterMap_cons, liftO, h, ↓reduceIte, List.map_cons]
      exact congrArg _ ih

/-- **C08_two_variables_conservative.** On a payload that never relates `x` and `y`, the two-variable evaluator
(today's `Union` fall-through) returns exactly the results of the one-variable evaluator `evalT` the theorems
above are about — for every tree, keying, domain. -/
theorem C08_two_variables_conservative (pay : Payload) (r2 : Rel2) (d : Dedup) (dom : List Nat)
    (hy : r2.yFree) (t : Sel) :
    topOuts2 (evalT2 pay r2 d true dom t none []).1 =
      (topOuts (evalT pay d dom t none []).1).map fun r => (r.1, ((r.2, none) : Bnd)) := by
  have h := evalT2_yFree pay r2 d dom hy t none []
  simp only [Option.map_none, liftS, List.map_nil] at h
  rw [h]
  exact topOuts2_lift _

/-! the specification over two variables restricted to such payloads is `fire` -/

def liftR (x : Nat) (cs : List Nat) : List (Nat × Bnd) := cs.map fun c => (c, ((x, none) : Bnd))

theorem holdsExt_yFree (pay : Payload) (r2 : Rel2) (hy : r2.yFree) (blk x : Nat) :
    holdsExt pay r2 blk (x, none) = if (pay blk).cond.contains x then [(x, none)] else [] := by
  by_cases h : x ∈ (pay blk).cond <;> simp [holdsExt, leafBnds, leafHolds, hy blk, h]

theorem combine2_lift (x : Nat) (ch : Option (List Nat)) (ns : List (List Nat)) :
    combine2 (ch.map (liftR x)) (ns.map (liftR x)) = (combine ch ns).map (liftR x) := by
  have e : liftR x = List.map fun c => (c, ((x, none) : Bnd)) := rfl
  cases ch <;> cases ns <;> simp [combine2, combine, e, List.map_flatten]

structure SpecSem (pay : Payload) (r2 : Rel2) (x : Nat) (r : Rule) : Prop where
  chain : r.chain2 pay r2 (x, none) = (r.chain pay x).map (liftR x)
  nexts : r.nextsOf2 pay r2 (x, none) = (r.nextsOf pay x).map (liftR x)
  group : r.group2 pay r2 (x, none) = (r.group pay x).map (liftR x)

structure SpecsSem (pay : Payload) (r2 : Rel2) (x : Nat) (rs : Rules) : Prop where
  chainFirst : rs.chainFirst2 pay r2 (x, none) = (rs.chainFirst pay x).map (liftR x)
  firstFiring : rs.firstFiring2 pay r2 (x, none) = (rs.firstFiring pay x).map (liftR x)
  nextsIn : rs.nextsIn2 pay r2 (x, none) = (rs.nextsIn pay x).map (liftR x)
  nextGroups : rs.nextGroups2 pay r2 (x, none) = (rs.nextGroups pay x).map (liftR x)

mutual
theorem Rule.spec2_yFree (pay : Payload) (r2 : Rel2) (hy : r2.yFree) (x : Nat) :
    ∀ r : Rule, SpecSem pay r2 x r
  | .mk b refs alts nexts => by
    have hr := Rules.spec2_yFree pay r2 hy x refs
    have ha := Rules.spec2_yFree pay r2 hy x alts
    have hn := Rules.spec2_yFree pay r2 hy x nexts
    have hch : (let exts := holdsExt pay r2 b (x, none)
        if exts.isEmpty then alts.chainFirst2 pay r2 (x, none)
        else some (exts.flatMap fun b' =>
          (refs.firstFiring2 pay r2 b').getD ((pay b).concl.map fun c => (c, b')))) =
        (if (pay b).cond.contains x then some ((refs.firstFiring pay x).getD (pay b).concl)
          else alts.chainFirst pay x).map (liftR x) := by
      simp only [holdsExt_yFree pay r2 hy]
      by_cases hc : x ∈ (pay b).cond
      · simp only [List.contains_iff_mem, hc, decide_true, ↓reduceIte, List.isEmpty_cons, Bool.false_eq_true, List.flatMap_cons, List.flatMap_nil,
          List.append_nil, hr.firstFiring, Option.map_some]
        cases refs.firstFiring pay x <;> simp [liftR]
      · simp [hc, ha.chainFirst]
    refine ⟨?_, ?_, ?_⟩
    · simp only [Rule.chain2, Rule.chain]; exact hch
    · simp only [Rule.nextsOf2, Rule.nextsOf, ha.nextsIn, hn.nextGroups, List.map_append]
    · simp only [Rule.group2, Rule.group]
      rw [hch, ha.nextsIn, hn.nextGroups, ← List.map_append, combine2_lift]
theorem Rules.spec2_yFree (pay : Payload) (r2 : Rel2) (hy : r2.yFree) (x : Nat) :
    ∀ rs : Rules, SpecsSem pay r2 x rs
  | .nil => by
    refine ⟨?_, ?_, ?_, ?_⟩ <;>
      simp [Rules.chainFirst2, Rules.chainFirst, Rules.firstFiring2, Rules.firstFiring, Rules.nextsIn2,
        Rules.nextsIn, Rules.nextGroups2, Rules.nextGroups]
  | .cons r rs => by
    have h1 := Rule.spec2_yFree pay r2 hy x r
    have h2 := Rules.spec2_yFree pay r2 hy x rs
    refine ⟨?_, ?_, ?_, ?_⟩
    · simp only [Rules.chainFirst2, Rules.chainFirst, h1.chain, h2.chainFirst]
      cases r.chain pay x <;> simp
    · simp only [Rules.firstFiring2, Rules.firstFiring, h1.group, h2.firstFiring]
      cases r.group pay x <;> simp
    · simp only [Rules.nextsIn2, Rules.nextsIn, h1.nexts, h2.nextsIn, List.map_append]
    · simp only [Rules.nextGroups2, Rules.nextGroups, h1.group, h2.nextGroups, List.map_append]
      cases r.group pay x <;> simp
end

/-- **C08_spec_conservative.** The two-variable specification on a payload without `y` is `fire`. -/
theorem C08_spec_conservative (pay : Payload) (r2 : Rel2) (hy : r2.yFree) (p : Prog) (dom : List Nat) :
    spec2 pay r2 p dom = (spec pay p dom).map fun r => (r.1, ((r.2, none) : Bnd)) := by
  simp only [spec2, spec, specObs, fire, (Rule.spec2_yFree pay r2 hy _ p.toRule).group, List.map_flatMap]
  apply flatMap_congr'
  intro x _
  cases p.toRule.group pay x <;> simp [liftR, rowOf, keyOf, classUsesY, Function.comp_def]

end KrroodVerif.Rdr
