import KrroodVerif.Model.Descriptor
/-!
# C15 — Property-descriptor inference reaches the full closure in any assertion order

Property theorems (bottom of the file): `C15_sound`, `C15_closed`, `C15_order_independent`, `C15_spec_exec`,
`C15_fields_agree`. The first part is the abstract closure argument (any unary-rule function + transitivity over a
finite rule-closed universe), the second instantiates it with the schema rules (`uRule`: super-properties on the
source, on the role taker, inverse on the target or its role taker) and ties the backing fields to the graph.
-/
namespace KrroodVerif.PD

/-- every rule instance whose premises are in `new` and at least one of which is not in `old`
    has its conclusion in `new` -/
def ClosedRel (R : Rules) (old new : List Fact) : Prop :=
  (∀ p ∈ new, p ∉ old → ∀ q ∈ R.u p, q ∈ new) ∧
  (∀ f a b c, R.tr f = true → (f, a, b) ∈ new → (f, b, c) ∈ new →
      ((f, a, b) ∉ old ∨ (f, b, c) ∉ old) → (f, a, c) ∈ new)

def Closed (R : Rules) (g : List Fact) : Prop := ClosedRel R [] g

structure UClosed (R : Rules) (U : List Fact) : Prop where
  unary : ∀ p ∈ U, ∀ q ∈ R.u p, q ∈ U
  trans : ∀ f a b c, (f, a, b) ∈ U → (f, b, c) ∈ U → (f, a, c) ∈ U

def missing (U g : List Fact) : Nat := (U.filter fun x => !decide (x ∈ g)).length

theorem ClosedRel.comp {R : Rules} {a b c : List Fact} (h1 : ClosedRel R a b) (h2 : ClosedRel R b c)
    (hbc : ∀ x ∈ b, x ∈ c) : ClosedRel R a c := by
  constructor
  · intro p hp hpa q hq
    by_cases hpb : p ∈ b
    · exact hbc _ (h1.1 p hpb hpa q hq)
    · exact h2.1 p hp hpb q hq
  · intro f x y z htr h1' h2' hnew
    by_cases hb : (f, x, y) ∈ b ∧ (f, y, z) ∈ b
    · exact hbc _ (h1.2 f x y z htr hb.1 hb.2 hnew)
    · apply h2.2 f x y z htr h1' h2'
      by_cases hx : (f, x, y) ∈ b
      · right; intro hy; exact hb ⟨hx, hy⟩
      · left; exact hx

theorem ClosedRel.refl (R : Rules) (a : List Fact) : ClosedRel R a a := by
  constructor
  · intro p hp hpa; exact absurd hp hpa
  · intro f x y z _ h1 h2 hnew; rcases hnew with h | h
    · exact absurd h1 h
    · exact absurd h2 h

theorem missing_mono {U g g' : List Fact} (h : ∀ x ∈ g, x ∈ g') : missing U g' ≤ missing U g := by
  unfold missing
  induction U with
  | nil => simp
  | cons a t ih =>
    simp only [List.filter_cons]
    by_cases ha' : a ∈ g'
    · by_cases ha : a ∈ g
      · simp [ha, ha', ih]
      · simp [ha, ha']; omega
    · have ha : a ∉ g := fun hh => ha' (h a hh)
      simp [ha, ha']; omega

theorem missing_cons_lt {U g : List Fact} {r : Fact} (hr : r ∈ U) (hg : r ∉ g) :
    missing U (r :: g) < missing U g := by
  unfold missing
  induction U with
  | nil => simp at hr
  | cons a t ih =>
    simp only [List.filter_cons]
    by_cases har : a = r
    · subst har
      have hle := @missing_mono t g (a :: g) (fun x hx => List.mem_cons_of_mem _ hx)
      unfold missing at hle
      simp [hg] at hle ⊢; omega
    · have hr' : r ∈ t := by
        rcases List.mem_cons.mp hr with h | h
        · exact absurd h.symm har
        · exact h
      have := ih hr'
      by_cases ha : a ∈ g
      · simp [ha, har]; simpa using this
      · simp [ha, har]; simpa using this

structure Post (R : Rules) (U g ts g' : List Fact) : Prop where
  sub : ∀ x ∈ g, x ∈ g'
  mem : ∀ t ∈ ts, t ∈ g'
  inU : ∀ x ∈ g', x ∈ U
  snd : ∀ A : Fact → Prop, (∀ x ∈ g, Derivable R A x) → (∀ t ∈ ts, Derivable R A t) → ∀ x ∈ g', Derivable R A x
  clo : ClosedRel R g g'

theorem Post.nil (R : Rules) (U g : List Fact) (hg : ∀ x ∈ g, x ∈ U) : Post R U g [] g :=
  ⟨fun _ h => h, by simp, hg, fun _ h _ => h, ClosedRel.refl R g⟩

theorem fold_spec (R : Rules) (U : List Fact) (n : Nat)
    (step : ∀ g r, (∀ x ∈ g, x ∈ U) → r ∈ U → missing U g < n → Post R U g [r] (addFact R n g r)) :
    ∀ ts g, (∀ x ∈ g, x ∈ U) → (∀ t ∈ ts, t ∈ U) → missing U g < n →
      Post R U g ts (ts.foldl (fun h t => addFact R n h t) g) := by
  intro ts
  induction ts with
  | nil => intro g hg _ _; exact Post.nil R U g hg
  | cons t ts ih =>
    intro g hg hts hm
    simp only [List.foldl_cons]
    have p1 := step g t hg (hts t (by simp)) hm
    have hm1 : missing U (addFact R n g t) < n := Nat.lt_of_le_of_lt (missing_mono p1.sub) hm
    have p2 := ih (addFact R n g t) p1.inU (fun x hx => hts x (List.mem_cons_of_mem _ hx)) hm1
    refine ⟨fun x hx => p2.sub x (p1.sub x hx), ?_, p2.inU, ?_, ClosedRel.comp p1.clo p2.clo p2.sub⟩
    · intro x hx
      rcases List.mem_cons.mp hx with rfl | hx
      · exact p2.sub _ (p1.mem _ (by simp))
      · exact p2.mem x hx
    · intro A hA hT
      apply p2.snd A
      · exact p1.snd A hA (fun x hx => by simp at hx; subst hx; exact hT _ (by simp))
      · intro x hx; exact hT x (List.mem_cons_of_mem _ hx)

theorem addFact_spec (R : Rules) (U : List Fact) (hU : UClosed R U) :
    ∀ n g r, (∀ x ∈ g, x ∈ U) → r ∈ U → missing U g < n → Post R U g [r] (addFact R n g r) := by
  intro n
  induction n with
  | zero => intro g r _ _ h; exact absurd h (Nat.not_lt_zero _)
  | succ n ih =>
    intro g r hg hr hm
    unfold addFact
    by_cases hmem : r ∈ g
    · simp only [hmem, if_true]
      exact ⟨fun _ h => h, by simpa using hmem, hg, fun _ h _ => h, ClosedRel.refl R g⟩
    · simp only [hmem, if_false]
      -- g1
      have hg1U : ∀ x ∈ r :: g, x ∈ U := by
        intro x hx; rcases List.mem_cons.mp hx with rfl | hx
        · exact hr
        · exact hg x hx
      have hm1 : missing U (r :: g) < n := by
        have := @missing_cons_lt U g r hr hmem; omega
      -- unary fold
      have pu := fold_spec R U n ih (R.u r) (r :: g) hg1U (fun q hq => hU.unary r hr q hq) hm1
      generalize hg2 : (R.u r).foldl (fun h q => addFact R n h q) (r :: g) = g2 at pu
      have hrg2 : r ∈ g2 := pu.sub r (by simp)
      have hgg2 : ∀ x ∈ g, x ∈ g2 := fun x hx => pu.sub x (List.mem_cons_of_mem _ hx)
      have snd2 : ∀ A : Fact → Prop, (∀ x ∈ g, Derivable R A x) → Derivable R A r → ∀ x ∈ g2, Derivable R A x := by
        intro A hA hrA
        apply pu.snd A
        · intro x hx; rcases List.mem_cons.mp hx with rfl | hx
          · exact hrA
          · exact hA x hx
        · intro q hq; exact Derivable.unary hrA hq
      by_cases htr : R.tr r.1 = true
      · simp only [htr, if_true]
        -- outgoing fold
        have hm2 : missing U g2 < n := Nat.lt_of_le_of_lt (missing_mono pu.sub) hm1
        have houtsU : ∀ t ∈ (g2.filter (fun q => q.1 == r.1 && q.2.1 == r.2.2)).map (fun q => (r.1, r.2.1, q.2.2)), t ∈ U := by
          intro t ht
          simp only [List.mem_map, List.mem_filter, Bool.and_eq_true, beq_iff_eq] at ht
          obtain ⟨q, ⟨hq, hq1, hq2⟩, rfl⟩ := ht
          have hqU := pu.inU q hq
          have : q = (r.1, r.2.2, q.2.2) := by rw [← hq1, ← hq2]
          rw [this] at hqU
          exact hU.trans r.1 r.2.1 r.2.2 q.2.2 hr hqU
        have po := fold_spec R U n ih _ g2 pu.inU houtsU hm2
        generalize hg3 : ((g2.filter (fun q => q.1 == r.1 && q.2.1 == r.2.2)).map (fun q => (r.1, r.2.1, q.2.2))).foldl (fun h t => addFact R n h t) g2 = g3 at po
        have hm3 : missing U g3 < n := Nat.lt_of_le_of_lt (missing_mono po.sub) hm2
        have hinsU : ∀ t ∈ (g3.filter (fun q => q.1 == r.1 && q.2.2 == r.2.1)).map (fun q => (r.1, q.2.1, r.2.2)), t ∈ U := by
          intro t ht
          simp only [List.mem_map, List.mem_filter, Bool.and_eq_true, beq_iff_eq] at ht
          obtain ⟨q, ⟨hq, hq1, hq2⟩, rfl⟩ := ht
          have hqU := po.inU q hq
          have : q = (r.1, q.2.1, r.2.1) := by rw [← hq1, ← hq2]
          rw [this] at hqU
          exact hU.trans r.1 q.2.1 r.2.1 r.2.2 hqU hr
        have pi := fold_spec R U n ih _ g3 po.inU hinsU hm3
        generalize hg4 : ((g3.filter (fun q => q.1 == r.1 && q.2.2 == r.2.1)).map (fun q => (r.1, q.2.1, r.2.2))).foldl (fun h t => addFact R n h t) g3 = g4 at pi
        have h24 : ∀ x ∈ g2, x ∈ g4 := fun x hx => pi.sub x (po.sub x hx)
        refine ⟨fun x hx => h24 x (hgg2 x hx), ?_, pi.inU, ?_, ?_⟩
        · intro t ht; simp at ht; subst ht; exact h24 _ hrg2
        · intro A hA hT
          have hrA : Derivable R A r := hT r (by simp)
          have d2 := snd2 A hA hrA
          have d3 : ∀ x ∈ g3, Derivable R A x := by
            apply po.snd A d2
            intro t ht
            simp only [List.mem_map, List.mem_filter, Bool.and_eq_true, beq_iff_eq] at ht
            obtain ⟨q, ⟨hq, hq1, hq2⟩, rfl⟩ := ht
            have hqA := d2 q hq
            have : q = (r.1, r.2.2, q.2.2) := by rw [← hq1, ← hq2]
            rw [this] at hqA
            exact Derivable.trans htr hrA hqA
          apply pi.snd A d3
          intro t ht
          simp only [List.mem_map, List.mem_filter, Bool.and_eq_true, beq_iff_eq] at ht
          obtain ⟨q, ⟨hq, hq1, hq2⟩, rfl⟩ := ht
          have hqA := d3 q hq
          have : q = (r.1, q.2.1, r.2.1) := by rw [← hq1, ← hq2]
          rw [this] at hqA
          exact Derivable.trans htr hqA hrA
        · -- local closure relative to g
          have c14 : ClosedRel R (r :: g) g4 :=
            ClosedRel.comp (ClosedRel.comp pu.clo po.clo po.sub) pi.clo pi.sub
          constructor
          · intro p hp hpg q hq
            by_cases hp1 : p ∈ r :: g
            · have : p = r := by
                rcases List.mem_cons.mp hp1 with h | h
                · exact h
                · exact absurd h hpg
              subst this
              exact h24 q (pu.mem q hq)
            · exact c14.1 p hp hp1 q hq
          · intro f a b c hf h1 h2 hnew
            by_cases hold : (f, a, b) ∈ r :: g ∧ (f, b, c) ∈ r :: g
            · -- one of them is r
              have hcase : (f, a, b) = r ∨ (f, b, c) = r := by
                rcases hnew with h | h
                · left; rcases List.mem_cons.mp hold.1 with h' | h'
                  · exact h'
                  · exact absurd h' h
                · right; rcases List.mem_cons.mp hold.2 with h' | h'
                  · exact h'
                  · exact absurd h' h
              rcases hcase with hr1 | hr2
              · -- r = (f,a,b); partner (f,b,c) ∈ g2, so in outs
                have hp2 : (f, b, c) ∈ g2 := pu.sub _ hold.2
                have : (f, a, c) ∈ (g2.filter (fun q => q.1 == r.1 && q.2.1 == r.2.2)).map (fun q => (r.1, r.2.1, q.2.2)) := by
                  simp only [List.mem_map, List.mem_filter, Bool.and_eq_true, beq_iff_eq]
                  refine ⟨(f, b, c), ⟨hp2, ?_, ?_⟩, ?_⟩ <;> simp [← hr1]
                exact pi.sub _ (po.mem _ this)
              · have hp1 : (f, a, b) ∈ g3 := po.sub _ (pu.sub _ hold.1)
                have : (f, a, c) ∈ (g3.filter (fun q => q.1 == r.1 && q.2.2 == r.2.1)).map (fun q => (r.1, q.2.1, r.2.2)) := by
                  simp only [List.mem_map, List.mem_filter, Bool.and_eq_true, beq_iff_eq]
                  refine ⟨(f, a, b), ⟨hp1, ?_, ?_⟩, ?_⟩ <;> simp [← hr2]
                exact pi.mem _ this
            · apply c14.2 f a b c hf h1 h2
              by_cases hx : (f, a, b) ∈ r :: g
              · right; intro hy; exact hold ⟨hx, hy⟩
              · left; exact hx
      · simp only [htr]
        refine ⟨hgg2, ?_, pu.inU, ?_, ?_⟩
        · intro t ht; simp at ht; subst ht; exact hrg2
        · intro A hA hT; exact snd2 A hA (hT r (by simp))
        · constructor
          · intro p hp hpg q hq
            by_cases hp1 : p ∈ r :: g
            · have : p = r := by
                rcases List.mem_cons.mp hp1 with h | h
                · exact h
                · exact absurd h hpg
              subst this
              exact pu.mem q hq
            · exact pu.clo.1 p hp hp1 q hq
          · intro f a b c hf h1 h2 hnew
            by_cases hold : (f, a, b) ∈ r :: g ∧ (f, b, c) ∈ r :: g
            · exfalso
              have hcase : (f, a, b) = r ∨ (f, b, c) = r := by
                rcases hnew with h | h
                · left; rcases List.mem_cons.mp hold.1 with h' | h'
                  · exact h'
                  · exact absurd h' h
                · right; rcases List.mem_cons.mp hold.2 with h' | h'
                  · exact h'
                  · exact absurd h' h
              rcases hcase with h | h <;> (rw [← h] at htr; exact htr hf)
            · apply pu.clo.2 f a b c hf h1 h2
              by_cases hx : (f, a, b) ∈ r :: g
              · right; intro hy; exact hold ⟨hx, hy⟩
              · left; exact hx

theorem missing_le (U g : List Fact) : missing U g ≤ U.length := by
  unfold missing; exact List.length_filter_le _ _

theorem closed_of_closedRel_nil {R : Rules} {g : List Fact} (h : ClosedRel R [] g) : Closed R g := h

/-- C15 core: after any history, the graph is exactly the derivable closure of what was asserted -/
theorem run_eq_closure (R : Rules) (U : List Fact) (hU : UClosed R U) (hist : List Fact)
    (hh : ∀ t ∈ hist, t ∈ U) (x : Fact) :
    x ∈ run R (U.length + 1) hist ↔ Derivable R (fun y => y ∈ hist) x := by
  have step := addFact_spec R U hU (U.length + 1)
  have P := fold_spec R U (U.length + 1) step hist [] (by simp) hh
    (Nat.lt_succ_of_le (missing_le U []))
  constructor
  · intro hx
    exact P.snd (fun y => y ∈ hist) (by simp) (fun t ht => Derivable.base ht) x hx
  · intro hd
    induction hd with
    | base h => exact P.mem _ h
    | unary _ hq ih => exact P.clo.1 _ ih (by simp) _ hq
    | trans htr _ _ ih1 ih2 => exact P.clo.2 _ _ _ _ htr ih1 ih2 (Or.inl (by simp))

/-- C15: the result does not depend on the order (or repetition) of the assertions -/
theorem run_order_independent (R : Rules) (U : List Fact) (hU : UClosed R U) (h1 h2 : List Fact)
    (hh1 : ∀ t ∈ h1, t ∈ U) (hsame : ∀ t, t ∈ h1 ↔ t ∈ h2) (x : Fact) :
    x ∈ run R (U.length + 1) h1 ↔ x ∈ run R (U.length + 1) h2 := by
  have hh2 : ∀ t ∈ h2, t ∈ U := fun t ht => hh1 t ((hsame t).mpr ht)
  rw [run_eq_closure R U hU h1 hh1, run_eq_closure R U hU h2 hh2]
  have : (fun y => y ∈ h1) = (fun y => y ∈ h2) := by funext y; exact propext (hsame y)
  rw [this]


/-! ### The schema rules live in a finite universe -/

theorem mem_allFacts {nF nO : Nat} {x : Fact} :
    x ∈ allFacts nF nO ↔ x.1 < nF ∧ x.2.1 < nO ∧ x.2.2 < nO := by
  obtain ⟨f, s, t⟩ := x
  simp only [allFacts, List.mem_flatMap, List.mem_range, List.mem_map, Prod.mk.injEq]
  constructor
  · rintro ⟨f', hf, s', hs, t', ht, rfl, rfl, rfl⟩; exact ⟨hf, hs, ht⟩
  · rintro ⟨hf, hs, ht⟩; exact ⟨f, hf, s, hs, t, ht, rfl, rfl, rfl⟩

/-- role takers are objects of the world -/
def World.WF (W : World) : Prop := ∀ o r, W.rtOf o = some r → r < W.size

theorem mem_fieldsOf_lt {S : Schema} {c g : Nat} (h : g ∈ S.fieldsOf c) : g < S.fields.length := by
  simp only [Schema.fieldsOf, List.mem_filter, List.mem_range] at h; exact h.1

theorem mem_superFields_lt {S : Schema} {c p g : Nat} (h : g ∈ S.superFields c p) : g < S.fields.length := by
  simp only [Schema.superFields, List.mem_filter] at h; exact mem_fieldsOf_lt h.1

theorem exactField_lt {S : Schema} {c q g : Nat} (h : S.exactField c q = some g) : g < S.fields.length := by
  simp only [Schema.exactField] at h
  exact mem_fieldsOf_lt (List.mem_of_find?_eq_some h)

theorem uRule_in_universe (S : Schema) (W : World) (hW : W.WF) (p q : Fact)
    (hp : p ∈ allFacts S.fields.length W.size) (hq : q ∈ uRule S W p) :
    q ∈ allFacts S.fields.length W.size := by
  rw [mem_allFacts] at hp ⊢
  obtain ⟨_, hs, ht⟩ := hp
  simp only [uRule, List.mem_append] at hq
  rcases hq with (hq | hq) | hq
  · simp only [List.mem_map] at hq
    obtain ⟨g, hg, rfl⟩ := hq
    exact ⟨mem_superFields_lt hg, hs, ht⟩
  · cases hr : W.rtOf p.2.1 with
    | none => simp [hr] at hq
    | some x =>
      simp only [hr, List.mem_map] at hq
      obtain ⟨g, hg, rfl⟩ := hq
      exact ⟨mem_superFields_lt hg, hW _ _ hr, ht⟩
  · cases hi : S.inverseOf (S.propOf p.1) with
    | none => simp [hi] at hq
    | some iq =>
      simp only [hi] at hq
      cases he : S.exactField (W.clsOf p.2.2) iq with
      | some g =>
        simp only [he, List.mem_singleton] at hq
        subst hq
        exact ⟨exactField_lt he, ht, hs⟩
      | none =>
        simp only [he] at hq
        cases hr : W.rtOf p.2.2 with
        | none => simp [hr] at hq
        | some x =>
          simp only [hr] at hq
          cases he2 : S.exactField (W.clsOf x) iq with
          | none => simp [he2] at hq
          | some g =>
            simp only [he2, List.mem_singleton] at hq
            subst hq
            exact ⟨exactField_lt he2, hW _ _ hr, hs⟩

theorem schema_UClosed (S : Schema) (W : World) (hW : W.WF) :
    UClosed (schemaRules S W) (allFacts S.fields.length W.size) := by
  constructor
  · intro p hp q hq; exact uRule_in_universe S W hW p q hp hq
  · intro f a b c h1 h2
    rw [mem_allFacts] at h1 h2 ⊢
    exact ⟨h1.1, h1.2.1, h2.2.2⟩

/-! ### The executable specification (naive saturation) computes `Derivable` -/

theorem mem_addNew (g xs : List Fact) (x : Fact) : x ∈ addNew g xs ↔ x ∈ g ∨ x ∈ xs := by
  unfold addNew
  induction xs generalizing g with
  | nil => simp
  | cons y ys ih =>
    simp only [List.foldl_cons]
    rw [ih]
    by_cases hy : y ∈ g
    · simp only [hy, if_true, List.mem_cons]
      constructor
      · rintro (h | h); exact Or.inl h; exact Or.inr (Or.inr h)
      · rintro (h | h | h); exact Or.inl h; exact Or.inl (h ▸ hy); exact Or.inr h
    · simp only [hy, if_false, List.mem_cons]
      constructor
      · rintro ((h | h) | h); exact Or.inr (Or.inl h); exact Or.inl h; exact Or.inr (Or.inr h)
      · rintro (h | h | h); exact Or.inl (Or.inr h); exact Or.inl (Or.inl h); exact Or.inr h

theorem mem_consequences (R : Rules) (g : List Fact) (x : Fact) :
    x ∈ consequences R g ↔
      (∃ p ∈ g, x ∈ R.u p) ∨
      (∃ p ∈ g, R.tr p.1 = true ∧ ∃ q ∈ g, q.1 = p.1 ∧ q.2.1 = p.2.2 ∧ x = (p.1, p.2.1, q.2.2)) := by
  simp only [consequences, List.mem_append, List.mem_flatMap]
  constructor
  · rintro (h | ⟨p, hp, h⟩)
    · exact Or.inl h
    · right
      by_cases ht : R.tr p.1 = true
      · simp only [ht, if_true, List.mem_map, List.mem_filter, Bool.and_eq_true, beq_iff_eq] at h
        obtain ⟨q, ⟨hq, h1, h2⟩, rfl⟩ := h
        exact ⟨p, hp, ht, q, hq, h1, h2, rfl⟩
      · simp [ht] at h
  · rintro (h | ⟨p, hp, ht, q, hq, h1, h2, rfl⟩)
    · exact Or.inl h
    · right
      refine ⟨p, hp, ?_⟩
      simp only [ht, if_true, List.mem_map, List.mem_filter, Bool.and_eq_true, beq_iff_eq]
      exact ⟨q, ⟨hq, h1, h2⟩, rfl⟩

theorem consequences_sound (R : Rules) (A : Fact → Prop) (g : List Fact)
    (hg : ∀ x ∈ g, Derivable R A x) : ∀ x ∈ consequences R g, Derivable R A x := by
  intro x hx
  rw [mem_consequences] at hx
  rcases hx with ⟨p, hp, hx⟩ | ⟨p, hp, ht, q, hq, h1, h2, rfl⟩
  · exact Derivable.unary (hg p hp) hx
  · have dp := hg p hp
    have dq := hg q hq
    have ep : p = (p.1, p.2.1, p.2.2) := rfl
    have eq' : q = (p.1, p.2.2, q.2.2) := by rw [← h1, ← h2]
    rw [ep] at dp; rw [eq'] at dq
    exact Derivable.trans ht dp dq

theorem saturate_spec (R : Rules) (A : Fact → Prop) :
    ∀ n g, (∀ x ∈ g, Derivable R A x) → (∀ x, A x → x ∈ g) →
      (∀ x ∈ (saturate R n g).1, Derivable R A x) ∧
      ((saturate R n g).2 = true → ∀ x, Derivable R A x → x ∈ (saturate R n g).1) := by
  intro n
  induction n with
  | zero => intro g hg _; exact ⟨by simpa [saturate] using hg, by simp [saturate]⟩
  | succ n ih =>
    intro g hg hA
    unfold saturate
    by_cases hall : (consequences R g).all (fun x => decide (x ∈ g)) = true
    · simp only [hall, if_true]
      refine ⟨hg, fun _ x hx => ?_⟩
      simp only [List.all_eq_true, decide_eq_true_eq] at hall
      induction hx with
      | base h => exact hA _ h
      | unary _ hq ih' =>
        exact hall _ ((mem_consequences R g _).mpr (Or.inl ⟨_, ih', hq⟩))
      | trans htr _ _ ih1 ih2 =>
        exact hall _ ((mem_consequences R g _).mpr (Or.inr ⟨_, ih1, htr, _, ih2, rfl, rfl, rfl⟩))
    · simp only [hall]
      apply ih
      · intro x hx
        rcases (mem_addNew _ _ _).mp hx with h | h
        · exact hg x h
        · exact consequences_sound R A g hg x h
      · intro x hx; exact (mem_addNew _ _ _).mpr (Or.inl (hA x hx))

theorem consequences_in_universe (R : Rules) (U : List Fact) (hU : UClosed R U) (g : List Fact)
    (hg : ∀ x ∈ g, x ∈ U) : ∀ x ∈ consequences R g, x ∈ U := by
  intro x hx
  rw [mem_consequences] at hx
  rcases hx with ⟨p, hp, hx⟩ | ⟨p, hp, _, q, hq, h1, h2, rfl⟩
  · exact hU.unary p (hg p hp) x hx
  · have hpU := hg p hp
    have hqU := hg q hq
    have ep : p = (p.1, p.2.1, p.2.2) := rfl
    have eq' : q = (p.1, p.2.2, q.2.2) := by rw [← h1, ← h2]
    rw [ep] at hpU; rw [eq'] at hqU
    exact hU.trans _ _ _ _ hpU hqU

/-- the saturation stops with a fixpoint before the fuel runs out, when the fuel exceeds the number of facts of a
rule-closed universe that are still missing -/
theorem saturate_converges (R : Rules) (U : List Fact) (hU : UClosed R U) :
    ∀ n g, (∀ x ∈ g, x ∈ U) → missing U g < n → (saturate R n g).2 = true := by
  intro n
  induction n with
  | zero => intro g _ h; exact absurd h (Nat.not_lt_zero _)
  | succ n ih =>
    intro g hg hm
    unfold saturate
    by_cases hall : (consequences R g).all (fun x => decide (x ∈ g)) = true
    · simp only [hall, if_true]
    · simp only [hall]
      have hcU := consequences_in_universe R U hU g hg
      apply ih
      · intro x hx
        rcases (mem_addNew _ _ _).mp hx with h | h
        · exact hg x h
        · exact hcU x h
      · have hall' : (consequences R g).all (fun x => decide (x ∈ g)) = false := by simpa using hall
        simp only [List.all_eq_false, decide_eq_true_eq] at hall'
        obtain ⟨x, hx, hxg⟩ := hall'
        have h1 : missing U (addNew g (consequences R g)) ≤ missing U (x :: g) := by
          apply missing_mono
          intro y hy
          rcases List.mem_cons.mp hy with rfl | hy
          · exact (mem_addNew _ _ _).mpr (Or.inr hx)
          · exact (mem_addNew _ _ _).mpr (Or.inl hy)
        have h2 := @missing_cons_lt U g x (hcU x hx) hxg
        omega

/-! ### `addCore` (graph + fields) projects to `addFact`; it never touches the clobber flag -/

theorem foldl_proj {α β γ : Type} (π : α → γ) (F : α → β → α) (G : γ → β → γ)
    (h : ∀ a b, π (F a b) = G (π a) b) : ∀ (ts : List β) (a : α), π (ts.foldl F a) = ts.foldl G (π a) := by
  intro ts
  induction ts with
  | nil => intro a; rfl
  | cons t ts ih => intro a; simp only [List.foldl_cons]; rw [ih, h]

theorem addCore_g (R : Rules) (K : Nat → Kind) :
    ∀ n σ r b, (addCore R K n σ r b).g = addFact R n σ.g r := by
  intro n
  induction n with
  | zero => intro σ r b; rfl
  | succ n ih =>
    intro σ r b
    have hf : ∀ (ts : List Fact) (a : State),
        (ts.foldl (fun h q => addCore R K n h q true) a).g = ts.foldl (fun h q => addFact R n h q) a.g :=
      foldl_proj State.g _ _ (fun a q => ih a q true)
    unfold addCore addFact
    by_cases hm : r ∈ σ.g
    · simp only [hm, if_true]
    · simp only [hm, if_false]
      cases ht : R.tr r.1
      · simp only [Bool.false_eq_true, if_false, hf]
      · simp only [if_true, hf]

theorem foldl_inv {α β : Type} (P : α → Prop) (F : α → β → α) (h : ∀ a b, P a → P (F a b)) :
    ∀ (ts : List β) (a : α), P a → P (ts.foldl F a) := by
  intro ts
  induction ts with
  | nil => intro a ha; exact ha
  | cons t ts ih => intro a ha; exact ih _ (h a t ha)

theorem addCore_clob (R : Rules) (K : Nat → Kind) :
    ∀ n σ r b, (addCore R K n σ r b).clob = σ.clob := by
  intro n
  induction n with
  | zero => intro σ r b; rfl
  | succ n ih =>
    intro σ r b
    have hf : ∀ (ts : List Fact) (a : State),
        (ts.foldl (fun h q => addCore R K n h q true) a).clob = a.clob :=
      fun ts a => foldl_proj State.clob _ (fun c _ => c) (fun a q => ih a q true) ts a |>.trans (by
        induction ts with
        | nil => rfl
        | cons _ _ ih' => simpa using ih')
    unfold addCore
    by_cases hm : r ∈ σ.g
    · simp only [hm, if_true]
    · simp only [hm, if_false]
      cases ht : R.tr r.1
      · simp only [Bool.false_eq_true, if_false, hf]
      · simp only [if_true, hf]

/-! ### The backing fields agree with the graph -/

/-- the backing fields agree with the graph, except possibly at fact `e` (an asserted relation whose element is
stored only after its inference has run: `_on_add` comes before `super().append`) -/
structure FieldsAgree (K : Nat → Kind) (ex : List Fact) (σ : State) : Prop where
  cont : ∀ f s t, K f ≠ .single → (f, s, t) ∉ ex → (t ∈ σ.st f s ↔ (f, s, t) ∈ σ.g)
  sing : ∀ f s v, K f = .single → v ∈ σ.st f s → (f, s, v) ∈ σ.g
  nonempty : ∀ f s t, K f = .single → (f, s, t) ∈ σ.g → σ.st f s ≠ []

theorem Store.get_set (st : Store) (f o f' o' : Nat) (v : List Nat) :
    st.set f o v f' o' = if f' = f ∧ o' = o then v else st f' o' := by
  show Store.get _ _ _ = _
  simp only [Store.get, Store.set, List.find?_cons]
  by_cases h : f' = f ∧ o' = o
  · obtain ⟨rfl, rfl⟩ := h; simp
  · have : ((f == f') && (o == o')) = false := by
      simp only [Bool.and_eq_false_imp, beq_iff_eq, beq_eq_false_iff_ne]
      intro hf ho; exact h ⟨hf.symm, ho.symm⟩
    simp only [this, h, if_false]

theorem Store.set_same (st : Store) (f o : Nat) (v : List Nat) : st.set f o v f o = v := by
  simp [Store.get_set]

theorem Store.set_other (st : Store) (f o f' o' : Nat) (v : List Nat) (h : ¬ (f' = f ∧ o' = o)) :
    st.set f o v f' o' = st f' o' := by
  simp [Store.get_set, h]

theorem FieldsAgree.congr {K : Nat → Kind} {ex : List Fact} {σ τ : State} (h : FieldsAgree K ex σ)
    (hg : τ.g = σ.g) (hs : ∀ f s, τ.st f s = σ.st f s) : FieldsAgree K ex τ :=
  ⟨fun f s t a b => by rw [hs, hg]; exact h.cont f s t a b,
   fun f s v a b => by rw [hs] at b; rw [hg]; exact h.sing f s v a b,
   fun f s t a b => by rw [hg] at b; rw [hs]; exact h.nonempty f s t a b⟩

/-- what is left of `add_to_graph` after the new relation has been inserted preserves every predicate that
recursive (inferred) calls preserve -/
theorem addCore_succ_preserves (R : Rules) (K : Nat → Kind) (n : Nat) (P : State → Prop)
    (hP : ∀ σ q, P σ → P (addCore R K n σ q true)) (σ : State) (r : Fact) (b : Bool)
    (h1 : r ∈ σ.g → P σ)
    (h2 : r ∉ σ.g → P { σ with g := r :: σ.g, st := if b then updateValue K σ.st r else σ.st,
                                inf := if b then markInf K σ r else σ.inf }) :
    P (addCore R K (n + 1) σ r b) := by
  have hf : ∀ (ts : List Fact) (a : State), P a → P (ts.foldl (fun h q => addCore R K n h q true) a) :=
    foldl_inv P _ (fun a q ha => hP a q ha)
  unfold addCore
  by_cases hm : r ∈ σ.g
  · simp only [hm, if_true]; exact h1 hm
  · simp only [hm, if_false]
    have p1 := h2 hm
    cases ht : R.tr r.1
    · simp only [Bool.false_eq_true, if_false]; exact hf _ _ p1
    · simp only [if_true]; exact hf _ _ (hf _ _ (hf _ _ p1))

theorem agree_insert_inferred (K : Nat → Kind) (e : List Fact) (σ : State) (r : Fact) (inf' : List Fact)
    (h : FieldsAgree K e σ) :
    FieldsAgree K e { σ with g := r :: σ.g, st := updateValue K σ.st r, inf := inf' } := by
  obtain ⟨f0, s0, t0⟩ := r
  cases hk : K f0 with
  | single =>
    have hst : ∀ f s, (updateValue K σ.st (f0, s0, t0)) f s =
        if f = f0 ∧ s = s0 then [t0] else σ.st f s := by
      intro f s
      simp only [updateValue, hk]
      by_cases hc : σ.st f0 s0 = [t0]
      · simp only [hc, if_true]
        by_cases hfs : f = f0 ∧ s = s0
        · simp [hfs, hc]
        · simp [hfs]
      · simp only [hc, if_false, Store.get_set]
    refine ⟨?_, ?_, ?_⟩
    · intro f s t hkf hne
      have hff : f ≠ f0 := fun hh => hkf (hh ▸ hk)
      have : ¬ (f = f0 ∧ s = s0) := fun hh => hff hh.1
      simp only [hst, if_false, List.mem_cons, Prod.mk.injEq, hff, false_and, false_or]
      exact h.cont f s t hkf hne
    · intro f s v hkf hv
      simp only [hst] at hv
      by_cases hfs : f = f0 ∧ s = s0
      · simp only [hfs, and_self, if_true, List.mem_singleton] at hv
        simp [hfs.1, hfs.2, hv]
      · simp only [hfs, if_false] at hv
        exact List.mem_cons_of_mem _ (h.sing f s v hkf hv)
    · intro f s t hkf hm
      simp only [hst]
      by_cases hfs : f = f0 ∧ s = s0
      · simp [hfs]
      · simp only [hfs, if_false]
        simp only [List.mem_cons, Prod.mk.injEq] at hm
        rcases hm with ⟨a, b, _⟩ | hm
        · exact absurd ⟨a, b⟩ hfs
        · exact h.nonempty f s t hkf hm
  | list | set =>
    all_goals
    have hkn : K f0 ≠ .single := by rw [hk]; decide
    have hst : ∀ f s t, t ∈ (updateValue K σ.st (f0, s0, t0)) f s ↔
        (t ∈ σ.st f s ∨ (f = f0 ∧ s = s0 ∧ t = t0)) := by
      intro f s t
      simp only [updateValue, hk]
      by_cases hc : t0 ∈ σ.st f0 s0
      · simp only [hc, if_true]
        constructor
        · exact Or.inl
        · rintro (hh | ⟨rfl, rfl, rfl⟩); exact hh; exact hc
      · simp only [hc, if_false, Store.get_set]
        by_cases hfs : f = f0 ∧ s = s0
        · obtain ⟨rfl, rfl⟩ := hfs
          simp [List.mem_append]
        · simp only [hfs, if_false]
          constructor
          · exact Or.inl
          · rintro (hh | ⟨a, b, _⟩); exact hh; exact absurd ⟨a, b⟩ hfs
    have hsame : ∀ f s, K f = .single → (updateValue K σ.st (f0, s0, t0)) f s = σ.st f s := by
      intro f s hkf
      have hff : f ≠ f0 := fun hh => hkn (hh ▸ hkf)
      simp only [updateValue, hk]
      split
      · rfl
      · simp [Store.get_set, hff]
    refine ⟨?_, ?_, ?_⟩
    · intro f s t hkf hne
      simp only [hst, List.mem_cons, Prod.mk.injEq]
      rw [h.cont f s t hkf hne]
      constructor
      · rintro (hh | hh); exact Or.inr hh; exact Or.inl hh
      · rintro (hh | hh); exact Or.inr hh; exact Or.inl hh
    · intro f s v hkf hv
      change v ∈ updateValue K σ.st (f0, s0, t0) f s at hv
      rw [hsame f s hkf] at hv
      exact List.mem_cons_of_mem _ (h.sing f s v hkf hv)
    · intro f s t hkf hm
      show updateValue K σ.st (f0, s0, t0) f s ≠ []
      rw [hsame f s hkf]
      have hff : f ≠ f0 := fun hh => hkn (hh ▸ hkf)
      simp only [List.mem_cons, Prod.mk.injEq, hff, false_and, false_or] at hm
      exact h.nonempty f s t hkf hm

theorem addCore_agree (R : Rules) (K : Nat → Kind) (e : List Fact) :
    ∀ n σ r, FieldsAgree K e σ → FieldsAgree K e (addCore R K n σ r true) := by
  intro n
  induction n with
  | zero => intro σ r h; exact h
  | succ n ih =>
    intro σ r h
    apply addCore_succ_preserves R K n (FieldsAgree K e) ih σ r true
    · intro _; exact h
    · intro _; exact agree_insert_inferred K e σ r _ h

theorem addFact_mono (R : Rules) : ∀ n g r x, x ∈ g → x ∈ addFact R n g r := by
  intro n
  induction n with
  | zero => intro g r x h; exact h
  | succ n ih =>
    intro g r x h
    have hf : ∀ (ts : List Fact) (a : List Fact), x ∈ a → x ∈ ts.foldl (fun h q => addFact R n h q) a :=
      foldl_inv (fun a => x ∈ a) _ (fun a q ha => ih a q x ha)
    unfold addFact
    by_cases hm : r ∈ g
    · simp only [hm, if_true]; exact h
    · simp only [hm, if_false]
      have h1 : x ∈ r :: g := List.mem_cons_of_mem _ h
      cases ht : R.tr r.1
      · simp only [Bool.false_eq_true, if_false]; exact hf _ _ h1
      · simp only [if_true]; exact hf _ _ (hf _ _ (hf _ _ h1))

theorem addFact_self (R : Rules) (n : Nat) (g : List Fact) (r : Fact) : r ∈ addFact R (n + 1) g r := by
  have hf : ∀ (ts : List Fact) (a : List Fact), r ∈ a → r ∈ ts.foldl (fun h q => addFact R n h q) a :=
    foldl_inv (fun a => r ∈ a) _ (fun a q ha => addFact_mono R n a q r ha)
  unfold addFact
  by_cases hm : r ∈ g
  · simp only [hm, if_true]
  · simp only [hm, if_false]
    have h1 : r ∈ r :: g := List.mem_cons_self
    cases ht : R.tr r.1
    · simp only [Bool.false_eq_true, if_false]; exact hf _ _ h1
    · simp only [if_true]; exact hf _ _ (hf _ _ (hf _ _ h1))

/-- `_add_item` on a container field keeps the fields in agreement with the graph (outside any exclusion list) -/
theorem addItem_agree (R : Rules) (K : Nat → Kind) (n : Nat) (σ : State) (f s t : Nat) (ex : List Fact)
    (hk : K f ≠ .single) (h : FieldsAgree K ex σ) :
    FieldsAgree K ex (addItem R K (n + 1) σ f s t) := by
  have hweak : ∀ τ : State, FieldsAgree K ex τ → FieldsAgree K ((f, s, t) :: ex) τ :=
    fun τ hτ => ⟨fun f' s' t' a b => hτ.cont f' s' t' a (fun hh => b (List.mem_cons_of_mem _ hh)), hτ.sing, hτ.nonempty⟩
  have h' : FieldsAgree K ((f, s, t) :: ex) (addCore R K (n + 1) σ (f, s, t) false) := by
    apply addCore_succ_preserves R K n _ (addCore_agree R K _ n) σ (f, s, t) false
    · intro _; exact hweak σ h
    · intro hm
      refine ⟨?_, ?_, ?_⟩
      · intro f' s' t' hkf hne
        have hne' : (f', s', t') ≠ (f, s, t) := fun hh => hne (by rw [hh]; exact List.mem_cons_self)
        have hne2 : (f', s', t') ∉ ex := fun hh => hne (List.mem_cons_of_mem _ hh)
        show t' ∈ σ.st f' s' ↔ (f', s', t') ∈ (f, s, t) :: σ.g
        rw [h.cont f' s' t' hkf hne2]
        simp [hne']
      · intro f' s' v hkf hv
        exact List.mem_cons_of_mem _ (h.sing f' s' v hkf hv)
      · intro f' s' t' hkf hm'
        have hff : f' ≠ f := fun hh => hk (hh ▸ hkf)
        change (f', s', t') ∈ (f, s, t) :: σ.g at hm'
        simp only [List.mem_cons, Prod.mk.injEq, hff, false_and, false_or] at hm'
        exact h.nonempty f' s' t' hkf hm'
  have hr : (f, s, t) ∈ (addCore R K (n + 1) σ (f, s, t) false).g := by
    rw [addCore_g]; exact addFact_self R n σ.g (f, s, t)
  unfold addItem
  generalize addCore R K (n + 1) σ (f, s, t) false = τ at h' hr ⊢
  have hmem : ∀ t', t' ∈ storeAdd (K f) (τ.st f s) t ↔ (t' ∈ τ.st f s ∨ t' = t) := by
    intro t'
    unfold storeAdd
    cases hkf : K f with
    | single => exact absurd hkf hk
    | list => simp [List.mem_append]
    | set =>
      by_cases hc : t ∈ τ.st f s
      · simp only [hc, if_true]
        constructor
        · exact Or.inl
        · rintro (hh | rfl); exact hh; exact hc
      · simp [hc, List.mem_append]
  refine ⟨?_, ?_, ?_⟩
  · intro f' s' t' hkf hex
    show t' ∈ (τ.st.set f s _) f' s' ↔ (f', s', t') ∈ τ.g
    by_cases hfs : f' = f ∧ s' = s
    · obtain ⟨rfl, rfl⟩ := hfs
      rw [Store.set_same, hmem]
      by_cases ht : t' = t
      · subst ht; simp [hr]
      · have hne : (f', s', t') ∉ (f', s', t) :: ex := by
          intro hh
          rcases List.mem_cons.mp hh with h1 | h1
          · simp only [Prod.mk.injEq, true_and] at h1; exact ht h1
          · exact hex h1
        rw [h'.cont f' s' t' hkf hne]; simp [ht]
    · rw [Store.set_other _ _ _ _ _ _ hfs]
      have hne : (f', s', t') ∉ (f, s, t) :: ex := by
        intro hh
        rcases List.mem_cons.mp hh with h1 | h1
        · simp only [Prod.mk.injEq] at h1; exact hfs ⟨h1.1, h1.2.1⟩
        · exact hex h1
      exact h'.cont f' s' t' hkf hne
  · intro f' s' v hkf hv
    have hff : ¬ (f' = f ∧ s' = s) := fun hh => hk (hh.1 ▸ hkf)
    change v ∈ (τ.st.set f s _) f' s' at hv
    rw [Store.set_other _ _ _ _ _ _ hff] at hv
    exact h'.sing f' s' v hkf hv
  · intro f' s' t' hkf hm
    have hff : ¬ (f' = f ∧ s' = s) := fun hh => hk (hh.1 ▸ hkf)
    show (τ.st.set f s _) f' s' ≠ []
    rw [Store.set_other _ _ _ _ _ _ hff]
    exact h'.nonempty f' s' t' hkf hm

theorem addItem_clob (R : Rules) (K : Nat → Kind) (n : Nat) (σ : State) (f s t : Nat) :
    (addItem R K n σ f s t).clob = σ.clob := by
  simp only [addItem]; exact addCore_clob R K n σ (f, s, t) false

theorem addItem_g (R : Rules) (K : Nat → Kind) (n : Nat) (σ : State) (f s t : Nat) :
    (addItem R K n σ f s t).g = addFact R n σ.g (f, s, t) := by
  simp only [addItem]; exact addCore_g R K n σ (f, s, t) false

theorem foldl_cond {α β : Type} (p : β → Bool) (F : α → β → α) : ∀ (xs : List β) (a : α),
    xs.foldl (fun a t => if p t then a else F a t) a = (xs.filter fun t => !p t).foldl F a := by
  intro xs
  induction xs with
  | nil => intro a; rfl
  | cons x xs ih =>
    intro a
    simp only [List.foldl_cons, List.filter_cons]
    cases hp : p x
    · simp only [Bool.false_eq_true, if_false, Bool.not_false, if_true, List.foldl_cons]; exact ih _
    · simp only [if_true, Bool.not_true, Bool.false_eq_true, if_false]; exact ih _

/-- one assertion of the history: graph part -/
theorem step_g (R : Rules) (K : Nat → Kind) (n : Nat) (σ : State) (op : Op) :
    (step R K n σ op).g = op.facts.foldl (fun g r => addFact R n g r) σ.g := by
  cases op with
  | churn => rfl
  | storeOnly f s t => rfl
  | assignQ f s xs muted =>
    simp only [step, Op.facts, List.foldl_map]
    rw [← foldl_cond (fun t => muted.contains t) (fun g t => addFact R n g (f, s, t))]
    exact foldl_proj State.g _ (fun g t => if muted.contains t then g else addFact R n g (f, s, t))
      (fun a t => by
        by_cases hm : muted.contains t = true
        · simp only [hm, if_true]
        · simp only [hm]; exact addItem_g R K n a f s t) _ _
  | set1 f s t => simp only [step, Op.facts, List.foldl_cons, List.foldl_nil]; rw [addCore_g]
  | add f s t => simp only [step, Op.facts, List.foldl_cons, List.foldl_nil]; rw [addItem_g]
  | assign f s xs =>
    simp only [step, Op.facts, List.foldl_map, reAdd]
    exact foldl_proj State.g _ (fun g t => addFact R n g (f, s, t)) (fun a t => addItem_g R K n a f s t) _ _

theorem runOps_g (R : Rules) (K : Nat → Kind) (n : Nat) (ops : List Op) :
    (runOps R K n ops).g = run R n (asserted ops) := by
  unfold runOps run asserted
  have : ∀ (σ : State), (ops.foldl (step R K n) σ).g =
      (ops.flatMap Op.facts).foldl (fun g r => addFact R n g r) σ.g := by
    induction ops with
    | nil => intro σ; rfl
    | cons op ops ih =>
      intro σ
      simp only [List.foldl_cons, List.flatMap_cons, List.foldl_append]
      rw [ih, step_g]
  exact this State.init

theorem step_clob_false (R : Rules) (K : Nat → Kind) (n : Nat) (σ : State) (op : Op)
    (h : (step R K n σ op).clob = false) : σ.clob = false := by
  cases op with
  | churn => exact h
  | storeOnly f s t => exact h
  | assignQ f s xs muted =>
    simp only [step] at h
    have := foldl_proj State.clob
      (fun h t => if muted.contains t then { h with st := h.st.set f s (storeAdd (K f) (h.st f s) t) }
        else addItem R K n h f s t) (fun c _ => c)
      (fun a t => by
        by_cases hm : muted.contains t = true
        · simp only [hm, if_true]
        · simp only [hm]; exact addItem_clob R K n a f s t) xs
      { σ with st := σ.st.set f s [], clob := σ.clob || !(σ.st f s).isEmpty }
    rw [this] at h
    have hc : ∀ (ts : List Nat) (c : Bool), ts.foldl (fun c _ => c) c = c := by
      intro ts; induction ts with
      | nil => intro c; rfl
      | cons _ _ ih => intro c; simpa using ih c
    rw [hc] at h
    simp only [Bool.or_eq_false_iff] at h
    exact h.1
  | set1 f s t => simpa [step, addCore_clob] using h
  | add f s t => simpa [step, addItem_clob] using h
  | assign f s xs =>
    simp only [step, reAdd] at h
    have := foldl_proj State.clob (fun h t => addItem R K n h f s t) (fun c _ => c)
      (fun a t => addItem_clob R K n a f s t) xs
      { σ with st := σ.st.set f s [], clob := σ.clob || (σ.st f s).any (fun t => !σ.inf.contains (f, s, t)) }
    rw [this] at h
    have hc : ∀ (ts : List Nat) (c : Bool), ts.foldl (fun c _ => c) c = c := by
      intro ts; induction ts with
      | nil => intro c; rfl
      | cons _ _ ih => intro c; simpa using ih c
    rw [hc] at h
    simp only [Bool.or_eq_false_iff] at h
    exact h.1

/-! ### What inference put into the fields (`_inferred_items`) -/

/-- every element remembered as inferred belongs to a relation of the graph, on a container field -/
def MarkInv (K : Nat → Kind) (σ : State) : Prop := ∀ r ∈ σ.inf, r ∈ σ.g ∧ K r.1 ≠ .single

theorem mem_markInf (K : Nat → Kind) (σ : State) (r x : Fact) (h : x ∈ markInf K σ r) :
    x ∈ σ.inf ∨ (x = r ∧ K r.1 ≠ .single) := by
  unfold markInf at h
  cases hk : K r.1 with
  | single => simp only [hk] at h; exact Or.inl h
  | list =>
    simp only [hk] at h
    split at h
    · exact Or.inl h
    · rcases List.mem_append.mp h with h | h
      · exact Or.inl h
      · simp only [List.mem_singleton] at h; exact Or.inr ⟨h, by simp⟩
  | set =>
    simp only [hk] at h
    split at h
    · exact Or.inl h
    · rcases List.mem_append.mp h with h | h
      · exact Or.inl h
      · simp only [List.mem_singleton] at h; exact Or.inr ⟨h, by simp⟩

theorem markInf_mono (K : Nat → Kind) (σ : State) (r x : Fact) (h : x ∈ σ.inf) : x ∈ markInf K σ r := by
  unfold markInf
  split
  · exact h
  · split
    · exact h
    · exact List.mem_append_left _ h

theorem addCore_markinv (R : Rules) (K : Nat → Kind) :
    ∀ n σ r b, MarkInv K σ → MarkInv K (addCore R K n σ r b) := by
  intro n
  induction n with
  | zero => intro σ r b h; exact h
  | succ n ih =>
    intro σ r b h
    apply addCore_succ_preserves R K n (MarkInv K) (fun σ q hσ => ih σ q true hσ) σ r b
    · intro _; exact h
    · intro _ x hx
      have hx' : x ∈ σ.inf ∨ (x = r ∧ K r.1 ≠ .single) := by
        cases b
        · exact Or.inl hx
        · exact mem_markInf K σ r x hx
      rcases hx' with hx' | ⟨rfl, hk⟩
      · exact ⟨List.mem_cons_of_mem _ (h x hx').1, (h x hx').2⟩
      · exact ⟨List.mem_cons_self, hk⟩

theorem addCore_inf_mono (R : Rules) (K : Nat → Kind) (x : Fact) :
    ∀ n σ r b, x ∈ σ.inf → x ∈ (addCore R K n σ r b).inf := by
  intro n
  induction n with
  | zero => intro σ r b h; exact h
  | succ n ih =>
    intro σ r b h
    apply addCore_succ_preserves R K n (fun τ => x ∈ τ.inf) (fun σ q hσ => ih σ q true hσ) σ r b
    · intro _; exact h
    · intro _
      cases b
      · exact h
      · exact markInf_mono K σ r x h

theorem addItem_markinv (R : Rules) (K : Nat → Kind) (n : Nat) (σ : State) (f s t : Nat) (h : MarkInv K σ) :
    MarkInv K (addItem R K n σ f s t) := addCore_markinv R K n σ (f, s, t) false h

theorem addItem_inf_mono (R : Rules) (K : Nat → Kind) (n : Nat) (σ : State) (f s t : Nat) (x : Fact)
    (h : x ∈ σ.inf) : x ∈ (addItem R K n σ f s t).inf := addCore_inf_mono R K x n σ (f, s, t) false h

theorem addItem_g_mono (R : Rules) (K : Nat → Kind) (n : Nat) (σ : State) (f s t : Nat) (x : Fact)
    (h : x ∈ σ.g) : x ∈ (addItem R K n σ f s t).g := by
  rw [addItem_g]; exact addFact_mono R n σ.g (f, s, t) x h

theorem mem_inferredOf (σ : State) (f s t : Nat) : t ∈ inferredOf σ f s ↔ (f, s, t) ∈ σ.inf := by
  simp only [inferredOf, List.mem_map, List.mem_filter, Bool.and_eq_true, beq_iff_eq]
  constructor
  · rintro ⟨r, ⟨hr, h1, h2⟩, rfl⟩
    have : r = (f, s, r.2.2) := by rw [← h1, ← h2]
    rw [← this]; exact hr
  · intro h; exact ⟨(f, s, t), ⟨h, rfl, rfl⟩, rfl⟩

theorem mem_foldl_addMissing (xs : List Nat) : ∀ (c : List Nat) (y : Nat),
    y ∈ xs.foldl (fun c t => if t ∈ c then c else c ++ [t]) c ↔ y ∈ c ∨ y ∈ xs := by
  induction xs with
  | nil => intro c y; simp
  | cons x xs ih =>
    intro c y
    simp only [List.foldl_cons, ih, List.mem_cons]
    by_cases hx : x ∈ c
    · simp only [hx, if_true]
      constructor
      · rintro (h | h); exact Or.inl h; exact Or.inr (Or.inr h)
      · rintro (h | rfl | h); exact Or.inl h; exact Or.inl hx; exact Or.inr h
    · simp only [hx, if_false, List.mem_append, List.mem_singleton]
      constructor
      · rintro ((h | h) | h); exact Or.inl h; exact Or.inr (Or.inl h); exact Or.inr (Or.inr h)
      · rintro (h | h | h); exact Or.inl (Or.inl h); exact Or.inl (Or.inr h); exact Or.inr h

theorem step_markinv (R : Rules) (K : Nat → Kind) (n : Nat) (σ : State) (op : Op) (h : MarkInv K σ) :
    MarkInv K (step R K n σ op) := by
  cases op with
  | churn => exact h
  | storeOnly f s t => exact h
  | set1 f s t => exact addCore_markinv R K n _ (f, s, t) false h
  | add f s t => exact addItem_markinv R K n σ f s t h
  | assign f s xs =>
    simp only [step]
    have : MarkInv K (xs.foldl (fun h t => addItem R K n h f s t)
        { σ with st := σ.st.set f s [], clob := σ.clob || (σ.st f s).any (fun t => !σ.inf.contains (f, s, t)) }) :=
      foldl_inv (MarkInv K) _ (fun a t ha => addItem_markinv R K n a f s t ha) _ _ h
    exact this
  | assignQ f s xs muted =>
    simp only [step]
    apply foldl_inv (MarkInv K) _ _ _ _
      (show MarkInv K { σ with st := σ.st.set f s [], clob := σ.clob || !(σ.st f s).isEmpty } from h)
    intro a t ha
    by_cases hm : muted.contains t = true
    · simp only [hm, if_true]; exact ha
    · simp only [hm]; exact addItem_markinv R K n a f s t ha

theorem step_agree (R : Rules) (K : Nat → Kind) (n : Nat) (σ : State) (op : Op)
    (hwk : op.wellKinded K = true) (hc : (step R K (n + 1) σ op).clob = false)
    (hmk : MarkInv K σ)
    (h : FieldsAgree K [] σ) : FieldsAgree K [] (step R K (n + 1) σ op) := by
  cases op with
  | churn => exact h
  | storeOnly f s t => simp [Op.wellKinded] at hwk
  | assignQ f s xs muted => simp [Op.wellKinded] at hwk
  | set1 f s t =>
    simp only [Op.wellKinded, beq_iff_eq] at hwk
    simp only [step]
    apply addCore_succ_preserves R K n _ (addCore_agree R K _ n)
    · intro hm
      refine ⟨?_, ?_, ?_⟩
      · intro f' s' t' hkf hne
        have hff : ¬ (f' = f ∧ s' = s) := fun hh => hkf (hh.1 ▸ hwk)
        show t' ∈ (σ.st.set f s [t]) f' s' ↔ _
        rw [Store.set_other _ _ _ _ _ _ hff]; exact h.cont f' s' t' hkf hne
      · intro f' s' v hkf hv
        change v ∈ (σ.st.set f s [t]) f' s' at hv
        by_cases hfs : f' = f ∧ s' = s
        · obtain ⟨rfl, rfl⟩ := hfs
          rw [Store.set_same] at hv
          simp only [List.mem_singleton] at hv; subst hv; exact hm
        · rw [Store.set_other _ _ _ _ _ _ hfs] at hv; exact h.sing f' s' v hkf hv
      · intro f' s' t' hkf hm'
        show (σ.st.set f s [t]) f' s' ≠ []
        by_cases hfs : f' = f ∧ s' = s
        · obtain ⟨rfl, rfl⟩ := hfs; rw [Store.set_same]; simp
        · rw [Store.set_other _ _ _ _ _ _ hfs]; exact h.nonempty f' s' t' hkf hm'
    · intro hm
      refine ⟨?_, ?_, ?_⟩
      · intro f' s' t' hkf hne
        have hff : ¬ (f' = f ∧ s' = s) := fun hh => hkf (hh.1 ▸ hwk)
        have hne' : (f', s', t') ≠ (f, s, t) := fun hh => hff (by simp only [Prod.mk.injEq] at hh; exact ⟨hh.1, hh.2.1⟩)
        show t' ∈ (σ.st.set f s [t]) f' s' ↔ (f', s', t') ∈ (f, s, t) :: σ.g
        rw [Store.set_other _ _ _ _ _ _ hff, h.cont f' s' t' hkf hne]
        simp [hne']
      · intro f' s' v hkf hv
        change v ∈ (σ.st.set f s [t]) f' s' at hv
        show (f', s', v) ∈ (f, s, t) :: σ.g
        by_cases hfs : f' = f ∧ s' = s
        · obtain ⟨rfl, rfl⟩ := hfs
          rw [Store.set_same] at hv
          simp only [List.mem_singleton] at hv; subst hv; exact List.mem_cons_self
        · rw [Store.set_other _ _ _ _ _ _ hfs] at hv
          exact List.mem_cons_of_mem _ (h.sing f' s' v hkf hv)
      · intro f' s' t' hkf hm'
        show (σ.st.set f s [t]) f' s' ≠ []
        by_cases hfs : f' = f ∧ s' = s
        · obtain ⟨rfl, rfl⟩ := hfs; rw [Store.set_same]; simp
        · rw [Store.set_other _ _ _ _ _ _ hfs]
          change (f', s', t') ∈ (f, s, t) :: σ.g at hm'
          simp only [List.mem_cons, Prod.mk.injEq] at hm'
          rcases hm' with ⟨a, b, _⟩ | hm'
          · exact absurd ⟨a, b⟩ hfs
          · exact h.nonempty f' s' t' hkf hm'
  | add f s t =>
    simp only [Op.wellKinded, bne_iff_ne, ne_eq] at hwk
    exact addItem_agree R K n σ f s t [] hwk h
  | assign f s xs =>
    simp only [Op.wellKinded, bne_iff_ne, ne_eq] at hwk
    simp only [step] at hc ⊢
    -- every element the field held was put there by inference
    have hcl : (σ.clob || (σ.st f s).any (fun t => !σ.inf.contains (f, s, t))) = false := by
      simp only [reAdd] at hc
      have := foldl_proj State.clob (fun h t => addItem R K (n + 1) h f s t) (fun c _ => c)
        (fun a t => addItem_clob R K (n + 1) a f s t) xs
        { σ with st := σ.st.set f s [], clob := σ.clob || (σ.st f s).any (fun t => !σ.inf.contains (f, s, t)) }
      rw [this] at hc
      have hcc : ∀ (ts : List Nat) (c : Bool), ts.foldl (fun c _ => c) c = c := by
        intro ts; induction ts with
        | nil => intro c; rfl
        | cons _ _ ih => intro c; simpa using ih c
      rw [hcc] at hc; exact hc
    have hold : ∀ t ∈ σ.st f s, (f, s, t) ∈ σ.inf := by
      simp only [Bool.or_eq_false_iff, List.any_eq_false, Bool.not_eq_true, Bool.not_eq_false',
        List.contains_iff_mem] at hcl
      intro t ht; simpa using hcl.2 t ht
    -- after the clear the fields agree with the graph except for the elements that were cleared
    have A0 : FieldsAgree K ((σ.st f s).map fun t => (f, s, t))
        { σ with st := σ.st.set f s [], clob := σ.clob || (σ.st f s).any (fun t => !σ.inf.contains (f, s, t)) } := by
      refine ⟨?_, ?_, ?_⟩
      · intro f' s' t' hkf hex
        show t' ∈ (σ.st.set f s []) f' s' ↔ (f', s', t') ∈ σ.g
        by_cases hfs : f' = f ∧ s' = s
        · obtain ⟨rfl, rfl⟩ := hfs
          rw [Store.set_same]
          have hnot : t' ∉ σ.st f' s' := fun hh => hex (List.mem_map.mpr ⟨t', hh, rfl⟩)
          rw [← h.cont f' s' t' hkf (by simp)]
          simp [hnot]
        · rw [Store.set_other _ _ _ _ _ _ hfs]; exact h.cont f' s' t' hkf (by simp)
      · intro f' s' v hkf hv
        have hff : ¬ (f' = f ∧ s' = s) := fun hh => hwk (hh.1 ▸ hkf)
        change v ∈ (σ.st.set f s []) f' s' at hv
        rw [Store.set_other _ _ _ _ _ _ hff] at hv
        exact h.sing f' s' v hkf hv
      · intro f' s' t' hkf hm
        have hff : ¬ (f' = f ∧ s' = s) := fun hh => hwk (hh.1 ▸ hkf)
        show (σ.st.set f s []) f' s' ≠ []
        rw [Store.set_other _ _ _ _ _ _ hff]
        exact h.nonempty f' s' t' hkf hm
    -- the adds keep that, the graph and the remembered inferred elements only grow
    let P : State → Prop := fun τ =>
      FieldsAgree K ((σ.st f s).map fun t => (f, s, t)) τ ∧ MarkInv K τ ∧ (∀ x ∈ σ.g, x ∈ τ.g) ∧ (∀ x ∈ σ.inf, x ∈ τ.inf)
    have A1 : P (xs.foldl (fun h t => addItem R K (n + 1) h f s t)
        { σ with st := σ.st.set f s [], clob := σ.clob || (σ.st f s).any (fun t => !σ.inf.contains (f, s, t)) }) := by
      apply foldl_inv P _ _ _ _ ⟨A0, hmk, fun x hx => hx, fun x hx => hx⟩
      intro a t ⟨h1, h2, h3, h4⟩
      exact ⟨addItem_agree R K n a f s t _ hwk h1, addItem_markinv R K (n + 1) a f s t h2,
        fun x hx => addItem_g_mono R K (n + 1) a f s t x (h3 x hx),
        fun x hx => addItem_inf_mono R K (n + 1) a f s t x (h4 x hx)⟩
    generalize xs.foldl (fun h t => addItem R K (n + 1) h f s t)
        { σ with st := σ.st.set f s [], clob := σ.clob || (σ.st f s).any (fun t => !σ.inf.contains (f, s, t)) } = τ at A1 ⊢
    obtain ⟨h1, h2, h3, h4⟩ := A1
    -- the inferred elements come back: nothing is excluded any more
    refine ⟨?_, ?_, ?_⟩
    · intro f' s' t' hkf _
      show t' ∈ (τ.st.set f s _) f' s' ↔ (f', s', t') ∈ τ.g
      by_cases hfs : f' = f ∧ s' = s
      · obtain ⟨rfl, rfl⟩ := hfs
        rw [Store.set_same, mem_foldl_addMissing, mem_inferredOf]
        by_cases hM : (f', s', t') ∈ (σ.st f' s').map fun t => (f', s', t)
        · have hold' : t' ∈ σ.st f' s' := by
            obtain ⟨t0, ht0, he⟩ := List.mem_map.mp hM
            simp only [Prod.mk.injEq, true_and] at he; exact he ▸ ht0
          have hg : (f', s', t') ∈ τ.g := h3 _ ((h.cont f' s' t' hkf (by simp)).mp hold')
          have hi : (f', s', t') ∈ τ.inf := h4 _ (hold t' hold')
          exact ⟨fun _ => hg, fun _ => Or.inr hi⟩
        · constructor
          · rintro (hh | hh)
            · exact (h1.cont f' s' t' hkf hM).mp hh
            · exact (h2 _ hh).1
          · intro hh; exact Or.inl ((h1.cont f' s' t' hkf hM).mpr hh)
      · rw [Store.set_other _ _ _ _ _ _ hfs]
        have hM : (f', s', t') ∉ (σ.st f s).map fun t => (f, s, t) := by
          intro hh
          obtain ⟨t0, _, he⟩ := List.mem_map.mp hh
          simp only [Prod.mk.injEq] at he; exact hfs ⟨he.1.symm, he.2.1.symm⟩
        exact h1.cont f' s' t' hkf hM
    · intro f' s' v hkf hv
      have hff : ¬ (f' = f ∧ s' = s) := fun hh => hwk (hh.1 ▸ hkf)
      change v ∈ (τ.st.set f s _) f' s' at hv
      rw [Store.set_other _ _ _ _ _ _ hff] at hv
      exact h1.sing f' s' v hkf hv
    · intro f' s' t' hkf hm
      have hff : ¬ (f' = f ∧ s' = s) := fun hh => hwk (hh.1 ▸ hkf)
      show (τ.st.set f s _) f' s' ≠ []
      rw [Store.set_other _ _ _ _ _ _ hff]
      exact h1.nonempty f' s' t' hkf hm

/-! ## The property theorems -/

/-- every asserted fact speaks about declared fields and objects of the world -/
def InWorld (S : Schema) (W : World) (ops : List Op) : Prop :=
  ∀ r ∈ asserted ops, r ∈ allFacts S.fields.length W.size

theorem runModel_g (S : Schema) (W : World) (ops : List Op) :
    (runModel S W ops).g = run (schemaRules S W) (fuelFor S W) (asserted ops) :=
  runOps_g _ _ _ ops

/-- **C15_sound.** Every relation in the graph after any history is derivable from the asserted facts by the
declared rules (super-property, role taker, inverse, transitivity). -/
theorem C15_sound (S : Schema) (W : World) (hW : W.WF) (ops : List Op) (hin : InWorld S W ops) (x : Fact) :
    x ∈ (runModel S W ops).g → Derivable (schemaRules S W) (fun y => y ∈ asserted ops) x := by
  rw [runModel_g]
  exact (run_eq_closure (schemaRules S W) _ (schema_UClosed S W hW) (asserted ops) hin x).mp

/-- **C15_closed.** Every derivable relation is in the graph: the incremental update rule reaches the full
closure (the insertion-time argument; fuel = number of possible facts + 1). -/
theorem C15_closed (S : Schema) (W : World) (hW : W.WF) (ops : List Op) (hin : InWorld S W ops) (x : Fact) :
    Derivable (schemaRules S W) (fun y => y ∈ asserted ops) x → x ∈ (runModel S W ops).g := by
  rw [runModel_g]
  exact (run_eq_closure (schemaRules S W) _ (schema_UClosed S W hW) (asserted ops) hin x).mpr

theorem mem_asserted {ops : List Op} {r : Fact} : r ∈ asserted ops ↔ ∃ op ∈ ops, r ∈ op.facts := by
  simp [asserted, List.mem_flatMap]

/-- **C15_order_independent.** Two histories that assert the same facts — in particular every permutation of a
history, and every repetition — end with the same relations. -/
theorem C15_order_independent (S : Schema) (W : World) (hW : W.WF) (ops1 ops2 : List Op)
    (hin : InWorld S W ops1) (hsame : ∀ r, r ∈ asserted ops1 ↔ r ∈ asserted ops2) (x : Fact) :
    x ∈ (runModel S W ops1).g ↔ x ∈ (runModel S W ops2).g := by
  rw [runModel_g, runModel_g]
  exact run_order_independent (schemaRules S W) _ (schema_UClosed S W hW) _ _ hin hsame x

theorem C15_order_independent_perm (S : Schema) (W : World) (hW : W.WF) (ops1 ops2 : List Op)
    (hin : InWorld S W ops1) (hperm : ops1.Perm ops2) (x : Fact) :
    x ∈ (runModel S W ops1).g ↔ x ∈ (runModel S W ops2).g := by
  apply C15_order_independent S W hW ops1 ops2 hin
  intro r
  rw [mem_asserted, mem_asserted]
  constructor
  · rintro ⟨op, h1, h2⟩; exact ⟨op, hperm.mem_iff.mp h1, h2⟩
  · rintro ⟨op, h1, h2⟩; exact ⟨op, hperm.mem_iff.mpr h1, h2⟩

/-- **C15_spec_exec.** The executable specification the correspondence prints (`closure`, naive saturation that
stopped because a round added nothing) is exactly `Derivable`. -/
theorem C15_spec_exec (R : Rules) (n : Nat) (A : List Fact) (hconv : (closure R n A).2 = true) (x : Fact) :
    x ∈ (closure R n A).1 ↔ Derivable R (fun y => y ∈ A) x := by
  have h := saturate_spec R (fun y => y ∈ A) n (addNew [] A)
    (fun x hx => Derivable.base (by
      rcases (mem_addNew _ _ _).mp hx with h | h
      · simp at h
      · exact h))
    (fun x hx => (mem_addNew _ _ _).mpr (Or.inr hx))
  exact ⟨h.1 x, h.2 hconv x⟩

/-- the executable specification never runs out of fuel on histories over the schema and world -/
theorem C15_spec_total (S : Schema) (W : World) (hW : W.WF) (A : List Fact)
    (hA : ∀ r ∈ A, r ∈ allFacts S.fields.length W.size) :
    (closure (schemaRules S W) (fuelFor S W) A).2 = true := by
  unfold closure fuelFor
  apply saturate_converges (schemaRules S W) _ (schema_UClosed S W hW)
  · intro x hx
    rcases (mem_addNew _ _ _).mp hx with h | h
    · simp at h
    · exact hA x h
  · exact Nat.lt_succ_of_le (missing_le _ _)

/-- **C15_fields_agree.** After every well-kinded history in which no collection assignment replaced an earlier
ASSERTED element (the trigger of F-C15-3; elements put into a field by inference survive an assignment), the backing
fields agree with the graph: a container field holds exactly the targets of its relations; a single-valued field
holds one of its targets, and holds a value whenever it has a relation. -/
theorem C15_fields_agree (S : Schema) (W : World) (ops : List Op)
    (hwk : ∀ op ∈ ops, op.wellKinded S.kindOf = true) (hc : (runModel S W ops).clob = false) :
    FieldsAgree S.kindOf [] (runModel S W ops) := by
  unfold runModel runOps fuelFor at *
  have key : ∀ (ops : List Op) (σ : State), (∀ op ∈ ops, op.wellKinded S.kindOf = true) →
      (σ.clob = false → FieldsAgree S.kindOf [] σ) → MarkInv S.kindOf σ →
      (ops.foldl (step (schemaRules S W) S.kindOf ((allFacts S.fields.length W.size).length + 1)) σ).clob = false →
      FieldsAgree S.kindOf []
        (ops.foldl (step (schemaRules S W) S.kindOf ((allFacts S.fields.length W.size).length + 1)) σ) := by
    intro ops
    induction ops with
    | nil => intro σ _ h _ hc; exact h hc
    | cons op ops ih =>
      intro σ hwk h hmk hc
      simp only [List.foldl_cons] at hc ⊢
      apply ih _ (fun o ho => hwk o (List.mem_cons_of_mem _ ho)) _ (step_markinv _ _ _ σ op hmk) hc
      intro hc1
      exact step_agree _ _ _ σ op (hwk op List.mem_cons_self) hc1 hmk
        (h (step_clob_false _ _ _ σ op hc1))
  apply key ops State.init hwk _ (by intro r hr; simp [State.init] at hr) hc
  intro _
  have hinit : ∀ f s, State.init.st f s = [] := fun _ _ => rfl
  exact ⟨by intro f s t _ _; rw [hinit]; simp [State.init], by intro f s v _ hv; rw [hinit] at hv; simp at hv,
    by intro f s t _ hm; simp [State.init] at hm⟩

/-- **C15_fields_closure.** Fields and closure directly: under the hypotheses of the theorems above, a container
field of an object holds exactly the derivable targets; a single-valued field holds a derivable target, and holds
one whenever there is any. -/
theorem C15_fields_closure (S : Schema) (W : World) (hW : W.WF) (ops : List Op) (hin : InWorld S W ops)
    (hwk : ∀ op ∈ ops, op.wellKinded S.kindOf = true) (hc : (runModel S W ops).clob = false) :
    (∀ f s t, S.kindOf f ≠ .single →
      (t ∈ (runModel S W ops).st f s ↔ Derivable (schemaRules S W) (fun y => y ∈ asserted ops) (f, s, t))) ∧
    (∀ f s v, S.kindOf f = .single → v ∈ (runModel S W ops).st f s →
      Derivable (schemaRules S W) (fun y => y ∈ asserted ops) (f, s, v)) ∧
    (∀ f s t, S.kindOf f = .single → Derivable (schemaRules S W) (fun y => y ∈ asserted ops) (f, s, t) →
      (runModel S W ops).st f s ≠ []) := by
  have fa := C15_fields_agree S W ops hwk hc
  refine ⟨?_, ?_, ?_⟩
  · intro f s t hk
    rw [fa.cont f s t hk (by simp)]
    exact ⟨C15_sound S W hW ops hin _, C15_closed S W hW ops hin _⟩
  · intro f s v hk hv
    exact C15_sound S W hW ops hin _ (fa.sing f s v hk hv)
  · intro f s t hk hd
    exact fa.nonempty f s t hk (C15_closed S W hW ops hin _ hd)

/-! Non-vacuity (tests, not the unbounded claim): a university-like schema — fields 0 `works_for` (Person, WorksFor,
single), 1 `member_of` (Person, MemberOf, list), 2 `members` (Company, Member, set), 3 `sub_organization_of`
(Company, transitive, list); WorksFor ⊂ MemberOf, Member ↔ MemberOf; objects 0 Person, 1 2 3 Company. -/
def exSchema : Schema :=
  { fields := [⟨0, 2, .single, []⟩, ⟨0, 1, .list, []⟩, ⟨1, 0, .set, []⟩, ⟨1, 3, .list, []⟩],
    supers := [(2, [1])], inverse := [(0, 1), (1, 0), (2, 0)], transProps := [3] }
def exWorld : World := { cls := [0, 1, 1, 1], rt := [none, none, none, none] }
def exOps : List Op := [.set1 0 0 1, .add 3 2 3, .add 3 1 2]

example : exWorld.WF := by intro o r h; simp [World.rtOf, exWorld] at h; rcases o with _ | _ | _ | _ | _ <;> simp_all
example : ∀ op ∈ exOps, op.wellKinded exSchema.kindOf = true := by decide
example : ∀ r ∈ asserted exOps, r.1 < 4 ∧ r.2.1 < 4 ∧ r.2.2 < 4 := by decide
example : (runModel exSchema exWorld exOps).clob = false := by decide
/-- the inferred target is written into the field before the asserted element is stored -/
example : (runModel exSchema exWorld exOps).st 3 1 = [3, 2] ∧ (runModel exSchema exWorld exOps).st 2 1 = [0] ∧
    (runModel exSchema exWorld exOps).g.length = 6 := by decide
example : (closure (schemaRules exSchema exWorld) (fuelFor exSchema exWorld) (asserted exOps)).2 = true := by decide
/-- F-C15-2 (test): `p.member_of.append(c)` while `c` is falsy — stored, not asserted: field and graph disagree and the
inverse is never inferred -/
theorem C15_cex_falsy_not_recorded :
    let σ := runModel exSchema exWorld [.storeOnly 1 0 1]
    σ.st 1 0 = [1] ∧ σ.g = [] ∧
    (runModel exSchema exWorld [.add 1 0 1]).g.length = 2 := by decide

/-- F-C15-1, repaired (test): `c.members = {p}` then `p.member_of = [d]` — the element inference had put into the
field survives the assignment, field and graph agree -/
theorem C15_assign_keeps_inferred :
    let σ := runModel exSchema exWorld [.assign 2 1 [0], .assign 1 0 [2]]
    σ.clob = false ∧ (1, 0, 1) ∈ σ.g ∧ σ.st 1 0 = [2, 1] := by decide

/-- F-C15-3 (test): re-assignment replaces an earlier ASSERTED element; its relation (and the inverse) stay in the
graph — there is no retraction — so field and graph disagree -/
theorem C15_cex_reassign_asserted :
    let σ := runModel exSchema exWorld [.assign 1 0 [1], .assign 1 0 [2]]
    σ.clob = true ∧ (1, 0, 1) ∈ σ.g ∧ (2, 1, 0) ∈ σ.g ∧ σ.st 1 0 = [2] := by decide

end KrroodVerif.PD
