import KrroodVerif.Model.Dom
import KrroodVerif.Model.DomIdx
import KrroodVerif.Lemmas.DomLemmas
/-!
# C03 — Evaluations are repeatable and do not interfere (M-DOM part)

Property theorems only; the helper lemmas are in `Lemmas/DomLemmas.lean`.

* the machine of the code as it is: `run` over `State` (`Model/Dom.lean`: `step`, `qnext`, `run1`, `run`, `init` —
  validated against `HashedIterable.__iter__` by the schedule-enumerating correspondence);
* the repaired machine: `runIdx` over `StateIdx` (`Model/DomIdx.lean`, index cursors advancing with `stepIdx`);
* the specification `specRun n sats`: every `next()` on an iterator of query `i` returns the next element of
  `isolated n (sats i)` — what the same query returns when it runs alone on a fresh query — and `stop` after the last.

All theorems are unbounded: every domain size `n`, every family of queries `sats`, every schedule length, any number
of iterators, any number of re-evaluations and abandonments.
-/
namespace KrroodVerif.Dom

/-- **C03_nonoverlap_partial** (the code as it is; implies `C03_sequential_partial`). For every schedule in which the
*consumption phases* of the evaluations do not overlap (`noOverlap`: an iterator may be advanced if it is the one
advanced last, or if it has never been advanced — in which case the one advanced before is never advanced again
unless it is restarted; iterators may be created in any order and in advance, abandoned at any point, and any query
may be evaluated any number of times), every `next()` returns exactly what the specification says. -/
theorem C03_nonoverlap_partial (n : Nat) (sats : Nat → List Nat) (ops : List Op)
    (hno : noOverlap ops = true) : run sats (init n) ops = specRun n sats [] ops :=
  run_noOverlap n sats ops (init n) [] none []
    ⟨by simp [init], (by intro c hc; cases hc), (by intro c hc; cases hc)⟩ hno

/-- **C03_sequential_partial** (the code as it is). For every domain size, every family of queries and every
schedule in which evaluations do not overlap (`sequential`: once another iterator has been started, an earlier one is
never advanced again; any iterator may be abandoned at any point, or never; any query may be evaluated any number of
times), every `next()` returns exactly what the same query returns when it runs alone on a fresh query.

In particular the fuel of `qnext` never runs out and `RuntimeError` never occurs on such schedules. -/
theorem C03_sequential_partial (n : Nat) (sats : Nat → List Nat) (ops : List Op)
    (hseq : sequential ops = true) : run sats (init n) ops = specRun n sats [] ops :=
  C03_nonoverlap_partial n sats ops (sequential_noOverlap hseq)

/-- the same from any reachable configuration: a state whose `cache ++ rest` is the domain, with the live iterator
(if any) in a good state (see `NoInv`), continues like the specification. `C03_nonoverlap_partial` is the instance
`s = init n`. -/
theorem C03_nonoverlap_partial_from (n : Nat) (sats : Nat → List Nat) (ops : List Op) (s : State)
    (st : List (Nat × Nat)) (act : Option Nat) (fresh : List Nat) (hinv : NoInv n sats s st act fresh)
    (hno : noOverlapAux act fresh ops = true) : run sats s ops = specRun n sats st ops :=
  run_noOverlap n sats ops s st act fresh hinv hno

/-- **C03_full** (the repaired machine: every iterator is an index into `cache ++ rest`). For EVERY schedule — any
interleaving of any number of iterators, nested loops, abandonment, re-evaluation — every `next()` returns exactly
what the same query returns when it runs alone on a fresh query. No hypothesis on the schedule. -/
theorem C03_full (n : Nat) (sats : Nat → List Nat) (ops : List Op) :
    runIdx sats (initIdx n) ops = specRun n sats [] ops :=
  run_full n sats ops (initIdx n) [] ⟨by simp [initIdx], (by intro i _; rfl), (by intro i q h; cases h)⟩

/-- the same from any configuration satisfying the invariant `FullInv` -/
theorem C03_full_from (n : Nat) (sats : Nat → List Nat) (ops : List Op) (s : StateIdx) (st : List (Nat × Nat))
    (hinv : FullInv n sats s st) : runIdx sats s ops = specRun n sats st ops :=
  run_full n sats ops s st hinv

/-- on non-overlapping schedules the code as it is and the repaired machine are indistinguishable -/
theorem C03_repair_conservative (n : Nat) (sats : Nat → List Nat) (ops : List Op) (hno : noOverlap ops = true) :
    runIdx sats (initIdx n) ops = run sats (init n) ops := by
  rw [C03_full, C03_nonoverlap_partial n sats ops hno]

/-- **C03_alone.** what `isolated` means in the machine of the code as it is: a query evaluated alone on a fresh
domain, consumed to the end, yields exactly the satisfying elements of the domain in domain order, then `stop`. -/
theorem C03_alone (n : Nat) (sats : Nat → List Nat) (i : Nat) :
    run sats (init n) (.start i :: List.replicate ((isolated n (sats i)).length + 1) (.next i)) =
      none :: (isolated n (sats i)).map (fun x => some (.val x)) ++ [some .stop] := by
  rw [C03_sequential_partial n sats _ (by simp only [sequential, sequentialAux]; exact sequentialAux_replicate i _ _)]
  simp only [specRun]
  rw [specRun_complete n sats i _ 0 _ (by simp) (by simp)]
  simp

/-- the same for the repaired machine -/
theorem C03_alone_idx (n : Nat) (sats : Nat → List Nat) (i : Nat) :
    runIdx sats (initIdx n) (.start i :: List.replicate ((isolated n (sats i)).length + 1) (.next i)) =
      none :: (isolated n (sats i)).map (fun x => some (.val x)) ++ [some .stop] := by
  rw [C03_full]
  simp only [specRun]
  rw [specRun_complete n sats i _ 0 _ (by simp) (by simp)]
  simp

/-- **C03_abandon_irrelevant** (the code as it is, every schedule and every state). If iterator `i` is not advanced
in `post` before it is started again, then inserting `abandon i` between `pre` and `post` only inserts a `none` at
that position of the output (first conjunct); equivalently, removing such an `abandon i` only removes its `none`
(second conjunct). All other outputs are unchanged. -/
theorem C03_abandon_irrelevant (sats : Nat → List Nat) (s : State) (pre post : List Op) (i : Nat)
    (h : neverAdvanced i post = true) :
    run sats s (pre ++ .abandon i :: post) =
      (run sats s (pre ++ post)).take pre.length ++ none :: (run sats s (pre ++ post)).drop pre.length ∧
    (run sats s (pre ++ .abandon i :: post)).eraseIdx pre.length = run sats s (pre ++ post) := by
  have hlen := run_length sats pre s
  have key : run sats (stateAfter sats s pre) (.abandon i :: post) =
      none :: run sats (stateAfter sats s pre) post := by
    simp only [run, run1]
    congr 1
    refine run_agree sats post _ _ (some i) rfl ?_ (by intro k hk; cases hk; exact h)
    intro j hj
    have hji : j ≠ i := by rintro rfl; exact hj rfl
    simp only [State.get, lookup_filter_ne _ _ _ hji]
  rw [run_append, run_append, key]
  constructor
  · rw [List.take_left' hlen, List.drop_left' hlen]
  · rw [List.eraseIdx_append_of_length_le (Nat.le_of_eq hlen), hlen, Nat.sub_self]
    rfl

/-! ## Counter-examples for the code as it is (tests by `decide`; = witnesses of finding F-C03-1) -/

/-- both queries are satisfied by every element of the domain `[0, 1, 2]` -/
def cexSats : Nat → List Nat := fun _ => [0, 1, 2]

/-- a nested loop: the outer iterator takes one element, the inner one runs to the end, the outer one continues -/
def cexOps : List Op :=
  [.start 0, .next 0, .start 1, .next 1, .next 1, .next 1, .next 1, .next 0, .next 0]

/-- **C03_cex_interleaved.** On the nested-loop schedule the outer iterator gets `stop` where the specification says
`1` (the inner evaluation drained the shared one-shot generator; the outer cursor is past the cache replay), the
schedule is not `sequential`/`noOverlap`, and the repaired machine agrees with the specification. -/
theorem C03_cex_interleaved :
    run cexSats (init 3) cexOps ≠ specRun 3 cexSats [] cexOps ∧
    run cexSats (init 3) cexOps =
      [none, some (.val 0), none, some (.val 0), some (.val 1), some (.val 2), some .stop,
       some .stop, some .stop] ∧
    specRun 3 cexSats [] cexOps =
      [none, some (.val 0), none, some (.val 0), some (.val 1), some (.val 2), some .stop,
       some (.val 1), some (.val 2)] ∧
    sequential cexOps = false ∧ noOverlap cexOps = false ∧
    runIdx cexSats (initIdx 3) cexOps = specRun 3 cexSats [] cexOps := by
  decide

/-- iterator 1 is replaying the cache (dict view of size 1) when iterator 0 pulls the generator and grows the dict -/
def cexOpsErr : List Op := [.start 0, .next 0, .start 1, .next 1, .next 0, .next 1]

/-- **C03_cex_runtime_error.** Second witness: the last `next` raises `RuntimeError` ("dictionary changed size during
iteration") where the specification says `1`. (The shorter schedule `[start 0, next 0, start 1, next 1, next 0]` does
*not* fail: iterator 0 is already draining the generator, see the `example` below.) -/
theorem C03_cex_runtime_error :
    run cexSats (init 3) cexOpsErr =
      [none, some (.val 0), none, some (.val 0), some (.val 1), some .runtimeError] ∧
    specRun 3 cexSats [] cexOpsErr =
      [none, some (.val 0), none, some (.val 0), some (.val 1), some (.val 1)] ∧
    sequential cexOpsErr = false ∧ noOverlap cexOpsErr = false ∧
    runIdx cexSats (initIdx 3) cexOpsErr = specRun 3 cexSats [] cexOpsErr := by
  decide

/-- an overlapping schedule that happens to agree with the specification (the discipline is sufficient, not
necessary) -/
example :
    run cexSats (init 3) [.start 0, .next 0, .start 1, .next 1, .next 0] =
      specRun 3 cexSats [] [.start 0, .next 0, .start 1, .next 1, .next 0] ∧
    run cexSats (init 3) [.start 0, .next 0, .start 1, .next 1, .next 0] =
      [none, some (.val 0), none, some (.val 0), some (.val 1)] ∧
    sequential [.start 0, .next 0, .start 1, .next 1, .next 0] = false := by
  decide

/-! ## Non-vacuity of the hypotheses (tests by `decide`) -/

/-- two different queries over the domain `[0, 1, 2, 3]`, and one nothing satisfies -/
def nvSats : Nat → List Nat
  | 0 => [1, 3]
  | 1 => [0, 2, 3]
  | _ => []

def nvOps : List Op :=
  [.start 0, .next 0, .abandon 0,                              -- q0 partially consumed, then dropped
   .start 1, .next 1, .next 1,                                 -- q1 partially consumed, never closed
   .start 0, .next 0, .next 0, .next 0, .next 0,               -- q0 evaluated again, to the end and beyond
   .abandon 1, .start 1, .next 1, .next 1, .next 1, .next 1,   -- q1 evaluated again, completely
   .start 2, .next 2]                                          -- a query nothing satisfies

/-- iterators created in advance, consumed one after the other: not `sequential`, but `noOverlap` -/
def nvOps2 : List Op :=
  [.start 0, .start 1, .next 0, .next 0, .next 1, .abandon 0, .next 1, .next 1, .next 1]

/-- **C03_sequential_decidable_nonvacuous.** The hypothesis of `C03_sequential_partial` is decidable and is met by
non-trivial schedules (two different queries, partial consumption, abandonment, re-evaluation) whose outputs contain
real elements. -/
theorem C03_sequential_decidable_nonvacuous :
    sequential nvOps = true ∧
    run nvSats (init 4) nvOps =
      [none, some (.val 1), none,
       none, some (.val 0), some (.val 2),
       none, some (.val 1), some (.val 3), some .stop, some .stop,
       none, none, some (.val 0), some (.val 2), some (.val 3), some .stop,
       none, some .stop] ∧
    sequential nvOps2 = false ∧ noOverlap nvOps2 = true ∧
    run nvSats (init 4) nvOps2 =
      [none, none, some (.val 1), some (.val 3), some (.val 0), none, some (.val 2), some (.val 3), some .stop] := by
  decide

example : run nvSats (init 4) nvOps = specRun 4 nvSats [] nvOps :=
  C03_sequential_partial 4 nvSats nvOps (by decide)
example : run nvSats (init 4) nvOps2 = specRun 4 nvSats [] nvOps2 :=
  C03_nonoverlap_partial 4 nvSats nvOps2 (by decide)
example : runIdx nvSats (initIdx 4) nvOps2 = run nvSats (init 4) nvOps2 :=
  C03_repair_conservative 4 nvSats nvOps2 (by decide)
/-- `C03_full` on the interleaved schedule: the repaired machine yields all results of both iterators -/
example : runIdx cexSats (initIdx 3) cexOps =
    [none, some (.val 0), none, some (.val 0), some (.val 1), some (.val 2), some .stop,
     some (.val 1), some (.val 2)] := by
  decide
/-- `C03_abandon_irrelevant`: hypothesis met non-trivially (iterator 0 is restarted and advanced later) -/
example : neverAdvanced 0 [.start 1, .next 1, .start 0, .next 0] = true ∧
    run nvSats (init 4) ([.start 0, .next 0] ++ .abandon 0 :: [.start 1, .next 1, .start 0, .next 0]) =
      [none, some (.val 1), none, none, some (.val 0), none, some (.val 1)] := by
  decide

end KrroodVerif.Dom
