import KrroodVerif.Model.Quantifier
/-!
# C09 — Result quantifiers enforce exactly the stated solution count

Property theorems only. The model (`Quant.run`, `Quant.assertSat`, `Quant.mkSingle`, `Quant.mkRange`,
`Quant.theRun`) transcribes the Python; `Quant.spec` / `Quant.theSpec` is what the property demands.
All theorems are unbounded in the number of solutions and in the bounds.
-/
namespace KrroodVerif.Quant

/-- generalised loop invariant: started with `k` results already counted (and `k` within the upper bound) -/
theorem loop_eq {α} (c : Constraint) (hwf : c.WF) (sols : List α) :
    ∀ k, (∀ u, upper c = some u → k ≤ u) →
      loop (some c) k sols =
        (match upper c with
         | some u =>
           if k + sols.length > u then (sols.take (u - k), .err .greater)
           else if k + sols.length < lower c then (sols, .err .less) else (sols, .ok)
         | none => if k + sols.length < lower c then (sols, .err .less) else (sols, .ok)) := by
  induction sols with
  | nil =>
    intro k hk
    cases c <;> simp [loop, assertOpt, assertSat, upper, lower, Constraint.WF] at * <;> grind
  | cons x xs ih =>
    intro k hk
    cases c with
    | atLeast v =>
      have := ih (k + 1) (by simp [upper])
      simp only [loop, assertOpt, assertSat, upper, lower, List.length_cons] at *
      rw [this]; grind
    | exactly v =>
      simp only [upper, forall_eq', Option.some.injEq] at hk
      by_cases hkv : k + 1 > v
      · have : k = v := by omega
        subst this
        simp [loop, assertOpt, assertSat, upper]
      · have := ih (k + 1) (by simp [upper]; omega)
        simp only [loop, assertOpt, assertSat, upper, lower, List.length_cons] at *
        rw [this]
        have e2 : v - k = (v - (k + 1)) + 1 := by omega
        rw [e2]; simp only [List.take_succ_cons]; grind
    | atMost v =>
      simp only [upper, forall_eq', Option.some.injEq] at hk
      by_cases hkv : k + 1 > v
      · have : k = v := by omega
        subst this
        simp [loop, assertOpt, assertSat, upper]
      · have := ih (k + 1) (by simp [upper]; omega)
        simp only [loop, assertOpt, assertSat, upper, lower, List.length_cons] at *
        rw [this]
        have e2 : v - k = (v - (k + 1)) + 1 := by omega
        rw [e2]; simp only [List.take_succ_cons]; grind
    | range lo hi =>
      simp only [upper, forall_eq', Option.some.injEq] at hk
      by_cases hkv : k + 1 > hi
      · have : k = hi := by omega
        subst this
        simp only [Constraint.WF] at hwf
        simp [loop, assertOpt, assertSat, upper]
      · have := ih (k + 1) (by simp [upper]; omega)
        simp only [loop, assertOpt, assertSat, upper, lower, List.length_cons] at *
        rw [this]
        have e2 : hi - k = (hi - (k + 1)) + 1 := by omega
        rw [e2]; simp only [List.take_succ_cons]; grind
theorem loop_none {α} (sols : List α) : ∀ k, loop (none : Option Constraint) k sols = (sols, .ok) := by
  induction sols with
  | nil => intro k; simp [loop, assertOpt]
  | cons x xs ih => intro k; simp [loop, assertOpt, ih]

/-- **C09_run_eq_spec.** For every (well-formed) constraint, or none, and every list of solutions of any
length, the generator loop yields exactly the prefix and ends with exactly the outcome the property states. -/
theorem C09_run_eq_spec {α} (c : Option Constraint) (hwf : ∀ c', c = some c' → c'.WF) (sols : List α) :
    run c sols = spec c sols := by
  cases c with
  | none => simp [run, spec, loop_none]
  | some c =>
    have h := loop_eq c (hwf c rfl) sols 0 (by intros; omega)
    simp only [Nat.zero_add, Nat.sub_zero] at h
    simp only [run, spec, h]
    rfl

/-- every constraint the constructors accept is well-formed (so the hypothesis above is met by every
constraint a user can build) -/
theorem C09_mk_wf :
    (∀ k v c, mkSingle k v = .ok c → c.WF) ∧ (∀ a b c, mkRange a b = .ok c → c.WF) := by
  constructor
  · intro k v c h
    unfold mkSingle at h
    split at h
    · cases h
    · cases k <;> simp at h <;> subst h <;> trivial
  · intro a b c h
    unfold mkRange at h
    split at h; · cases h
    split at h; · cases h
    split at h; · cases h
    simp at h; subst h
    simp only [Constraint.WF]; omega

/-- **C09_ctor_rejects.** Negative bounds and `at_most < at_least` are rejected at construction, everything
else is accepted with exactly the written bounds. -/
theorem C09_ctor_rejects :
    (∀ k v, v < 0 → mkSingle k v = .error .negative) ∧
    (∀ k v, 0 ≤ v → ∃ c, mkSingle k v = .ok c ∧ (lower c = v.toNat ∨ upper c = some v.toNat)) ∧
    (∀ a b, (a < 0 ∨ b < 0) → mkRange a b = .error .negative) ∧
    (∀ a b, 0 ≤ a → 0 ≤ b → b < a → mkRange a b = .error .inconsistent) ∧
    (∀ a b, 0 ≤ a → a ≤ b → mkRange a b = .ok (.range a.toNat b.toNat)) := by
  refine ⟨?_, ?_, ?_, ?_, ?_⟩
  · intro k v h; simp [mkSingle, h]
  · intro k v h
    have : ¬ v < 0 := by omega
    cases k <;> simp [mkSingle, this, lower, upper]
  · intro a b h
    unfold mkRange
    rcases h with h | h
    · simp [h]
    · split <;> simp_all
  · intro a b ha hb hab
    have h1 : ¬ a < 0 := by omega
    have h2 : ¬ b < 0 := by omega
    simp [mkRange, h1, h2, hab]
  · intro a b ha hab
    have h1 : ¬ a < 0 := by omega
    have h2 : ¬ b < 0 := by omega
    have h3 : ¬ b < a := by omega
    simp [mkRange, h1, h2, h3]

/-- **C09_never_exceeds_upper.** No more results than an upper bound allows are ever yielded. -/
theorem C09_never_exceeds_upper {α} (c : Constraint) (hwf : c.WF) (sols : List α) (u : Nat)
    (hu : upper c = some u) : (run (some c) sols).1.length ≤ u := by
  rw [C09_run_eq_spec (some c) (by intro c' h; cases h; exact hwf)]
  simp only [spec, hu]
  split
  · simp; omega
  · split <;> simp <;> omega

/-- **C09_all_iff_satisfies.** All solutions are yielded without an error iff their number satisfies the
constraint; otherwise the error is `greater` exactly when the count exceeds the upper bound, else `less`. -/
theorem C09_all_iff_satisfies {α} (c : Constraint) (hwf : c.WF) (sols : List α) :
    (run (some c) sols = (sols, .ok) ↔ satisfies c sols.length = true) ∧
    ((run (some c) sols).2 = .err .greater ↔ ∃ u, upper c = some u ∧ u < sols.length) ∧
    ((run (some c) sols).2 = .err .less ↔ sols.length < lower c) := by
  rw [C09_run_eq_spec (some c) (by intro c' h; cases h; exact hwf)]
  cases c <;> simp only [spec, upper, lower, satisfies, Constraint.WF] at * <;> grind

/-- **C09_the.** `the(...)`: the element iff exactly one solution, `NoSolutionFound` iff none,
`MultipleSolutionFound` iff several — and no other outcome is possible. -/
theorem C09_the {α} (sols : List α) : theRun sols = some (theSpec sols) := by
  have h := C09_run_eq_spec (some (.exactly 1)) (by intro c' h; cases h; trivial) sols
  unfold theRun
  rw [h]
  match sols with
  | [] => simp [spec, upper, lower, theSpec]
  | [x] => simp [spec, upper, lower, theSpec]
  | x :: y :: r => simp [spec, upper, theSpec]

/-! Non-vacuity (tests, not the unbounded claim): concrete well-formed constraints meeting the hypotheses,
with non-trivial outcomes on both sides. -/
example : (Constraint.range 1 2).WF ∧ run (some (.range 1 2)) [10, 20, 30] = ([10, 20], .err .greater) := by
  constructor
  · show 1 ≤ 2; omega
  · decide
example : run (some (.exactly 0)) ([] : List Nat) = ([], .ok) ∧ run (some (.atLeast 2)) [7] = ([7], .err .less) := by
  decide
example : mkRange 0 0 = .ok (.range 0 0) ∧ mkRange 2 1 = .error .inconsistent := by
  constructor <;> rfl

/-! ### The count never depends on what the solutions are -/

theorem loop_map {α β} (f : α → β) (c : Option Constraint) (n : Nat) (sols : List α) :
    loop c n (sols.map f) = ((loop c n sols).1.map f, (loop c n sols).2) := by
  induction sols generalizing n with
  | nil => simp only [List.map_nil, loop]; split <;> simp
  | cons x xs ih =>
    simp only [List.map_cons, loop]
    split
    · simp
    · simp [ih]

/-- **C09_value_blind.** Enforcing the solution count is natural in the solutions: renaming every solution by any
function `f` (for instance to a falsy Python value — `0`, `""`, an empty container) changes neither how many are
yielded nor the outcome. With `f := fun _ => ()` this says the behaviour is a function of the NUMBER of solutions
alone. -/
theorem C09_value_blind {α β} (f : α → β) (c : Option Constraint) (sols : List α) :
    run c (sols.map f) = ((run c sols).1.map f, (run c sols).2) := loop_map f c 0 sols

theorem C09_the_value_blind {α β} (f : α → β) (sols : List α) :
    theRun (sols.map f) = (theRun sols).map fun
      | .value x => .value (f x) | .noSolution => .noSolution | .multipleSolutions => .multipleSolutions := by
  rw [C09_the, C09_the]
  match sols with
  | [] => rfl
  | [x] => rfl
  | x :: y :: r => rfl

/-- a history of evaluations of one query object is the list of its evaluations taken alone (nothing is carried over:
a failed evaluation, a partially consumed one and a finished one all leave the next evaluation unaffected) -/
theorem C09_history_independent {α} (c : Option Constraint) (sols : List α) (ks : List (Option Nat)) :
    history c sols ks = ks.map fun k => consume k (run c sols) := rfl

end KrroodVerif.Quant
