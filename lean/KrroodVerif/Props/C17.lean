import KrroodVerif.Model.ClassDiagram
import KrroodVerif.Props.C17Override
/-!
# C17 — class diagrams mirror the Python classes and derived views leave them intact

Property theorems only (plus the helper lemmas they need). The model (`CD.flags`, `CD.endpoint`, `CD.build`,
`CD.derive`, `CD.stepOp`, `CD.runOps`, `CD.changes`) transcribes `wrapped_field.py` / `class_diagram.py`;
`CD.specFlags`, `CD.specEndpoint`, `CD.specBuild`, `CD.specChanges` say what the property demands.

* `C17_classify`          repaired code (`Quirks.none`), **every** annotation term of any nesting
* `C17_classify_partial`  the code as it was found (`Quirks.today`), every term outside the two triggers
* `C17_classify_current`  the code as it is now (`Quirks.current`), every term with at most one wrapper, any optional spelling
* `C17_cex_nested`, `C17_cex_optional_spelling`   the triggers are inhabited by real deviations (tests, `decide`)
* `C17_edges`             nodes / inheritance edges / association edges of the built diagram, exactly once each
* `C17_edges_perm`        invariance under permutation of the class list
* `C17_edges_partial`, `C17_edges_current`   the same for the code as it was found / as it is now, outside the triggers
* `C17_views_pure`        with a copied graph no sequence of operations changes any diagram that existed before
* `C17_views_partial`     the code as it is: true of every run in which no shared graph loses an edge
* `C17_cex_subdiagram`    the sub-diagram derivation on the shared graph removes edges of its source (test)
* `C17_accessors`         after any run every diagram's accessors report exactly its own graph
* `C17_accessors_pure`    `C17_views_pure` for every accessor: no read ever differs from the previous read of that diagram
* `C17_consistent`        every quirk setting, every annotation: one-to-many ⇔ container ∧ ¬ builtin endpoint, the relationship
                          kinds and "builtin-valued" are mutually exclusive and exhaustive, type-valued ⇒ container
* `C17_enum_one_to_one`   `is_enum` True ⇒ one-to-one to a non-builtin, not a container
-/
namespace KrroodVerif.CD

/-! ## helper lemmas: annotations -/

theorem stepN_fixed (q : Quirks) (x : Arg) (h : x.step q = x) : ∀ n, stepN q n x = x
  | 0 => rfl
  | n + 1 => by simp [stepN, h, stepN_fixed q x h n]

/-- the repaired endpoint removes every wrapper: unbounded in the nesting depth -/
theorem stepN_none_eq_spec (a : Ann) :
    ∀ n, (resolve a).size ≤ n → (stepN .none n (.ann (resolve a))).leaf = specEndpoint a := by
  induction a with
  | builtin b => intro n _; rw [resolve, stepN_fixed _ _ (by rfl)]; rfl
  | cls i => intro n _; rw [resolve, stepN_fixed _ _ (by rfl)]; rfl
  | enum i => intro n _; rw [resolve, stepN_fixed _ _ (by rfl)]; rfl
  | ext k i => intro n _; rw [resolve, stepN_fixed _ _ (by rfl)]; rfl
  | fwd x ih => intro n h; exact ih n h
  | union x y w _ _ =>
    intro n _
    have : (Arg.ann (resolve (.union x y w))).step .none = .ann (resolve (.union x y w)) := by
      cases w <;> rfl
    rw [stepN_fixed _ _ this]; rfl
  | optional st x ih =>
    intro n h
    simp only [resolve, Ann.size] at h
    obtain ⟨m, rfl⟩ : ∃ m, n = m + 1 := ⟨n - 1, by omega⟩
    have : (Arg.ann (resolve (.optional st x))).step .none = .ann (resolve x) := by cases st <;> rfl
    simp only [stepN, this]
    exact ih m (by omega)
  | container k x ih =>
    intro n h
    simp only [resolve, Ann.size] at h
    obtain ⟨m, rfl⟩ : ∃ m, n = m + 1 := ⟨n - 1, by omega⟩
    have : (Arg.ann (resolve (.container k x))).step .none = .ann (resolve x) := by cases k <;> rfl
    simp only [stepN, this]
    exact ih m (by omega)
  | typeOf x ih =>
    intro n h
    simp only [resolve, Ann.size] at h
    obtain ⟨m, rfl⟩ : ∃ m, n = m + 1 := ⟨n - 1, by omega⟩
    have : (Arg.ann (resolve (.typeOf x))).step .none = .ann (resolve x) := rfl
    simp only [stepN, this]
    exact ih m (by omega)

theorem endpoint_none_eq_spec (a : Ann) : endpoint .none a = specEndpoint a :=
  stepN_none_eq_spec a _ (Nat.le_refl _)

/-- a class-like leaf of the grammar -/
inductive IsLeaf : Ann → Prop
  | builtin (b) : IsLeaf (.builtin b)
  | cls (i) : IsLeaf (.cls i)
  | enum (i) : IsLeaf (.enum i)
  | ext (k i) : IsLeaf (.ext k i)

/-- an annotation without wrappers and unions resolves to a class-like leaf, which is its endpoint -/
theorem leaf_of_depth0 (x : Ann) (hd : wrapDepth x = 0) (hu : hasUnion x = false) :
    IsLeaf (resolve x) ∧ (Arg.ann (resolve x)).leaf = specEndpoint x := by
  induction x with
  | builtin b => exact ⟨.builtin b, rfl⟩
  | cls i => exact ⟨.cls i, rfl⟩
  | enum i => exact ⟨.enum i, rfl⟩
  | ext k i => exact ⟨.ext k i, rfl⟩
  | fwd x ih => exact ih hd hu
  | union x y w _ _ => simp [hasUnion] at hu
  | optional st x _ => simp [wrapDepth] at hd
  | container k x _ => simp [wrapDepth] at hd
  | typeOf x _ => simp [wrapDepth] at hd

/-- without wrappers (unions allowed) the resolved annotation is its own endpoint, under every quirk setting -/
theorem depth0_endpoint (q : Quirks) (x : Ann) (hd : wrapDepth x = 0) :
    (Arg.ann (resolve x)).leaf = specEndpoint x ∧ typeEndpoint1 q (resolve x) = .ann (resolve x) := by
  induction x with
  | builtin b => exact ⟨rfl, rfl⟩
  | cls i => exact ⟨rfl, rfl⟩
  | enum i => exact ⟨rfl, rfl⟩
  | ext k i => exact ⟨rfl, rfl⟩
  | fwd x ih => exact ih hd
  | union x y w _ _ => cases w <;> exact ⟨rfl, rfl⟩
  | optional st x _ => simp [wrapDepth] at hd
  | container k x _ => simp [wrapDepth] at hd
  | typeOf x _ => simp [wrapDepth] at hd

/-! ## classification -/

/-- `is_optional` of the repaired code is "the outermost form is an optional", for every term -/
theorem optional_none (a : Ann) : (flags .none a).optional = (specFlags a).optional := by
  induction a with
  | builtin b => rfl
  | cls i => rfl
  | enum i => rfl
  | ext k i => rfl
  | fwd x ih => exact ih
  | union x y w _ _ => cases w <;> rfl
  | optional st x _ => cases st <;> rfl
  | container k x _ => cases k <;> rfl
  | typeOf x _ => rfl

/-- all seven classifications of a `plain` annotation, for any quirk setting under which the optional spelling used
is recognised: the case analysis shared by `C17_classify` and `C17_classify_partial` -/
theorem flags_plain (q : Quirks) (a : Ann) (hp : plain a = true)
    (ok : (q.pipeNotOptional = true ∨ q.argZero = true) → oddOptional a = false) : flags q a = specFlags a := by
  induction a with
  | builtin b => cases q with | mk s u o z => cases u <;> rfl
  | cls i => cases q with | mk s u o z => cases u <;> rfl
  | enum i => cases q with | mk s u o z => cases u <;> rfl
  | ext k i => cases q with | mk s u o z => cases u <;> cases k <;> rfl
  | fwd x ih => exact ih hp ok
  | union x y w _ _ => simp [plain, hasUnion] at hp
  | optional st x _ =>
    simp [plain, wrapDepth, hasUnion] at hp
    obtain ⟨hl, he⟩ := leaf_of_depth0 x hp.1 hp.2
    show flagsOf q (.optional st (resolve x)) = specRow .optional (specEndpoint x)
    rw [← he]
    generalize resolve x = L at hl
    cases q with | mk s u o z =>
    cases hl <;> (try cases ‹ClassKind›) <;> cases st <;> cases u <;> cases o <;> cases z <;> first | rfl | (simp [oddOptional] at ok)
  | container k x _ =>
    simp [plain, wrapDepth, hasUnion] at hp
    obtain ⟨hl, he⟩ := leaf_of_depth0 x hp.1 hp.2
    show flagsOf q (.container k (resolve x)) = specRow .container (specEndpoint x)
    rw [← he]
    generalize resolve x = L at hl
    cases q with | mk s u o z =>
    cases hl <;> (try cases ‹ClassKind›) <;> cases k <;> cases u <;> cases o <;> cases z <;> rfl
  | typeOf x _ =>
    simp [plain, wrapDepth, hasUnion] at hp
    obtain ⟨hl, he⟩ := leaf_of_depth0 x hp.1 hp.2
    show flagsOf q (.typeOf (resolve x)) = specRow .typeOf (specEndpoint x)
    rw [← he]
    generalize resolve x = L at hl
    cases q with | mk s u o z =>
    cases hl <;> (try cases ‹ClassKind›) <;> cases u <;> cases o <;> cases z <;> rfl

/-- **C17_classify.** For the repaired predicates and *every* annotation term, of any nesting, quoted anywhere:
the endpoint is the declared type seen through all Optional / container / `Type` wrappers; `is_optional` says
whether the outermost form is an optional (in any spelling); and on annotations with at most one wrapper all
seven classifications equal the specification table. -/
theorem C17_classify (a : Ann) :
    endpoint .none a = specEndpoint a ∧
    (flags .none a).optional = (specFlags a).optional ∧
    (plain a = true → flags .none a = specFlags a) :=
  ⟨endpoint_none_eq_spec a, optional_none a, fun hp => flags_plain .none a hp (by intro h; rcases h with h | h <;> cases h)⟩

/-- the endpoint of any code that removes one wrapper, on annotations with at most one wrapper whose optional
spelling that code recognises -/
theorem endpoint_single (q : Quirks) (hs : q.singleUnwrap = true) (a : Ann) (hn : nested a = false)
    (ok : (q.pipeNotOptional = true ∨ q.argZero = true) → oddOptional a = false) :
    endpoint q a = specEndpoint a := by
  cases q with | mk sc su p z =>
  simp only at hs; subst hs
  induction a with
  | builtin b => rfl
  | cls i => rfl
  | enum i => rfl
  | ext k i => rfl
  | fwd x ih => exact ih hn ok
  | union x y w _ _ => cases w <;> rfl
  | optional st x _ =>
    simp [nested, wrapDepth] at hn
    obtain ⟨he, _⟩ := depth0_endpoint ⟨sc, true, p, z⟩ x hn
    show (typeEndpoint1 ⟨sc, true, p, z⟩ (.optional st (resolve x))).leaf = specEndpoint x
    rw [← he]
    cases st <;> cases p <;> cases z <;> first | rfl | (simp [oddOptional] at ok)
  | container k x _ =>
    simp [nested, wrapDepth] at hn
    obtain ⟨he, _⟩ := depth0_endpoint ⟨sc, true, p, z⟩ x hn
    show (typeEndpoint1 ⟨sc, true, p, z⟩ (.container k (resolve x))).leaf = specEndpoint x
    rw [← he]
    cases k <;> rfl
  | typeOf x _ =>
    simp [nested, wrapDepth] at hn
    obtain ⟨he, _⟩ := depth0_endpoint ⟨sc, true, p, z⟩ x hn
    show (typeEndpoint1 ⟨sc, true, p, z⟩ (.typeOf (resolve x))).leaf = specEndpoint x
    rw [← he]
    rfl

/-- `is_optional` = "the outermost form is an optional", for any code that recognises the spelling used -/
theorem optional_q (q : Quirks) (a : Ann) (ok : q.pipeNotOptional = true → oddOptional a = false) :
    (flags q a).optional = (specFlags a).optional := by
  cases q with | mk sc su p z =>
  induction a with
  | builtin b => rfl
  | cls i => rfl
  | enum i => rfl
  | ext k i => rfl
  | fwd x ih => exact ih ok
  | union x y w _ _ => cases w <;> rfl
  | optional st x _ => cases st <;> cases p <;> first | rfl | (simp [oddOptional] at ok)
  | container k x _ => cases k <;> rfl
  | typeOf x _ => rfl

/-- the endpoint of the code as it was found, outside the triggers of F-C17-2 and F-C17-3 -/
theorem endpoint_today (a : Ann) (hn : nested a = false) (ho : oddOptional a = false) :
    endpoint .today a = specEndpoint a := endpoint_single .today rfl a hn (fun _ => ho)

theorem optional_today (a : Ann) (ho : oddOptional a = false) :
    (flags .today a).optional = (specFlags a).optional := optional_q .today a (fun _ => ho)

/-- **C17_classify_partial.** The code as it is: the same three statements for every annotation with at most one
wrapper (`nested a = false`, trigger of F-C17-2) whose optionals are written `Optional[X]` / `Union[X, None]`
(`oddOptional a = false`, trigger of F-C17-3). -/
theorem C17_classify_partial (a : Ann) (hn : nested a = false) (ho : oddOptional a = false) :
    endpoint .today a = specEndpoint a ∧
    (flags .today a).optional = (specFlags a).optional ∧
    (plain a = true → flags .today a = specFlags a) :=
  ⟨endpoint_today a hn ho, optional_today a ho, fun hp => flags_plain .today a hp (fun _ => ho)⟩

/-- non-vacuity of the hypotheses: `Optional["C1"]` -/
example : nested (.optional .typing (.fwd (.cls 1))) = false ∧ oddOptional (.optional .typing (.fwd (.cls 1))) = false
    ∧ plain (.optional .typing (.fwd (.cls 1))) = true := by decide

/-- **C17_classify_current.** The code as it is now (`Quirks.current`: optional spellings repaired, one wrapper
removed): the same three statements for every annotation with at most one wrapper (`nested a = false`, trigger of
F-C17-2), *in any optional spelling*; and `is_optional` for every term of any nesting. -/
theorem C17_classify_current (a : Ann) :
    (flags .current a).optional = (specFlags a).optional ∧
    (nested a = false → endpoint .current a = specEndpoint a) ∧
    (plain a = true → flags .current a = specFlags a) :=
  ⟨optional_q .current a (by intro h; cases h),
   fun hn => endpoint_single .current rfl a hn (by intro h; rcases h with h | h <;> cases h),
   fun hp => flags_plain .current a hp (by intro h; rcases h with h | h <;> cases h)⟩

/-- non-vacuity: `"C1" | None` satisfies the hypotheses of `C17_classify_current` and was a counter-example before -/
example : nested (.optional .pipe (.fwd (.cls 1))) = false ∧ plain (.optional .pipe (.fwd (.cls 1))) = true
    ∧ oddOptional (.optional .pipe (.fwd (.cls 1))) = true := by decide

/-- **C17_cex_nested** (test, F-C17-2). `Optional[List[C1]]`: the code's endpoint is `List[C1]`, not `C1`; in the
diagram of `C0 {f0 : Optional[List[C1]]}`, `C1` the association edge is missing. -/
theorem C17_cex_nested :
    let a := Ann.optional .typing (.container .list (.cls 1))
    let w : World := ⟨[⟨1, [], []⟩, ⟨0, [], [⟨⟨false, 0⟩, a⟩]⟩]⟩
    nested a = true ∧ endpoint .today a ≠ specEndpoint a ∧ build .today w [0, 1] ≠ specBuild w [0, 1]
      ∧ (specBuild w [0, 1]).edges = [⟨0, 1, .assoc ⟨false, 0⟩⟩] := by decide

/-- **C17_cex_optional_spelling** (test, F-C17-3, repaired). With the quirks of the tree as it was found
(`Quirks.today`) `C1 | None` is not classified optional and has no association and `Union[None, C1]` is optional with
endpoint `NoneType`; with the quirks of the tree as it is now (`Quirks.current`) neither deviates. -/
theorem C17_cex_optional_spelling :
    let a := Ann.optional .pipe (.cls 1)
    let b := Ann.optional .noneFirst (.cls 1)
    let w : World := ⟨[⟨1, [], []⟩, ⟨0, [], [⟨⟨false, 0⟩, a⟩, ⟨⟨false, 1⟩, b⟩]⟩]⟩
    oddOptional a = true ∧ oddOptional b = true ∧ plain a = true ∧ plain b = true
      ∧ (flags .today a).optional = false ∧ (flags .today a).enum = .err ∧ flags .today a ≠ specFlags a
      ∧ endpoint .today b = .noneType ∧ flags .today b ≠ specFlags b
      ∧ (build .today w [0, 1]).edges = [] ∧ (specBuild w [0, 1]).edges.length = 2
      -- repaired (`Quirks.current`): both spellings are optional with endpoint `C1`, both association edges are there
      ∧ flags .current a = specFlags a ∧ flags .current b = specFlags b
      ∧ build .current w [0, 1] = specBuild w [0, 1] := by decide

/-! ## relation discovery -/

theorem contains_nat {l : List Nat} {x : Nat} : l.contains x = true ↔ x ∈ l := List.contains_iff_mem

theorem basesOf_def (w : World) (c : Nat) :
    w.basesOf c = match w.defs.find? (fun d => d.id == c) with | some d => d.bases | none => [] := rfl

theorem mem_inhEdges (w : World) (nodes : List Nat) (e : Edge) :
    e ∈ inhEdges w nodes ↔ e.kind = .inh ∧ e.dst ∈ nodes ∧ e.src ∈ nodes ∧ e.src ∈ w.basesOf e.dst := by
  simp only [inhEdges, List.mem_flatMap, List.mem_filterMap]
  constructor
  · rintro ⟨c, hc, b, hb, h⟩
    split at h
    · rename_i hcb
      cases h
      exact ⟨rfl, hc, contains_nat.mp hcb, hb⟩
    · cases h
  · rintro ⟨hk, hd, hs, hb⟩
    refine ⟨e.dst, hd, e.src, hb, ?_⟩
    rw [if_pos (contains_nat.mpr hs)]
    cases e with | mk s d k => simp only at hk; subst hk; rfl

theorem mem_assocEdges (ep : Ann → Leaf) (w : World) (nodes : List Nat) (e : Edge) :
    e ∈ assocEdges ep w nodes ↔
      e.src ∈ nodes ∧ e.dst ∈ nodes ∧ ∃ f ∈ w.publicFields e.src, e.kind = .assoc f.name ∧ ep f.ann = .cls e.dst := by
  simp only [assocEdges, List.mem_flatMap, List.mem_filterMap]
  constructor
  · rintro ⟨c, hc, f, hf, h⟩
    unfold assocOf at h
    split at h
    · rename_i t ht
      split at h
      · rename_i hct
        cases h
        exact ⟨hc, contains_nat.mp hct, f, hf, rfl, ht⟩
      · cases h
    · cases h
  · rintro ⟨hs, hd, f, hf, hk, he⟩
    refine ⟨e.src, hs, f, hf, ?_⟩
    unfold assocOf
    rw [he]
    simp only [contains_nat.mpr hd, if_true]
    cases e with | mk s d k => simp only at hk; subst hk; rfl

theorem nodup_filterMap {α β} (l : List α) (f : α → Option β)
    (inj : ∀ a ∈ l, ∀ b ∈ l, ∀ y, f a = some y → f b = some y → a = b) (h : l.Nodup) : (l.filterMap f).Nodup := by
  induction l with
  | nil => simp
  | cons a l ih =>
    have hn := List.nodup_cons.mp h
    rw [List.filterMap_cons]
    have ih' := ih (fun x hx y hy => inj x (List.mem_cons_of_mem _ hx) y (List.mem_cons_of_mem _ hy)) hn.2
    split
    · exact ih'
    · rename_i y hy
      refine List.nodup_cons.mpr ⟨?_, ih'⟩
      intro hmem
      obtain ⟨b, hb, hfb⟩ := List.mem_filterMap.mp hmem
      have := inj a (List.mem_cons_self) b (List.mem_cons_of_mem _ hb) y hy hfb
      exact hn.1 (this ▸ hb)

theorem nodup_flatMap {α β} (l : List α) (f : α → List β) (h : l.Nodup) (h1 : ∀ a ∈ l, (f a).Nodup)
    (h2 : ∀ a ∈ l, ∀ b ∈ l, a ≠ b → ∀ x ∈ f a, ∀ y ∈ f b, x ≠ y) : (l.flatMap f).Nodup := by
  unfold List.Nodup
  rw [List.pairwise_flatMap]
  refine ⟨h1, ?_⟩
  have h' : List.Pairwise (fun a b => a ≠ b) l := h
  induction l with
  | nil => exact List.Pairwise.nil
  | cons a l ih =>
    have hp := List.pairwise_cons.mp h'
    refine List.pairwise_cons.mpr ⟨?_, ?_⟩
    · intro b hb x hx y hy
      exact h2 a List.mem_cons_self b (List.mem_cons_of_mem _ hb) (hp.1 b hb) x hx y hy
    · exact ih (List.nodup_cons.mp h).2 (fun x hx => h1 x (List.mem_cons_of_mem _ hx))
        (fun x hx y hy => h2 x (List.mem_cons_of_mem _ hx) y (List.mem_cons_of_mem _ hy)) hp.2

/-- well-formed input: a *set* of classes, `__bases__` without repetition, field names unique within a class
(all three are facts of Python: a class cannot list a base twice, a dataclass cannot have two fields of one name) -/
structure WFInput (w : World) (order : List Nat) : Prop where
  order_nodup : order.Nodup
  bases_nodup : ∀ c ∈ order, (w.basesOf c).Nodup
  names_nodup : ∀ c ∈ order, ((w.publicFields c).map (·.name)).Nodup

theorem nodup_of_map {α β} (f : α → β) {l : List α} (h : (l.map f).Nodup) : l.Nodup :=
  List.Pairwise.of_map f (fun _ _ hne heq => hne (congrArg f heq)) h

theorem inj_of_nodup_map {α β} (f : α → β) : ∀ {l : List α}, (l.map f).Nodup →
    ∀ a ∈ l, ∀ b ∈ l, f a = f b → a = b
  | [], _, _, ha, _, _, _ => by cases ha
  | x :: l, h, a, ha, b, hb, hab => by
    rw [List.map_cons] at h
    have hn := List.nodup_cons.mp h
    rcases List.mem_cons.mp ha with rfl | ha' <;> rcases List.mem_cons.mp hb with rfl | hb'
    · rfl
    · exact absurd (List.mem_map.mpr ⟨b, hb', hab.symm⟩) hn.1
    · exact absurd (List.mem_map.mpr ⟨a, ha', hab⟩) hn.1
    · exact inj_of_nodup_map f hn.2 a ha' b hb' hab

theorem flatMap_congr_mem {α β} {f g : α → List β} : ∀ {l : List α}, (∀ x ∈ l, f x = g x) → l.flatMap f = l.flatMap g
  | [], _ => rfl
  | x :: l, h => by
    rw [List.flatMap_cons, List.flatMap_cons, h x List.mem_cons_self,
      flatMap_congr_mem (fun y hy => h y (List.mem_cons_of_mem _ hy))]

theorem filterMap_congr_mem {α β} {f g : α → Option β} :
    ∀ {l : List α}, (∀ x ∈ l, f x = g x) → l.filterMap f = l.filterMap g
  | [], _ => rfl
  | x :: l, h => by
    rw [List.filterMap_cons, List.filterMap_cons, h x List.mem_cons_self,
      filterMap_congr_mem (fun y hy => h y (List.mem_cons_of_mem _ hy))]

theorem assocOf_some {ep : Ann → Leaf} {nodes : List Nat} {c : Nat} {f : Field} {y : Edge}
    (h : assocOf ep nodes c f = some y) :
    ∃ t, ep f.ann = .cls t ∧ nodes.contains t = true ∧ y = ⟨c, t, .assoc f.name⟩ := by
  unfold assocOf at h
  split at h
  · rename_i t ht
    split at h
    · rename_i hct
      exact ⟨t, ht, hct, (Option.some.inj h).symm⟩
    · cases h
  · cases h

theorem inhOf_some {nodes : List Nat} {b c : Nat} {y : Edge}
    (h : (if nodes.contains b = true then some (Edge.mk b c .inh) else none) = some y) :
    nodes.contains b = true ∧ y = ⟨b, c, .inh⟩ := by
  split at h
  · rename_i hb; exact ⟨hb, (Option.some.inj h).symm⟩
  · cases h

theorem nodup_inhEdges (w : World) (nodes : List Nat) (h : nodes.Nodup) (hb : ∀ c ∈ nodes, (w.basesOf c).Nodup) :
    (inhEdges w nodes).Nodup := by
  unfold inhEdges
  apply nodup_flatMap _ _ h
  · intro c hc
    apply nodup_filterMap _ _ _ (hb c hc)
    intro a _ b _ y ha hb'
    have h1 := (inhOf_some ha).2
    have h2 := (inhOf_some hb').2
    rw [h1] at h2
    exact (Edge.mk.inj h2).1
  · intro a _ b _ hab x hx y hy hxy
    obtain ⟨_, _, hx⟩ := List.mem_filterMap.mp hx
    obtain ⟨_, _, hy⟩ := List.mem_filterMap.mp hy
    have h1 := (inhOf_some hx).2
    have h2 := (inhOf_some hy).2
    rw [hxy, h2] at h1
    exact hab (Edge.mk.inj h1).2.1.symm

theorem nodup_assocEdges (ep : Ann → Leaf) (w : World) (nodes : List Nat) (h : nodes.Nodup)
    (hn : ∀ c ∈ nodes, ((w.publicFields c).map (·.name)).Nodup) : (assocEdges ep w nodes).Nodup := by
  unfold assocEdges
  apply nodup_flatMap _ _ h
  · intro c hc
    apply nodup_filterMap _ _ _ (nodup_of_map _ (hn c hc))
    intro a ha b hb y hya hyb
    obtain ⟨_, _, _, h1⟩ := assocOf_some hya
    obtain ⟨_, _, _, h2⟩ := assocOf_some hyb
    rw [h1] at h2
    have hname : a.name = b.name := by
      have := (Edge.mk.inj h2).2.2
      exact EKind.assoc.inj this
    exact inj_of_nodup_map _ (hn c hc) a ha b hb hname
  · intro a _ b _ hab x hx y hy hxy
    obtain ⟨fa, _, hx⟩ := List.mem_filterMap.mp hx
    obtain ⟨fb, _, hy⟩ := List.mem_filterMap.mp hy
    obtain ⟨_, _, _, h1⟩ := assocOf_some hx
    obtain ⟨_, _, _, h2⟩ := assocOf_some hy
    rw [hxy, h2] at h1
    exact hab (Edge.mk.inj h1).1.symm

/-- **C17_edges.** The diagram built by the repaired code from a set of classes (any nesting of annotations):
(1) it *is* the specified diagram; (2) one node per class; (3) an inheritance edge `b → c` exactly for the direct-base
pairs among the classes; (4) an association edge `c —f→ t` exactly for the public fields `f` of `c` (inherited
ones included) whose declared type seen through all wrappers and quotes is the class `t` of the diagram;
(5) no edge occurs twice. -/
theorem C17_edges (w : World) (order : List Nat) (wf : WFInput w order) :
    build .none w order = specBuild w order ∧
    (build .none w order).nodes = order ∧
    (∀ b c, ⟨b, c, .inh⟩ ∈ (build .none w order).edges ↔ c ∈ order ∧ b ∈ order ∧ b ∈ w.basesOf c) ∧
    (∀ c t f, ⟨c, t, .assoc f⟩ ∈ (build .none w order).edges ↔
        c ∈ order ∧ t ∈ order ∧ ∃ fld ∈ w.publicFields c, fld.name = f ∧ specEndpoint fld.ann = .cls t) ∧
    (build .none w order).edges.Nodup := by
  have hep : endpoint .none = specEndpoint := funext endpoint_none_eq_spec
  refine ⟨?_, ?_, ?_, ?_, ?_⟩
  · simp [build, specBuild, hep]
  · rfl
  · intro b c
    show (⟨b, c, .inh⟩ : Edge) ∈ inhEdges w order ++ assocEdges (endpoint .none) w order ↔ _
    rw [List.mem_append, mem_inhEdges, mem_assocEdges]
    constructor
    · rintro (⟨_, h⟩ | ⟨_, _, f, _, hk, _⟩)
      · exact h
      · cases hk
    · intro h; exact Or.inl ⟨rfl, h⟩
  · intro c t f
    show (⟨c, t, .assoc f⟩ : Edge) ∈ inhEdges w order ++ assocEdges (endpoint .none) w order ↔ _
    rw [List.mem_append, mem_inhEdges, mem_assocEdges, hep]
    constructor
    · rintro (⟨hk, _⟩ | ⟨hc, ht, fld, hf, hk, he⟩)
      · cases hk
      · exact ⟨hc, ht, fld, hf, (EKind.assoc.inj hk).symm, he⟩
    · rintro ⟨hc, ht, fld, hf, hn, he⟩
      exact Or.inr ⟨hc, ht, fld, hf, by rw [hn], he⟩
  · simp only [build, buildWith, nodesOf]
    refine List.nodup_append.mpr ⟨nodup_inhEdges w order wf.order_nodup wf.bases_nodup,
      nodup_assocEdges _ w order wf.order_nodup wf.names_nodup, ?_⟩
    intro x hx y hy hxy
    have h1 := ((mem_inhEdges w order x).mp hx).1
    obtain ⟨_, _, _, _, h2, _⟩ := (mem_assocEdges _ w order y).mp hy
    rw [hxy, h2] at h1; cases h1

/-- **C17_edges_perm.** The class list is a set: permuting it permutes the node list and the edge list, nothing
else (for every endpoint function, so for the code as it is and for the repaired code alike). -/
theorem C17_edges_perm (q : Quirks) (w : World) (o₁ o₂ : List Nat) (h : o₁.Perm o₂) :
    (build q w o₁).nodes.Perm (build q w o₂).nodes ∧ (build q w o₁).edges.Perm (build q w o₂).edges := by
  refine ⟨h, ?_⟩
  simp only [build, buildWith, nodesOf]
  have hc : ∀ x, o₁.contains x = o₂.contains x := fun x => h.contains_eq
  apply List.Perm.append
  · have : inhEdges w o₁ = o₁.flatMap (fun c => (w.basesOf c).filterMap fun b =>
        if o₂.contains b then some ⟨b, c, .inh⟩ else none) := by
      simp only [inhEdges, hc]
    rw [this]
    exact List.Perm.flatMap_right _ h
  · have : assocEdges (endpoint q) w o₁ = o₁.flatMap (fun c => (w.publicFields c).filterMap
        (assocOf (endpoint q) o₂ c)) := by
      unfold assocEdges
      apply flatMap_congr_mem
      intro c _
      apply filterMap_congr_mem
      intro f _
      simp only [assocOf, hc]
    rw [this]
    exact List.Perm.flatMap_right _ h

/-- equal endpoints on the public fields of the diagram's classes give equal diagrams -/
theorem buildWith_congr (ep₁ ep₂ : Ann → Leaf) (w : World) (order : List Nat)
    (h : ∀ c ∈ order, ∀ f ∈ w.publicFields c, ep₁ f.ann = ep₂ f.ann) :
    buildWith ep₁ w order = buildWith ep₂ w order := by
  simp only [buildWith, nodesOf, assocEdges]
  congr 2
  apply flatMap_congr_mem
  intro c hc
  apply filterMap_congr_mem
  intro f hf
  simp only [assocOf, h c hc f hf]

/-- **C17_edges_partial.** The code as it is builds the specified diagram (hence everything `C17_edges` says)
whenever no public field of a diagram class is annotated with more than one wrapper (F-C17-2) or with an optional
written `X | None` / `Union[None, X]` (F-C17-3). -/
theorem C17_edges_partial (w : World) (order : List Nat)
    (h : ∀ c ∈ order, ∀ f ∈ w.publicFields c, nested f.ann = false ∧ oddOptional f.ann = false) :
    build .today w order = specBuild w order :=
  buildWith_congr _ _ w order (fun c hc f hf => endpoint_today f.ann (h c hc f hf).1 (h c hc f hf).2)

/-- **C17_edges_current.** The code as it is now builds the specified diagram whenever no public field of a diagram
class is annotated with more than one wrapper (F-C17-2) — whatever the spelling of its optionals. -/
theorem C17_edges_current (w : World) (order : List Nat)
    (h : ∀ c ∈ order, ∀ f ∈ w.publicFields c, nested f.ann = false) :
    build .current w order = specBuild w order :=
  buildWith_congr _ _ w order (fun c hc f hf =>
    endpoint_single .current rfl f.ann (h c hc f hf) (by intro h; rcases h with h | h <;> cases h))

/-- non-vacuity: a three-class hierarchy with a forward reference, an optional and a collection -/
example :
    let w : World := ⟨[⟨0, [], [⟨⟨false, 0⟩, .fwd (.cls 2)⟩]⟩, ⟨1, [0], [⟨⟨false, 1⟩, .optional .typing (.cls 0)⟩]⟩,
      ⟨2, [1], [⟨⟨true, 2⟩, .cls 0⟩, ⟨⟨false, 3⟩, .container .list (.cls 1)⟩]⟩]⟩
    (∀ c ∈ [2, 0, 1], ∀ f ∈ w.publicFields c, nested f.ann = false ∧ oddOptional f.ann = false)
      ∧ (specBuild w [2, 0, 1]).edges.length = 8 := by decide

/-! ## derived views -/

/-- every diagram refers to an existing graph -/
abbrev Store.WF (s : Store) : Prop := ∀ (d gid : Nat), s.diagrams[d]? = some gid → gid < s.graphs.length

/-- `s'` has everything `s` had, unchanged, and possibly more -/
def Store.Ext (s s' : Store) : Prop :=
  (∃ gs, s'.graphs = s.graphs ++ gs) ∧ (∃ ds, s'.diagrams = s.diagrams ++ ds)

theorem Store.Ext.refl (s : Store) : s.Ext s := ⟨⟨[], by simp⟩, ⟨[], by simp⟩⟩

theorem Store.Ext.trans {a b c : Store} (h₁ : a.Ext b) (h₂ : b.Ext c) : a.Ext c := by
  obtain ⟨⟨g1, hg1⟩, ⟨d1, hd1⟩⟩ := h₁
  obtain ⟨⟨g2, hg2⟩, ⟨d2, hd2⟩⟩ := h₂
  exact ⟨⟨g1 ++ g2, by rw [hg2, hg1, List.append_assoc]⟩, ⟨d1 ++ d2, by rw [hd2, hd1, List.append_assoc]⟩⟩

theorem Store.Ext.graphOf {s s' : Store} (h : s.Ext s') (wf : s.WF) (d : Nat) (hd : d < s.diagrams.length) :
    s'.graphOf d = s.graphOf d := by
  obtain ⟨⟨gs, hg⟩, ⟨ds, hds⟩⟩ := h
  unfold Store.graphOf
  rw [hds, List.getElem?_append_left hd]
  cases hgid : s.diagrams[d]? with
  | none => rfl
  | some gid =>
    simp only
    rw [hg, List.getElem?_append_left (wf d gid hgid)]

theorem wf_append_diagram {s : Store} (wf : s.WF) (gid : Nat) (hg : gid < s.graphs.length) :
    Store.WF { s with diagrams := s.diagrams ++ [gid] } := by
  intro d g hd
  simp only at hd ⊢
  by_cases hlt : d < s.diagrams.length
  · rw [List.getElem?_append_left hlt] at hd; exact wf d g hd
  · rw [List.getElem?_append_right (by omega)] at hd
    have : d - s.diagrams.length = 0 := by
      cases hz : d - s.diagrams.length with
      | zero => rfl
      | succ k => rw [hz] at hd; simp at hd
    rw [this] at hd; simp at hd; omega

/-- one operation of the repaired code (`shallowCopy` off): everything that existed is kept -/
theorem step_ext (q : Quirks) (hq : q.shallowCopy = false) (s : Store) (wf : s.WF) (op : Op) :
    s.Ext (stepOp q s op).1 ∧ (stepOp q s op).1.WF := by
  cases op with
  | query d k => exact ⟨Store.Ext.refl s, wf⟩
  | access d c k => exact ⟨Store.Ext.refl s, wf⟩
  | read d => exact ⟨Store.Ext.refl s, wf⟩
  | render d b => exact ⟨Store.Ext.refl s, wf⟩
  | copy d =>
    simp only [stepOp]
    cases hd : s.diagrams[d]? with
    | none => exact ⟨Store.Ext.refl s, wf⟩
    | some gid => exact ⟨⟨⟨[], by simp⟩, ⟨[gid], rfl⟩⟩, wf_append_diagram wf gid (wf d gid hd)⟩
  | sub d fl =>
    cases hd : s.diagrams[d]? with
    | none => simp only [stepOp, hd]; exact ⟨Store.Ext.refl s, wf⟩
    | some gid =>
      cases hg : s.graphs[gid]? with
      | none => simp only [stepOp, hd, hg]; exact ⟨Store.Ext.refl s, wf⟩
      | some g =>
        simp only [stepOp, hd, hg, hq, Bool.false_eq_true, ↓reduceIte]
        refine ⟨⟨⟨[derive g fl], rfl⟩, ⟨[s.graphs.length], rfl⟩⟩, ?_⟩
        intro d' g' hd'
        simp only [List.length_append, List.length_singleton] at hd' ⊢
        by_cases hlt : d' < s.diagrams.length
        · rw [List.getElem?_append_left hlt] at hd'
          have := wf d' g' hd'; omega
        · rw [List.getElem?_append_right (by omega)] at hd'
          cases hz : d' - s.diagrams.length with
          | zero => rw [hz] at hd'; simp at hd'; omega
          | succ k => rw [hz] at hd'; simp at hd'

/-- one operation of any code in which no shared graph lost an edge at this step -/
theorem step_ext_untouched (q : Quirks) (s : Store) (wf : s.WF) (op : Op) (hu : (stepOp q s op).2 = false) :
    s.Ext (stepOp q s op).1 ∧ (stepOp q s op).1.WF := by
  cases hq : q.shallowCopy with
  | false => exact step_ext q hq s wf op
  | true =>
    cases op with
    | query d k => exact ⟨Store.Ext.refl s, wf⟩
    | access d c k => exact ⟨Store.Ext.refl s, wf⟩
    | read d => exact ⟨Store.Ext.refl s, wf⟩
    | render d b => exact ⟨Store.Ext.refl s, wf⟩
    | copy d => exact (by
        simp only [stepOp]
        cases hd : s.diagrams[d]? with
        | none => exact ⟨Store.Ext.refl s, wf⟩
        | some gid => exact ⟨⟨⟨[], by simp⟩, ⟨[gid], rfl⟩⟩, wf_append_diagram wf gid (wf d gid hd)⟩)
    | sub d fl =>
      cases hd : s.diagrams[d]? with
      | none => simp only [stepOp, hd]; exact ⟨Store.Ext.refl s, wf⟩
      | some gid =>
        cases hg : s.graphs[gid]? with
        | none => simp only [stepOp, hd, hg]; exact ⟨Store.Ext.refl s, wf⟩
        | some g =>
          simp only [stepOp, hd, hg, hq, ↓reduceIte, Bool.not_eq_false', List.isEmpty_iff] at hu ⊢
          have hlt : gid < s.graphs.length := wf d gid hd
          have hgg : s.graphs[gid] = g := by
            have := List.getElem?_eq_getElem hlt
            rw [this] at hg; exact Option.some.inj hg
          have hder : derive g fl = g := by simp [derive, hu]
          have hset : s.graphs.set gid (derive g fl) = s.graphs := by
            rw [hder, ← hgg]; exact List.set_getElem_self hlt
          rw [hset]
          exact ⟨⟨⟨[], by simp⟩, ⟨[gid], rfl⟩⟩, wf_append_diagram wf gid hlt⟩

theorem changes_nil_of_ext {s s' : Store} (h : s.Ext s') (wf : s.WF) :
    ((List.range s.diagrams.length).filterMap fun d =>
        if s'.graphOf d == s.graphOf d then none else some (d, s'.graphOf d)) = [] := by
  rw [List.filterMap_eq_nil_iff]
  intro d hd
  rw [h.graphOf wf d (List.mem_range.mp hd)]
  simp

/-- **C17_views_pure.** With a copied graph (`shallowCopy` off) and for *every* sequence of operations — queries,
renderings, `copy(diagram)`, sub-diagram derivations from any diagram obtained so far, in any order and number —
every diagram that existed before the run observes exactly the graph it observed before, and the per-step
observation is the one the property demands (`specChanges`: nothing changes, ever). -/
theorem C17_views_pure (q : Quirks) (hq : q.shallowCopy = false) (ops : List Op) :
    ∀ (s : Store), s.WF →
      (∀ d, d < s.diagrams.length → (runOps q s ops).graphOf d = s.graphOf d) ∧
      changes q s ops = specChanges ops := by
  induction ops with
  | nil => intro s _; exact ⟨fun _ _ => rfl, rfl⟩
  | cons op ops ih =>
    intro s wf
    obtain ⟨hext, hwf⟩ := step_ext q hq s wf op
    obtain ⟨ih1, ih2⟩ := ih (stepOp q s op).1 hwf
    refine ⟨?_, ?_⟩
    · intro d hd
      have hd' : d < (stepOp q s op).1.diagrams.length := by
        obtain ⟨_, ⟨ds, hds⟩⟩ := hext
        rw [hds, List.length_append]; omega
      simp only [runOps]
      rw [ih1 d hd', hext.graphOf wf d hd]
    · simp only [changes, specChanges, List.map_cons]
      rw [changes_nil_of_ext hext wf, ih2]
      rfl

/-- **C17_views_partial.** The code as it is (any quirk setting): the same conclusion for every run in which no
sub-diagram derivation finds an inherited association to remove (`touched = false`, the trigger of F-C17-1). -/
theorem C17_views_partial (q : Quirks) (ops : List Op) :
    ∀ (s : Store), s.WF → touched q s ops = false →
      (∀ d, d < s.diagrams.length → (runOps q s ops).graphOf d = s.graphOf d) ∧
      changes q s ops = specChanges ops := by
  induction ops with
  | nil => intro s _ _; exact ⟨fun _ _ => rfl, rfl⟩
  | cons op ops ih =>
    intro s wf ht
    simp only [touched, Bool.or_eq_false_iff] at ht
    obtain ⟨hext, hwf⟩ := step_ext_untouched q s wf op ht.1
    obtain ⟨ih1, ih2⟩ := ih (stepOp q s op).1 hwf ht.2
    refine ⟨?_, ?_⟩
    · intro d hd
      have hd' : d < (stepOp q s op).1.diagrams.length := by
        obtain ⟨_, ⟨ds, hds⟩⟩ := hext
        rw [hds, List.length_append]; omega
      simp only [runOps]
      rw [ih1 d hd', hext.graphOf wf d hd]
    · simp only [changes, specChanges, List.map_cons]
      rw [changes_nil_of_ext hext wf, ih2]
      rfl

theorem Store.init_wf (g : Graph) : (Store.init g).WF := by
  intro d gid h
  cases d with
  | zero => simp [Store.init] at h; subst h; simp [Store.init]
  | succ k => simp [Store.init] at h

/-- non-vacuity of `C17_views_partial`: a run with two derivations, a copy, a query and a rendering on a diagram
with an inheritance edge and associations, none of which is inherited -/
example :
    let w : World := ⟨[⟨0, [], []⟩, ⟨1, [], [⟨⟨false, 0⟩, .cls 0⟩]⟩, ⟨2, [1], []⟩]⟩
    touched .today (Store.init (build .today w [0, 1])) [.sub 0 false, .copy 0, .sub 1 true, .query 2 0, .render 0 true]
      = false := by decide

/-- **C17_cex_subdiagram** (test, F-C17-1). `C0`; `C1 {f0 : C0}`; `C2(C1)`. The diagram of `[C0, C1, C2]` has the
association `C2 —f0→ C0` inherited from `C1`. One call of `to_subdiagram_without_inherited_associations()` removes
that edge from the *source* diagram (`d0` changes), although the property demands that nothing changes; with the
copied graph it does not. -/
theorem C17_cex_subdiagram :
    let w : World := ⟨[⟨0, [], []⟩, ⟨1, [], [⟨⟨false, 0⟩, .cls 0⟩]⟩, ⟨2, [1], []⟩]⟩
    let g := build .today w [0, 1, 2]
    let ops := [Op.sub 0 false]
    g.edges = [⟨1, 2, .inh⟩, ⟨1, 0, .assoc ⟨false, 0⟩⟩, ⟨2, 0, .assoc ⟨false, 0⟩⟩]
      ∧ touched .today (Store.init g) ops = true
      ∧ changes .today (Store.init g) ops ≠ specChanges ops
      ∧ ((runOps .today (Store.init g) ops).graphOf 0).map (·.edges) = some [⟨1, 2, .inh⟩, ⟨1, 0, .assoc ⟨false, 0⟩⟩]
      ∧ changes { Quirks.today with shallowCopy := false } (Store.init g) ops = specChanges ops := by decide

/-! ## what the accessors report -/

theorem mem_reported (g : Graph) (hc : g.Closed) (e : Edge) : e ∈ reported g ↔ e ∈ g.edges := by
  simp only [reported, outEdges, List.mem_flatMap, List.mem_filter, beq_iff_eq]
  constructor
  · rintro ⟨_, _, he, _⟩; exact he
  · intro he; exact ⟨e.src, (hc e he).1, he, rfl⟩

theorem closed_buildWith (ep : Ann → Leaf) (w : World) (order : List Nat) : (buildWith ep w order).Closed := by
  intro e he
  simp only [buildWith, nodesOf, List.mem_append, mem_inhEdges, mem_assocEdges] at he ⊢
  rcases he with ⟨_, hd, hs, _⟩ | ⟨hs, hd, _⟩
  · exact ⟨hs, hd⟩
  · exact ⟨hs, hd⟩

theorem removeEdge_sub (g : Graph) (p : Nat × Nat) :
    (removeEdge g p).nodes = g.nodes ∧ ∀ e ∈ (removeEdge g p).edges, e ∈ g.edges := by
  refine ⟨rfl, ?_⟩
  intro e he
  simp only [removeEdge, List.mem_reverse] at he
  exact List.mem_reverse.mp (List.mem_of_mem_eraseP he)

theorem closed_foldl_removeEdge (ps : List (Nat × Nat)) : ∀ g : Graph, g.Closed → (ps.foldl removeEdge g).Closed := by
  induction ps with
  | nil => intro g h; exact h
  | cons p ps ih =>
    intro g h
    apply ih
    intro e he
    have := (removeEdge_sub g p).2 e he
    exact h e this

theorem closed_derive (g : Graph) (fl : Bool) (h : g.Closed) : (derive g fl).Closed :=
  closed_foldl_removeEdge _ g h

/-- every graph of the store is closed -/
abbrev Store.AllClosed (s : Store) : Prop := ∀ g ∈ s.graphs, g.Closed

theorem step_allClosed (q : Quirks) (s : Store) (h : s.AllClosed) (op : Op) : (stepOp q s op).1.AllClosed := by
  cases op with
  | query d k => exact h
  | access d c k => exact h
  | read d => exact h
  | render d b => exact h
  | copy d =>
    simp only [stepOp]
    cases s.diagrams[d]? with
    | none => exact h
    | some gid => exact h
  | sub d fl =>
    cases hd : s.diagrams[d]? with
    | none => simp only [stepOp, hd]; exact h
    | some gid =>
      cases hg : s.graphs[gid]? with
      | none => simp only [stepOp, hd, hg]; exact h
      | some g =>
        have hgc : g.Closed := h g (List.mem_of_getElem? hg)
        simp only [stepOp, hd, hg]
        split
        · intro g' hg'
          rcases List.mem_or_eq_of_mem_set hg' with hm | rfl
          · exact h g' hm
          · exact closed_derive g fl hgc
        · intro g' hg'
          rcases List.mem_append.mp hg' with hm | hm
          · exact h g' hm
          · rw [List.mem_singleton.mp hm]; exact closed_derive g fl hgc

theorem runOps_allClosed (q : Quirks) (ops : List Op) : ∀ s : Store, s.AllClosed → (runOps q s ops).AllClosed := by
  induction ops with
  | nil => intro s h; exact h
  | cons op ops ih => intro s h; exact ih _ (step_allClosed q s h op)

theorem misreported_nil (s : Store) (h : s.AllClosed) : misreported s = [] := by
  unfold misreported
  rw [List.filterMap_eq_nil_iff]
  intro d _
  cases hg : s.graphOf d with
  | none => rfl
  | some g =>
    have hm : g ∈ s.graphs := by
      unfold Store.graphOf at hg
      cases hd : s.diagrams[d]? with
      | none => rw [hd] at hg; cases hg
      | some gid => rw [hd] at hg; exact List.mem_of_getElem? hg
    have hc := h g hm
    have h1 : (reported g).all (g.edges.contains ·) = true := by
      rw [List.all_eq_true]; intro e he
      exact List.contains_iff_mem.mpr ((mem_reported g hc e).mp he)
    have h2 : g.edges.all ((reported g).contains ·) = true := by
      rw [List.all_eq_true]; intro e he
      exact List.contains_iff_mem.mpr ((mem_reported g hc e).mpr he)
    simp only [h1, h2, Bool.and_self, if_true]

/-- **C17_accessors.** For every quirk setting, world, class list and sequence of operations (queries and single
accessor calls on the source and on derived views in any order, renderings, copies, derivations): after the run every
diagram's per-class accessors (`get_out_edges` and its filters) report exactly the edges of that diagram's own graph —
for the source diagram, whose graph `C17_views_pure` shows unchanged, exactly the edges `C17_edges` specifies. -/
theorem C17_accessors (q : Quirks) (w : World) (order : List Nat) (ops : List Op) :
    misreported (runOps q (Store.init (build q w order)) ops) = [] ∧
    ∀ e, e ∈ reported (build q w order) ↔ e ∈ (build q w order).edges := by
  have hc : (build q w order).Closed := closed_buildWith _ w order
  refine ⟨misreported_nil _ (runOps_allClosed q ops _ ?_), mem_reported _ hc⟩
  intro g hg
  simp only [Store.init, List.mem_singleton] at hg
  rw [hg]; exact hc

/-- `misreported` is not constantly empty: a graph with an edge whose source is not a node is misreported -/
example : misreported ⟨[⟨[0], [⟨1, 0, .inh⟩]⟩], [0]⟩ ≠ [] := by decide

/-! ## every accessor is a pure function of the diagram -/

theorem graphOf_lt {s : Store} {d : Nat} {g : Graph} (h : s.graphOf d = some g) : d < s.diagrams.length := by
  unfold Store.graphOf at h
  cases hd : s.diagrams[d]? with
  | none => rw [hd] at h; cases h
  | some gid => exact (List.getElem?_eq_some_iff.mp hd).1

/-- the values remembered by the reader are the values of the accessor on the diagrams as they are now -/
abbrev MemoOK {α} (acc : Graph → α) (s : Store) (memo : List (Nat × α)) : Prop :=
  ∀ p ∈ memo, ∃ g, s.graphOf p.1 = some g ∧ p.2 = acc g

theorem memoOK_ext {α} (acc : Graph → α) {s s' : Store} (h : s.Ext s') (wf : s.WF) {memo : List (Nat × α)}
    (hm : MemoOK acc s memo) : MemoOK acc s' memo := by
  intro p hp
  obtain ⟨g, hg, hv⟩ := hm p hp
  exact ⟨g, by rw [h.graphOf wf p.1 (graphOf_lt hg)]; exact hg, hv⟩

/-- **C17_accessors_pure** (`C17_views_pure` generalised from the graph to everything one can read). With a copied
graph, for *every* accessor — any function `acc` of a diagram's classes and edges, e.g. `readout`: `parent_map`,
`all_ancestors`, `get_assoc_keys_by_source`, `get_out_edges` — and for every sequence of operations (reads of any
diagram, queries, single accessor calls, renderings, copies, derivations, in any order and number): no `read d` ever
returns a value different from the one the previous `read d` returned, and the value read is the accessor applied to
the graph the diagram had when it was created. -/
theorem C17_accessors_pure {α} [DecidableEq α] (acc : Graph → α) (q : Quirks) (hq : q.shallowCopy = false)
    (ops : List Op) :
    ∀ (s : Store) (memo : List (Nat × α)), s.WF → MemoOK acc s memo →
      readTrace acc q s memo ops = ops.map (fun _ => false) ∧
      ∀ d, d < s.diagrams.length → ((runOps q s ops).graphOf d).map acc = (s.graphOf d).map acc := by
  induction ops with
  | nil => intro s memo _ _; exact ⟨rfl, fun _ _ => rfl⟩
  | cons op ops ih =>
    intro s memo wf hm
    obtain ⟨hext, hwf⟩ := step_ext q hq s wf op
    have hm' := memoOK_ext acc hext wf hm
    refine ⟨?_, fun d hd => by rw [(C17_views_pure q hq (op :: ops) s wf).1 d hd]⟩
    cases op with
    | read d =>
      simp only [readTrace, List.map_cons]
      cases hg : (stepOp q s (.read d)).1.graphOf d with
      | none => simp only []; rw [(ih _ memo hwf hm').1]
      | some g =>
        simp only []
        have hm2 : MemoOK acc (stepOp q s (.read d)).1 ((d, acc g) :: memo) := by
          intro p hp
          rcases List.mem_cons.mp hp with rfl | hp
          · exact ⟨g, hg, rfl⟩
          · exact hm' p hp
        rw [(ih _ _ hwf hm2).1]
        congr 1
        cases hf : memo.find? (fun p => p.1 == d) with
        | none => rfl
        | some p =>
          simp only []
          obtain ⟨g', hg', hv⟩ := hm' p (List.mem_of_find?_eq_some hf)
          have hpd : p.1 = d := by simpa using List.find?_some hf
          rw [hpd, hg] at hg'
          cases hg'
          simp [hv]
    | query d k => simp only [readTrace, List.map_cons]; rw [(ih _ memo hwf hm').1]
    | access d c k => simp only [readTrace, List.map_cons]; rw [(ih _ memo hwf hm').1]
    | render d b => simp only [readTrace, List.map_cons]; rw [(ih _ memo hwf hm').1]
    | copy d => simp only [readTrace, List.map_cons]; rw [(ih _ memo hwf hm').1]
    | sub d fl => simp only [readTrace, List.map_cons]; rw [(ih _ memo hwf hm').1]

/-- `readTrace` is not constantly `false`: on the shared graph (the code before fix 8b5fe57) the derivation between two
reads changes what the source's `parent_map`-family accessors return (test) -/
example :
    let w : World := ⟨[⟨0, [], []⟩, ⟨1, [], [⟨⟨false, 0⟩, .cls 0⟩]⟩, ⟨2, [1], []⟩]⟩
    readTrace readout .today (Store.init (build .today w [0, 1, 2])) [] [.read 0, .sub 0 false, .read 0]
      = [false, false, true] := by decide

/-! ## accessor consistency -/

/-- a container is never an optional (their origins are different objects), under every quirk setting -/
theorem container_not_optional (q : Quirks) (t : Ann) (h : isContainer t = true) : isOptional q t = false := by
  cases t with
  | container k x => cases k <;> rfl
  | typeOf x => rfl
  | optional st x => cases st <;> simp [isContainer, getOrigin, containerOrigins] at h
  | union x y w => simp [isContainer, getOrigin, containerOrigins] at h
  | builtin b => rfl
  | cls i => rfl
  | enum i => rfl
  | ext k i => rfl
  | fwd x => rfl

/-- `is_enum` answers True only for a field whose endpoint is an enum class (plain or with a scalar mix-in) -/
theorem enum_endpoint (q : Quirks) (t : Ann) (h : isEnum q t = .t) : (typeEndpoint q t).leaf.isEnum = true := by
  cases q with | mk sc su p z =>
  cases t with
  | builtin b => exact absurd (show Tri.f = Tri.t from h) (by decide)
  | cls i => exact absurd (show Tri.f = Tri.t from h) (by decide)
  | fwd x => exact absurd (show Tri.err = Tri.t from h) (by decide)
  | union x y w => cases w <;> exact absurd (show Tri.err = Tri.t from h) (by decide)
  | enum i => cases su <;> rfl
  | ext k i => cases k <;> cases su <;>
      first | rfl | exact absurd (show Tri.f = Tri.t from h) (by decide)
  | typeOf x => exact absurd (show Tri.f = Tri.t from h) (by decide)
  | container k x => cases k <;> exact absurd (show Tri.f = Tri.t from h) (by decide)
  | optional st x =>
    cases st <;> cases p <;> cases z <;> cases x <;> (try cases ‹ClassKind›) <;> cases su <;>
      first
        | rfl
        | exact absurd (show Tri.f = Tri.t from h) (by decide)
        | exact absurd (show Tri.err = Tri.t from h) (by decide)

/-- non-vacuity: `Optional[E0]` -/
example : isEnum .current (.optional .typing (.enum 0)) = .t := rfl

/-- **C17_enum_one_to_one.** Under every quirk setting and for every annotation: a field for which `is_enum` answers
True is a one-to-one relationship to a non-builtin (its endpoint is the enum class), never a container. -/
theorem C17_enum_one_to_one (q : Quirks) (t : Ann) (h : isEnum q t = .t) :
    isOneToOne q t = true ∧ isBuiltinType q t = false ∧ isContainer t = false ∧ isOneToMany q t = false := by
  have hi := enum_endpoint q t h
  have hb : isBuiltinType q t = false := by
    unfold isBuiltinType
    generalize (typeEndpoint q t).leaf = l at hi
    cases l <;> first | rfl | cases hi
  have hc : isContainer t = false := by
    cases hc : isContainer t
    · rfl
    · simp [isEnum, hc] at h
  simp [isOneToOne, isOneToMany, hb, hc]

/-- **C17_consistent** (accessor consistency). Under EVERY quirk setting (the code as it was found, as it is now, and
repaired) and for EVERY annotation term: `is_one_to_many_relationship ⇔ is_container ∧ ¬ builtin endpoint` (the
`not is_optional` conjunct of the source is redundant: a container is never an optional);
`is_one_to_one_relationship ⇔ ¬ is_container ∧ ¬ builtin endpoint`; the three kinds "builtin-valued", "one-to-one",
"one-to-many" are mutually exclusive and exhaustive; `is_type_type ⇒ is_container`; `is_iterable ⇒ one-to-many and
not type-valued`. -/
theorem C17_consistent (q : Quirks) (t : Ann) :
    isOneToMany q t = (isContainer t && !isBuiltinType q t) ∧
    isOneToOne q t = (!isContainer t && !isBuiltinType q t) ∧
    (isOneToOne q t && isOneToMany q t) = false ∧
    (isBuiltinType q t && isOneToOne q t) = false ∧
    (isBuiltinType q t && isOneToMany q t) = false ∧
    (isBuiltinType q t || isOneToOne q t || isOneToMany q t) = true ∧
    (isContainer t && isOptional q t) = false ∧
    (isTypeType t = true → isContainer t = true) ∧
    (isIterable q t = true → isOneToMany q t = true ∧ isTypeType t = false) := by
  have hco := container_not_optional q t
  refine ⟨?_, rfl, ?_, ?_, ?_, ?_, ?_, ?_, ?_⟩
  · unfold isOneToMany
    cases hc : isContainer t <;> simp [hc] at hco ⊢
    simp [hco]
  · unfold isOneToOne isOneToMany; cases isContainer t <;> simp
  · unfold isOneToOne; cases isBuiltinType q t <;> simp
  · unfold isOneToMany; cases isBuiltinType q t <;> simp
  · unfold isOneToOne isOneToMany
    cases hc : isContainer t <;> cases isBuiltinType q t <;> simp [hc] at hco ⊢
    simp [hco]
  · cases hc : isContainer t <;> simp [hc] at hco ⊢
    exact hco
  · intro h
    cases t with
    | typeOf x => rfl
    | container k x => cases k <;> rfl
    | optional st x => cases st <;> simp [isTypeType, getOrigin] at h
    | _ => simp [isTypeType, getOrigin] at h
  · intro h
    simp [isIterable, isTypeType] at h ⊢
    exact h
/-- **C17_edges_any_fields.** The well-formedness of an input is about the class list only: field names need no
hypothesis. With re-declared (overridden) fields included, no class has two fields of one name
(`C17_public_names_nodup`, Props/C17Override.lean), so `C17_edges` holds for every world — whatever the classes declare
and re-declare — and every list of distinct classes whose `__bases__` do not repeat. -/
theorem C17_edges_any_fields (w : World) (order : List Nat) (h1 : order.Nodup)
    (h2 : ∀ c ∈ order, (w.basesOf c).Nodup) :
    WFInput w order ∧ build .none w order = specBuild w order ∧ (build .none w order).edges.Nodup := by
  have wf : WFInput w order := ⟨h1, h2, fun c _ => C17_public_names_nodup w c⟩
  exact ⟨wf, (C17_edges w order wf).1, (C17_edges w order wf).2.2.2.2⟩

/-- non-vacuity, on a world with an overridden field: `C2(C1(C0))` re-declares `f0: C3` as `f0: List[C4]` -/
example : [0, 1, 2, 3, 4].Nodup ∧ ∀ c ∈ [0, 1, 2, 3, 4], (wOverride.basesOf c).Nodup := by decide
end KrroodVerif.CD
