import KrroodVerif.Props.C13Step
/-!
# C13 — lazily consumed evaluations: the converse direction

`C13_stepwise_complete`: in every history WITHOUT `clear`, an evaluation that has stopped has yielded every instance of the
census of its first `next()` that is still alive — for the per-class copy of the code as it is and for the snapshot alike.
Together with `C13_stepwise_census`: what a stopped evaluation yielded is the census of its first `next()`, minus instances
that died meanwhile, plus (per-class copy only) the late ones of F-C13-3.

The proof needs of the operations in between only what they do to the HEAP (`HeapAdm`: the registry's epoch is not reset,
a live instance was alive before or carries a fresh label, labels stay used), plus `SG.Inv` at both ends.
-/
namespace KrroodVerif.SG

variable {σ : Type}

/-- what a transition may do to the heap: no `clear` (the epoch only grows), no resurrection, labels stay used -/
structure HeapAdm (h h' : Heap) : Prop where
  epoch : ∀ o ∈ h.epoch, o ∈ h'.epoch
  live : ∀ x ∈ h'.live, x ∈ h.live ∨ x.obj ∉ h.used
  used : ∀ o ∈ h.used, o ∈ h'.used

theorem HeapAdm.refl (h : Heap) : HeapAdm h h := ⟨fun _ h => h, fun _ h => Or.inl h, fun _ h => h⟩

theorem HeapAdm.trans {h1 h2 h3 : Heap} (a : HeapAdm h1 h2) (b : HeapAdm h2 h3) : HeapAdm h1 h3 := by
  refine ⟨fun o ho => b.epoch o (a.epoch o ho), ?_, fun o ho => b.used o (a.used o ho)⟩
  intro x hx
  rcases b.live x hx with h | h
  · exact a.live x h
  · exact Or.inr (fun hu => h (a.used _ hu))

/-- no new instance: the live ones were alive, used labels and the epoch are kept -/
theorem HeapAdm.shrink {h h' : Heap} (hl : ∀ x ∈ h'.live, x ∈ h.live) (hu : ∀ o ∈ h.used, o ∈ h'.used)
    (he : ∀ o ∈ h.epoch, o ∈ h'.epoch) : HeapAdm h h' := ⟨he, fun x hx => Or.inl (hl x hx), hu⟩

theorem collect_live_sub (q : Quirks) (h : Heap) : ∀ x ∈ (h.collect q).live, x ∈ h.live := by
  intro x hx
  simp only [Heap.collect, Heap.kill, List.mem_filter] at hx
  exact hx.1

theorem HeapAdm.collect (q : Quirks) (h : Heap) : HeapAdm h (h.collect q) :=
  HeapAdm.shrink (collect_live_sub q h) (fun _ h => h) (fun _ h => h)

theorem HeapAdm.register (h : Heap) (o : Obj) : HeapAdm h (h.register o) :=
  HeapAdm.shrink (fun _ hx => hx) (fun _ h => h) (fun o' ho => (mem_register h o o').2 (Or.inl ho))

theorem ensure2_heap (a : Alloc σ) (st : St σ) (xs xt : HObj) :
    (ensure2 a st xs xt).1.h = (st.h.register xs.obj).register xt.obj := rfl

theorem HeapAdm.ensure2 (a : Alloc σ) (st : St σ) (xs xt : HObj) : HeapAdm st.h (SG.ensure2 a st xs xt).1.h := by
  rw [ensure2_heap]
  exact (HeapAdm.register _ _).trans (HeapAdm.register _ _)

theorem HeapAdm.frame {st st' : St σ} (f : Frame st st') : HeapAdm st.h st'.h :=
  HeapAdm.shrink (fun _ hx => f.live ▸ hx) (fun _ ho => f.used ▸ ho) (fun o ho => f.epoch o ho)

/-- **step_heapAdm.** every operation of the model but `clear` is admissible -/
theorem step_heapAdm (q : Quirks) (S : Schema) (a : Alloc σ) (ha : a.Valid) (st : St σ) (op : Op) (hI : Inv q st)
    (hc : op ≠ .clear) : HeapAdm st.h (step q S a st op).h := by
  unfold step
  split
  · exact HeapAdm.refl _
  cases op with
  | new o c pid =>
    dsimp only
    split
    · exact HeapAdm.refl _
    · rename_i hcond
      simp only [Bool.or_eq_true, List.contains_iff_mem, not_or] at hcond
      refine ⟨fun o' ho => by simp [ho], ?_, fun o' ho => by simp [ho]⟩
      intro x hx
      simp only [List.mem_append, List.mem_singleton] at hx
      rcases hx with hx | rfl
      · exact Or.inl hx
      · exact Or.inr hcond.1
  | drop o =>
    dsimp only
    exact HeapAdm.shrink (fun x hx => by have := collect_live_sub q _ x hx; exact this) (fun _ h => h) (fun _ h => h)
  | sweep => dsimp only; exact HeapAdm.refl _
  | clear => exact absurd rfl hc
  | rel f s t =>
    dsimp only
    split
    · rename_i xs xt hs ht
      split
      · exact HeapAdm.ensure2 a st xs xt
      · exact HeapAdm.ensure2 a st xs xt
    · exact HeapAdm.refl _
  | set f s t =>
    dsimp only
    split
    · rename_i xs xt hs ht
      split
      · have h0 : Inv q { st with h := st.h.write S f s t } := hI.heap_irrelevant _ (by simp) (by simp) (by simp)
        have e := h0.ensure2 ha xs xt (by simpa using (find_some hs).1) (by simpa using (find_some ht).1)
        have k := e.1.addFact S ha S.fuel _ f _ _ false e.2.1 e.2.2.1
        have w : HeapAdm st.h (st.h.write S f s t) :=
          HeapAdm.shrink (fun x hx => by simpa using hx) (fun o ho => by simpa using ho) (fun o ho => by simpa using ho)
        exact ((w.trans (HeapAdm.ensure2 a { st with h := st.h.write S f s t } xs xt)).trans
          (HeapAdm.frame k.2)).trans (HeapAdm.collect q _)
      · have e := hI.ensure2 ha xs xt (find_some hs).1 (find_some ht).1
        have k := e.1.addFact S ha S.fuel _ f _ _ false e.2.1 e.2.2.1
        have b := (HeapAdm.ensure2 a st xs xt).trans (HeapAdm.frame k.2)
        split
        · exact b
        · have w : HeapAdm (SG.addFact q S a S.fuel (SG.ensure2 a st xs xt).1 f (SG.ensure2 a st xs xt).2.1
              (SG.ensure2 a st xs xt).2.2 false).h
              ((SG.addFact q S a S.fuel (SG.ensure2 a st xs xt).1 f (SG.ensure2 a st xs xt).2.1
              (SG.ensure2 a st xs xt).2.2 false).h.write S f s t) :=
            HeapAdm.shrink (fun x hx => by simpa using hx) (fun o ho => by simpa using ho)
              (fun o ho => by simpa using ho)
          exact (b.trans w).trans (HeapAdm.collect q _)
    · exact HeapAdm.refl _
  | mkq k c dom =>
    dsimp only
    split
    · exact HeapAdm.refl _
    · exact HeapAdm.shrink (fun _ h => h) (fun _ h => h) (fun _ h => h)
  | evalq k =>
    dsimp only
    split
    · exact HeapAdm.refl _
    · exact HeapAdm.shrink (fun x hx => by have := collect_live_sub q _ x hx; exact this) (fun _ h => h) (fun _ h => h)
  | dropq k =>
    dsimp only
    split
    · exact HeapAdm.refl _
    · split
      · exact HeapAdm.refl _
      · refine HeapAdm.shrink (fun x hx => ?_) (fun o ho => ?_) (fun o ho => ?_)
        · have := collect_live_sub q _ x hx
          unfold Heap.dropQuery at this; split at this <;> exact this
        · show o ∈ ((st.h.dropQuery q k).collect q).used
          unfold Heap.dropQuery; split <;> exact ho
        · show o ∈ ((st.h.dropQuery q k).collect q).epoch
          unfold Heap.dropQuery; split <;> exact ho
  | newrole o c pid e =>
    dsimp only
    split
    · exact HeapAdm.refl _
    · rename_i hcond
      simp only [Bool.or_eq_true, List.contains_iff_mem, not_or] at hcond
      refine ⟨fun o' ho => by simp [ho], ?_, fun o' ho => by simp [ho]⟩
      intro x hx
      simp only [List.mem_append, List.mem_singleton] at hx
      rcases hx with hx | rfl
      · exact Or.inl hx
      · exact Or.inr hcond.1.1

/-! ### the invariant of an evaluation for the converse direction -/

/-- every instance of the census is yielded, copied, still ahead in the registry, or dead -/
structure IterFull (st : St σ) (it : Iter) : Prop where
  covered : it.started = true → ∀ o ∈ it.expected,
    o ∈ it.yielded ∨ o ∈ it.cur ∨ (∃ w ∈ st.g.byClass, w.obj = o ∧ w.cls ∈ it.walk) ∨ st.h.isLive o = false
  known : it.started = true → ∀ o ∈ it.expected, o ∈ st.h.used ∧ o ∈ st.h.epoch
  stopped : it.status = 1 → it.cur = [] ∧ it.walk = []
  idle : it.started = false → it.status = 0

/-- a live instance known to the registry keeps a wrapper of its class across an admissible transition -/
theorem wrapper_kept {q : Quirks} {st st' : St σ} (hI : Inv q st) (hI' : Inv q st') (hh : HeapAdm st.h st'.h)
    (w : W) (hw : w ∈ st.g.byClass) (hl : st'.h.isLive w.obj = true) :
    ∃ w' ∈ st'.g.byClass, w'.obj = w.obj ∧ w'.cls = w.cls := by
  rw [hI.byClassEq] at hw
  obtain ⟨x', hx', hxo'⟩ := (isLive_iff _ _).1 hl
  have hx : x' ∈ st.h.live := by
    rcases hh.live x' hx' with h | h
    · exact h
    · exact absurd (hxo' ▸ hI.nodeUsed w hw) h
  have he : x'.obj ∈ st.h.epoch := (hI.epochNodes x' hx).2 ⟨w, hw, hxo'.symm⟩
  obtain ⟨w', hw', hwo'⟩ := (hI'.epochNodes x' hx').1 (hh.epoch _ he)
  refine ⟨w', hI'.byClassEq ▸ hw', hwo'.trans hxo', ?_⟩
  rw [← (hI'.nodeLive w' hw' x' hx' hwo'.symm).1, ← (hI.nodeLive w hw x' hx hxo').1]

theorem dead_stays {st st' : St σ} (hh : HeapAdm st.h st'.h) (o : Obj) (hu : o ∈ st.h.used)
    (hd : st.h.isLive o = false) : st'.h.isLive o = false := by
  cases h : st'.h.isLive o with
  | false => rfl
  | true =>
    obtain ⟨x', hx', hxo'⟩ := (isLive_iff _ _).1 h
    rcases hh.live x' hx' with h1 | h1
    · have : st.h.isLive o = true := (isLive_iff _ _).2 ⟨x', h1, hxo'⟩
      simp [hd] at this
    · exact absurd (hxo' ▸ hu) h1

/-- an admissible transition (and `noteLate`, which only touches the ghost) keeps `IterFull` -/
theorem IterFull.transit {q : Quirks} {st st' : St σ} (hI : Inv q st) (hI' : Inv q st') (hh : HeapAdm st.h st'.h)
    {it it' : Iter} (h : IterFull st it) (e1 : it'.started = it.started) (e2 : it'.expected = it.expected)
    (e3 : it'.yielded = it.yielded) (e4 : it'.cur = it.cur) (e5 : it'.walk = it.walk) (e6 : it'.status = it.status) :
    IterFull st' it' := by
  refine ⟨?_, ?_, by rw [e6, e4, e5]; exact h.stopped, by rw [e1, e6]; exact h.idle⟩
  · intro hs o ho
    rw [e1] at hs; rw [e2] at ho; rw [e3, e4, e5]
    rcases h.covered hs o ho with h1 | h1 | ⟨w, hw, rfl, hc⟩ | h1
    · exact Or.inl h1
    · exact Or.inr (Or.inl h1)
    · cases hl : st'.h.isLive w.obj with
      | false => exact Or.inr (Or.inr (Or.inr rfl))
      | true =>
        obtain ⟨w', hw', ho', hc'⟩ := wrapper_kept hI hI' hh w hw hl
        exact Or.inr (Or.inr (Or.inl ⟨w', hw', ho', hc' ▸ hc⟩))
    · exact Or.inr (Or.inr (Or.inr (dead_stays hh o (h.known hs o ho).1 h1)))
  · intro hs o ho
    rw [e1] at hs; rw [e2] at ho
    exact ⟨hh.used o (h.known hs o ho).1, hh.epoch o (h.known hs o ho).2⟩

theorem IterFull.pull {st : St σ} (skipDead : Bool) : ∀ (fuel : Nat) (it : Iter), it.started = true → it.status = 0 →
    IterFull st it → IterFull st (Iter.pull skipDead st.g.byClass st.h.isLive fuel it).1
  | 0, _, _, _, h => h
  | fuel + 1, it, hs, h0, h => by
    unfold Iter.pull
    split
    · rename_i o rest hcur
      split
      · refine ⟨?_, h.known, fun hf => by simp [h0] at hf, fun hf => by simp [hs] at hf⟩
        intro _ x hx
        rcases h.covered hs x hx with h1 | h1 | h1 | h1
        · exact Or.inl (List.mem_append_left _ h1)
        · rw [hcur, List.mem_cons] at h1
          rcases h1 with rfl | h1
          · exact Or.inl (List.mem_append_right _ (List.mem_singleton.2 rfl))
          · exact Or.inr (Or.inl h1)
        · exact Or.inr (Or.inr (Or.inl h1))
        · exact Or.inr (Or.inr (Or.inr h1))
      · rename_i hdead
        have hcov : ∀ x ∈ it.expected, x ∈ it.yielded ∨ x ∈ rest ∨
            (∃ w ∈ st.g.byClass, w.obj = x ∧ w.cls ∈ it.walk) ∨ st.h.isLive x = false := by
          intro x hx
          rcases h.covered hs x hx with h1 | h1 | h1 | h1
          · exact Or.inl h1
          · rw [hcur, List.mem_cons] at h1
            rcases h1 with rfl | h1
            · exact Or.inr (Or.inr (Or.inr (by simpa using hdead)))
            · exact Or.inr (Or.inl h1)
          · exact Or.inr (Or.inr (Or.inl h1))
          · exact Or.inr (Or.inr (Or.inr h1))
        split
        · exact IterFull.pull skipDead fuel { it with cur := rest } hs h0
            ⟨fun _ => hcov, h.known, fun hf => by simp [h0] at hf, fun hf => by simp [hs] at hf⟩
        · exact ⟨fun _ => hcov, h.known, fun hf => by simp at hf, fun hf => by simp [hs] at hf⟩
    · rename_i hcur
      split
      · rename_i c w hwalk
        refine IterFull.pull skipDead fuel
          { it with walk := w, cur := (st.g.byClass.filter (fun x => x.cls == c)).map (·.obj) } hs h0 ?_
        refine ⟨?_, h.known, fun hf => by simp [h0] at hf, fun hf => by simp [hs] at hf⟩
        intro _ x hx
        rcases h.covered hs x hx with h1 | h1 | ⟨v, hv, rfl, hvc⟩ | h1
        · exact Or.inl h1
        · simp [hcur] at h1
        · rw [hwalk, List.mem_cons] at hvc
          rcases hvc with hvc | hvc
          · refine Or.inr (Or.inl ?_)
            simp only [List.mem_map, List.mem_filter, beq_iff_eq]
            exact ⟨v, ⟨hv, hvc⟩, rfl⟩
          · exact Or.inr (Or.inr (Or.inl ⟨v, hv, rfl, hvc⟩))
        · exact Or.inr (Or.inr (Or.inr h1))
      · rename_i hwalk
        exact ⟨h.covered, h.known, fun _ => ⟨hcur, hwalk⟩, fun hf => by simp [hs] at hf⟩

theorem IterFull.begin {q : Quirks} (snap : Bool) (S : Schema) (a : Alloc σ) {st : St σ} (hI : Inv q st)
    (he : st.err = false) (it : Iter) (h0 : it.status = 0) :
    IterFull (it.begin q snap S a st).1 (it.begin q snap S a st).2 := by
  have hexp : ∀ o ∈ st.h.expected S it.cls, o ∈ st.h.used ∧ o ∈ st.h.epoch := by
    intro o ho
    obtain ⟨x, hx, rfl, _, he⟩ := (mem_expected S st.h it.cls o).1 ho
    exact ⟨hI.liveUsed x hx, he⟩
  have hmem : ∀ o ∈ st.h.expected S it.cls, ∃ c ∈ classesOf q S it.cls,
      ∃ w ∈ (sweep q a st.g st.h.isLive).byClass, w.cls = c ∧ w.obj = o := by
    intro o ho
    have := (census_mem (S := S) (a := a) hI it.cls o).2 ho
    unfold instancesOf at this
    simp only [List.mem_flatMap, List.mem_map, List.mem_filter, beq_iff_eq] at this
    obtain ⟨c, hc, w, ⟨hw, hwc⟩, hwo⟩ := this
    exact ⟨c, hc, w, hw, hwc, hwo⟩
  unfold Iter.begin
  rw [step_sweep q S a st he]
  split
  · refine ⟨?_, fun _ => hexp, fun hf => by simp [h0] at hf, fun hf => by simp at hf⟩
    intro _ o ho
    obtain ⟨c, hc, w, hw, hwc, hwo⟩ := hmem o ho
    refine Or.inr (Or.inl ?_)
    simp only [List.mem_flatMap, List.mem_map, List.mem_filter, beq_iff_eq]
    exact ⟨c, hc, w, ⟨hw, hwc⟩, hwo⟩
  · refine ⟨?_, fun _ => hexp, fun hf => by simp [h0] at hf, fun hf => by simp at hf⟩
    intro _ o ho
    obtain ⟨c, hc, w, hw, hwc, hwo⟩ := hmem o ho
    exact Or.inr (Or.inr (Or.inl ⟨w, hw, hwo, hwc ▸ hc⟩))

theorem begin_heap (q : Quirks) (snap : Bool) (S : Schema) (a : Alloc σ) (st : St σ) (it : Iter) :
    (it.begin q snap S a st).1.h = st.h := by
  have : (step q S a st .sweep).h = st.h := by
    unfold step; split <;> rfl
  unfold Iter.begin
  split <;> exact this

/-- one `next()` is admissible for the heap and keeps the evaluation's census covered -/
theorem advance_full {q : Quirks} (hq : q.deadEndpointRaises = false) (snap skipDead : Bool) (S : Schema) (a : Alloc σ)
    {st : St σ} (hI : Inv q st) (it : Iter) (h : IterFull st it) :
    let p := advance q snap skipDead S a st it
    HeapAdm st.h p.1.h ∧ IterFull p.1 p.2 := by
  have he := hI.err_false hq
  unfold advance
  split
  · exact ⟨HeapAdm.refl _, h⟩
  · rename_i h0
    have h0 : it.status = 0 := by simpa using h0
    have key : ∀ (p : St σ × Iter), Inv q p.1 → HeapAdm st.h p.1.h → p.2.started = true → p.2.status = 0 →
        IterFull p.1 p.2 →
        let r := Iter.pull skipDead p.1.g.byClass p.1.h.isLive (p.2.walk.length + p.2.cur.length + p.1.g.byClass.length + 2) p.2
        HeapAdm st.h (match r.2 with | some _ => (setCache p.1 r.1.key r.1.yielded, r.1) | none => (p.1, r.1)).1.h ∧
        IterFull (match r.2 with | some _ => (setCache p.1 r.1.key r.1.yielded, r.1) | none => (p.1, r.1)).1
          (match r.2 with | some _ => (setCache p.1 r.1.key r.1.yielded, r.1) | none => (p.1, r.1)).2 := by
      intro p hIp hh hs hz hf
      have hp := IterFull.pull (st := p.1) skipDead
        (p.2.walk.length + p.2.cur.length + p.1.g.byClass.length + 2) p.2 hs hz hf
      intro r
      cases hr : r.2 with
      | some _ =>
        have hsc : HeapAdm p.1.h (setCache p.1 r.1.key r.1.yielded).h :=
          HeapAdm.shrink (fun _ h => h) (fun _ h => h) (fun _ h => h)
        exact ⟨hh.trans hsc, hp.transit hIp (hIp.setCache _ _) hsc rfl rfl rfl rfl rfl rfl⟩
      | none => exact ⟨hh, hp⟩
    cases hs : it.started with
    | true =>
      simp only [↓reduceIte]
      exact key (st, it) hI (HeapAdm.refl _) hs h0 h
    | false =>
      simp only [Bool.false_eq_true, ↓reduceIte]
      refine key (it.begin q snap S a st) ?_ ?_ ?_ ?_ (IterFull.begin snap S a hI he it h0)
      · unfold Iter.begin; rw [step_sweep q S a st he]; split <;> exact hI.sweep
      · rw [begin_heap]; exact HeapAdm.refl _
      · unfold Iter.begin; split <;> rfl
      · unfold Iter.begin; split <;> exact h0

/-- the invariant of a run for both directions -/
def RunFull (q : Quirks) (r : SRun σ) : Prop := RunOK q r ∧ ∀ it ∈ r.iters, IterFull r.st it

/-- ANY transition between two `next()` calls that keeps the registry consistent and is admissible for the heap -/
theorem RunFull.between {q : Quirks} {r : SRun σ} (h : RunFull q r) {st' : St σ} (hI : Inv q st')
    (hh : HeapAdm r.st.h st'.h) : RunFull q (r.between st') := by
  refine ⟨h.1.between hI, ?_⟩
  intro it hit
  simp only [SRun.between, List.mem_map] at hit
  obtain ⟨it0, h0, rfl⟩ := hit
  exact (h.2 it0 h0).transit h.1.1 hI hh rfl rfl rfl rfl rfl rfl

theorem RunFull.start {q : Quirks} (S : Schema) (a : Alloc σ) (ha : a.Valid) {r : SRun σ} (h : RunFull q r) (k : Nat)
    (c : Cls) : RunFull q (r.start q S a k c) := by
  refine ⟨h.1.start S a ha k c, ?_⟩
  unfold SRun.start
  split
  · exact h.2
  · have hI' := C13_inv_step q S a ha r.st (.mkq (iterKey k) c none) h.1.1
    have hh := step_heapAdm q S a ha r.st (.mkq (iterKey k) c none) h.1.1 (by simp)
    intro it hit
    simp only [List.mem_append, List.mem_singleton] at hit
    rcases hit with hit | rfl
    · exact (h.2 it hit).transit h.1.1 hI' hh rfl rfl rfl rfl rfl rfl
    · exact ⟨fun hf => by simp at hf, fun hf => by simp at hf, fun hf => by simp at hf, fun _ => rfl⟩

theorem RunFull.next {q : Quirks} (hq : q.deadEndpointRaises = false) (snap skipDead : Bool) (S : Schema) (a : Alloc σ)
    {r : SRun σ} (h : RunFull q r) (k : Nat) : RunFull q (r.next q snap skipDead S a k) := by
  refine ⟨h.1.next hq snap skipDead S a k, ?_⟩
  unfold SRun.next
  split
  · exact h.2
  · rename_i it hfind
    have hit : it ∈ r.iters := List.mem_of_find?_eq_some hfind
    obtain ⟨h1, _, _⟩ := advance_ok hq snap skipDead S a h.1.1 it (h.1.2 it hit)
    obtain ⟨h4, h5⟩ := advance_full hq snap skipDead S a h.1.1 it (h.2 it hit)
    intro x hx
    simp only [List.mem_map] at hx
    obtain ⟨y, hy, rfl⟩ := hx
    split
    · exact h5
    · exact (h.2 y hy).transit h.1.1 h1 h4 rfl rfl rfl rfl rfl rfl

theorem runFull_run (q : Quirks) (hq : q.deadEndpointRaises = false) (snap skipDead : Bool) (S : Schema) (a : Alloc σ)
    (ha : a.Valid) (ops : List SOp) (hnc : ∀ op ∈ ops, op ≠ .op .clear) :
    RunFull q (runSOps q snap skipDead S a ops) := by
  unfold runSOps
  have : ∀ (l : List SOp) (r : SRun σ), (∀ op ∈ l, op ≠ .op .clear) → RunFull q r →
      RunFull q (l.foldl (stepSOp q snap skipDead S a) r) := by
    intro l
    induction l with
    | nil => intro r _ h; exact h
    | cons op l ih =>
      intro r hl h
      apply ih _ (fun o ho => hl o (List.mem_cons_of_mem _ ho))
      have hop := hl op List.mem_cons_self
      cases op with
      | op o =>
        have ho : o ≠ .clear := fun e => hop (e ▸ rfl)
        exact h.between (C13_inv_step q S a ha _ _ h.1.1) (step_heapAdm q S a ha _ o h.1.1 ho)
      | start k c => exact h.start S a ha k c
      | next k => exact h.next hq snap skipDead S a k
  exact this ops _ hnc ⟨runOK_init q a, fun it hit => by simp at hit⟩

/-- **C13_stepwise_complete.** In every history without `clear`, interleaved in any way with the `next()` calls of any
number of lazily consumed evaluations: an evaluation that has stopped has yielded every instance of the census taken at
its first `next()` that is still alive — per-class copy (the code as it is) and snapshot alike. -/
theorem C13_stepwise_complete (q : Quirks) (hq : q.deadEndpointRaises = false) (snap skipDead : Bool) (S : Schema)
    (a : Alloc σ) (ha : a.Valid) (ops : List SOp) (hnc : ∀ op ∈ ops, op ≠ .op .clear) :
    ∀ it ∈ (runSOps q snap skipDead S a ops).iters, it.status = 1 →
      ∀ o ∈ it.expected, (runSOps q snap skipDead S a ops).st.h.isLive o = true → o ∈ it.yielded := by
  intro it hit h1 o ho hl
  have hf := (runFull_run q hq snap skipDead S a ha ops hnc).2 it hit
  have hs : it.started = true := by
    cases h : it.started with
    | true => rfl
    | false => have := hf.idle h; omega
  obtain ⟨hc, hw⟩ := hf.stopped h1
  rcases hf.covered hs o ho with h | h | ⟨w, _, _, hwc⟩ | h
  · exact h
  · simp [hc] at h
  · simp [hw] at hwc
  · simp [hl] at h

/-- **C13_stepwise_exact_snapshot.** The clean statement (snapshot, no `clear`): a stopped evaluation has yielded, of the
census taken at its first `next()`, exactly the instances … it yields nothing else, and every one that is still alive. -/
theorem C13_stepwise_exact_snapshot (q : Quirks) (hq : q.deadEndpointRaises = false) (skipDead : Bool) (S : Schema)
    (a : Alloc σ) (ha : a.Valid) (ops : List SOp) (hnc : ∀ op ∈ ops, op ≠ .op .clear) :
    ∀ it ∈ (runSOps q true skipDead S a ops).iters,
      (∀ o ∈ it.yielded, o ∈ it.expected) ∧
      (it.status = 1 → ∀ o ∈ it.expected, (runSOps q true skipDead S a ops).st.h.isLive o = true → o ∈ it.yielded) :=
  fun it hit => ⟨(C13_stepwise_snapshot q hq skipDead S a ha ops it hit).2,
    C13_stepwise_complete q hq true skipDead S a ha ops hnc it hit⟩

/-- non-vacuity: a history without `clear` in which an evaluation stops with census instances still alive -/
example : (∀ op ∈ cexStepOps, op ≠ SOp.op .clear) ∧
    ((runSOps Quirks.asIs false true cexSchema lifo cexStepOps).iters.map (fun it => (it.status, it.expected))) =
      [(1, [0])] := by
  refine ⟨?_, by decide +kernel⟩
  intro op hop
  simp only [cexStepOps, List.mem_cons, List.not_mem_nil, or_false] at hop
  rcases hop with rfl | rfl | rfl | rfl | rfl | rfl <;> simp

end KrroodVerif.SG
