import KrroodVerif.Model.SymbolGraph
import Mathlib.Data.List.Nodup
/-!
# C13 — domain-less variables range over exactly the live instances of their type

The invariant `SG.Inv` of the registry (graph nodes, `_instance_index`, `_class_to_wrapped_instances`,
`_relation_index` and the heap describe the same set of wrappers), its preservation by every operation for EVERY
valid node-index allocator, every `id()` assignment and every setting of the quirk flags, and the census theorems.
-/
namespace KrroodVerif.SG

variable {σ : Type}

/-- the registry is consistent with itself and with the heap -/
structure Inv (q : Quirks) (st : St σ) : Prop where
  nodesNodup : st.g.nodes.Nodup
  objInj : ∀ w1 ∈ st.g.nodes, ∀ w2 ∈ st.g.nodes, w1.obj = w2.obj → w1 = w2
  idxInj : ∀ w1 ∈ st.g.nodes, ∀ w2 ∈ st.g.nodes, w1.idx = w2.idx → w1 = w2
  /-- the class lists hold exactly the wrappers of the graph (they partition the nodes by `instance_type`) -/
  byClassEq : st.g.byClass = st.g.nodes
  nodeUsed : ∀ w ∈ st.g.nodes, w.obj ∈ st.h.used
  liveUsed : ∀ x ∈ st.h.live, x.obj ∈ st.h.used
  liveObjInj : ∀ x1 ∈ st.h.live, ∀ x2 ∈ st.h.live, x1.obj = x2.obj → x1 = x2
  livePidInj : ∀ x1 ∈ st.h.live, ∀ x2 ∈ st.h.live, x1.pid = x2.pid → x1 = x2
  nodeLive : ∀ w ∈ st.g.nodes, ∀ x ∈ st.h.live, x.obj = w.obj → x.cls = w.cls ∧ x.pid = w.pid
  /-- a live instance has a wrapper iff it was handed to the registry since the last `clear` -/
  epochNodes : ∀ x ∈ st.h.live, (x.obj ∈ st.h.epoch ↔ ∃ w ∈ st.g.nodes, w.obj = x.obj)
  instNodup : st.g.instIdx.Nodup
  instKeys : ∀ kw1 ∈ st.g.instIdx, ∀ kw2 ∈ st.g.instIdx, kw1.1 = kw2.1 → kw1 = kw2
  instLive : ∀ w ∈ st.g.nodes, ∀ x ∈ st.h.live, x.obj = w.obj → (w.pid, w) ∈ st.g.instIdx
  instOwner : ∀ kw ∈ st.g.instIdx, ∀ x ∈ st.h.live, x.pid = kw.1 → kw.2.obj = x.obj
  instNode : ∀ kw ∈ st.g.instIdx, (q.keepDeadIndex = false ∨ ∃ x ∈ st.h.live, x.obj = kw.2.obj) →
    kw.2 ∈ st.g.nodes ∧ kw.1 = kw.2.pid
  edgeNodes : ∀ e ∈ st.g.edges, e.src ∈ st.g.nodes ∧ e.tgt ∈ st.g.nodes
  relOfEdge : ∀ e ∈ st.g.edges, (e.fld, e.src.idx, e.tgt.idx) ∈ st.g.relIdx
  relExact : q.staleRelIndex = false → ∀ r ∈ st.g.relIdx, ∃ e ∈ st.g.edges, r = (e.fld, e.src.idx, e.tgt.idx)
  errFlag : st.err = true → st.deadHit = true ∧ q.deadEndpointRaises = true
  epochUsed : ∀ o ∈ st.h.epoch, o ∈ st.h.used
  instUsed : ∀ kw ∈ st.g.instIdx, kw.2.obj ∈ st.h.used
  everNodes : ∀ w ∈ st.g.nodes, w.idx ∈ st.g.ever
  everRel : ∀ r ∈ st.g.relIdx, r.2.1 ∈ st.g.ever ∧ r.2.2 ∈ st.g.ever
  /-- as long as no node index was handed out twice, an index entry without an edge behind it mentions an index that
  no node of the graph has any more -/
  staleOut : st.g.reused = false → ∀ r ∈ st.g.relIdx, (∃ e ∈ st.g.edges, r = (e.fld, e.src.idx, e.tgt.idx)) ∨
    (∀ w ∈ st.g.nodes, w.idx ≠ r.2.1) ∨ (∀ w ∈ st.g.nodes, w.idx ≠ r.2.2)
  noHit : st.g.reused = false → st.staleHit = false

theorem isLive_iff (h : Heap) (o : Obj) : h.isLive o = true ↔ ∃ x ∈ h.live, x.obj = o := by
  simp [Heap.isLive, List.any_eq_true]

theorem find_some {h : Heap} {o : Obj} {x : HObj} (hx : h.find o = some x) : x ∈ h.live ∧ x.obj = o := by
  unfold Heap.find at hx
  exact ⟨List.mem_of_find?_eq_some hx, by simpa using List.find?_some hx⟩

/-- **C13_inv_init.** the empty registry is consistent -/
theorem C13_inv_init (q : Quirks) (a : Alloc σ) : Inv q (St.init a) := by
  constructor <;> simp [St.init, SG.empty, Heap.empty]

/-! ### preservation by the primitive mutations -/

/-- only `live`, `used`, `epoch` of the heap matter -/
theorem Inv.heap_irrelevant {q : Quirks} {st : St σ} (hI : Inv q st) (h' : Heap)
    (h1 : h'.live = st.h.live) (h2 : h'.used = st.h.used) (h3 : h'.epoch = st.h.epoch) :
    Inv q { st with h := h' } := by
  obtain ⟨a1, a2, a3, a4, a5, a6, a7, a8, a9, a10, a11, a12, a13, a14, a15, a16, a17, a18, a19, a20, a21, a22, a23, a24, a25⟩ := hI
  constructor <;> simp only [h1, h2, h3] <;> assumption

/-- instances die (any set of them) -/
theorem Inv.kill {q : Quirks} {st : St σ} (hI : Inv q st) (D : List Obj) :
    Inv q { st with h := st.h.kill D } := by
  have hsub : ∀ x, x ∈ (st.h.kill D).live → x ∈ st.h.live := by
    intro x hx; simp [Heap.kill] at hx; exact hx.1
  constructor
  · exact hI.nodesNodup
  · exact hI.objInj
  · exact hI.idxInj
  · exact hI.byClassEq
  · exact hI.nodeUsed
  · intro x hx; exact hI.liveUsed x (hsub x hx)
  · intro x1 h1 x2 h2; exact hI.liveObjInj x1 (hsub _ h1) x2 (hsub _ h2)
  · intro x1 h1 x2 h2; exact hI.livePidInj x1 (hsub _ h1) x2 (hsub _ h2)
  · intro w hw x hx; exact hI.nodeLive w hw x (hsub _ hx)
  · intro x hx; exact hI.epochNodes x (hsub _ hx)
  · exact hI.instNodup
  · exact hI.instKeys
  · intro w hw x hx; exact hI.instLive w hw x (hsub _ hx)
  · intro kw hkw x hx; exact hI.instOwner kw hkw x (hsub _ hx)
  · intro kw hkw hc
    apply hI.instNode kw hkw
    rcases hc with hc | ⟨x, hx, hxo⟩
    · exact Or.inl hc
    · exact Or.inr ⟨x, hsub _ hx, hxo⟩
  · exact hI.edgeNodes
  · exact hI.relOfEdge
  · exact hI.relExact
  · exact hI.errFlag
  · exact hI.epochUsed
  · exact hI.instUsed
  · exact hI.everNodes
  · exact hI.everRel
  · exact hI.staleOut
  · exact hI.noHit

theorem Inv.collect {q q' : Quirks} {st : St σ} (hI : Inv q st) :
    Inv q { st with h := st.h.collect q' } := hI.kill _

theorem Inv.collect' {q q' : Quirks} {st : St σ} {h1 : Heap} (hI : Inv q { st with h := h1 }) :
    Inv q { st with h := h1.collect q' } := hI.kill _


/-- `remove_node` of a wrapper whose instance is dead -/
theorem Inv.removeNode {q : Quirks} {a : Alloc σ} {st : St σ} (hI : Inv q st) (w : W) (hw : w ∈ st.g.nodes)
    (hdead : ∀ x ∈ st.h.live, x.obj ≠ w.obj) : Inv q { st with g := removeNode q a st.g w } := by
  have hmem : ∀ x, x ∈ st.g.nodes.erase w ↔ x ≠ w ∧ x ∈ st.g.nodes := fun x => hI.nodesNodup.mem_erase_iff
  constructor
  · exact hI.nodesNodup.erase w
  · intro w1 h1 w2 h2; exact hI.objInj w1 ((hmem _).1 h1).2 w2 ((hmem _).1 h2).2
  · intro w1 h1 w2 h2; exact hI.idxInj w1 ((hmem _).1 h1).2 w2 ((hmem _).1 h2).2
  · simp only [SG.removeNode, hI.byClassEq]
  · intro w1 h1; exact hI.nodeUsed w1 ((hmem _).1 h1).2
  · exact hI.liveUsed
  · exact hI.liveObjInj
  · exact hI.livePidInj
  · intro w1 h1; exact hI.nodeLive w1 ((hmem _).1 h1).2
  · intro x hx
    rw [hI.epochNodes x hx]
    constructor
    · rintro ⟨w1, h1, e1⟩
      refine ⟨w1, (hmem _).2 ⟨?_, h1⟩, e1⟩
      rintro rfl; exact hdead x hx e1.symm
    · rintro ⟨w1, h1, e1⟩; exact ⟨w1, ((hmem _).1 h1).2, e1⟩
  · simp only [SG.removeNode]; split
    · exact hI.instNodup
    · exact hI.instNodup.filter _
  · simp only [SG.removeNode]; split
    · exact hI.instKeys
    · intro k1 h1 k2 h2; exact hI.instKeys k1 (List.mem_filter.1 h1).1 k2 (List.mem_filter.1 h2).1
  · intro w1 h1 x hx hxo
    have h1' := (hmem _).1 h1
    have := hI.instLive w1 h1'.2 x hx hxo
    simp only [SG.removeNode]; split
    · exact this
    · refine List.mem_filter.2 ⟨this, ?_⟩
      have : w1 ≠ w := h1'.1
      simp [this]
  · simp only [SG.removeNode]; split
    · exact hI.instOwner
    · intro kw hkw; exact hI.instOwner kw (List.mem_filter.1 hkw).1
  · intro kw hkw hc
    have hkw' : kw ∈ st.g.instIdx := by
      simp only [SG.removeNode] at hkw; split at hkw
      · exact hkw
      · exact (List.mem_filter.1 hkw).1
    have := hI.instNode kw hkw' hc
    refine ⟨(hmem _).2 ⟨?_, this.1⟩, this.2⟩
    intro heq
    rcases hc with hc | ⟨x, hx, hxo⟩
    · simp only [SG.removeNode, hc] at hkw
      have h2 := (List.mem_filter.1 hkw).2
      have h3 := this.2
      rw [heq] at h3
      simp [heq, h3] at h2
    · exact hdead x hx (by rw [hxo, heq])
  · intro e he
    simp only [SG.removeNode] at he
    have he' := List.mem_filter.1 he
    have hn := hI.edgeNodes e he'.1
    simp only [Bool.and_eq_true, bne_iff_ne, ne_eq] at he'
    refine ⟨(hmem _).2 ⟨?_, hn.1⟩, (hmem _).2 ⟨?_, hn.2⟩⟩
    · rintro rfl; exact he'.2.1 rfl
    · rintro rfl; exact he'.2.2 rfl
  · intro e he
    simp only [SG.removeNode] at he ⊢
    have he' := List.mem_filter.1 he
    have := hI.relOfEdge e he'.1
    split
    · exact this
    · refine List.mem_filter.2 ⟨this, ?_⟩
      simpa using he'.2
  · intro hq r hr
    simp only [SG.removeNode, hq] at hr ⊢
    have hr' := List.mem_filter.1 hr
    obtain ⟨e, he, rfl⟩ := hI.relExact hq r hr'.1
    exact ⟨e, List.mem_filter.2 ⟨he, by simpa using hr'.2⟩, rfl⟩
  · exact hI.errFlag
  · exact hI.epochUsed
  · simp only [SG.removeNode]; split
    · exact hI.instUsed
    · intro kw hkw; exact hI.instUsed kw (List.mem_filter.1 hkw).1
  · intro w1 h1; exact hI.everNodes w1 ((hmem _).1 h1).2
  · have hsub : ∀ r, r ∈ (SG.removeNode q a st.g w).relIdx → r ∈ st.g.relIdx := by
      intro r hr; simp only [SG.removeNode] at hr; split at hr
      · exact hr
      · exact (List.mem_filter.1 hr).1
    intro r hr; exact hI.everRel r (hsub r hr)
  · have hsub : ∀ r, r ∈ (SG.removeNode q a st.g w).relIdx → r ∈ st.g.relIdx := by
      intro r hr; simp only [SG.removeNode] at hr; split at hr
      · exact hr
      · exact (List.mem_filter.1 hr).1
    intro hre r hr
    have hother : ∀ w' ∈ st.g.nodes.erase w, w'.idx ≠ w.idx := by
      intro w' hw' he
      have := (hmem _).1 hw'
      exact this.1 (hI.idxInj w' this.2 w hw he)
    rcases hI.staleOut hre r (hsub r hr) with ⟨e, he, rfl⟩ | h | h
    · by_cases hinc : e.src.idx = w.idx ∨ e.tgt.idx = w.idx
      · rcases hinc with hc | hc
        · right; left; intro w' hw'; simpa [hc] using hother w' hw'
        · right; right; intro w' hw'; simpa [hc] using hother w' hw'
      · left
        refine ⟨e, ?_, rfl⟩
        simp only [SG.removeNode, List.mem_filter, Bool.and_eq_true, bne_iff_ne, ne_eq]
        exact ⟨he, fun hc => hinc (Or.inl hc), fun hc => hinc (Or.inr hc)⟩
    · right; left; intro w' hw'; exact h w' ((hmem _).1 hw').2
    · right; right; intro w' hw'; exact h w' ((hmem _).1 hw').2
  · exact hI.noHit

theorem mem_insertByIdx (w x : W) (l : List W) : x ∈ insertByIdx w l ↔ x = w ∨ x ∈ l := by
  induction l with
  | nil => simp [insertByIdx]
  | cons y ys ih =>
    simp only [insertByIdx]; split
    · simp
    · simp [ih]; tauto

theorem nodup_insertByIdx (w : W) (l : List W) (hw : w ∉ l) (hl : l.Nodup) : (insertByIdx w l).Nodup := by
  induction l with
  | nil => simp [insertByIdx]
  | cons y ys ih =>
    simp only [insertByIdx]; split
    · exact List.nodup_cons.2 ⟨hw, hl⟩
    · have hy := List.nodup_cons.1 hl
      refine List.nodup_cons.2 ⟨?_, ih (fun h => hw (List.mem_cons_of_mem _ h)) hy.2⟩
      rw [mem_insertByIdx]
      rintro (rfl | h)
      · exact hw (List.mem_cons_self)
      · exact hy.1 h

theorem mem_sortByIdx (x : W) (l : List W) : x ∈ sortByIdx l ↔ x ∈ l := by
  induction l with
  | nil => simp [sortByIdx]
  | cons y ys ih =>
    have : sortByIdx (y :: ys) = insertByIdx y (sortByIdx ys) := rfl
    rw [this, mem_insertByIdx, ih]; simp

theorem nodup_sortByIdx (l : List W) (hl : l.Nodup) : (sortByIdx l).Nodup := by
  induction l with
  | nil => simp [sortByIdx]
  | cons y ys ih =>
    have : sortByIdx (y :: ys) = insertByIdx y (sortByIdx ys) := rfl
    have hy := List.nodup_cons.1 hl
    rw [this]
    exact nodup_insertByIdx _ _ (by rw [mem_sortByIdx]; exact hy.1) (ih hy.2)

/-- removing a list of distinct dead wrappers, one `remove_node` after the other -/
theorem Inv.removeNodes {q : Quirks} {a : Alloc σ} : ∀ (l : List W) (st : St σ), Inv q st → l.Nodup →
    (∀ w ∈ l, w ∈ st.g.nodes ∧ ∀ x ∈ st.h.live, x.obj ≠ w.obj) →
    Inv q { st with g := l.foldl (SG.removeNode q a) st.g }
  | [], st, hI, _, _ => by simpa using hI
  | w :: l, st, hI, hn, hl => by
    have hn' := List.nodup_cons.1 hn
    have h1 := hI.removeNode (a := a) w (hl w List.mem_cons_self).1 (hl w List.mem_cons_self).2
    have := Inv.removeNodes (a := a) l { st with g := SG.removeNode q a st.g w } h1 hn'.2 (by
      intro w' hw'
      have := hl w' (List.mem_cons_of_mem _ hw')
      refine ⟨?_, this.2⟩
      show w' ∈ st.g.nodes.erase w
      rw [hI.nodesNodup.mem_erase_iff]
      exact ⟨fun h => hn'.1 (h ▸ hw'), this.1⟩)
    simpa [List.foldl_cons] using this

theorem Inv.sweep {q : Quirks} {a : Alloc σ} {st : St σ} (hI : Inv q st) :
    Inv q { st with g := SG.sweep q a st.g st.h.isLive } := by
  unfold SG.sweep
  apply hI.removeNodes
  · exact nodup_sortByIdx _ (hI.nodesNodup.filter _)
  · intro w hw
    rw [mem_sortByIdx, List.mem_filter] at hw
    refine ⟨hw.1, ?_⟩
    intro x hx hxo
    have : st.h.isLive w.obj = true := (isLive_iff _ _).2 ⟨x, hx, hxo⟩
    simp [this] at hw


/-- `add_node` for the instance `x` (just created, or alive and not yet known to this registry) -/
theorem Inv.addNode {q : Quirks} {a : Alloc σ} (ha : a.Valid) {st : St σ} (hI : Inv q st) (x : HObj) (h' : Heap)
    (hsub : ∀ y ∈ h'.live, y ∈ st.h.live ∨ y = x)
    (hobj : ∀ y ∈ st.h.live, y.obj = x.obj → y = x) (hpid : ∀ y ∈ st.h.live, y.pid = x.pid → y = x)
    (hused : ∀ o, o ∈ h'.used ↔ o ∈ st.h.used ∨ o = x.obj)
    (hepoch : ∀ o, o ∈ h'.epoch ↔ o ∈ st.h.epoch ∨ o = x.obj)
    (hnone : ∀ w ∈ st.g.nodes, w.obj ≠ x.obj)
    (hent : ∀ kw ∈ st.g.instIdx, kw.2.obj = x.obj → x ∈ st.h.live) :
    Inv q { st with g := (SG.addNode a st.g x.obj x.cls x.pid).1, h := h' } := by
  have hfresh : ∀ w ∈ st.g.nodes, w.idx ≠ (a.pick st.g.al (st.g.nodes.map (·.idx))).1 := by
    intro w hw heq
    exact ha st.g.al (st.g.nodes.map (·.idx)) (heq ▸ List.mem_map_of_mem hw)
  -- no entry of the index is keyed by the id of `x` unless it is about to be replaced
  constructor
  · simp only [SG.addNode]
    refine List.Nodup.append hI.nodesNodup (by simp) ?_
    intro w hw hw'
    simp only [List.mem_singleton] at hw'
    exact hnone w hw (by rw [hw'])
  · simp only [SG.addNode, List.mem_append, List.mem_singleton]
    rintro w1 (h1 | rfl) w2 (h2 | rfl) he
    · exact hI.objInj w1 h1 w2 h2 he
    · exact absurd he (hnone w1 h1)
    · exact absurd he.symm (hnone w2 h2)
    · rfl
  · simp only [SG.addNode, List.mem_append, List.mem_singleton]
    rintro w1 (h1 | rfl) w2 (h2 | rfl) he
    · exact hI.idxInj w1 h1 w2 h2 he
    · exact absurd he (hfresh w1 h1)
    · exact absurd he.symm (hfresh w2 h2)
    · rfl
  · simp only [SG.addNode, hI.byClassEq]
  · simp only [SG.addNode, List.mem_append, List.mem_singleton]
    rintro w (h | rfl)
    · exact (hused _).2 (Or.inl (hI.nodeUsed w h))
    · exact (hused _).2 (Or.inr rfl)
  · intro y hy
    rcases hsub y hy with h | rfl
    · exact (hused _).2 (Or.inl (hI.liveUsed y h))
    · exact (hused _).2 (Or.inr rfl)
  · intro y1 h1 y2 h2 he
    rcases hsub y1 h1 with g1 | g1 <;> rcases hsub y2 h2 with g2 | g2
    · exact hI.liveObjInj y1 g1 y2 g2 he
    · rw [g2] at he ⊢; exact hobj y1 g1 he
    · rw [g1] at he ⊢; exact (hobj y2 g2 he.symm).symm
    · rw [g1, g2]
  · intro y1 h1 y2 h2 he
    rcases hsub y1 h1 with g1 | g1 <;> rcases hsub y2 h2 with g2 | g2
    · exact hI.livePidInj y1 g1 y2 g2 he
    · rw [g2] at he ⊢; exact hpid y1 g1 he
    · rw [g1] at he ⊢; exact (hpid y2 g2 he.symm).symm
    · rw [g1, g2]
  · simp only [SG.addNode, List.mem_append, List.mem_singleton]
    rintro w (hw | rfl) y hy hyo
    · rcases hsub y hy with h | rfl
      · exact hI.nodeLive w hw y h hyo
      · exact absurd hyo.symm (hnone w hw)
    · rcases hsub y hy with h | rfl
      · have := hobj y h hyo; subst this; exact ⟨rfl, rfl⟩
      · exact ⟨rfl, rfl⟩
  · intro y hy
    simp only [SG.addNode, List.mem_append, List.mem_singleton, hepoch]
    rcases hsub y hy with h | rfl
    · rw [hI.epochNodes y h]
      constructor
      · rintro (⟨w, hw, e⟩ | e)
        · exact ⟨w, Or.inl hw, e⟩
        · exact ⟨_, Or.inr rfl, e.symm⟩
      · rintro ⟨w, hw | rfl, e⟩
        · exact Or.inl ⟨w, hw, e⟩
        · exact Or.inr e.symm
    · constructor
      · intro _; exact ⟨_, Or.inr rfl, rfl⟩
      · intro _; exact Or.inr rfl
  · simp only [SG.addNode]
    refine List.Nodup.append (hI.instNodup.filter _) (by simp) ?_
    intro kw hkw hkw'
    simp only [List.mem_singleton] at hkw'
    have := (List.mem_filter.1 hkw).2
    simp [hkw'] at this
  · simp only [SG.addNode, List.mem_append, List.mem_singleton, List.mem_filter]
    rintro k1 (⟨h1, n1⟩ | rfl) k2 (⟨h2, n2⟩ | rfl) he
    · exact hI.instKeys k1 h1 k2 h2 he
    · simp [he] at n1
    · simp [← he] at n2
    · rfl
  · simp only [SG.addNode, List.mem_append, List.mem_singleton, List.mem_filter]
    rintro w (hw | rfl) y hy hyo
    · rcases hsub y hy with h | rfl
      · left
        refine ⟨hI.instLive w hw y h hyo, ?_⟩
        have hp := (hI.nodeLive w hw y h hyo).2
        simp only [bne_iff_ne, ne_eq]
        intro hpe
        have := hpid y h (by rw [hp, hpe])
        subst this
        exact hnone w hw hyo.symm
      · exact absurd hyo.symm (hnone w hw)
    · right; rfl
  · simp only [SG.addNode, List.mem_append, List.mem_singleton, List.mem_filter]
    rintro kw (⟨hkw, hn⟩ | rfl) y hy hyp
    · rcases hsub y hy with h | rfl
      · exact hI.instOwner kw hkw y h hyp
      · simp [hyp] at hn
    · rcases hsub y hy with h | rfl
      · have := hpid y h hyp; subst this; rfl
      · rfl
  · simp only [SG.addNode, List.mem_append, List.mem_singleton, List.mem_filter]
    rintro kw (⟨hkw, hn⟩ | rfl) hc
    · have : q.keepDeadIndex = false ∨ ∃ y ∈ st.h.live, y.obj = kw.2.obj := by
        rcases hc with hc | ⟨y, hy, hyo⟩
        · exact Or.inl hc
        · rcases hsub y hy with h | rfl
          · exact Or.inr ⟨y, h, hyo⟩
          · exact Or.inr ⟨y, hent kw hkw hyo.symm, hyo⟩
      have := hI.instNode kw hkw this
      exact ⟨Or.inl this.1, this.2⟩
    · exact ⟨Or.inr rfl, rfl⟩
  · simp only [SG.addNode, List.mem_append]
    intro e he
    exact ⟨Or.inl (hI.edgeNodes e he).1, Or.inl (hI.edgeNodes e he).2⟩
  · exact hI.relOfEdge
  · exact hI.relExact
  · exact hI.errFlag
  · intro o ho
    rcases (hepoch o).1 ho with h | rfl
    · exact (hused _).2 (Or.inl (hI.epochUsed o h))
    · exact (hused _).2 (Or.inr rfl)
  · simp only [SG.addNode, List.mem_append, List.mem_singleton, List.mem_filter]
    rintro kw (⟨hkw, _⟩ | rfl)
    · exact (hused _).2 (Or.inl (hI.instUsed kw hkw))
    · exact (hused _).2 (Or.inr rfl)
  · simp only [SG.addNode, List.mem_append, List.mem_singleton]
    rintro w (hw | rfl)
    · exact Or.inl (hI.everNodes w hw)
    · exact Or.inr rfl
  · simp only [SG.addNode, List.mem_append, List.mem_singleton]
    intro r hr
    exact ⟨Or.inl (hI.everRel r hr).1, Or.inl (hI.everRel r hr).2⟩
  · simp only [SG.addNode, Bool.or_eq_false_iff, List.mem_append, List.mem_singleton]
    rintro ⟨hre, hni⟩ r hr
    have hni' : (a.pick st.g.al (st.g.nodes.map (·.idx))).1 ∉ st.g.ever := by
      intro h; rw [← List.contains_iff_mem] at h; rw [h] at hni; cases hni
    rcases hI.staleOut hre r hr with h | h | h
    · exact Or.inl h
    · right; left
      rintro w (hw | rfl)
      · exact h w hw
      · intro he
        have he' : (a.pick st.g.al (st.g.nodes.map (·.idx))).1 = r.2.1 := he
        exact hni' (he' ▸ (hI.everRel r hr).1)
    · right; right
      rintro w (hw | rfl)
      · exact h w hw
      · intro he
        have he' : (a.pick st.g.al (st.g.nodes.map (·.idx))).1 = r.2.2 := he
        exact hni' (he' ▸ (hI.everRel r hr).2)
  · simp only [SG.addNode, Bool.or_eq_false_iff]
    rintro ⟨hre, _⟩; exact hI.noHit hre


theorem mem_register (h : Heap) (o o' : Obj) : o' ∈ (h.register o).epoch ↔ o' ∈ h.epoch ∨ o' = o := by
  unfold Heap.register
  dsimp only
  split
  · rename_i hc
    have : o ∈ h.epoch := by simpa using hc
    constructor
    · exact Or.inl
    · rintro (h1 | rfl) <;> assumption
  · simp

@[simp] theorem register_live (h : Heap) (o : Obj) : (h.register o).live = h.live := rfl
@[simp] theorem register_used (h : Heap) (o : Obj) : (h.register o).used = h.used := rfl
@[simp] theorem register_fields (h : Heap) (o : Obj) : (h.register o).fields = h.fields := rfl

theorem lookup_some {g : SG σ} {pid : Nat} {w : W} (h : lookup g pid = some w) : (pid, w) ∈ g.instIdx := by
  unfold lookup at h
  cases hf : g.instIdx.find? (fun kw => kw.1 == pid) with
  | none => simp [hf] at h
  | some kw =>
    simp [hf] at h
    have h1 := List.mem_of_find?_eq_some hf
    have h2 := List.find?_some hf
    simp at h2
    rw [← h, ← h2]; exact h1

theorem lookup_none {g : SG σ} {pid : Nat} (h : lookup g pid = none) : ∀ kw ∈ g.instIdx, kw.1 ≠ pid := by
  unfold lookup at h
  simp at h
  intro kw hkw; exact h kw.1 kw.2 hkw

/-- `ensure_wrapped_instance` of a live instance: the wrapper it returns is the wrapper of that instance -/
theorem Inv.ensure {q : Quirks} {a : Alloc σ} (ha : a.Valid) {st : St σ} (hI : Inv q st) (x : HObj)
    (hx : x ∈ st.h.live) :
    Inv q { st with g := (SG.ensure a st.g x).1, h := st.h.register x.obj } ∧
    (SG.ensure a st.g x).2 ∈ (SG.ensure a st.g x).1.nodes ∧
    (SG.ensure a st.g x).2.obj = x.obj ∧ (SG.ensure a st.g x).2.cls = x.cls ∧
    (∀ w ∈ st.g.nodes, w ∈ (SG.ensure a st.g x).1.nodes) ∧
    (SG.ensure a st.g x).1.edges = st.g.edges ∧ (SG.ensure a st.g x).1.relIdx = st.g.relIdx := by
  unfold SG.ensure
  cases hl : lookup st.g x.pid with
  | some w =>
    have hent := lookup_some hl
    have ho : w.obj = x.obj := hI.instOwner _ hent x hx rfl
    have hn := (hI.instNode _ hent (Or.inr ⟨x, hx, ho.symm⟩)).1
    have hc := (hI.nodeLive w hn x hx ho.symm).1
    have he : x.obj ∈ st.h.epoch := (hI.epochNodes x hx).2 ⟨w, hn, ho⟩
    have hreg : st.h.register x.obj = st.h := by
      unfold Heap.register; simp [he]
    rw [hreg]
    exact ⟨hI, hn, ho, hc.symm, fun _ h => h, rfl, rfl⟩
  | none =>
    have hnk := lookup_none hl
    have hnone : ∀ w ∈ st.g.nodes, w.obj ≠ x.obj := by
      intro w hw ho
      have := hI.instLive w hw x hx ho.symm
      exact hnk _ this (hI.nodeLive w hw x hx ho.symm).2.symm
    refine ⟨?_, ?_, ?_, ?_, ?_, ?_, ?_⟩
    · apply hI.addNode ha x (st.h.register x.obj)
      · intro y hy; left; simpa using hy
      · intro y hy ho; exact hI.liveObjInj y hy x hx ho
      · intro y hy hp; exact hI.livePidInj y hy x hx hp
      · intro o; simp only [register_used]
        constructor
        · exact Or.inl
        · rintro (h | rfl)
          · exact h
          · exact hI.liveUsed x hx
      · intro o; exact mem_register _ _ _
      · exact hnone
      · intro _ _ _; exact hx
    · simp [SG.addNode]
    · rfl
    · rfl
    · intro w hw; simp [SG.addNode, hw]
    · rfl
    · rfl


/-- the body of `add_relation`: a new edge between two wrappers of the graph -/
theorem Inv.addEdge {q : Quirks} {st : St σ} (hI : Inv q st) (f : Fld) (ws wt : W) (inf : Bool)
    (hs : ws ∈ st.g.nodes) (ht : wt ∈ st.g.nodes) : Inv q { st with g := SG.addEdge st.g f ws wt inf } := by
  obtain ⟨a1, a2, a3, a4, a5, a6, a7, a8, a9, a10, a11, a12, a13, a14, a15, a16, a17, a18, a19, a20, a21,
    a22, a23, a24, a25⟩ := hI
  constructor <;> try assumption
  · simp only [SG.addEdge, List.mem_append, List.mem_singleton]
    rintro e (he | rfl)
    · exact a16 e he
    · exact ⟨hs, ht⟩
  · simp only [SG.addEdge, List.mem_append, List.mem_singleton]
    rintro e (he | rfl)
    · exact Or.inl (a17 e he)
    · exact Or.inr rfl
  · intro hq
    simp only [SG.addEdge, List.mem_append, List.mem_singleton]
    rintro r (hr | rfl)
    · obtain ⟨e, he, rfl⟩ := a18 hq r hr
      exact ⟨e, Or.inl he, rfl⟩
    · exact ⟨_, Or.inr rfl, rfl⟩
  · simp only [SG.addEdge, List.mem_append, List.mem_singleton]
    rintro r (hr | rfl)
    · exact a23 r hr
    · exact ⟨a22 ws hs, a22 wt ht⟩
  · intro hre
    simp only [SG.addEdge, List.mem_append, List.mem_singleton]
    rintro r (hr | rfl)
    · rcases a24 hre r hr with ⟨e, he, rfl⟩ | h | h
      · exact Or.inl ⟨e, Or.inl he, rfl⟩
      · exact Or.inr (Or.inl h)
      · exact Or.inr (Or.inr h)
    · exact Or.inl ⟨_, Or.inr rfl, rfl⟩

/-- the ghost flags may change as long as `err` implies a recorded dead end under the quirk, and a stale hit is only
recorded once a node index has been handed out twice -/
theorem Inv.flags {q : Quirks} {st : St σ} (hI : Inv q st) (e s d : Bool)
    (he : e = true → d = true ∧ q.deadEndpointRaises = true) (hs : st.g.reused = false → s = false) :
    Inv q { st with err := e, staleHit := s, deadHit := d } := by
  obtain ⟨a1, a2, a3, a4, a5, a6, a7, a8, a9, a10, a11, a12, a13, a14, a15, a16, a17, a18, a19, a20, a21,
    a22, a23, a24, a25⟩ := hI
  constructor <;> try assumption

/-- without index re-use, `relation_exists` on two nodes of the graph is exact -/
theorem Inv.exists_exact {q : Quirks} {st : St σ} (hI : Inv q st) (hre : st.g.reused = false) (f : Fld) (ws wt : W)
    (hs : ws ∈ st.g.nodes) (ht : wt ∈ st.g.nodes) (h : relationExists st.g f ws wt = true) :
    edgeExists st.g f ws wt = true := by
  simp only [relationExists, List.contains_iff_mem] at h
  rcases hI.staleOut hre _ h with ⟨e, he, heq⟩ | hn | hn
  · simp only [Prod.mk.injEq] at heq
    have hn := hI.edgeNodes e he
    have h1 := hI.idxInj ws hs e.src hn.1 heq.2.1
    have h2 := hI.idxInj wt ht e.tgt hn.2 heq.2.2
    simp only [edgeExists, List.any_eq_true, Bool.and_eq_true, beq_iff_eq]
    exact ⟨e, he, ⟨heq.1.symm, h1.symm⟩, h2.symm⟩
  · exact absurd rfl (hn ws hs)
  · exact absurd rfl (hn wt ht)

/-- what `add_to_graph` leaves untouched: no node goes away (the role taker of a source or target may be wrapped on the
way), and everything in the heap but the field contents and the ghost list of registered labels stays -/
structure Frame (st st' : St σ) : Prop where
  nodes : ∀ w ∈ st.g.nodes, w ∈ st'.g.nodes
  heap : st'.h = { st.h with fields := st'.h.fields, epoch := st'.h.epoch }
  /-- the ghost list of registered labels only grows -/
  epoch : ∀ o ∈ st.h.epoch, o ∈ st'.h.epoch

theorem Frame.live {st st' : St σ} (h : Frame st st') : st'.h.live = st.h.live := by rw [h.heap]
theorem Frame.used {st st' : St σ} (h : Frame st st') : st'.h.used = st.h.used := by rw [h.heap]

theorem Frame.refl (st : St σ) : Frame st st := ⟨fun _ h => h, rfl, fun _ h => h⟩
theorem Frame.trans {s1 s2 s3 : St σ} (h1 : Frame s1 s2) (h2 : Frame s2 s3) : Frame s1 s3 :=
  ⟨fun w hw => h2.nodes w (h1.nodes w hw), by rw [h2.heap, h1.heap], fun o ho => h2.epoch o (h1.epoch o ho)⟩

theorem foldl_pres {α : Type} (P : St σ → Prop) (f : St σ → α → St σ) (Q : α → Prop)
    (hstep : ∀ st x, P st → Q x → P (f st x)) :
    ∀ (l : List α) (st : St σ), P st → (∀ x ∈ l, Q x) → P (l.foldl f st)
  | [], st, h, _ => h
  | x :: l, st, h, hq => by
    simp only [List.foldl_cons]
    exact foldl_pres P f Q hstep l _ (hstep st x h (hq x List.mem_cons_self))
      (fun y hy => hq y (List.mem_cons_of_mem _ hy))

@[simp] theorem updateValue_live (S : Schema) (h : Heap) (f : Fld) (s t : Obj) :
    (h.updateValue S f s t).live = h.live := rfl
@[simp] theorem updateValue_used (S : Schema) (h : Heap) (f : Fld) (s t : Obj) :
    (h.updateValue S f s t).used = h.used := rfl
@[simp] theorem updateValue_epoch (S : Schema) (h : Heap) (f : Fld) (s t : Obj) :
    (h.updateValue S f s t).epoch = h.epoch := rfl
@[simp] theorem write_live (S : Schema) (h : Heap) (f : Fld) (s t : Obj) : (h.write S f s t).live = h.live := by
  unfold Heap.write; split <;> (try split) <;> rfl
@[simp] theorem write_used (S : Schema) (h : Heap) (f : Fld) (s t : Obj) : (h.write S f s t).used = h.used := by
  unfold Heap.write; split <;> (try split) <;> rfl
@[simp] theorem write_epoch (S : Schema) (h : Heap) (f : Fld) (s t : Obj) : (h.write S f s t).epoch = h.epoch := by
  unfold Heap.write; split <;> (try split) <;> rfl

/-- "keeps the registry consistent, removes no node and does not touch the set of live instances" -/
def Keeps (q : Quirks) (st0 : St σ) (s : St σ) : Prop := Inv q s ∧ Frame st0 s

theorem Keeps.refl {q : Quirks} {s : St σ} (hI : Inv q s) : Keeps q s s := ⟨hI, Frame.refl s⟩
theorem Keeps.trans {q : Quirks} {s1 s2 s3 : St σ} (h1 : Keeps q s1 s2) (h2 : Keeps q s2 s3) : Keeps q s1 s3 :=
  ⟨h2.1, h1.2.trans h2.2⟩

/-- what the inference steps need of `add_to_graph` of an inferred relation -/
def RecOK (q : Quirks) (rec : St σ → Fld → W → W → St σ) : Prop :=
  ∀ s f ws wt, Inv q s → ws ∈ s.g.nodes → wt ∈ s.g.nodes → Keeps q s (rec s f ws wt)

/-- folding `rec` over a list of items whose wrappers are nodes of the state the fold starts from -/
theorem keeps_foldl {α : Type} {q : Quirks} (fm : St σ → α → St σ) (s : St σ) (Q : α → Prop)
    (hstep : ∀ s' x, Keeps q s s' → Q x → Keeps q s' (fm s' x)) (l : List α) (hI : Inv q s) (hQ : ∀ x ∈ l, Q x) :
    Keeps q s (l.foldl fm s) :=
  foldl_pres (Keeps q s) fm Q (fun s' x h hx => h.trans (hstep s' x h hx)) l s (Keeps.refl hI) hQ

theorem takerOf_live {S : Schema} {h : Heap} {o : Obj} {c : Cls} {x : HObj} (hx : h.takerOf S o c = some x) :
    x ∈ h.live := by
  unfold Heap.takerOf at hx
  split at hx
  · cases hx
  · split at hx
    · cases hx
    · exact (find_some hx).1

/-- `ensure_wrapped_instance` in the middle of an inference -/
theorem keeps_ensureSt {q : Quirks} {a : Alloc σ} (ha : a.Valid) {s : St σ} (hI : Inv q s) (x : HObj)
    (hx : x ∈ s.h.live) :
    Keeps q s (ensureSt a s x).1 ∧ (ensureSt a s x).2 ∈ (ensureSt a s x).1.g.nodes ∧
    (ensureSt a s x).2.toR = ⟨x.obj, x.cls⟩ := by
  have e := hI.ensure ha x hx
  unfold ensureSt
  refine ⟨⟨e.1, ⟨e.2.2.2.2.1, ?_, ?_⟩⟩, e.2.1, ?_⟩
  · rfl
  · intro o ho; exact (mem_register _ _ _).2 (Or.inl ho)
  · simp only [W.toR, e.2.2.1, e.2.2.2.1]

theorem keeps_inferTakerSupers {q : Quirks} {S : Schema} {a : Alloc σ} (ha : a.Valid) {rec} (hrec : RecOK q rec)
    (s : St σ) (f : Fld) (ws wt : W) (hI : Inv q s) (ht : wt ∈ s.g.nodes) :
    Keeps q s (inferTakerSupers S a rec s f ws wt) := by
  unfold inferTakerSupers
  split
  · exact Keeps.refl hI
  split
  · exact Keeps.refl hI
  · rename_i x hx
    have e := keeps_ensureSt ha hI x (takerOf_live hx)
    refine e.1.trans ?_
    exact keeps_foldl _ _ (fun _ => True)
      (fun s' f' h _ => hrec s' f' _ wt h.1 (h.2.nodes _ e.2.1) (h.2.nodes _ (e.1.2.nodes _ ht))) _ e.1.1
      (fun _ _ => trivial)

theorem keeps_inferSupers {q : Quirks} {S : Schema} {a : Alloc σ} (ha : a.Valid) {rec} (hrec : RecOK q rec)
    (s : St σ) (f : Fld) (ws wt : W) (hI : Inv q s) (hs : ws ∈ s.g.nodes) (ht : wt ∈ s.g.nodes) :
    Keeps q s (inferSupers S a rec s f ws wt) := by
  unfold inferSupers
  have k1 : Keeps q s ((S.supers f ws.cls).foldl (fun st f' => rec st f' ws wt) s) :=
    keeps_foldl _ _ (fun _ => True) (fun s' f' h _ => hrec s' f' ws wt h.1 (h.2.nodes _ hs) (h.2.nodes _ ht)) _ hI
      (fun _ _ => trivial)
  exact k1.trans (keeps_inferTakerSupers ha hrec _ f ws wt k1.1 (k1.2.nodes _ ht))

theorem keeps_inferInverse {q : Quirks} {S : Schema} {a : Alloc σ} (ha : a.Valid) {rec} (hrec : RecOK q rec)
    (s : St σ) (f : Fld) (ws wt : W) (hI : Inv q s) (hs : ws ∈ s.g.nodes) (ht : wt ∈ s.g.nodes) :
    Keeps q s (inferInverse S a rec s f ws wt) := by
  unfold inferInverse
  split
  · exact hrec _ _ _ _ hI ht hs
  split
  · exact Keeps.refl hI
  split
  · exact Keeps.refl hI
  split
  · exact Keeps.refl hI
  · rename_i x hx
    have e := keeps_ensureSt ha hI x (takerOf_live hx)
    exact e.1.trans (hrec _ _ _ _ e.1.1 e.2.1 (e.1.2.nodes _ hs))

theorem keeps_deadEnd {q : Quirks} (s : St σ) (f : Fld) (ws wt : W) (hI : Inv q s) :
    Keeps q s (deadEnd q s f ws wt) := by
  unfold deadEnd
  split
  · rename_i hq
    exact ⟨hI.flags _ _ _ (fun _ => ⟨rfl, hq⟩) hI.noHit, ⟨fun _ h => h, rfl, fun _ h => h⟩⟩
  · exact ⟨hI.flags _ _ _ (fun h => ⟨rfl, (hI.errFlag h).2⟩) hI.noHit, ⟨fun _ h => h, rfl, fun _ h => h⟩⟩

theorem keeps_inferOut {q : Quirks} {S : Schema} {rec} (hrec : RecOK q rec) (s : St σ)
    (f : Fld) (ws wt : W) (hI : Inv q s) (hs : ws ∈ s.g.nodes) :
    Keeps q s (inferOut q S rec s f ws wt) := by
  unfold inferOut
  refine keeps_foldl _ _ (fun e => e.tgt ∈ s.g.nodes) ?_ _ hI ?_
  · intro s' e h he
    split
    · exact hrec _ _ _ _ h.1 (h.2.nodes _ hs) (h.2.nodes _ he)
    · exact keeps_deadEnd _ _ _ _ h.1
  · intro e he
    exact (hI.edgeNodes e (List.mem_filter.1 (List.mem_reverse.1 he)).1).2

theorem keeps_inferIn {q : Quirks} {S : Schema} {rec} (hrec : RecOK q rec) (s : St σ)
    (f : Fld) (ws wt : W) (hI : Inv q s) (ht : wt ∈ s.g.nodes) :
    Keeps q s (inferIn q S rec s f ws wt) := by
  unfold inferIn
  refine keeps_foldl _ _ (fun e => e.src ∈ s.g.nodes) ?_ _ hI ?_
  · intro s' e h he
    split
    · exact hrec _ _ _ _ h.1 (h.2.nodes _ he) (h.2.nodes _ ht)
    · exact keeps_deadEnd _ _ _ _ h.1
  · intro e he
    exact (hI.edgeNodes e (List.mem_filter.1 (List.mem_reverse.1 he)).1).1

theorem keeps_inferTransitive {q : Quirks} {S : Schema} {rec} (hrec : RecOK q rec) (s : St σ)
    (f : Fld) (ws wt : W) (hI : Inv q s) (hs : ws ∈ s.g.nodes) (ht : wt ∈ s.g.nodes) :
    Keeps q s (inferTransitive q S rec s f ws wt) := by
  unfold inferTransitive
  split
  · have k1 := keeps_inferOut (S := S) hrec s f ws wt hI hs
    exact k1.trans (keeps_inferIn hrec _ _ _ _ k1.1 (k1.2.nodes _ ht))
  · exact Keeps.refl hI

theorem keeps_record {q : Quirks} {S : Schema} {st : St σ} (hI : Inv q st) (f : Fld) (ws wt : W) (inf : Bool)
    (hs : ws ∈ st.g.nodes) (ht : wt ∈ st.g.nodes) : Keeps q st (record S st f ws wt inf) := by
  unfold record
  have h1 := hI.addEdge f ws wt inf hs ht
  split
  · exact ⟨h1.heap_irrelevant _ (by simp) (by simp) (by simp), ⟨fun _ h => h, rfl, fun _ h => h⟩⟩
  · exact ⟨h1, ⟨fun _ h => h, rfl, fun _ h => h⟩⟩

theorem keeps_known {q : Quirks} {st : St σ} (hI : Inv q st) (f : Fld) (ws wt : W) (hs : ws ∈ st.g.nodes)
    (ht : wt ∈ st.g.nodes) (hre : relationExists st.g f ws wt = true) : Keeps q st (known st f ws wt) := by
  refine ⟨hI.flags _ _ _ hI.errFlag ?_, ⟨fun _ h => h, rfl, fun _ h => h⟩⟩
  intro hr
  rw [hI.noHit hr, hI.exists_exact hr f ws wt hs ht hre]
  rfl

/-- `PropertyDescriptorRelation.add_to_graph` keeps the registry consistent, removes no node (it may wrap role takers)
and does not touch the set of live instances -/
theorem Inv.addFact {q : Quirks} (S : Schema) {a : Alloc σ} (ha : a.Valid) :
    ∀ (fuel : Nat) (st : St σ) (f : Fld) (ws wt : W) (inf : Bool),
    Inv q st → ws ∈ st.g.nodes → wt ∈ st.g.nodes → Keeps q st (SG.addFact q S a fuel st f ws wt inf)
  | 0, st, f, ws, wt, inf, hI, _, _ => ⟨hI, Frame.refl _⟩
  | fuel + 1, st, f, ws, wt, inf, hI, hs, ht => by
    unfold SG.addFact
    split
    · exact ⟨hI, Frame.refl _⟩
    split
    · rename_i hre
      exact keeps_known hI f ws wt hs ht hre
    have hrec : RecOK q (fun st f ws wt => SG.addFact q S a fuel st f ws wt true) :=
      fun s f' x y hI' hx hy => Inv.addFact S ha fuel s f' x y true hI' hx hy
    have k0 := keeps_record (S := S) hI f ws wt inf hs ht
    have k1 := k0.trans (keeps_inferSupers (S := S) ha hrec _ f ws wt k0.1 (k0.2.nodes _ hs) (k0.2.nodes _ ht))
    have k2 := k1.trans (keeps_inferInverse (S := S) ha hrec _ f ws wt k1.1 (k1.2.nodes _ hs) (k1.2.nodes _ ht))
    exact k2.trans (keeps_inferTransitive (S := S) hrec _ f ws wt k2.1 (k2.2.nodes _ hs) (k2.2.nodes _ ht))


/-- both ends of a relation are wrapped (`PredicateClassRelation.__post_init__`) -/
theorem Inv.ensure2 {q : Quirks} {a : Alloc σ} (ha : a.Valid) {st : St σ} (hI : Inv q st) (xs xt : HObj)
    (hs : xs ∈ st.h.live) (ht : xt ∈ st.h.live) :
    Inv q (SG.ensure2 a st xs xt).1 ∧
    (SG.ensure2 a st xs xt).2.1 ∈ (SG.ensure2 a st xs xt).1.g.nodes ∧
    (SG.ensure2 a st xs xt).2.2 ∈ (SG.ensure2 a st xs xt).1.g.nodes ∧
    (SG.ensure2 a st xs xt).2.1.toR = ⟨xs.obj, xs.cls⟩ ∧ (SG.ensure2 a st xs xt).2.2.toR = ⟨xt.obj, xt.cls⟩ ∧
    (SG.ensure2 a st xs xt).1.h.live = st.h.live := by
  have e1 := hI.ensure ha xs hs
  have e2 := e1.1.ensure ha xt (by simpa using ht)
  unfold SG.ensure2
  refine ⟨e2.1, e2.2.2.2.2.1 _ e1.2.1, e2.2.1, ?_, ?_, by simp⟩
  · simp only [W.toR, e1.2.2.1, e1.2.2.2.1]
  · simp only [W.toR, e2.2.2.1, e2.2.2.2.1]

theorem Inv.clear {q : Quirks} {a : Alloc σ} {st : St σ} (hI : Inv q st) :
    Inv q { st with g := { SG.empty a with reused := st.g.reused }, h := { st.h with epoch := [] } } := by
  constructor <;> simp [SG.empty]
  · exact hI.liveUsed
  · exact hI.liveObjInj
  · exact hI.livePidInj
  · intro h; simpa using hI.errFlag h
  · exact hI.noHit

/-- **C13_inv_step.** every operation of a history keeps the registry consistent — for every valid node-index
allocator, every `id()` the new instance may get, every quirk setting -/
theorem C13_inv_step (q : Quirks) (S : Schema) (a : Alloc σ) (ha : a.Valid) (st : St σ) (op : Op)
    (hI : Inv q st) : Inv q (step q S a st op) := by
  unfold step
  split
  · exact hI
  cases op with
  | new o c pid =>
    dsimp only
    split
    · exact hI
    · rename_i hc
      simp only [Bool.or_eq_true, List.contains_iff_mem, List.any_eq_true, beq_iff_eq, not_or, not_exists,
        not_and] at hc
      have := hI.addNode ha ⟨o, c, pid⟩
        { st.h with live := st.h.live ++ [⟨o, c, pid⟩], used := st.h.used ++ [o], held := st.h.held ++ [o],
                    epoch := st.h.epoch ++ [o] }
        (by intro y hy; simpa using hy)
        (by intro y hy ho; have ho' : y.obj = o := ho; exact absurd (ho' ▸ hI.liveUsed y hy) hc.1)
        (by intro y hy hp; exact absurd hp (hc.2 y hy))
        (by intro o'; simp)
        (by intro o'; simp)
        (by intro w hw ho; have ho' : w.obj = o := ho; exact hc.1 (ho' ▸ hI.nodeUsed w hw))
        (by intro kw hkw ho; have ho' : kw.2.obj = o := ho; exact absurd (ho' ▸ hI.instUsed kw hkw) hc.1)
      exact this
  | drop o =>
    exact (hI.heap_irrelevant { st.h with held := st.h.held.filter (fun x => x != o) } rfl rfl rfl).collect
  | sweep => exact hI.sweep
  | clear => exact hI.clear
  | rel f s t =>
    dsimp only
    split
    · rename_i xs xt hs ht
      have e := hI.ensure2 ha xs xt (find_some hs).1 (find_some ht).1
      split
      · rename_i hre
        exact (keeps_known e.1 _ _ _ e.2.1 e.2.2.1 hre).1
      · exact e.1.addEdge _ _ _ _ e.2.1 e.2.2.1
    · exact hI
  | set f s t =>
    dsimp only
    split
    · rename_i xs xt hs ht
      split
      · have h0 : Inv q { st with h := st.h.write S f s t } := hI.heap_irrelevant _ (by simp) (by simp) (by simp)
        have e := h0.ensure2 ha xs xt (by simpa using (find_some hs).1) (by simpa using (find_some ht).1)
        exact ((e.1.addFact S ha S.fuel _ f _ _ false e.2.1 e.2.2.1).1).collect
      · have e := hI.ensure2 ha xs xt (find_some hs).1 (find_some ht).1
        have k := e.1.addFact S ha S.fuel _ f _ _ false e.2.1 e.2.2.1
        split
        · exact k.1
        · exact Inv.collect' (k.1.heap_irrelevant _ (by simp) (by simp) (by simp))
    · exact hI
  | mkq k c dom =>
    dsimp only
    split
    · exact hI
    · exact hI.heap_irrelevant _ rfl rfl rfl
  | evalq k =>
    dsimp only
    split
    · exact hI
    · rename_i v _
      have h1 : Inv q { st with g := SG.sweep q a st.g st.h.isLive } := hI.sweep
      have h2 := h1.heap_irrelevant
        (st.h.recordEval S k v (evalQuery q S (SG.sweep q a st.g st.h.isLive) v)) rfl rfl rfl
      exact h2.collect
  | dropq k =>
    dsimp only
    split
    · exact hI
    · split
      · exact hI
      · exact Inv.collect' (hI.heap_irrelevant _ (by unfold Heap.dropQuery; split <;> rfl)
          (by unfold Heap.dropQuery; split <;> rfl) (by unfold Heap.dropQuery; split <;> rfl))
  | newrole o c pid e =>
    dsimp only
    split
    · exact hI
    · rename_i hc
      simp only [Bool.or_eq_true, List.contains_iff_mem, List.any_eq_true, beq_iff_eq, not_or, not_exists,
        not_and] at hc
      have := hI.addNode ha ⟨o, c, pid⟩
        { st.h with live := st.h.live ++ [⟨o, c, pid⟩], used := st.h.used ++ [o], held := st.h.held ++ [o],
                    epoch := st.h.epoch ++ [o],
                    fields := match S.takerFld c with
                              | some tf => st.h.fields ++ [⟨o, tf, e⟩]
                              | none => st.h.fields }
        (by intro y hy; simpa using hy)
        (by intro y hy ho; have ho' : y.obj = o := ho; exact absurd (ho' ▸ hI.liveUsed y hy) hc.1.1)
        (by intro y hy hp; exact absurd hp (hc.1.2 y hy))
        (by intro o'; simp)
        (by intro o'; simp)
        (by intro w hw ho; have ho' : w.obj = o := ho; exact hc.1.1 (ho' ▸ hI.nodeUsed w hw))
        (by intro kw hkw ho; have ho' : kw.2.obj = o := ho; exact absurd (ho' ▸ hI.instUsed kw hkw) hc.1.1)
      exact this

/-- **C13_inv_run.** the registry is consistent after every history -/
theorem C13_inv_run (q : Quirks) (S : Schema) (a : Alloc σ) (ha : a.Valid) (ops : List Op) :
    Inv q (run q S a ops) := by
  unfold run
  have : ∀ (l : List Op) (st : St σ), Inv q st → Inv q (l.foldl (step q S a) st) := by
    intro l
    induction l with
    | nil => intro st h; exact h
    | cons op l ih => intro st h; exact ih _ (C13_inv_step q S a ha st op h)
  exact this ops _ (C13_inv_init q a)


/-! ### the census -/

theorem nodup_eraseDups (l : List Nat) : l.eraseDups.Nodup := by
  have : ∀ n (l : List Nat), l.length ≤ n → l.eraseDups.Nodup := by
    intro n
    induction n with
    | zero => intro l hl; cases l <;> simp_all
    | succ n ih =>
      intro l hl
      cases l with
      | nil => simp
      | cons a as =>
        rw [List.eraseDups_cons, List.nodup_cons]
        refine ⟨?_, ih _ ?_⟩
        · rw [List.mem_eraseDups]; simp
        · have := List.length_filter_le (fun b => !b == a) as
          simp at hl; omega
  exact this _ l (Nat.le_refl _)

theorem foldl_removeNode_nodes (q : Quirks) (a : Alloc σ) : ∀ (l : List W) (g : SG σ), g.nodes.Nodup →
    ∀ w, w ∈ (l.foldl (SG.removeNode q a) g).nodes ↔ w ∈ g.nodes ∧ w ∉ l
  | [], g, _, w => by simp
  | x :: l, g, hn, w => by
    simp only [List.foldl_cons]
    rw [foldl_removeNode_nodes q a l (SG.removeNode q a g x) (hn.erase x) w]
    simp only [SG.removeNode, hn.mem_erase_iff, List.mem_cons, not_or]
    tauto

/-- after `remove_dead_instances` the graph holds exactly the wrappers of live instances it held before -/
theorem mem_sweep_nodes {q : Quirks} {a : Alloc σ} {st : St σ} (hI : Inv q st) (w : W) :
    w ∈ (SG.sweep q a st.g st.h.isLive).nodes ↔ w ∈ st.g.nodes ∧ st.h.isLive w.obj = true := by
  unfold SG.sweep
  rw [foldl_removeNode_nodes q a _ _ hI.nodesNodup, mem_sortByIdx, List.mem_filter]
  constructor
  · rintro ⟨h1, h2⟩
    refine ⟨h1, ?_⟩
    cases h : st.h.isLive w.obj with
    | true => rfl
    | false => exact absurd ⟨h1, by simp [h]⟩ h2
  · rintro ⟨h1, h2⟩
    exact ⟨h1, fun h => by simp [h2] at h⟩

theorem mem_expected (S : Schema) (h : Heap) (T : Cls) (o : Obj) :
    o ∈ h.expected S T ↔ ∃ x ∈ h.live, x.obj = o ∧ x.cls ∈ S.below T ∧ o ∈ h.epoch := by
  unfold Heap.expected
  simp only [List.mem_map, List.mem_filter, Bool.and_eq_true, List.contains_iff_mem]
  constructor
  · rintro ⟨x, ⟨hx, hc, he⟩, rfl⟩; exact ⟨x, hx, rfl, hc, he⟩
  · rintro ⟨x, hx, rfl, hc, he⟩; exact ⟨x, ⟨hx, hc, he⟩, rfl⟩

theorem mem_classes (q : Quirks) (S : Schema) (T c : Cls) :
    c ∈ (if q.dupSubclasses then S.below T else (S.below T).eraseDups) ↔ c ∈ S.below T := by
  split
  · rfl
  · exact List.mem_eraseDups

theorem census_mem {q : Quirks} {S : Schema} {a : Alloc σ} {st : St σ} (hI : Inv q st) (T : Cls) (o : Obj) :
    o ∈ instancesOf q S (SG.sweep q a st.g st.h.isLive) T ↔ o ∈ st.h.expected S T := by
  have hI' : Inv q { st with g := SG.sweep q a st.g st.h.isLive } := hI.sweep
  rw [mem_expected]
  unfold instancesOf
  simp only [List.mem_flatMap, List.mem_map, List.mem_filter, mem_classes, beq_iff_eq]
  have hbc : (SG.sweep q a st.g st.h.isLive).byClass = (SG.sweep q a st.g st.h.isLive).nodes := hI'.byClassEq
  rw [hbc]
  constructor
  · rintro ⟨c, hc, w, ⟨hw, rfl⟩, rfl⟩
    rw [mem_sweep_nodes hI] at hw
    obtain ⟨x, hx, hxo⟩ := (isLive_iff _ _).1 hw.2
    have hn := hI.nodeLive w hw.1 x hx hxo
    exact ⟨x, hx, hxo, hn.1 ▸ hc, (hxo ▸ (hI.epochNodes x hx).2 ⟨w, hw.1, hxo.symm⟩)⟩
  · rintro ⟨x, hx, rfl, hc, he⟩
    obtain ⟨w, hw, hwo⟩ := (hI.epochNodes x hx).1 he
    have hn := hI.nodeLive w hw x hx hwo.symm
    refine ⟨w.cls, hn.1 ▸ hc, w, ⟨?_, rfl⟩, hwo⟩
    rw [mem_sweep_nodes hI]
    exact ⟨hw, (isLive_iff _ _).2 ⟨x, hx, hwo.symm⟩⟩

theorem census_nodup {q : Quirks} {S : Schema} {a : Alloc σ} {st : St σ} (hI : Inv q st) (T : Cls)
    (hT : q.dupSubclasses = false ∨ (S.below T).Nodup) :
    (instancesOf q S (SG.sweep q a st.g st.h.isLive) T).Nodup := by
  have hI' : Inv q { st with g := SG.sweep q a st.g st.h.isLive } := hI.sweep
  unfold instancesOf
  have hbc : (SG.sweep q a st.g st.h.isLive).byClass = (SG.sweep q a st.g st.h.isLive).nodes := hI'.byClassEq
  rw [hbc, List.nodup_flatMap]
  have hinj : ∀ w1 ∈ (SG.sweep q a st.g st.h.isLive).nodes, ∀ w2 ∈ (SG.sweep q a st.g st.h.isLive).nodes,
      w1.obj = w2.obj → w1 = w2 := hI'.objInj
  constructor
  · intro c _
    refine List.Nodup.map_on ?_ (hI'.nodesNodup.filter _)
    intro w1 h1 w2 h2 he
    exact hinj w1 (List.mem_filter.1 h1).1 w2 (List.mem_filter.1 h2).1 he
  · have hnd : (if q.dupSubclasses then S.below T else (S.below T).eraseDups).Nodup := by
      split
      · rename_i hq
        rcases hT with h | h
        · simp [hq] at h
        · exact h
      · exact nodup_eraseDups _
    refine hnd.pairwise_of_forall_ne ?_
    intro c1 _ c2 _ hne o h1 h2
    simp only [List.mem_map, List.mem_filter, beq_iff_eq] at h1 h2
    obtain ⟨w1, ⟨hw1, rfl⟩, rfl⟩ := h1
    obtain ⟨w2, ⟨hw2, rfl⟩, he⟩ := h2
    exact hne (by rw [hinj w2 hw2 w1 hw1 he])

/-- **C13_census.** After the sweep that precedes every evaluation, `get_instances_of_type(T)` yields exactly the
live instances of `T` and of its subclasses that the registry has been handed since it was last cleared — whatever
was created, related, dropped, collected or swept before, in whatever order, under every node-index allocator,
every `id()` recycling and every quirk setting. -/
theorem C13_census (q : Quirks) (S : Schema) (a : Alloc σ) (ha : a.Valid) (ops : List Op) (T : Cls) (o : Obj) :
    let st := run q S a ops
    o ∈ instancesOf q S (sweep q a st.g st.h.isLive) T ↔ o ∈ st.h.expected S T :=
  census_mem (C13_inv_run q S a ha ops) T o

/-- **C13_census_once.** … each exactly once, provided no class is listed twice below `T` (a tree-shaped hierarchy,
or the repaired `recursive_subclasses`). -/
theorem C13_census_once (q : Quirks) (S : Schema) (a : Alloc σ) (ha : a.Valid) (ops : List Op) (T : Cls)
    (hT : q.dupSubclasses = false ∨ (S.below T).Nodup) :
    let st := run q S a ops
    (instancesOf q S (sweep q a st.g st.h.isLive) T).Nodup :=
  census_nodup (C13_inv_run q S a ha ops) T hT

theorem run_append (q : Quirks) (S : Schema) (a : Alloc σ) (ops ops' : List Op) :
    run q S a (ops ++ ops') = ops'.foldl (step q S a) (run q S a ops) := by
  unfold run; rw [List.foldl_append]

/-- **C13_query_fresh.** The operation the property is about: a query object built with `let(T, None)` and evaluated
for the first time (after any history that did not raise) yields exactly the live instances of `T` and subclasses
known to the registry (`expected` is computed from the heap alone), each once when no class is listed twice. This
holds for the code as it is (every quirk setting). -/
theorem C13_query_fresh (q : Quirks) (S : Schema) (a : Alloc σ) (ha : a.Valid) (ops : List Op) (k : Nat) (T : Cls)
    (herr : (run q S a ops).err = false) (hk : ∀ v ∈ (run q S a ops).h.qvars, v.key ≠ k) :
    ∃ r, (run q S a (ops ++ [.mkq k T none, .evalq k])).h.out = (run q S a ops).h.out ++ [r] ∧ r.key = k ∧
      (∀ o, o ∈ r.res ↔ o ∈ r.expected) ∧ r.expected = (run q S a ops).h.expected S T ∧
      ((q.dupSubclasses = false ∨ (S.below T).Nodup) → r.res.Nodup) := by
  have hI := C13_inv_run q S a ha ops
  rw [run_append]
  generalize run q S a ops = st at *
  have hany : st.h.qvars.any (fun v => v.key == k) = false := by
    rw [List.any_eq_false]; intro v hv; simpa using hk v hv
  have hfind : (st.h.qvars ++ [(⟨k, T, false, none, true⟩ : QVar)]).find? (fun v => v.key == k)
      = some ⟨k, T, false, none, true⟩ := by
    rw [List.find?_append]
    have : st.h.qvars.find? (fun v => v.key == k) = none := by
      rw [List.find?_eq_none]; intro v hv; simpa using hk v hv
    simp [this]
  simp only [List.foldl_cons, List.foldl_nil]
  have h1 : step q S a st (.mkq k T none) =
      { st with h := { st.h with qvars := st.h.qvars ++ [⟨k, T, false, none, true⟩], exprs := st.h.exprs + 1 } } := by
    simp [step, herr, hany]
  rw [h1]
  refine ⟨⟨k, instancesOf q S (SG.sweep q a st.g st.h.isLive) T, st.h.expected S T⟩, ?_, rfl, ?_, rfl, ?_⟩
  · simp only [step, herr, hfind, evalQuery, Heap.collect, Heap.kill, Heap.expected, Heap.recordEval]
    simp
    rfl
  · intro o; exact census_mem hI T o
  · intro hT; exact census_nodup hI T hT


/-! ### the allocators the theorems are instantiated with, witnesses, non-vacuity -/

theorem freshIdx_ge : ∀ (used : List Nat) (m : Nat), m ≤ used.foldl (fun m x => max m (x + 1)) m ∧
    ∀ x ∈ used, x < used.foldl (fun m x => max m (x + 1)) m
  | [], m => ⟨Nat.le_refl _, by simp⟩
  | y :: ys, m => by
    simp only [List.foldl_cons, List.mem_cons]
    have ih := freshIdx_ge ys (max m (y + 1))
    refine ⟨by omega, ?_⟩
    rintro x (rfl | hx)
    · omega
    · exact ih.2 x hx

theorem freshIdx_not_mem (used : List Nat) : freshIdx used ∉ used := by
  intro h
  have := (freshIdx_ge used 0).2 _ h
  unfold freshIdx at this
  omega

/-- rustworkx's LIFO free list (as modelled) is a valid allocator: the theorems apply to it -/
theorem lifo_valid : lifo.Valid := by
  intro s used
  simp only [lifo]
  split <;> split
  all_goals first
    | exact freshIdx_not_mem used
    | (rename_i h; simpa using h)

theorem monotone_valid : monotone.Valid := by
  intro s used h
  simp only [monotone] at h
  have := (freshIdx_ge used 0).2 _ h
  unfold freshIdx at *
  omega

/-- two classes, `1` a subclass of `0`; no descriptors -/
def cexSchema : Schema where
  subs := fun c => if c = 0 then [1] else []
  depth := 2
  kind := fun _ => .plain
  supers := fun _ _ => []
  inverse := fun _ _ => none
  transitive := fun _ => false
  desc := fun f => f
  fuel := 4

/-- a diamond: `3` inherits from `1` and from `2`, both subclasses of `0` -/
def diamondSchema : Schema where
  subs := fun c => match c with | 0 => [1, 2] | 1 => [3] | 2 => [3] | _ => []
  depth := 3
  kind := fun _ => .plain
  supers := fun _ _ => []
  inverse := fun _ _ => none
  transitive := fun _ => false
  desc := fun f => f
  fuel := 4

def outs (st : St σ) : List (List Obj × List Obj) := st.h.out.map (fun r => (r.res, r.expected))

/-- **C13_cex_reevaluated** (test on a concrete witness = finding F-C13-1): a query object is evaluated, a new
instance is created, the SAME query object is evaluated again: it misses the new instance, because the domain
is cached on the variable (`Quirks.cached`, the code before the repair). A fresh query object sees both; so does the
re-evaluated one in the code as it is (`Quirks.asIs`, quirk off since the repair). -/
theorem C13_cex_reevaluated :
    outs (run Quirks.cached cexSchema lifo
      [.new 0 0 0, .mkq 1 0 none, .evalq 1, .new 1 1 1, .evalq 1, .mkq 2 0 none, .evalq 2])
      = [([0], [0]), ([0], [0, 1]), ([0, 1], [0, 1])] ∧
    outs (run Quirks.asIs cexSchema lifo
      [.new 0 0 0, .mkq 1 0 none, .evalq 1, .new 1 1 1, .evalq 1])
      = [([0], [0]), ([0, 1], [0, 1])] := by
  constructor <;> decide

/-- **C13_cex_diamond** (test on a concrete witness = finding F-C13-2): an instance of a class that is reachable
from `T` along two inheritance paths is yielded twice (`recursive_subclasses` lists the class twice); once with
the repaired listing (the code as it is since the fix). -/
theorem C13_cex_diamond :
    outs (run { Quirks.asIs with dupSubclasses := true } diamondSchema lifo [.new 0 3 0, .mkq 1 0 none, .evalq 1])
      = [([0, 0], [0])] ∧
    outs (run Quirks.asIs diamondSchema lifo [.new 0 3 0, .mkq 1 0 none, .evalq 1]) = [([0], [0])] := by
  constructor <;> decide

/-! Non-vacuity (tests): the hypotheses of the theorems above are met by non-trivial inputs. -/
example : lifo.Valid ∧ (cexSchema.below 0).Nodup ∧ ¬ (diamondSchema.below 0).Nodup := by
  refine ⟨lifo_valid, by decide, by decide⟩
/-- a history with recycling: two instances die, a sweep frees their node indices, the LIFO allocator hands index 1
then 0 to the next two instances; the census is still exact -/
example :
    let st := run Quirks.asIs cexSchema lifo
      [.new 0 0 0, .new 1 1 1, .drop 0, .drop 1, .sweep, .new 2 1 0, .new 3 0 1, .mkq 1 0 none, .evalq 1]
    st.err = false ∧ outs st = [([3, 2], [2, 3])] ∧ st.g.nodes.map (·.idx) = [1, 0] := by
  decide

end KrroodVerif.SG
