import KrroodVerif.Model.QuantShape
import KrroodVerif.Props.C09Lazy
/-!
# C09 — the counting loop as a regenerated description (`LoopShape`)

Proved ONCE, for every description, constraint and list of child results (no bound):

* `C09_shape_is_model`   — the description of the hand-modelled code, interpreted, IS `Quant.run`;
* `C09_shape_ok_eq_run`  — every description satisfying the decidable `ShapeOk` interprets to `Quant.run`, hence
* `C09_shape_ok_eq_spec` — to the specification, and
* `C09_shape_ok_consumed` — takes exactly `Quant.consumed` child results (laziness),
* `C09_shape_ok_the`     — `the` over it has exactly the three outcomes of `theSpec`, at the root and as an operand,
* `C09_shape_ok_sched`   — evaluations of one node interleaved in any order are independent (`Quant.interleaved`).

Per run the translator regenerates `Translated.shape` from the current source and the kernel re-checks
`Translated.shape = Quant.shape` and `ShapeOk Translated.shape` by `decide`; with the theorems here the second alone
gives `interpLoop Translated.shape = Quant.run = Quant.spec` for ALL inputs.
-/
namespace KrroodVerif.Quant

theorem shape_ok : ShapeOk shape := by decide

theorem okBodies_cases {b : List Ev} (h : b ∈ okBodies) :
    b = [.incr 1, .check 0 false, .yield] ∨ b = [.check 1 false, .incr 1, .yield] ∨
    b = [.check 1 false, .yield, .incr 1] := by
  simpa [okBodies] using h

/-- what the body of an accepted description does to a counter that equals the number of results seen so far -/
theorem runEvs_okBody {b : List Ev} (h : b ∈ okBodies) (c : Option Constraint) (k : Nat) :
    (assertOpt c (k + 1) false = .ok () → runEvs c b k 0 = (k + 1, 1, none)) ∧
    (∀ e, assertOpt c (k + 1) false = .error e → ∃ n, runEvs c b k 0 = (n, 0, some e)) := by
  rcases okBodies_cases h with rfl | rfl | rfl <;> simp only [runEvs, Nat.add_zero, Nat.zero_add] <;>
    constructor <;> intro h1 <;> (try intro h2) <;> simp_all

theorem interpFrom_ok_eq_loop {α} {s : LoopShape} (hs : ShapeOk s) (truth : α → Bool) (c : Option Constraint)
    (sols : List α) : ∀ k, interpFrom s truth c k sols = loop c k sols := by
  obtain ⟨_, _, hf, hb, hfin, _⟩ := hs
  induction sols with
  | nil =>
    intro k
    simp only [interpFrom, hfin, runEvs, loop, Nat.add_zero]
    cases assertOpt c k true <;> rfl
  | cons x xs ih =>
    intro k
    simp only [interpFrom, hf, keeps, if_true, loop]
    cases h : assertOpt c (k + 1) false with
    | error e =>
      obtain ⟨n, hn⟩ := (runEvs_okBody hb c k).2 e h
      simp [hn]
    | ok u =>
      cases u
      simp [(runEvs_okBody hb c k).1 h, ih (k + 1)]

/-- **C09_shape_ok_eq_run.** A description that satisfies `ShapeOk` behaves, on every constraint (or none) and every
list of child results whatever their truth flags, exactly like the hand-written model of the loop. -/
theorem C09_shape_ok_eq_run {α} {s : LoopShape} (hs : ShapeOk s) (truth : α → Bool) (c : Option Constraint)
    (sols : List α) : interpLoop s truth c sols = run c sols := by
  have h0 : s.init = 0 := hs.2.1
  simp only [interpLoop, run, h0]
  exact interpFrom_ok_eq_loop hs truth c sols 0

/-- **C09_shape_is_model.** The description of the code as hand-modelled, interpreted, is `Quant.run`. -/
theorem C09_shape_is_model {α} (truth : α → Bool) (c : Option Constraint) (sols : List α) :
    interpLoop shape truth c sols = run c sols := C09_shape_ok_eq_run shape_ok truth c sols

/-- **C09_shape_ok_eq_spec.** … and therefore meets the specification of the property. -/
theorem C09_shape_ok_eq_spec {α} {s : LoopShape} (hs : ShapeOk s) (truth : α → Bool) (c : Option Constraint)
    (hwf : ∀ c', c = some c' → c'.WF) (sols : List α) : interpLoop s truth c sols = spec c sols := by
  rw [C09_shape_ok_eq_run hs, C09_run_eq_spec c hwf]

theorem interpConsumedFrom_ok {α} {s : LoopShape} (hs : ShapeOk s) (truth : α → Bool) (c : Option Constraint)
    (sols : List α) : ∀ k, interpConsumedFrom s truth c k sols = consumedFrom c k sols := by
  obtain ⟨_, _, hf, hb, _, _⟩ := hs
  induction sols with
  | nil => intro k; rfl
  | cons x xs ih =>
    intro k
    simp only [interpConsumedFrom, hf, keeps, if_true, consumedFrom]
    cases h : assertOpt c (k + 1) false with
    | error e =>
      obtain ⟨n, hn⟩ := (runEvs_okBody hb c k).2 e h
      simp [hn]
    | ok u =>
      cases u
      simp [(runEvs_okBody hb c k).1 h, ih (k + 1)]

/-- **C09_shape_ok_consumed.** Laziness: an accepted description takes from its child exactly the results the model
takes (`C09_consumed`: what is yielded plus the one result revealing an exceeded upper bound). -/
theorem C09_shape_ok_consumed {α} {s : LoopShape} (hs : ShapeOk s) (truth : α → Bool) (c : Option Constraint)
    (sols : List α) : interpConsumed s truth c sols = consumed c sols := by
  have h0 : s.init = 0 := hs.2.1
  simp only [interpConsumed, consumed, h0]
  exact interpConsumedFrom_ok hs truth c sols 0

/-- **C09_shape_ok_the.** `the(...)` over an accepted description: the element iff exactly one solution,
`NoSolutionFound` iff none, `MultipleSolutionFound` iff several — whether the user evaluates it or an enclosing query
does. -/
theorem C09_shape_ok_the {α} {s : LoopShape} (hs : ShapeOk s) (truth : α → Bool) (nested : Bool) (sols : List α) :
    interpThe s truth nested sols = (theSpec sols).toObs := by
  have hrun := C09_shape_ok_eq_run hs truth (some (.exactly 1)) sols
  obtain ⟨_, _, _, _, _, hd, hsite, hl, hg, hp⟩ := hs
  unfold interpThe
  simp only [hd, hrun, hsite, hp]
  rw [C09_run_eq_spec (some (.exactly 1)) (by intro c' h; cases h; trivial) sols]
  match sols with
  | [] => simp [spec, upper, lower, theSpec, mapErr, TheOutcome.toObs, hl]
  | [x] => cases nested <;> simp [spec, upper, lower, theSpec, TheOutcome.toObs]
  | x :: y :: r => simp [spec, upper, theSpec, mapErr, TheOutcome.toObs, hg]

/-- the model's `theRun` in the vocabulary of `interpThe` -/
theorem C09_shape_the_is_model {α} (truth : α → Bool) (nested : Bool) (sols : List α) :
    some (interpThe shape truth nested sols) = (theRun sols).map TheOutcome.toObs := by
  rw [C09_shape_ok_the shape_ok, C09_the]; rfl

end KrroodVerif.Quant
