import KrroodVerif.Model.Predicate
import KrroodVerif.Lemmas.Predicate
/-!
# C12 — Predicates and symbolic functions agree between concrete and symbolic calls

Property theorems only (helper lemmas: `Lemmas/Predicate.lean`). The model (`mergeArgs`, `dispatch`, `evalSym`,
`run`, with the `Quirks` of the unchanged tree) transcribes `predicate.py` / `symbolic.py`; `bind` (Python's own
binding of positional-or-keyword parameters with defaults) and `spec` are what the property demands.
All theorems are unbounded in arity, number of arguments, number of variables and domain sizes; the
counter-examples are `decide`d tests on concrete witnesses.
-/
namespace KrroodVerif.Pred
variable {α β : Type}

/-- **C12_merge_eq_bind.** For every signature of positional-or-keyword parameters `ps` (any arity, any defaults),
every split of the arguments into positional `args` and keyword `kw`, on every call Python accepts
(`bind … = .ok b`): `merge_args_and_kwargs` with `ignore_first := paramsIncludeSelf` (the inspected function has a
leading `self` that the caller does not pass — `cls.__init__` — or it has not) yields, as a Python dict, exactly
Python's own binding `b`. Unbounded in arity and in the number of arguments. -/
theorem C12_merge_eq_bind (ps : List Param) (hnd : (ps.map (·.name)).Nodup) (args : List α) (kw : Dict α)
    (hkw : kw.keys.Nodup) (b : Dict α) (hb : bind ps args kw = .ok b) (selfName : String) (paramsIncludeSelf : Bool) :
    DictEq (mergeArgs (if paramsIncludeSelf then selfName :: ps.map (·.name) else ps.map (·.name))
      paramsIncludeSelf args kw) b := by
  have hm : mergeArgs (if paramsIncludeSelf then selfName :: ps.map (·.name) else ps.map (·.name))
      paramsIncludeSelf args kw = mergeArgs (ps.map (·.name)) false args kw := by
    cases paramsIncludeSelf <;> simp [mergeArgs]
  rw [hm]
  obtain ⟨hk, hb'⟩ := bind_ok hb
  refine ⟨?_, ?_, ?_⟩
  · exact Dict.nodup_keys_update _ _ (Dict.nodup_keys_update _ _ (by simp [Dict.keys]))
  · exact hnd.sublist (bindAux_keys_sublist hb')
  · intro k
    rw [mergeArgs_valid hnd hkw hb, bindAux_kw_get? hnd (bindAux_rebind hnd hb') k]
    simp only [Dict.get?, List.lookup_append]
    split
    · rfl
    · rename_i hkn
      have h1 : List.lookup k ((ps.map (·.name)).zip args) = none := by
        apply (Dict.get?_eq_none_iff (α := α) ((ps.map (·.name)).zip args) k).mpr
        rw [keys_zip]
        exact fun h => hkn (List.mem_of_mem_take h)
      have h2 : List.lookup k kw = none :=
        (Dict.get?_eq_none_iff kw k).mpr (fun h => hkn (hk k h))
      simp [h1, h2]

/-- on a call Python accepts the up-front binding of the repaired dispatch (quirk `acceptsRejected` off) changes
nothing -/
theorem dispatch_of_accepted (q : Quirks) (c : Call) {b : Dict Arg} (hb : bind c.params c.pos c.kw = .ok b) :
    dispatch q c = (if isSymbolic (c.merged q) then .symbolic (c.merged q)
      else .concrete (callSpec Arg.lit c.params c.pos c.kw)) := by
  simp [dispatch, hb, Except.isOk']

/-- **C12_dispatch.** With the repaired flag, on every call Python accepts: no variable written ⇒ the call is
executed immediately and the body sees Python's binding with defaults applied (the plain result is returned);
some variable written, positionally or by keyword ⇒ nothing is executed and the condition carries exactly Python's
binding of the written arguments. -/
theorem C12_dispatch (c : Call) (hwf : c.WF) (b : Dict Arg) (hb : bind c.params c.pos c.kw = .ok b) :
    (c.hasVar = false → dispatch Quirks.none c = .concrete (.ok (applyDefaults Arg.lit c.params b))) ∧
    (c.hasVar = true → ∃ d, dispatch Quirks.none c = .symbolic d ∧ DictEq d b) := by
  have hm := merged_none c hwf hb
  have hs := isSymbolic_merged c hb
  constructor
  · intro hv
    simp [dispatch_of_accepted _ _ hb, hm, hs, hv, callSpec, hb]
  · intro hv
    refine ⟨c.paramNames.zip c.pos ++ c.kw, by simp [dispatch_of_accepted _ _ hb, hm, hs, hv], ?_⟩
    have := C12_merge_eq_bind c.params hwf.names_nodup c.pos c.kw hwf.kw_nodup b hb "self" false
    simp only [Bool.false_eq_true, if_false] at this
    rw [mergeArgs_valid hwf.names_nodup hwf.kw_nodup hb] at this
    exact this

/-- **C12_calls_once.** With both quirks off, for every accepted call, every domain assignment, every set of
variables bound by conjuncts to the left, under `not_` or not, and every body: the model of construction +
evaluation equals the specification — in particular the call log is the list of candidate bindings of the distinct
variables, in order, each exactly once, every parameter bound to the value of the argument written in its position
(`C12_calls_once_log` spells this out), and a binding is a result iff the body's value for it is truthy. -/
theorem C12_calls_once (x : Experiment) (hwf : x.call.WF) (b : Dict Arg)
    (hb : bind x.call.params x.call.pos x.call.kw = .ok b) :
    run Quirks.none x = spec x := by
  obtain ⟨hconc, hsym⟩ := C12_dispatch x.call hwf b hb
  cases hv : x.call.hasVar with
  | false => simp [run, spec, hb, hv, hconc hv]
  | true =>
    have hm := merged_none x.call hwf hb
    have hs := isSymbolic_merged x.call hb
    have hd : dispatch Quirks.none x.call = .symbolic (x.call.paramNames.zip x.call.pos ++ x.call.kw) := by
      simp [dispatch_of_accepted _ _ hb, hm, hs, hv]
    simp only [run, spec, hb, hv, hd, if_true]
    have h1 : (assignsFrom x.doms Env.empty x.pre).map (fun e =>
          evalSym Quirks.none x.world x.call.params (x.call.paramNames.zip x.call.pos ++ x.call.kw) x.doms e x.body
            x.neg x.sel)
        = (assignsFrom x.doms Env.empty x.pre).map (fun e => Except.ok
          (observe x.body x.neg (rowsOf x.doms x.sel)
            ((assignsFrom x.doms e (freeVars x.call.written x.pre)).map
              (fun e' => (applyDefaults id x.call.params (b.mapVals (substW x.world e')), e'))))) := by
      apply List.map_congr_left
      intro e he
      exact evalSym_none x.call hwf hb x.world x.doms e x.pre (pre_bound_iff he) x.body x.neg x.sel
    rw [h1, sequence_map_ok]
    simp only [Outcome.symbolic.injEq, Except.ok.injEq]
    rw [concatObs_map_observe, assignsFrom_append, List.map_flatMap]
    apply observe_congr
    intro c hc
    simp only [List.mem_flatMap, List.mem_map] at hc
    obtain ⟨e, he, e', he', rfl⟩ := hc
    apply rowsOf_bound
    intro i hi
    simp only [Experiment.sel, mem_freeVars] at hi
    by_cases hp : i ∈ x.pre
    · exact assignsFrom_bound he' i (Or.inr (assignsFrom_bound he i (Or.inl hp)))
    · exact assignsFrom_bound he' i (Or.inl ((mem_freeVars _ _ _).mpr ⟨hi.1, hp⟩))

/-- what `C12_calls_once` says about the call log and the results, spelled out -/
theorem C12_calls_once_log (x : Experiment) (hwf : x.call.WF) (b : Dict Arg)
    (hb : bind x.call.params x.call.pos x.call.kw = .ok b) (hv : x.call.hasVar = true) :
    let cands := assignsFrom x.doms Env.empty (x.pre ++ freeVars x.call.written x.pre)
    let tuple := fun e => applyDefaults id x.call.params (b.mapVals (substW x.world e))
    ∃ obs, run Quirks.none x = .symbolic (.ok obs) ∧
      obs.log = cands.map tuple ∧
      obs.rows = (cands.filter (fun e => (x.body (tuple e) != 0) != x.neg)).map (rowOf x.sel) := by
  intro cands tuple
  refine ⟨observe x.body x.neg (fun e => [rowOf x.sel e]) (cands.map (fun e => (tuple e, e))), ?_, ?_, ?_⟩
  · rw [C12_calls_once x hwf b hb]
    simp only [spec, hb, hv, if_true, cands, tuple]
  · simp [observe, List.map_map, Function.comp_def]
  · simp only [observe, List.filter_map, List.flatMap_map, Function.comp_def]
    induction List.filter _ _ with
    | nil => rfl
    | cons a r ih => simp [ih]

/-- whichever quirk is on: outside its trigger the dispatch is the repaired one -/
theorem dispatch_quirk_eq (q : Quirks) (c : Call) (hwf : c.WF) {b : Dict Arg} (hb : bind c.params c.pos c.kw = .ok b)
    (ht : q.symFnIgnoresFirst = true → trigPositional c = false) : dispatch q c = dispatch Quirks.none c := by
  obtain ⟨q1, q2, q3⟩ := q
  rw [dispatch_of_accepted _ _ hb, dispatch_of_accepted _ _ hb]
  cases q1 with
  | false => rfl
  | true =>
    have ht := ht rfl
    cases hk : c.kind with
    | pred => simp [Call.merged, ignoreFirst, hk]
    | symFn =>
      cases hp : c.pos with
      | nil => simp [Call.merged, ignoreFirst, hk, hp, mergeArgs, Quirks.none]
      | cons a as =>
        rw [← hp, ← dispatch_of_accepted _ _ hb, ← dispatch_of_accepted _ _ hb]
        have hv : c.hasVar = false := by simpa [trigPositional, hk, hp] using ht
        have h1 := (C12_dispatch c hwf b hb).1 hv
        rw [h1]
        have : isSymbolic (c.merged ⟨true, q2, q3⟩) = false := by
          simp only [isSymbolic, List.any_eq_false]
          intro kv hkv
          have hw : kv.2 ∈ c.written := by
            rcases mem_mergeArgs _ _ _ _ _ hkv with h | h
            · simp [Call.written, h]
            · simp [Call.written, h]
          simp only [Call.hasVar, List.any_eq_false] at hv
          exact hv _ hw
        simp [dispatch_of_accepted _ _ hb, this, callSpec, hb]

/-- **C12_calls_once_quirks.** The quirk-parameterised statement: under *any* setting of the two quirk flags, on
every accepted call outside the triggers of the quirks that are on, the model of the code equals the
specification. (`Quirks.today` gives `C12_calls_once_partial`; `⟨false, true, _⟩` is the code after the repair of
F-C12-1; the third flag, F-C12-3, concerns only calls Python rejects and is irrelevant here; `Quirks.none` gives `C12_calls_once` back.) -/
theorem C12_calls_once_quirks (q : Quirks) (x : Experiment) (hwf : x.call.WF) (b : Dict Arg)
    (hb : bind x.call.params x.call.pos x.call.kw = .ok b)
    (h1 : q.symFnIgnoresFirst = true → trigPositional x.call = false)
    (h2 : q.childVarsIndependent = true → trigShared x = false) :
    run q x = spec x := by
  rw [← C12_calls_once x hwf b hb]
  have hd := dispatch_quirk_eq q x.call hwf hb h1
  simp only [run, hd]
  cases hdd : dispatch Quirks.none x.call with
  | concrete r => rfl
  | symbolic d =>
    have hdm : d = x.call.paramNames.zip x.call.pos ++ x.call.kw := by
      have hm := merged_none x.call hwf hb
      simp only [dispatch_of_accepted _ _ hb, hm] at hdd
      split at hdd
      · cases hdd; rfl
      · cases hdd
    simp only
    congr 3
    apply List.map_congr_left
    intro e he
    cases hq : q.childVarsIndependent with
    | false => simp [evalSym, combos, hq, Quirks.none]
    | true =>
      simp only [evalSym, combos, hq, Quirks.none, if_true, Bool.false_eq_true, if_false]
      rw [combosIndependent_eq_chained]
      rw [hdm, vals_merged x.call hb]
      have : (fun j => (e j).isSome) = (fun i => x.pre.contains i) := by
        funext j
        have := pre_bound_iff he j
        rw [Bool.eq_iff_iff]
        simp [this]
      rw [this]
      exact h2 hq

/-- **C12_merge_eq_bind_partial** (the code as it is). `symbolic_function` passes `ignore_first=True` for a function
without `self`; on keyword-only call shapes (no positional argument) the merged dictionary is still Python's binding.
(Full statement = `C12_merge_eq_bind` with `paramsIncludeSelf := false`; it fails for the unchanged code as soon as
one argument is positional: `C12_cex_positional`.) -/
theorem C12_merge_eq_bind_partial (ps : List Param) (hnd : (ps.map (·.name)).Nodup) (kw : Dict α)
    (hkw : kw.keys.Nodup) (b : Dict α) (hb : bind ps [] kw = .ok b) :
    DictEq (mergeArgs (ps.map (·.name)) true [] kw) b := by
  have := C12_merge_eq_bind ps hnd [] kw hkw b hb "self" false
  simpa [mergeArgs] using this

/-- **C12_calls_once_partial** (the code as it is, both quirks on). On every accepted call that is outside the
trigger of F-C12-1 (a `Predicate` subclass, or a `@symbolic_function` callable called by keyword only, or no variable
at all) and outside the trigger of F-C12-2 (no variable, unless bound by a conjunct to the left, is written in two
argument positions), the unchanged code does what the property demands.
Full statement (false today, `C12_cex_positional` / `C12_cex_shared`): the same without the two trigger hypotheses. -/
theorem C12_calls_once_partial (x : Experiment) (hwf : x.call.WF) (b : Dict Arg)
    (hb : bind x.call.params x.call.pos x.call.kw = .ok b)
    (h1 : trigPositional x.call = false) (h2 : trigShared x = false) :
    run Quirks.today x = spec x :=
  C12_calls_once_quirks Quirks.today x hwf b hb (fun _ => h1) (fun _ => h2)

/-- after the repair of F-C12-1 alone: every call shape, positional or not, outside the trigger of F-C12-2 -/
theorem C12_calls_once_fixed_partial (x : Experiment) (hwf : x.call.WF) (b : Dict Arg)
    (hb : bind x.call.params x.call.pos x.call.kw = .ok b) (h2 : trigShared x = false) (q3 : Bool) :
    run ⟨false, true, q3⟩ x = spec x :=
  C12_calls_once_quirks ⟨false, true, q3⟩ x hwf b hb (fun h => by cases h) (fun _ => h2)

/-! ### Calls Python itself rejects (too many positionals, a parameter passed positionally and by keyword, a
keyword-only parameter passed positionally, an unknown keyword, a missing argument) -/

/-- **C12_rejected.** With quirk `acceptsRejected` off (the wrapper / `__new__` binds the call as written before
merging): every call Python rejects raises that `TypeError` at the call, whatever variables it contains - nothing is
merged, nothing is evaluated, the body never runs. -/
theorem C12_rejected (q : Quirks) (hq : q.acceptsRejected = false) (x : Experiment) (e : BindErr)
    (hb : bind x.call.params x.call.pos x.call.kw = .error e) :
    run q x = .concrete (.error e) ∧ spec x = .invalid ∧ (run q x).rejected = true := by
  have h : run q x = .concrete (.error e) := by
    simp [run, dispatch, hq, hb, Except.isOk', callSpec]
  exact ⟨h, by simp [spec, hb], by rw [h]; rfl⟩

/-- **C12_rejected_partial** (the code as it is: no up-front binding). On every call Python rejects that is outside
the trigger of F-C12-3 - no variable survives the merge, or the merged dictionary is itself no valid keyword call
(unknown keyword, missing argument) - the `TypeError` is raised at the call or leaves the evaluation at the first
candidate: no invocation succeeds and no result is returned (`Outcome.rejected`).
Full statement (false today, `C12_cex_rejected`): the same without the trigger hypothesis. -/
theorem C12_rejected_partial (q : Quirks) (hq1 : q.symFnIgnoresFirst = false) (x : Experiment) (e : BindErr)
    (hb : bind x.call.params x.call.pos x.call.kw = .error e)
    (ht : q.acceptsRejected = true → trigRejected x.call = false) :
    spec x = .invalid ∧ (run q x).rejected = true := by
  cases hq : q.acceptsRejected with
  | false => exact (C12_rejected q hq x e hb).2
  | true =>
    refine ⟨by simp [spec, hb], ?_⟩
    have hm : x.call.merged q = x.call.merged Quirks.none := by
      simp [Call.merged, ignoreFirst, hq1, Quirks.none]
    have ht := ht hq
    simp only [trigRejected, hb, Except.isOk', Bool.not_false, Bool.true_and, Bool.and_eq_false_iff] at ht
    simp only [run, dispatch, hq, Bool.not_true, Bool.false_and, Bool.false_eq_true, if_false, hm]
    cases hs : isSymbolic (x.call.merged Quirks.none) with
    | false => simp [callSpec, hb, Outcome.rejected]
    | true =>
      have hd : Except.isOk' (bind x.call.params [] (x.call.merged Quirks.none)) = false := by
        rcases ht with h | h
        · rw [hs] at h; cases h
        · exact h
      simp only [if_true]
      rcases sequence_silent ((assignsFrom x.doms Env.empty x.pre).map (fun e' =>
          evalSym q x.world x.call.params (x.call.merged Quirks.none) x.doms e' x.body x.neg x.sel)) (by
            intro r hr
            simp only [List.mem_map] at hr
            obtain ⟨e', _, rfl⟩ := hr
            exact evalSym_rejected q x.world x.call.params _ hd x.doms e' x.body x.neg x.sel)
        with ⟨os, h1, h2⟩ | ⟨err, h1⟩
      · rw [h1]; simp [Outcome.rejected, h2]
      · rw [h1]; rfl

/-! ### Independence of class-level knobs and of the evaluation history -/

/-- **C12_knobs_history_irrelevant.** The outcome of evaluating the query now is the same whatever class-level knobs
the callable sets (`is_expensive`, any future `ClassVar` of `Predicate`, attributes of the function) and whatever
worlds the same query object was evaluated in before. (True by construction of the model — the transcribed code keeps
no state on the condition node and reads no knob; the correspondence is what ties this to the code: it draws every
knob, mutates the candidates between evaluations of one query object and compares with this knob- and history-free
model.) -/
theorem C12_knobs_history_irrelevant (q : Quirks) (knobs knobs' : Knobs) (history history' : List World)
    (x : Experiment) : evalAfter q knobs history x = evalAfter q knobs' history' x := rfl

/-- **C12_truth_is_current_call.** For every knob setting and every history of earlier evaluations, on every accepted
call outside the triggers of the quirks that are on: the evaluation invokes the callable once per candidate binding
with the CURRENT values of the arguments written (`substW x.world`: the candidate's state now, seen through the
attribute / method call / index written at the call site) and contributes exactly the truth value of that concrete
call — never a value remembered from an earlier evaluation or from another candidate. -/
theorem C12_truth_is_current_call (q : Quirks) (knobs : Knobs) (history : List World) (x : Experiment)
    (hwf : x.call.WF) (b : Dict Arg) (hb : bind x.call.params x.call.pos x.call.kw = .ok b)
    (h1 : q.symFnIgnoresFirst = true → trigPositional x.call = false)
    (h2 : q.childVarsIndependent = true → trigShared x = false) :
    evalAfter q knobs history x = spec x :=
  C12_calls_once_quirks q x hwf b hb h1 h2

/-- **C12_history.** One query object evaluated in a sequence of worlds (the candidates are mutated in between):
every evaluation equals the specification in ITS world, for any knobs and any number of earlier evaluations. -/
theorem C12_history (q : Quirks) (knobs : Knobs) (x : Experiment)
    (hwf : x.call.WF) (b : Dict Arg) (hb : bind x.call.params x.call.pos x.call.kw = .ok b)
    (h1 : q.symFnIgnoresFirst = true → trigPositional x.call = false)
    (h2 : q.childVarsIndependent = true → trigShared x = false) (before ws : List World) :
    runHistory q knobs x before ws = specHistory x ws := by
  induction ws generalizing before with
  | nil => rfl
  | cons w r ih =>
    simp only [runHistory, specHistory, List.map_cons, List.cons.injEq]
    exact ⟨C12_truth_is_current_call q knobs before { x with world := w } hwf b hb h1 h2, ih _⟩

/-! ### Counter-examples on the code as it is (tests by `decide` on concrete witnesses — the Lean side of the
known findings; the same inputs are stored in `findings.d/C12.json` and replayed against the real code every run) -/

def bodyParity : List Nat → Nat := fun t => (t.foldl (· + ·) 0) % 2

/-- `f(a, b=8)` called as `f(x)`, `x ∈ {1,2,3}`: the unchanged code binds `x` to `b` and raises `TypeError` -/
def cexPositional : Experiment :=
  { call := ⟨.symFn, [⟨"a", none, false⟩, ⟨"b", some 8, false⟩], [.var 0 0], []⟩
    doms := fun _ => [1, 2, 3], pre := [], neg := false, body := bodyParity }

/-- `f(a=9, b=8)` called as `f(x)`: every invocation is one position off, `(9, x)` instead of `(x, 8)` -/
def cexShifted : Experiment :=
  { cexPositional with call := ⟨.symFn, [⟨"a", some 9, false⟩, ⟨"b", some 8, false⟩], [.var 0 0], []⟩ }

/-- `f(a)` called as `f(x)`: the variable is not recognised and the body runs at construction time on the variable -/
def cexExecuted : Experiment :=
  { cexPositional with call := ⟨.symFn, [⟨"a", none, false⟩], [.var 0 0], []⟩ }

/-- `k.m(a=x)` for `def m(self, a)`: the receiver is dropped, evaluation raises `TypeError` -/
def cexMethod : Experiment :=
  { cexPositional with call := ⟨.symFn, [⟨"self", none, false⟩, ⟨"a", none, false⟩], [.lit 0], [("a", .var 0 0)]⟩ }

/-- **C12_cex_positional** (finding F-C12-1). -/
theorem C12_cex_positional :
    (∀ x ∈ [cexPositional, cexShifted, cexExecuted, cexMethod],
      x.call.paramNames.Nodup ∧ x.call.kw.keys.Nodup ∧ (bind x.call.params x.call.pos x.call.kw).isOk
      ∧ trigPositional x.call = true ∧ trigShared x = false
      ∧ run Quirks.today x ≠ spec x ∧ run ⟨false, true, true⟩ x = spec x) ∧
    run Quirks.today cexPositional = .symbolic (.error .missingArgument) ∧
    spec cexPositional = .symbolic (.ok ⟨[[1, 8], [2, 8], [3, 8]], [[1], [3]]⟩) ∧
    run Quirks.today cexShifted = .symbolic (.ok ⟨[[9, 1], [9, 2], [9, 3]], [[2]]⟩) ∧
    run Quirks.today cexExecuted = .concrete (.ok [.var 0 0]) ∧
    run Quirks.today cexMethod = .symbolic (.error .missingArgument) := by
  decide

/-- `f(a, b)` called as `f(a=x, b=x)`, `x ∈ {1,2,3}` -/
def cexShared : Experiment :=
  { call := ⟨.symFn, [⟨"a", none, false⟩, ⟨"b", none, false⟩], [], [("a", .var 0 0), ("b", .var 0 0)]⟩
    doms := fun _ => [1, 2, 3], pre := [], neg := false, body := fun t => (t.headD 0) % 2 }

/-- **C12_cex_shared** (finding F-C12-2): nine invocations instead of three, on pairs of *different* values of the
one variable, and a result (`x = 2`) for which the concrete call `f(2, 2)` is false. -/
theorem C12_cex_shared :
    cexShared.call.paramNames.Nodup ∧ cexShared.call.kw.keys.Nodup
    ∧ (bind cexShared.call.params cexShared.call.pos cexShared.call.kw).isOk
    ∧ trigShared cexShared = true ∧ trigPositional cexShared.call = false
    ∧ run Quirks.today cexShared = .symbolic (.ok
        ⟨[[1, 1], [1, 2], [1, 3], [2, 1], [2, 2], [2, 3], [3, 1], [3, 2], [3, 3]], [[1], [2], [3], [1], [2], [3]]⟩)
    ∧ spec cexShared = .symbolic (.ok ⟨[[1, 1], [2, 2], [3, 3]], [[1], [3]]⟩)
    ∧ run ⟨true, false, true⟩ cexShared = spec cexShared
    ∧ run Quirks.today { cexShared with pre := [0] } = spec { cexShared with pre := [0] } := by
  decide

/-! ### Non-vacuity (tests): inputs that satisfy the hypotheses of the theorems above, with non-trivial outcomes -/

/-- `P(a, b=8, c=9)` (a `Predicate` subclass) called `P(x, c=y)` under a conjunct binding `y`: accepted by Python,
well-formed, outside both triggers — the hypotheses of `C12_calls_once_partial` — and the outcome is a proper subset
of six invocations -/
def exPred : Experiment :=
  { call := ⟨.pred, [⟨"a", none, false⟩, ⟨"b", some 8, false⟩, ⟨"c", some 9, false⟩], [.var 0 0], [("c", .var 1 0)]⟩
    doms := fun i => if i = 0 then [1, 2, 3] else [4, 5], pre := [1], neg := false, body := bodyParity }

example : exPred.call.paramNames.Nodup ∧ exPred.call.kw.keys.Nodup
    ∧ bind exPred.call.params exPred.call.pos exPred.call.kw = .ok [("a", .var 0 0), ("c", .var 1 0)]
    ∧ trigPositional exPred.call = false ∧ trigShared exPred = false
    ∧ run Quirks.today exPred = .symbolic (.ok
        ⟨[[1, 8, 4], [2, 8, 4], [3, 8, 4], [1, 8, 5], [2, 8, 5], [3, 8, 5]], [[1, 4], [3, 4], [2, 5]]⟩) := by
  decide

/-- hypotheses of `C12_merge_eq_bind` / `C12_dispatch` on a call with positionals, keywords and a default left out,
and on calls Python rejects (which the theorems do not speak about) -/
example :
    bind [⟨"a", none, false⟩, ⟨"b", some 8, false⟩, ⟨"c", some 9, false⟩] [1] [("c", 2)] = .ok [("a", 1), ("c", 2)]
    ∧ mergeArgs ["self", "a", "b", "c"] true [1] [("c", 2)] = [("a", 1), ("c", 2)]
    ∧ mergeArgs ["a", "b", "c"] true [1] [("c", 2)] = [("b", 1), ("c", 2)]
    ∧ bind [⟨"a", none, false⟩] [1, 2] ([] : Dict Nat) = .error .tooManyPositional
    ∧ bind [⟨"a", none, false⟩] [1] [("a", 2)] = .error .multipleValues
    ∧ bind [⟨"a", none, false⟩, ⟨"b", none, false⟩] [1] ([] : Dict Nat) = .error .missingArgument
    ∧ bind [⟨"a", none, false⟩] [] [("z", 2)] = .error .unexpectedKeyword := by
  decide

/-- a concrete call: executed immediately with defaults applied -/
example : run Quirks.today { exPred with call := { exPred.call with pos := [.lit 3], kw := [("c", .lit 2)] } }
    = .concrete (.ok [.lit 3, .lit 8, .lit 2]) := by
  decide

/-- `P(x.get())` with `is_expensive = True`, `x` bound by a conjunct to the left, evaluated, candidates mutated
(1 ↦ state 2, 2 ↦ state 3, 3 ↦ state 4), evaluated again: hypotheses of `C12_history` hold and the two evaluations
differ — the second one sees the new states (accessor 1 adds 100) and returns the complementary candidates -/
def exHistory : Experiment :=
  { call := ⟨.pred, [⟨"a", none, false⟩], [.var 0 1], []⟩
    doms := fun _ => [1, 2, 3], pre := [0], neg := false, body := bodyParity }

example : exHistory.call.paramNames.Nodup ∧ exHistory.call.kw.keys.Nodup
    ∧ (bind exHistory.call.params exHistory.call.pos exHistory.call.kw).isOk
    ∧ trigShared exHistory = false
    ∧ runHistory Quirks.today [("is_expensive", true)] exHistory [] [id, fun o => o + 1]
      = [.symbolic (.ok ⟨[[101], [102], [103]], [[1], [3]]⟩), .symbolic (.ok ⟨[[102], [103], [104]], [[2]]⟩)] := by
  decide

/-! ### F-C12-3: calls Python rejects that the symbolic path accepts silently (tests by `decide`) -/

/-- `f(a, b=8)` called as `f(x, 1, 2)`: Python: "takes from 1 to 2 positional arguments but 3 were given"; the
surplus `2` is dropped by `zip` -/
def cexTooMany : Experiment :=
  { call := ⟨.symFn, [⟨"a", none, false⟩, ⟨"b", some 8, false⟩], [.var 0 0, .lit 1, .lit 2], []⟩
    doms := fun _ => [1, 2, 3], pre := [], neg := false, body := bodyParity }

/-- `f(a, b=8)` called as `f(1, a=x)`: Python: "got multiple values for argument 'a'"; `update(kwargs)` overwrites
the positional `1` -/
def cexMultiple : Experiment :=
  { cexTooMany with call := ⟨.symFn, [⟨"a", none, false⟩, ⟨"b", some 8, false⟩], [.lit 1], [("a", .var 0 0)]⟩ }

/-- `h(a, *, b)` called as `h(x, 2)`: Python: "takes 1 positional argument but 2 were given"; `zip` pairs the
keyword-only name with the positional value -/
def cexKwOnly : Experiment :=
  { cexTooMany with call := ⟨.pred, [⟨"a", none, false⟩, ⟨"b", none, true⟩], [.var 0 0, .lit 2], []⟩ }

/-- `f(a, b=8)` called as `f(x, a=2)`: the keyword overwrites the only variable, so the call is executed and raises -
outside the trigger, as the property demands -/
def exMultipleConcrete : Experiment :=
  { cexTooMany with call := ⟨.symFn, [⟨"a", none, false⟩, ⟨"b", some 8, false⟩], [.var 0 0], [("a", .lit 2)]⟩ }

/-- `f(a, b=8)` called as `f(x, z=1)`: unknown keyword, the `TypeError` leaves the evaluation - outside the trigger -/
def exUnexpected : Experiment :=
  { cexTooMany with call := ⟨.symFn, [⟨"a", none, false⟩, ⟨"b", some 8, false⟩], [.var 0 0], [("z", .lit 1)]⟩ }

/-- **C12_cex_rejected** (finding F-C12-3). -/
theorem C12_cex_rejected :
    (∀ x ∈ [cexTooMany, cexMultiple, cexKwOnly],
      x.call.paramNames.Nodup ∧ x.call.kw.keys.Nodup ∧ Except.isOk' (bind x.call.params x.call.pos x.call.kw) = false
      ∧ trigRejected x.call = true ∧ spec x = .invalid
      ∧ (run ⟨false, true, true⟩ x).rejected = false ∧ (run ⟨false, true, false⟩ x).rejected = true) ∧
    run ⟨false, true, true⟩ cexTooMany = .symbolic (.ok ⟨[[1, 1], [2, 1], [3, 1]], [[2]]⟩) ∧
    run ⟨false, true, true⟩ cexMultiple = .symbolic (.ok ⟨[[1, 8], [2, 8], [3, 8]], [[1], [3]]⟩) ∧
    run ⟨false, true, true⟩ cexKwOnly = .symbolic (.ok ⟨[[1, 2], [2, 2], [3, 2]], [[1], [3]]⟩) := by
  decide

/-- non-vacuity of `C12_rejected_partial`: rejected calls outside the trigger, with the two ways of being rejected -/
example :
    (∀ x ∈ [exMultipleConcrete, exUnexpected],
      Except.isOk' (bind x.call.params x.call.pos x.call.kw) = false ∧ trigRejected x.call = false) ∧
    run ⟨false, true, true⟩ exMultipleConcrete = .concrete (.error .multipleValues) ∧
    run ⟨false, true, true⟩ exUnexpected = .symbolic (.error .unexpectedKeyword) := by
  decide

/-- keyword-only parameters: `P(a, *, b, c=9)` called `P(x, b=y)` is accepted, bound by keyword, the default of the
keyword-only `c` applied at each invocation; passed positionally it is rejected; a missing keyword-only argument is
rejected -/
example :
    bind [⟨"a", none, false⟩, ⟨"b", none, true⟩, ⟨"c", some 9, true⟩] [1] [("b", 2)] = .ok [("a", 1), ("b", 2)]
    ∧ bind [⟨"a", none, false⟩, ⟨"b", none, true⟩, ⟨"c", some 9, true⟩] [1, 2] ([] : Dict Nat) = .error .tooManyPositional
    ∧ bind [⟨"a", none, false⟩, ⟨"b", none, true⟩, ⟨"c", some 9, true⟩] [1] ([] : Dict Nat) = .error .missingArgument
    ∧ run ⟨false, true, true⟩ { exPred with call := ⟨.pred, [⟨"a", none, false⟩, ⟨"b", none, true⟩, ⟨"c", some 9, true⟩],
        [.var 0 0], [("b", .var 1 0)]⟩ }
      = .symbolic (.ok ⟨[[1, 4, 9], [2, 4, 9], [3, 4, 9], [1, 5, 9], [2, 5, 9], [3, 5, 9]], [[2, 4], [1, 5], [3, 5]]⟩) := by
  decide

/-! ### `isinstance` by the class statements of `symbolic.py` (used by the obligations regenerated from the source) -/

/-- if, by the class table, `Variable`, `Attribute`, `Index` and `Call` derive from `cls` and a plain object does
not, then `isinstance(a, cls)` is `Arg.isVar` for every written argument -/
theorem isInstance_eq_isVar (t : ClassTable) (cls : String)
    (h : (isSubclass t "Variable" cls && isSubclass t "Attribute" cls && isSubclass t "Index" cls
      && isSubclass t "Call" cls && !isSubclass t "object" cls) = true) (a : Arg) :
    isInstance t a cls = a.isVar := by
  simp only [Bool.and_eq_true, Bool.not_eq_true'] at h
  obtain ⟨⟨⟨⟨h1, h2⟩, h3⟩, h4⟩, h5⟩ := h
  cases a with
  | lit v => simp [isInstance, Arg.pyClass, Arg.isVar, h5]
  | var i k =>
    simp only [isInstance, Arg.pyClass, Arg.isVar]
    split
    · exact h1
    · split
      · exact h2
      · split
        · exact h3
        · exact h4

/-- hence a decision of the shape `any(isinstance(v, cls) for v in merged.values())` is `isSymbolic` -/
theorem any_isInstance_eq_isSymbolic (t : ClassTable) (cls : String)
    (h : (isSubclass t "Variable" cls && isSubclass t "Attribute" cls && isSubclass t "Index" cls
      && isSubclass t "Call" cls && !isSubclass t "object" cls) = true) (d : Dict Arg) :
    (Dict.vals d).any (fun a => isInstance t a cls) = isSymbolic d := by
  simp only [Dict.vals, List.any_map, isSymbolic]
  congr 1
  funext kv
  exact isInstance_eq_isVar t cls h kv.2

/-- the dispatch of the code as it is depends on the quirk setting only through the two construction-time flags -/
theorem dispatch_congr (q q' : Quirks) (h1 : q.symFnIgnoresFirst = q'.symFnIgnoresFirst)
    (h3 : q.acceptsRejected = q'.acceptsRejected) (c : Call) : dispatch q c = dispatch q' c := by
  have hm : c.merged q = c.merged q' := by
    simp only [Call.merged, ignoreFirst, h1]
  simp only [dispatch, hm, h3]

/-- on accepted calls, with the positional repair in place, the dispatch is the repaired one whatever the other flags -/
theorem dispatch_accepted_eq_none (q : Quirks) (hq : q.symFnIgnoresFirst = false) (c : Call) (hwf : c.WF)
    {b : Dict Arg} (hb : bind c.params c.pos c.kw = .ok b) : dispatch q c = dispatch Quirks.none c :=
  dispatch_quirk_eq q c hwf hb (fun h => by rw [hq] at h; cases h)

/-! ### the if/else frame: one condition object written twice -/

/-- **C12_framed_history.** The SAME condition object written in both branches of an if/else
(`or_(and_(c, A), and_(not_(c), B))`, an `ElseIf`), evaluated in a sequence of worlds: on every accepted call outside the
triggers of the quirks that are on, every evaluation invokes the callable once per candidate binding (not once per
occurrence) and selects exactly the candidates for which "if the concrete call holds then A else B". -/
theorem C12_framed_history (q : Quirks) (knobs : Knobs) (f : Frame) (x : Experiment)
    (hwf : x.call.WF) (b : Dict Arg) (hb : bind x.call.params x.call.pos x.call.kw = .ok b)
    (h1 : q.symFnIgnoresFirst = true → trigPositional x.call = false)
    (h2 : q.childVarsIndependent = true → trigShared x = false) (before ws : List World) :
    runFramedHistory q knobs f x before ws = specFramedHistory f x ws := by
  unfold runFramedHistory specFramedHistory
  rw [C12_history q knobs x hwf b hb h1 h2 before ws,
    C12_history q knobs { x with neg := !x.neg } hwf b hb h1 h2 before ws]

/-- what the framed observation says: the log is the log of ONE occurrence, and a row is selected iff it is a row of
the call and the then-guard holds, or a row of the negated call and the else-guard holds -/
theorem Obs.framed_spec (f : Frame) (pos negd : Obs) :
    (Obs.framed f pos negd).log = pos.log ∧
    ∀ r, r ∈ (Obs.framed f pos negd).rows ↔
      (f.thenHolds = true ∧ r ∈ pos.rows) ∨ (f.elseHolds = true ∧ r ∈ negd.rows) := by
  refine ⟨rfl, fun r => ?_⟩
  cases f with
  | mk t e => cases t <;> cases e <;> simp [Obs.framed]

/-- non-vacuity: `exHistory` in the frame "then: selected, else: selected" - both evaluations select every candidate,
with one invocation per candidate -/
example : runFramedHistory Quirks.today [] ⟨true, true⟩ exHistory [] [id, fun o => o + 1]
    = [.symbolic (.ok ⟨[[101], [102], [103]], [[1], [3], [2]]⟩), .symbolic (.ok ⟨[[102], [103], [104]], [[2], [1], [3]]⟩)] := by
  decide

end KrroodVerif.Pred
