import KrroodVerif.Props.C09Shape
/-! C09 — interleaved evaluations of a node described by an accepted `LoopShape` are independent
(`C09_shape_ok_sched`), and concrete witnesses that descriptions refused by `ShapeOk` break the property. -/
namespace KrroodVerif.Quant

/-- a generator frame reduced to what it will still show: the results left to yield and how it ends -/
inductive CFrame (α : Type) where
  | live (r : List α × Outcome)
  | dead

def cstep {α} : CFrame α → NextObs α × CFrame α
  | .dead => (.exhausted, .dead)
  | .live (y :: ys, o) => (.value y, .live (ys, o))
  | .live ([], o) => (.finished o, .dead)

def cafter {α} (r : List α × Outcome) (p : Nat) : CFrame α :=
  if p ≤ r.1.length then .live (r.1.drop p, r.2) else .dead

theorem cstep_cafter {α} (r : List α × Outcome) (p : Nat) :
    cstep (cafter r p) = (nextObs r p, cafter r (p + 1)) := by
  unfold cafter nextObs
  by_cases h1 : p < r.1.length
  · have h2 : p ≤ r.1.length := by omega
    have h3 : p + 1 ≤ r.1.length := by omega
    simp only [h2, h3, if_true]
    rw [List.drop_eq_getElem_cons h1]
    simp [cstep, List.getElem?_eq_getElem h1]
  · by_cases h2 : p = r.1.length
    · subst h2
      simp [cstep]
    · have h3 : ¬ p ≤ r.1.length := by omega
      have h4 : ¬ p + 1 ≤ r.1.length := by omega
      have h5 : r.1[p]? = none := by simp; omega
      simp [h3, h4, h5, h2, cstep]

/-- a frame of the described loop and the reduced frame it behaves like -/
def Rel {α} (c : Option Constraint) (sols : List α) : Frame α → CFrame α → Prop
  | .fresh, g => g = .live (loop c 0 sols)
  | .susp loc evs _ rest, g =>
      (evs = [] ∧ g = .live (loop c loc rest)) ∨ (evs = [.incr 1] ∧ g = .live (loop c (loc + 1) rest))
  | .done, g => g = .dead

theorem advance_ok {α} {s : LoopShape} (hs : ShapeOk s) (truth : α → Bool) (c : Option Constraint) (sols : List α)
    (k attr : Nat) (rest : List α) :
    ∃ g', cstep (.live (loop c k rest)) = ((advance s truth c k attr rest).1, g') ∧
      Rel c sols (advance s truth c k attr rest).2.1 g' ∧ (advance s truth c k attr rest).2.2 = attr := by
  obtain ⟨hc, _, hf, hb, hfin, _⟩ := hs
  cases rest with
  | nil =>
    simp only [advance, hfin, hc, List.filter, notYield, execEvs, rd, atEnd, loop, Nat.add_zero]
    cases assertOpt c k true <;> exact ⟨.dead, rfl, rfl, rfl⟩
  | cons x xs =>
    simp only [advance, hf, keeps, if_true, hc, loop]
    rcases okBodies_cases hb with hb | hb | hb <;> rw [hb] <;>
      simp only [execEvs, rd, wr, Nat.add_zero] <;>
      cases assertOpt c (k + 1) false
    · exact ⟨.dead, rfl, rfl, by simp [atEnd, hc]⟩
    · exact ⟨.live (loop c (k + 1) xs), rfl, Or.inl ⟨rfl, rfl⟩, rfl⟩
    · exact ⟨.dead, rfl, rfl, by simp [atEnd, hc]⟩
    · exact ⟨.live (loop c (k + 1) xs), rfl, Or.inl ⟨rfl, rfl⟩, rfl⟩
    · exact ⟨.dead, rfl, rfl, by simp [atEnd, hc]⟩
    · exact ⟨.live (loop c (k + 1) xs), rfl, Or.inr ⟨rfl, rfl⟩, rfl⟩

theorem step_ok {α} {s : LoopShape} (hs : ShapeOk s) (truth : α → Bool) (c : Option Constraint) (sols : List α)
    (attr : Nat) (f : Frame α) (g : CFrame α) (hR : Rel c sols f g) :
    ∃ g', cstep g = ((step s truth c sols attr f).1, g') ∧
      Rel c sols (step s truth c sols attr f).2.1 g' ∧ (step s truth c sols attr f).2.2 = attr := by
  have hc : s.counter = .frameLocal := hs.1
  have hi : s.init = 0 := hs.2.1
  cases f with
  | done =>
    simp only [Rel] at hR; subst hR
    exact ⟨.dead, rfl, rfl, rfl⟩
  | fresh =>
    simp only [Rel] at hR; subst hR
    simp only [step, hc, hi]
    exact advance_ok hs truth c sols 0 attr sols
  | susp loc evs cur rest =>
    simp only [Rel] at hR
    rcases hR with ⟨he, hg⟩ | ⟨he, hg⟩ <;> subst he <;> subst hg <;> simp only [step, hc, execEvs, rd, wr]
    · exact advance_ok hs truth c sols loc attr rest
    · exact advance_ok hs truth c sols (loc + 1) attr rest

theorem lookup_filter_ne {β} (l : List (Nat × β)) (j i : Nat) (h : i ≠ j) :
    (l.filter (·.1 != j)).lookup i = l.lookup i := by
  induction l with
  | nil => rfl
  | cons e l ih =>
    obtain ⟨k, v⟩ := e
    by_cases hk : k = j
    · subst hk
      have : (i == k) = false := by simp [h]
      simp [List.filter, List.lookup, this, ih]
    · have hk' : (k != j) = true := by simp [hk]
      simp only [List.filter, hk', List.lookup]
      cases i == k <;> simp [ih]

theorem sched_ok {α} {s : LoopShape} (hs : ShapeOk s) (truth : α → Bool) (c : Option Constraint) (sols : List α)
    (js : List Nat) : ∀ (frames : List (Nat × Frame α)) (pos : List (Nat × Nat)) (attr : Nat),
      (∀ j, Rel c sols ((frames.lookup j).getD .fresh) (cafter (run c sols) ((pos.lookup j).getD 0))) →
      interpSched s truth c sols js frames attr = interleaved c sols js pos := by
  induction js with
  | nil => intros; rfl
  | cons j rest ih =>
    intro frames pos attr hinv
    obtain ⟨g', h1, h2, h3⟩ := step_ok hs truth c sols attr _ _ (hinv j)
    rw [cstep_cafter] at h1
    have hobs := (Prod.mk.inj h1).1
    have hg := (Prod.mk.inj h1).2
    simp only [interpSched, interleaved]
    rw [← hobs, h3]
    congr 1
    apply ih
    intro i
    by_cases hij : i = j
    · subst hij
      simp only [List.lookup, beq_self_eq_true, Option.getD_some]
      rw [hg]; exact h2
    · have hb : (i == j) = false := by simp [hij]
      simp only [List.lookup, hb]
      rw [lookup_filter_ne _ _ _ hij, lookup_filter_ne _ _ _ hij]
      exact hinv i

/-- **C09_shape_ok_sched.** Evaluations of ONE query node described by an accepted `LoopShape`, advanced in ANY
interleaved order `js`, whatever the node attribute holds: each evaluation's `p`-th `next()` shows what the `p`-th
`next()` of the model run alone shows (`Quant.interleaved`; the counter is not shared). -/
theorem C09_shape_ok_sched {α} {s : LoopShape} (hs : ShapeOk s) (truth : α → Bool) (c : Option Constraint)
    (sols : List α) (js : List Nat) (attr : Nat) :
    interpSched s truth c sols js [] attr = interleaved c sols js [] := by
  apply sched_ok hs truth c sols js [] [] attr
  intro j
  simp [Rel, cafter, run]

/-! ### `ShapeOk` is not idle: descriptions it refuses, run by the same interpreters, break the property
(concrete witnesses; the observations are the ones the real code showed under the corresponding seeded change) -/

/-- counter kept on the node, reset when an evaluation starts (seeded changes C03-m2, C02-r4m1) -/
def shapeAttrStart : LoopShape := { shape with counter := .attrResetAtStart }
/-- counter kept on the node, reset in a `finally` (seeded change C09-m1) -/
def shapeAttrEnd : LoopShape := { shape with counter := .attrResetAtEnd }

example : ¬ ShapeOk shapeAttrStart ∧ ¬ ShapeOk shapeAttrEnd := by decide

/-- alone, each of them still evaluates like the model … -/
example : interpLoop shapeAttrStart (fun _ => true) (some (.range 2 2)) [0, 1, 2] = run (some (.range 2 2)) [0, 1, 2] := by
  decide

/-- … interleaved they do not: `(histi (range 2 2) 3 1 2 0 0 2 1 1 2 0 1 0)` under C03-m2 showed exactly this -/
example : interpSched shapeAttrStart (fun _ => true) (some (.range 2 2)) [0, 1, 2] [1, 2, 0, 0, 2, 1, 1, 2, 0, 1, 0] [] 0 =
    [(1, .value 0), (2, .value 0), (0, .value 0), (0, .value 1), (2, .finished (.err .greater)),
     (1, .finished (.err .greater)), (1, .exhausted), (2, .exhausted), (0, .finished (.err .greater)), (1, .exhausted),
     (0, .exhausted)] ∧
    interpSched shapeAttrStart (fun _ => true) (some (.range 2 2)) [0, 1, 2] [1, 2, 0, 0, 2, 1, 1, 2, 0, 1, 0] [] 0 ≠
      interleaved (some (.range 2 2)) [0, 1, 2] [1, 2, 0, 0, 2, 1, 1, 2, 0, 1, 0] [] := by decide

/-- `(histi (atMost 3) 2 1 2 2 0 2 2)` under C09-m1 -/
example : interpSched shapeAttrEnd (fun _ => true) (some (.atMost 3)) [0, 1] [1, 2, 2, 0, 2, 2] [] 0 =
    [(1, .value 0), (2, .value 0), (2, .value 1), (0, .finished (.err .greater)), (2, .finished .ok), (2, .exhausted)] ∧
    interleaved (some (.atMost 3)) [0, 1] [1, 2, 2, 0, 2, 2] [] =
    [(1, .value 0), (2, .value 0), (2, .value 1), (0, .value 0), (2, .finished .ok), (2, .exhausted)] := by decide

/-- the upper bound only looked at after the loop (body without incremental check): one result too many is yielded -/
example : interpLoop { shape with body := [.incr 1, .yield] } (fun _ => true) (some (.atMost 1)) [7, 8, 9] =
    ([7, 8, 9], .err .greater) ∧ spec (some (.atMost 1)) [7, 8, 9] = ([7], .err .greater) := by decide

/-- the check placed after the yield: the result that exceeds the bound is handed out before the error -/
example : interpLoop { shape with body := [.incr 1, .yield, .check 0 false] } (fun _ => true) (some (.atMost 1)) [7, 8, 9] =
    ([7, 8], .err .greater) := by decide

/-- only results flagged true are counted (seeded change C09-r3m1): solutions carried by results flagged false vanish -/
example : interpLoop { shape with filter := .onlyTrue } (fun x => x != 0) (some (.atLeast 2)) [3, 0] = ([3], .err .less) ∧
    spec (some (.atLeast 2)) [3, 0] = ([3, 0], .ok) := by decide

/-- the renaming of the count errors moved to `The.evaluate` (seeded change C09-r4m2): right at the root, wrong as an
operand -/
example : let s : LoopShape := { shape with the := { shape.the with site := .outer } }
    interpThe s (fun _ => true) false ([] : List Nat) = .raised .noSolution ∧
    interpThe s (fun _ => true) true ([] : List Nat) = .raised .less ∧
    interpThe s (fun _ => true) true [1, 2] = .raised .greater := by decide

end KrroodVerif.Quant
