import KrroodVerif.Props.C18
import KrroodVerif.Props.C19
/-!
# C18 — second tie: the dispatch tables of `to_json` / `from_json`

`Json.tables` (Model/Json.lean) is the decision structure of module-level `to_json`, of the head of
`SubclassJSONSerializer.from_json`, the composition of the type tag, the tag-resolution stages (C19's `stageTable`) and
the registry lookup rule, as first-order DATA. `toJsonT` / `fromJsonT` interpret such tables.

* `C18_toJson_eq_interp`, `C18_fromJson_eq_interp`: on the table of the code as it is the interpreters ARE the
  hand-written model `toJson` / `serializable` / `fromJson` — for every environment and every value / JSON tree. So all
  C18 theorems speak about the interpreted table.
* `C18_interp_of_dispatch_eq`: the interpreters depend on a table only through its `dispatch` (the action per kind), so
  the regenerated obligation `Translated.tables.dispatch = tables.dispatch` (by `decide`) carries every theorem over
  to the table read off the current source (`C18_of_dispatch_eq`).
* `C18_roundtrips_of_wellformed`: ANY table satisfying the decidable predicate `RoundTrips` round-trips every
  well-formed value (unbounded: any depth, any classes, every environment). The regenerated obligation
  `RoundTrips Translated.tables = true` (by `decide`) re-proves C18_roundtrip for the current source without going
  through table equality.
-/
namespace KrroodVerif.Json

/-! ### What `goodTo` / `goodFrom` say, as propositions -/

structure GoodTo (sel : Kind → Action) : Prop where
  none : sel .none = .self
  bool : sel .bool = .self
  int : sel .int = .self
  float : sel .float = .self
  str : sel .str = .self
  list : sel .list = .mapRec
  serObj : sel .serObj = .method
  serRegObj : sel .serRegObj = .method
  regObj : sel .regObj = .registry

structure GoodFrom (sel : Kind → Action) : Prop where
  none : sel .none = .self
  bool : sel .bool = .self
  int : sel .int = .self
  float : sel .float = .self
  str : sel .str = .self
  list : sel .list = .mapRec
  dict : sel .dict = .resolve

theorem goodTo_iff (sel : Kind → Action) : goodTo sel = true ↔ GoodTo sel := by
  constructor
  · intro h
    simp only [goodTo, Bool.and_eq_true, beq_iff_eq] at h
    obtain ⟨⟨⟨⟨⟨⟨⟨⟨h1, h2⟩, h3⟩, h4⟩, h5⟩, h6⟩, h7⟩, h8⟩, h9⟩ := h
    exact ⟨h1, h2, h3, h4, h5, h6, h7, h8, h9⟩
  · intro h
    simp [goodTo, h.none, h.bool, h.int, h.float, h.str, h.list, h.serObj, h.serRegObj, h.regObj]

theorem goodFrom_iff (sel : Kind → Action) : goodFrom sel = true ↔ GoodFrom sel := by
  constructor
  · intro h
    simp only [goodFrom, Bool.and_eq_true, beq_iff_eq] at h
    obtain ⟨⟨⟨⟨⟨⟨h1, h2⟩, h3⟩, h4⟩, h5⟩, h6⟩, h7⟩ := h
    exact ⟨h1, h2, h3, h4, h5, h6, h7⟩
  · intro h
    simp [goodFrom, h.none, h.bool, h.int, h.float, h.str, h.list, h.dict]

theorem composeTag_std (c : Cls) : composeTag stdTag c = some c.fullName := by
  simp [composeTag, stdTag, Cls.fullName, String.append_assoc]

/-! ### The from-side interpreter is the model, for every dispatch that is good and every stage table that is a
resolver -/

section From
set_option linter.unusedSectionVars false
variable (sel : Kind → Action) (hs : GoodFrom sel) (st : StageTable) (q : Quirks) (env : Env)
  (hst : ∀ tag, interp st env tag = some (resolve q env tag))
include hs hst

mutual
theorem fromWith_val : ∀ j : Json, fromJsonWith sel st true env j = liftErr (fromJson q env j)
  | .null => by simp [fromJsonWith, fromJson, liftErr, hs.none]
  | .bool _ => by simp [fromJsonWith, fromJson, liftErr, hs.bool]
  | .int _ => by simp [fromJsonWith, fromJson, liftErr, hs.int]
  | .float _ => by simp [fromJsonWith, fromJson, liftErr, hs.float]
  | .str _ => by simp [fromJsonWith, fromJson, liftErr, hs.str]
  | .arr xs => by
    have ih := fromWith_list xs
    simp only [fromJsonWith, hs.list, ih, fromJson]
    cases fromJsonList q env xs <;> rfl
  | .obj kvs => by
    have ih := fromWith_fields kvs
    simp only [fromJsonWith, hs.dict, if_true, hst, fromJson]
    cases resolve q env (lookup tagKey kvs) with
    | err e => rfl
    | escape x => rfl
    | dispatch c via =>
      cases via with
      | fromJson =>
        simp only [ih]
        cases fromJsonFields q env kvs <;> rfl
      | registry =>
        dsimp only
        cases lookup (env.payloadKey c) kvs with
        | none => rfl
        | some j => cases j <;> rfl
theorem fromWith_list : ∀ js : List Json, fromJsonListWith sel st true env js = liftErr (fromJsonList q env js)
  | [] => rfl
  | x :: xs => by
    have ih1 := fromWith_val x
    have ih2 := fromWith_list xs
    simp only [fromJsonListWith, ih1, ih2, fromJsonList]
    cases fromJson q env x with
    | error e => rfl
    | ok y => cases fromJsonList q env xs <;> rfl
theorem fromWith_fields :
    ∀ kvs : List (String × Json), fromJsonFieldsWith sel st true env kvs = liftErr (fromJsonFields q env kvs)
  | [] => rfl
  | (k, v) :: r => by
    have ih1 := fromWith_val v
    have ih2 := fromWith_fields r
    simp only [fromJsonFieldsWith, ih1, ih2, fromJsonFields]
    by_cases hk : k = tagKey
    · simp [hk]
    · simp only [hk, if_false]
      cases fromJson q env v with
      | error e => rfl
      | ok y => cases fromJsonFields q env r <;> rfl
end
end From

/-! ### The to-side interpreter is the model -/

section To
set_option linter.unusedSectionVars false
variable (sel : Kind → Action) (hs : GoodTo sel) (env : Env)
include hs

mutual
/-- on well-formed values (only the kinds of the grammar are consulted) -/
theorem toWith_val_wf : ∀ v : PyVal, wf env v = true → toJsonWith sel stdTag true env v = .ok (toJson env v)
  | .none, _ => by simp [toJsonWith, toJson, hs.none]
  | .bool _, _ => by simp [toJsonWith, toJson, hs.bool]
  | .int _, _ => by simp [toJsonWith, toJson, hs.int]
  | .float _, _ => by simp [toJsonWith, toJson, hs.float]
  | .str _, _ => by simp [toJsonWith, toJson, hs.str]
  | .ext c p, h => by
    have hser := serializable_of_wf env (.ext c p) h
    have hr : regExact env c = true := by simpa [serializable, regExact] using hser
    simp [toJsonWith, toJson, hr, hs.regObj]
  | .list xs, h => by
    have hl : wfList env xs = true := by simpa [wf] using h
    simp [toJsonWith, toJson, hs.list, toWith_list_wf xs hl]
  | .obj c fs, h => by
    have h' : resolvable env c true = true ∧ wfFields env fs = true := by simpa [wf] using h
    cases hr : regExact env c <;> simp [toJsonWith, toJson, hr, hs.serObj, hs.serRegObj, composeTag_std, toWith_fields_wf fs h'.2]
theorem toWith_list_wf :
    ∀ xs : List PyVal, wfList env xs = true → toJsonListWith sel stdTag true env xs = .ok (toJsonList env xs)
  | [], _ => rfl
  | x :: xs, h => by
    have h' : wf env x = true ∧ wfList env xs = true := by simpa [wfList] using h
    simp [toJsonListWith, toJsonList, toWith_val_wf x h'.1, toWith_list_wf xs h'.2]
theorem toWith_fields_wf : ∀ fs : List (String × PyVal), wfFields env fs = true →
    toJsonFieldsWith sel stdTag true env fs = .ok (toJsonFields env fs)
  | [], _ => rfl
  | (k, v) :: r, h => by
    have h' : (k ≠ tagKey ∧ wf env v = true) ∧ wfFields env r = true := by simpa [wfFields] using h
    simp [toJsonFieldsWith, toJsonFields, toWith_val_wf v h'.1.2, toWith_fields_wf r h'.2]
end

variable (ho : sel .other = .raiseNotSerializable)
include ho

/-- what the model says `to_json` does on ANY value: the serialised form, or ClassNotSerializableError -/
def toSpec (env : Env) (v : PyVal) : Except TErr Json :=
  if serializable env v then .ok (toJson env v) else .error .notSerializable

mutual
theorem toWith_val : ∀ v : PyVal, toJsonWith sel stdTag true env v = toSpec env v
  | .none => by simp [toJsonWith, toJson, toSpec, serializable, hs.none]
  | .bool _ => by simp [toJsonWith, toJson, toSpec, serializable, hs.bool]
  | .int _ => by simp [toJsonWith, toJson, toSpec, serializable, hs.int]
  | .float _ => by simp [toJsonWith, toJson, toSpec, serializable, hs.float]
  | .str _ => by simp [toJsonWith, toJson, toSpec, serializable, hs.str]
  | .ext c p => by
    have hr : serializable env (.ext c p) = regExact env c := by simp [serializable, regExact]
    cases h : regExact env c <;> simp [toJsonWith, toJson, toSpec, hr, h, hs.regObj, ho]
  | .list xs => by
    have ih := toWith_list xs
    simp only [toJsonWith, hs.list, ih, toSpec, serializable, toJson]
    by_cases h : serializableList env xs = true <;> simp [h]
  | .obj c fs => by
    have ih := toWith_fields fs
    cases hr : regExact env c <;>
    simp only [toJsonWith, hr, if_true, Bool.false_eq_true, if_false, hs.serObj, hs.serRegObj, composeTag_std, ih, toSpec,
      serializable, toJson] <;>
    by_cases h : serializableFields env fs = true <;> simp [h]
theorem toWith_list : ∀ xs : List PyVal, toJsonListWith sel stdTag true env xs =
    (if serializableList env xs then .ok (toJsonList env xs) else .error .notSerializable)
  | [] => rfl
  | x :: xs => by
    have ih1 := toWith_val x
    have ih2 := toWith_list xs
    simp only [toJsonListWith, ih1, ih2, toSpec, serializableList, toJsonList]
    by_cases h1 : serializable env x = true <;> by_cases h2 : serializableList env xs = true <;> simp [h1, h2]
theorem toWith_fields : ∀ fs : List (String × PyVal), toJsonFieldsWith sel stdTag true env fs =
    (if serializableFields env fs then .ok (toJsonFields env fs) else .error .notSerializable)
  | [] => rfl
  | (k, v) :: r => by
    have ih1 := toWith_val v
    have ih2 := toWith_fields r
    simp only [toJsonFieldsWith, ih1, ih2, toSpec, serializableFields, toJsonFields]
    by_cases h1 : serializable env v = true <;> by_cases h2 : serializableFields env r = true <;> simp [h1, h2]
end
end To

/-! ### The table of the code as it is -/

theorem tables_goodTo : GoodTo tables.toSel := (goodTo_iff _).1 (by decide)
theorem tables_goodFrom : GoodFrom tables.fromSel := (goodFrom_iff _).1 (by decide)

/-- **C18_toJson_eq_interp.** For every environment and EVERY value (well-formed or not): interpreting the to-side of the
table of the code as it is gives the hand-written model — the serialised form `toJson env v` where the model says the
value is serialisable, ClassNotSerializableError where it says it is not; the interpreter is never stuck. -/
theorem C18_toJson_eq_interp (env : Env) (v : PyVal) :
    toJsonT tables env v = if serializable env v then .ok (toJson env v) else .error .notSerializable :=
  toWith_val tables.toSel tables_goodTo env (by decide) v

/-- **C18_fromJson_eq_interp.** For every environment and EVERY decoded JSON tree: interpreting the from-side of the table
of the code as it is (leaf / list rules, then the stage table of C19) gives exactly the result of the hand-written
`fromJson` under the quirk setting of the code as it is; never stuck. -/
theorem C18_fromJson_eq_interp (env : Env) (j : Json) :
    fromJsonT tables env j = liftErr (fromJson .current env j) :=
  fromWith_val tables.fromSel tables_goodFrom stageTable .current env (resolve_eq_interp env) j

/-! ### The interpreters see a table only through its dispatch -/

theorem sel_eq_of_map_eq (f g : Kind → Action) (h : Kind.all.map f = Kind.all.map g) : f = g := by
  funext k
  simp only [Kind.all, List.map_cons, List.map_nil, List.cons.injEq, and_true] at h
  obtain ⟨h1, h2, h3, h4, h5, h6, h7, h8, h9, h10, h11, h12, h13, h14, h15, h16⟩ := h
  cases k <;> assumption

/-- **C18_interp_of_dispatch_eq.** Two tables with the same dispatch (same action for every kind, same tag parts, same
stages, same lookup rules) are interpreted alike on every value: rule lists may be written in any way that decides
every kind alike. -/
theorem C18_interp_of_dispatch_eq (T T' : Tables) (h : T.dispatch = T'.dispatch) :
    toJsonT T = toJsonT T' ∧ fromJsonT T = fromJsonT T' := by
  simp only [Tables.dispatch, Dispatch.mk.injEq] at h
  obtain ⟨h1, h2, h3, h4, h5, h6, _⟩ := h
  have e1 := sel_eq_of_map_eq _ _ h1
  have e2 := sel_eq_of_map_eq _ _ h2
  constructor
  · funext env v; simp only [toJsonT, e1, h3, h5]
  · funext env j; simp only [fromJsonT, e2, h4, h6]

/-! ### Any well-formed table round-trips -/

/-- **C18_roundtrips_of_wellformed.** For ANY table `T` that satisfies the decidable predicate `RoundTrips`, every
environment and every well-formed value (any depth, any classes): serialising with the table succeeds and
deserialising the result with the table gives back exactly the value (same structure, same leaves, every object an
instance of exactly its original class). -/
theorem C18_roundtrips_of_wellformed (T : Tables) (hT : RoundTrips T = true) (env : Env) (v : PyVal)
    (hw : wf env v = true) :
    ∃ j, toJsonT T env v = .ok j ∧ fromJsonT T env j = .ok v := by
  simp only [RoundTrips, Bool.and_eq_true, Bool.or_eq_true, beq_iff_eq] at hT
  obtain ⟨⟨⟨⟨⟨⟨hto, hfrom⟩, htag⟩, hst⟩, hsl⟩, hdl⟩, _⟩ := hT
  have gto := (goodTo_iff _).1 hto
  have gfrom := (goodFrom_iff _).1 hfrom
  refine ⟨toJson env v, ?_, ?_⟩
  · simp only [toJsonT, htag, hsl, beq_self_eq_true]
    exact toWith_val_wf T.toSel gto env v hw
  · simp only [fromJsonT, hdl, beq_self_eq_true]
    rcases hst with hst | hst
    · rw [hst, fromWith_val T.fromSel gfrom stageTable .current env (resolve_eq_interp env),
        C18_roundtrip .current env v hw]; rfl
    · rw [hst, fromWith_val T.fromSel gfrom stageTableAsFound .all env (asFound_eq_interp env),
        C18_roundtrip .all env v hw]; rfl

/-- the table of the code as it is is well-formed -/
theorem tables_roundTrips : RoundTrips tables = true := by decide

/-- **C18_of_dispatch_eq.** Whatever table has the dispatch of the model's table inherits the identification with the
hand-written model (hence every C18 theorem) and the round trip (used by the generated obligation). -/
theorem C18_of_dispatch_eq (T : Tables) (h : T.dispatch = tables.dispatch) (env : Env) :
    (∀ v, toJsonT T env v = if serializable env v then .ok (toJson env v) else .error .notSerializable) ∧
    (∀ j, fromJsonT T env j = liftErr (fromJson .current env j)) ∧
    (∀ v, wf env v = true → ∃ j, toJsonT T env v = .ok j ∧ fromJsonT T env j = .ok v) := by
  obtain ⟨e1, e2⟩ := C18_interp_of_dispatch_eq T tables h
  rw [e1, e2]
  exact ⟨C18_toJson_eq_interp env, C18_fromJson_eq_interp env,
    fun v hw => C18_roundtrips_of_wellformed tables tables_roundTrips env v hw⟩

/-- a registered pair the module ships (`uuid.UUID`) that passes `Builtin.ok` is mutually inverse on its payload: what
the deserializer reads under its key from what the serializer wrote is the payload, and the tag is not disturbed -/
theorem C18_builtin_pair_inverse (b : Builtin) (hb : b.ok = true) (tag p : String) :
    lookup b.deserKey [(tagKey, .str tag), (b.serKey, .str p)] = some (.str p) ∧
    lookup tagKey [(tagKey, .str tag), (b.serKey, .str p)] = some (.str tag) := by
  simp only [Builtin.ok, Bool.and_eq_true, beq_iff_eq, bne_iff_ne, ne_eq] at hb
  obtain ⟨⟨hk, hne⟩, _⟩ := hb
  have : ¬ tagKey = b.deserKey := fun e => hne (by rw [hk, e])
  simp [lookup, hk, this]

/-! ### Non-vacuity and sensitivity (tests) -/

/-- harmless rewrites have the same dispatch: `leaf_types` in another order, the list test before the leaf test, the
leaf test split in two, `type(x) is` tests added in front, the registry branch written `if s: return s(obj)` -/
def tablesRewritten : Tables :=
  { tables with
    toRules :=
      [ ⟨.isinstance listLike, .mapRec⟩,
        ⟨.typeIs [.bool], .self⟩,
        ⟨.isinstance [.noneType, .bool, .str], .self⟩,
        ⟨.or (.isinstance [.float]) (.isinstance [.int]), .self⟩,
        ⟨.isinstance [.serializer], .method⟩,
        ⟨.not .registered, .raiseNotSerializable⟩,
        ⟨.always, .registry⟩ ] }
example : tablesRewritten.dispatch = tables.dispatch := by decide

/-- a table that differs from the model's outside the grammar (dicts are serialised as leaves, tuples rejected, the
as-found resolver) is not the model's dispatch but still round-trips -/
def tablesOther : Tables :=
  { tables with
    toRules := ⟨.isinstance [.dict], .self⟩ :: ⟨.isinstance [.tuple], .raiseNotSerializable⟩ :: tables.toRules
    stages := stageTableAsFound }
example : tablesOther.dispatch ≠ tables.dispatch ∧ RoundTrips tablesOther = true := by decide
example : ∃ j, toJsonT tablesOther exEnv exVal = .ok j ∧ fromJsonT tablesOther exEnv j = .ok exVal :=
  C18_roundtrips_of_wellformed _ (by decide) _ _ (by decide)

/-- the semantic mutations: each is rejected by `RoundTrips` -/
-- bool tested after int, with coercion to the matching leaf type (seeded C18-r5m2)
example : RoundTrips { tables with toRules :=
    [⟨.typeIs [.int], .self⟩, ⟨.isinstance [.int], .coerce .int⟩, ⟨.typeIs [.bool], .self⟩] ++ tables.toRules } = false := by
  decide
-- tuples (and lists) handled as leaves
example : RoundTrips { tables with toRules := ⟨.isinstance [.list, .tuple], .self⟩ :: tables.toRules } = false := by decide
-- the tag without the module
example : RoundTrips { tables with tag := [.name] } = false := by decide
-- the tag from `__qualname__`
example : RoundTrips { tables with tag := [.module, .lit ".", .qualname] } = false := by decide
-- registry lookup by isinstance in registration order
example : RoundTrips { tables with serLookup := .isinstanceOrder } = false := by decide
-- no `obj.to_json()` branch
example : RoundTrips { tables with toRules := [⟨.isinstance leafTypes, .self⟩, ⟨.isinstance listLike, .mapRec⟩,
    ⟨.registered, .registry⟩, ⟨.always, .raiseNotSerializable⟩] } = false := by decide
-- the registry consulted before `obj.to_json()`: a serializer class that is also registered goes through the registry
example : RoundTrips { tables with toRules := [⟨.isinstance leafTypes, .self⟩, ⟨.isinstance listLike, .mapRec⟩,
    ⟨.registered, .registry⟩, ⟨.isinstance [.serializer], .method⟩, ⟨.always, .raiseNotSerializable⟩] } = false := by decide
-- from_json: strings are not leaves
example : RoundTrips { tables with fromRules := ⟨.isinstance [.str], .resolve⟩ :: tables.fromRules } = false := by decide
-- the shipped UUID pair writes and reads different keys
example : RoundTrips { tables with builtins := [⟨"uuid.UUID", "value", "hex", true⟩] } = false := by decide

/-- what the interpreter does with such tables on concrete values: `True` comes out as `1`; a dict-as-leaf table is stuck
on nothing of the grammar -/
example : toJsonT { tables with toRules := ⟨.isinstance [.serializer], .raiseNotSerializable⟩ :: tables.toRules }
    exEnv exVal = .error .notSerializable := by rfl
example : toJsonT tables exEnv (.ext ⟨"k9", "m.sub", "Nope"⟩ "p") = .error .notSerializable := by
  rw [C18_toJson_eq_interp, if_neg (by decide)]
example : dispatchK .exact [⟨.isinstance [.int], .coerce .int⟩, ⟨.isinstance [.bool], .self⟩] .bool = .coerce .int := by
  decide
example : dispatchK .mro tables.toRules .regSubObj = .registry ∧
    dispatchK .exact tables.toRules .regSubObj = .raiseNotSerializable := by decide

end KrroodVerif.Json
