import KrroodVerif.Props.C06
import KrroodVerif.Model.OrmDispatch
/-!
# C06 — second tie by translation: the kind dispatch and the mapper-argument rules as tables

`Model/OrmDispatch.lean` turns `WrappedTable.parse_field` and `WrappedTable.create_mapper_args` into tables with an
interpreter. Proved here, once:

* `genField_eq_interp`, `generate_eq_interp`: the hand-written model (`parseField`, `generate` — the functions every C06
  theorem is about) IS the interpreter run on the pinned tables;
* `C06_generateT_eq_of_ok`: for ANY tables with `DispatchOk` and `MapperOk` (both decidable, finite) the generator built
  on them equals the model's on every class model, hence
* `C06_complete_of_tables`, `C06_full_of_tables`, `C06_spec_of_tables`, `C06_perm_invariant_of_tables`,
  `C06_inherit_condition_of_rules`: the property theorems for the generator built on such tables;
* `C06_generateT_ext` + `dispatchExtEq_sound` / `mapperExtEq_sound`: only the decision FUNCTION of a table matters, and
  equality of decision functions is a finite check (2⁹ resp. 2³ vectors).

On every run `harness/translate/c06_translate.py` regenerates the two tables from the current Python AST and the kernel
re-checks `dispatchExtEq Translated.dispatch dispatch`, `mapperExtEq Translated.mapperRules mapperRules`,
`DispatchOk Translated.dispatch`, `MapperOk Translated.mapperRules` by `decide` (finite tables) and instantiates
`C06_of_translated_tables`.
-/
namespace KrroodVerif.OrmGen

theorem Shape.mem_all (s : Shape) : s ∈ Shape.all := by
  cases s with
  | scalar o => cases o <;> decide
  | datetime o => cases o <;> decide
  | enum o => cases o <;> decide
  | jsonList => decide
  | ref a o => cases a <;> cases o <;> decide
  | coll a => cases a <;> decide
  | custom o => cases o <;> decide
  | customList => decide
  | typeType a => cases a <;> decide

/-- the predicate vector of a field of the grammar is the vector of its shape -/
theorem factsOf_eq_shape (m : ClassModel) (k : Kind) : factsOf m k = (shapeOf m k).facts := by
  cases k <;> rfl

/-- the pinned decision list decides every shape of the grammar as the property demands -/
theorem dispatch_ok : DispatchOk dispatch := by decide

/-- the pinned mapper-argument rules set the four switches as the property demands -/
theorem mapperRules_ok : MapperOk mapperRules := by decide

theorem interp_of_ok {t : DispatchTable} (h : DispatchOk t) (m : ClassModel) (k : Kind) :
    interpDispatch t (factsOf m k) = (shapeOf m k).action := by
  rw [factsOf_eq_shape]; exact h _ (Shape.mem_all _)

theorem parseField_eq_action (m : ClassModel) (c : Class) (f : Field) :
    parseField m c f = emitAttrs m (shapeOf m f.kind).action c f := by
  obtain ⟨n, k⟩ := f
  cases k with
  | scalar s o => simp [parseField, shapeOf, Shape.action, emitAttrs, Kind.opt, Kind.endpointModule]
  | enum o => simp [parseField, shapeOf, Shape.action, emitAttrs, Kind.opt, Kind.endpointModule]
  | datetime o => simp [parseField, shapeOf, Shape.action, emitAttrs, Kind.opt, Kind.endpointModule]
  | jsonList s => simp [parseField, shapeOf, Shape.action, emitAttrs]
  | ref t o =>
    by_cases hm : mapped m t = true
    · cases o <;> simp [parseField, shapeOf, Shape.action, emitAttrs, Kind.opt, Kind.target, hm]
    · have hm' : mapped m t = false := by simpa using hm
      simp [parseField, shapeOf, Shape.action, emitAttrs, hm']
  | coll t =>
    by_cases hm : mapped m t = true
    · simp [parseField, shapeOf, Shape.action, emitAttrs, Kind.target, hm]
    · have hm' : mapped m t = false := by simpa using hm
      simp [parseField, shapeOf, Shape.action, emitAttrs, Kind.target, hm']
  | custom o => simp [parseField, shapeOf, Shape.action, emitAttrs, Kind.opt]

theorem assocOf_eq_action (q : Quirks) (m : ClassModel) (c : Class) (f : Field) :
    assocOf q m c f = emitAssocs q m (shapeOf m f.kind).action c f := by
  obtain ⟨n, k⟩ := f
  cases k with
  | coll t =>
    by_cases hm : mapped m t = true
    · simp [assocOf, shapeOf, Shape.action, emitAssocs, Kind.target, hm]
    · have hm' : mapped m t = false := by simpa using hm
      simp [assocOf, shapeOf, Shape.action, emitAssocs, Kind.target, hm']
  | ref t o => cases hm : mapped m t <;> simp [assocOf, shapeOf, Shape.action, emitAssocs, Kind.target, hm]
  | _ => simp [assocOf, shapeOf, Shape.action, emitAssocs, Kind.target]

theorem fieldImports_eq_action (m : ClassModel) (f : Field) :
    fieldImports f = emitImports (shapeOf m f.kind).action f := by
  obtain ⟨n, k⟩ := f
  cases k with
  | ref t o => cases hm : mapped m t <;> simp [fieldImports, shapeOf, Shape.action, emitImports, hm]
  | _ => simp [fieldImports, shapeOf, Shape.action, emitImports, Kind.endpointModule]

theorem fieldCrashes_eq_action (m : ClassModel) (f : Field) :
    fieldCrashes m f = emitCrashes m (shapeOf m f.kind).action f := by
  obtain ⟨n, k⟩ := f
  cases k with
  | ref t o => cases hm : mapped m t <;> simp [fieldCrashes, shapeOf, Shape.action, emitCrashes, Kind.target, hm]
  | _ => simp [fieldCrashes, shapeOf, Shape.action, emitCrashes, Kind.target]

/-- `genField_eq_interp`: the hand-written kind dispatch IS the interpreter run on the pinned decision list -/
theorem genField_eq_interp (m : ClassModel) (c : Class) (f : Field) :
    parseField m c f = parseFieldT dispatch m c f := by
  rw [parseField_eq_action, parseFieldT, interp_of_ok dispatch_ok]

/-- under `DispatchOk` the generator pieces built on a table are the model's -/
theorem parseFieldT_eq {t : DispatchTable} (h : DispatchOk t) (m : ClassModel) (c : Class) (f : Field) :
    parseFieldT t m c f = parseField m c f := by
  rw [parseField_eq_action, parseFieldT, interp_of_ok h]

theorem assocOfT_eq {t : DispatchTable} (h : DispatchOk t) (q : Quirks) (m : ClassModel) (c : Class) (f : Field) :
    assocOfT t q m c f = assocOf q m c f := by
  rw [assocOf_eq_action, assocOfT, interp_of_ok h]

theorem fieldImportsT_eq {t : DispatchTable} (h : DispatchOk t) (m : ClassModel) (f : Field) :
    fieldImportsT t m f = fieldImports f := by
  rw [fieldImports_eq_action m, fieldImportsT, interp_of_ok h]

theorem fieldCrashesT_eq {t : DispatchTable} (h : DispatchOk t) (m : ClassModel) (f : Field) :
    fieldCrashesT t m f = fieldCrashes m f := by
  rw [fieldCrashes_eq_action, fieldCrashesT, interp_of_ok h]

theorem bool_mem (b : Bool) : b ∈ [false, true] := by cases b <;> simp

theorem genTableT_eq {t : DispatchTable} {r : MapperRules} (ht : DispatchOk t) (hr : MapperOk r)
    (m : ClassModel) (c : Class) : genTableT t r m c = genTable m c := by
  have h := hr (parentOf m c).isSome (bool_mem _) (hasChildren m c) (bool_mem _)
  simp only at h
  obtain ⟨h1, h2, h3, _⟩ := h
  have hf : (fun f => parseFieldT t m c f) = parseField m c := funext (parseFieldT_eq ht m c)
  unfold genTableT genTable mapperOf
  simp only [h1, h2, h3]
  have : parseFieldT t m c = parseField m c := hf
  rw [this]
  cases hp : (parentOf m c).isSome <;> cases hc : hasChildren m c <;> simp_all

theorem C06_generateT_eq_of_ok {t : DispatchTable} {r : MapperRules} (ht : DispatchOk t) (hr : MapperOk r)
    (q : Quirks) (m : ClassModel) : generateT t r q m = generate q m := by
  have h1 : genTableT t r m = genTable m := funext (genTableT_eq ht hr m)
  have h2 : ∀ c, assocOfT t q m c = assocOf q m c := fun c => funext (assocOfT_eq ht q m c)
  have h3 : fieldImportsT t m = fieldImports := funext (fieldImportsT_eq ht m)
  have h4 : fieldCrashesT t m = fieldCrashes m := funext (fieldCrashesT_eq ht m)
  unfold generateT generate importsT imports
  simp only [h1, h2, h3, h4]

/-- `generate_eq_interp`: the model's generator is the table-driven generator on the pinned tables -/
theorem generate_eq_interp (q : Quirks) (m : ClassModel) : generate q m = generateT dispatch mapperRules q m :=
  (C06_generateT_eq_of_ok dispatch_ok mapperRules_ok q m).symm

/-! ## the property theorems for the generator built on ANY tables that pass the two finite checks -/

/-- **C06 (completeness, by table)**: one DAO per class mirroring the base chain, every public field mapped with the
right kind on the DAO of the class that introduces it, nothing for `_`-fields — for the generator driven by any decision
list with `DispatchOk` and any mapper rules with `MapperOk`. -/
theorem C06_complete_of_tables {t : DispatchTable} {r : MapperRules} (ht : DispatchOk t) (hr : MapperOk r)
    (q : Quirks) (m : ClassModel) (wf : WF m) : Complete m (generateT t r q m) := by
  rw [C06_generateT_eq_of_ok ht hr]; exact C06_complete q m wf

/-- **C06 (validity, by table)** -/
theorem C06_full_of_tables {t : DispatchTable} {r : MapperRules} (ht : DispatchOk t) (hr : MapperOk r)
    (m : ClassModel) (wf : WF m) : Valid (generateT t r Quirks.none m) := by
  rw [C06_generateT_eq_of_ok ht hr]; exact C06_full m wf

/-- **C06 (model = specification, by table)**: the schema facts observed of the table-driven generator are those the
specification reads off the dataclasses. -/
theorem C06_spec_of_tables {t : DispatchTable} {r : MapperRules} (ht : DispatchOk t) (hr : MapperOk r)
    (q : Quirks) (m : ClassModel) (wf : WF m) : observe (generateT t r q m) = Spec.expected m := by
  rw [C06_generateT_eq_of_ok ht hr]; exact C06_model_meets_spec q m wf

/-- **C06 (determinism, by table)** -/
theorem C06_perm_invariant_of_tables {t : DispatchTable} {r : MapperRules} (ht : DispatchOk t) (hr : MapperOk r)
    (q : Quirks) (m m' : ClassModel) (hn : (m.map (·.name)).Nodup) (hp : m.Perm m') :
    (generateT t r q m).tables.Perm (generateT t r q m').tables ∧
    (generateT t r q m).assocs.Perm (generateT t r q m').assocs ∧
    (generateT t r q m).imports.Perm (generateT t r q m').imports ∧
    (generateT t r q m).crashed = (generateT t r q m').crashed := by
  rw [C06_generateT_eq_of_ok ht hr, C06_generateT_eq_of_ok ht hr]; exact C06_perm_invariant q m m' hn hp

/-- **C06 (explicit join condition)**: under `MapperOk` every DAO that has a parent DAO carries an explicit
`inherit_condition` — whatever references exist between a class and its ancestors or descendants (a reference from a
class to its own subclass adds a second foreign-key path between the two tables; without the explicit condition
SQLAlchemy cannot choose the join: `AmbiguousForeignKeysError`). -/
theorem C06_inherit_condition_of_rules {r : MapperRules} (hr : MapperOk r) (m : ClassModel) :
    inheritConditionsGiven r m = true := by
  unfold inheritConditionsGiven
  rw [List.all_eq_true]
  intro c _
  have h := hr (parentOf m c).isSome (bool_mem _) (hasChildren m c) (bool_mem _)
  simp only at h
  obtain ⟨_, _, _, h4⟩ := h
  unfold mapperOf
  cases hp : (parentOf m c).isSome
  · simp
  · simp only [hp] at h4; simpa using h4

/-- the decision function is all that matters: tables with the same interpretation drive the same generator (of the
mapper rules only WHICH entries are emitted matters, not their order) -/
theorem C06_generateT_ext {t u : DispatchTable} {r s : MapperRules}
    (hd : ∀ v, interpDispatch t v = interpDispatch u v)
    (hm : ∀ v e, (interpMapper r v).contains e = (interpMapper s v).contains e)
    (q : Quirks) (m : ClassModel) : generateT t r q m = generateT u s q m := by
  have h1 : interpDispatch t = interpDispatch u := funext hd
  unfold generateT importsT genTableT mapperOf parseFieldT assocOfT fieldImportsT fieldCrashesT
  simp only [h1, hm]

/-- extensional equality of two decision lists is decidable: 2⁹ fact vectors -/
def dispatchExtEq (t u : DispatchTable) : Bool :=
  [false, true].all fun a => [false, true].all fun b => [false, true].all fun c => [false, true].all fun d =>
  [false, true].all fun e => [false, true].all fun f => [false, true].all fun g => [false, true].all fun h =>
  [false, true].all fun i => interpDispatch t ⟨a, b, c, d, e, f, g, h, i⟩ == interpDispatch u ⟨a, b, c, d, e, f, g, h, i⟩

theorem dispatchExtEq_sound {t u : DispatchTable} (h : dispatchExtEq t u = true) (v : Facts) :
    interpDispatch t v = interpDispatch u v := by
  obtain ⟨a, b, c, d, e, f, g, h', i⟩ := v
  simp only [dispatchExtEq, List.all_eq_true] at h
  exact eq_of_beq (h a (bool_mem a) b (bool_mem b) c (bool_mem c) d (bool_mem d) e (bool_mem e) f (bool_mem f)
    g (bool_mem g) h' (bool_mem h') i (bool_mem i))

def MapperEmit.all : List MapperEmit := [.polyColumn, .polyOn, .polyIdentitySelf, .inheritCondition]

theorem MapperEmit.mem_all (e : MapperEmit) : e ∈ MapperEmit.all := by cases e <;> decide

/-- two rule lists emit the same SET of entries under every condition (2³ vectors × 4 entries) -/
def mapperExtEq (r s : MapperRules) : Bool :=
  [false, true].all fun a => [false, true].all fun b => [false, true].all fun c =>
    MapperEmit.all.all fun e => (interpMapper r ⟨a, b, c⟩).contains e == (interpMapper s ⟨a, b, c⟩).contains e

theorem mapperExtEq_sound {r s : MapperRules} (h : mapperExtEq r s = true) (v : MFacts) (e : MapperEmit) :
    (interpMapper r v).contains e = (interpMapper s v).contains e := by
  obtain ⟨a, b, c⟩ := v
  simp only [mapperExtEq, List.all_eq_true] at h
  exact eq_of_beq (h a (bool_mem a) b (bool_mem b) c (bool_mem c) e (MapperEmit.mem_all e))

/-- **the per-run obligation, packaged**: tables regenerated from the source that (i) are extensionally the pinned
tables and (ii) pass `DispatchOk` / `MapperOk` drive exactly the model's generator (so every C06 theorem speaks about
them), and the property theorems hold of the generator they drive. (i) alone already gives the first conclusion, (ii)
alone the others: the two checks are independent ties.) -/
theorem C06_of_translated_tables {t : DispatchTable} {r : MapperRules}
    (he : dispatchExtEq t dispatch = true) (hme : mapperExtEq r mapperRules = true)
    (ht : DispatchOk t) (hr : MapperOk r) (q : Quirks) (m : ClassModel) :
    generateT t r q m = generate q m ∧
    (WF m → Complete m (generateT t r q m) ∧ Valid (generateT t r Quirks.none m) ∧
      observe (generateT t r q m) = Spec.expected m) ∧
    inheritConditionsGiven r m = true := by
  refine ⟨?_, fun wf => ⟨C06_complete_of_tables ht hr q m wf, C06_full_of_tables ht hr m wf,
    C06_spec_of_tables ht hr q m wf⟩, C06_inherit_condition_of_rules hr m⟩
  rw [generate_eq_interp]
  exact C06_generateT_ext (dispatchExtEq_sound he) (mapperExtEq_sound hme) q m

/-! ## non-vacuity and what the finite checks reject -/

example : DispatchOk dispatch ∧ MapperOk mapperRules ∧ dispatchExtEq dispatch dispatch = true := by decide

/-- `and not is_container` dropped from the builtin branch: `List[int]` would become a plain column -/
example : ¬ DispatchOk
    [ (.atom .isTypeType, .typeType), (.or (.atom .isBuiltinType) (.atom .isEnum), .builtin),
      (.and (.atom .isOneToOne) (.atom .endpointMapped), .oneToOne),
      (.and (.atom .isOneToOne) (.atom .endpointInTypeMappings), .customType),
      (.or (.atom .isCollectionOfBuiltins) (.and (.atom .endpointInTypeMappings) (.atom .isContainer)), .json),
      (.atom .isOneToMany, .oneToMany) ] := by decide

/-- the one-to-many branch moved to the front: `Type[X]` and containers of custom types become relationships -/
example : ¬ DispatchOk ((.atom .isOneToMany, .oneToMany) :: dispatch) := by decide

/-- a harmless rewrite: De Morgan + commuted operands in the builtin branch — same decision function -/
example : dispatchExtEq
    [ (.atom .isTypeType, .typeType),
      (.not (.or (.atom .isContainer) (.and (.not (.atom .isEnum)) (.not (.atom .isBuiltinType)))), .builtin),
      (.and (.atom .endpointMapped) (.atom .isOneToOne), .oneToOne),
      (.and (.atom .isOneToOne) (.atom .endpointInTypeMappings), .customType),
      (.or (.and (.atom .isContainer) (.atom .endpointInTypeMappings)) (.atom .isCollectionOfBuiltins), .json),
      (.atom .isOneToMany, .oneToMany) ] dispatch = true := by decide

/-- `inherit_condition` only for classes without children: rejected -/
example : ¬ MapperOk
    [ (.and (.not (.atom .hasParent)) (.atom .hasChildren), [.polyColumn, .polyOn, .polyIdentitySelf]),
      (.atom .hasParent, [.polyIdentitySelf]),
      (.and (.and (.atom .hasParent) (.atom .joined)) (.not (.atom .hasChildren)), [.inheritCondition]) ] := by decide

/-- a model in which a class refers to its own direct subclass, to a grandchild, and child and parent refer to each
other: well-formed, so the theorems above apply to it -/
def hierarchyRefModel : ClassModel :=
  [ ⟨['A'], none, [⟨['x'], .scalar .int false⟩, ⟨['k', 'i', 'd'], .ref ['B'] true⟩, ⟨['g', 'c'], .ref ['C'] false⟩,
      ⟨['k', 'i', 'd', 's'], .coll ['B']⟩]⟩,
    ⟨['B'], some ['A'], [⟨['u', 'p'], .ref ['A'] true⟩]⟩,
    ⟨['C'], some ['B'], [⟨['t', 'o', 'p'], .ref ['A'] false⟩]⟩ ]

example : WF hierarchyRefModel ∧ inheritConditionsGiven mapperRules hierarchyRefModel = true ∧
    Valid (generateT dispatch mapperRules Quirks.none hierarchyRefModel) := by decide

end KrroodVerif.OrmGen
